/-
Model of the lock state, clear-text buffers, caches and database rows of /repo/waddrmgr
(manager.go, scoped_manager.go, address.go, sync.go, db.go)  — properties C05 and C08.

Key material and passphrases are symbolic:
* a passphrase is a `Nat` id; "the passphrase unlocks" is modelled as equality with the id the stored scrypt
  parameters were made from (snacl.SecretKey.DeriveKey compares sha256 of the derived key with the stored digest;
  *distinct passphrases give distinct digests* is the cryptographic hypothesis, carried by this equality);
* a clear-text buffer is `nil | zero | nonzero` (what the build-tagged hook `VerifBufferReport` reports);
* an address is identified by how it was made: `chain acct branch index`, `imp k` (imported key number k),
  `scr kind sid` (imported script; kind 0 = p2sh, 1 = p2wsh, 2 = taproot).

Managed-address objects are *heap objects with identity* (`Mem.heap`): the same Go pointer can sit in `s.addrs`,
in `acctInfo.lastExternalAddr`, and in `deriveOnUnlock`; `Manager.lock()` only walks some of these.

`Cfg` carries one flag per code variant the Go engine detects on the tree under test, so that one model follows
both the original snapshot and the fixed tree (in parentheses: the /repo commit that turns the flag on; every one of
them is in /repo today, so the current tree is `Cfg.fixed`):
  f1  : lock() purges privKeyCache and DeriveFromKeyPathCache refuses up front when locked/watch-only  (28aa715)
  f2  : Unlock skips cached accounts without an encrypted private key                                    (37f56ec)
  f2b : Unlock drops derive-on-unlock entries whose derived key is public (watch-only account)           (2a11dd6)
  f3  : extendAddresses uses `len(acctKeyEncrypted)==0` as its watch-only test                           (fd5efc1)
  f11 : lock() also wipes acctInfo.lastExternalAddr/lastInternalAddr                                    (15e7986)
  f12 : the salted passphrase is built in a fresh buffer (an EMPTY passphrase does not alias, and then wipe,
        `privPassphraseSalt` through `append(salt[:], passphrase...)` + `zero.Bytes`)                    (aeb55de)

  f13 : the onCommit closure of nextAddresses wipes the clear-text key of the address objects it caches when the
        manager is locked at commit time                                                                 (bb83ae8)
  fo1 : Unlock restores cryptoKeyScript from cryptoKeyScriptEncrypted (it used to stay the zero key) and
        deletePrivateKeys also handles secret taproot script rows                                        (b81a3ff)
Not flagged (modelled as the fixed behaviour only): /repo b4b754f, `DeriveFromKeyPathCache` answers ErrWatchingOnly for a
cached account without a private key (`deriveCache`: `!info.keyPriv`); before it an unlocked manager panicked.

The empty passphrase has id `EMPTY = 0`.
-/
namespace AddrLock

structure Cfg where
  f1  : Bool
  f2  : Bool
  f2b : Bool
  f3  : Bool
  f11 : Bool
  f12 : Bool
  f13 : Bool
  fo1 : Bool
  cap : Nat
deriving Repr, DecidableEq, Inhabited

def Cfg.fixed : Cfg := ⟨true, true, true, true, true, true, true, true, 10000⟩
/-- HISTORICAL tree, not the current one: /repo at ebb54a5 (first delivery), where f12, f13 and fo1 were still open
(fixed since by aeb55de, bb83ae8, b81a3ff).  Kept because the counter-example theorems of C05/C08 are stated on it.
The current /repo is `Cfg.fixed`. -/
def Cfg.repo : Cfg := ⟨true, true, true, true, true, false, false, false, 10000⟩
/-- HISTORICAL tree: /repo at b81a3ff, where only f13 was open (fixed since by bb83ae8) -/
def Cfg.repo2 : Cfg := ⟨true, true, true, true, true, true, false, true, 10000⟩
def Cfg.snapshot : Cfg := ⟨false, false, false, false, false, false, false, false, 10000⟩

/-- id of the empty passphrase -/
def EMPTY : Nat := 0

inductive Err where
  | locked | watchingOnly | wrongPassphrase | crypto | accountNotFound | addressNotFound
  | duplicateAccount | duplicateAddress | invalidAccount | accountNotCached | notPrivExtKey
  | tooManyAddresses | database | noManager | panic | noTx | txOpen | alreadyExists | noExist | scopeNotFound
  | notScript | notPubKey | blockNotFound
deriving Repr, DecidableEq, Inhabited

inductive AKey where
  | chain (acct br idx : Nat)
  | imp (k : Nat)
  | scr (kind sid : Nat)
deriving Repr, DecidableEq, Inhabited

/-- `ImportedAddrAccount = MaxAccountNum + 1 = 2^31 - 1` -/
def IMPORTED : Nat := 2147483647
/-- `MaxAddressesPerAccount = hdkeychain.HardenedKeyStart - 1` -/
def MAXADDR : Nat := 2147483647
/-- the four default key scopes created by `Create` (index 0..3) -/
def nScopes : Nat := 4
/-- `MaxReorgDepth` -/
def MAXREORG : Nat := 10000

/-! ### association lists -/

def aget {α β} [DecidableEq α] : List (α × β) → α → Option β
  | [], _ => none
  | (k', v) :: t, k => if k' = k then some v else aget t k

def aset {α β} [DecidableEq α] : List (α × β) → α → β → List (α × β)
  | [], k, v => [(k, v)]
  | (k', v') :: t, k, v => if k' = k then (k, v) :: t else (k', v') :: aset t k v

def adel {α β} [DecidableEq α] : List (α × β) → α → List (α × β)
  | [], _ => []
  | (k', v') :: t, k => if k' = k then adel t k else (k', v') :: adel t k

/-! ### database (what db.go persists) -/

structure AcctRow where
  name    : String
  wo      : Bool      -- dbWatchOnlyAccountRow (imported xpub) vs dbDefaultAccountRow
  hasPriv : Bool      -- privKeyEncrypted non-empty
  nextExt : Nat
  nextInt : Nat
deriving Repr, DecidableEq, Inhabited

inductive ARow where
  | chain
  | imp (hasPriv : Bool)
  | script (hasScript : Bool)
  | wscript (taproot secret hasScript : Bool)
deriving Repr, DecidableEq, Inhabited

structure ScopeDisk where
  accts    : List (Nat × AcctRow) := []
  addrs    : List (AKey × ARow) := []
  used     : List AKey := []
  lastAcct : Nat := 0
deriving Repr, Inhabited

structure Disk where
  created   : Bool := false
  watchOnly : Bool := false
  privPass  : Nat := 0
  pubPass   : Nat := 0
  scopes    : Nat → ScopeDisk := fun _ => {}
  syncedTo  : Nat × Nat := (0, 0)
  hashes    : List (Nat × Nat) := []
  birthday  : Bool := false        -- a birthday block is stored (PutSyncedTo then demands the predecessor hash)
deriving Inhabited

def Disk.updScope (d : Disk) (sc : Nat) (f : ScopeDisk → ScopeDisk) : Disk :=
  { d with scopes := fun i => if i = sc then f (d.scopes i) else d.scopes i }

/-! ### memory (what Manager / ScopedKeyManager hold) -/

inductive Buf where | nil | zero | nonzero
deriving Repr, DecidableEq, Inhabited

/-- `Zero()` on a key buffer. -/
def Buf.zeroed : Buf → Buf
  | .nil => .nil
  | _ => .zero

inductive OKind where
  | managed                  -- *managedAddress
  | script                   -- *scriptAddress (p2sh)
  | wscript (secret : Bool)  -- *witnessScriptAddress
  | tscript (secret : Bool)  -- *taprootScriptAddress
deriving Repr, DecidableEq, Inhabited

structure Obj where
  key    : AKey := .imp 0
  kind   : OKind := .managed
  hasEnc : Bool := false   -- privKeyEncrypted / scriptEncrypted non-empty
  ct     : Bool := false   -- privKeyCT / scriptClearText populated (non-nil, non-zero)
  acct   : Nat := 0
deriving Repr, DecidableEq, Inhabited

structure AcctInfo where
  name    : String
  wo      : Bool
  hasEnc  : Bool     -- len(acctKeyEncrypted) != 0
  keyPriv : Bool     -- acctKeyPriv != nil
  nextExt : Nat
  nextInt : Nat
  lastExt : Nat      -- object id of lastExternalAddr
  lastInt : Nat
deriving Repr, DecidableEq, Inhabited

/-- `unlockDeriveInfo` -/
structure Dou where
  obj  : Nat
  acct : Nat
  br   : Nat
  idx  : Nat
deriving Repr, DecidableEq, Inhabited

structure Path where
  acct : Nat
  br   : Nat
  idx  : Nat
deriving Repr, DecidableEq, Inhabited

structure ScopeMem where
  acctInfo : List (Nat × AcctInfo) := []
  addrs    : List (AKey × Nat) := []
  dou      : List Dou := []
  pkc      : List Path := []      -- privKeyCache, most recently used first
deriving Repr, Inhabited

structure Mem where
  locked       : Bool := true
  watchOnly    : Bool := false
  masterPriv   : Buf := .zero
  cryptoPriv   : Buf := .zero
  cryptoScript : Buf := .zero
  hashed       : Option (Nat × Bool) := none  -- hashedPrivPassphrase (none = all zero): passphrase id and
                                              -- whether privPassphraseSalt was all-zero when it was hashed
  saltZero     : Bool := false         -- privPassphraseSalt is all zero (wiped through the aliasing append)
  privPass     : Nat := 0              -- passphrase id of masterKeyPriv.Parameters held in memory
  pubPass      : Nat := 0
  scopes       : Nat → ScopeMem := fun _ => {}
  heap         : Nat → Obj := fun _ => {}
  heapN        : Nat := 0
  syncedTo     : Nat × Nat := (0, 0)
deriving Inhabited

def Mem.updScope (m : Mem) (sc : Nat) (f : ScopeMem → ScopeMem) : Mem :=
  { m with scopes := fun i => if i = sc then f (m.scopes i) else m.scopes i }

def Mem.alloc (m : Mem) (o : Obj) : Mem × Nat :=
  ({ m with heap := fun i => if i = m.heapN then o else m.heap i, heapN := m.heapN + 1 }, m.heapN)

def Mem.setObj (m : Mem) (id : Nat) (f : Obj → Obj) : Mem :=
  { m with heap := fun i => if i = id then f (m.heap i) else m.heap i }

/-- closure registered with `ns.Tx().OnCommit` by `nextAddresses` -/
structure Pend where
  scope     : Nat
  acct      : Nat
  internal  : Bool
  nextIdx   : Nat
  infos     : List Dou
  watchOnly : Bool
deriving Repr, Inhabited

structure State where
  cfg  : Cfg := Cfg.fixed
  disk : Disk := {}
  snap : Option Disk := none    -- committed image while a read-write transaction is open
  pend : List Pend := []
  mem  : Option Mem := none

instance : Inhabited State := ⟨{}⟩

/-! ### Manager.lock()  (manager.go) -/

def lockScope (cfg : Cfg) (s : ScopeMem) : ScopeMem :=
  { s with
    acctInfo := s.acctInfo.map (fun p => (p.1, { p.2 with keyPriv := false }))
    pkc := if cfg.f1 then [] else s.pkc }

/-- is object `id` reached by the loops of `lock()`? (`s.addrs` entries of kind `*managedAddress` /
`*scriptAddress`; with f11 also the two last-address objects of every cached account) -/
def shouldWipe (cfg : Cfg) (m : Mem) (id : Nat) : Bool :=
  let o := m.heap id
  (List.range nScopes).any fun sc =>
    let s := m.scopes sc
    ((o.kind == .managed || o.kind == .script) && s.addrs.any (fun p => p.2 == id))
    || (cfg.f11 && o.kind == .managed && s.acctInfo.any (fun p => p.2.lastExt == id || p.2.lastInt == id))

def lockMem (cfg : Cfg) (m : Mem) : Mem :=
  { m with
    locked := true
    masterPriv := m.masterPriv.zeroed
    cryptoPriv := m.cryptoPriv.zeroed
    cryptoScript := m.cryptoScript.zeroed
    hashed := none
    scopes := fun i => lockScope cfg (m.scopes i)
    heap := fun id => if shouldWipe cfg m id then { m.heap id with ct := false } else m.heap id }

/-! ### keyToManaged / loadAccountInfo (scoped_manager.go) -/

/-- `keyToManaged` for a chained key: a private extended key gives an address object holding the clear-text
key (newManagedAddress), a public one gives an object without, which is queued in `deriveOnUnlock`. -/
def keyToManaged (m : Mem) (sc acct br idx : Nat) (priv : Bool) : Mem × Nat :=
  let r := m.alloc { key := .chain acct br idx, kind := .managed, hasEnc := priv, ct := priv, acct := acct }
  if priv then r
  else (r.1.updScope sc (fun s => { s with dou := s.dou ++ [⟨r.2, acct, br, idx⟩] }), r.2)

/-- the account info built by `loadAccountInfo` from an account row, cached under the account number -/
def loadAcctRow (m : Mem) (sc acct : Nat) (row : AcctRow) : Mem :=
  let hasPriv := !m.locked && !m.watchOnly && !row.wo
  let r1 := keyToManaged m sc acct 0 (row.nextExt - 1) hasPriv
  let r2 := keyToManaged r1.1 sc acct 1 (row.nextInt - 1) hasPriv
  let ai : AcctInfo :=
    { name := row.name, wo := row.wo, hasEnc := row.hasPriv && !row.wo, keyPriv := hasPriv,
      nextExt := row.nextExt, nextInt := row.nextInt, lastExt := r1.2, lastInt := r2.2 }
  r2.1.updScope sc fun s => { s with acctInfo := aset s.acctInfo acct ai }

/-- `loadAccountInfo` -/
def loadAcct (d : Disk) (m : Mem) (sc acct : Nat) : Except Err Mem :=
  match aget (m.scopes sc).acctInfo acct with
  | some _ => .ok m
  | none =>
    match aget (d.scopes sc).accts acct with
    | none => .error .accountNotFound
    | some row =>
      -- the imported account row has no extended keys: decrypting the (nil) public key fails
      if acct = IMPORTED then .error .crypto else
      if (!m.locked && !m.watchOnly && !row.wo) && !row.hasPriv then .error .crypto else
      .ok (loadAcctRow m sc acct row)

def acctInfoOf (m : Mem) (sc acct : Nat) : Option AcctInfo := aget (m.scopes sc).acctInfo acct

/-- `chainAddressRowToManaged` (via deriveKeyFromPath + keyToManaged) -/
def chainRowToManaged (d : Disk) (m : Mem) (sc acct br idx : Nat) : Except Err (Mem × Nat) :=
  match loadAcct d m sc acct with
  | .error e => .error e
  | .ok m1 =>
    match acctInfoOf m1 sc acct with
    | none => .error .accountNotFound
    | some info =>
      let priv := !m1.locked && !m1.watchOnly && info.keyPriv
      .ok (keyToManaged m1 sc acct br idx priv)

/-- `loadAndCacheAddress` -/
def loadAndCache (d : Disk) (m : Mem) (sc : Nat) (k : AKey) : Except Err (Mem × Nat) :=
  match aget (d.scopes sc).addrs k with
  | none => .error .addressNotFound
  | some row =>
    let cache (r : Mem × Nat) : Mem × Nat :=
      (r.1.updScope sc (fun s => { s with addrs := aset s.addrs k r.2 }), r.2)
    match row, k with
    | .chain, .chain acct br idx =>
      match chainRowToManaged d m sc acct br idx with
      | .error e => .error e
      | .ok r => .ok (cache r)
    | .chain, _ => .error .database
    | .imp hp, _ => .ok (cache (m.alloc { key := k, kind := .managed, hasEnc := hp, ct := false, acct := IMPORTED }))
    | .script hs, _ => .ok (cache (m.alloc { key := k, kind := .script, hasEnc := hs, ct := false, acct := IMPORTED }))
    | .wscript tap sec hs, _ =>
      .ok (cache (m.alloc { key := k, kind := if tap then .tscript sec else .wscript sec, hasEnc := hs, ct := false,
                            acct := IMPORTED }))

/-- `ScopedKeyManager.Address`: cache first, then database. -/
def addressOf (d : Disk) (m : Mem) (sc : Nat) (k : AKey) : Except Err (Mem × Nat) :=
  match aget (m.scopes sc).addrs k with
  | some id => .ok (m, id)
  | none => loadAndCache d m sc k

/-! ### Unlock (manager.go) -/

/-- the loop over `manager.acctInfo` in Unlock: `none` = a cached account without encrypted private key was hit
and f2 is off (decrypt of nil fails). -/
def unlockAccts (cfg : Cfg) : List (Nat × AcctInfo) → Option (List (Nat × AcctInfo))
  | [] => some []
  | (a, i) :: t =>
    if !i.hasEnc then
      if cfg.f2 then (unlockAccts cfg t).map ((a, i) :: ·) else none
    else (unlockAccts cfg t).map ((a, { i with keyPriv := true }) :: ·)

/-- `acctInfo.acctKeyPriv != nil` of a cached account (false when not cached) -/
def keyPrivOf (m : Mem) (sc acct : Nat) : Bool :=
  match acctInfoOf m sc acct with | some i => i.keyPriv | none => false

/-- the loop over `manager.deriveOnUnlock` (a snapshot `es` of the slice); every processed entry removes the
head of the live slice. Result: memory and `none` (all done) / `some e` (stopped with error e; for `.panic`
the manager is left as it was at that point, otherwise Unlock calls lock() — done by the caller). -/
def unlockDou (cfg : Cfg) (d : Disk) (sc : Nat) : List Dou → Mem → Mem × Option Err
  | [], m => (m, none)
  | e :: es, m =>
    match loadAcct d m sc e.acct with
    | .error err => (m, some err)
    | .ok m1 =>
      let priv := keyPrivOf m1 sc e.acct
      let drop (x : Mem) : Mem := x.updScope sc (fun s => { s with dou := s.dou.tail })
      if !priv then
        if cfg.f2b then unlockDou cfg d sc es (drop m1) else (m1, some .panic)
      else
        let m2 := m1.setObj e.obj (fun o => if o.kind = .managed then { o with hasEnc := true, ct := true } else o)
        unlockDou cfg d sc es (drop m2)

def unlockScopes (cfg : Cfg) (d : Disk) : List Nat → Mem → Mem × Option Err
  | [], m => (m, none)
  | sc :: rest, m =>
    match unlockAccts cfg (m.scopes sc).acctInfo with
    | none => (m, some .crypto)
    | some ai =>
      let m1 := m.updScope sc (fun s => { s with acctInfo := ai })
      match unlockDou cfg d sc (m1.scopes sc).dou m1 with
      | (m2, some e) => (m2, some e)
      | (m2, none) => unlockScopes cfg d rest m2

/-- `saltedPassphrase := append(m.privPassphraseSalt[:], passphrase...)` … `zero.Bytes(saltedPassphrase)`:
for an empty passphrase the append returns the salt array itself, so the wipe clears the salt. -/
def saltAfter (cfg : Cfg) (m : Mem) (p : Nat) : Bool :=
  if !cfg.f12 && p = EMPTY then true else m.saltZero

/-- the master key is derived and the crypto private key (fo1: and the crypto script key) decrypted -/
def unlockStart (cfg : Cfg) (m : Mem) : Mem :=
  { m with masterPriv := .nonzero, cryptoPriv := .nonzero,
           cryptoScript := if cfg.fo1 then .nonzero else m.cryptoScript }

def unlock (cfg : Cfg) (d : Disk) (m : Mem) (p : Nat) : Mem × Option Err :=
  if m.watchOnly then (m, some .watchingOnly)
  else if !m.locked then
    let m' := { m with saltZero := saltAfter cfg m p }
    if m.hashed = some (p, m.saltZero) then (m', none) else (lockMem cfg m', some .wrongPassphrase)
  else if p ≠ m.privPass then (lockMem cfg m, some .wrongPassphrase)
  else
    let m1 := unlockStart cfg m
    match unlockScopes cfg d (List.range nScopes) m1 with
    | (m2, some .panic) => (m2, some .panic)
    | (m2, some e) => (lockMem cfg m2, some e)
    | (m2, none) =>
      ({ m2 with locked := false, hashed := some (p, m2.saltZero), saltZero := saltAfter cfg m2 p }, none)

def lockOp (cfg : Cfg) (m : Mem) : Mem × Option Err :=
  if m.watchOnly then (m, some .watchingOnly)
  else if m.locked then (m, some .locked)
  else (lockMem cfg m, none)

/-! ### Open / Create (manager.go) -/

/-- `loadManager`: a fresh, locked manager from the database. -/
def openMem (d : Disk) : Mem :=
  { locked := true, watchOnly := d.watchOnly,
    masterPriv := if d.watchOnly then .nil else .zero,
    cryptoPriv := .zero, cryptoScript := .zero, hashed := none,
    privPass := d.privPass, pubPass := d.pubPass, syncedTo := d.syncedTo }

def defaultScope : ScopeDisk :=
  { accts := [(0, ⟨"default", false, true, 0, 0⟩), (IMPORTED, ⟨"imported", false, false, 0, 0⟩)], lastAcct := 0 }

def createDisk (pub priv : Nat) : Disk :=
  { created := true, watchOnly := false, privPass := priv, pubPass := pub,
    scopes := fun i => if i < nScopes then defaultScope else {},
    syncedTo := (0, 0), hashes := [(0, 0)] }

/-! ### ChangePassphrase / ConvertToWatchingOnly -/

def changePass (cfg : Cfg) (d : Disk) (m : Mem) (old new : Nat) (priv : Bool) : Disk × Mem × Option Err :=
  if priv && m.watchOnly then (d, m, some .watchingOnly)
  else if priv then
    if old ≠ m.privPass then (d, m, some .wrongPassphrase)
    else
      ({ d with privPass := new },
       -- a fresh random salt; when unlocked the new hash is taken first, then (empty passphrase, no f12) the
       -- aliased salt is wiped before it is stored
       { m with privPass := new, masterPriv := if m.locked then .zero else .nonzero,
                hashed := if m.locked then none else some (new, false),
                saltZero := if m.locked then false else (!cfg.f12 && new = EMPTY) }, none)
  else
    if old ≠ m.pubPass then (d, m, some .wrongPassphrase)
    else ({ d with pubPass := new }, { m with pubPass := new }, none)

/-- `deletePrivateKeys` on an account row -/
def delPrivAcct (r : AcctRow) : AcctRow := if r.wo then r else { r with hasPriv := false }

/-- `deletePrivateKeys` on an address row (before b81a3ff secret *taproot* script rows were not handled) -/
def delPrivAddr (cfg : Cfg) : ARow → ARow
  | .chain => .chain
  | .imp _ => .imp false
  | .script _ => .script false
  | .wscript tap sec hs => if (!tap || cfg.fo1) && sec then .wscript tap sec false else .wscript tap sec hs

/-- `deletePrivateKeys` on one scope bucket -/
def delPrivScope (cfg : Cfg) (s : ScopeDisk) : ScopeDisk :=
  { s with
    accts := s.accts.map (fun p => (p.1, delPrivAcct p.2))
    addrs := s.addrs.map (fun p => (p.1, delPrivAddr cfg p.2)) }

def convertWO (cfg : Cfg) (d : Disk) (m : Mem) : Disk × Mem :=
  if m.watchOnly then (d, m)
  else
    let d1 := { d with watchOnly := true, scopes := fun i => delPrivScope cfg (d.scopes i) }
    let m1 := if m.locked then m else lockMem cfg m
    let inAddrs (id : Nat) : Bool := (List.range nScopes).any fun sc => (m1.scopes sc).addrs.any (fun p => p.2 == id)
    let m2 : Mem :=
      { m1 with
        scopes := fun i => { (m1.scopes i) with
          acctInfo := (m1.scopes i).acctInfo.map (fun p => (p.1, { p.2 with hasEnc := false })) }
        heap := fun id =>
          let o := m1.heap id
          if (o.kind == .managed || o.kind == .script) && inAddrs id then { o with hasEnc := false } else o
        cryptoScript := .nil, cryptoPriv := .nil, masterPriv := .nil, watchOnly := true }
    (d1, m2)

/-! ### accounts -/

def lookupName (s : ScopeDisk) (name : String) : Option Nat :=
  (s.accts.find? (fun p => p.2.name == name)).map (·.1)

def validName (name : String) : Bool := name != "" && name != "imported"

def newAccount (d : Disk) (m : Mem) (sc : Nat) (name : String) (wo : Bool) : Disk × Except Err Nat :=
  if !wo && m.watchOnly then (d, .error .watchingOnly)
  else if !wo && m.locked then (d, .error .locked)
  else
    let s := d.scopes sc
    let acct := s.lastAcct + 1
    if !validName name then (d, .error .invalidAccount)
    else if (lookupName s name).isSome then (d, .error .duplicateAccount)
    else
      (d.updScope sc (fun s => { s with accts := aset s.accts acct ⟨name, wo, !wo, 0, 0⟩, lastAcct := acct }), .ok acct)

def renameAccount (d : Disk) (m : Mem) (sc acct : Nat) (name : String) : Disk × Mem × Option Err :=
  if acct = IMPORTED then (d, m, some .invalidAccount)
  else
    let s := d.scopes sc
    if (lookupName s name).isSome then (d, m, some .duplicateAccount)
    else if !validName name then (d, m, some .invalidAccount)
    else match aget s.accts acct with
      | none => (d, m, some .accountNotFound)
      | some row =>
        let d1 := d.updScope sc (fun s => { s with accts := aset s.accts acct { row with name := name } })
        let m1 := match acctInfoOf m sc acct with
          | some ai => m.updScope sc (fun s => { s with acctInfo := aset s.acctInfo acct { ai with name := name } })
          | none => m
        (d1, m1, none)

/-! ### nextAddresses / extendAddresses -/

/-- branch number of the internal flag -/
def brOf (internal : Bool) : Nat := if internal then 1 else 0

/-- next index of the branch -/
def nextOf (info : AcctInfo) (internal : Bool) : Nat := if internal then info.nextInt else info.nextExt

/-- last address object of the branch -/
def lastOf (info : AcctInfo) (internal : Bool) : Nat := if internal then info.lastInt else info.lastExt

/-- `acctInfo.next…Index = idx; acctInfo.last…Addr = obj` -/
def setNext (info : AcctInfo) (internal : Bool) (idx obj : Nat) : AcctInfo :=
  if internal then { info with nextInt := idx, lastInt := obj } else { info with nextExt := idx, lastExt := obj }

/-- the `watchOnly` test of extendAddresses (f3: same predicate as nextAddresses) -/
def extWatch (cfg : Cfg) (m : Mem) (info : AcctInfo) : Bool :=
  m.watchOnly || (if cfg.f3 then !info.hasEnc else info.keyPriv)

/-- cache insertion + derive-on-unlock registration done per new address by extendAddresses / the onCommit closure -/
def cacheNew (sc : Nat) (watchOnly : Bool) (m : Mem) (e : Dou) : Mem :=
  m.updScope sc fun s =>
    { s with addrs := aset s.addrs (.chain e.acct e.br e.idx) e.obj,
             dou := if m.locked && !watchOnly then s.dou ++ [e] else s.dou }

/-- allocate the address objects for indices `start … start+n-1` (newManagedAddressFromExtKey) -/
def mkAddrs (m : Mem) (acct br : Nat) (priv : Bool) : Nat → Nat → Mem × List Dou
  | _, 0 => (m, [])
  | start, n + 1 =>
    let r := m.alloc { key := .chain acct br start, kind := .managed, hasEnc := priv, ct := priv, acct := acct }
    let rest := mkAddrs r.1 acct br priv (start + 1) n
    (rest.1, ⟨r.2, acct, br, start⟩ :: rest.2)

/-- `putChainedAddress`: address row + next index of the account row (`none`: account row missing). -/
def putChained (d : Disk) (sc acct br idx : Nat) : Option Disk :=
  match aget (d.scopes sc).accts acct with
  | none => none
  | some row =>
    let row' := if br = 1 then { row with nextInt := idx + 1 } else { row with nextExt := idx + 1 }
    some (d.updScope sc fun s =>
      { s with addrs := aset s.addrs (.chain acct br idx) .chain, accts := aset s.accts acct row' })

/-- what a FAILING `putChainedAddress` leaves in the open transaction: `putAddress` has already written the address
row when the account row turns out to be missing (`deserializeAccountRow` of a nil value).  Only reachable with an
account that lives in the `acctInfo` cache but not in the database (created in a bracket that did not commit); the
orphan row survives when the caller commits the bracket in spite of the error. -/
def putOrphan (d : Disk) (sc acct br idx : Nat) : Disk :=
  d.updScope sc fun s => { s with addrs := aset s.addrs (.chain acct br idx) .chain }

/-- the write-and-read-back loop of `nextAddresses` -/
def putAndLoad (sc : Nat) : List Dou → Disk → Mem → Disk × Mem × Option Err
  | [], d, m => (d, m, none)
  | e :: es, d, m =>
    match putChained d sc e.acct e.br e.idx with
    | none => (putOrphan d sc e.acct e.br e.idx, m, some .database)
    | some d1 =>
      match loadAndCache d1 m sc (.chain e.acct e.br e.idx) with
      | .error err => (d1, m, some err)
      | .ok r => putAndLoad sc es d1 r.1

def putAll (sc : Nat) : List Dou → Disk → Option Disk
  | [], d => some d
  | e :: es, d =>
    match putChained d sc e.acct e.br e.idx with
    | none => none
    | some d1 => putAll sc es d1

/-- the transaction's view after the write loop of `extendAddresses` failed (`putAll … = none`): the rows written
before the failing `putChainedAddress`, plus its orphan address row -/
def putAllFail (sc : Nat) : List Dou → Disk → Disk
  | [], d => d
  | e :: es, d =>
    match putChained d sc e.acct e.br e.idx with
    | none => putOrphan d sc e.acct e.br e.idx
    | some d1 => putAllFail sc es d1

structure NextOut where
  disk : Disk
  mem  : Mem
  pend : Option Pend
  res  : Except Err (List AKey)

def nextAddresses (d : Disk) (m : Mem) (sc acct n : Nat) (internal : Bool) : NextOut :=
  match loadAcct d m sc acct with
  | .error e => ⟨d, m, none, .error e⟩
  | .ok m1 =>
    match acctInfoOf m1 sc acct with
    | none => ⟨d, m1, none, .error .accountNotFound⟩
    | some info =>
      let watchOnly := m1.watchOnly || !info.hasEnc
      let priv := !m1.locked && !watchOnly
      let br := brOf internal
      let nextIndex := nextOf info internal
      if n > MAXADDR || nextIndex + n > MAXADDR then ⟨d, m1, none, .error .tooManyAddresses⟩
      else if priv && !info.keyPriv then ⟨d, m1, none, .error .panic⟩
      else
        let r := mkAddrs m1 acct br priv nextIndex n
        match putAndLoad sc r.2 d r.1 with
        | (d2, m2, some e) => ⟨d2, m2, none, .error e⟩
        | (d2, m2, none) =>
          ⟨d2, m2, some ⟨sc, acct, internal, nextIndex + n, r.2, watchOnly⟩,
           .ok (r.2.map fun e => .chain e.acct e.br e.idx)⟩

/-- the `onCommit` closure of nextAddresses -/
def runPend (cfg : Cfg) (m : Mem) (p : Pend) : Mem :=
  -- f13: `if s.rootManager.IsLocked() { a.lock() }` on every *managedAddress the closure is about to cache
  let m0 : Mem :=
    if cfg.f13 && m.locked then
      { m with heap := fun id =>
          if p.infos.any (fun e => e.obj == id) && (m.heap id).kind == .managed then { m.heap id with ct := false }
          else m.heap id }
    else m
  let m1 := p.infos.foldl (cacheNew p.scope p.watchOnly) m0
  match p.infos.getLast?, acctInfoOf m1 p.scope p.acct with
  | some last, some ai =>
    m1.updScope p.scope fun s =>
      { s with acctInfo := aset s.acctInfo p.acct (setNext ai p.internal p.nextIdx last.obj) }
  | _, _ => m1

def extendAddresses (cfg : Cfg) (d : Disk) (m : Mem) (sc acct lastIdx : Nat) (internal : Bool) :
    Disk × Mem × Option Err :=
  match loadAcct d m sc acct with
  | .error e => (d, m, some e)
  | .ok m1 =>
    match acctInfoOf m1 sc acct with
    | none => (d, m1, some .accountNotFound)
    | some info =>
      let watchOnly := extWatch cfg m1 info
      let priv := !m1.locked && !watchOnly
      let br := brOf internal
      let nextIndex := nextOf info internal
      if lastIdx < nextIndex then (d, m1, none)
      else if lastIdx > MAXADDR then (d, m1, some .tooManyAddresses)
      else if priv && !info.keyPriv then (d, m1, some .panic)
      else
        let r := mkAddrs m1 acct br priv nextIndex (lastIdx + 1 - nextIndex)
        match putAll sc r.2 d with
        | none => (putAllFail sc r.2 d, r.1, some .database)
        | some d2 =>
          let m2 := r.2.foldl (cacheNew sc watchOnly) r.1
          match r.2.getLast? with
          | none => (d2, m2, none)
          | some last =>
            (d2, m2.updScope sc fun s =>
              { s with acctInfo := aset s.acctInfo acct (setNext info internal (lastIdx + 1) last.obj) }, none)

/-! ### imports / mark used / sync -/

def existsAddr (d : Disk) (m : Mem) (sc : Nat) (k : AKey) : Bool :=
  (aget (m.scopes sc).addrs k).isSome || (aget (d.scopes sc).addrs k).isSome

/-- ImportPrivateKey (`priv = true`) / ImportPublicKey -/
def importKey (d : Disk) (m : Mem) (sc k : Nat) (priv : Bool) : Disk × Mem × Option Err :=
  if priv && m.locked && !m.watchOnly then (d, m, some .locked)
  else if existsAddr d m sc (.imp k) then (d, m, some .duplicateAddress)
  else
    let withPriv := priv && !m.watchOnly
    let d1 := d.updScope sc fun s => { s with addrs := aset s.addrs (.imp k) (.imp withPriv) }
    let r := m.alloc { key := .imp k, kind := .managed, hasEnc := withPriv, ct := withPriv, acct := IMPORTED }
    (d1, r.1.updScope sc (fun s => { s with addrs := aset s.addrs (.imp k) r.2 }), none)

/-- ImportScript (kind 0, always secret) / ImportWitnessScript (1) / ImportTaprootScript (2) -/
def importScript (d : Disk) (m : Mem) (sc kind sid : Nat) (secret : Bool) : Disk × Mem × Option Err :=
  let secret := if kind = 0 then true else secret
  if secret && m.locked then (d, m, some .locked)
  else if secret && m.watchOnly then (d, m, some .watchingOnly)
  else if existsAddr d m sc (.scr kind sid) then (d, m, some .duplicateAddress)
  else
    let row : ARow := if kind = 0 then .script true else .wscript (kind == 2) secret true
    let ok : OKind := if kind = 0 then .script else if kind = 2 then .tscript secret else .wscript secret
    let d1 := d.updScope sc fun s => { s with addrs := aset s.addrs (.scr kind sid) row }
    let r := m.alloc { key := .scr kind sid, kind := ok, hasEnc := true, ct := true, acct := IMPORTED }
    (d1, r.1.updScope sc (fun s => { s with addrs := aset s.addrs (.scr kind sid) r.2 }), none)

def markUsed (d : Disk) (m : Mem) (sc : Nat) (k : AKey) : Disk × Mem :=
  (d.updScope sc (fun s => { s with used := if s.used.contains k then s.used else k :: s.used }),
   m.updScope sc (fun s => { s with addrs := adel s.addrs k }))

def setSyncedTo (d : Disk) (m : Mem) (h hash : Nat) : Disk × Mem × Option Err :=
  -- PutSyncedTo: once the birthday block is known, the hash of height h-1 must be stored
  if h > 0 && d.birthday && (aget d.hashes (h - 1)).isNone then (d, m, some .blockNotFound)
  else
    let hs := aset d.hashes h hash
    let hs := if h > MAXREORG then adel hs (h - MAXREORG) else hs
    ({ d with hashes := hs, syncedTo := (h, hash) }, { m with syncedTo := (h, hash) }, none)

/-! ### private accessors -/

/-- `managedAddress.PrivKey` / `ExportPrivKey` on object `id` -/
def privKeyObj (m : Mem) (id : Nat) : Mem × Option Err :=
  let o := m.heap id
  if o.kind ≠ .managed then (m, some .notPubKey)
  else if m.watchOnly then (m, some .watchingOnly)
  else if m.locked then (m, some .locked)
  else if !o.hasEnc then (m, some .watchingOnly)
  else (m.setObj id (fun o => { o with ct := true }), none)

/-- `Script()` on object `id` -/
def scriptObj (m : Mem) (id : Nat) : Mem × Option Err :=
  let o := m.heap id
  let go (secret : Bool) : Mem × Option Err :=
    if secret && m.watchOnly then (m, some .watchingOnly)
    else if secret && m.locked then (m, some .locked)
    else if o.ct then (m, none)
    else if !o.hasEnc then (m, some .crypto)
    else (m.setObj id (fun o => { o with ct := true }), none)
  match o.kind with
  | .managed => (m, some .notScript)
  | .script => go true
  | .wscript s => go s
  | .tscript s => go s

/-- `Manager.Encrypt/Decrypt(keyType, …)` via selectCryptoKey; kt 0 = CKTPrivate, 1 = CKTScript, 2 = CKTPublic -/
def cryptOp (m : Mem) (kt : Nat) : Option Err :=
  if kt ≤ 1 then (if m.locked || m.watchOnly then some .locked else none)
  else none

/-- `DeriveFromKeyPath` followed by `PrivKey()` on the returned (caller-held) object -/
def derivePath (d : Disk) (m : Mem) (sc acct br idx : Nat) : Mem × Option Err :=
  match chainRowToManaged d m sc acct br idx with
  | .error e => (m, some e)
  | .ok r => privKeyObj r.1 r.2

def pkcTouch (l : List Path) (p : Path) : List Path := p :: l.filter (· ≠ p)

/-- `DeriveFromKeyPathCache` -/
def deriveCache (cfg : Cfg) (m : Mem) (sc : Nat) (p : Path) : Mem × Option Err :=
  if cfg.f1 && m.watchOnly then (m, some .watchingOnly)
  else if cfg.f1 && m.locked then (m, some .locked)
  else
    let s := m.scopes sc
    if s.pkc.contains p then (m.updScope sc (fun s => { s with pkc := pkcTouch s.pkc p }), none)
    else match aget s.acctInfo p.acct with
      | none => (m, some .accountNotCached)
      | some info =>
        let priv := !m.locked && !m.watchOnly
        -- /repo b4b754f "DeriveFromKeyPathCache refuses accounts that have no private key": acctKeyPriv == nil ⇒
        -- ErrWatchingOnly (before that fix an unlocked manager dereferenced the nil key and panicked)
        if !info.keyPriv then (m, some .watchingOnly)
        else if !priv then (m, some .notPrivExtKey)
        else (m.updScope sc (fun s => { s with pkc := (pkcTouch s.pkc p).take cfg.cap }), none)

/-! ### queries of C08 -/

inductive QRes where
  | err (e : Err)
  | addr (k : AKey) (acct : Nat)
  | props (name : String) (ext int imported : Nat)
  | acct (n : Nat)
  | name (s : String)
  | used (b : Bool)
  | synced (h hash : Nat)
  | hash (n : Nat)
deriving Repr, DecidableEq, Inhabited

inductive Query where
  | address (sc : Nat) (k : AKey)
  | props (sc acct : Nat)
  | lastAddr (sc acct : Nat) (internal : Bool)
  | lookup (sc : Nat) (name : String)
  | acctName (sc acct : Nat)
  | used (sc : Nat) (k : AKey)
  | syncedTo
  | blockHash (h : Nat)
deriving Repr, DecidableEq, Inhabited

def importedCount (s : ScopeDisk) : Nat :=
  (s.addrs.filter (fun p => p.2 != .chain)).length

def query (d : Disk) (m : Mem) : Query → Mem × QRes
  | .address sc k =>
    match addressOf d m sc k with
    | .error e => (m, .err e)
    | .ok r => (r.1, .addr (r.1.heap r.2).key (r.1.heap r.2).acct)
  | .props sc acct =>
    if acct = IMPORTED then (m, .props "imported" 0 0 (importedCount (d.scopes sc)))
    else match loadAcct d m sc acct with
      | .error e => (m, .err e)
      | .ok m1 =>
        match acctInfoOf m1 sc acct with
        | none => (m1, .err .accountNotFound)
        | some ai => (m1, .props ai.name ai.nextExt ai.nextInt 0)
  | .lastAddr sc acct internal =>
    match loadAcct d m sc acct with
    | .error e => (m, .err e)
    | .ok m1 =>
      match acctInfoOf m1 sc acct with
      | none => (m1, .err .accountNotFound)
      | some ai =>
        if nextOf ai internal > 0 then
          let id := lastOf ai internal
          (m1, .addr (m1.heap id).key (m1.heap id).acct)
        else (m1, .err .addressNotFound)
  | .lookup sc name =>
    match lookupName (d.scopes sc) name with
    | some a => (m, .acct a)
    | none => (m, .err .accountNotFound)
  | .acctName sc acct =>
    match aget (d.scopes sc).accts acct with
    | some r => (m, .name r.name)
    | none => (m, .err .accountNotFound)
  | .used sc k =>
    -- `ManagedAddress.Used(ns)`: needs the managed address first (cache, then database), then reads the used bucket
    match addressOf d m sc k with
    | .error _ => (m, .used false)
    | .ok r => (r.1, .used ((d.scopes sc).used.contains k))
  | .syncedTo => (m, .synced m.syncedTo.1 m.syncedTo.2)
  | .blockHash h =>
    match aget d.hashes h with
    | some x => (m, .hash x)
    | none => (m, .err .blockNotFound)

/-! ### operations and the step function -/

inductive Op where
  | create (pub priv : Nat)
  | reopen (pub : Nat)                       -- Close + Open
  | unlock (p : Nat)
  | lock
  | changePass (old new : Nat) (priv : Bool)
  | convertWO
  | newAccount (sc : Nat) (name : String) (wo : Bool)
  | rename (sc acct : Nat) (name : String)
  | next (sc acct n : Nat) (internal : Bool)
  | extend (sc acct lastIdx : Nat) (internal : Bool)
  | importKey (sc k : Nat) (priv : Bool)
  | importScript (sc kind sid : Nat) (secret : Bool)
  | markUsed (sc : Nat) (k : AKey)
  | setSynced (h hash : Nat)
  | setBirthday                               -- SetBirthdayBlock (database only)
  | privKey (sc : Nat) (k : AKey)            -- Address(k) then PrivKey()/ExportPrivKey()
  | lastPrivKey (sc acct : Nat) (internal : Bool)   -- Last{Ext,Int}ernalAddress then PrivKey()
  | script (sc : Nat) (k : AKey)             -- Address(k) then Script()
  | crypt (kt : Nat)                         -- Encrypt then Decrypt with key type kt
  | derive (sc acct br idx : Nat)            -- DeriveFromKeyPath then PrivKey()
  | deriveCache (sc acct br idx : Nat)
  | q (x : Query)
  | begin
  | commit
  | rollback                                 -- also used for a failing Commit (bdb rolls back)
deriving Repr, DecidableEq, Inhabited

inductive Res where
  | ok
  | err (e : Err)
  | acct (n : Nat)
  | keys (l : List AKey)
  | q (r : QRes)
deriving Repr, DecidableEq, Inhabited

def ofErr : Option Err → Res
  | none => .ok
  | some e => .err e

/-- is this op one that writes to the database (needs a read-write transaction)? -/
def Op.writes : Op → Bool
  | .changePass .. | .convertWO | .newAccount .. | .rename .. | .next .. | .extend .. | .importKey ..
  | .importScript .. | .markUsed .. | .setSynced .. | .setBirthday => true
  | _ => false

/-- the op itself, inside whatever transaction is current (`s.disk` is the transaction's view) -/
def exec (s : State) (m : Mem) : Op → State × Res
  | .unlock p => let r := unlock s.cfg s.disk m p; ({ s with mem := some r.1 }, ofErr r.2)
  | .lock => let r := lockOp s.cfg m; ({ s with mem := some r.1 }, ofErr r.2)
  | .changePass o n pr =>
    let r := changePass s.cfg s.disk m o n pr; ({ s with disk := r.1, mem := some r.2.1 }, ofErr r.2.2)
  | .convertWO => let r := convertWO s.cfg s.disk m; ({ s with disk := r.1, mem := some r.2 }, .ok)
  | .newAccount sc name wo =>
    match newAccount s.disk m sc name wo with
    | (d, .ok a) => ({ s with disk := d }, .acct a)
    | (d, .error e) => ({ s with disk := d }, .err e)
  | .rename sc a name =>
    let r := renameAccount s.disk m sc a name; ({ s with disk := r.1, mem := some r.2.1 }, ofErr r.2.2)
  | .next sc a n int =>
    let r := nextAddresses s.disk m sc a n int
    let s1 := { s with disk := r.disk, mem := some r.mem,
                       pend := match r.pend with | some p => s.pend ++ [p] | none => s.pend }
    match r.res with
    | .ok l => (s1, .keys l)
    | .error e => (s1, .err e)
  | .extend sc a li int =>
    let r := extendAddresses s.cfg s.disk m sc a li int; ({ s with disk := r.1, mem := some r.2.1 }, ofErr r.2.2)
  | .importKey sc k pr =>
    let r := importKey s.disk m sc k pr; ({ s with disk := r.1, mem := some r.2.1 }, ofErr r.2.2)
  | .importScript sc kind sid sec =>
    let r := importScript s.disk m sc kind sid sec; ({ s with disk := r.1, mem := some r.2.1 }, ofErr r.2.2)
  | .markUsed sc k => let r := markUsed s.disk m sc k; ({ s with disk := r.1, mem := some r.2 }, .ok)
  | .setSynced h x =>
    let r := setSyncedTo s.disk m h x; ({ s with disk := r.1, mem := some r.2.1 }, ofErr r.2.2)
  | .setBirthday => ({ s with disk := { s.disk with birthday := true } }, .ok)
  | .privKey sc k =>
    match addressOf s.disk m sc k with
    | .error e => (s, .err e)
    | .ok r => let x := privKeyObj r.1 r.2; ({ s with mem := some x.1 }, ofErr x.2)
  | .lastPrivKey sc a int =>
    match query s.disk m (.lastAddr sc a int) with
    | (m1, .addr _ _) =>
      match acctInfoOf m1 sc a with
      | some ai => let x := privKeyObj m1 (lastOf ai int); ({ s with mem := some x.1 }, ofErr x.2)
      | none => ({ s with mem := some m1 }, .err .accountNotFound)
    | (m1, .err e) => ({ s with mem := some m1 }, .err e)
    | (m1, _) => ({ s with mem := some m1 }, .err .database)
  | .script sc k =>
    match addressOf s.disk m sc k with
    | .error e => (s, .err e)
    | .ok r => let x := scriptObj r.1 r.2; ({ s with mem := some x.1 }, ofErr x.2)
  | .crypt kt => (s, ofErr (cryptOp m kt))
  | .derive sc a b i => let r := derivePath s.disk m sc a b i; ({ s with mem := some r.1 }, ofErr r.2)
  | .deriveCache sc a b i => let r := deriveCache s.cfg m sc ⟨a, b, i⟩; ({ s with mem := some r.1 }, ofErr r.2)
  | .q x => let r := query s.disk m x; ({ s with mem := some r.1 }, .q r.2)
  | _ => (s, .err .database)

def isErr : Res → Bool
  | .err _ => true
  | _ => false

def commitTx (s : State) : State :=
  { s with snap := none, pend := [], mem := s.mem.map (fun m => s.pend.foldl (runPend s.cfg) m) }

def rollbackTx (s : State) : State :=
  { s with disk := s.snap.getD s.disk, snap := none, pend := [] }

/-- One operation. Outside an explicit bracket a writing op runs in its own `walletdb.Update`
(commit when it returns nil, roll back when it returns an error); inside a bracket nothing is ended
automatically. -/
def step (s : State) (op : Op) : State × Res :=
  match op with
  | .create pub priv =>
    if s.snap.isSome then (s, .err .txOpen)
    else if s.disk.created then (s, .err .alreadyExists)
    else
      let d := createDisk pub priv
      ({ s with disk := d, mem := some (openMem d) }, .ok)
  | .reopen pub =>
    if s.snap.isSome then (s, .err .txOpen)
    else if !s.disk.created then (s, .err .noExist)
    else if pub ≠ s.disk.pubPass then ({ s with mem := none }, .err .wrongPassphrase)
    else ({ s with mem := some (openMem s.disk) }, .ok)
  | .begin => if s.snap.isSome then (s, .err .txOpen) else ({ s with snap := some s.disk, pend := [] }, .ok)
  | .commit => if s.snap.isNone then (s, .err .noTx) else (commitTx s, .ok)
  | .rollback => if s.snap.isNone then (s, .err .noTx) else (rollbackTx s, .ok)
  | op =>
    match s.mem with
    | none => (s, .err .noManager)
    | some m =>
      if s.snap.isSome || !op.writes then exec s m op
      else
        let r := exec { s with snap := some s.disk, pend := [] } m op
        if isErr r.2 then (rollbackTx r.1, r.2) else (commitTx r.1, r.2)

def run (s : State) : List Op → State
  | [] => s
  | op :: ops => run (step s op).1 ops

end AddrLock
