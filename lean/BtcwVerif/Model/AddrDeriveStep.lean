import BtcwVerif.Model.AddrDeriveOps
/-! Remaining operations of the `AddrDerive` model, `step` and `run`. -/
namespace AddrDerive
open AddrSym

variable {K P : Type} [DecidableEq K] [DecidableEq P]

-- ---------------------------------------------------------------------------------------------------------
-- imports

def existsAddr (sm : ScopeMem K P) (sd : ScopeDisk K P) (id : AddrId P) : Bool :=
  (alookup sm.addrs id).isSome || (alookup sd.addrs id).isSome

/-- common part of `ImportPrivateKey` / `ImportPublicKey` (`importPublicKey` + `toImported…ManagedAddress`) -/
def importKey (s : State K P) (sc : Scope) (k : Nat) (compressed withPriv : Bool) (h : Nat) :
    State K P × Res K × List Row :=
  match getSM s sc, getSD s sc with
  | some sm, some sd =>
    let typ := sm.schema.ext
    let id : AddrId P := .key (.imp k) (idClass typ) (compressed || typ == .p2tr)
    if existsAddr sm sd id then (s, .err .dupAddr, []) else
    let row := AddrRow.imp k compressed withPriv
    let o : KeyObj K P :=
      { scope := sc, acct := importedAcct, acctChild := 0, branch := 0, index := 0, fp := 0, pub := .imp k,
        privEnc := if withPriv then some (.imp k) else none, typ := typ, imported := true, internal := false,
        compressed := compressed, acctPub := none, hasPrivAcct := false }
    let s1 := putSD s sc { sd with addrs := aset sd.addrs id row }
    let (s2, idx) := alloc s1 (.key o)
    match getSM s2 sc with
    | none => (s, .err .scopeNotFound, [])
    | some sm2 =>
      (bindH (putSM s2 sc { sm2 with addrs := aset sm2.addrs id idx }) h idx, .addr (infoOfKey o), addrRowPuts sc id row)
  | _, _ => (s, .err .scopeNotFound, [])

/-- `ImportPrivateKey` -/
def opImportPriv (s : State K P) (sc : Scope) (k : Nat) (compressed : Bool) (h : Nat) :=
  if s.mem.locked && !s.mem.watchOnly then (s, Res.err (K := K) .locked, ([] : List Row))
  else importKey s sc k compressed (!s.mem.watchOnly) h

/-- `ImportPublicKey` -/
def opImportPub (s : State K P) (sc : Scope) (k : Nat) (h : Nat) := importKey (K := K) s sc k true false h

/-- `importScriptAddress` (`ImportScript` kind 0, `ImportWitnessScript` kind 1, `ImportTaprootScript` kind 2) -/
def opImportScript (cfg : Cfg) (s : State K P) (sc : Scope) (k kind : Nat) (secret : Bool) (h : Nat) :
    State K P × Res K × List Row :=
  if secret && s.mem.locked then (s, .err .locked, []) else
  if secret && s.mem.watchOnly then (s, .err .watchOnly, []) else
  match getSM s sc, getSD s sc with
  | some sm, some sd =>
    let id : AddrId P := .scr k kind
    if existsAddr sm sd id then (s, .err .dupAddr, []) else
    let kc := if secret then memScriptKey cfg else KeyClass.pub
    let row := AddrRow.scr k kind secret (some kc)
    let o : ScrObj := { scope := sc, id := k, kind := kind, secret := secret, encKey := some kc }
    let s1 := putSD s sc { sd with addrs := aset sd.addrs id row }
    let (s2, idx) := alloc s1 (.scr o)
    match getSM s2 sc with
    | none => (s, .err .scopeNotFound, [])
    | some sm2 =>
      (bindH (putSM s2 sc { sm2 with addrs := aset sm2.addrs id idx }) h idx, .addr (infoOfScr o), addrRowPuts sc id row)
  | _, _ => (s, .err .scopeNotFound, [])

-- ---------------------------------------------------------------------------------------------------------
-- accounts and scopes

def rowName : AcctRow K P → Nat
  | .dflt _ _ _ _ n => n
  | .wo _ _ _ _ n _ _ => n

def nameTaken (sd : ScopeDisk K P) (name : Nat) : Bool := sd.accts.any fun e => rowName e.2 == name

-- Only rows that carry key material, hashes of address ids or the watching-only flag are part of the modelled
-- write stream; name / id indices, `lastaccount`, sync and version rows are plain bookkeeping (the Go harness
-- scans them for secrets all the same).

/-- `fetchLastAccount` + 1: a scope without a `lastaccount` row hands out account 0 (again) -/
def nextAcct (sd : ScopeDisk K P) : Nat :=
  match sd.lastAcct with
  | some l => l + 1
  | none => 0

/-- `NewAccount` / `newAccount`.  Names: 0 is the reserved/empty name, 1 is "default" -/
def opNewAccount (hd : HD K P) (s : State K P) (sc : Scope) (name : Nat) : State K P × Res K × List Row :=
  if s.mem.watchOnly then (s, .err .watchOnly, []) else
  match getSD s sc with
  | none => (s, .err .scopeNotFound, [])
  | some sd =>
    if s.mem.locked then (s, .err .locked, []) else
    let acct := nextAcct sd
    if name = 0 then (s, .err .invalidAcct, []) else
    if nameTaken sd name then (s, .err .dupAcct, []) else
    match sd.coinPriv with
    | none => (s, .err .other, [])
    | some ck =>
      if acct > importedAcct - 1 then (s, .err .invalidAcct, []) else
      match hd.child ck (acct + H) with
      | none => (s, .err .keyChain, [])
      | some ak =>
        let row : AcctRow K P := .dflt (hd.neuter ak) (some ak) 0 0 name
        let sd' := { sd with accts := aset sd.accts acct row, lastAcct := some acct }
        (putSD s sc sd', .acct acct,
          [acctRowPut sc acct row])

/-- `NewAccountWatchingOnly` / `newAccountWatchingOnly` -/
def opNewAccountWO (s : State K P) (sc : Scope) (name : Nat) (xpub : P) (ci fp : Nat) (schema : Option Schema) :
    State K P × Res K × List Row :=
  match getSD s sc with
  | none => (s, .err .scopeNotFound, [])
  | some sd =>
    let acct := nextAcct sd
    if name = 0 then (s, .err .invalidAcct, []) else
    if nameTaken sd name then (s, .err .dupAcct, []) else
    let row : AcctRow K P := .wo xpub fp 0 0 name schema ci
    let sd' := { sd with accts := aset sd.accts acct row, lastAcct := some acct }
    let s1 := putSD s sc sd'
    ({ s1 with imports := (sc, acct, xpub) :: s1.imports }, .acct acct,
      [acctRowPut sc acct row])

/-- `createManagerKeyScope`: cointype key, account 0, branch check -/
def mkKeyScope (hd : HD K P) (root : K) (sc : Scope) (schema : Schema) : Option (ScopeDisk K P) :=
  match coinKeyAt hd root sc with
  | none => none
  | some ck =>
    match hd.child ck (0 + H) with
    | none => none
    | some ak =>
      if (hd.child ak 0).isNone || (hd.child ak 1).isNone then none else
      some { schema := schema, coinPriv := some ck, accts := [(0, .dflt (hd.neuter ak) (some ak) 0 0 1)],
             addrs := [], used := [], lastAcct := none }

def acct0Row (sd : ScopeDisk K P) : List (AcctRow K P) := (sd.accts.filter (·.1 == 0)).map (·.2)

def scopeRows (sc : Scope) (sd : ScopeDisk K P) : List Row :=
  match acct0Row sd with
  | r :: _ => keyScopeRows sc r
  | [] => []

/-- `NewScopedKeyManager` (non-watch-only manager) -/
def opNewScope (cfg : Cfg) (hd : HD K P) (s : State K P) (sc : Scope) (schema : Schema) : State K P × Res K × List Row :=
  if s.mem.watchOnly then (s, .err .other, []) else     -- (key-less scopes of watch-only managers: not modelled)
  if s.mem.locked then (s, .err .locked, []) else
  match s.disk.rootPriv with
  | none => (s, .err .watchOnly, [])
  | some root =>
    if (getSD s sc).isSome then (s, .err .other, []) else
    match mkKeyScope hd root sc schema with
    | none => (s, .err .keyChain, [])
    | some sd0 =>
      let sd := { sd0 with lastAcct := if cfg.l1 then none else some 0 }
      let s1 := putSD s sc sd
      (putSM s1 sc { schema := schema, acctInfo := [], addrs := [], dou := [] }, .ok, scopeRows sc sd)

def defaultScopes : List (Scope × Schema) :=
  [((49, 0), ⟨.np2wkh, .p2wkh⟩), ((84, 0), ⟨.p2wkh, .p2wkh⟩), ((86, 0), ⟨.p2tr, .p2tr⟩), ((44, 0), ⟨.pkh, .pkh⟩)]

def mkScopes (hd : HD K P) (root : K) : List (Scope × Schema) → Option (List (Scope × ScopeDisk K P))
  | [] => some []
  | (sc, sch) :: t =>
    match mkKeyScope hd root sc sch, mkScopes hd root t with
    | some sd, some r => some ((sc, { sd with lastAcct := some 0 }) :: r)   -- `createManagerNS` writes lastaccount = 0
    | _, _ => none

/-- memory of a freshly opened manager (`loadManager`): locked, empty caches -/
def freshMem (d : Disk K P) : Mem K P :=
  { locked := true, watchOnly := d.watchOnly, privPass := d.privPass,
    scopes := d.scopes.map fun e => (e.1, { schema := e.2.schema, acctInfo := [], addrs := [], dou := [] }),
    heap := [], handles := [] }

def emptyState : State K P :=
  { created := false, poisoned := false, root := none,
    disk := { watchOnly := false, rootPriv := none, privPass := none, pubPass := 0, scopes := [] },
    mem := { locked := true, watchOnly := false, privPass := none, scopes := [], heap := [], handles := [] },
    imports := [] }

/-- `Create` followed by `Open` (pass 0 for both passphrases) -/
def opCreate (hd : HD K P) (root : K) : State K P × Res K × List Row :=
  match mkScopes hd root defaultScopes with
  | none => (emptyState, .err .keyChain, [])
  | some scs =>
    let d : Disk K P := { watchOnly := false, rootPriv := some root, privPass := some 0, pubPass := 0, scopes := scs }
    let rows :=
      (scs.map fun e => scopeRows e.1 e.2).flatten ++
      [ mainPut "mhdpriv" (.enc .priv (.secret .priv "xprv:m")), mainPut "mhdpub" (.enc .pub (.pubdata "xpub:m")) ] ++
      paramRows (some 0) (some 0) ++ cryptoKeyRows true true true ++ [mainPut "watchonly" (.plain "0")]
    ({ created := true, poisoned := false, root := some root, disk := d, mem := freshMem d, imports := [] }, .ok, rows)

-- ---------------------------------------------------------------------------------------------------------
-- lock / unlock / passphrases

def lockAcct (ai : AcctInfo K P) : AcctInfo K P := { ai with keyPriv := none }

/-- `Manager.lock()` as far as key bookkeeping is concerned: cached account private keys are dropped -/
def lockScope (sm : ScopeMem K P) : ScopeMem K P :=
  { sm with acctInfo := sm.acctInfo.map (fun a => (a.1, lockAcct a.2)) }

def doLock (s : State K P) : State K P :=
  let scs := s.mem.scopes.map (fun e => (e.1, lockScope e.2))
  { s with mem := { s.mem with locked := true, scopes := scs } }

def opLock (s : State K P) : State K P × Res K × List Row :=
  if s.mem.watchOnly then (s, .err .watchOnly, []) else
  if s.mem.locked then (s, .err .locked, []) else (doLock s, .ok, [])

def anyWOCached (s : State K P) : Bool :=
  s.mem.scopes.any fun e => e.2.acctInfo.any fun a => a.2.keyEnc.isNone

def unlockAcct (ai : AcctInfo K P) : AcctInfo K P :=
  match ai.keyEnc with
  | some k => { ai with keyPriv := some k }
  | none => ai

/-- one derive-on-unlock entry: fill in the private key of heap object `idx` (entries whose account has no
    private key are dropped) -/
def douStep (hd : HD K P) (acctInfo : List (Nat × AcctInfo K P)) (heap : List (Obj K P)) (e : Nat × Nat × Nat) :
    Option (List (Obj K P)) :=
  match heap[e.1]? with
  | some (.key o) =>
    match alookup acctInfo o.acct with
    | some ai =>
      match ai.keyPriv with
      | some ak =>
        match derive2 hd ak e.2.1 e.2.2 with
        | some k => some (setAt heap e.1 (.key { o with privEnc := some (.hd k) }))
        | none => none
      | none => some heap
    | none => some heap
  | _ => some heap

def douAll (hd : HD K P) (acctInfo : List (Nat × AcctInfo K P)) : List (Nat × Nat × Nat) → List (Obj K P) → Option (List (Obj K P))
  | [], heap => some heap
  | e :: t, heap =>
    match douStep hd acctInfo heap e with
    | some heap' => douAll hd acctInfo t heap'
    | none => none

def unlockScopes (hd : HD K P) : List (Scope × ScopeMem K P) → List (Obj K P) →
    Option (List (Scope × ScopeMem K P) × List (Obj K P))
  | [], heap => some ([], heap)
  | (sc, sm) :: t, heap =>
    let ais := sm.acctInfo.map fun a => (a.1, unlockAcct a.2)
    match douAll hd ais sm.dou heap with
    | none => none
    | some heap' =>
      match unlockScopes hd t heap' with
      | none => none
      | some (t', heap'') => some ((sc, { sm with acctInfo := ais, dou := [] }) :: t', heap'')

/-- `Unlock` -/
def opUnlock (cfg : Cfg) (hd : HD K P) (s : State K P) (pass : Nat) : State K P × Res K × List Row :=
  if s.mem.watchOnly then (s, .err .watchOnly, []) else
  if !s.mem.locked then
    if s.mem.privPass = some pass then (s, .ok, []) else (doLock s, .err .wrongPass, [])
  else
    if s.mem.privPass ≠ some pass then (doLock s, .err .wrongPass, []) else
    if cfg.f2 && anyWOCached s then (doLock s, .err .crypto, []) else
    if cfg.u2 && anyWOCached s then ({ s with poisoned := true }, .panic, []) else
    match unlockScopes hd s.mem.scopes s.mem.heap with
    | none => (doLock s, .err .keyChain, [])
    | some (scs, heap) => ({ s with mem := { s.mem with locked := false, scopes := scs, heap := heap } }, .ok, [])

/-- `ChangePassphrase` -/
def opChangePass (s : State K P) (priv : Bool) (old new : Nat) : State K P × Res K × List Row :=
  if priv then
    if s.mem.watchOnly then (s, .err .watchOnly, []) else
    if s.mem.privPass ≠ some old then (s, .err .wrongPass, []) else
    ({ s with disk := { s.disk with privPass := some new }, mem := { s.mem with privPass := some new } }, .ok,
      cryptoKeyRows false true true ++ paramRows none (some new))
  else
    if s.disk.pubPass ≠ old then (s, .err .wrongPass, []) else
    ({ s with disk := { s.disk with pubPass := new } }, .ok, cryptoKeyRows true false false ++ paramRows (some new) none)

-- ---------------------------------------------------------------------------------------------------------
-- watching-only conversion, restart

def stripAcctRow : AcctRow K P → AcctRow K P
  | .dflt pub _ ne ni name => .dflt pub none ne ni name
  | r => r

def stripAddrRow (cfg : Cfg) : AddrRow → AddrRow
  | .imp k c _ => .imp k c false
  | .scr k 0 sec _ => .scr k 0 sec none
  | .scr k 1 true _ => .scr k 1 true none
  | .scr k kind true e => if kind = 1 || !cfg.t1 then .scr k kind true none else .scr k kind true e
  | r => r

/-- address rows `deletePrivateKeys` re-writes: imported keys, p2sh scripts, secret witness scripts (and whatever it changes) -/
def emitted (cfg : Cfg) (r : AddrRow) : Bool :=
  stripAddrRow cfg r != r ||
    (match r with | .imp .. => true | .scr _ 0 _ _ => true | .scr _ 1 true _ => true | _ => false)

def isDflt : AcctRow K P → Bool
  | .dflt .. => true
  | _ => false

def stripScope (cfg : Cfg) (sc : Scope) (sd : ScopeDisk K P) : ScopeDisk K P × List Row :=
  let accts := sd.accts.map fun e => (e.1, stripAcctRow e.2)
  let addrs := sd.addrs.map fun e => (e.1, stripAddrRow cfg e.2)
  let rows :=
    [{ del := true, path := scPath sc "", key := .plain "ctpriv" : Row }] ++
    ((accts.filter fun e => isDflt e.2).map fun e => acctRowPut sc e.1 e.2) ++
    ((sd.addrs.filter fun e => emitted cfg e.2).map
      fun e => { path := scPath sc "addr", key := addrKeySym sc e.1 e.2, val := addrRowSym (stripAddrRow cfg e.2) : Row })
  ({ sd with coinPriv := none, accts := accts, addrs := addrs }, rows)

def stripObj (o : Obj K P) : Obj K P :=
  match o with
  | .key k => .key { k with privEnc := none }
  | .scr sc => if sc.kind = 0 then .scr { sc with encKey := none } else .scr sc

def stripCached (heap : List (Obj K P)) : List Nat → List (Obj K P)
  | [] => heap
  | idx :: t =>
    match heap[idx]? with
    | some o => stripCached (setAt heap idx (stripObj o)) t
    | none => stripCached heap t

def woAcct (ai : AcctInfo K P) : AcctInfo K P := { ai with keyEnc := none }
def woScope (sm : ScopeMem K P) : ScopeMem K P :=
  { sm with acctInfo := sm.acctInfo.map (fun a => (a.1, woAcct a.2)) }

/-- `ConvertToWatchingOnly` -/
def opConvertWO (cfg : Cfg) (s : State K P) : State K P × Res K × List Row :=
  if s.mem.watchOnly then (s, .ok, []) else
  let stripped := s.disk.scopes.map fun e => (e.1, stripScope cfg e.1 e.2)
  let rows := [mainDel "mpriv", mainDel "cpriv", mainDel "cscript", mainDel "mhdpriv"] ++
    (stripped.map fun e => e.2.2).flatten ++ [mainPut "watchonly" (.plain "1")]
  let d : Disk K P := { s.disk with watchOnly := true, rootPriv := none, privPass := none,
                                    scopes := stripped.map fun e => (e.1, e.2.1) }
  let s1 := doLock s
  let cachedIdx := (s1.mem.scopes.map fun e => e.2.addrs.map (·.2)).flatten
  let scs := s1.mem.scopes.map (fun e => (e.1, woScope e.2))
  ({ s1 with disk := d, mem := { s1.mem with watchOnly := true, privPass := none, scopes := scs,
                                             heap := stripCached s1.mem.heap cachedIdx } }, .ok, rows)

/-- close + `Open` -/
def opRestart (s : State K P) : State K P × Res K × List Row :=
  ({ s with mem := freshMem s.disk }, .ok, [])

-- ---------------------------------------------------------------------------------------------------------
-- accessors

def objOfHandle (s : State K P) (h : Nat) : Option (Obj K P) :=
  (alookup s.mem.handles h).bind fun idx => s.mem.heap[idx]?

/-- `managedAddress.PrivKey` -/
def privKeyOf (s : State K P) (o : KeyObj K P) : Except Err (Priv K) :=
  if s.mem.watchOnly then .error .watchOnly else
  if s.mem.locked then .error .locked else
  match o.privEnc with
  | none => .error .watchOnly
  | some k => .ok k

def opPrivKey (s : State K P) (h : Nat) : State K P × Res K × List Row :=
  match objOfHandle s h with
  | none => (s, .err .badHandle, [])
  | some (.scr _) => (s, .err .notKey, [])
  | some (.key o) =>
    match privKeyOf s o with
    | .ok k => (s, .key k, [])
    | .error e => (s, .err e, [])

/-- `scriptAddress.Script` / `witnessScriptAddress.Script` -/
def scriptOf (cfg : Cfg) (s : State K P) (o : ScrObj) : Except Err Nat :=
  let needPriv := o.kind = 0 || o.secret
  if needPriv && s.mem.watchOnly then .error .watchOnly else
  if needPriv && s.mem.locked then .error .locked else
  let key := if needPriv then memScriptKey cfg else KeyClass.pub
  match o.encKey with
  | none => .error .crypto
  | some kc => if kc = key then .ok o.id else .error .crypto

def opScript (cfg : Cfg) (s : State K P) (h : Nat) : State K P × Res K × List Row :=
  match objOfHandle s h with
  | none => (s, .err .badHandle, [])
  | some (.key _) => (s, .err .notScript, [])
  | some (.scr o) =>
    match scriptOf cfg s o with
    | .ok k => (s, .script k, [])
    | .error e => (s, .err e, [])

def opInfo (s : State K P) (h : Nat) : State K P × Res K × List Row :=
  match objOfHandle s h with
  | none => (s, .err .badHandle, [])
  | some o => (s, .addr (infoOf o), [])

/-- `AccountProperties` (loads the account into the cache) -/
def opProps (hd : HD K P) (s : State K P) (sc : Scope) (acct : Nat) : State K P × Res K × List Row :=
  match loadAcct hd s sc acct with
  | .error e => (s, .err e, [])
  | .ok (s, ai) => (s, .props ai.nextExt ai.nextInt ai.name (s.mem.watchOnly || ai.keyPriv.isNone), [])

/-- `DeriveFromKeyPathCache`: the private key of child `b/i` of account `acct` (= `DerivationPath.InternalAccount`;
    the `Account` field of the path plays no part), answered from memory only — the manager must be unlocked and the
    account info already cached.  The LRU cache in front of the derivation is keyed by the whole path and is emptied by
    `lock()`, so a hit returns what the derivation below returns; it is therefore not part of the state.
    (An account without private key — imported xpub — is refused like `PrivKey()` refuses: `ErrWatchingOnly`.) -/
def opDeriveCache (hd : HD K P) (s : State K P) (sc : Scope) (acct b i : Nat) : State K P × Res K × List Row :=
  if s.mem.watchOnly then (s, .err .watchOnly, []) else
  if s.mem.locked then (s, .err .locked, []) else
  match getSM s sc with
  | none => (s, .err .scopeNotFound, [])
  | some sm =>
    match alookup sm.acctInfo acct with
    | none => (s, .err .notCached, [])
    | some ai =>
      match ai.keyPriv with
      | none => (s, .err .watchOnly, [])
      | some ak =>
        match derive2 hd ak b i with
        | none => (s, .err .keyChain, [])
        | some k => (s, .key (.hd k), [])

def setName : AcctRow K P → Nat → AcctRow K P
  | .dflt pub priv ne ni _, n => .dflt pub priv ne ni n
  | .wo pub fp ne ni _ schema ci, n => .wo pub fp ne ni n schema ci

/-- the cached account info follows a rename (`acctInfo.acctName = name`) -/
def renameCached (s : State K P) (sc : Scope) (acct name : Nat) : State K P :=
  match getSM s sc with
  | none => s
  | some sm =>
    match alookup sm.acctInfo acct with
    | none => s
    | some ai => putSM s sc { sm with acctInfo := aset sm.acctInfo acct { ai with name := name } }

/-- `RenameAccount`: the account row is written again under the new name — same keys, same next indices and, for an
    imported account, the same overriding address schema.  No lock / watch-only check. -/
def opRename (s : State K P) (sc : Scope) (acct name : Nat) : State K P × Res K × List Row :=
  if acct = importedAcct then (s, .err .invalidAcct, []) else
  match getSD s sc with
  | none => (s, .err .scopeNotFound, [])
  | some sd =>
    if nameTaken sd name then (s, .err .dupAcct, []) else
    if name = 0 then (s, .err .invalidAcct, []) else
    match alookup sd.accts acct with
    | none => (s, .err .acctNotFound, [])
    | some row =>
      let row' := setName row name
      (renameCached (putSD s sc { sd with accts := aset sd.accts acct row' }) sc acct name, .ok,
        [acctRowPut sc acct row'])

-- ---------------------------------------------------------------------------------------------------------

def step (cfg : Cfg) (hd : HD K P) (s : State K P) (op : Op K P) : State K P × Res K × List Row :=
  match op with
  | .create root => opCreate hd root
  | op =>
    if !s.created then (s, .err .notCreated, []) else
    if s.poisoned then (s, .err .poisoned, []) else
    match op with
    | .create root => opCreate hd root
    | .unlock p => opUnlock cfg hd s p
    | .lock => opLock s
    | .changePass priv o n => opChangePass s priv o n
    | .newScope sc sch => opNewScope cfg hd s sc sch
    | .newAccount sc name => opNewAccount hd s sc name
    | .newAccountWO sc name x ci fp sch => opNewAccountWO s sc name x ci fp sch
    | .next sc a n int hb => opNext hd s sc a n int hb
    | .extend sc a l int => opExtend cfg hd s sc a l int
    | .lookup sc id h => opLookup hd s sc id h
    | .markUsed sc id d => opMarkUsed s sc id d
    | .derive sc a ac b i h => opDerive hd s sc a ac b i h
    | .importPriv sc k c h => opImportPriv s sc k c h
    | .importPub sc k h => opImportPub s sc k h
    | .importScript sc k kind sec h => opImportScript cfg s sc k kind sec h
    | .privKey h => opPrivKey s h
    | .script h => opScript cfg s h
    | .info h => opInfo s h
    | .props sc a => opProps hd s sc a
    | .restart => opRestart s
    | .convertWO => opConvertWO cfg s
    | .deriveCache sc a _ b i => opDeriveCache hd s sc a b i
    | .rename sc a name => opRename s sc a name

/-- run a history from the empty state, collecting every database row written -/
def run (cfg : Cfg) (hd : HD K P) : List (Op K P) → State K P × List Row
  | [] => (emptyState, [])
  | ops => ops.foldl (fun acc op => let r := step cfg hd acc.1 op; (r.1, acc.2 ++ r.2.2)) (emptyState, [])

end AddrDerive
