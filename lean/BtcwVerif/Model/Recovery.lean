/-
Model of wallet recovery from seed (C16):
  /repo/wallet/recovery.go      BranchRecoveryState (ExtendHorizon, AddAddr, ReportFound, MarkInvalidChild,
                                NumInvalidInHorizon), RecoveryState.watchedOutPoints, RecoveryManager.Resurrect
  /repo/wallet/wallet.go        expandScopeHorizons, recoverScopedAddresses (the `goto expandHorizons` loop),
                                extendFoundAddresses, recovery (batches of recoveryBatchSize, resumable),
                                locateBirthdayBlock
  /repo/chain/block_filterer.go BlockFilterer.FilterBlock / FilterTx / FilterOutputAddrs
  /repo/wallet/chainntfns.go    addRelevantTx (credit only for addresses the address manager knows)

Indices, windows and counts are `Nat` (Go: uint32; no overflow: indices stay far below 2^31, §4 of DESIGN).
Go maps are modelled as duplicate-free lists (`List.insert`).  Which child indexes derive to an invalid key is an
input (`invalid : List Nat` per branch) — in reality this happens with probability 2^-127 per index.
-/
namespace Recovery

/-! ### BranchRecoveryState (verbatim) -/

structure Branch where
  window      : Nat          -- recoveryWindow
  horizon     : Nat
  nextUnfound : Nat
  addrs       : List Nat     -- keys of `addresses`
  invalid     : List Nat     -- keys of `invalidChildren`
deriving Repr, DecidableEq

def Branch.new (window : Nat) : Branch := ⟨window, 0, 0, [], []⟩

/-- `NumInvalidInHorizon`. -/
def Branch.numInvalidInHorizon (b : Branch) : Nat :=
  (b.invalid.filter (fun c => decide (b.nextUnfound ≤ c) && decide (c < b.horizon))).length

/-- `ExtendHorizon`: returns (current horizon, number of addresses to derive). -/
def Branch.extendHorizon (b : Branch) : (Nat × Nat) × Branch :=
  let cur := b.horizon
  let minValid := b.nextUnfound + b.window + b.numInvalidInHorizon
  if cur ≥ minValid then ((cur, 0), b)
  else ((cur, minValid - cur), { b with horizon := minValid })

def Branch.addAddr (b : Branch) (i : Nat) : Branch := { b with addrs := b.addrs.insert i }

/-- `ReportFound`. -/
def Branch.reportFound (b : Branch) (i : Nat) : Branch :=
  if i ≥ b.nextUnfound then
    { b with nextUnfound := i + 1, invalid := b.invalid.filter (fun c => !decide (c < i)) }
  else b

/-- `MarkInvalidChild`. -/
def Branch.markInvalid (b : Branch) (i : Nat) : Branch :=
  { b with invalid := b.invalid.insert i, horizon := b.horizon + 1 }

/-- The `for count < window` loop of `expandScopeHorizons` for one branch; `isInv i` = `DeriveFromKeyPath` returns
    `ErrInvalidChild` for child `i`.  One unit of fuel per iteration. -/
def deriveLoop (isInv : Nat → Bool) : Nat → Branch → Nat → Nat → Branch
  | 0, b, _, _ => b
  | fuel + 1, b, todo, child =>
    match todo with
    | 0 => b
    | todo' + 1 =>
      if isInv child then deriveLoop isInv fuel (b.markInvalid child) (todo' + 1) (child + 1)
      else deriveLoop isInv fuel (b.addAddr child) todo' (child + 1)

/-- A bound above every invalid index. -/
def invBound (inv : List Nat) : Nat := inv.foldl (fun m i => max m (i + 1)) 0

/-- `expandScopeHorizons` for one branch, given the branch's set of invalid children. Fuel = the number of
    iterations the Go loop can possibly make (`todo` valid ones + at most all invalid ones). -/
def expand (inv : List Nat) (b : Branch) : Branch :=
  let ((cur, delta), b') := b.extendHorizon
  deriveLoop (fun i => inv.contains i) (delta + (invBound inv - cur) + 1) b' delta cur

/-! ### Chain, filter, recovery state -/

/-- A wallet key path below the default account: (scope tag, internal branch?, child index). -/
structure Key where
  scope    : Nat
  internal : Bool
  index    : Nat
deriving Repr, DecidableEq

abbrev OutPoint := Nat × Nat     -- (tx id, output index)

structure TxOut where
  key    : Option Key            -- none: pays somebody else
  amount : Nat
deriving Repr, DecidableEq

structure Tx where
  id   : Nat
  ins  : List OutPoint
  outs : List TxOut
deriving Repr, DecidableEq

abbrev Block := List Tx

abbrev BranchId := Nat × Bool    -- (scope, internal)

structure Credit where
  op     : OutPoint
  amount : Nat
  spent  : Bool
deriving Repr, DecidableEq

structure State where
  window   : Nat
  scopes   : List Nat                       -- key scopes being recovered (the default scopes)
  branches : List (BranchId × Branch)       -- in-memory RecoveryState (association list; absent = fresh branch)
  watched  : List OutPoint                  -- RecoveryState.watchedOutPoints
  next     : List (BranchId × Nat)          -- address manager: next index per branch (key counts; absent = 0)
  used     : List Key                       -- addresses marked used
  txs      : List (Nat × Nat)               -- wtxmgr: recorded (tx id, height)
  credits  : List Credit                    -- wtxmgr credits
  calls    : Nat := 0                       -- ghost: number of FilterBlocks requests made so far
  leased   : List OutPoint := []            -- wtxmgr: outputs locked by LeaseOutput (lease not expired)
  unmined  : List Tx := []                  -- wtxmgr: unmined transaction records

def State.init (window : Nat) (scopes : List Nat) : State :=
  { window := window, scopes := scopes, branches := [], watched := [], next := [], used := [], txs := [], credits := [] }

/-- Association lists stand for Go maps / database rows (data, so that nothing is recomputed on lookup). -/
def lookupD {β : Type} (l : List (BranchId × β)) (d : β) (k : BranchId) : β :=
  match l.lookup k with
  | some v => v
  | none => d

def assocSet {β : Type} (l : List (BranchId × β)) (k : BranchId) (v : β) : List (BranchId × β) :=
  (k, v) :: l.filter (fun p => !(p.1 == k))

def State.branch (st : State) (k : BranchId) : Branch := lookupD st.branches (Branch.new st.window) k
def State.nextOf (st : State) (k : BranchId) : Nat := lookupD st.next 0 k

def branchIds (scopes : List Nat) : List BranchId := scopes.flatMap (fun s => [(s, false), (s, true)])

/-- `expandHorizons:` — every scope, external then internal branch. -/
def expandAll (invalid : BranchId → List Nat) (st : State) : State :=
  (branchIds st.scopes).foldl (fun st k => { st with branches := assocSet st.branches k (expand (invalid k) (st.branch k)) }) st

def watchesKey (st : State) (k : Key) : Bool :=
  st.scopes.contains k.scope && (st.branch (k.scope, k.internal)).addrs.contains k.index

/-- Result of filtering one block. -/
structure Found where
  keys      : List Key        -- FoundExternalAddrs / FoundInternalAddrs
  outpoints : List OutPoint   -- FoundOutPoints
  txs       : List Tx         -- RelevantTxns
deriving Repr

/-- `BlockFilterer.FilterTx` for the outputs: (relevant?, found keys, found outpoints). -/
def filterOuts (st : State) (txid : Nat) : List TxOut → Nat → Found → Bool × Found
  | [], _, f => (false, f)
  | o :: rest, i, f =>
    match o.key with
    | some k =>
      if watchesKey st k then
        let (_, f') := filterOuts st txid rest (i + 1) { f with keys := f.keys.insert k, outpoints := f.outpoints.insert (txid, i) }
        (true, f')
      else filterOuts st txid rest (i + 1) f
    | none => filterOuts st txid rest (i + 1) f

/-- `BlockFilterer.FilterBlock`: transactions in order; an input spending a watched outpoint or an outpoint found
    earlier in the same block makes the transaction relevant. -/
def filterBlock (st : State) : Block → Found → Found
  | [], f => f
  | tx :: rest, f =>
    let spends := tx.ins.any (fun op => st.watched.contains op || f.outpoints.contains op)
    let (pays, f') := filterOuts st tx.id tx.outs 0 f
    let f'' := if spends || pays then { f' with txs := f'.txs ++ [tx] } else f'
    filterBlock st rest f''

/-- `FilterBlocks`: index and findings of the first block of the batch with a relevant transaction. -/
def filterBlocks (st : State) : List (Nat × Block) → Nat → Option (Nat × Nat × Found)
  | [], _ => none
  | (h, b) :: rest, i =>
    let f := filterBlock st b ⟨[], [], []⟩
    if f.txs.isEmpty then filterBlocks st rest (i + 1) else some (i, h, f)

/-- `extendFoundAddresses` for one branch: ReportFound every found index, extend the address manager through the
    last found index, mark the found addresses used. -/
def extendFound (st : State) (k : BranchId) (idxs : List Nat) : State :=
  if idxs.isEmpty then st else
  let b := idxs.foldl (fun b i => b.reportFound i) (st.branch k)
  let lastFound := b.nextUnfound - 1            -- exLastFound := NextUnfound; if > 0 { -- }
  -- ExtendExternalAddresses(ns, account, lastFound): next index becomes lastFound+1 unless already larger
  let next' := max (st.nextOf k) (lastFound + 1)
  { st with branches := assocSet st.branches k b, next := assocSet st.next k next',
            used := idxs.foldl (fun u i => u.insert ⟨k.1, k.2, i⟩) st.used }

/-- What `Store.UnspentOutputs` (wtxmgr/tx.go fetchCredits(ns, false, false, true)) leaves out of the unspent mined
    credits: locked (leased) outputs and outputs spent by an unmined transaction.  `Store.Balance` subtracts the same. -/
def hidden (st : State) (op : OutPoint) : Bool :=
  st.leased.contains op || st.unmined.any (fun t => t.ins.contains op)

/-- `Wallet.LeaseOutput` / `Store.LockOutput`: only a known unspent output can be locked (`ErrUnknownOutput`). -/
def leaseOutput (st : State) (op : OutPoint) : Option State :=
  if st.credits.any (fun c => c.op == op && !c.spent) then some { st with leased := st.leased.insert op } else none

/-- `Wallet.ReleaseOutput` / `Store.UnlockOutput` (same lock id). -/
def releaseOutput (st : State) (op : OutPoint) : Option State :=
  if st.credits.any (fun c => c.op == op && !c.spent) then some { st with leased := st.leased.erase op } else none

/-- `addRelevantTx` for an unmined transaction WITHOUT wallet outputs (`insertMemPoolTx`): recorded unless already
    known; the credits it spends count as spent by an unmined transaction from now on (`hidden`). -/
def addUnmined (st : State) (tx : Tx) : State :=
  if st.txs.any (fun p => p.1 == tx.id) || st.unmined.any (fun t => t.id == tx.id) then st
  else { st with unmined := st.unmined ++ [tx] }

/-- `addRelevantTx` during recovery: record the tx; every output paying an address the address manager knows
    (index below the branch's next index, default scope) becomes a credit; inputs spending credits mark them spent. -/
def addRelevantTx (st : State) (tx : Tx) (height : Nat) : State :=
  if st.txs.any (fun p => p.1 == tx.id) then st else
  let credits := st.credits.map (fun c => if tx.ins.contains c.op then { c with spent := true } else c)
  let rec outs (os : List TxOut) (i : Nat) (cs : List Credit) (used : List Key) : List Credit × List Key :=
    match os with
    | [] => (cs, used)
    | o :: rest =>
      match o.key with
      | some k =>
        if st.scopes.contains k.scope && decide (k.index < st.nextOf (k.scope, k.internal)) then
          outs rest (i + 1) (cs ++ [⟨(tx.id, i), o.amount, false⟩]) (used.insert k)
        else outs rest (i + 1) cs used
      | none => outs rest (i + 1) cs used
  let (cs, used) := outs tx.outs 0 credits st.used
  -- insertMinedTx: an unmined record of the same tx moves into the block, conflicting unmined txs are removed
  -- (removeDoubleSpends); a spent output is no longer in the unspent bucket, so its lock is moot
  { st with txs := st.txs ++ [(tx.id, height)], credits := cs, used := used,
            unmined := st.unmined.filter (fun t => !(t.id == tx.id) && !(t.ins.any (fun op => tx.ins.contains op))),
            leased := st.leased.filter (fun op => !tx.ins.contains op) }

/-- Everything `recoverScopedAddresses` does with a non-nil filter response. -/
def applyFound (st : State) (height : Nat) (f : Found) : State :=
  let st1 := (branchIds st.scopes).foldl (fun st k =>
      extendFound st k ((f.keys.filter (fun key => key.scope == k.1 && key.internal == k.2)).map (·.index))) st
  let st2 := { st1 with watched := f.outpoints.foldl (fun w op => w.insert op) st1.watched }
  f.txs.foldl (fun st tx => addRelevantTx st tx height) st2

/-- `recoverScopedAddresses`: expand, filter the batch, apply the first hit, continue with the rest. -/
def recoverScoped (invalid : BranchId → List Nat) : Nat → State → List (Nat × Block) → State
  | 0, st, _ => st
  | fuel + 1, st, batch =>
    if batch.isEmpty then st else
    let st := { expandAll invalid st with calls := st.calls + 1 }
    match filterBlocks st batch 0 with
    | none => st
    | some (i, h, f) =>
      let st := applyFound st h f
      let rest := batch.drop (i + 1)
      if rest.isEmpty then st else recoverScoped invalid fuel st rest

def recoverBatch (invalid : BranchId → List Nat) (st : State) (batch : List (Nat × Block)) : State :=
  recoverScoped invalid (batch.length + 1) st batch

/-- `RecoveryManager.Resurrect`: rebuild the in-memory state from what is on disk (after a restart, or when
    `recovery` is re-entered after an error): addresses below the key counts, ReportFound(count-1), and as watched
    outpoints every output `TxStore.OutputsToWatch` returns (wallet.go `recovery()`, since 50a099b): all unspent mined
    credits INCLUDING leased ones and ones spent by an unmined transaction.
    The horizon is NOT restored (it restarts at the number of invalid children seen). -/
def resurrectBranch (window : Nat) (inv : List Nat) (count : Nat) : Branch :=
  let b := (List.range count).foldl (fun b i => if inv.contains i then b.markInvalid i else b.addAddr i) (Branch.new window)
  if count > 0 then b.reportFound (count - 1) else b

def resurrect (invalid : BranchId → List Nat) (st : State) : State :=
  { st with
    branches := (branchIds st.scopes).map (fun k => (k, resurrectBranch st.window (invalid k) (st.nextOf k)))
    watched := (st.credits.filter (fun c => !c.spent)).map (·.op) }

/-- `Resurrect` as `recovery()` called it BEFORE 50a099b: with `TxStore.UnspentOutputs`, which omits leased outputs
    and outputs spent by an unmined transaction (`hidden`).  Kept for the counter-example theorem only. -/
def resurrectOld (invalid : BranchId → List Nat) (st : State) : State :=
  { st with
    branches := (branchIds st.scopes).map (fun k => (k, resurrectBranch st.window (invalid k) (st.nextOf k)))
    watched := (st.credits.filter (fun c => !c.spent && !hidden st c.op)).map (·.op) }

/-- `Wallet.recovery` over the blocks above the wallet's tip, cut into batches; `cuts` says after which batches the
    process is interrupted and later resumed (in-memory state lost, `Resurrect`).  Blocks are (height, block). -/
def recoverChain (invalid : BranchId → List Nat) (batchSize : Nat) : Nat → State → List (Nat × Block) → (Nat → Bool) → Nat → State
  | 0, st, _, _, _ => st
  | fuel + 1, st, blocks, cuts, n =>
    if blocks.isEmpty then st else
    let bs := max batchSize 1
    let st := recoverBatch invalid st (blocks.take bs)
    let st := if cuts n then resurrect invalid st else st
    recoverChain invalid batchSize fuel st (blocks.drop bs) cuts (n + 1)

def recover (invalid : BranchId → List Nat) (window batchSize : Nat) (scopes : List Nat)
    (blocks : List (Nat × Block)) (cuts : Nat → Bool) : State :=
  recoverChain invalid batchSize (blocks.length + 1) (resurrect invalid (State.init window scopes)) blocks cuts 0

/-! ### Interrupted runs (what is on disk when a run of `Wallet.recovery` ends early)

`recovery()` walks the heights above the wallet's tip; per height it first looks at the quit flag (`syncer.quit`, set by
`endRecovery`: `Wallet.Lock`, the unlock timeout, `Wallet.Stop`), then fetches the block, and when `recoveryBatchSize`
blocks are collected (or the best height is reached) scans the batch and stores the blocks' sync points in ONE database
transaction.  A run that ends early — quit flag seen, or `FilterBlocks` failing inside a batch (the batch's
transaction is rolled back) — therefore leaves exactly the batches completed before on disk; the next run
(`syncWithChain` retried by `waitForSync`, or the wallet reopened) starts above the last stored sync point from
`Resurrect`.  In the model: a prefix of the block list processed by `recoverChain`, then `resurrect` and
`recoverChain` over the rest — the semantics of `cuts`. -/

/-- Number of blocks committed by a run that is told to stop while it fetches the `k`-th block above its start
    (1-based; the flag is seen before block `k+1` is fetched): the full batches among the first `k` blocks. -/
def committedAt (batchSize k : Nat) : Nat := max batchSize 1 * (k / max batchSize 1)

/-- State left by a run over `blocks` (from the in-memory state `st`) that is told to stop while it fetches block `k`
    (`k < blocks.length`; an interruption while the last block is fetched is not noticed). -/
def recoverInterrupted (invalid : BranchId → List Nat) (batchSize : Nat) (st : State) (blocks : List (Nat × Block))
    (cuts : Nat → Bool) (k : Nat) : State :=
  let pre := blocks.take (committedAt batchSize k)
  recoverChain invalid batchSize (pre.length + 1) st pre cuts 0

/-- A run whose FilterBlocks request number `target` (in the numbering of the ghost counter `calls`) fails: the batch
    that makes the request is rolled back, the run ends.  Result: the state before that batch and the number of blocks
    committed by the earlier batches (counted from `done`); `none` = the run makes fewer requests. -/
def recoverChainFail (invalid : BranchId → List Nat) (batchSize target : Nat) :
    Nat → State → List (Nat × Block) → Nat → Option (State × Nat)
  | 0, _, _, _ => none
  | fuel + 1, st, blocks, done =>
    if blocks.isEmpty then none else
    let bs := max batchSize 1
    let st' := recoverBatch invalid st (blocks.take bs)
    if target ≤ st'.calls then some (st, done)
    else recoverChainFail invalid batchSize target fuel st' (blocks.drop bs) (done + bs)

/-! ### Start-up against a backend that is still catching up (full node in initial block download)

On a production network (`!isDevEnv()`: MainNet, TestNet, SigNet) `syncWithChain` FIRST waits until the backend reports
itself current (`waitUntilBackendSynced`, polling `IsCurrent()` once a second) and only then locates the birthday block,
checks for a rollback and runs `recovery()`.  `recovery()` reads `GetBestBlock` once, at its start, and scans with the
look-ahead up to that height only; the rescan that follows watches the addresses already derived and stored — not the
look-ahead — and `RescanFinished` marks the wallet synced to the backend's tip.  `download` = number of blocks above
genesis the node had when the wallet connected. -/

/-- The blocks `recovery()` gets to scan when the backend had `download` blocks at connect time and the whole chain
    `blocks` once current: all of them iff the wallet waited first. -/
def scannedAtStartup (waitFirst : Bool) (download : Nat) (blocks : List (Nat × Block)) : List (Nat × Block) :=
  if waitFirst then blocks else blocks.take download

/-- The recovery part of the start-up sync of a wallet just created from its seed. -/
def startupRecover (invalid : BranchId → List Nat) (window batchSize : Nat) (scopes : List Nat) (waitFirst : Bool)
    (download : Nat) (blocks : List (Nat × Block)) (cuts : Nat → Bool) : State :=
  recover invalid window batchSize scopes (scannedAtStartup waitFirst download blocks) cuts

/-- `CalculateBalance(1)` / the `UnspentOutputs` listing: unspent credits that are not `hidden`. -/
def spendable (st : State) : List Credit := st.credits.filter (fun c => !c.spent && !hidden st c.op)

def balance (st : State) : Nat := (spendable st).foldl (fun s c => s + c.amount) 0

/-! ### locateBirthdayBlock -/

/-- The binary search of `locateBirthdayBlock` (heights 0..best, `ts h` = timestamp of block h, times in seconds,
    `delta` = birthdayBlockDelta).  `fuel` bounds the number of iterations; `none` = fuel exhausted. -/
def locateLoop (ts : Nat → Int) (birthday delta : Int) (best : Nat) : Nat → Nat → Nat → Option Nat
  | 0, _, _ => none
  | fuel + 1, left, right =>
    let mid := left + (right - left) / 2
    if mid = 0 ∨ mid = best ∨ mid = left then some mid
    else if ts mid - birthday > delta then locateLoop ts birthday delta best fuel left mid
    else if ts mid - birthday < -delta then locateLoop ts birthday delta best fuel mid right
    else some mid

def locateBirthdayBlock (ts : Nat → Int) (birthday delta : Int) (best : Nat) : Option Nat :=
  locateLoop ts birthday delta best (best + 2) 0 best

end Recovery
