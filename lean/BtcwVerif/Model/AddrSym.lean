/-!
# AddrSym — symbolic write layer for the address manager (C04)

Every value the address manager hands to `walletdb` is modelled as a term saying *what* the bytes are and
*how* they are protected, following the `put*` functions of `waddrmgr/db.go`:

* `secret c d`  — clear-text private material of class `c` (descriptor `d`, e.g. `axprv:84:0:0`)
* `pubdata d`   — clear-text public material (xpub strings, public keys, address hashes / ids, public scripts)
* `plain d`     — bytes that are neither (counters, names, flags, KDF parameters)
* `enc kc v`    — `v` sealed (secretbox) under the crypto / master key of class `kc`
* `sha v`       — `sha256 v` (address rows are keyed by `sha256(addressID)`)
* `cat a b`     — concatenation (length prefixes are elided)

`KeyClass.zero` is the all-zero secretbox key: *anyone* can open such a box, so the predicates below look
through it.  (`Manager.cryptoKeyScript` is never restored by `Unlock`/`loadManager`, see DESIGN §7 O1.)
-/
namespace AddrSym

/-- which key sealed a value (`waddrmgr` crypto keys pub/priv/script, the two scrypt master keys, or the
    publicly known all-zero key) -/
inductive KeyClass
  | pub | priv | script | masterPub | masterPriv | zero
  deriving DecidableEq, Repr, Inhabited

def KeyClass.str : KeyClass → String
  | .pub => "pub" | .priv => "priv" | .script => "script"
  | .masterPub => "mpub" | .masterPriv => "mpriv" | .zero => "zero"

/-- class of a secret: which crypto key is *supposed* to protect it -/
inductive SecClass
  | priv        -- extended private keys, address / imported private keys, the private crypto key
  | script      -- secret scripts, the script crypto key
  | pubring     -- the public crypto key itself (protects public data; sealed under the public master key)
  deriving DecidableEq, Repr, Inhabited

inductive Sym
  | secret (c : SecClass) (d : String)
  | pubdata (d : String)
  | plain (d : String)
  | enc (kc : KeyClass) (v : Sym)
  | sha (v : Sym)
  | cat (a b : Sym)
  deriving Repr, Inhabited

open Sym

/-- a secret is readable by somebody who holds only the database file -/
def exposesSecret : Sym → Bool
  | secret _ _ => true
  | pubdata _ => false
  | plain _ => false
  | enc .zero v => exposesSecret v
  | enc _ _ => false
  | sha _ => false
  | cat a b => exposesSecret a || exposesSecret b

/-- public key material is readable by somebody who holds only the database file -/
def exposesPublic : Sym → Bool
  | secret _ _ => false
  | pubdata _ => true
  | plain _ => false
  | enc .zero v => exposesPublic v
  | enc _ _ => false
  | sha _ => false
  | cat a b => exposesPublic a || exposesPublic b

/-- does the term contain (at any depth) a secret of class `c` -/
def containsSecret (c : SecClass) : Sym → Bool
  | secret c' _ => c == c'
  | pubdata _ => false
  | plain _ => false
  | enc _ v => containsSecret c v
  | sha _ => false
  | cat a b => containsSecret c a || containsSecret c b

/-- key classes allowed to seal a secret of class `c` directly -/
def allowedKey : SecClass → KeyClass → Bool
  | .priv, .priv => true
  | .priv, .masterPriv => true
  | .script, .script => true
  | .script, .masterPriv => true
  | .pubring, .masterPub => true
  | _, _ => false

/-- every box that directly contains private material is sealed by a key of the right class -/
def rightClass : Sym → Bool
  | secret _ _ => true
  | pubdata _ => true
  | plain _ => true
  | enc kc v =>
      rightClass v &&
      ((!containsSecret .priv v || allowedKey .priv kc) &&
       (!containsSecret .script v || allowedKey .script kc) &&
       (!containsSecret .pubring v || allowedKey .pubring kc))
  | sha v => rightClass v
  | cat a b => rightClass a && rightClass b

def Sym.str : Sym → String
  | secret _ d => "S:" ++ d
  | pubdata d => "P:" ++ d
  | plain d => "n:" ++ d
  | enc kc v => "e." ++ kc.str ++ "(" ++ v.str ++ ")"
  | sha v => "h(" ++ v.str ++ ")"
  | cat a b => a.str ++ "+" ++ b.str

/-- one database mutation: `put` (key,value) or `del` key in the bucket `path` (below the waddrmgr namespace) -/
structure Row where
  del : Bool := false
  path : String
  key : Sym
  val : Sym := .plain ""
  deriving Repr, Inhabited

def Row.str (r : Row) : String :=
  if r.del then "D " ++ r.path ++ "|" ++ r.key.str
  else r.path ++ "|" ++ r.key.str ++ "|" ++ r.val.str

def Row.exposesSecret (r : Row) : Bool := AddrSym.exposesSecret r.key || (!r.del && AddrSym.exposesSecret r.val)
def Row.exposesPublic (r : Row) : Bool := AddrSym.exposesPublic r.key || (!r.del && AddrSym.exposesPublic r.val)
def Row.rightClass (r : Row) : Bool := AddrSym.rightClass r.key && (r.del || AddrSym.rightClass r.val)

end AddrSym
