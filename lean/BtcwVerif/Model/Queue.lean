/-
Model of /repo/chain/queue.go  (C18): `ConcurrentQueue`.

Go objects and their model counterparts
* `chanIn`   — UNBUFFERED (`make(chan interface{})`): a producer's `ChanIn() <- x` completes exactly when the worker
               executes `case item := <-cq.chanIn`.  Hence "accepted" = received by the worker (`WLabel.recvIn x`).
* `chanOut`  — buffered with capacity `bufferSize` (`State.cap`, any `Nat`, 0 = rendez-vous): `State.out`.
               A consumer blocked on an empty `chanOut` is `State.waiting`; Go hands a sent value directly to a waiting
               receiver (`deliver`), which is the only way a send on a capacity-0 channel can complete.
* `overflow` — `container/list`: `State.overflow` (front = head).
* `quit`     — closed by `Stop()`: `State.quitClosed`.  The worker has *exited* when `pc = .exited`.
* the worker goroutine of `Start()` — the program counter `State.pc` (`top` = at the `for` head, `inner cs` = has
               received `item` and is about to run the nested non-blocking `select`), `held` = the variable `item`.

The worker's `select` structure is NOT written into the step function: `wstep` is an interpreter of a `Table`
(which `select` cases exist in which branch of `if nextElement == nil`, and what their bodies do).  The table of
the current source is regenerated on every run by the extractor (`BtcwVerif/Gen/QueueGen.lean`); the theorems are
proved for `expectedTable` and `C18_generated_table : QueueGen.table = expectedTable := by decide` transports them.

Scheduling non-determinism (which ready `select` case fires, when the environment acts) is the label sequence: the
theorems quantify over all of them.
-/
namespace Queue

/-! ### The `select` table (syntax) -/

/-- What a `select` communication clause does. -/
inductive Kind where
  | recvIn      -- `case item := <-cq.chanIn`
  | sendFront   -- `case cq.chanOut <- nextElement.Value`
  | sendItem    -- `case cq.chanOut <- item`
  | quit        -- `case <-cq.quit`
  | dflt        -- `default`
  | unknown     -- anything the extractor does not understand
deriving DecidableEq, Repr, Inhabited

/-- Simple statements in a clause body. -/
inductive SAct where
  | pushBackItem   -- `cq.overflow.PushBack(item)`
  | pushFrontItem  -- `cq.overflow.PushFront(item)`   (not in the real code; understood so a mutant can be simulated)
  | removeFront    -- `cq.overflow.Remove(nextElement)`
  | ret            -- `return`
  | unknown
deriving DecidableEq, Repr, Inhabited

/-- Clause of the nested `select`. -/
structure ICase where
  kind : Kind
  body : List SAct
deriving DecidableEq, Repr, Inhabited

inductive Act where
  | simple (a : SAct)
  | select (cs : List ICase)    -- nested `select`; must be the last statement of the body
deriving DecidableEq, Repr, Inhabited

/-- Clause of one of the two outer `select`s. -/
structure OCase where
  kind : Kind
  body : List Act
deriving DecidableEq, Repr, Inhabited

/-- Structural facts outside the loop body that the model relies on. -/
structure Facts where
  chanInUnbuffered   : Bool   -- `chanIn: make(chan interface{})`
  chanOutCapIsParam  : Bool   -- `chanOut: make(chan interface{}, bufferSize)`
  quitUnbuffered     : Bool   -- `quit: make(chan struct{})`
  overflowIsNewList  : Bool   -- `overflow: list.New()`
  accessorsDirect    : Bool   -- `ChanIn()` returns `cq.chanIn`, `ChanOut()` returns `cq.chanOut`
  stopClosesQuit     : Bool   -- `Stop()` is exactly `close(cq.quit)`
  startSpawnsLoop    : Bool   -- `Start()` is exactly `go func() { for { … } }()`
  frontIsOverflowFront : Bool -- loop body starts with `nextElement := cq.overflow.Front()`
  branchOnFrontNil   : Bool   -- followed by exactly `if nextElement == nil { select … } else { select … }`
deriving DecidableEq, Repr, Inhabited

structure Table where
  onEmpty    : List OCase     -- the `select` executed when `nextElement == nil`
  onNonEmpty : List OCase     -- the `select` executed otherwise
  facts      : Facts
deriving DecidableEq, Repr, Inhabited

def expectedInner : List ICase :=
  [⟨.sendItem, []⟩, ⟨.quit, [.ret]⟩, ⟨.dflt, [.pushBackItem]⟩]

def expectedFacts : Facts := ⟨true, true, true, true, true, true, true, true, true⟩

/-- The table of chain/queue.go `Start` as it stands (lines 46–82). -/
def expectedTable : Table :=
  { onEmpty    := [⟨.recvIn, [.select expectedInner]⟩, ⟨.quit, [.simple .ret]⟩]
    onNonEmpty := [⟨.recvIn, [.simple .pushBackItem]⟩, ⟨.sendFront, [.simple .removeFront]⟩, ⟨.quit, [.simple .ret]⟩]
    facts      := expectedFacts }

/-! ### State -/

inductive PC where
  | top                      -- at the head of the `for` loop (blocked in, or about to enter, an outer `select`)
  | inner (cs : List ICase)  -- `item` received, about to execute the nested `select` with clauses `cs`
  | exited                   -- the goroutine has returned
deriving DecidableEq, Repr, Inhabited

structure State (α : Type) where
  cap        : Nat
  out        : List α := []      -- contents of the `chanOut` buffer, oldest first
  overflow   : List α := []      -- `cq.overflow`, front first
  delivered  : List α := []      -- what the consumer has received so far, in order
  accepted   : List α := []      -- what producers have successfully sent on `ChanIn()`, in order
  lost       : List α := []      -- items the worker received and then dropped (only the nested `case <-quit`)
  held       : Option α := none  -- the variable `item` of the current iteration
  handled    : Bool := false     -- `item` has been sent or pushed in this iteration
  pc         : PC := .top
  quitClosed : Bool := false     -- `Stop()` has been called
  waiting    : Bool := false     -- the consumer is blocked in `<-ChanOut()` on an empty buffer
deriving Repr

def init (α : Type) (cap : Nat) : State α := { cap := cap }

/-- Worker steps: which clause of the current `select` fires. -/
inductive WLabel (α : Type) where
  | recvIn (x : α)   -- with a producer offering `x`
  | sendFront
  | sendItem
  | quit
  | dflt
deriving Repr

/-- Environment steps. -/
inductive ELabel where
  | consume   -- consumer takes the oldest value out of the `chanOut` buffer
  | wait      -- consumer blocks on the empty `chanOut`
  | unwait    -- consumer stops waiting (its own `select` chose something else)
  | stop      -- `Stop()`
deriving Repr, DecidableEq

inductive Label (α : Type) where
  | w (l : WLabel α)
  | e (l : ELabel)
deriving Repr

def WLabel.kind {α} : WLabel α → Kind
  | .recvIn _ => .recvIn
  | .sendFront => .sendFront
  | .sendItem => .sendItem
  | .quit => .quit
  | .dflt => .dflt

/-! ### Semantics -/
variable {α : Type}

/-- A send on `chanOut` can proceed: a receiver is waiting, or the buffer has room. -/
def sendReady (s : State α) : Bool := s.waiting || decide (s.out.length < s.cap)

/-- Readiness of a clause as far as it depends on the queue's own state (a producer's offer is part of the label). -/
def kindReady (s : State α) : Kind → Bool
  | .recvIn => false
  | .sendFront => !s.overflow.isEmpty && sendReady s
  | .sendItem => s.held.isSome && sendReady s
  | .quit => s.quitClosed
  | .dflt => false
  | .unknown => false

/-- Effect of a completed send on `chanOut`. -/
def deliver (s : State α) (x : α) : State α :=
  if s.waiting then { s with delivered := s.delivered ++ [x], waiting := false }
  else { s with out := s.out ++ [x] }

/-- End of a loop iteration: `item` goes out of scope (if nothing was done with it, it is lost). -/
def finish (s : State α) : State α :=
  { s with held := none, handled := false, pc := .top,
           lost := if s.handled then s.lost else s.lost ++ s.held.toList }

def ICase.toO (c : ICase) : OCase := ⟨c.kind, c.body.map Act.simple⟩

def execBody : List Act → State α → State α
  | [], s => finish s
  | .simple .pushBackItem :: r, s =>
    execBody r (match s.held with
      | some x => { s with overflow := s.overflow ++ [x], handled := true }
      | none => s)
  | .simple .pushFrontItem :: r, s =>
    execBody r (match s.held with
      | some x => { s with overflow := x :: s.overflow, handled := true }
      | none => s)
  | .simple .removeFront :: r, s => execBody r { s with overflow := s.overflow.tail }
  | .simple .ret :: _, s => { finish s with pc := .exited }
  | .simple .unknown :: r, s => execBody r s
  | .select cs :: _, s => { s with pc := .inner cs }

/-- The clauses of the `select` the worker is at. -/
def curCases (t : Table) (s : State α) : List OCase :=
  match s.pc with
  | .top => if s.overflow.isEmpty then t.onEmpty else t.onNonEmpty
  | .inner cs => cs.map ICase.toO
  | .exited => []

def guard (s : State α) (cs : List OCase) : WLabel α → Bool
  | .recvIn _ => true
  | .sendFront => kindReady s .sendFront
  | .sendItem => kindReady s .sendItem
  | .quit => kindReady s .quit
  | .dflt => cs.all (fun c => !kindReady s c.kind)   -- `default` only when no other clause is ready

def chanEffect (s : State α) : WLabel α → State α
  | .recvIn x => { s with accepted := s.accepted ++ [x], held := some x, handled := false }
  | .sendFront => match s.overflow with
    | f :: _ => deliver s f
    | [] => s
  | .sendItem => match s.held with
    | some x => deliver { s with handled := true } x
    | none => s
  | .quit => s
  | .dflt => s

/-- One worker step under table `t`: the first clause of the right kind in the current `select`, if ready. -/
def wstep (t : Table) (s : State α) (l : WLabel α) : Option (State α) :=
  let cs := curCases t s
  match cs.find? (fun c => c.kind == l.kind) with
  | none => none
  | some c => if guard s cs l then some (execBody c.body (chanEffect s l)) else none

def estep (s : State α) : ELabel → Option (State α)
  | .consume => match s.out with
    | [] => none
    | x :: r => some { s with out := r, delivered := s.delivered ++ [x] }
  | .wait => if s.out.isEmpty && !s.waiting then some { s with waiting := true } else none
  | .unwait => if s.waiting then some { s with waiting := false } else none
  | .stop => if s.quitClosed then none else some { s with quitClosed := true }   -- second `Stop()` panics in Go

def step (t : Table) (s : State α) : Label α → Option (State α)
  | .w l => wstep t s l
  | .e l => estep s l

/-- Run a schedule; `none` if some step is not enabled. -/
def run (t : Table) (s : State α) : List (Label α) → Option (State α)
  | [] => some s
  | l :: ls => match step t s l with
    | none => none
    | some s' => run t s' ls

def Reachable (t : Table) (cap : Nat) (s : State α) : Prop := ∃ tr, run t (init α cap) tr = some s

/-! ### Deterministic "run the worker until it blocks" used by the stepwise correspondence

When the environment is quiet the worker keeps taking ready clauses; the order below only matters when two clauses
are ready at once, which in a quiescent-environment run happens only for `quit` vs a send after `Stop()` (and then
every order ends in `exited`). -/
def settleOne (t : Table) (s : State α) : Option (State α) :=
  match wstep t s .sendItem with
  | some s' => some s'
  | none => match wstep t s .sendFront with
    | some s' => some s'
    | none => match wstep t s .quit with
      | some s' => some s'
      | none => wstep t s .dflt

def settle (t : Table) : Nat → State α → State α
  | 0, s => s
  | n + 1, s => match settleOne t s with
    | none => s
    | some s' => settle t n s'

def settleFuel (s : State α) : Nat := s.overflow.length + s.cap + 4

end Queue
