import BtcwVerif.Model.TxStore
/-!
# Ledger — the specification the transaction store is checked against (C01, C02, C12, C13)

This is deliberately *not* written like the implementation: no buckets, no running counter, no spent flags.
A ledger is the best chain as the wallet learned it (blocks holding transactions), the pool of unconfirmed
transactions, the set of credited outputs and the set of leases.  `apply` is the reference semantics of the
events (the sentences of C02); `balance`, `utxos`, `details`, `range`, `locked` are the sentences of C01, C13 and
C12 read literally.  `consistent` says which next event a validating node could emit.
Core Lean only (linked into the driver: the `spec …` ops evaluate these functions).
-/

namespace Ledger
open TxStore (OutPoint Block BlockMeta Tx withIdx CreditRecord DebitRecord Details Credit maxInt32 grantedExpiry)

structure LBlock where
  bm : BlockMeta
  txs : List Tx                 -- in the order the wallet learned them
deriving DecidableEq, Repr, Inhabited

structure Lease where
  id : Nat
  expiry : Int                  -- the instant handed to the caller, in ns (leases have whole-second granularity:
                                -- `now + duration` rounded up to the next second)
deriving DecidableEq, Repr, Inhabited

structure Ledger where
  chain : List LBlock := []                       -- ascending height, one block per height
  pool : List Tx := []                            -- arrival order
  credit : List (OutPoint × Bool) := []           -- credited outputs ↦ change flag
  leases : List (OutPoint × Lease) := []
  now : Nat := 0                                  -- clock, ns
deriving DecidableEq, Repr, Inhabited

inductive Event
  | seen (tx : Tx) (credits : List (Nat × Bool))
  | confirmed (bm : BlockMeta) (tx : Tx) (credits : List (Nat × Bool))
  | disconnected (height : Int)
  | abandoned (tx : Tx)
  | lease (id : Nat) (op : OutPoint) (duration : Int)
  | release (id : Nat) (op : OutPoint)
  | sweep
  | clock (t : Nat)
deriving Repr

/-! ## Reading a ledger -/

def chainTxs (L : Ledger) : List (Tx × BlockMeta) := L.chain.flatMap fun b => b.txs.map fun t => (t, b.bm)

/-- every transaction the wallet currently knows, with its confirming block (none = unconfirmed). -/
def known (L : Ledger) : List (Tx × Option BlockMeta) :=
  (chainTxs L).map (fun p => (p.1, some p.2)) ++ L.pool.map (fun t => (t, none))

def isKnown (L : Ledger) (h : Nat) : Bool := (known L).any fun p => p.1.hash == h
def inPool (L : Ledger) (h : Nat) : Bool := L.pool.any fun t => t.hash == h
def inChain (L : Ledger) (h : Nat) : Bool := (chainTxs L).any fun p => p.1.hash == h

def lookup {α : Type} (l : List (OutPoint × α)) (op : OutPoint) : Option α :=
  match l.find? (fun p => p.1 == op) with
  | some p => some p.2
  | none => none

def credited (L : Ledger) (op : OutPoint) : Bool := (lookup L.credit op).isSome

/-- some known transaction (confirmed or not) spends the output -/
def spent (L : Ledger) (op : OutPoint) : Bool := (known L).any fun p => p.1.ins.contains op
/-- some confirmed transaction spends the output -/
def spentConfirmed (L : Ledger) (op : OutPoint) : Bool := (chainTxs L).any fun p => p.1.ins.contains op

/-- leased at the ledger's clock: an entry exists and its expiry has not been reached -/
def leaseOf (L : Ledger) (op : OutPoint) : Option Lease :=
  match lookup L.leases op with
  | some l => if (L.now : Int) < l.expiry then some l else none
  | none => none

def leased (L : Ledger) (op : OutPoint) : Bool := (leaseOf L op).isSome

def topHeight (L : Ledger) : Nat := L.chain.foldl (fun m b => max m b.bm.block.height) 0

/-- confirmations at sync height `sync`: 0 for unconfirmed, `sync − height + 1` otherwise -/
def confs (b : Option BlockMeta) (sync : Int) : Int :=
  match b with
  | none => 0
  | some bm => sync - bm.block.height + 1

/-- C01, first sentence, for one output of one known transaction. -/
def counts (L : Ledger) (minConf sync maturity : Int) (t : Tx) (b : Option BlockMeta) (i : Nat) : Bool :=
  let op : OutPoint := ⟨t.hash, i⟩
  credited L op && !spent L op && !leased L op &&
    decide (minConf ≤ confs b sync) && (minConf == 0 || b.isSome) &&
    (!t.isCoinBase || decide (maturity ≤ confs b sync))

/-- C01: the balance for a minimum confirmation count. -/
def balance (L : Ledger) (maturity minConf sync : Int) : Int :=
  ((known L).map fun (t, b) =>
    ((withIdx t.outs).map fun (i, v) => if counts L minConf sync maturity t b i then v else 0).sum).sum

/-- C01, second sentence: credited, unspent, unleased outputs with amount, block and coinbase flag. -/
def utxos (L : Ledger) : List Credit :=
  (known L).flatMap fun (t, b) =>
    (withIdx t.outs).filterMap fun (i, v) =>
      let op : OutPoint := ⟨t.hash, i⟩
      if credited L op && !spent L op && !leased L op then some ⟨op, b, v, t.isCoinBase⟩ else none

/-- what must be watched on restart: every credited output not spent by a confirmed transaction. -/
def watchSet (L : Ledger) : List OutPoint :=
  (known L).flatMap fun (t, _) =>
    (withIdx t.outs).filterMap fun (i, _) =>
      let op : OutPoint := ⟨t.hash, i⟩
      if credited L op && !spentConfirmed L op then some op else none

def poolHashes (L : Ledger) : List Nat := L.pool.map (·.hash)

/-- value of a credited output of a known transaction -/
def creditValue (L : Ledger) (op : OutPoint) : Option Int :=
  if credited L op then
    match (known L).find? (fun p => p.1.hash == op.hash) with
    | some (t, _) => t.outs[op.index]?
    | none => none
  else none

/-- C13: the record of one known transaction. -/
def detailsOf (L : Ledger) (t : Tx) (b : Option BlockMeta) : Details :=
  { tx := t, block := b,
    credits := (withIdx t.outs).filterMap fun (i, v) =>
      match lookup L.credit ⟨t.hash, i⟩ with
      | some chg => some ⟨i, v, spent L ⟨t.hash, i⟩, chg⟩
      | none => none,
    debits := (withIdx t.ins).filterMap fun (j, inp) =>
      match creditValue L inp with
      | some v => some ⟨j, v⟩
      | none => none }

def details (L : Ledger) (h : Nat) : Option Details :=
  match (known L).find? (fun p => p.1.hash == h) with
  | some (t, b) => some (detailsOf L t b)
  | none => none

/-- C13: batches reported by a range query `[begin,end]` (−1 = unconfirmed, treated as +∞). -/
def range (L : Ledger) (begin_ end_ : Int) : List (List Details) :=
  let b := if begin_ < 0 then maxInt32 else begin_
  let e := if end_ < 0 then maxInt32 else end_
  let un := if L.pool.isEmpty then [] else [L.pool.map fun t => detailsOf L t none]
  let blk (lb : LBlock) := lb.txs.map fun t => detailsOf L t (some lb.bm)
  let mid :=
    if b < e then (L.chain.filter fun lb => decide (b ≤ (lb.bm.block.height : Int) ∧ (lb.bm.block.height : Int) ≤ e)).map blk
    else ((L.chain.filter fun lb => decide (e ≤ (lb.bm.block.height : Int) ∧ (lb.bm.block.height : Int) ≤ b)).reverse).map blk
  (if begin_ < 0 then un else []) ++ mid ++ (if !(begin_ < 0) && end_ < 0 then un else [])

/-- C12: the leases in force -/
def locked (L : Ledger) : List (OutPoint × Lease) := L.leases.filter fun p => decide ((L.now : Int) < p.2.expiry)

/-! ## Events -/

/-- hashes of `roots` plus every pool transaction that (transitively) spends an output of one of them -/
def closure (pool : List Tx) : Nat → List Nat → List Nat
  | 0, rm => rm
  | n + 1, rm =>
    let more := (pool.filter fun t => !rm.contains t.hash && t.ins.any fun i => rm.contains i.hash).map (·.hash)
    if more.isEmpty then rm else closure pool n (rm ++ more)

def dropCredits (credit : List (OutPoint × Bool)) (gone : List Nat) : List (OutPoint × Bool) :=
  credit.filter fun p => !gone.contains p.1.hash

def addCredits (credit : List (OutPoint × Bool)) (t : Tx) (cr : List (Nat × Bool)) : List (OutPoint × Bool) :=
  cr.foldl (fun c (i, chg) =>
    if i < t.outs.length && (lookup c ⟨t.hash, i⟩).isNone then c ++ [(⟨t.hash, i⟩, chg)] else c) credit

/-- put a transaction into the block `bm` (appending to the block at that height, or adding the block in height order) -/
def chainInsert : List LBlock → BlockMeta → Tx → List LBlock
  | [], bm, t => [⟨bm, [t]⟩]
  | b :: rest, bm, t =>
    if b.bm.block.height = bm.block.height then { b with txs := b.txs ++ [t] } :: rest
    else if bm.block.height < b.bm.block.height then ⟨bm, [t]⟩ :: b :: rest
    else b :: chainInsert rest bm t

/-- the output may be leased: credited, of a known transaction, not spent by a confirmed transaction -/
def leasable (L : Ledger) (op : OutPoint) : Bool := credited L op && isKnown L op.hash && !spentConfirmed L op

/-- Reference semantics of one event. -/
def apply (L : Ledger) : Event → Ledger
  | .seen t cr =>
    -- an unconfirmed transaction is recorded once; a transaction already known is left as it is
    if isKnown L t.hash then L
    else { L with pool := L.pool ++ [t], credit := addCredits L.credit t cr }
  | .confirmed bm t cr =>
    if inChain L t.hash then L
    else
      -- conflicting unconfirmed transactions and all their unconfirmed descendants disappear
      let roots := (L.pool.filter fun u => u.hash != t.hash && u.ins.any fun i => t.ins.contains i).map (·.hash)
      let gone := if roots.isEmpty then [] else closure L.pool L.pool.length roots
      { L with
        chain := chainInsert L.chain bm t,
        pool := L.pool.filter fun u => u.hash != t.hash && !gone.contains u.hash,
        credit := addCredits (dropCredits L.credit gone) t cr,
        -- a confirmed spend ends the lease of the spent output
        leases := L.leases.filter fun p => !t.ins.contains p.1 }
  | .disconnected h =>
    let keep := L.chain.filter fun b => decide ((b.bm.block.height : Int) < h)
    let cut := (L.chain.filter fun b => !decide ((b.bm.block.height : Int) < h)).reverse
    let cutTxs := cut.flatMap (·.txs)
    let cbs := (cutTxs.filter (·.isCoinBase)).map (·.hash)
    -- non-coinbase transactions become unconfirmed again, credits intact
    let pool1 := L.pool ++ cutTxs.filter (!·.isCoinBase)
    -- coinbases of disconnected blocks and everything depending on them disappear
    let gone := if cbs.isEmpty then [] else closure pool1 pool1.length cbs
    { L with chain := keep, pool := pool1.filter (fun u => !gone.contains u.hash), credit := dropCredits L.credit gone }
  | .abandoned t =>
    if inPool L t.hash then
      let gone := closure L.pool L.pool.length [t.hash]
      { L with pool := L.pool.filter (fun u => !gone.contains u.hash), credit := dropCredits L.credit gone }
    else L
  | .lease id op d =>
    if !leasable L op then L
    else match leaseOf L op with
      | some l => if l.id ≠ id then L
                  else { L with leases := (L.leases.filter fun p => p.1 != op) ++ [(op, ⟨id, grantedExpiry L.now d⟩)] }
      | none => { L with leases := (L.leases.filter fun p => p.1 != op) ++ [(op, ⟨id, grantedExpiry L.now d⟩)] }
  | .release id op =>
    if !leasable L op then L
    else match leaseOf L op with
      | some l => if l.id ≠ id then L else { L with leases := L.leases.filter fun p => p.1 != op }
      | none => L
  | .sweep => { L with leases := L.leases.filter fun p => decide ((L.now : Int) < p.2.expiry) }
  | .clock t => { L with now := t }

/-- "a validating node could emit this next" (decidable reading of chain-consistency; DESIGN §5.2). -/
def consistent (L : Ledger) : Event → Bool
  | .seen t cr =>
    let fresh := !isKnown L t.hash
    -- hashes identify transactions
    ((known L).all fun p => p.1.hash != t.hash || p.1 == t) &&
    (cr.all fun c => c.1 < t.outs.length) &&
    -- a coinbase is never unconfirmed
    (!fresh || !t.isCoinBase) &&
    -- parents are delivered first: nobody already spends an output of a transaction seen for the first time
    (!fresh || (known L).all fun p => p.1.ins.all fun i => i.hash != t.hash)
  | .confirmed bm t cr =>
    let fresh := !isKnown L t.hash
    ((known L).all fun p => p.1.hash != t.hash || p.1 == t) &&
    (cr.all fun c => c.1 < t.outs.length) &&
    -- one block per height
    (L.chain.all fun b => b.bm.block.height != bm.block.height || b.bm == bm) &&
    -- not confirmed in another block
    ((chainTxs L).all fun p => p.1.hash != t.hash || p.2 == bm) &&
    -- no confirmed double spend
    ((chainTxs L).all fun p => p.1.hash == t.hash || !(p.1.ins.any fun i => t.ins.contains i)) &&
    -- no duplicated input
    t.ins.eraseDups.length == t.ins.length &&
    -- known parents are confirmed at or below its height
    (t.ins.all fun i => !inPool L i.hash) &&
    ((chainTxs L).all fun p => !(t.ins.any fun i => i.hash == p.1.hash) || p.2.block.height ≤ bm.block.height) &&
    -- a coinbase is never seen unconfirmed first
    (!t.isCoinBase || !inPool L t.hash) &&
    (!fresh || (known L).all fun p => p.1.ins.all fun i => i.hash != t.hash) &&
    -- confirmed children are at or above it
    ((chainTxs L).all fun p => !(p.1.ins.any fun i => i.hash == t.hash) || bm.block.height ≤ p.2.block.height)
  | .disconnected _ => true
  | .abandoned t => inPool L t.hash
  | .lease _ _ _ => true
  | .release _ _ => true
  | .sweep => true
  | .clock _ => true

/-- the facts two histories must share for C02's path independence (canonical: sorted by the caller) -/
structure Facts where
  blocks : List (BlockMeta × List Nat)
  pool : List Nat
  credit : List (OutPoint × Bool)
deriving DecidableEq, Repr

end Ledger
