/-
Hand-modelled externals used by the generated `Gen/SizesGen.lean` (C07).

Everything in this file stands for code that lives OUTSIDE /repo (btcd `wire`, `txscript`, `mempool`, pinned by
/repo's go.mod/go.sum).  Each definition cites the btcd function it mirrors; engine `author` compares every one of
them with the real function (`script` op: classification table; `dust` op: `mempool.IsDust`/`GetDustThreshold`;
`author` op with `sigs=`: the serialiser through the measured weight of really signed transactions).

A script is abstracted to its length and the answers of the txscript predicates that the wallet code asks about it.
-/
namespace SizesExt

/-- Abstract pkScript: byte length + the txscript predicates consulted by txsizes / txrules / txauthor / mempool. -/
structure Script where
  len           : Nat
  isP2SH        : Bool := false   -- txscript.IsPayToScriptHash
  isP2WPKH      : Bool := false   -- txscript.IsPayToWitnessPubKeyHash
  isP2TR        : Bool := false   -- txscript.IsPayToTaproot
  isWitness     : Bool := false   -- txscript.IsWitnessProgram
  isUnspendable : Bool := false   -- txscript.IsUnspendable
  isNullData    : Bool := false   -- txscript.GetScriptClass(s) == txscript.NullDataTy
deriving Repr, DecidableEq, Inhabited

/-- wire.TxOut -/
structure TxOut where
  Value    : Int
  PkScript : Script
deriving Repr, DecidableEq, Inhabited

/-- btcd wire.VarIntSerializeSize(uint64(v)).  A negative Go `int` converted to uint64 is ≥ 2^63, hence 9. -/
def wire_VarIntSerializeSize (v : Int) : Int :=
  if v < 0 then 9
  else if v < 0xfd then 1
  else if v ≤ 0xffff then 3
  else if v ≤ 0xffffffff then 5
  else 9

/-- (*wire.TxOut).SerializeSize: 8 bytes value + var-int script length + script. -/
def TxOut.SerializeSize (o : TxOut) : Int :=
  8 + wire_VarIntSerializeSize (o.PkScript.len : Int) + (o.PkScript.len : Int)

def txscript_IsPayToScriptHash (s : Script) : Bool := s.isP2SH
def txscript_IsPayToWitnessPubKeyHash (s : Script) : Bool := s.isP2WPKH
def txscript_IsPayToTaproot (s : Script) : Bool := s.isP2TR
def txscript_IsWitnessProgram (s : Script) : Bool := s.isWitness
def txscript_IsUnspendable (s : Script) : Bool := s.isUnspendable

/-- Only the distinction `NullDataTy` / anything else is ever consulted. -/
inductive ScriptClass where
  | NullDataTy | other
deriving Repr, DecidableEq

def txscript_NullDataTy : ScriptClass := .NullDataTy
def txscript_GetScriptClass (s : Script) : ScriptClass := if s.isNullData then .NullDataTy else .other

/-- btcd mempool.GetDustThreshold:  3 * (SerializeSize + 41 + (107/4 if witness program else 107)). -/
def mempool_GetDustThreshold (o : TxOut) : Int :=
  3 * (o.SerializeSize + 41 + (if o.PkScript.isWitness then Int.tdiv 107 4 else 107))

/-- btcd mempool.IsDust: unspendable ⇒ dust; else `Value*1000/GetDustThreshold < minRelayTxFee` (Go `/` truncates). -/
def mempool_IsDust (o : TxOut) (minRelayTxFee : Int) : Bool :=
  if o.PkScript.isUnspendable then true
  else decide (Int.tdiv (o.Value * 1000) (mempool_GetDustThreshold o) < minRelayTxFee)

/-! ### Script tokens of the line protocol (engine `author`)

The Go engine builds a REAL script for every token and reports its length and predicate answers; the `script` op
compares that with this table. -/

private def natSuffix (s : String) (pfx : String) : Option Nat :=
  if s.startsWith pfx then (s.drop pfx.length).toNat? else none

/-- token → abstract script.
 `pkh` P2PKH(25) · `sh` P2SH(23) · `wpkh` P2WPKH(22) · `wsh` P2WSH(34) · `tr` P2TR(34) · `pk` compressed P2PK(35) ·
 `wit<N>` OP_2 + N-byte push (unknown witness program, 2 ≤ N ≤ 40) · `nd<N>` OP_RETURN + one data push, N bytes in
 total (null data; N ∈ {1} ∪ [3,77] ∪ [79,83]) · `ret<N>` OP_RETURN followed by N-1 OP_1 (N ≥ 3; unspendable, not null
 data) · `raw<N>` N × OP_1 (non-standard; unspendable iff N > 10000). -/
def Script.ofToken (t : String) : Option Script :=
  if t == "pkh" then some { len := 25 }
  else if t == "sh" then some { len := 23, isP2SH := true }
  else if t == "wpkh" then some { len := 22, isP2WPKH := true, isWitness := true }
  else if t == "wsh" then some { len := 34, isWitness := true }
  else if t == "tr" then some { len := 34, isP2TR := true, isWitness := true }
  else if t == "pk" then some { len := 35 }
  else match natSuffix t "wit" with
  | some n => if 2 ≤ n ∧ n ≤ 40 then some { len := n + 2, isWitness := true } else none
  | none =>
  match natSuffix t "nd" with
  | some n =>
    if n = 1 ∨ (3 ≤ n ∧ n ≤ 77) ∨ (79 ≤ n ∧ n ≤ 83) then some { len := n, isUnspendable := true, isNullData := true }
    else none
  | none =>
  match natSuffix t "ret" with
  | some n => if 3 ≤ n ∧ n ≤ 100000 then some { len := n, isUnspendable := true } else none
  | none =>
  match natSuffix t "raw" with
  | some n => if n ≤ 100000 then some { len := n, isUnspendable := decide (n > 10000) } else none
  | none => none

end SizesExt
