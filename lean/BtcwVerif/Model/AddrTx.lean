import BtcwVerif.Model.AddrDeriveStep
/-!
# AddrTx — the database file as a whole: the `waddrmgr` namespace next to the `wtxmgr` namespace (C04)

C04's "no public key material in the clear … until a transaction is recorded": the transaction store keeps raw
transactions, and their scripts contain address hashes / public keys in the clear.  This layer tags every write
with its top-level namespace and adds the one operation of the wallet that writes such material:
`recordTx` (`wtxmgr.InsertTx` / `AddCredit` of a transaction paying to, or spending from, a wallet address).
The address manager never sees it (marking the address used is the separate `markUsed` operation).
-/
namespace AddrDerive
open AddrSym

variable {K P : Type} [DecidableEq K] [DecidableEq P]

inductive Ns
  | waddrmgr | wtxmgr
  deriving DecidableEq, Repr

/-- a write to the database file: namespace + row -/
abbrev NsRow := Ns × Row

inductive WOp (K P : Type)
  | mgr (op : Op K P)                      -- any address-manager operation
  | recordTx (desc : String)               -- wtxmgr records a transaction whose script shows address `desc`

/-- the rows `wtxmgr` writes for a transaction, by what they show: the record(s) holding the raw transaction
    (scripts ⇒ the address id / hash in the clear) and the bookkeeping entries (outpoints, amounts, times: neither
    secret nor public key material) -/
def txRows (desc : String) : List Row :=
  [ { path := "wtxmgr", key := .plain "rec", val := .cat (.plain "raw") (.pubdata ("aid:" ++ desc)) },
    { path := "wtxmgr", key := .plain "rec", val := .plain "meta" } ]

def wstep (cfg : Cfg) (hd : HD K P) (s : State K P) : WOp K P → State K P × Res K × List NsRow
  | .mgr op => let r := step cfg hd s op; (r.1, r.2.1, r.2.2.map fun w => (Ns.waddrmgr, w))
  | .recordTx desc =>
    if !s.created then (s, .err .notCreated, []) else
    (s, .ok, (txRows desc).map fun w => (Ns.wtxmgr, w))

/-- run a history of the whole wallet database, collecting every write of both namespaces -/
def wrun (cfg : Cfg) (hd : HD K P) (ops : List (WOp K P)) : State K P × List NsRow :=
  ops.foldl (fun acc op => let r := wstep cfg hd acc.1 op; (r.1, acc.2 ++ r.2.2)) (emptyState, [])

def WOp.isTx : WOp K P → Bool
  | .recordTx _ => true
  | .mgr _ => false

end AddrDerive
