/-
C18, caller-side obligation of chain/queue.go: `(*ConcurrentQueue).Start` is `go func() { for { … } }()` — every call
spawns one more worker goroutine on the same channels and the same (unsynchronised) overflow list.  All theorems of
`Props/C18.lean` are about ONE worker, so "Start is called at most once per queue instance" has to hold at the call
sites.  This file holds

* the shape of the facts the extractor `queuestart` (harness/cmd/vxextract/queuestart.go → `Gen/QueueStartGen.lean`)
  reads off chain/*.go: queue-typed struct fields, call sites of `Start` with the once-guard that dominates them,
  every other write to such a guard variable, and every use of a queue the extractor does not understand;
* `startedOnce`, the decidable obligation on those facts;
* a three-line model of a guarded `Start` (`GState`/`gstep`): test-and-set guard, optional reset of the guard —
  `Props/C18Start.lean` proves that without a reset at most one worker is ever spawned and that one reset suffices
  for two.

Go (chain/bitcoind_client.go, the only owner of a ConcurrentQueue):

    func (c *BitcoindClient) Start() error {
        if !atomic.CompareAndSwapInt32(&c.started, 0, 1) { return nil }
        c.notificationQueue.Start()
        c.notificationQueue.ChanIn() <- ClientConnected{}
        … GetBestBlock / GetBlockHeaderVerbose: `return fmt.Errorf(…)` on failure (the guard stays set) …
-/
namespace QueueStart

/-- A once-guard: `if !atomic.CompareAndSwapInt32(&recv.field, 0, 1) { return }` (`form = "cas01"`) or
`if atomic.AddInt32(&recv.field, 1) != 1 { return }` (`"add1"`) as FIRST statement of a method of `owner`. -/
structure Guard where
  owner : String
  field : String
  form  : String
deriving Repr

/-- A call `<queue>.Start()`. -/
structure StartSite where
  file     : String
  func     : String
  queue    : String        -- source text of the queue expression, e.g. `c.notificationQueue`
  line     : Nat
  guard    : Option Nat    -- index into `Facts.guards` of the dominating guard (on the same receiver); `none` = unguarded
  straight : Bool          -- plain top-level statement of the method body (no loop / closure / go / defer around it)
deriving Repr

/-- A write to a guard variable other than the dominating test-and-set itself. -/
structure GuardWrite where
  guard  : Nat             -- index into `Facts.guards`
  file   : String
  func   : String
  src    : String
  line   : Nat
  resets : Bool            -- `false` only if it provably stores a non-zero constant (it cannot re-open the guard)
deriving Repr

structure Facts where
  queueFields : List String      -- `Owner.field` of type `*ConcurrentQueue`
  guards      : List Guard
  sites       : List StartSite
  writes      : List GuardWrite
  otherUses   : List String      -- anything else done with a queue (escape, re-assignment, creation elsewhere, …)
deriving Repr

/-- Resetting writes to the guard with index `g`. -/
def resetsOf (f : Facts) (g : Nat) : List GuardWrite := f.writes.filter (fun w => w.guard == g && w.resets)

/-- One call site is fine: straight-line, behind a guard nobody re-opens. -/
def siteOk (f : Facts) (s : StartSite) : Bool :=
  s.straight && (match s.guard with
    | some g => decide (g < f.guards.length) && (resetsOf f g).isEmpty
    | none => false)

/-- The obligation: there IS a call site (the extractor found the code it is about), every call site is fine, every
queue lives in a struct field, and nothing else is done with a queue. -/
def startedOnce (f : Facts) : Bool :=
  !f.sites.isEmpty && !f.queueFields.isEmpty && f.sites.all (siteOk f) && f.otherUses.isEmpty

/-! ### A guarded `Start` as a transition system -/

inductive GOp where
  | start   -- the owner's `Start()` is called (any number of times, by anyone)
  | reset   -- the guard variable is set back to 0 (`atomic.StoreInt32(&c.started, 0)`)
deriving DecidableEq, Repr

structure GState where
  started : Bool := false   -- the guard variable ≠ 0
  workers : Nat := 0        -- worker goroutines spawned on the queue so far
deriving DecidableEq, Repr

/-- `Start()`: test-and-set, then `queue.Start()` (one more worker). -/
def gstep (s : GState) : GOp → GState
  | .start => if s.started then s else { started := true, workers := s.workers + 1 }
  | .reset => { s with started := false }

def grun (s : GState) (tr : List GOp) : GState := tr.foldl gstep s

end QueueStart
