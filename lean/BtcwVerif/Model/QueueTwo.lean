import BtcwVerif.Model.Queue
/-
C18: chain/queue.go `ConcurrentQueue` with SEVERAL worker goroutines on one queue — what a second call of
`(*ConcurrentQueue).Start` produces.  Hand-written step function following the loop of `Start` (the same code the
`Queue.expectedTable` describes), with the two things that are invisible with one worker made explicit:

* every worker evaluates `nextElement := cq.overflow.Front()` — and, on entering the second `select`, the send
  operand `nextElement.Value` — ONCE per iteration and then blocks; while it is blocked another worker may remove
  that very element (`PC.selFront e` caches the element);
* `container/list.Remove(e)` is a no-op when `e` is no longer an element of the list (`e.list != l`), so list
  elements carry an identity (`Elem.id`).

Channels are as in `Model/Queue.lean` (unbuffered `chanIn`: "accepted" = received by some worker; `chanOut` with
capacity `cap`); the consumer only takes values out of the buffer (`consume`), which is all the witnesses need.
Data races on the list itself (two simultaneous `PushBack`/`Remove`, which in Go additionally corrupt the list and
have been observed to crash the process) are NOT modelled: every step here is atomic — the anomalies below need no
torn write.
-/
namespace QueueTwo

/-- A `container/list` element. -/
structure Elem (α : Type) where
  id  : Nat
  val : α
deriving DecidableEq, Repr

inductive PC (α : Type) where
  | top                   -- at the head of the `for` loop, `cq.overflow.Front()` not yet evaluated
  | selEmpty              -- blocked in the `select` of the `nextElement == nil` branch
  | selFront (e : Elem α) -- blocked in the `select` of the other branch, `nextElement = e` (value already evaluated)
  | inner (item : α)      -- `item` received, about to run the nested non-blocking `select`
  | exited
deriving DecidableEq, Repr

structure State (α : Type) where
  cap        : Nat
  workers    : List (PC α)
  out        : List α := []
  overflow   : List (Elem α) := []
  nextId     : Nat := 0
  delivered  : List α := []
  accepted   : List α := []
  lost       : List α := []
  quitClosed : Bool := false
deriving Repr

/-- `n` calls of `Start()` on a fresh queue. -/
def init (α : Type) (cap n : Nat) : State α := { cap := cap, workers := List.replicate n .top }

inductive WLabel (α : Type) where
  | enter            -- evaluate `nextElement`, choose the branch, block in its `select`
  | recvIn (x : α)   -- `case item := <-cq.chanIn` with a producer offering `x`
  | sendFront        -- `case cq.chanOut <- nextElement.Value`
  | sendItem         -- nested `case cq.chanOut <- item`
  | dflt             -- nested `default`
  | quit             -- `case <-cq.quit`
deriving Repr

inductive Label (α : Type) where
  | w (i : Nat) (l : WLabel α)   -- worker `i` takes a step
  | consume                      -- the consumer takes the oldest value out of the `chanOut` buffer
  | stop
deriving Repr

variable {α : Type}

def room (s : State α) : Bool := decide (s.out.length < s.cap)

def pushBack (s : State α) (x : α) : State α :=
  { s with overflow := s.overflow ++ [⟨s.nextId, x⟩], nextId := s.nextId + 1 }

/-- One step of a worker whose program counter is `pc`; returns the new program counter and the new shared state. -/
def wstep (s : State α) (pc : PC α) : WLabel α → Option (PC α × State α)
  | .enter => match pc with
    | .top => some ((match s.overflow with | [] => .selEmpty | e :: _ => .selFront e), s)
    | _ => none
  | .recvIn x => match pc with
    | .selEmpty => some (.inner x, { s with accepted := s.accepted ++ [x] })
    | .selFront _ => some (.top, pushBack { s with accepted := s.accepted ++ [x] } x)
    | _ => none
  | .sendFront => match pc with
    | .selFront e =>
      if room s then
        -- `cq.chanOut <- nextElement.Value` (the value cached on entry); then `cq.overflow.Remove(nextElement)`
        some (.top, { s with out := s.out ++ [e.val], overflow := s.overflow.filter (fun e' => e'.id != e.id) })
      else none
    | _ => none
  | .sendItem => match pc with
    | .inner x => if room s then some (.top, { s with out := s.out ++ [x] }) else none
    | _ => none
  | .dflt => match pc with
    | .inner x => if room s || s.quitClosed then none else some (.top, pushBack s x)
    | _ => none
  | .quit => match pc with
    | .selEmpty => if s.quitClosed then some (.exited, s) else none
    | .selFront _ => if s.quitClosed then some (.exited, s) else none
    | .inner x => if s.quitClosed then some (.exited, { s with lost := s.lost ++ [x] }) else none
    | _ => none

def step (s : State α) : Label α → Option (State α)
  | .w i l => match s.workers[i]? with
    | none => none
    | some pc => match wstep s pc l with
      | none => none
      | some (pc', s') => some { s' with workers := s'.workers.set i pc' }
  | .consume => match s.out with
    | [] => none
    | x :: r => some { s with out := r, delivered := s.delivered ++ [x] }
  | .stop => if s.quitClosed then none else some { s with quitClosed := true }

def run (s : State α) : List (Label α) → Option (State α)
  | [] => some s
  | l :: ls => match step s l with
    | none => none
    | some s' => run s' ls

/-- Translation of a schedule of worker 0 into the labels of the one-worker model (`enter` has no counterpart: there
the worker "is" always inside the right `select`). -/
def toQueue : Label α → List (Queue.Label α)
  | .w _ .enter => []
  | .w _ (.recvIn x) => [.w (.recvIn x)]
  | .w _ .sendFront => [.w .sendFront]
  | .w _ .sendItem => [.w .sendItem]
  | .w _ .dflt => [.w .dflt]
  | .w _ .quit => [.w .quit]
  | .consume => [.e .consume]
  | .stop => [.e .stop]

end QueueTwo
