/-!
# CoinSelect — model of `wallet/createtx.go` (C06)

What is modelled, function by function:

* `unspentOutputs`        — `wtxmgr.(*Store).UnspentOutputs` as seen from the wallet: credits that are not spent by a
                            known (mined or unmined) transaction and not under an active lease.
* `findEligibleOutputs`   — `(*Wallet).findEligibleOutputs`, filter by filter, in the order of the Go code.  Confirmations
                            are counted against the BACKEND's `BlockStamp()` (`Request.tip`), as `txToOutputs` does.
* `arrange`               — `LargestFirstCoinSelector.ArrangeCoins` / `RandomCoinSelector.ArrangeCoins`
                            (the shuffle is an explicit parameter: the list of random draws).
* `fetch`                 — one call of the closure returned by `makeInputSource`; `constantInputSource` is the same
                            closure with nothing left to take (`rest = []`).
* `author`                — the loop of `txauthor.NewUnsignedTransaction` (fee estimate from `txsizes`/`txrules`).
* `selectLoop`            — the explicit-selection branch of `txToOutputs` (tree with fix 80523df: an outpoint that is
                            selected twice is refused; `selectLoopUnfixed` is the code before that commit).
* `createTx`              — `txToOutputs` up to (not including) signing.
* `txCreator`             — the request loop of `(*Wallet).txCreator`: `holdUnlock()` first (a locked wallet refuses
                            with `ErrLocked` unless the whole manager is watch-only), then `txToOutputs`.
* `isWatchOnlyAccount`, `signs` — the signing decision at the end of `txToOutputs` (`Manager.IsWatchOnlyAccount` is
                            `acctKeyPriv == nil`, which `Manager.Lock` makes true for EVERY account).
* `publishAccepted`       — effect on the wallet view of recording the transaction (`reliablyPublishTransaction`).

Core Lean only; everything is total and structurally recursive.
-/
namespace CoinSelect

/-- `(transaction, output index)`. -/
abbrev OutPoint := Nat × Nat

/-- Address type of the controlling address = key scope (BIP44 / BIP49+ / BIP84 / BIP86). -/
inductive Kind | p2pkh | np2wkh | p2wkh | p2tr
deriving DecidableEq, Repr

/-- One credited output as the wallet sees it. -/
structure Coin where
  op : OutPoint
  amount : Int
  account : Nat
  /-- key scope of the controlling address (BIP44 / 49+ / 84 / 86, named by its external address type) -/
  kind : Kind
  /-- script class of the output itself (what `NewUnsignedTransaction` counts for the size estimate); differs from
  `kind` for BIP49+ change, which is P2WPKH -/
  script : Kind
  /-- `ExtractPkScriptAddrs` yields exactly one address and `AddrAccount` finds it. -/
  addrKnown : Bool
  /-- block height, `-1` = unconfirmed -/
  height : Int
  coinbase : Bool
  /-- spent by a transaction the wallet knows (confirmed or not) -/
  spentByKnown : Bool
  /-- in-memory `lockedOutpoints` (`LockOutpoint`) -/
  userLocked : Bool
  /-- expiry of a lease (`LeaseOutput`), if one was ever taken -/
  leasedUntil : Option Int
deriving DecidableEq, Repr

structure View where
  /-- every credited output, in the order `UnspentOutputs` visits them -/
  coins : List Coin
  /-- the store's clock (seconds) -/
  now : Int
  /-- `chainParams.CoinbaseMaturity` -/
  maturity : Int

structure Output where
  amount : Int
  scriptLen : Nat
deriving DecidableEq, Repr

inductive Strategy
  | largest
  /-- `draws` are the random numbers consumed by the shuffle -/
  | random (draws : List Nat)

structure Request where
  account : Nat
  /-- `coinSelectKeyScope`; `none` = any scope -/
  scope : Option Kind
  minconf : Int
  /-- `chainClient.BlockStamp().Height` -/
  tip : Int
  outputs : List Output
  /-- sat per kilobyte -/
  feeRate : Int
  strategy : Strategy
  /-- `WithCustomSelectUtxos`; `[]` = none -/
  selected : List OutPoint
  /-- `WithUtxoFilter` -/
  allow : Coin → Bool
  /-- `ChangeSource.ScriptSize` -/
  changeScriptLen : Nat
  /-- the change script is a witness program (dust threshold) -/
  changeWitness : Bool

inductive Err
  | insufficient
  | notEligible (op : OutPoint)
  | duplicateSelected (op : OutPoint)
  /-- `waddrmgr.ErrLocked` from `holdUnlock()` in `txCreator` -/
  | locked
deriving DecidableEq, Repr

/-! ## wallet.confirms / confirmed -/

def confirms (txHeight curHeight : Int) : Int :=
  if txHeight == -1 || txHeight > curHeight then 0 else curHeight - txHeight + 1

def confirmed (minconf txHeight curHeight : Int) : Bool :=
  confirms txHeight curHeight ≥ minconf

/-! ## wtxmgr.UnspentOutputs -/

def leasedAt (c : Coin) (now : Int) : Bool :=
  match c.leasedUntil with
  | none => false
  | some e => now < e        -- isLockedOutput: locked unless `!now.Before(expiry)`

def unspentOutputs (V : View) : List Coin :=
  V.coins.filter fun c => !c.spentByKnown && !leasedAt c V.now

/-! ## findEligibleOutputs -/

def scopeOk (s : Option Kind) (c : Coin) : Bool :=
  match s with
  | none => true
  | some k => c.kind == k

/-- The body of the `for i := range unspent` loop: `true` = appended to `eligible`. -/
def eligibleB (V : View) (r : Request) (c : Coin) : Bool :=
  r.allow c &&                                             -- allowUtxo filter
  confirmed r.minconf c.height r.tip &&                    -- minconf against bs.Height
  (!c.coinbase || confirmed V.maturity c.height r.tip) &&  -- coinbase maturity
  !c.userLocked &&                                         -- w.LockedOutpoint
  c.addrKnown &&                                           -- ExtractPkScriptAddrs / AddrAccount
  scopeOk r.scope c &&                                     -- keyScope != nil && scopedMgr.Scope() != *keyScope
  c.account == r.account                                   -- addrAcct != account

def findEligibleOutputs (V : View) (r : Request) : List Coin :=
  (unspentOutputs V).filter (eligibleB V r)

/-! ## txsizes / txrules (tree with fix dda0722) -/

def varIntSize (n : Nat) : Nat :=
  if n < 0xfd then 1 else if n ≤ 0xffff then 3 else if n ≤ 0xffffffff then 5 else 9

def outSize (o : Output) : Nat := 8 + varIntSize o.scriptLen + o.scriptLen

def sumOutSizes (os : List Output) : Nat := (os.map outSize).sum

def estimateVSize (p2pkh p2tr p2wpkh nested : Nat) (outs : List Output) (changeScriptSize : Nat) : Nat :=
  let outputCount := if changeScriptSize > 0 then outs.length + 1 else outs.length
  let changeOutputSize := if changeScriptSize > 0 then 8 + varIntSize changeScriptSize + changeScriptSize else 0
  let baseSize := 8 + varIntSize (p2pkh + p2tr + p2wpkh + nested) + varIntSize outputCount +
    p2pkh * 149 + p2wpkh * 41 + p2tr * 41 + nested * 64 + sumOutSizes outs + changeOutputSize
  let witnessWeight := if p2wpkh + nested + p2tr > 0 then
      2 + varIntSize (p2wpkh + nested + p2tr) + p2wpkh * 109 + p2tr * 67 + nested * 109 else 0
  baseSize + (witnessWeight + 3) / 4

def maxSatoshi : Int := 2100000000000000

def feeFor (rate : Int) (size : Nat) : Int :=
  let fee := rate * (size : Int) / 1000
  let fee := if fee == 0 && rate > 0 then rate else fee
  if fee < 0 || fee > maxSatoshi then maxSatoshi else fee

/-- `txsizes.GetMinInputVirtualSize` by script class. -/
def minInputVSize : Kind → Nat
  | .np2wkh => 64 + (109 + 3) / 4
  | .p2wkh => 41 + (109 + 3) / 4
  | .p2tr => 41 + (67 + 3) / 4
  | .p2pkh => 149

def inputYieldsPositively (c : Coin) (rate : Int) : Bool :=
  rate * (minInputVSize c.script : Int) / 1000 < c.amount

/-- `mempool.IsDust` at the default relay fee (1000 sat/kB). -/
def isDust (amount : Int) (scriptLen : Nat) (witness : Bool) : Bool :=
  let total : Int := ((8 + varIntSize scriptLen + scriptLen + 41 + (if witness then 26 else 107) : Nat) : Int)
  amount * 1000 / (3 * total) < 1000

/-! ## coin arrangement -/

def insertDesc (c : Coin) : List Coin → List Coin
  | [] => [c]
  | d :: ds => if d.amount < c.amount then c :: d :: ds else d :: insertDesc c ds

/-- `sort.Sort(sort.Reverse(sortByAmount))`: descending by amount (the order among equal amounts is not specified by
Go's unstable sort; the model keeps the earlier coin first). -/
def sortDesc : List Coin → List Coin
  | [] => []
  | c :: cs => insertDesc c (sortDesc cs)

/-- `rand.Shuffle` as a function of its random draws; every permutation is reachable. -/
def shuffle : List Nat → List Coin → List Coin
  | [], l => l
  | j :: js, l =>
    match l[j % l.length]? with
    | none => l
    | some x => x :: shuffle js (l.erase x)

def arrange (s : Strategy) (rate : Int) (eligible : List Coin) : List Coin :=
  match s with
  | .largest => sortDesc eligible
  | .random draws => shuffle draws (eligible.filter (inputYieldsPositively · rate))

/-! ## input sources and the author loop -/

def total (l : List Coin) : Int := (l.map (·.amount)).sum

def sumOutputs (os : List Output) : Int := (os.map (·.amount)).sum

/-- One call of the `makeInputSource` closure with `target`: `taken` are the inputs handed out so far, `rest` the
arranged coins not yet used.  `constantInputSource` is the case `rest = []`. -/
def fetch (target : Int) : List Coin → List Coin → List Coin × List Coin
  | taken, [] => (taken, [])
  | taken, c :: rest => if total taken < target then fetch target (taken ++ [c]) rest else (taken, c :: rest)

def countKind (k : Kind) (l : List Coin) : Nat := (l.filter (·.script == k)).length

def feeOfInputs (r : Request) (ins : List Coin) : Int :=
  feeFor r.feeRate (estimateVSize (countKind .p2pkh ins) (countKind .p2tr ins) (countKind .p2wkh ins)
    (countKind .np2wkh ins) r.outputs r.changeScriptLen)

/-- The `for { … }` loop of `txauthor.NewUnsignedTransaction`; returns the inputs and the fee (`maxRequiredFee`).
`fuel` bounds the number of iterations (each `continue` strictly raises the target, so the next `fetch` either takes
a new coin or the loop ends; `rest.length + 2` always suffices). -/
def author (r : Request) : Nat → Int → List Coin → List Coin → Except Err (List Coin × Int)
  | 0, _, _, _ => .error .insufficient
  | fuel + 1, targetFee, taken, rest =>
    let targetAmount := sumOutputs r.outputs
    let (taken', rest') := fetch (targetAmount + targetFee) taken rest
    let inputAmount := total taken'
    if inputAmount < targetAmount + targetFee then .error .insufficient
    else
      let maxRequiredFee := feeOfInputs r taken'
      if inputAmount - targetAmount < maxRequiredFee then author r fuel maxRequiredFee taken' rest'
      else .ok (taken', maxRequiredFee)

/-- `eligibleByOutpoint[outpoint]`: the map is filled in list order, so a later entry wins. -/
def lookupEligible (E : List Coin) (op : OutPoint) : Option Coin :=
  E.reverse.find? (·.op == op)

/-- The `for _, outpoint := range selectedUtxos` loop (with fix 80523df). -/
def selectLoop (E : List Coin) : List OutPoint → List OutPoint → List Coin → Except Err (List Coin)
  | [], _, acc => .ok acc
  | op :: ops, seen, acc =>
    if seen.contains op then .error (.duplicateSelected op)
    else match lookupEligible E op with
      | none => .error (.notEligible op)
      | some c => selectLoop E ops (op :: seen) (acc ++ [c])

/-- The same loop before fix 80523df (finding F7): no duplicate test. -/
def selectLoopUnfixed (E : List Coin) : List OutPoint → List Coin → Except Err (List Coin)
  | [], acc => .ok acc
  | op :: ops, acc =>
    match lookupEligible E op with
    | none => .error (.notEligible op)
    | some c => selectLoopUnfixed E ops (acc ++ [c])

structure Authored where
  ins : List Coin
  fee : Int
  /-- value of the change output, if one is added -/
  change : Option Int
deriving Repr

def finish (r : Request) (res : List Coin × Int) : Authored :=
  let changeAmount := total res.1 - sumOutputs r.outputs - res.2
  { ins := res.1, fee := res.2,
    change := if changeAmount != 0 && !isDust changeAmount r.changeScriptLen r.changeWitness
              then some changeAmount else none }

/-- first `targetFee` (tree with fix 6854b62: size without inputs). -/
def initialFee (r : Request) : Int := feeFor r.feeRate (estimateVSize 0 0 0 0 r.outputs r.changeScriptLen)

/-- The `if len(selectedUtxos) > 0 { … } else { … }` of `txToOutputs`: what the input source starts with
(`taken`: handed out unconditionally; `rest`: arranged coins to draw from).  Parametrised by the selection loop so
that the fixed and the unfixed tree share everything else. -/
def sourceWith (sel : List Coin → List OutPoint → Except Err (List Coin)) (E : List Coin) (r : Request) :
    Except Err (List Coin × List Coin) :=
  if r.selected.isEmpty then .ok ([], arrange r.strategy r.feeRate E)
  else match sel E r.selected with
    | .error e => .error e
    | .ok cs => .ok (cs, [])

def createTxWith (sel : List Coin → List OutPoint → Except Err (List Coin)) (V : View) (r : Request) :
    Except Err Authored :=
  match sourceWith sel (findEligibleOutputs V r) r with
  | .error e => .error e
  | .ok (taken, rest) =>
    match author r (rest.length + 2) (initialFee r) taken rest with
    | .error e => .error e
    | .ok res => .ok (finish r res)

/-- `txToOutputs` (current tree). -/
def createTx (V : View) (r : Request) : Except Err Authored :=
  createTxWith (fun E s => selectLoop E s [] []) V r

/-- `txToOutputs` before fix 80523df. -/
def createTxUnfixed (V : View) (r : Request) : Except Err Authored :=
  createTxWith (fun E s => selectLoopUnfixed E s []) V r

/-! ## txCreator: lock state and the signing decision -/

/-- What `txCreator` / the tail of `txToOutputs` look at besides the view and the request. -/
structure LockState where
  /-- `Manager.IsLocked()` as `walletLocker` answers `holdUnlock` -/
  locked : Bool
  /-- `Manager.WatchOnly()`: the whole wallet has no private keys -/
  managerWatchOnly : Bool
  /-- the requested account was created from a seed / private key (its row holds an encrypted private key) -/
  acctHasPriv : Bool
deriving DecidableEq, Repr

/-- `Manager.IsWatchOnlyAccount` = `acctInfo.acctKeyPriv == nil`.  `Manager.Lock` zeroes and drops `acctKeyPriv` of
every cached account, so while the manager is locked every account *looks* watch-only (quirk kept). -/
def isWatchOnlyAccount (ls : LockState) : Bool := ls.locked || !ls.acctHasPriv

/-- `txToOutputs`: `AddAllInputScripts` + `validateMsgTx` run unless this is a dry run or the account looks
watch-only. -/
def signs (ls : LockState) (dryRun : Bool) : Bool := !dryRun && !isWatchOnlyAccount ls

/-- One iteration of `(*Wallet).txCreator`: unless the manager is watch-only, `holdUnlock()` must succeed before
`txToOutputs` is entered (also for dry runs); a locked wallet answers `ErrLocked`. -/
def txCreator (ls : LockState) (V : View) (r : Request) : Except Err Authored :=
  if !ls.managerWatchOnly && ls.locked then .error .locked else createTx V r

/-- The wallet view after the created transaction was recorded (`reliablyPublishTransaction` → `addRelevantTx`):
its inputs are spent by a known transaction, its own outputs (`newCoins`: change and payments to own addresses) are
credited. -/
def publishAccepted (V : View) (tx : Authored) (newCoins : List Coin) : View :=
  { V with coins := V.coins.map (fun c => if tx.ins.any (·.op == c.op) then { c with spentByKnown := true } else c)
                    ++ newCoins }

end CoinSelect
