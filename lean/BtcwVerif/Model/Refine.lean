import BtcwVerif.Model.Ledger
import BtcwVerif.Model.TxInv
/-!
# The bridge between the store (`TxStore`) and the specification (`Ledger`)

* `addRelevantTx` / `stepEvent`: which store calls realise an event (the call sequence of `wallet.addRelevantTx`,
  `Rollback`, `RemoveUnminedTx`, the lease calls).  The driver runs exactly these functions, so the differential run ties
  them to the Go code.
* `exp…`: for every bucket, the entries the ledger *expects* in it (list comprehensions over the ledger, no store
  operation involved).  `Refines s L` (Lemmas/RefDefs.lean) says bucket by bucket: `find? k = some v ↔ (k, v) ∈ exp… L`.
* `refinesB`, `lwfB`: the executable forms, evaluated by the driver after every event of every generated consistent
  history (op `refcheck`) and on random histories generated inside Lean (op `reffuzz`).
Core Lean only (linked into the driver).
-/

namespace TxStore

/-- `wallet.addRelevantTx` in one DB transaction: `InsertTxCheckIfExists`, then — unless the transaction was already
recorded — `AddCredit` for every credited output.  `force`: a client that calls AddCredit whatever InsertTx answered
(as wtxmgr's own tests do). -/
def addRelevantTx (force : Bool) (s : Store) (t : Tx) (bm : Option BlockMeta) (cr : List (Nat × Bool)) :
    M (Bool × Store) := do
  let (ex, s1) ← insertTx s t bm
  if ex && !force then pure (true, s1)
  else if ex then do
    let s2 ← cr.foldlM (fun s (i, chg) => addCredit s t bm i chg) s1
    pure (true, s2)
  else
    let s2 ← cr.foldlM (fun s (i, chg) => addCredit s t bm i chg) s1
    pure (false, s2)

/-- the store calls that realise one event, at clock `now`.  A refused lease call leaves the store as it is (the
ledger records the refusal the same way). -/
def stepEvent (s : Store) (now : Nat) : Ledger.Event → M Store
  | .seen t cr => do let r ← addRelevantTx false s t none cr; pure r.2
  | .confirmed bm t cr => do let r ← addRelevantTx false s t (some bm) cr; pure r.2
  | .disconnected h => rollback s h
  | .abandoned t => removeUnminedTx s t
  | .lease id op d => match lockOutput s now id op d with | .ok (_, s') => pure s' | .error _ => pure s
  | .release id op => match unlockOutput s now id op with | .ok s' => pure s' | .error _ => pure s
  | .sweep => pure (deleteExpiredLockedOutputs s now)
  | .clock _ => pure s

end TxStore

namespace Ledger
open TxStore (OutPoint Block BlockMeta Tx withIdx CredKey CreditVal DebitVal UCredit TxKey BlockRec Store nullIndex)

/-- the block record the store keeps for a block of the ledger -/
def blockEntry (lb : LBlock) : Nat × BlockRec :=
  (lb.bm.block.height, ⟨lb.bm.block.hash, lb.bm.time, lb.txs.map (·.hash)⟩)

/-- the confirmed spender of an output, as the key of its debit record (tx hash, block, input index) -/
def spenderOf (L : Ledger) (op : OutPoint) : Option CredKey :=
  (chainTxs L).findSome? fun p =>
    (withIdx p.1.ins).findSome? fun ji => if ji.2 = op then some ⟨p.1.hash, p.2.block, ji.1⟩ else none

def expTxrecs (L : Ledger) : List (TxKey × Tx) := (chainTxs L).map fun p => (⟨p.1.hash, p.2.block⟩, p.1)

def expUnmined (L : Ledger) : List (Nat × Tx) := L.pool.map fun t => (t.hash, t)

/-- credit records of one confirmed transaction -/
def expCreditsOf (L : Ledger) (t : Tx) (bm : BlockMeta) : List (CredKey × CreditVal) :=
  (withIdx t.outs).filterMap fun iv =>
    match lookup L.credit ⟨t.hash, iv.1⟩ with
    | some chg => some (⟨t.hash, bm.block, iv.1⟩,
        ⟨iv.2, chg, (spenderOf L ⟨t.hash, iv.1⟩).isSome, spenderOf L ⟨t.hash, iv.1⟩⟩)
    | none => none

def expCredits (L : Ledger) : List (CredKey × CreditVal) := (chainTxs L).flatMap fun p => expCreditsOf L p.1 p.2

def expUnspent (L : Ledger) : List (OutPoint × Block) :=
  (expCredits L).filterMap fun p => if p.2.spent then none else some (p.1.outPoint, p.1.block)

/-- debit records of one confirmed transaction: one for every input that is a credit record -/
def expDebitsOf (L : Ledger) (t : Tx) (bm : BlockMeta) : List (CredKey × DebitVal) :=
  (withIdx t.ins).filterMap fun ji =>
    match (expCredits L).find? (fun p => p.1.outPoint == ji.2) with
    | some p => some (⟨t.hash, bm.block, ji.1⟩, ⟨p.2.amount, p.1⟩)
    | none => none

def expDebits (L : Ledger) : List (CredKey × DebitVal) := (chainTxs L).flatMap fun p => expDebitsOf L p.1 p.2

def expUnminedCredits (L : Ledger) : List (OutPoint × UCredit) :=
  L.pool.flatMap fun t => (withIdx t.outs).filterMap fun iv =>
    match lookup L.credit ⟨t.hash, iv.1⟩ with
    | some chg => some (⟨t.hash, iv.1⟩, ⟨iv.2, chg⟩)
    | none => none

/-- the unconfirmed spenders of an output -/
def poolSpenders (L : Ledger) (op : OutPoint) : List Nat := (L.pool.filter fun t => t.ins.contains op).map (·.hash)

def expMinedBalance (L : Ledger) : Int := ((expCredits L).map fun p => if p.2.spent then 0 else p.2.amount).sum

/-- inputs that name a known transaction name one of its outputs -/
def validRefs (L : Ledger) (t : Tx) : Bool :=
  t.ins.all fun i => (known L).all fun q => q.1.hash != i.hash || decide (i.index < q.1.outs.length)

/-- what the refinement theorems assume of an event on top of `Ledger.consistent` (a validating node guarantees it):
inputs naming a known transaction name an existing output of it, and a transaction accepted into the mempool does not
conflict with a confirmed one -/
def extra (L : Ledger) (e : Event) (noConflict : Bool := true) : Bool :=
  match e with
  | .seen t _ =>
    -- a transaction seen for the first time does not conflict with a confirmed one
    isKnown L t.hash || ((!noConflict || t.ins.all fun i => !spentConfirmed L i) && validRefs L t)
  | .confirmed _ t _ => isKnown L t.hash || validRefs L t
  -- hashes identify transactions: the abandoned transaction is the unconfirmed transaction with that hash
  | .abandoned t => L.pool.contains t
  | _ => true

/-! ### executable refinement check -/

def sameSet {α : Type} [BEq α] (a b : List α) : Bool := a.all b.contains && b.all a.contains

instance : BEq TxStore.Lease := ⟨fun a b => decide (a = b)⟩

def refinesList (s : Store) (L : Ledger) : List (String × Bool) :=
  [("blocks", s.blocks == L.chain.map blockEntry),
   ("txrecs", sameSet s.txrecs (expTxrecs L)),
   ("unmined", sameSet s.unmined (expUnmined L)),
   ("credits", sameSet s.credits (expCredits L)),
   ("unspent", sameSet s.unspent (expUnspent L)),
   ("debits", sameSet s.debits (expDebits L)),
   ("unminedCredits", sameSet s.unminedCredits (expUnminedCredits L)),
   ("unminedInputs",
      s.unminedInputs.all (fun p => !p.2.isEmpty && sameSet p.2 (poolSpenders L p.1)) &&
      L.pool.all (fun t => t.ins.all fun op => s.unminedInputs.contains op)),
   ("minedBalance", s.minedBalance == expMinedBalance L),
   ("leases",
      s.locked.all (fun p => (lookup L.leases p.1).map (fun l => (l.id, l.expiry)) == some (p.2.id, p.2.expiry * 1000000000)) &&
      L.leases.all (fun p => s.locked.contains p.1))]

def refinesB (s : Store) (L : Ledger) : Bool := (refinesList s L).all (·.2)

/-! ### executable ledger well-formedness -/

def nodupB {α : Type} [BEq α] : List α → Bool
  | [] => true
  | a :: t => !t.contains a && nodupB t

def ascending : List Nat → Bool
  | [] => true
  | [_] => true
  | a :: b :: t => decide (a < b) && ascending (b :: t)

def lwfList (L : Ledger) : List (String × Bool) :=
  [("heights", ascending (L.chain.map (·.bm.block.height))),
   ("hashes", nodupB ((known L).map (·.1.hash))),
   ("creditKeys", nodupB (L.credit.map (·.1))),
   ("creditKnown", L.credit.all fun p => (known L).any fun q => q.1.hash == p.1.hash && decide (p.1.index < q.1.outs.length)),
   ("poolNoCb", L.pool.all fun t => !t.isCoinBase),
   ("noDouble", nodupB ((chainTxs L).flatMap (·.1.ins))),
   ("parents", (chainTxs L).all fun p => p.1.ins.all fun i => (known L).all fun q =>
      q.1.hash != i.hash || (match q.2 with | some bm => decide (bm.block.height ≤ p.2.block.height) | none => false)),
   ("noSelf", (known L).all fun p => p.1.ins.all fun i => i.hash != p.1.hash),
   ("blocksNonEmpty", L.chain.all fun b => !b.txs.isEmpty),
   ("poolNoChainConflict", L.pool.all fun t => t.ins.all fun i => !spentConfirmed L i),
   ("validRefs", (known L).all fun p => p.1.ins.all fun i => (known L).all fun q =>
      q.1.hash != i.hash || decide (i.index < q.1.outs.length)),
   ("leaseKeys", nodupB (L.leases.map (·.1)))]

def lwfB (L : Ledger) : Bool := (lwfList L).all (·.2)

end Ledger
