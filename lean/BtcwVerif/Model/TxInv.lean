import BtcwVerif.Model.TxStore
/-!
# The representation invariant of the transaction store that `Balance` relies on

Exactly the two state descriptions of the C01 anchors, made precise:
* the *mined balance counter* is the running total of mined credits not spent by a mined transaction;
* the *unspent index* holds one entry for every such credit (and nothing else).
`minedCredits` enumerates the credit records in the order `Balance`'s second pass visits them (blocks, their
transaction lists, output indexes).  `invB` is the executable form (the driver evaluates it after every op of every
generated consistent history: op `inv`).  Core only.
-/
namespace TxStore

/-- a mined credit together with what `Balance` needs to know about it: key, record, coinbase flag of its tx -/
structure CInfo where
  key : CredKey
  val : CreditVal
  cb : Bool
deriving DecidableEq, Repr, Inhabited

def creditInfo (s : Store) (k : CredKey) : Option CInfo :=
  match s.credits.find? k, s.txrecs.find? k.txKey with
  | some cv, some rec => some ⟨k, cv, rec.isCoinBase⟩
  | _, _ => none

/-- credits of one transaction of one block, by output index -/
def txCredits (s : Store) (blk : Block) (tx : Nat) : List CInfo :=
  match s.txrecs.find? ⟨tx, blk⟩ with
  | none => []
  | some rec => (List.range rec.outs.length).filterMap fun i => creditInfo s ⟨tx, blk, i⟩

def blockCredits (s : Store) (h : Nat) (br : BlockRec) : List CInfo :=
  br.txs.flatMap (txCredits s ⟨h, br.hash⟩)

/-- every mined credit reachable from the block records, in `Balance` pass-2 order -/
def minedCredits (s : Store) : List CInfo := s.blocks.flatMap fun p => blockCredits s p.1 p.2

/-- the mined credits without a mined spender -/
def minedUnspent (s : Store) : List CInfo := (minedCredits s).filter fun c => !c.val.spent

/-- what the unspent index points at -/
def unspentInfos (s : Store) : List (Option CInfo) :=
  s.unspent.map fun p => creditInfo s ⟨p.1.hash, p.2, p.1.index⟩

def sumAmounts (l : List CInfo) : Int := (l.map (·.val.amount)).sum

structure Inv (s : Store) : Prop where
  /-- the counter is the total of the mined credits without a mined spender -/
  counter : s.minedBalance = sumAmounts (minedUnspent s)
  /-- every entry of the unspent index points at a credit record (with its tx record) -/
  indexed : ∀ o ∈ unspentInfos s, o.isSome
  /-- the unspent index lists exactly those credits, each once -/
  index : ((unspentInfos s).filterMap id).Perm (minedUnspent s)
  /-- block records are in height order (bbolt key order) -/
  sorted : (s.blocks.map (·.1)).Pairwise (· < ·)
  /-- every transaction listed in a block record has its record -/
  recorded : ∀ p ∈ s.blocks, ∀ tx ∈ p.2.txs, (s.txrecs.find? ⟨tx, ⟨p.1, p.2.hash⟩⟩).isSome

def pairwiseLt : List Nat → Bool
  | [] => true
  | [_] => true
  | a :: b :: t => decide (a < b) && pairwiseLt (b :: t)

/-- executable invariant (driver op `inv`) -/
def invB (s : Store) : Bool :=
  decide (s.minedBalance = sumAmounts (minedUnspent s)) &&
  (unspentInfos s).all (·.isSome) &&
  ((unspentInfos s).filterMap id).isPerm (minedUnspent s) &&
  pairwiseLt (s.blocks.map (·.1)) &&
  s.blocks.all (fun p => p.2.txs.all fun tx => (s.txrecs.find? ⟨tx, ⟨p.1, p.2.hash⟩⟩).isSome)

/-- C01's formula evaluated on the store's own records: mined credits without mined spender that are not leased,
not spent by an unconfirmed transaction, deep enough and (if coinbase) mature, plus — at minConf 0 — the
unconfirmed credits that are neither leased nor spent. -/
def tooYoung (minConf sync maturity : Int) (c : CInfo) : Bool :=
  let confs : Int := sync - c.key.block.height + 1
  decide (confs < minConf) || (c.cb && decide (confs < maturity))

def countsMined (s : Store) (now : Nat) (minConf sync maturity : Int) (c : CInfo) : Bool :=
  !isLocked s c.key.outPoint now && !spentByUnmined s c.key.outPoint && !tooYoung minConf sync maturity c

def countsUnmined (s : Store) (now : Nat) (e : OutPoint × UCredit) : Bool :=
  !isLocked s e.1 now && !spentByUnmined s e.1

def storeTruth (s : Store) (now : Nat) (maturity minConf sync : Int) : Int :=
  ((minedUnspent s).map fun c => if countsMined s now minConf sync maturity c then c.val.amount else 0).sum +
  (if minConf == 0 then (s.unminedCredits.map fun e => if countsUnmined s now e then e.2.amount else 0).sum else 0)

end TxStore
