import BtcwVerif.Model.TxStore
/-!
# The representation invariant of the transaction store that `Balance` relies on

Exactly the two state descriptions of the C01 anchors, made precise:
* the *mined balance counter* is the running total of mined credits not spent by a mined transaction;
* the *unspent index* holds one entry for every such credit (and nothing else).
`minedCredits` enumerates the credit records in the order `Balance`'s second pass visits them (blocks, their
transaction lists, output indexes).  `invB` is the executable form (the driver evaluates it after every op of every
generated consistent history: op `inv`).  Core only.
-/
namespace TxStore

/-- a mined credit together with what `Balance` needs to know about it: key, record, coinbase flag of its tx -/
structure CInfo where
  key : CredKey
  val : CreditVal
  cb : Bool
deriving DecidableEq, Repr, Inhabited

def creditInfo (s : Store) (k : CredKey) : Option CInfo :=
  match s.credits.find? k, s.txrecs.find? k.txKey with
  | some cv, some rec => some ⟨k, cv, rec.isCoinBase⟩
  | _, _ => none

/-- credits of one transaction of one block, by output index -/
def txCredits (s : Store) (blk : Block) (tx : Nat) : List CInfo :=
  match s.txrecs.find? ⟨tx, blk⟩ with
  | none => []
  | some rec => (List.range rec.outs.length).filterMap fun i => creditInfo s ⟨tx, blk, i⟩

def blockCredits (s : Store) (h : Nat) (br : BlockRec) : List CInfo :=
  br.txs.flatMap (txCredits s ⟨h, br.hash⟩)

/-- every mined credit reachable from the block records, in `Balance` pass-2 order -/
def minedCredits (s : Store) : List CInfo := s.blocks.flatMap fun p => blockCredits s p.1 p.2

/-- the mined credits without a mined spender -/
def minedUnspent (s : Store) : List CInfo := (minedCredits s).filter fun c => !c.val.spent

/-- what the unspent index points at -/
def unspentInfos (s : Store) : List (Option CInfo) :=
  s.unspent.map fun p => creditInfo s ⟨p.1.hash, p.2, p.1.index⟩

def sumAmounts (l : List CInfo) : Int := (l.map (·.val.amount)).sum

structure Inv (s : Store) : Prop where
  /-- the counter is the total of the mined credits without a mined spender -/
  counter : s.minedBalance = sumAmounts (minedUnspent s)
  /-- every entry of the unspent index points at a credit record (with its tx record) -/
  indexed : ∀ o ∈ unspentInfos s, o.isSome
  /-- the unspent index lists exactly those credits, each once -/
  index : ((unspentInfos s).filterMap id).Perm (minedUnspent s)
  /-- block records are in height order (bbolt key order) -/
  sorted : (s.blocks.map (·.1)).Pairwise (· < ·)
  /-- every transaction listed in a block record has its record -/
  recorded : ∀ p ∈ s.blocks, ∀ tx ∈ p.2.txs, (s.txrecs.find? ⟨tx, ⟨p.1, p.2.hash⟩⟩).isSome

def pairwiseLt : List Nat → Bool
  | [] => true
  | [_] => true
  | a :: b :: t => decide (a < b) && pairwiseLt (b :: t)

/-- executable invariant (driver op `inv`) -/
def invB (s : Store) : Bool :=
  decide (s.minedBalance = sumAmounts (minedUnspent s)) &&
  (unspentInfos s).all (·.isSome) &&
  ((unspentInfos s).filterMap id).isPerm (minedUnspent s) &&
  pairwiseLt (s.blocks.map (·.1)) &&
  s.blocks.all (fun p => p.2.txs.all fun tx => (s.txrecs.find? ⟨tx, ⟨p.1, p.2.hash⟩⟩).isSome)

/-! ### executable form of the lookup-level invariant `WF` (Lemmas/WF.lean) and of the debit / unconfirmed-credit
clauses that `rollback` relies on (driver op `inv`) -/

def nodupB {α : Type} [DecidableEq α] : List α → Bool
  | [] => true
  | a :: t => !t.contains a && nodupB t

def listedB (s : Store) (k : CredKey) (amount : Int) : Bool :=
  match s.blocks.find? k.block.height, s.txrecs.find? k.txKey with
  | some br, some rec => br.hash == k.block.hash && br.txs.contains k.hash && rec.outs[k.index]? == some amount
  | _, _ => false

def wfB (s : Store) : Bool :=
  nodupB (s.credits.map (·.1)) && nodupB (s.unspent.map (·.1)) && nodupB (s.unminedCredits.map (·.1)) &&
  pairwiseLt (s.blocks.map (·.1)) &&
  s.blocks.all (fun p => nodupB p.2.txs) &&
  s.blocks.all (fun p => p.2.txs.all fun tx => (s.txrecs.find? ⟨tx, ⟨p.1, p.2.hash⟩⟩).isSome) &&
  s.txrecs.all (fun p => p.2.hash == p.1.hash &&
    match s.blocks.find? p.1.block.height with
    | some br => br.hash == p.1.block.hash && br.txs.contains p.1.hash
    | none => false) &&
  nodupB (s.txrecs.map (·.1.hash)) &&
  s.credits.all (fun p => listedB s p.1 p.2.amount) &&
  s.unspent.all (fun p => match s.credits.find? ⟨p.1.hash, p.2, p.1.index⟩ with | some cv => !cv.spent | none => false) &&
  s.credits.all (fun p => p.2.spent || s.unspent.find? p.1.outPoint == some p.1.block) &&
  decide (s.minedBalance = (s.credits.map fun p => if p.2.spent then 0 else p.2.amount).sum)

/-- debits: each points at an existing, spent credit that names it as spender, spends the input it is recorded for,
and sits at or above the credit's block -/
def debitsB (s : Store) : Bool :=
  nodupB (s.debits.map (·.1)) &&
  s.debits.all fun p =>
    (match s.credits.find? p.2.credKey with
     | some cv => cv.spent && cv.spender == some p.1 && cv.amount == p.2.amount
     | none => false) &&
    (match s.txrecs.find? p.1.txKey with
     | some rec => rec.ins[p.1.index]? == some p.2.credKey.outPoint
     | none => false) &&
    decide (p.2.credKey.block.height ≤ p.1.block.height)

/-- every spent credit has its debit -/
def spentHaveDebitsB (s : Store) : Bool :=
  s.credits.all fun p => !p.2.spent ||
    match p.2.spender with
    | some dk => (match s.debits.find? dk with | some d => d.credKey == p.1 | none => false)
    | none => false

/-- unconfirmed credits are outputs of the unconfirmed record with that hash -/
def unminedB (s : Store) : Bool :=
  s.unminedCredits.all (fun p => match s.unmined.find? p.1.hash with
    | some rec => rec.hash == p.1.hash && rec.outs[p.1.index]? == some p.2.amount
    | none => false) &&
  s.unmined.all (fun p => p.2.hash == p.1)

/-- C01's formula evaluated on the store's own records: mined credits without mined spender that are not leased,
not spent by an unconfirmed transaction, deep enough and (if coinbase) mature, plus — at minConf 0 — the
unconfirmed credits that are neither leased nor spent. -/
def tooYoung (minConf sync maturity : Int) (c : CInfo) : Bool :=
  let confs : Int := sync - c.key.block.height + 1
  decide (confs < minConf) || (c.cb && decide (confs < maturity))

def countsMined (s : Store) (now : Nat) (minConf sync maturity : Int) (c : CInfo) : Bool :=
  !isLocked s c.key.outPoint now && !spentByUnmined s c.key.outPoint && !tooYoung minConf sync maturity c

def countsUnmined (s : Store) (now : Nat) (e : OutPoint × UCredit) : Bool :=
  !isLocked s e.1 now && !spentByUnmined s e.1

def storeTruth (s : Store) (now : Nat) (maturity minConf sync : Int) : Int :=
  ((minedUnspent s).map fun c => if countsMined s now minConf sync maturity c then c.val.amount else 0).sum +
  (if minConf == 0 then (s.unminedCredits.map fun e => if countsUnmined s now e then e.2.amount else 0).sum else 0)

end TxStore
