/-!
# WalletRestart — wallet-level bookkeeping of C08 ("what the wallet says in memory is what a restart would say")

Model of the part of `wallet.Wallet` + `waddrmgr.ScopedKeyManager` that decides what a running wallet answers and
which address it issues next, next to what a wallet freshly opened on the same database would answer / issue:

* per (scope, account): the DATABASE account row `{name, xpub, nextExternalIndex, nextInternalIndex}` and the
  IN-MEMORY cache entry `s.acctInfo[account]` (present or not; same fields),
* per (scope, address): the database address row (address ↦ account) and the address cache `s.addrs`,
* the transaction bracket of every wallet request (`walletdb.Update`): what is written inside is committed only
  when the closure returns nil; eager cache mutations (`loadAccountInfo`, the `loadAndCacheAddress` read-back inside
  `nextAddresses`, `RenameAccount`'s cached name) survive a rollback, the `OnCommit` closure of `nextAddresses`
  (next index, address cache) runs only on commit, `InvalidateAccountCache` undoes the cached dry-run account.

Requests: `NewAddress`, `NewChangeAddress`, `CurrentAddress`, `CreateSimpleTx` (dry run / real / failing),
`FundPsbt` (with and without inputs), `ImportAccountDryRun` (succeeding and failing), `ImportAccount`,
`RenameAccount`, `NextAccount`, `Lock`/`Unlock`, and the query sweep of the harness (`cmp`).

Identities: an xpub is a `Key` number (the wallet's own account key of account `a` is `100 + a`; imported xpubs are
small numbers; `0` = a key `validateExtendedPubKey` refuses); an account name is a `Name` number (`0` = the empty
name, refused by `ValidateAccountName`); an address is `(key, branch, index)` inside its scope.
Go sources: wallet/wallet.go, wallet/createtx.go, wallet/psbt.go, wallet/import.go, waddrmgr/scoped_manager.go.
-/
namespace WalletRestart

abbrev Scope := Nat
abbrev Acct := Nat
abbrev Key := Nat
abbrev Name := Nat

/-- `waddrmgr.MaxAddressesPerAccount` -/
def maxAddrs : Nat := 2147483647

/-- account row (`dbDefaultAccountRow` / `dbWatchOnlyAccountRow`) = cached `accountInfo` -/
structure Row where
  name : Name
  key : Key
  ext : Nat
  int : Nat
deriving DecidableEq, Repr, Inhabited

structure Addr where
  key : Key
  internal : Bool
  idx : Nat
deriving DecidableEq, Repr, Inhabited

structure Disk where
  rows : Scope → Acct → Option Row
  last : Scope → Acct
  addrs : Scope → Addr → Option Acct
  /-- addresses that received a credit (and were marked used), oldest first -/
  funded : List (Scope × Addr)
  /-- id of the PRIVATE passphrase the stored master-key parameters / crypto keys were made from (`putMasterKeyParams`,
  `putCryptoKeys`): the one a wallet opened on this database unlocks with (id 0 = the passphrase of `wallet.Create`) -/
  priv : Nat := 0
  /-- id of the PUBLIC passphrase of the stored public master-key parameters: the one `wallet.Open` needs -/
  pub : Nat := 0

structure Mem where
  accts : Scope → Acct → Option Row
  addrs : Scope → Addr → Option Acct
  locked : Bool
  /-- `s.deriveOnUnlock`: accounts whose (last-address) private keys are to be derived at the next Unlock.
  `keyToManaged` (called by `loadAccountInfo`) registers the account whenever it derived a PUBLIC key: the
  manager is locked, or the account is watch-only (imported xpub).  Nothing ever removes an entry except a
  successful Unlock - in particular not a rollback and not `InvalidateAccountCache`. -/
  pendU : List (Scope × Acct)
  /-- `m.masterKeyPriv` / `m.cryptoKeyPrivEncrypted` / `m.privPassphraseSalt` / `m.hashedPrivPassphrase` of the running
  manager: `none` = as loaded from the database at `Open`; `some p` = replaced by a `ChangePassphrase(private)` whose
  database writes succeeded (the manager replaces them EAGERLY, inside the still open transaction). -/
  privOv : Option Nat := none
  /-- the same for `m.masterKeyPub` (public passphrase) -/
  pubOv : Option Nat := none

structure State where
  disk : Disk
  mem : Mem

/-- memory of a freshly opened wallet: empty caches, locked -/
def emptyMem : Mem := { accts := fun _ _ => none, addrs := fun _ _ => none, locked := true, pendU := [] }

/-- a freshly created wallet: account 0 "default" (name 1, own key 100) in every scope; the harness unlocks it -/
def initDisk : Disk :=
  { rows := fun _ a => if a = 0 then some ⟨1, 100, 0, 0⟩ else none
    last := fun _ => 0
    addrs := fun _ _ => none
    funded := [] }

def init : State := { disk := initDisk, mem := { emptyMem with locked := false } }

/-- the wallet after a restart on the same database -/
def reopen (s : State) : State := { disk := s.disk, mem := emptyMem }

def setRow (f : Scope → Acct → Option Row) (sc : Scope) (a : Acct) (v : Option Row) : Scope → Acct → Option Row :=
  fun sc' a' => if sc' = sc ∧ a' = a then v else f sc' a'

def setAddr (f : Scope → Addr → Option Acct) (sc : Scope) (ad : Addr) (v : Option Acct) :
    Scope → Addr → Option Acct :=
  fun sc' ad' => if sc' = sc ∧ ad' = ad then v else f sc' ad'

def setLast (f : Scope → Acct) (sc : Scope) (v : Acct) : Scope → Acct :=
  fun sc' => if sc' = sc then v else f sc'

/-- `loadAccountInfo`: cache first, else the (transaction's view of the) database; a loaded row is cached. -/
def loadAcct (d : Disk) (m : Mem) (sc : Scope) (a : Acct) : Option Row × Mem :=
  match m.accts sc a with
  | some r => (some r, m)
  | none =>
    match d.rows sc a with
    | some r =>
      (some r, { m with accts := setRow m.accts sc a (some r)
                        pendU := if m.locked || r.key < 100 then m.pendU ++ [(sc, a)] else m.pendU })
    | none => (none, m)

/-- `ScopedKeyManager.Address` / `loadAndCacheAddress`: cache first, else the address row (whose conversion to a
managed address loads the owning account); a loaded address is cached. -/
def lookupAddr (d : Disk) (m : Mem) (sc : Scope) (ad : Addr) : Option Acct × Mem :=
  match m.addrs sc ad with
  | some a => (some a, m)
  | none =>
    match d.addrs sc ad with
    | none => (none, m)
    | some a =>
      let ld := loadAcct d m sc a
      match ld.1 with
      | none => (none, ld.2)
      | some _ => (some a, { ld.2 with addrs := setAddr ld.2.addrs sc ad (some a) })

/-- account-name index lookup (`lookupAccount`): the account ≤ last whose row carries the name -/
def lookupName (d : Disk) (sc : Scope) (nm : Name) : Option Acct :=
  (List.range (d.last sc + 1)).find? fun a => match d.rows sc a with | some r => r.name == nm | none => false

inductive Err
  | acctNotFound | dupName | badName | tooMany | locked | insufficient | notifyFail | badKey | dbError | noCoin
  | commitFail
  | wrongPass
deriving DecidableEq, Repr

/-- deferred `OnCommit` closure of `nextAddresses` -/
structure Pend where
  sc : Scope
  a : Acct
  internal : Bool
  next : Nat
  addrs : List Addr

/-- an open database transaction: its view of the database, the memory (eager mutations), deferred closures -/
structure Tx where
  d : Disk
  m : Mem
  pend : List Pend

/-- `putChainedAddress`: address row + next index of the account row (the row exists, checked by the caller) -/
def putAddr (d : Disk) (sc : Scope) (a : Acct) (ad : Addr) : Disk :=
  { d with
    addrs := setAddr d.addrs sc ad (some a)
    rows := match d.rows sc a with
      | none => d.rows
      | some r =>
        let r' : Row := if ad.internal then { r with int := ad.idx + 1 } else { r with ext := ad.idx + 1 }
        setRow d.rows sc a (some r') }

/-- the write loop of `nextAddresses`: `n` addresses from index `i`, each written and read back through
`loadAndCacheAddress` (no cache check: the cache entry is (over)written eagerly) -/
def issueLoop (sc : Scope) (a : Acct) (key : Key) (internal : Bool) : Nat → Nat → Disk → Mem → Disk × Mem × List Addr
  | 0, _, d, m => (d, m, [])
  | n + 1, i, d, m =>
    let ad : Addr := ⟨key, internal, i⟩
    let r := issueLoop sc a key internal n (i + 1) (putAddr d sc a ad) { m with addrs := setAddr m.addrs sc ad (some a) }
    (r.1, r.2.1, ad :: r.2.2)

/-- `nextAddresses(account, n, internal)` inside transaction `t` -/
def issue (t : Tx) (sc : Scope) (a : Acct) (internal : Bool) (n : Nat) : Tx × Except Err (List Addr) :=
  let ld := loadAcct t.d t.m sc a
  match ld.1 with
  | none => ({ t with m := ld.2 }, .error .acctNotFound)
  | some r =>
    let nxt := if internal then r.int else r.ext
    if n > maxAddrs ∨ nxt + n > maxAddrs then ({ t with m := ld.2 }, .error .tooMany)
    else if n > 0 ∧ (t.d.rows sc a).isNone then ({ t with m := ld.2 }, .error .dbError)
    else
      let lp := issueLoop sc a r.key internal n nxt t.d ld.2
      ({ d := lp.1, m := lp.2.1, pend := t.pend ++ [⟨sc, a, internal, nxt + n, lp.2.2⟩] }, .ok lp.2.2)

def applyPend (m : Mem) (p : Pend) : Mem :=
  if p.addrs.isEmpty then m else
  let m1 : Mem := { m with addrs := p.addrs.foldl (fun f ad => setAddr f p.sc ad (some p.a)) m.addrs }
  match m1.accts p.sc p.a with
  | none => m1
  | some r =>
    let r' : Row := if p.internal then { r with int := p.next } else { r with ext := p.next }
    { m1 with accts := setRow m1.accts p.sc p.a (some r') }

def commit (t : Tx) : State := { disk := t.d, mem := t.pend.foldl applyPend t.m }
def rollback (s : State) (t : Tx) : State := { disk := s.disk, mem := t.m }
def begin (s : State) : Tx := { d := s.disk, m := s.mem, pend := [] }

/-- results printed by the driver -/
inductive Res
  | ok
  | err (e : Err)
  | addr (ad : Addr)
  | acct (a : Acct)
  | imported (a : Acct) (r : Row) (ext int : List Addr)
deriving DecidableEq, Repr

inductive Op
  /-- `cf` (here and below): the COMMIT of the request's database transaction fails -/
  | newAddr (sc : Scope) (a : Acct) (internal : Bool) (cf : Bool)
  | curAddr (sc : Scope) (a : Acct)
  | fund (sc : Scope) (a : Acct)
  | createTx (sc : Scope) (a : Acct) (dry huge notifyFail cf : Bool)
  | fundPsbt (sc : Scope) (a : Acct) (coin : Option Nat)
  | importAcct (dry : Bool) (sc : Scope) (name : Name) (key : Key) (n : Nat) (cf : Bool)
  | rename (sc : Scope) (a : Acct) (name : Name) (cf : Bool)
  | newAcct (sc : Scope) (name : Name)
  | lock
  | unlock
  | cmp (scopes : List Scope) (us : List (Scope × Addr))
  /-- `Wallet.Unlock(passphrase p)` -/
  | unlockPass (p : Nat)
  /-- `Wallet.ChangePrivatePassphrase` (`priv = true`) / `Wallet.ChangePublicPassphrase` -/
  | chPass (priv : Bool) (old new : Nat)
  /-- `Wallet.ChangePassphrases(publicOld, publicNew, privateOld, privateNew)` -/
  | chBoth (pubOld pubNew privOld privNew : Nat)
  /-- the process restarts: the running wallet is stopped and opened again on its database (`reopen`) -/
  | restart

/-- a transaction whose only write is ONE `nextAddresses(.., 1, ..)`: rolled back when that fails or when the
request is a dry run / fails afterwards (`abort`), committed otherwise -/
def issue1 (s : State) (t : Tx) (sc : Scope) (a : Acct) (internal : Bool) (abort : Option Res) : State × Res :=
  let r := issue t sc a internal 1
  match r.2 with
  | .error e => (rollback s r.1, .err e)
  | .ok l =>
    match l with
    | [] => (rollback s r.1, .err .dbError)
    | ad :: _ =>
      match abort with
      | some res => (rollback s r.1, if res = .ok then .addr ad else res)
      | none => (commit r.1, .addr ad)

/-- wallet.NewAddress / NewChangeAddress (`cf`: the commit fails - the transaction is rolled back, the `OnCommit`
closure never runs, the eager cache mutations stay) -/
def stepNewAddr (s : State) (sc : Scope) (a : Acct) (internal : Bool) (cf : Bool := false) : State × Res :=
  issue1 s (begin s) sc a internal (if cf then some (.err .commitFail) else none)

/-- wallet.CurrentAddress -/
def stepCurAddr (s : State) (sc : Scope) (a : Acct) : State × Res :=
  let ld := loadAcct s.disk s.mem sc a
  let s1 : State := { s with mem := ld.2 }
  match ld.1 with
  | none => (s1, .err .acctNotFound)
  | some r =>
    if r.ext = 0 then stepNewAddr s1 sc a false
    else
      let lastAd : Addr := ⟨r.key, false, r.ext - 1⟩
      if s.disk.funded.contains (sc, lastAd) then stepNewAddr s1 sc a false
      else (s1, .addr lastAd)

/-- harness op: NewAddress, then a credit to the address and `Manager.MarkUsed` (drops the address cache entry) -/
def stepFund (s : State) (sc : Scope) (a : Acct) : State × Res :=
  let r := stepNewAddr s sc a false
  match r.2 with
  | .addr ad =>
    let m1 := (lookupAddr r.1.disk r.1.mem sc ad).2
    ({ disk := { r.1.disk with funded := r.1.disk.funded ++ [(sc, ad)] }
       mem := { m1 with addrs := setAddr m1.addrs sc ad none } }, .addr ad)
  | _ => r

/-- `findEligibleOutputs`: `Manager.AddrAccount` of every unspent output (cache effects); returns whether one of
them belongs to (scope, account) -/
def scanFunded (d : Disk) (sc : Scope) (a : Acct) : List (Scope × Addr) → Mem → Bool × Mem
  | [], m => (false, m)
  | p :: rest, m =>
    let lk := lookupAddr d m p.1 p.2
    let r := scanFunded d sc a rest lk.2
    ((p.1 == sc && lk.1 == some a) || r.1, r.2)

/-- wallet.CreateSimpleTx → txToOutputs -/
def stepCreateTx (s : State) (sc : Scope) (a : Acct) (dry huge nf : Bool) (cf : Bool := false) : State × Res :=
  if s.mem.locked then (s, .err .locked) else
  let ld := loadAcct s.disk s.mem sc a
  match ld.1 with
  | none => ({ s with mem := ld.2 }, .err .acctNotFound)
  | some _ =>
    let sf := scanFunded s.disk sc a s.disk.funded ld.2
    if huge || !sf.1 then ({ s with mem := sf.2 }, .err .insufficient) else
    issue1 s { d := s.disk, m := sf.2, pend := [] } sc a true
      (if dry then some .ok else if nf then some (.err .notifyFail) else if cf then some (.err .commitFail) else none)

/-- wallet.FundPsbt -/
def stepFundPsbt (s : State) (sc : Scope) (a : Acct) : Option Nat → State × Res
  | none => stepCreateTx s sc a false false false
  | some i =>
    match s.disk.funded[i]? with
    | none => (s, .err .noCoin)
    | some c =>
      -- DecorateInputs: AddressInfo of the input's address
      let m0 := (lookupAddr s.disk s.mem c.1 c.2).2
      let ld := loadAcct s.disk m0 sc a
      match ld.1 with
      | none => ({ s with mem := ld.2 }, .err .acctNotFound)
      | some _ => issue1 s { d := s.disk, m := ld.2, pend := [] } sc a true none

/-- `InvalidateAccountCache` (with `repo-patches/fix-C08-invalidate-account-cache-derive-on-unlock.diff`): drops the
cached account, the cached addresses that belong to the account and its derive-on-unlock entries -/
def inval (m : Mem) (sc : Scope) (a : Acct) : Mem :=
  { m with
    accts := setRow m.accts sc a none
    addrs := fun sc' ad => if sc' = sc ∧ m.addrs sc' ad = some a then none else m.addrs sc' ad
    pendU := m.pendU.filter fun p => !(p.1 == sc && p.2 == a) }

/-- `InvalidateAccountCache` BEFORE that fix: only the account entry is dropped (kept for the counter-example
theorems `C08_wallet_counterexample_unfixed_*`) -/
def invalUnfixed (m : Mem) (sc : Scope) (a : Acct) : Mem := { m with accts := setRow m.accts sc a none }

/-- wallet.ImportAccount / ImportAccountDryRun (`n` preview addresses per branch); `inval` = the cache invalidation
the dry run performs -/
def stepImportWith (inval : Mem → Scope → Acct → Mem) (s : State) (dry : Bool) (sc : Scope) (nm : Name) (key : Key)
    (n : Nat) (cf : Bool := false) : State × Res :=
  if key = 0 then (s, .err .badKey) else
  let acct := s.disk.last sc + 1
  if nm = 0 then (s, .err .badName) else
  if (lookupName s.disk sc nm).isSome then (s, .err .dupName) else
  let d1 : Disk := { s.disk with rows := setRow s.disk.rows sc acct (some ⟨nm, key, 0, 0⟩), last := setLast s.disk.last sc acct }
  let ld := loadAcct d1 s.mem sc acct
  match ld.1 with
  | none => ({ s with mem := ld.2 }, .err .acctNotFound)
  | some r =>
    if !dry then
      -- a failed commit leaves the account that `AccountProperties` loaded from the transaction's view in the cache
      (if cf then ({ s with mem := ld.2 }, .err .commitFail) else ({ disk := d1, mem := ld.2 }, .imported acct r [] []))
    else
    -- `defer manager.InvalidateAccountCache(account)` runs on every exit from here on; the transaction is
    -- rolled back in every case
    let e := issue { d := d1, m := ld.2, pend := [] } sc acct false n
    match e.2 with
    | .error err => ({ s with mem := inval e.1.m sc acct }, .err err)
    | .ok ext =>
      let i := issue e.1 sc acct true n
      match i.2 with
      | .error err => ({ s with mem := inval i.1.m sc acct }, .err err)
      | .ok int =>
        let ld2 := loadAcct i.1.d i.1.m sc acct
        match ld2.1 with
        | none => ({ s with mem := inval ld2.2 sc acct }, .err .acctNotFound)
        | some r' => ({ s with mem := inval ld2.2 sc acct }, .imported acct r' ext int)

def stepImport (s : State) (dry : Bool) (sc : Scope) (nm : Name) (key : Key) (n : Nat) (cf : Bool := false) :
    State × Res :=
  stepImportWith inval s dry sc nm key n cf

/-- wallet.RenameAccount -/
def stepRename (s : State) (sc : Scope) (a : Acct) (nm : Name) (cf : Bool := false) : State × Res :=
  if (lookupName s.disk sc nm).isSome then (s, .err .dupName) else
  if nm = 0 then (s, .err .badName) else
  match s.disk.rows sc a with
  | none => (s, .err .acctNotFound)
  | some r =>
    let d1 : Disk := { s.disk with rows := setRow s.disk.rows sc a (some { r with name := nm }) }
    let m1 : Mem := match s.mem.accts sc a with
      | none => s.mem
      | some c => { s.mem with accts := setRow s.mem.accts sc a (some { c with name := nm }) }
    -- a failed commit keeps the eagerly renamed / freshly loaded cache entry
    if cf then ({ s with mem := (loadAcct d1 m1 sc a).2 }, .err .commitFail)
    else ({ disk := d1, mem := (loadAcct d1 m1 sc a).2 }, .ok)

/-- wallet.NextAccount -/
def stepNewAcct (s : State) (sc : Scope) (nm : Name) : State × Res :=
  if s.mem.locked then (s, .err .locked) else
  let acct := s.disk.last sc + 1
  if nm = 0 then (s, .err .badName) else
  if (lookupName s.disk sc nm).isSome then (s, .err .dupName) else
  let d1 : Disk := { s.disk with rows := setRow s.disk.rows sc acct (some ⟨nm, 100 + acct, 0, 0⟩),
                                 last := setLast s.disk.last sc acct }
  ({ disk := d1, mem := (loadAcct d1 s.mem sc acct).2 }, .acct acct)

/-- cache effects of the harness's query sweep on the running wallet: AccountProperties of accounts 0..last+1 of
every scope, AddressInfo of every listed address -/
def sweepAccts (d : Disk) (sc : Scope) : Nat → Mem → Mem
  | 0, m => (loadAcct d m sc 0).2
  | a + 1, m => (loadAcct d (sweepAccts d sc a m) sc (a + 1)).2

def stepCmp (s : State) (scopes : List Scope) (us : List (Scope × Addr)) : State :=
  let m1 := scopes.foldl (fun m sc => sweepAccts s.disk sc (s.disk.last sc + 1) m) s.mem
  let m2 := us.foldl (fun m (p : Scope × Addr) => (lookupAddr s.disk m p.1 p.2).2) m1
  { s with mem := m2 }

/-- wallet.Unlock (right passphrase) → `Manager.Unlock`: an unlocked manager returns at once; otherwise every
`deriveOnUnlock` entry is re-derived through `deriveKeyFromPath` → `loadAccountInfo`; if that fails (the account
was only ever written by a transaction that rolled back) the manager is locked again and the error returned.
On success the list is emptied.  (Entries registered for accounts that exist are harmless; the model drops the
ones re-registered while the loop runs.) -/
def stepUnlock (s : State) : State × Res :=
  if !s.mem.locked then (s, .ok) else
  if s.mem.pendU.all fun p => (s.mem.accts p.1 p.2).isSome || (s.disk.rows p.1 p.2).isSome then
    let m1 := s.mem.pendU.foldl (fun m p => (loadAcct s.disk m p.1 p.2).2) s.mem
    ({ s with mem := { m1 with locked := false, pendU := [] } }, .ok)
  else (s, .err .acctNotFound)

/-- the private / public passphrase the RUNNING manager checks against (its in-memory master-key parameters), given
the (transaction's view of the) database it was opened on -/
def memPrivOf (d : Disk) (m : Mem) : Nat := m.privOv.getD d.priv
def memPubOf (d : Disk) (m : Mem) : Nat := m.pubOv.getD d.pub
def memPriv (s : State) : Nat := memPrivOf s.disk s.mem
def memPub (s : State) : Nat := memPubOf s.disk s.mem

/-- wallet.Unlock(passphrase `p`) → `Manager.Unlock`: the passphrase is checked against the manager's IN-MEMORY
master private key parameters (locked: `masterKeyPriv.DeriveKey`; unlocked: salted hash against
`hashedPrivPassphrase`); a wrong one locks the manager (`m.lock()`) and returns ErrWrongPassphrase; the right one
continues as `stepUnlock`. -/
def stepUnlockPass (s : State) (p : Nat) : State × Res :=
  if p = memPriv s then stepUnlock s
  else ({ s with mem := { s.mem with locked := true } }, .err .wrongPass)

/-- `Manager.ChangePassphrase(ns, old, new, private)` inside the open transaction `t`: the old passphrase is checked
against the in-memory master key parameters; the new parameters and re-encrypted crypto keys are written to the
database; "now that the db has been successfully updated" the in-memory ones are replaced AT ONCE. -/
def chStep (t : Tx) (priv : Bool) (old new : Nat) : Tx × Option Err :=
  if priv then
    if old = memPrivOf t.d t.m then
      ({ t with d := { t.d with priv := new }, m := { t.m with privOv := some new } }, none)
    else (t, some .wrongPass)
  else
    if old = memPubOf t.d t.m then
      ({ t with d := { t.d with pub := new }, m := { t.m with pubOv := some new } }, none)
    else (t, some .wrongPass)

/-- `walletLocker`, `case req := <-w.changePassphrase`: one `walletdb.Update` around one `ChangePassphrase` -/
def stepChPass (s : State) (priv : Bool) (old new : Nat) : State × Res :=
  let r := chStep (begin s) priv old new
  match r.2 with
  | some e => (rollback s r.1, .err e)
  | none => (commit r.1, .ok)

/-- `walletLocker`, `case req := <-w.changePassphrases`: ONE `walletdb.Update` around the PUBLIC change followed by
the PRIVATE change (`privFirst = false`, the order of the code); when the second step fails the transaction is rolled
back but the first step's in-memory replacement stays.  `privFirst = true` is the other order (used only by the
counter-example `C05_wallet_counterexample_private_first`). -/
def stepChBothWith (privFirst : Bool) (s : State) (pubOld pubNew privOld privNew : Nat) : State × Res :=
  let a := if privFirst then chStep (begin s) true privOld privNew else chStep (begin s) false pubOld pubNew
  match a.2 with
  | some e => (rollback s a.1, .err e)
  | none =>
    let b := if privFirst then chStep a.1 false pubOld pubNew else chStep a.1 true privOld privNew
    match b.2 with
    | some e => (rollback s b.1, .err e)
    | none => (commit b.1, .ok)

def stepChBoth (s : State) (pubOld pubNew privOld privNew : Nat) : State × Res :=
  stepChBothWith false s pubOld pubNew privOld privNew

/-- `ChangePassphrases` with `repo-patches/fix-C05-changepassphrases-public-half-rollback.diff`: when the private
half fails after the public half succeeded, the handler switches the in-memory public master key back
(`ChangePassphrase(publicNew → publicOld)` inside the transaction that is rolled back).  Used by the driver when the
harness's probe reports the fix (`reset pf=1`); `step` follows the unfixed code. -/
def stepChBothFixed (s : State) (pubOld pubNew privOld privNew : Nat) : State × Res :=
  let r := stepChBoth s pubOld pubNew privOld privNew
  match r.2 with
  | .err _ => if pubOld = memPub s then ({ r.1 with mem := { r.1.mem with pubOv := some pubOld } }, r.2) else r
  | _ => r

def step (s : State) : Op → State × Res
  | .newAddr sc a internal cf => stepNewAddr s sc a internal cf
  | .curAddr sc a => stepCurAddr s sc a
  | .fund sc a => stepFund s sc a
  | .createTx sc a dry huge nf cf => stepCreateTx s sc a dry huge nf cf
  | .fundPsbt sc a coin => stepFundPsbt s sc a coin
  | .importAcct dry sc nm key n cf => stepImport s dry sc nm key n cf
  | .rename sc a nm cf => stepRename s sc a nm cf
  | .newAcct sc nm => stepNewAcct s sc nm
  | .lock => ({ s with mem := { s.mem with locked := true } }, .ok)
  | .unlock => stepUnlock s
  | .cmp scopes us => (stepCmp s scopes us, .ok)
  | .unlockPass p => stepUnlockPass s p
  | .chPass priv old new => stepChPass s priv old new
  | .chBoth pubOld pubNew privOld privNew => stepChBoth s pubOld pubNew privOld privNew
  | .restart => (reopen s, .ok)

def run (s : State) (ops : List Op) : State := ops.foldl (fun s op => (step s op).1) s

/-! ## the queries of the property -/

inductive Query
  | props (sc : Scope) (a : Acct)
  | acctNumber (sc : Scope) (nm : Name)
  | acctName (sc : Scope) (a : Acct)
  /-- the address NewAddress (`internal = false`) / NewChangeAddress would issue -/
  | next (sc : Scope) (a : Acct) (internal : Bool)
  | addrInfo (sc : Scope) (ad : Addr)

inductive Ans
  | none
  | row (r : Row)
  | num (n : Nat)
  | addr (ad : Addr)
deriving DecidableEq, Repr

def ask (d : Disk) (m : Mem) : Query → Ans
  | .props sc a => match (loadAcct d m sc a).1 with | some r => .row r | none => .none
  | .acctNumber sc nm => match lookupName d sc nm with | some a => .num a | none => .none
  | .acctName sc a => match d.rows sc a with | some r => .num r.name | none => .none
  | .next sc a internal =>
    match (loadAcct d m sc a).1 with
    | some r => .addr ⟨r.key, internal, if internal then r.int else r.ext⟩
    | none => .none
  | .addrInfo sc ad => match (lookupAddr d m sc ad).1 with | some a => .num a | none => .none

/-- what the running wallet answers / what a wallet restarted on the same database answers -/
def askRunning (s : State) (q : Query) : Ans := ask s.disk s.mem q
def askRestarted (s : State) (q : Query) : Ans := ask s.disk emptyMem q

/-- requests whose database transaction is rolled back by design -/
def Op.isDryRun : Op → Bool
  | .createTx _ _ dry _ _ _ => dry
  | .importAcct dry _ _ _ _ _ => dry
  | _ => false

/-- requests with an EAGER cache mutation (account loaded from the transaction's view, cached name rewritten) whose
commit fails: the known "memory ahead of disk after rollback" family at the wallet level -/
def Op.eagerCommitFail : Op → Bool
  | .importAcct dry _ _ _ _ cf => !dry && cf
  | .rename _ _ _ cf => cf
  | _ => false

def Res.isErr : Res → Bool
  | .err _ => true
  | _ => false

end WalletRestart
