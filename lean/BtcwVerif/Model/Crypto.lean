/-!
# Model of `snacl` (snacl/snacl.go) and of the key layer of `waddrmgr.Manager` (waddrmgr/manager.go) — property C17

Byte level and fully concrete for everything the wallet's own code does: the ciphertext layout
`nonce(24) ‖ secretbox`, the length check of `CryptoKey.Decrypt`, the 88-byte parameter encoding of
`SecretKey.Marshal/Unmarshal` (salt 32 ‖ digest 32 ‖ N ‖ R ‖ P, each `uint64(int)` little endian), the digest
comparison of `DeriveKey`, the parameter check at the head of `scrypt.Key` (including its integer division by
zero), and `Manager.selectCryptoKey/Encrypt/Decrypt/Unlock/lock/loadManager` as far as keys are concerned.

Abstract (fields of the structures `AEAD` and `KDF`; their laws are hypotheses of the theorems in
`Props/C17.lean`, never axioms): `secretbox.Seal/Open`, `scrypt.Key`'s output, `sha256.Sum256`.
The random nonce / salt / fresh keys (`crypto/rand`) are explicit parameters.

Core Lean only (the driver links this file).
-/
namespace Crypto

abbrev Bytes := List UInt8

/-- snacl.KeySize -/
def keySize : Nat := 32
/-- snacl.NonceSize -/
def nonceSize : Nat := 24
/-- secretbox.Overhead (poly1305.TagSize) -/
def overhead : Nat := 16
/-- sha256.Size -/
def digestSize : Nat := 32
/-- `KeySize+sha256.Size+24` in Marshal/Unmarshal -/
def marshalledLen : Nat := keySize + digestSize + 24

/-- snacl's error sentinels, the error returned by `scrypt.Key`, and the Go runtime panic (integer divide by
zero inside `scrypt.Key` when R or P is 0) which is not an error value. -/
inductive Err
  | malformed        -- snacl.ErrMalformed
  | decryptFailed    -- snacl.ErrDecryptFailed
  | invalidPassword  -- snacl.ErrInvalidPassword
  | kdfParams        -- error returned by scrypt.Key for rejected parameters
  | goPanic          -- runtime panic: integer divide by zero in scrypt.Key (r == 0 or p == 0)
  deriving DecidableEq, Repr

/-! ## secretbox as an abstract AEAD -/

/-- `sealF key nonce msg` = `secretbox.Seal(nil, msg, &nonce, &key)`; `openF key nonce box` =
`secretbox.Open(nil, box, &nonce, &key)` (`none` for `ok == false`). -/
structure AEAD where
  sealF : Bytes → Bytes → Bytes → Bytes
  openF : Bytes → Bytes → Bytes → Option Bytes

/-- `CryptoKey.Encrypt` with the nonce read from `prng` made explicit: `append(nonce[:], blob...)`. -/
def encryptWith (A : AEAD) (nonce key msg : Bytes) : Bytes :=
  nonce ++ A.sealF key nonce msg

/-- One `CryptoKey.Encrypt` call: the nonce it read from `prng`, the key, the plaintext. -/
structure EncCall where
  nonce : Bytes
  key : Bytes
  msg : Bytes

/-- The ciphertexts of a list of `Encrypt` calls. `Encrypt` touches no shared state besides `prng` (the nonce is a
local array, the key is only read), so whatever the goroutines and their schedule, the results of `n` calls are a
function of the `n` (nonce, key, plaintext) triples: the list is the calls in ANY completion order. -/
def encryptCalls (A : AEAD) (calls : List EncCall) : List Bytes :=
  calls.map fun c => encryptWith A c.nonce c.key c.msg

/-- `n` (possibly concurrent) encryptions of ONE plaintext under ONE key, call `i` having drawn `nonces[i]`
(engine op `encpar`). -/
def encryptMany (A : AEAD) (key msg : Bytes) (nonces : List Bytes) : List Bytes :=
  encryptCalls A (nonces.map fun n => ⟨n, key, msg⟩)

/-- A schedule of several goroutines: `Interleave threads out` — `out` is obtained by repeatedly taking the next
element of SOME thread (every interleaving that respects each goroutine's program order). -/
inductive Interleave {α : Type} : List (List α) → List α → Prop
  | done (threads : List (List α)) : (∀ t ∈ threads, t = []) → Interleave threads []
  | step (threads : List (List α)) (i : Nat) (x : α) (tl rest : List α) :
      threads[i]? = some (x :: tl) → Interleave (threads.set i tl) rest → Interleave threads (x :: rest)

/-- `CryptoKey.Decrypt`: `len(in) < NonceSize` ⇒ ErrMalformed; nonce = first 24 bytes; `!ok` ⇒ ErrDecryptFailed. -/
def decrypt (A : AEAD) (key inp : Bytes) : Except Err Bytes :=
  if inp.length < nonceSize then .error .malformed
  else match A.openF key (inp.take nonceSize) (inp.drop nonceSize) with
    | some m => .ok m
    | none => .error .decryptFailed

/-! ## little-endian uint64 and Go's int ⇄ uint64 conversions -/

/-- `n` little-endian bytes of `v` (`binary.LittleEndian.PutUint64` for n = 8). -/
def leBytes : Nat → Nat → Bytes
  | 0, _ => []
  | n+1, v => UInt8.ofNat v :: leBytes n (v / 256)

/-- little-endian value of a byte string (`binary.LittleEndian.Uint64` on 8 bytes). -/
def leNat : Bytes → Nat
  | [] => 0
  | b :: bs => b.toNat + 256 * leNat bs

def two64 : Nat := 18446744073709551616
def two63 : Nat := 9223372036854775808

/-- Go `uint64(i)` for a 64-bit `int`. -/
def toU64 (i : Int) : Nat := (i % (two64 : Int)).toNat
/-- Go `int(u)` for a `uint64`. -/
def ofU64 (n : Nat) : Int := if n < two63 then (n : Int) else (n : Int) - (two64 : Int)

/-! ## Parameters, Marshal / Unmarshal -/

/-- snacl.Parameters. `salt`/`digest` are 32-byte arrays in Go (well-formedness: `Params.WF`). -/
structure Params where
  salt : Bytes
  digest : Bytes
  N : Int
  R : Int
  P : Int
  deriving DecidableEq, Repr

/-- What the Go types guarantee: 32-byte arrays and 64-bit ints. -/
structure Params.WF (p : Params) : Prop where
  salt_len : p.salt.length = keySize
  digest_len : p.digest.length = digestSize
  N_lo : -(two63 : Int) ≤ p.N
  N_hi : p.N < (two63 : Int)
  R_lo : -(two63 : Int) ≤ p.R
  R_hi : p.R < (two63 : Int)
  P_lo : -(two63 : Int) ≤ p.P
  P_hi : p.P < (two63 : Int)

/-- `SecretKey.Marshal`: `<salt><digest><N><R><P>`. -/
def marshal (p : Params) : Bytes :=
  p.salt ++ p.digest ++ leBytes 8 (toU64 p.N) ++ leBytes 8 (toU64 p.R) ++ leBytes 8 (toU64 p.P)

/-- `SecretKey.Unmarshal` (parameter part): exact length 88 or ErrMalformed. -/
def unmarshal (b : Bytes) : Except Err Params :=
  if b.length ≠ marshalledLen then .error .malformed
  else .ok {
    salt := b.take keySize
    digest := (b.drop keySize).take digestSize
    N := ofU64 (leNat ((b.drop 64).take 8))
    R := ofU64 (leNat ((b.drop 72).take 8))
    P := ofU64 (leNat ((b.drop 80).take 8)) }

/-! ## scrypt parameter check (golang.org/x/crypto/scrypt.Key, first two `if`s) -/

inductive KdfCheck | ok | err | panic
  deriving DecidableEq, Repr

/-- `maxInt/128` -/
def maxIntDiv128 : Int := 72057594037927935
/-- `maxInt/256` -/
def maxIntDiv256 : Int := 36028797018963967

/-- ```
if N <= 1 || N&(N-1) != 0 { error }
if uint64(r)*uint64(p) >= 1<<30 || r > maxInt/128/p || r > maxInt/256 || N > maxInt/128/r { error }
``` with Go's left-to-right short circuit; the divisions panic on a zero divisor. -/
def scryptCheck (N r p : Int) : KdfCheck :=
  if N ≤ 1 || (N.toNat &&& (N.toNat - 1)) != 0 then .err
  else if (toU64 r * toU64 p) % two64 ≥ 1073741824 then .err
  else if p == 0 then .panic
  else if r > maxIntDiv128.tdiv p then .err
  else if r > maxIntDiv256 then .err
  else if r == 0 then .panic
  else if N > maxIntDiv128.tdiv r then .err
  else .ok

/-! ## SecretKey -/

/-- `kdf block salt N r p` = `scrypt.Key(pass, salt, N, r, p, 32)` for parameters that pass `scryptCheck`, where
`block = hmacBlock hash pass` is the only way the password enters scrypt (see `hmacBlock`); `hash` = `sha256.Sum256`. -/
structure KDF where
  kdf : Bytes → Bytes → Int → Int → Int → Bytes
  hash : Bytes → Bytes

/-- HMAC-SHA256 block size. -/
def hmacBlockSize : Nat := 64

/-- Key preparation of `crypto/hmac.New(sha256.New, key)`: a key longer than the 64-byte block is replaced by its
hash, then the key is zero padded to the block. `scrypt.Key` uses the password ONLY as the HMAC key of its two
`pbkdf2.Key(password, …, sha256.New)` calls, so its result is a function of this block. QUIRK mirrored: passwords
that differ only by trailing NUL bytes (up to 64 bytes) — and a long password and its own sha256 — are the same key. -/
def hmacBlock (hash : Bytes → Bytes) (pass : Bytes) : Bytes :=
  let k := if pass.length > hmacBlockSize then hash pass else pass
  k ++ List.replicate (hmacBlockSize - k.length) 0

def zeroKey : Bytes := List.replicate keySize 0

/-- snacl.SecretKey (`Key` is never nil in the model: `Unmarshal` allocates a zero key). -/
structure SecretKey where
  key : Bytes
  params : Params
  deriving DecidableEq, Repr

/-- `sk.deriveKey`: on a scrypt error `sk.Key` is untouched; otherwise overwritten. -/
def SecretKey.deriveKeyRaw (K : KDF) (sk : SecretKey) (pass : Bytes) : Except Err SecretKey :=
  match scryptCheck sk.params.N sk.params.R sk.params.P with
  | .ok => .ok { sk with key := K.kdf (hmacBlock K.hash pass) sk.params.salt sk.params.N sk.params.R sk.params.P }
  | .err => .error .kdfParams
  | .panic => .error .goPanic

/-- `sk.DeriveKey`: state after the call and the returned error. NOTE (quirk mirrored): on a wrong passphrase
the key field holds the key derived from the *wrong* passphrase — it is not zeroed by snacl itself. -/
def SecretKey.deriveKey (K : KDF) (sk : SecretKey) (pass : Bytes) : SecretKey × Except Err Unit :=
  match sk.deriveKeyRaw K pass with
  | .error e => (sk, .error e)
  | .ok sk' => if K.hash sk'.key = sk'.params.digest then (sk', .ok ()) else (sk', .error .invalidPassword)

/-- `snacl.NewSecretKey(&pass, N, r, p)` with the random salt explicit. -/
def newSecretKey (K : KDF) (salt pass : Bytes) (N R P : Int) : Except Err SecretKey :=
  let sk0 : SecretKey := { key := zeroKey, params := { salt := salt, digest := List.replicate digestSize 0, N := N, R := R, P := P } }
  match sk0.deriveKeyRaw K pass with
  | .error e => .error e
  | .ok sk => .ok { sk with params := { sk.params with digest := K.hash sk.key } }

/-- `var sk SecretKey; sk.Unmarshal(b)`: fresh zero key + parsed parameters. -/
def SecretKey.unmarshal (b : Bytes) : Except Err SecretKey :=
  match Crypto.unmarshal b with
  | .error e => .error e
  | .ok p => .ok { key := zeroKey, params := p }

def SecretKey.marshal (sk : SecretKey) : Bytes := Crypto.marshal sk.params

/-- `sk.Zero()` -/
def SecretKey.zero (sk : SecretKey) : SecretKey := { sk with key := zeroKey }

def SecretKey.encryptWith (A : AEAD) (sk : SecretKey) (nonce msg : Bytes) : Bytes := Crypto.encryptWith A nonce sk.key msg
def SecretKey.decrypt (A : AEAD) (sk : SecretKey) (inp : Bytes) : Except Err Bytes := Crypto.decrypt A sk.key inp

/-! ## waddrmgr.Manager: the key hierarchy (Create / loadManager / Unlock / lock / Encrypt / Decrypt) -/

inductive MgrErr
  | locked            -- ErrLocked
  | invalidKeyType    -- ErrInvalidKeyType
  | wrongPassphrase   -- ErrWrongPassphrase
  | watchingOnly      -- ErrWatchingOnly
  | crypto (e : Err)  -- ErrCrypto wrapping a snacl error
  deriving DecidableEq, Repr

/-- what `Create` writes (putMasterKeyParams / putCryptoKeys / watching-only flag). -/
structure MgrDisk where
  watchOnly : Bool
  masterPubParams : Bytes
  masterPrivParams : Bytes      -- empty for watch-only
  cryptoKeyPubEnc : Bytes
  cryptoKeyPrivEnc : Bytes      -- empty for watch-only
  cryptoKeyScriptEnc : Bytes    -- empty for watch-only
  deriving DecidableEq, Repr

/-- the key-related fields of `Manager`. -/
structure Mgr where
  watchOnly : Bool
  locked : Bool
  masterKeyPub : SecretKey
  masterKeyPriv : SecretKey
  cryptoKeyPub : Bytes
  cryptoKeyPrivEncrypted : Bytes
  cryptoKeyPriv : Bytes
  cryptoKeyScriptEncrypted : Bytes
  cryptoKeyScript : Bytes
  /-- stands for `hashedPrivPassphrase` (salted sha512 of the passphrase): the model keeps the passphrase. -/
  privPass : Option Bytes
  deriving DecidableEq, Repr

/-- the randomness `Create` consumes. -/
structure CreateRand where
  saltPub : Bytes
  saltPriv : Bytes
  keyPub : Bytes
  keyPriv : Bytes
  keyScript : Bytes
  nPub : Bytes
  nPriv : Bytes
  nScript : Bytes

/-- `waddrmgr.Create` (key part), scrypt parameters from `ScryptOptions`. `privPass = none` ⇒ watching-only. -/
def Mgr.create (A : AEAD) (K : KDF) (r : CreateRand) (pubPass : Bytes) (privPass : Option Bytes) (N R P : Int) :
    Except Err MgrDisk :=
  match newSecretKey K r.saltPub pubPass N R P with
  | .error e => .error e
  | .ok mPub =>
    let pubEnc := mPub.encryptWith A r.nPub r.keyPub
    match privPass with
    | none => .ok { watchOnly := true, masterPubParams := mPub.marshal, masterPrivParams := [],
                    cryptoKeyPubEnc := pubEnc, cryptoKeyPrivEnc := [], cryptoKeyScriptEnc := [] }
    | some pp =>
      match newSecretKey K r.saltPriv pp N R P with
      | .error e => .error e
      | .ok mPriv =>
        .ok { watchOnly := false, masterPubParams := mPub.marshal, masterPrivParams := mPriv.marshal,
              cryptoKeyPubEnc := pubEnc,
              cryptoKeyPrivEnc := mPriv.encryptWith A r.nPriv r.keyPriv,
              cryptoKeyScriptEnc := mPriv.encryptWith A r.nScript r.keyScript }

/-- `loadManager` (key part). Any `DeriveKey` failure of the public master key is reported as
ErrWrongPassphrase (the code does not distinguish). The manager starts locked; `cryptoKeyPriv` and
`cryptoKeyScript` are `&cryptoKey{}` — all zero. -/
def Mgr.open_ (A : AEAD) (K : KDF) (d : MgrDisk) (pubPass : Bytes) : Except MgrErr Mgr :=
  let privR : Except MgrErr SecretKey :=
    if d.watchOnly then .ok { key := zeroKey, params := { salt := [], digest := [], N := 0, R := 0, P := 0 } }
    else match SecretKey.unmarshal d.masterPrivParams with
      | .error e => .error (.crypto e)
      | .ok sk => .ok sk
  match privR with
  | .error e => .error e
  | .ok mPriv =>
    match SecretKey.unmarshal d.masterPubParams with
    | .error e => .error (.crypto e)
    | .ok mPub0 =>
      match mPub0.deriveKey K pubPass with
      | (_, .error .goPanic) => .error (.crypto .goPanic)
      | (_, .error _) => .error .wrongPassphrase
      | (mPub, .ok ()) =>
        match mPub.decrypt A d.cryptoKeyPubEnc with
        | .error e => .error (.crypto e)
        | .ok kp =>
          .ok { watchOnly := d.watchOnly, locked := true, masterKeyPub := mPub, masterKeyPriv := mPriv,
                cryptoKeyPub := kp, cryptoKeyPrivEncrypted := d.cryptoKeyPrivEnc, cryptoKeyPriv := zeroKey,
                cryptoKeyScriptEncrypted := d.cryptoKeyScriptEnc, cryptoKeyScript := zeroKey, privPass := none }

/-- `Manager.lock` (key part): zero script key, private crypto key, private master key, hashed passphrase. -/
def Mgr.lock (m : Mgr) : Mgr :=
  { m with cryptoKeyScript := zeroKey, cryptoKeyPriv := zeroKey, masterKeyPriv := m.masterKeyPriv.zero,
           privPass := none, locked := true }

/-- `Manager.Unlock` (key part; the account-key loop belongs to C05). Since /repo b81a3ff both `cryptoKeyPriv` and
`cryptoKeyScript` are restored from their encrypted forms with the private master key. -/
def Mgr.unlock (A : AEAD) (K : KDF) (m : Mgr) (pass : Bytes) : Mgr × Except MgrErr Unit :=
  if m.watchOnly then (m, .error .watchingOnly)
  else if !m.locked then
    if m.privPass = some pass then (m, .ok ()) else (m.lock, .error .wrongPassphrase)
  else
    match m.masterKeyPriv.deriveKey K pass with
    | (sk, .error .invalidPassword) => (({ m with masterKeyPriv := sk }).lock, .error .wrongPassphrase)
    | (sk, .error e) => (({ m with masterKeyPriv := sk }).lock, .error (.crypto e))
    | (sk, .ok ()) =>
      let m1 := { m with masterKeyPriv := sk }
      match sk.decrypt A m.cryptoKeyPrivEncrypted with
      | .error e => (m1.lock, .error (.crypto e))
      | .ok k =>
        -- /repo b81a3ff: the script crypto key is restored as well (failure ⇒ lock + ErrCrypto)
        match sk.decrypt A m.cryptoKeyScriptEncrypted with
        | .error e => (m1.lock, .error (.crypto e))
        | .ok ks => ({ m1 with cryptoKeyPriv := k, cryptoKeyScript := ks, locked := false, privPass := some pass }, .ok ())

/-- the randomness `ChangePassphrase` consumes (salt of the new master key, nonces of the re-encryptions). -/
structure ChangeRand where
  salt : Bytes
  n1 : Bytes
  n2 : Bytes

/-- `Manager.ChangePassphrase(ns, old, new, private, config)` (key part): returns the new in-memory manager, the new
on-disk record and the error. The old passphrase is verified on a *copy* of the master key parameters
(`DeriveKey`), a new master key is made from the new passphrase, the crypto keys are re-encrypted under it. When the
private passphrase is changed while unlocked the cached passphrase hash is recomputed from the NEW passphrase; when
locked the new clear-text master key is zeroed. -/
def Mgr.changePassphrase (A : AEAD) (K : KDF) (m : Mgr) (d : MgrDisk) (r : ChangeRand) (oldPass newPass : Bytes)
    (priv : Bool) (N R P : Int) : Mgr × MgrDisk × Except MgrErr Unit :=
  if priv && m.watchOnly then (m, d, .error .watchingOnly)
  else
    let sk0 : SecretKey := { key := zeroKey, params := if priv then m.masterKeyPriv.params else m.masterKeyPub.params }
    match sk0.deriveKey K oldPass with
    | (_, .error .invalidPassword) => (m, d, .error .wrongPassphrase)
    | (_, .error e) => (m, d, .error (.crypto e))
    | (secretKey, .ok ()) =>
      match newSecretKey K r.salt newPass N R P with
      | .error e => (m, d, .error (.crypto e))
      | .ok newMaster =>
        if priv then
          match secretKey.decrypt A m.cryptoKeyPrivEncrypted with
          | .error e => (m, d, .error (.crypto e))
          | .ok decPriv =>
            let encPriv := newMaster.encryptWith A r.n1 decPriv
            match secretKey.decrypt A m.cryptoKeyScriptEncrypted with
            | .error e => (m, d, .error (.crypto e))
            | .ok decScript =>
              let encScript := newMaster.encryptWith A r.n2 decScript
              let m' : Mgr := { m with
                cryptoKeyPrivEncrypted := encPriv, cryptoKeyScriptEncrypted := encScript,
                masterKeyPriv := if m.locked then newMaster.zero else newMaster,
                privPass := if m.locked then none else some newPass }
              let d' : MgrDisk := { d with masterPrivParams := newMaster.marshal, cryptoKeyPrivEnc := encPriv,
                                           cryptoKeyScriptEnc := encScript }
              (m', d', .ok ())
        else
          let encPub := newMaster.encryptWith A r.n1 m.cryptoKeyPub
          ({ m with masterKeyPub := newMaster }, { d with masterPubParams := newMaster.marshal, cryptoKeyPubEnc := encPub }, .ok ())

/-- `selectCryptoKey`: CKTPrivate = 0, CKTScript = 1, CKTPublic = 2. The lock test precedes the type switch. -/
def Mgr.selectCryptoKey (m : Mgr) (kt : Nat) : Except MgrErr Bytes :=
  if (kt == 0 || kt == 1) && (m.locked || m.watchOnly) then .error .locked
  else match kt with
    | 0 => .ok m.cryptoKeyPriv
    | 1 => .ok m.cryptoKeyScript
    | 2 => .ok m.cryptoKeyPub
    | _ => .error .invalidKeyType

/-- `Manager.Encrypt` (nonce explicit). -/
def Mgr.encrypt (A : AEAD) (m : Mgr) (kt : Nat) (nonce inp : Bytes) : Except MgrErr Bytes :=
  match m.selectCryptoKey kt with
  | .error e => .error e
  | .ok k => .ok (encryptWith A nonce k inp)

/-- `decryptLegacyScript` (/repo b81a3ff): read-side fallback for rows that earlier versions sealed with the
all-zero script key; the ORIGINAL error is kept when the zero key does not open the data either. -/
def decryptLegacyScript (A : AEAD) (inp : Bytes) (origErr : Err) : Except Err Bytes :=
  match Crypto.decrypt A zeroKey inp with
  | .error _ => .error origErr
  | .ok p => .ok p

/-- `Manager.Decrypt`: for CKTScript (= 1) a failure under the script key falls back to `decryptLegacyScript`. -/
def Mgr.decrypt (A : AEAD) (m : Mgr) (kt : Nat) (inp : Bytes) : Except MgrErr Bytes :=
  match m.selectCryptoKey kt with
  | .error e => .error e
  | .ok k =>
    let r := match Crypto.decrypt A k inp with
      | .error e => if kt == 1 then decryptLegacyScript A inp e else .error e
      | .ok p => .ok p
    match r with
    | .error e => .error (.crypto e)
    | .ok p => .ok p

/-! ## Tampering operations used by theorems and by the driver -/

/-- flip bit `i` (bit `i % 8` of byte `i / 8`). -/
def flipBit (c : Bytes) (i : Nat) : Bytes :=
  c.modify (i / 8) (fun b => b ^^^ ((1 : UInt8) <<< (UInt8.ofNat (i % 8))))

/-! ## A toy, lawful instance (driver + non-vacuity). NOT a cipher: it offers no secrecy whatsoever; it only
satisfies the functional laws the theorems assume (proved in `Props/C17.lean`). -/
namespace Toy

def xorBytes (a b : Bytes) : Bytes := List.zipWith (· ^^^ ·) a b

def horner (m : Nat) (l : Bytes) : Nat :=
  l.foldl (fun acc b => (acc * 1000003 + b.toNat + 1) % m) 7

def parity (l : Bytes) : UInt8 := l.foldl (· ^^^ ·) 0

/-- key stream of the toy: depends on key, nonce and position. -/
def stream (k n : Bytes) (len : Nat) : Bytes :=
  let s := horner 4294967296 (k ++ n)
  (List.range len).map fun i => UInt8.ofNat (s + i * 13 + i / 7)

/-- 16 bytes of the key (zero padded). Injective on `Toy.GoodKey`. -/
def keyPart (k : Bytes) : Bytes := (k ++ List.replicate overhead 0).take overhead

/-- 16-byte check value over (nonce, body): body length (8 LE), xor parity (1), 56-bit Horner hash (7). -/
def check (n body : Bytes) : Bytes :=
  leBytes 8 body.length ++ [parity (n ++ body)] ++ leBytes 7 (horner 72057594037927936 (n ++ body))

def tag (k n body : Bytes) : Bytes := xorBytes (keyPart k) (check n body)

def sealB (k n m : Bytes) : Bytes :=
  let body := xorBytes m (stream k n m.length)
  tag k n body ++ body

def openB (k n b : Bytes) : Option Bytes :=
  if b.length < overhead then none
  else
    let body := b.drop overhead
    if b.take overhead = tag k n body then some (xorBytes body (stream k n body.length)) else none

def aead : AEAD := { sealF := sealB, openF := openB }

/-- keys for which the toy provably binds ciphertexts to the key: 32 bytes whose last 16 are zero. -/
def GoodKey (k : Bytes) : Prop := k.length = keySize ∧ k.drop overhead = List.replicate overhead 0

/-- toy KDF: 16 hash bytes ‖ 16 zero bytes (so that derived keys are `GoodKey`s). -/
def kdf (pass salt : Bytes) (N R P : Int) : Bytes :=
  let h := horner 340282366920938463463374607431768211456
    (leBytes 8 pass.length ++ pass ++ salt ++ leBytes 8 (toU64 N) ++ leBytes 8 (toU64 R) ++ leBytes 8 (toU64 P))
  leBytes 16 h ++ List.replicate 16 0

def hash (b : Bytes) : Bytes :=
  leBytes 16 (horner 340282366920938463463374607431768211456 b) ++
  leBytes 16 (horner 340282366920938463463374607431768211297 (b ++ [1]))

def kdfI : KDF := { kdf := kdf, hash := hash }

/-- toy key number `i` (driver): 8 LE bytes of `i+1`, twice, ‖ 16 zero bytes. The repetition keeps distinct toy keys
at Hamming distance ≥ 2: the toy tag is linear in the key, so with adjacent ids one flipped tag bit would turn a box
under key `i` into a valid box under key `i+1` — an artefact real secretbox keys (random 256-bit) do not have. -/
def keyOfId (i : Nat) : Bytes := (leBytes 8 (i + 1) ++ leBytes 8 (i + 1)) ++ List.replicate 16 0

/-- nonce number `i` (driver): 24 LE bytes. -/
def nonceOfId (i : Nat) : Bytes := leBytes 24 i

end Toy

end Crypto
