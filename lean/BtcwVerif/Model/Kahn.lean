/-
Model of /repo/wtxmgr/kahnsort.go (`makeGraph`, `graphRoots`, `DependencySort`) as used by
`Store.UnminedTxs` (wtxmgr/unconfirmed.go) and `Wallet.resendUnminedTxs` (wallet/wallet.go)  — property C14.

A transaction is its hash (a `Nat` standing for the 32-byte `chainhash.Hash`; only equality of hashes matters)
and its inputs `(previous tx hash, output index)`.  The Go map `set map[chainhash.Hash]*wire.MsgTx` is the list
`txOrder` *in the order in which `range set` happens to visit it*; the Go map `graph` is an association list and
the order in which `range graph` visits its keys is the separate parameter `rootOrder`.  Go randomises both
orders, so every theorem quantifies over both.

The model assumes what `UnminedTxs` guarantees: the map key of a transaction is its `TxHash()`.
-/
namespace Kahn

structure Tx where
  hash : Nat
  ins  : List (Nat × Nat)
deriving Repr, DecidableEq, Inhabited

/-- `graphNode`.  `value = none` is the nil pointer of a zero-valued node. -/
structure Node where
  value    : Option Tx
  outEdges : List Nat
  inDegree : Nat
deriving Repr, DecidableEq

/-- The zero `graphNode` returned by `graph[h]` for an absent key. -/
def Node.zero : Node := ⟨none, [], 0⟩

/-- `hashGraph` (a Go map) as an association list with unique keys. -/
abbrev Graph := List (Nat × Node)

def Graph.find? : Graph → Nat → Option Node
  | [], _ => none
  | (k, n) :: g, h => if k = h then some n else Graph.find? g h

/-- `graph[h]` (zero value when absent). -/
def Graph.get (g : Graph) (h : Nat) : Node :=
  match g.find? h with
  | some n => n
  | none => Node.zero

/-- `_, ok := graph[h]`. -/
def Graph.has (g : Graph) (h : Nat) : Bool := (g.find? h).isSome

/-- `graph[h] = n`. -/
def Graph.set : Graph → Nat → Node → Graph
  | [], h, n => [(h, n)]
  | (k, m) :: g, h, n => if k = h then (k, n) :: g else (k, m) :: Graph.set g h n

/-- `set[h]` on the input map. -/
def lookupTx : List Tx → Nat → Option Tx
  | [], _ => none
  | t :: ts, h => if t.hash = h then some t else lookupTx ts h

/-- Body of `inputLoop` in `makeGraph` for one input of `tx`. -/
def addInput (txs : List Tx) (tx : Tx) (g : Graph) (inp : Nat × Nat) : Graph :=
  let ph := inp.1
  -- if _, ok := set[input.PreviousOutPoint.Hash]; !ok { continue }
  match lookupTx txs ph with
  | none => g
  | some parentTx =>
    let inputNode := g.get ph
    -- "Skip duplicate edges": the Go loop compares the *children* recorded in inputNode.outEdges with the
    -- *parent's own hash* (`*outEdge == input.PreviousOutPoint.Hash`), so it only fires when the parent already has
    -- an edge to itself.  For real transactions it never fires; a child spending two outputs of one parent is
    -- recorded twice in the parent's outEdges and counted twice in the child's inDegree.
    if inputNode.outEdges.contains ph then g
    else
      -- inputTx := inputNode.value; if inputTx == nil { inputTx = set[hash] }
      let inputTx := inputNode.value.or (some parentTx)
      let g1 := g.set ph ⟨inputTx, inputNode.outEdges ++ [tx.hash], inputNode.inDegree⟩
      let node := g1.get tx.hash
      g1.set tx.hash ⟨some tx, node.outEdges, node.inDegree + 1⟩

/-- Body of the outer `for _, tx := range set` loop of `makeGraph`. -/
def addTx (txs : List Tx) (g : Graph) (tx : Tx) : Graph :=
  let g0 := if g.has tx.hash then g else g.set tx.hash ⟨some tx, [], 0⟩
  tx.ins.foldl (addInput txs tx) g0

/-- `makeGraph(set)`, `range set` visiting the transactions in the order `txOrder`. -/
def makeGraph (txOrder : List Tx) : Graph :=
  txOrder.foldl (addTx txOrder) []

/-- `graphRoots(graph)`, `range graph` visiting the keys in the order `rootOrder`
(keys listed in `rootOrder` that are not in the graph are ignored). -/
def graphRoots (g : Graph) (rootOrder : List Nat) : List Tx :=
  rootOrder.filterMap fun h =>
    match g.find? h with
    | some n => if n.inDegree = 0 then n.value else none
    | none => none

/-- One iteration of `for _, mHash := range n.outEdges` in `DependencySort`; state = (graph, work list `s`). -/
def relax (st : Graph × List Tx) (mHash : Nat) : Graph × List Tx :=
  let m := st.1.get mHash
  if m.inDegree ≠ 0 then
    let m' : Node := ⟨m.value, m.outEdges, m.inDegree - 1⟩
    let g' := st.1.set mHash m'
    if m'.inDegree = 0 then
      -- s = append(s, m.value); a nil value would make Go panic at the next `tx.TxHash()`; it cannot occur
      -- (`Kahn.makeGraph_value`), the model drops it.
      (g', match m'.value with | some v => st.2 ++ [v] | none => st.2)
    else (g', st.2)
  else st

/-- The `for len(s) != 0` loop.  `fuel` bounds the number of iterations (each iteration emits a distinct
transaction, so `txs.length + 1` is never exhausted: `Kahn.C14_perm` shows the result is complete). -/
def sortLoop : Nat → Graph → List Tx → List Tx → List Tx
  | 0, _, _, sorted => sorted
  | _ + 1, _, [], sorted => sorted
  | fuel + 1, g, tx :: s, sorted =>
    let n := g.get tx.hash
    let st := n.outEdges.foldl relax (g, s)
    sortLoop fuel st.1 st.2 (sorted ++ [tx])

/-- `DependencySort(txs)`. -/
def dependencySort (txOrder : List Tx) (rootOrder : List Nat) : List Tx :=
  let graph := makeGraph txOrder
  let s := graphRoots graph rootOrder
  -- if len(s) == len(txs) { return s }
  if s.length = txOrder.length then s
  else sortLoop (txOrder.length + 1) graph s []

/-! ### Specification side (used by the theorems, by the driver's `spec` verdicts and nowhere in the model) -/

/-- Hashes of a transaction set. -/
def hashes (S : List Tx) : List Nat := S.map (·.hash)

/-- The spend edges inside `S`: `(p, c)` once for every input of `c ∈ S` whose previous hash is the hash of a
transaction of `S` (inputs referring to transactions outside `S` create no edge). -/
def edges (S : List Tx) : List (Nat × Nat) :=
  S.flatMap fun c => (c.ins.filter fun i => (hashes S).contains i.1).map fun i => (i.1, c.hash)

/-- `out` lists every hash of `S` exactly once (as hashes). -/
def isPerm (S : List Tx) (out : List Nat) : Bool :=
  out.length == S.length && (hashes S).all (fun h => out.count h == 1)

/-- every spend edge inside `S` goes forward in `out`. -/
def parentsFirst (S : List Tx) (out : List Nat) : Bool :=
  (edges S).all fun e => out.idxOf e.1 < out.idxOf e.2

/-- Transitive closure of a relation on hashes (a non-empty walk). -/
inductive Reach (r : Nat → Nat → Prop) : Nat → Nat → Prop
  | single {a b} : r a b → Reach r a b
  | cons {a b c} : r a b → Reach r b c → Reach r a c

/-- `S` is a DAG: no transaction of `S` (transitively) spends an output of itself.  Real transactions always
satisfy this, because a transaction hash commits to the hashes of the transactions it spends. -/
def Acyclic (S : List Tx) : Prop := ∀ h, ¬ Reach (fun p c => (p, c) ∈ edges S) h h

/-! ### Enumeration of iteration orders (driver: output-set membership for small graphs) -/

def insertAll {α} (x : α) : List α → List (List α)
  | [] => [[x]]
  | y :: ys => (x :: y :: ys) :: (insertAll x ys).map (y :: ·)

def perms {α} : List α → List (List α)
  | [] => [[]]
  | x :: xs => (perms xs).flatMap (insertAll x)

/-- Is `got` (hashes) the output of the model for SOME pair of iteration orders? -/
def memberOutputs (S : List Tx) (got : List Nat) : Bool :=
  let ros := perms (hashes S)
  (perms S).any fun txOrder =>
    ros.any fun ro => hashes (dependencySort txOrder ro) == got

end Kahn
