import BtcwVerif.Lemmas.RefRemove
/-!
# Refinement: the specification's `closure` is the set of descendants; event *abandoned*
-/
namespace TxStore
open KMap Ledger

/-! ### `Ledger.closure` computes the descendants of its roots -/

/-- the transactions `closure` adds in one round -/
def closureMore (pool : List Tx) (rm : List Nat) : List Nat :=
  (pool.filter fun t => !rm.contains t.hash && t.ins.any fun i => rm.contains i.hash).map (·.hash)

theorem closure_succ (pool : List Tx) (n : Nat) (rm : List Nat) :
    closure pool (n + 1) rm = if (closureMore pool rm).isEmpty then rm else closure pool n (rm ++ closureMore pool rm) := rfl

theorem closure_sub (pool : List Tx) : ∀ (n : Nat) (rm : List Nat), ∀ h ∈ rm, h ∈ closure pool n rm := by
  intro n
  induction n with
  | zero => intro rm h hh; exact hh
  | succ n ih =>
    intro rm h hh
    rw [closure_succ]
    split
    · exact hh
    · exact ih _ h (List.mem_append_left _ hh)

theorem mem_closureMore {pool : List Tx} {rm : List Nat} {h : Nat} :
    h ∈ closureMore pool rm ↔ ∃ t ∈ pool, t.hash = h ∧ h ∉ rm ∧ ∃ i ∈ t.ins, i.hash ∈ rm := by
  unfold closureMore
  simp only [List.mem_map, List.mem_filter, Bool.and_eq_true, Bool.not_eq_true', List.any_eq_true,
    List.contains_iff_mem]
  constructor
  · rintro ⟨t, ⟨ht, h1, i, hi, h2⟩, rfl⟩
    exact ⟨t, ht, rfl, by simpa using h1, i, hi, h2⟩
  · rintro ⟨t, ht, rfl, h1, i, hi, h2⟩
    exact ⟨t, ⟨ht, by simpa using h1, i, hi, h2⟩, rfl⟩

/-- soundness: `closure` stays inside every set that contains the roots and is closed under "spends an output of" -/
theorem closure_sound (pool : List Tx) (D : Nat → Prop)
    (hD : ∀ b, D b → ∀ u ∈ pool, (∃ i ∈ u.ins, i.hash = b) → D u.hash) :
    ∀ (n : Nat) (rm : List Nat), (∀ h ∈ rm, D h) → ∀ h ∈ closure pool n rm, D h := by
  intro n
  induction n with
  | zero => intro rm hrm h hh; exact hrm h hh
  | succ n ih =>
    intro rm hrm h hh
    rw [closure_succ] at hh
    split at hh
    · exact hrm h hh
    · refine ih _ ?_ h hh
      intro x hx
      rcases List.mem_append.mp hx with hx | hx
      · exact hrm x hx
      · obtain ⟨t, ht, rfl, _, i, hi, h2⟩ := mem_closureMore.mp hx
        exact hD _ (hrm _ h2) t ht ⟨i, hi, rfl⟩

/-- the pool transactions not yet collected -/
def closureLeft (pool : List Tx) (rm : List Nat) : Nat := (pool.filter fun t => !rm.contains t.hash).length

/-- completeness: with enough fuel the result is closed under "spends an output of" -/
theorem closure_closed (pool : List Tx) : ∀ (n : Nat) (rm : List Nat), closureLeft pool rm ≤ n →
    ∀ t ∈ pool, (∃ i ∈ t.ins, i.hash ∈ closure pool n rm) → t.hash ∈ closure pool n rm := by
  intro n
  induction n with
  | zero =>
    intro rm hm t ht _
    unfold closureLeft at hm
    have : pool.filter (fun t => !rm.contains t.hash) = [] := List.eq_nil_of_length_eq_zero (by omega)
    have := List.filter_eq_nil_iff.mp this t ht
    show t.hash ∈ rm
    simpa using this
  | succ n ih =>
    intro rm hm t ht hex
    rw [closure_succ] at hex ⊢
    by_cases he : (closureMore pool rm).isEmpty = true
    · simp only [he, if_true] at hex ⊢
      obtain ⟨i, hi, hir⟩ := hex
      by_cases hin : t.hash ∈ rm
      · exact hin
      · have : t.hash ∈ closureMore pool rm := mem_closureMore.mpr ⟨t, ht, rfl, hin, i, hi, hir⟩
        rw [List.isEmpty_iff] at he
        rw [he] at this; cases this
    · simp only [he, Bool.false_eq_true, if_false] at hex ⊢
      refine ih _ ?_ t ht hex
      -- one more transaction is collected
      have hne : closureMore pool rm ≠ [] := by
        intro e; apply he; rw [e]; rfl
      obtain ⟨x, hx⟩ := List.exists_mem_of_ne_nil _ hne
      obtain ⟨v, hv, hvx, hnot, _⟩ := mem_closureMore.mp hx
      have hlt : closureLeft pool (rm ++ closureMore pool rm) < closureLeft pool rm := by
        unfold closureLeft
        apply filter_length_lt_of_imp
        · intro y _ hy
          simp only [Bool.not_eq_true', List.contains_eq_mem, List.mem_append, decide_eq_false_iff_not, not_or] at hy ⊢
          exact hy.1
        · refine ⟨v, hv, ?_, ?_⟩
          · simp only [Bool.not_eq_true', List.contains_eq_mem, decide_eq_false_iff_not]; rw [hvx]; exact hnot
          · simp only [Bool.not_eq_false', List.contains_eq_mem, List.mem_append, decide_eq_true_eq]
            right; rw [hvx]; exact hx
      omega

/-- **`closure` = descendants of the roots** -/
theorem mem_closure_iff (pool : List Tx) (roots : List Nat) (h : Nat) :
    h ∈ closure pool pool.length roots ↔ ∃ r ∈ roots, Desc pool r h := by
  constructor
  · intro hh
    refine closure_sound pool (fun x => ∃ r ∈ roots, Desc pool r x) ?_ pool.length roots ?_ h hh
    · rintro b ⟨r, hr, hd⟩ u hu hi
      exact ⟨r, hr, Desc.step hd hu hi⟩
    · intro x hx; exact ⟨x, hx, Desc.refl _⟩
  · rintro ⟨r, hr, hd⟩
    have hclosed := closure_closed pool pool.length roots (by unfold closureLeft; exact List.length_filter_le _ _)
    induction hd with
    | refl => exact closure_sub pool _ _ _ hr
    | step _ hu hi ih =>
      obtain ⟨i, hi1, hi2⟩ := hi
      exact hclosed _ hu ⟨i, hi1, by rw [hi2]; exact ih⟩

/-! ### the unconfirmed bucket has as many entries as the pool -/

theorem pool_hashes_nodup {L : Ledger} (hl : LWF L) : (L.pool.map (·.hash)).Nodup := by
  have := hl.hashes
  unfold known at this
  rw [List.map_append, List.nodup_append] at this
  have h2 := this.2.1
  rw [List.map_map] at h2
  exact h2

theorem unmined_length {s : Store} {L : Ledger} (hg : Good s L) : s.unmined.length = L.pool.length := by
  have h1 : (s.unmined.map (·.1)).Nodup := hg.ref.nodupUnmined
  have h2 := pool_hashes_nodup hg.lwf
  have hperm : (s.unmined.map (·.1)).Perm (L.pool.map (·.hash)) := by
    rw [List.perm_ext_iff_of_nodup h1 h2]
    intro k
    have : k ∈ s.unmined.map (·.1) ↔ (s.unmined.find? k).isSome := mem_keys_iff_find? s.unmined k
    rw [this, List.mem_map]
    constructor
    · intro hs
      cases hf : s.unmined.find? k with
      | none => rw [hf] at hs; cases hs
      | some t =>
        obtain ⟨ht, hk⟩ := (hg.ref.unmined_iff k t).mp hf
        exact ⟨t, ht, hk.symm⟩
    · rintro ⟨t, ht, rfl⟩
      rw [(hg.ref.unmined_iff t.hash t).mpr ⟨ht, rfl⟩]; rfl
  have := hperm.length_eq
  simpa using this

theorem above_lt_fuel {s : Store} {L : Ledger} (hg : Good s L) (rk : Nat → Nat) (h : Nat) : above rk L h < fuelOf s := by
  unfold above fuelOf
  rw [unmined_length hg]
  have := List.length_filter_le (fun v : Tx => decide (rk h < rk v.hash)) L.pool
  omega

/-! ### the event *abandoned* -/

/-- the ledger without the transactions whose hash is in `gone`, and without their credits -/
theorem without_eq_minus (L : Ledger) (gone : List Nat) :
    { L with pool := L.pool.filter (fun u => !gone.contains u.hash), credit := dropCredits L.credit gone } =
      minus L (fun h => gone.contains h) (fun _ => false) := by
  unfold minus dropCredits
  congr 1
  congr 1
  funext p
  simp

/-- removing with `removeConflict` from a good pair: the result refines the ledger without the descendants,
stated with the specification's `closure` -/
theorem good_removeConflict_closure {s : Store} {L : Ledger} (hg : Good s L) {u : Tx} (hu : u ∈ L.pool) :
    ∃ s', removeConflict (fuelOf s) s u = .ok s' ∧
      Good s' (minus L (fun h => (closure L.pool L.pool.length [u.hash]).contains h) (fun _ => false)) := by
  obtain ⟨rk, hrk⟩ := hg.lwf.rank
  obtain ⟨s', P, h1, h2, h3⟩ := good_removeConflict rk (fuelOf s) s L u hg hrk hu (above_lt_fuel hg rk _)
  refine ⟨s', h1, ?_⟩
  rw [minus_congr L (P := fun h => (closure L.pool L.pool.length [u.hash]).contains h) (P' := P)
    (Q' := fun _ => false) ?_ (fun _ => rfl)]
  · exact h2
  · intro h
    have : (closure L.pool L.pool.length [u.hash]).contains h = true ↔ P h = true := by
      rw [List.contains_iff_mem, mem_closure_iff, h3]
      simp
    cases hc : (closure L.pool L.pool.length [u.hash]).contains h <;> cases hp : P h <;> simp_all

/-- **event *abandoned*** -/
theorem good_abandoned {s : Store} {L : Ledger} (hg : Good s L) {t : Tx} (now : Nat)
    (hc : Consistent L (.abandoned t)) :
    ∃ s', stepEvent s now (.abandoned t) = .ok s' ∧ Good s' (Ledger.apply L (.abandoned t)) ∧
      (NoConflict L → NoConflict (Ledger.apply L (.abandoned t))) := by
  have ht : t ∈ L.pool := by
    have := hc.extra
    simpa [Ledger.extra] using this
  have hin : inPool L t.hash = true := inPool_iff.mpr ⟨t, ht, rfl⟩
  obtain ⟨s', h1, h2⟩ := good_removeConflict_closure hg ht
  refine ⟨s', h1, ?_⟩
  simp only [Ledger.apply, hin, if_true]
  rw [without_eq_minus]
  exact ⟨h2, fun hn => noConflict_minus hn _ _⟩

end TxStore
