/-
Progress lemmas for C18 (existence of worker/consumer schedules; bound on worker steps after Stop).
-/
import BtcwVerif.Lemmas.Queue
set_option linter.unusedSimpArgs false
namespace Queue
variable {α : Type}

/-- Steps a draining run may use: the worker's sends / default, the consumer's receive / block.  No producer. -/
def Label.isDrain : Label α → Bool
  | .w .sendFront | .w .sendItem | .w .dflt | .e .consume | .e .wait => true
  | _ => false

/-- Worker steps. -/
def Label.isWorker : Label α → Bool
  | .w _ => true
  | .e _ => false

/-- Worker steps that need no producer. -/
def Label.isWorkerNoRecv : Label α → Bool
  | .w (.recvIn _) => false
  | .w _ => true
  | .e _ => false

/-! ### From the nested select back to the loop head: one worker step, whatever the consumer does -/

theorem inner_to_top {c : Nat} {s : State α} (hI : Inv c s) (hq : s.quitClosed = false) (cs : List ICase)
    (hpc : s.pc = .inner cs) :
    ∃ l s1, (l = WLabel.sendItem ∨ l = WLabel.dflt) ∧ step expectedTable s (.w l) = some s1 ∧ s1.pc = .top ∧
      s1.quitClosed = false ∧ s1.accepted = s.accepted ∧ Inv c s1 ∧
      s1.out.length + 2 * s1.overflow.length ≤ s.out.length + 2 := by
  obtain ⟨_, hh, hov, _, _⟩ := hI.inner cs hpc
  cases hr : sendReady s with
  | true =>
    have hs : ∃ s1, step expectedTable s (.w .sendItem) = some s1 := by
      rw [step_w_eq hI]
      cases hheld : s.held with
      | none => simp [hheld] at hh
      | some x => simp [wstepSpec, hpc, hheld, hr]
    obtain ⟨s1, hs⟩ := hs
    refine ⟨.sendItem, s1, Or.inl rfl, hs, ?_, ?_, ?_, inv_step hI hs, ?_⟩ <;>
    · rw [step_w_eq hI] at hs
      cases hheld : s.held with
      | none => simp [hheld] at hh
      | some x =>
        simp [wstepSpec, hpc, hheld, hr] at hs
        subst hs
        cases hw : s.waiting <;> simp [finish, deliver, hw, hq, hov]
  | false =>
    have hs : ∃ s1, step expectedTable s (.w .dflt) = some s1 := by
      rw [step_w_eq hI]
      cases hheld : s.held with
      | none => simp [hheld] at hh
      | some x => simp [wstepSpec, hpc, hheld, hr, hq]
    obtain ⟨s1, hs⟩ := hs
    refine ⟨.dflt, s1, Or.inr rfl, hs, ?_, ?_, ?_, inv_step hI hs, ?_⟩ <;>
    · rw [step_w_eq hI] at hs
      cases hheld : s.held with
      | none => simp [hheld] at hh
      | some x =>
        simp [wstepSpec, hpc, hheld, hr, hq] at hs
        subst hs
        simp [finish, hq, hov]

/-! ### Draining: with a consumer that keeps receiving, everything accepted is delivered -/

theorem drain_top (c : Nat) : ∀ (n : Nat) (s : State α), Inv c s → s.pc = .top → s.quitClosed = false →
    s.out.length + s.overflow.length = n →
    ∃ tr s', (∀ l ∈ tr, Label.isDrain l = true) ∧ tr.length ≤ s.out.length + 2 * s.overflow.length ∧
      run expectedTable s tr = some s' ∧ s'.delivered = s.accepted ∧ s'.accepted = s.accepted ∧
      s'.out = [] ∧ s'.overflow = [] ∧ s'.pc = .top := by
  intro n
  induction n with
  | zero =>
    intro s hI hpc hq hn
    have ho : s.out = [] := List.eq_nil_of_length_eq_zero (by omega)
    have hv : s.overflow = [] := List.eq_nil_of_length_eq_zero (by omega)
    refine ⟨[], s, by simp, by simp, rfl, ?_, rfl, ho, hv, hpc⟩
    have hacc := hI.acc
    obtain ⟨h1, _, h3⟩ := hI.top hpc
    simp [ho, hv, h1, h3] at hacc
    exact hacc.symm
  | succ n ih =>
    intro s hI hpc hq hn
    cases ho : s.out with
    | cons x o =>
      have hstep : step expectedTable s (.e .consume) = some { s with out := o, delivered := s.delivered ++ [x] } := by
        simp [step, estep, ho]
      have hI1 := inv_step hI hstep
      obtain ⟨tr, s', h1, h2, h3, h4, h5, h6⟩ :=
        ih _ hI1 (by simpa using hpc) (by simpa using hq) (by simp [ho] at hn ⊢; omega)
      refine ⟨.e .consume :: tr, s', ?_, ?_, ?_, h4, h5, h6⟩
      · intro l hl
        rcases List.mem_cons.mp hl with rfl | hl
        · rfl
        · exact h1 l hl
      · simp at h2 ⊢; omega
      · rw [run_cons_some hstep]; exact h3
    | nil =>
      cases hv : s.overflow with
      | nil => simp [ho, hv] at hn
      | cons f r =>
        -- make sure the consumer is blocked on the empty channel, then the worker hands the front over directly
        have key : ∀ s0 : State α, Inv c s0 → s0.pc = .top → s0.quitClosed = false → s0.out = [] →
            s0.overflow = f :: r → s0.waiting = true → s0.accepted = s.accepted →
            ∃ tr s', (∀ l ∈ tr, Label.isDrain l = true) ∧ tr.length ≤ 1 + 2 * r.length ∧
              run expectedTable s0 tr = some s' ∧ s'.delivered = s.accepted ∧ s'.accepted = s.accepted ∧
              s'.out = [] ∧ s'.overflow = [] ∧ s'.pc = .top := by
          intro s0 hI0 hpc0 hq0 ho0 hv0 hw0 hacc0
          have hstep : step expectedTable s0 (.w .sendFront) =
              some (finish { deliver s0 f with overflow := r }) := by
            rw [step_w_eq hI0]; simp [wstepSpec, hpc0, hv0, sendReady, hw0]
          have hI1 := inv_step hI0 hstep
          obtain ⟨tr, s', h1, h2, h3, h4, h5, h6⟩ :=
            ih _ hI1 (by simp [finish]) (by simp [finish, deliver, hw0, hq0])
              (by simp [finish, deliver, hw0, ho0]; simp [ho, hv] at hn; omega)
          refine ⟨.w .sendFront :: tr, s', ?_, ?_, ?_, ?_, ?_, h6⟩
          · intro l hl
            rcases List.mem_cons.mp hl with rfl | hl
            · rfl
            · exact h1 l hl
          · simp [finish, deliver, hw0, ho0] at h2; simp; omega
          · rw [run_cons_some hstep]; exact h3
          · rw [h4]; simp [finish, deliver, hw0, hacc0]
          · rw [h5]; simp [finish, deliver, hw0, hacc0]
        cases hw : s.waiting with
        | true =>
          obtain ⟨tr, s', h1, h2, h3, h4⟩ := key s hI hpc hq ho hv hw rfl
          exact ⟨tr, s', h1, by simp; omega, h3, h4⟩
        | false =>
          have hstep : step expectedTable s (.e .wait) = some { s with waiting := true } := by
            simp [step, estep, ho, hw]
          have hI1 := inv_step hI hstep
          obtain ⟨tr, s', h1, h2, h3, h4⟩ :=
            key _ hI1 (by simpa using hpc) (by simpa using hq) (by simpa using ho) (by simpa using hv) rfl rfl
          refine ⟨.e .wait :: tr, s', ?_, by simp; omega, ?_, h4⟩
          · intro l hl
            rcases List.mem_cons.mp hl with rfl | hl
            · rfl
            · exact h1 l hl
          · rw [run_cons_some hstep]; exact h3

/-- From ANY state satisfying the invariant in which `Stop()` has not been called there is a schedule of worker and
consumer steps only, of length at most `|out| + 2·|overflow| + 3`, after which `delivered = accepted`. -/
theorem drain_all {c : Nat} {s : State α} (hI : Inv c s) (hq : s.quitClosed = false) :
    ∃ tr s', (∀ l ∈ tr, Label.isDrain l = true) ∧ tr.length ≤ s.out.length + 2 * s.overflow.length + 3 ∧
      run expectedTable s tr = some s' ∧ s'.delivered = s.accepted ∧ s'.accepted = s.accepted ∧
      s'.out = [] ∧ s'.overflow = [] ∧ s'.pc = .top := by
  cases hpc : s.pc with
  | exited => have := (hI.exited hpc).1; simp [hq] at this
  | top =>
    obtain ⟨tr, s', h1, h2, h3⟩ := drain_top c _ s hI hpc hq rfl
    exact ⟨tr, s', h1, by omega, h3⟩
  | inner cs =>
    obtain ⟨l, s1, hl, hs, hpc1, hq1, hacc1, hI1, hlen⟩ := inner_to_top hI hq cs hpc
    obtain ⟨tr, s', h1, h2, h3, h4, h5, h6⟩ := drain_top c _ s1 hI1 hpc1 hq1 rfl
    refine ⟨.w l :: tr, s', ?_, by simp; omega, ?_, by rw [h4, hacc1], by rw [h5, hacc1], h6⟩
    · intro l' hl'
      rcases List.mem_cons.mp hl' with rfl | hl'
      · rcases hl with rfl | rfl <;> rfl
      · exact h1 l' hl'
    · rw [run_cons_some hs]; exact h3

/-! ### Draining under EVERY schedule of worker and consumer steps -/

/-- Number of worker/consumer steps still possible when no producer offers anything and the consumer never gives up. -/
def drainMeasure (s : State α) : Nat :=
  4 * s.held.toList.length + 3 * s.overflow.length + 2 * s.out.length + (if s.waiting then 0 else 1)

theorem drain_step_decreases {c : Nat} {s s' : State α} {l : Label α} (hI : Inv c s) (hq : s.quitClosed = false)
    (hl : Label.isDrain l = true) (h : step expectedTable s l = some s') :
    drainMeasure s' < drainMeasure s ∧ s'.quitClosed = false ∧ s'.accepted = s.accepted := by
  cases l with
  | e el =>
    cases el <;> simp [Label.isDrain] at hl
    · -- consume
      simp only [step] at h
      cases ho : s.out with
      | nil => simp [estep, ho] at h
      | cons x o =>
        simp [estep, ho] at h; subst h
        simp [drainMeasure, hq, ho]
    · -- wait
      simp [step, estep] at h
      obtain ⟨⟨_, hw⟩, rfl⟩ := h
      simp [drainMeasure, hq, hw]
  | w wl =>
    rw [step_w_eq hI] at h
    cases hp : s.pc with
    | exited => simp [wstepSpec, hp] at h
    | top =>
      obtain ⟨hh, _, _⟩ := hI.top hp
      cases hv : s.overflow with
      | nil => cases wl <;> simp [wstepSpec, hp, hv, Label.isDrain] at h hl
      | cons f r =>
        cases wl <;> simp [wstepSpec, hp, hv, Label.isDrain] at h hl
        obtain ⟨hr, rfl⟩ := h
        cases hw : s.waiting <;> simp [drainMeasure, finish, deliver, hw, hq, hh, hv] <;> omega
    | inner cs =>
      obtain ⟨_, _, hov, _, _⟩ := hI.inner cs hp
      cases hh : s.held with
      | none =>
        obtain ⟨_, hsome, _⟩ := hI.inner cs hp
        simp [hh] at hsome
      | some x =>
        cases wl <;> simp [wstepSpec, hp, hh, hq, Label.isDrain] at h hl
        · obtain ⟨hr, rfl⟩ := h
          cases hw : s.waiting <;> simp [drainMeasure, finish, deliver, hw, hq, hh, hov] <;> omega
        · obtain ⟨hr, rfl⟩ := h
          simp [drainMeasure, finish, hq, hh, hov]

theorem drain_bound {c : Nat} : ∀ (tr : List (Label α)) (s s' : State α), Inv c s → s.quitClosed = false →
    (∀ l ∈ tr, Label.isDrain l = true) → run expectedTable s tr = some s' →
    tr.length + drainMeasure s' ≤ drainMeasure s ∧ s'.quitClosed = false ∧ s'.accepted = s.accepted
  | [], s, s', _, hq, _, h => by simp [run] at h; subst h; simp [hq]
  | l :: ls, s, s', hI, hq, hl, h => by
    simp only [run] at h
    cases hs : step expectedTable s l with
    | none => simp [hs] at h
    | some s1 =>
      simp [hs] at h
      obtain ⟨hd, hq1, ha1⟩ := drain_step_decreases hI hq (hl l (by simp)) hs
      obtain ⟨h1, h2, h3⟩ := drain_bound ls s1 s' (inv_step hI hs) hq1 (fun l hl' => hl l (by simp [hl'])) h
      refine ⟨by simp; omega, h2, by rw [h3, ha1]⟩

/-- If no worker/consumer step is possible any more (and Stop was not called), everything accepted was delivered. -/
theorem drain_stuck {c : Nat} {s : State α} (hI : Inv c s) (hq : s.quitClosed = false)
    (hstuck : ∀ l : Label α, Label.isDrain l = true → step expectedTable s l = none) :
    s.delivered = s.accepted ∧ s.out = [] ∧ s.overflow = [] := by
  have hc := hstuck (.e .consume) rfl
  have hwt := hstuck (.e .wait) rfl
  have ho : s.out = [] := by
    cases ho : s.out with
    | nil => rfl
    | cons x o => simp [step, estep, ho] at hc
  have hw : s.waiting = true := by
    cases hw : s.waiting with
    | true => rfl
    | false => simp [step, estep, ho, hw] at hwt
  cases hp : s.pc with
  | exited => have := (hI.exited hp).1; simp [hq] at this
  | inner cs =>
    obtain ⟨_, hh, _, _, _⟩ := hI.inner cs hp
    have h1 := hstuck (.w .sendItem) rfl
    rw [step_w_eq hI] at h1
    cases hheld : s.held with
    | none => simp [hheld] at hh
    | some x => simp [wstepSpec, hp, hheld, sendReady, hw] at h1
  | top =>
    obtain ⟨hh, _, hl⟩ := hI.top hp
    have hv : s.overflow = [] := by
      cases hv : s.overflow with
      | nil => rfl
      | cons f r =>
        have h1 := hstuck (.w .sendFront) rfl
        rw [step_w_eq hI] at h1
        simp [wstepSpec, hp, hv, sendReady, hw] at h1
    have hacc := hI.acc
    simp [ho, hv, hh, hl] at hacc
    exact ⟨hacc.symm, ho, hv⟩

/-! ### The producer: a send is accepted after at most one worker step, whatever the consumer does -/

theorem recv_enabled_top {c : Nat} {s : State α} (hI : Inv c s) (hpc : s.pc = .top) (x : α) :
    ∃ s1, step expectedTable s (.w (.recvIn x)) = some s1 ∧ s1.accepted = s.accepted ++ [x] ∧
      s1.quitClosed = s.quitClosed ∧ s1.delivered = s.delivered ∧ s1.out = s.out ∧ s1.pc ≠ .exited := by
  rw [step_w_eq hI]
  cases hv : s.overflow with
  | nil => simp [wstepSpec, hpc, hv]
  | cons f r => simp [wstepSpec, hpc, hv, finish]

/-- Worker-only schedule (no consumer step at all) that brings the worker to the loop head. -/
theorem to_top {c : Nat} {s : State α} (hI : Inv c s) (hq : s.quitClosed = false) :
    ∃ tr s1, tr.length ≤ 1 ∧ (∀ l ∈ tr, l = Label.w .sendItem ∨ l = Label.w .dflt) ∧
      run expectedTable s tr = some s1 ∧ s1.pc = .top ∧ s1.quitClosed = false ∧ s1.accepted = s.accepted ∧ Inv c s1 := by
  cases hpc : s.pc with
  | exited => have := (hI.exited hpc).1; simp [hq] at this
  | top => exact ⟨[], s, by simp, by simp, rfl, hpc, hq, rfl, hI⟩
  | inner cs =>
    obtain ⟨l, s1, hl, hs, hpc1, hq1, hacc1, hI1, _⟩ := inner_to_top hI hq cs hpc
    refine ⟨[.w l], s1, by simp, ?_, by simp [run, hs], hpc1, hq1, hacc1, hI1⟩
    intro l' hl'
    simp at hl'; subst hl'
    rcases hl with rfl | rfl <;> simp

/-- Bursts of any length are accepted by worker steps alone (the consumer does not take a single step). -/
theorem burst_accepted {c : Nat} : ∀ (xs : List α) (s : State α), Inv c s → s.quitClosed = false →
    ∃ tr s', (∀ l ∈ tr, Label.isWorker l = true) ∧ tr.length ≤ 2 * xs.length + 1 ∧
      run expectedTable s tr = some s' ∧ s'.accepted = s.accepted ++ xs ∧ s'.quitClosed = false
  | [], s, _, hq => ⟨[], s, by simp, by simp, rfl, by simp, hq⟩
  | x :: xs, s, hI, hq => by
    obtain ⟨tr0, s0, hlen0, hl0, hrun0, hpc0, hq0, hacc0, hI0⟩ := to_top hI hq
    obtain ⟨s1, hs1, hacc1, hq1, _, _, _⟩ := recv_enabled_top hI0 hpc0 x
    have hI1 := inv_step hI0 hs1
    cases tr0 with
    | nil =>
      obtain ⟨tr, s', h1, h2, h3, h4, h5⟩ := burst_accepted xs s1 hI1 (by rw [hq1, hq0])
      simp [run] at hrun0; subst hrun0
      refine ⟨.w (.recvIn x) :: tr, s', ?_, by simp at h2 ⊢; omega, ?_, ?_, h5⟩
      · intro l hl
        rcases List.mem_cons.mp hl with rfl | hl
        · rfl
        · exact h1 l hl
      · rw [run_cons_some hs1]; exact h3
      · rw [h4, hacc1]; simp
    | cons l0 rest =>
      have hrest : rest = [] := by
        cases rest with
        | nil => rfl
        | cons _ _ => simp at hlen0
      subst hrest
      obtain ⟨tr, s', h1, h2, h3, h4, h5⟩ := burst_accepted xs s1 hI1 (by rw [hq1, hq0])
      refine ⟨l0 :: .w (.recvIn x) :: tr, s', ?_, by simp at h2 ⊢; omega, ?_, ?_, h5⟩
      · intro l hl
        rcases List.mem_cons.mp hl with rfl | hl
        · rcases hl0 l (by simp) with rfl | rfl <;> rfl
        · rcases List.mem_cons.mp hl with rfl | hl
          · rfl
          · exact h1 l hl
      · have : run expectedTable s ([l0] ++ (.w (.recvIn x) :: tr)) = some s' := by
          rw [run_append, hrun0]; simp; rw [run_cons_some hs1]; exact h3
        simpa using this
      · rw [h4, hacc1, hacc0]; simp

/-- The nested select never blocks (it has a `default`) and every clause of it leaves it. -/
theorem inner_nonblocking {c : Nat} {s : State α} (hI : Inv c s) (cs : List ICase) (hpc : s.pc = .inner cs) :
    (∃ l s1, step expectedTable s (.w l) = some s1) ∧
    (∀ l s1, step expectedTable s (.w l) = some s1 → s1.pc = .top ∨ s1.pc = .exited) := by
  obtain ⟨_, hh, _, _, _⟩ := hI.inner cs hpc
  cases hheld : s.held with
  | none => simp [hheld] at hh
  | some x =>
    constructor
    · cases hq : s.quitClosed with
      | true => exact ⟨.quit, _, by rw [step_w_eq hI]; simp [wstepSpec, hpc, hheld, hq]; rfl⟩
      | false =>
        cases hr : sendReady s with
        | true => exact ⟨.sendItem, _, by rw [step_w_eq hI]; simp [wstepSpec, hpc, hheld, hr]; rfl⟩
        | false => exact ⟨.dflt, _, by rw [step_w_eq hI]; simp [wstepSpec, hpc, hheld, hr, hq]; rfl⟩
    · intro l s1 hs
      rw [step_w_eq hI] at hs
      cases l <;> simp [wstepSpec, hpc, hheld] at hs
      · obtain ⟨_, rfl⟩ := hs
        cases hw : s.waiting <;> simp [finish, deliver, hw]
      · obtain ⟨_, rfl⟩ := hs; simp [finish]
      · obtain ⟨_, rfl⟩ := hs; simp [finish]

/-! ### Stop -/

theorem quit_enabled {c : Nat} {s : State α} (hI : Inv c s) (hq : s.quitClosed = true) (hpc : s.pc ≠ .exited) :
    ∃ s', step expectedTable s (.w .quit) = some s' ∧ s'.pc = .exited := by
  rw [step_w_eq hI]
  cases hp : s.pc with
  | exited => exact absurd hp hpc
  | top => cases hv : s.overflow <;> simp [wstepSpec, hp, hv, hq]
  | inner cs => cases hh : s.held <;> simp [wstepSpec, hp, hh, hq]

/-- After the worker has returned no clause can fire any more (true for every table). -/
theorem exited_dead (t : Table) {s : State α} (hpc : s.pc = .exited) (l : WLabel α) : step t s (.w l) = none := by
  simp [step, wstep, curCases, hpc]

theorem estep_pc {s s' : State α} {l : ELabel} (h : estep s l = some s') : s'.pc = s.pc := by
  cases l <;> simp [estep] at h
  · cases ho : s.out <;> simp [ho] at h; subst h; rfl
  · obtain ⟨_, rfl⟩ := h; rfl
  · obtain ⟨_, rfl⟩ := h; rfl
  · obtain ⟨_, rfl⟩ := h; rfl

/-- Number of worker steps still possible after `Stop()` when no producer offers anything. -/
def stopMeasure (s : State α) : Nat :=
  match s.pc with
  | .exited => 0
  | _ => 1 + (s.cap - s.out.length) + (if s.waiting then 1 else 0)

theorem stop_step_decreases {c : Nat} {s s' : State α} {l : WLabel α} (hI : Inv c s) (hq : s.quitClosed = true)
    (hl : Label.isWorkerNoRecv (.w l) = true) (h : step expectedTable s (.w l) = some s') :
    stopMeasure s' < stopMeasure s ∧ s'.quitClosed = true := by
  rw [step_w_eq hI] at h
  have hcap := hI.cap
  cases hp : s.pc with
  | exited => simp [wstepSpec, hp] at h
  | top =>
    cases hv : s.overflow with
    | nil =>
      cases l <;> simp [wstepSpec, hp, hv, Label.isWorkerNoRecv] at h hl
      obtain ⟨_, rfl⟩ := h
      simp [stopMeasure, hp, finish, hq]; omega
    | cons f r =>
      cases l <;> simp [wstepSpec, hp, hv, Label.isWorkerNoRecv] at h hl
      · obtain ⟨hr, rfl⟩ := h
        cases hw : s.waiting <;> simp [stopMeasure, hp, finish, deliver, hw, hq, sendReady] at hr ⊢
        omega
      · obtain ⟨_, rfl⟩ := h
        simp [stopMeasure, hp, finish, hq]; omega
  | inner cs =>
    cases hh : s.held with
    | none =>
      cases l <;> simp [wstepSpec, hp, hh, hq, Label.isWorkerNoRecv] at h hl
      subst h
      simp [stopMeasure, hp, finish, hq]; omega
    | some x =>
      cases l <;> simp [wstepSpec, hp, hh, hq, Label.isWorkerNoRecv] at h hl
      · obtain ⟨hr, rfl⟩ := h
        cases hw : s.waiting <;> simp [stopMeasure, hp, finish, deliver, hw, hq, sendReady] at hr ⊢
        omega
      · subst h
        simp [stopMeasure, hp, finish, hq]; omega

theorem stop_bound {c : Nat} : ∀ (tr : List (Label α)) (s s' : State α), Inv c s → s.quitClosed = true →
    (∀ l ∈ tr, Label.isWorkerNoRecv l = true) → run expectedTable s tr = some s' →
    tr.length + stopMeasure s' ≤ stopMeasure s
  | [], s, s', _, _, _, h => by simp [run] at h; subst h; simp
  | l :: ls, s, s', hI, hq, hl, h => by
    simp only [run] at h
    cases hs : step expectedTable s l with
    | none => simp [hs] at h
    | some s1 =>
      simp [hs] at h
      have hl0 := hl l (by simp)
      cases l with
      | e _ => simp [Label.isWorkerNoRecv] at hl0
      | w wl =>
        obtain ⟨hd, hq1⟩ := stop_step_decreases hI hq hl0 hs
        have := stop_bound ls s1 s' (inv_step hI hs) hq1 (fun l hl' => hl l (by simp [hl'])) h
        simp; omega

theorem stopMeasure_le {c : Nat} {s : State α} (hI : Inv c s) : stopMeasure s ≤ c + 2 := by
  have h1 := hI.capc
  unfold stopMeasure
  cases s.pc <;> cases s.waiting <;> simp <;> omega

/-! ### Direct hand-off -/

theorem sendItem_only_if_overflow_empty {c : Nat} {s s' : State α} (hI : Inv c s)
    (h : step expectedTable s (.w .sendItem) = some s') :
    s.overflow = [] ∧ (∃ x, s.held = some x ∧ (s'.delivered = s.delivered ++ [x] ∨ s'.out = s.out ++ [x])) := by
  rw [step_w_eq hI] at h
  cases hp : s.pc with
  | exited => simp [wstepSpec, hp] at h
  | top => cases hv : s.overflow <;> simp [wstepSpec, hp, hv] at h
  | inner cs =>
    obtain ⟨_, _, hov, _, _⟩ := hI.inner cs hp
    refine ⟨hov, ?_⟩
    cases hh : s.held with
    | none => simp [wstepSpec, hp, hh] at h
    | some x =>
      simp [wstepSpec, hp, hh] at h
      obtain ⟨_, rfl⟩ := h
      cases hw : s.waiting <;> simp [finish, deliver, hw]

/-! ### Definitions used in the statements of Props/C18 -/

/-- Does a clause (or its nested select) send `item` straight to `chanOut`? -/
def OCase.sendsItem (c : OCase) : Bool :=
  c.kind == .sendItem || c.body.any fun
    | .select cs => cs.any (·.kind == .sendItem)
    | .simple _ => false

/-- The mutant of DESIGN §11: the `nextElement != nil` branch also tries the direct hand-off. -/
def mutantDirectHandoff : Table :=
  { expectedTable with onNonEmpty :=
      [⟨.recvIn, [.select expectedInner]⟩, ⟨.sendFront, [.simple .removeFront]⟩, ⟨.quit, [.simple .ret]⟩] }

end Queue
