/-
C15, rescans on a RUNNING wallet (`Model/SyncTip.lean`: `resync`, `rescanInFlight`, `resyncN`):

* a backend reconnect — `chain.ClientConnected` again ⇒ `syncWithChain` again (rollback loop, recovery, rescan) with
  `chainClientSynced` left as it is;
* a rescan submitted by `ImportPrivateKey(…, rescan = true)`;

and block notifications that arrive while such a rescan is in flight (between the rescan request and its
`RescanFinished`).  Because the wallet stays chain-synced on both paths, the notifications of the window are handled as
at any other time, and `RescanFinished` itself changes nothing on a wallet that is in sync: a rescan in flight is
invisible to the tip tracking.  (With `SetChainSynced(false)` on either path — seeded changes C02-4 / C15-5 — every
`BlockDisconnected` of the window is dropped; see the counter-example in Props/C15.)
-/
import BtcwVerif.Lemmas.SyncTipCompose
import BtcwVerif.Lemmas.SyncTipNotify
namespace SyncTip

/-! ### Evolutions as notification lists -/

/-- The notifications a whole evolution induces. -/
def runNtfns (C : Content) : BlockId → List Step → List Ntfn
  | _, [] => []
  | tip, st :: rest => ntfnsOf C tip st ++ runNtfns C (stepTip tip st) rest

/-- The backend's tip after an evolution. -/
def runTip : BlockId → List Step → BlockId
  | tip, [] => tip
  | tip, st :: rest => runTip (stepTip tip st) rest

theorem evolve_eq (cfg : Cfg) (steps : List Step) : ∀ (w : Wallet) (tip : BlockId),
    evolve cfg (w, tip) steps = (process cfg w (runNtfns cfg.C tip steps), runTip tip steps) := by
  induction steps with
  | nil => intro w tip; rfl
  | cons st rest ih =>
    intro w tip
    simp only [evolve, runNtfns, runTip, process_append]
    exact ih _ _

theorem evolve_append (cfg : Cfg) (s1 s2 : List Step) : ∀ (w : Wallet) (tip : BlockId),
    evolve cfg (w, tip) (s1 ++ s2) = evolve cfg (evolve cfg (w, tip) s1) s2 := by
  induction s1 with
  | nil => intro w tip; rfl
  | cons st rest ih => intro w tip; simp only [List.cons_append, evolve]; exact ih _ _

theorem ValidRun.append {W : Nat} {tip : BlockId} {lo : Nat} {s1 : List Step} {tip1 : BlockId} {lo1 : Nat}
    {s2 : List Step} {tip2 : BlockId} {lo2 : Nat} (h1 : ValidRun W tip lo s1 tip1 lo1)
    (h2 : ValidRun W tip1 lo1 s2 tip2 lo2) : ValidRun W tip lo (s1 ++ s2) tip2 lo2 := by
  induction h1 with
  | nil _ _ => exact h2
  | cons hv _ ih => exact .cons hv (ih h2)

/-! ### `RescanFinished` on a wallet in sync -/

/-- `RescanFinished` changes nothing on a wallet that is in sync with the chain `tip` when the rescan does not report
    a height above the wallet's (`n ≤ |tip|`: `catchUpHashes` has nothing to do) or the backend's chain at that moment
    is not higher than the wallet's (`GetBlockHash(|tip| + 1)` fails, the catch-up transaction writes nothing). -/
theorem rescanFinished_noop {cfg : Cfg} {w : Wallet} {tip : BlockId} {lo : Nat} (hI : Inv cfg w tip lo)
    (now : BlockId) (n : Nat) (h : n ≤ tip.length ∨ now.length ≤ tip.length) :
    handle cfg w (.rescanFinished now n) = w := by
  have hs : w.syncedTo.height = tip.length := by rw [hI.tipEq]; rfl
  have hk : orKeep w (catchUpHashes cfg now w n) = w := by
    unfold catchUpHashes
    rw [hs]
    cases hc : n - tip.length with
    | zero => rfl
    | succ k =>
      have hn : now.length ≤ tip.length := by
        rcases h with h | h
        · omega
        · exact h
      have hg : getBlockHash now (tip.length + 1) = none := by
        unfold getBlockHash
        rw [if_neg (by omega)]
      simp only [catchUpFrom, hg, orKeep]
  show { orKeep w (catchUpHashes cfg now w n) with chainSynced := true } = w
  rw [hk]
  exact setSynced_of_synced w hI.synced

/-- **A rescan in flight is invisible.**  The wallet is in sync; the notifications of a valid evolution `s1` arrive
    before the backend reports the rescan finished, those of `s2` afterwards.  `RescanFinished` reports the height of
    `atCall`, `catchUpHashes` sees the backend's chain `now`; either the wallet is by then at least as high as the
    rescan's end (every evolution that does not end below the chain the rescan was requested for) or the backend is
    not higher than the wallet (in particular `now` = the wallet's chain).  The result is the evolution `s1 ++ s2`. -/
theorem rescanInFlight_follows (cfg : Cfg) (hW : 1 ≤ cfg.W) {w : Wallet} {tip : BlockId} {lo : Nat} {s1 : List Step}
    {tip1 : BlockId} {lo1 : Nat} (hI : Inv cfg w tip lo) (h1 : ValidRun cfg.W tip lo s1 tip1 lo1)
    (atCall now : BlockId) (hnow : atCall.length ≤ tip1.length ∨ now.length ≤ tip1.length) (s2 : List Step) :
    rescanInFlight cfg w atCall now (runNtfns cfg.C tip s1) (runNtfns cfg.C tip1 s2)
      = (evolve cfg (w, tip) (s1 ++ s2)).1 := by
  obtain ⟨hI1, ht1⟩ := run_preserves_inv cfg hW hI h1
  rw [evolve_append]
  rw [evolve_eq cfg s1 w tip] at hI1 ht1 ⊢
  simp only at hI1 ht1
  rw [ht1, evolve_eq cfg s2]
  simp only [rescanInFlight, process_append]
  have : process cfg (process cfg w (runNtfns cfg.C tip s1)) [.rescanFinished now atCall.length]
      = process cfg w (runNtfns cfg.C tip s1) := rescanFinished_noop hI1 now atCall.length hnow
  rw [this]

/-! ### `syncWithChain` again on a wallet that is in sync (reconnect, nothing missed) -/

theorem startupRollback_inSync {cfg : Cfg} {w : Wallet} {tip : BlockId} {lo : Nat} (hI : Inv cfg w tip lo) :
    startupRollback cfg w tip = .ok w := by
  have hs : w.syncedTo.height = tip.length := by rw [hI.tipEq]; rfl
  have hh : w.hashes tip.length = some (some (ancestorAt tip tip.length)) :=
    hI.remembered tip.length hI.lo_le (Nat.le_refl _)
  have hg : getBlockHash tip tip.length = some (ancestorAt tip tip.length) := by
    unfold getBlockHash; rw [if_pos (Nat.le_refl _)]
  unfold startupRollback
  rw [hs]
  cases hl : tip.length with
  | zero =>
    rw [hl] at hh hg
    simp only [rollbackLoop, hh, hg, if_true]
  | succ k =>
    rw [hl] at hh hg
    simp only [rollbackLoop, hh, hg, if_true]

/-- A reconnect of a wallet that is in sync with the backend's chain: the rollback loop finds the tip itself,
    recovery has no block to scan, the rescan from the tip reports nothing — the wallet is unchanged. -/
theorem resync_inSync {cfg : Cfg} {w : Wallet} {tip : BlockId} {lo : Nat} (hI : Inv cfg w tip lo) (recW batch : Nat) :
    resync cfg recW batch w tip = (w, true) := by
  have hs : w.syncedTo.height = tip.length := by rw [hI.tipEq]; rfl
  have hrec : recoveryRun cfg batch tip (tip.length + 1) w = (w, true) := by
    simp only [recoveryRun, hs, if_pos (Nat.lt_succ_self _)]
  have hres : process cfg w (rescanTxNtfns cfg.C tip w.syncedTo.height) = w := by
    rw [hs]
    simp only [rescanTxNtfns, Nat.sub_self, blocksFrom, List.map_nil, List.flatten_nil]
    rfl
  unfold resync
  rw [startupRollback_inSync hI]
  by_cases hr : recW > 0
  · simp only [if_pos hr, hrec, hres]
    rfl
  · simp only [if_neg hr, hres]
    rfl

/-! ### `syncWithChain` again after missed blocks (reconnect after an outage) -/

/-- **Total outcome of a reconnect**, for a wallet that was in sync with `old` when the connection went down and ANY
    backend chain `tip` now: the rollback transaction fails and nothing is written (the handler keeps retrying), or
    `syncWithChain` gets to its rescan and — nothing else arriving meanwhile — `RescanFinished` leaves the wallet in
    sync with `tip`.  Same ghost as for a restart (`startupLo`). -/
theorem resync_total (cfg : Cfg) (hW : 1 ≤ cfg.W) {w : Wallet} {old : BlockId} {lo : Nat}
    (hI : Inv cfg w old lo) (tip : BlockId) (recW batch : Nat) :
    ((∃ e, startupRollback cfg w tip = .error e) ∧ resync cfg recW batch w tip = (w, false)) ∨
    (∃ w1 c, resync cfg recW batch w tip = (w1, true) ∧ IsLastCommon old tip c ∧ old.length ≤ tip.length ∧
      Inv cfg (handle cfg w1 (.rescanFinished tip tip.length)) tip (startupLo cfg.W lo c tip.length)) := by
  have hS := hI.stopped
  rcases startup_rolls_to_common_ex cfg hS tip with ⟨e, he⟩ | ⟨w1, c, he, hcm, r1, _, _, r4, r5, r6, r7, r8, r9, r10⟩
  · left
    refine ⟨⟨e, he⟩, ?_⟩
    simp only [resync, he]
  · right
    have hc : c ≤ tip.length := hcm.2.1
    have hco : c ≤ old.length := hcm.1
    have hlenc : (ancestorAt tip c).length = c := ancestorAt_length tip c hc
    have hI1 : CatchInv cfg w1 (ancestorAt tip c) (min lo c) := by
      refine ⟨by rw [r8]; exact hS.bday, r1, by rw [hlenc]; omega, ?_, ?_, ?_⟩
      · rw [hlenc]
        have := hS.window
        have := hS.lo_le
        omega
      · intro h h1 h2
        rw [hlenc] at h2
        rw [ancestorAt_ancestorAt tip c h h2 hc]
        by_cases hl : lo ≤ h
        · exact r5 h hl h2
        · have : h = c := by omega
          subst this; exact r7
      · intro h x h1 hx
        rw [hlenc] at h1
        rw [ancestorAt_ancestorAt tip c h h1 hc]
        exact r4 h x h1 hx
    have hs1 : w1.syncedTo.height = c := by rw [r1]; simp [stampOf, hlenc]
    have hfold : ∀ (w2 : Wallet) (k : Nat),
        handle cfg (process cfg w2 (rescanTxNtfns cfg.C tip k)) (.rescanFinished tip tip.length)
          = process cfg w2 (rescanTxNtfns cfg.C tip k ++ [] ++ [.rescanFinished tip tip.length]) := by
      intro w2 k
      simp only [List.append_nil, process_append]
      rfl
    by_cases hr : recW > 0
    · obtain ⟨w2, g1, g2, g3, _⟩ := recoveryRun_ok cfg hW batch tip (tip.length + 1) w1 c _ hI1 r6 hc (by omega)
      have hs2 : w2.syncedTo.height = tip.length := by rw [g2.tipEq]; rfl
      have hI2 : CatchInv cfg w2 (ancestorAt tip tip.length) (loAfterN cfg.W (min lo c) c (tip.length - c)) := by
        rw [ancestorAt_self]; exact g2
      have hfin := rescan_finish cfg hW tip w2 tip.length _ hI2 g3 (Nat.le_refl _)
      simp only [Nat.sub_self, loAfterN] at hfin
      refine ⟨process cfg w2 (rescanTxNtfns cfg.C tip tip.length), c, ?_, hcm, r10, ?_⟩
      · simp only [resync, he, if_pos hr, g1, hs2]
        rfl
      · rw [hfold]; exact hfin
    · have hfin := rescan_finish cfg hW tip w1 c _ hI1 r6 hc
      refine ⟨process cfg w1 (rescanTxNtfns cfg.C tip c), c, ?_, hcm, r10, ?_⟩
      · simp only [resync, he, if_neg hr, hs1]
        rfl
      · rw [hfold]; exact hfin

/-! ### The N-version projects onto the plain model -/

theorem resyncN_proj (cfg : Cfg) (recW batch : Nat) (p : Wallet × NSrv) (tip : BlockId) :
    ((resyncN cfg recW batch p tip).1.1, (resyncN cfg recW batch p tip).2) = resync cfg recW batch p.1 tip := by
  simp only [resyncN, resync]
  cases startupRollback cfg p.1 tip with
  | error _ => rfl
  | ok w1 =>
    simp only []
    by_cases hr : recW > 0
    · simp only [if_pos hr]
      have e := recoveryRunN_proj cfg batch tip (tip.length + 1) (w1, p.2)
      generalize recoveryRunN cfg batch tip (tip.length + 1) (w1, p.2) = r at e
      obtain ⟨⟨r1, r2⟩, ok⟩ := r
      simp only at e
      rw [← e]
      cases ok with
      | false => rfl
      | true => simp [processN_fst]
    · simp [if_neg hr, processN_fst]

/-- `startupDuring` is `resync` on the freshly opened (not yet chain-synced) wallet followed by the notifications of
    the window and `RescanFinished`. -/
theorem startupDuring_eq_resync (cfg : Cfg) (recW batch : Nat) (w : Wallet) (tip : BlockId) (during : List Ntfn) :
    startupDuring cfg recW batch w tip during =
      (if (resync cfg recW batch { w with chainSynced := false } tip).2
       then process cfg (resync cfg recW batch { w with chainSynced := false } tip).1
              (during ++ [.rescanFinished tip tip.length])
       else (resync cfg recW batch { w with chainSynced := false } tip).1,
       (resync cfg recW batch { w with chainSynced := false } tip).2) := by
  cases h : startupRollback cfg { w with chainSynced := false } tip with
  | error e => simp only [startupDuring, resync, h]; rfl
  | ok w1 =>
    by_cases hr : recW > 0
    · cases hrr : recoveryRun cfg batch tip (tip.length + 1) w1 with
      | mk r1 ok =>
        cases ok with
        | false => simp only [startupDuring, resync, h, if_pos hr, hrr]; rfl
        | true => simp [startupDuring, resync, h, if_pos hr, hrr, process_append]
    · simp [startupDuring, resync, h, if_neg hr, process_append]

end SyncTip
