import BtcwVerif.Lemmas.SortedStore
import BtcwVerif.Lemmas.RefRange
import BtcwVerif.Lemmas.RefFacts
/-!
# Observables of a good pair whose buckets are in key order: EXACT answers (order included)

`details_refines`, `range_refines`, `utxos_refines` (Lemmas/RefDetails.lean, RefRange.lean, RefUtxos.lean) compare
the record lists up to order.  With `SortedS s` (every bucket ascending in bbolt key order, Lemmas/SortedStore.lean) the
order is determined:
* `TxDetails`: credit records in ascending output index, debit records in ascending input index = the ledger's
  `detailsOf` as LISTS (`details_refines_exact`: `txDetails s h = .ok (Ledger.details L h)`);
* `RangeTransactions`: block batches equal the ledger's (delivery order); the unconfirmed batch is the pool in ascending
  hash order (`range_refines_exact`);
* `UnspentOutputs`: the confirmed outputs in ascending outpoint order, then the unconfirmed ones in ascending outpoint
  order (`utxos_refines_exact`).
-/
namespace TxStore
open KMap Ledger

/-! ### generic: what `mapM` keeps of the order -/

theorem bind_eq_ok {α β : Type} {x : M α} {f : α → M β} {b : β} (h : (x >>= f) = .ok b) :
    ∃ a, x = .ok a ∧ f a = .ok b := by
  cases x with
  | error e => cases h
  | ok a => exact ⟨a, rfl, h⟩

theorem mapM_map_eq {α β γ : Type} (f : α → M β) (g : β → γ) (h : α → γ) : ∀ (l : List α) (r : List β),
    l.mapM f = .ok r → (∀ a ∈ l, ∀ b, f a = .ok b → g b = h a) → r.map g = l.map h := by
  intro l
  induction l with
  | nil => intro r hm _; simp [List.mapM_nil, pure, Except.pure] at hm; subst hm; rfl
  | cons a t ih =>
    intro r hm hf
    rw [List.mapM_cons] at hm
    cases ha : f a with
    | error x => rw [ha] at hm; cases hm
    | ok b =>
      rw [ha] at hm
      cases ht : t.mapM f with
      | error x => rw [ht] at hm; cases hm
      | ok bs =>
        rw [ht] at hm
        simp only [bind, Except.bind, pure, Except.pure, Except.ok.injEq] at hm
        subst hm
        rw [List.map_cons, List.map_cons, hf a List.mem_cons_self b ha,
          ih bs ht (fun x hx => hf x (List.mem_cons_of_mem _ hx))]

theorem mapM_filterMap_sublist {α β γ : Type} (f : α → M (Option β)) (g : β → γ) (h : α → γ) :
    ∀ (l : List α) (r : List (Option β)), l.mapM f = .ok r → (∀ a ∈ l, ∀ b, f a = .ok (some b) → g b = h a) →
      ((r.filterMap id).map g).Sublist (l.map h) := by
  intro l
  induction l with
  | nil => intro r hm _; simp [List.mapM_nil, pure, Except.pure] at hm; subst hm; exact List.Sublist.slnil
  | cons a t ih =>
    intro r hm hf
    rw [List.mapM_cons] at hm
    cases ha : f a with
    | error x => rw [ha] at hm; cases hm
    | ok b =>
      rw [ha] at hm
      cases ht : t.mapM f with
      | error x => rw [ht] at hm; cases hm
      | ok bs =>
        rw [ht] at hm
        simp only [bind, Except.bind, pure, Except.pure, Except.ok.injEq] at hm
        subst hm
        have iht := ih bs ht (fun x hx => hf x (List.mem_cons_of_mem _ hx))
        cases b with
        | none =>
          simp only [List.filterMap_cons, id, List.map_cons]
          exact List.Sublist.cons _ iht
        | some x =>
          simp only [List.filterMap_cons, id, List.map_cons]
          rw [hf a List.mem_cons_self x ha]
          exact List.Sublist.cons_cons _ iht

/-! ### index order of the ledger's records -/

theorem withIdx_fst_sorted {α : Type} : ∀ (l : List α) (n : Nat), ((withIdx l n).map (·.1)).Pairwise (· < ·) := by
  intro l
  induction l with
  | nil => intro n; simp [withIdx]
  | cons a t ih =>
    intro n
    simp only [withIdx, List.map_cons, List.pairwise_cons]
    refine ⟨?_, ih (n + 1)⟩
    intro x hx
    have := (withIdx_map_fst t (n + 1) x).mp hx
    omega

theorem withIdx_filterMap_index_sorted {α β : Type} (F : Nat × α → Option β) (idx : β → Nat)
    (hidx : ∀ p b, F p = some b → idx b = p.1) (l : List α) :
    (((withIdx l).filterMap F).map idx).Pairwise (· < ·) := by
  rw [List.pairwise_map, List.pairwise_filterMap]
  have hnd := withIdx_fst_sorted l 0
  rw [List.pairwise_map] at hnd
  refine hnd.imp ?_
  intro a a' hlt b hb b' hb'
  rw [hidx a b hb, hidx a' b' hb']
  exact hlt

theorem detailsOf_credits_sorted (L : Ledger) (t : Tx) (ob : Option BlockMeta) :
    ((detailsOf L t ob).credits.map (·.index)).Pairwise (· < ·) := by
  unfold detailsOf
  apply withIdx_filterMap_index_sorted
  rintro ⟨i, v⟩ b hb
  simp only at hb
  cases hl : lookup L.credit ⟨t.hash, i⟩ with
  | none => rw [hl] at hb; cases hb
  | some chg => rw [hl] at hb; cases hb; rfl

theorem detailsOf_debits_sorted (L : Ledger) (t : Tx) (ob : Option BlockMeta) :
    ((detailsOf L t ob).debits.map (·.index)).Pairwise (· < ·) := by
  unfold detailsOf
  apply withIdx_filterMap_index_sorted
  rintro ⟨j, inp⟩ b hb
  simp only at hb
  cases hcv : creditValue L inp with
  | none => rw [hcv] at hb; cases hb
  | some v => rw [hcv] at hb; cases hb; rfl

/-! ### index order of the store's records -/

/-- the credits (debits) of one tx record, read from a bucket in key order, come in ascending index -/
theorem sorted_indices_of_same_txkey {ν : Type} (m : KMap CredKey ν) (hs : Sorted m) (k : TxKey) :
    ((m.filter fun p => decide (p.1.hash = k.hash ∧ p.1.block = k.block)).map (·.1.index)).Pairwise (· < ·) := by
  rw [List.pairwise_map]
  have hf := hs.filter (fun p : CredKey × ν => decide (p.1.hash = k.hash ∧ p.1.block = k.block))
  refine hf.imp_of_mem ?_
  intro a b ha hb hab
  have h1 := (List.mem_filter.mp ha).2
  have h2 := (List.mem_filter.mp hb).2
  simp only [decide_eq_true_eq] at h1 h2
  rw [CredKey.lt_iff] at hab
  have hirr := LawfulKOrd.irrefl b.1.block
  simp only [KOrd.lt] at hirr
  rcases hab with h | ⟨_, h | ⟨_, h⟩⟩
  · rw [h1.1, h2.1] at h; omega
  · rw [h1.2, ← h2.2, hirr] at h; cases h
  · exact h

/-- the unconfirmed credits of one transaction, read from a bucket in key order, come in ascending index -/
theorem sorted_indices_of_same_hash {ν : Type} (m : KMap OutPoint ν) (hs : Sorted m) (h : Nat) :
    ((m.filter fun p => decide (p.1.hash = h)).map (·.1.index)).Pairwise (· < ·) := by
  rw [List.pairwise_map]
  have hf := hs.filter (fun p : OutPoint × ν => decide (p.1.hash = h))
  refine hf.imp_of_mem ?_
  intro a b ha hb hab
  have h1 := (List.mem_filter.mp ha).2
  have h2 := (List.mem_filter.mp hb).2
  simp only [decide_eq_true_eq] at h1 h2
  simp only [KOrd.lt, decide_eq_true_eq] at hab
  omega

theorem minedTxDetails_sorted {s : Store} (hs : SortedS s) {k : TxKey} {rec : Tx} {d : Details}
    (h : minedTxDetails s k rec = .ok d) :
    (d.credits.map (·.index)).Pairwise (· < ·) ∧ (d.debits.map (·.index)).Pairwise (· < ·) := by
  unfold minedTxDetails at h
  cases hb : s.blocks.find? k.block.height with
  | none => simp [hb] at h
  | some br =>
    simp only [hb, pure_eq, bind_ok] at h
    obtain ⟨cs, hc, h⟩ := bind_eq_ok h
    obtain ⟨ds, hd, h⟩ := bind_eq_ok h
    · · simp only [Except.ok.injEq] at h
        subst h
        constructor
        · show (cs.map (·.index)).Pairwise (· < ·)
          rw [mapM_map_eq _ (·.index) (·.1.index) _ _ hc (by
            rintro ⟨ck, cv⟩ _ b hb'
            simp only at hb'
            split at hb'
            · cases hb'
            · simp only [pure_eq, Except.ok.injEq] at hb'; subst hb'; rfl)]
          exact sorted_indices_of_same_txkey _ hs.credits k
        · show (ds.map (·.index)).Pairwise (· < ·)
          rw [mapM_map_eq _ (·.index) (·.1.index) _ _ hd (by
            rintro ⟨dk, dv⟩ _ b hb'
            simp only at hb'
            split at hb'
            · cases hb'
            · simp only [pure_eq, Except.ok.injEq] at hb'; subst hb'; rfl)]
          exact sorted_indices_of_same_txkey _ hs.debits k

theorem unminedDebit_index {s : Store} {i : Nat} {inp : OutPoint} {x : DebitRecord}
    (h : unminedDebit s i inp = .ok (some x)) : x.index = i := by
  unfold unminedDebit at h
  split at h
  · split at h
    · cases h
    · simp only [pure_eq, Except.ok.injEq, Option.some.injEq] at h; subst h; rfl
  · split at h
    · cases h
    · simp only [pure_eq, Except.ok.injEq, Option.some.injEq] at h; subst h; rfl

theorem unminedTxDetails_sorted {s : Store} (hs : SortedS s) {h : Nat} {rec : Tx} {d : Details}
    (hd : unminedTxDetails s h rec = .ok d) :
    (d.credits.map (·.index)).Pairwise (· < ·) ∧ (d.debits.map (·.index)).Pairwise (· < ·) := by
  unfold unminedTxDetails at hd
  obtain ⟨cs, hc, hd⟩ := bind_eq_ok hd
  obtain ⟨ds, hdb, hd⟩ := bind_eq_ok hd
  · · simp only [pure_eq, Except.ok.injEq] at hd
      subst hd
      constructor
      · show (cs.map (·.index)).Pairwise (· < ·)
        rw [mapM_map_eq _ (·.index) (·.1.index) _ _ hc (by
          rintro ⟨op, uc⟩ _ b hb'
          simp only at hb'
          split at hb'
          · cases hb'
          · simp only [pure_eq, Except.ok.injEq] at hb'; subst hb'; rfl)]
        exact sorted_indices_of_same_hash _ hs.unminedCredits h
      · show ((ds.filterMap id).map (·.index)).Pairwise (· < ·)
        have hsub := mapM_filterMap_sublist _ (fun x : DebitRecord => x.index) (fun p : Nat × OutPoint => p.1) _ _ hdb (by
          rintro ⟨i, inp⟩ _ b hb'
          exact unminedDebit_index hb')
        exact List.Pairwise.sublist hsub (withIdx_fst_sorted rec.ins 0)

/-! ### equivalent records in index order are equal -/

theorem detEquiv_eq {d d' : Details} (he : DetEquiv d d')
    (hc : (d.credits.map (·.index)).Pairwise (· < ·)) (hc' : (d'.credits.map (·.index)).Pairwise (· < ·))
    (hd : (d.debits.map (·.index)).Pairwise (· < ·)) (hd' : (d'.debits.map (·.index)).Pairwise (· < ·)) : d = d' := by
  rw [List.pairwise_map] at hc hc' hd hd'
  have e1 : d.credits = d'.credits :=
    eq_of_sorted_of_mem_iff (fun a b : CreditRecord => a.index < b.index) (fun a => Nat.lt_irrefl _)
      (fun a b h1 h2 => absurd h1 (Nat.lt_asymm h2)) hc hc' he.credits
  have e2 : d.debits = d'.debits :=
    eq_of_sorted_of_mem_iff (fun a b : DebitRecord => a.index < b.index) (fun a => Nat.lt_irrefl _)
      (fun a b h1 h2 => absurd h1 (Nat.lt_asymm h2)) hd hd' he.debits
  obtain ⟨t, b, c, x⟩ := d
  obtain ⟨t', b', c', x'⟩ := d'
  have e3 := he.tx
  have e4 := he.block
  simp only at e1 e2 e3 e4
  rw [e1, e2, e3, e4]

/-! ### `TxDetails`, exactly -/

theorem details_mined_exact {s : Store} {L : Ledger} (hg : Good s L) (hs : SortedS s) {t : Tx} {b : BlockMeta}
    (ht : (t, b) ∈ chainTxs L) : minedTxDetails s ⟨t.hash, b.block⟩ t = .ok (detailsOf L t (some b)) := by
  obtain ⟨d, hd, he⟩ := details_mined hg ht
  obtain ⟨s1, s2⟩ := minedTxDetails_sorted hs hd
  rw [hd, detEquiv_eq he s1 (detailsOf_credits_sorted _ _ _) s2 (detailsOf_debits_sorted _ _ _)]

theorem details_unmined_exact {s : Store} {L : Ledger} (hg : Good s L) (hn : NoConflict L) (hs : SortedS s) {t : Tx}
    (ht : t ∈ L.pool) : unminedTxDetails s t.hash t = .ok (detailsOf L t none) := by
  obtain ⟨d, hd, he⟩ := details_unmined hg hn ht
  obtain ⟨s1, s2⟩ := unminedTxDetails_sorted hs hd
  rw [hd, detEquiv_eq he s1 (detailsOf_credits_sorted _ _ _) s2 (detailsOf_debits_sorted _ _ _)]

/-- **`TxDetails` IS the ledger's record**, order of the credit and debit records included: credits in ascending output
index, debits in ascending input index -/
theorem details_refines_exact {s : Store} {L : Ledger} (hg : Good s L) (hn : NoConflict L) (hs : SortedS s) (h : Nat) :
    txDetails s h = .ok (Ledger.details L h) := by
  obtain ⟨o, ho, hag⟩ := details_refines hg hn h
  rw [ho]
  by_cases hk : ∃ p ∈ known L, p.1.hash = h
  · obtain ⟨⟨t, ob⟩, hp, rfl⟩ := hk
    rw [details_known hg.lwf hp] at hag ⊢
    cases o with
    | none => exact absurd hag (by simp [DetailsAgree])
    | some d =>
      have hd : DetEquiv d (detailsOf L t ob) := hag
      -- the order of the store's records
      have hsd : (d.credits.map (·.index)).Pairwise (· < ·) ∧ (d.debits.map (·.index)).Pairwise (· < ·) := by
        unfold txDetails at ho
        split at ho
        · rename_i rec _
          cases hu : unminedTxDetails s t.hash rec with
          | error x => rw [hu] at ho; cases ho
          | ok d1 =>
            rw [hu, bind_ok] at ho
            simp only [pure_eq, Except.ok.injEq, Option.some.injEq] at ho
            subst ho
            exact unminedTxDetails_sorted hs hu
        · split at ho
          · simp only [pure_eq, Except.ok.injEq, reduceCtorEq] at ho
          · rename_i k rec _
            cases hu : minedTxDetails s k rec with
            | error x => rw [hu] at ho; cases ho
            | ok d1 =>
              rw [hu, bind_ok] at ho
              simp only [pure_eq, Except.ok.injEq, Option.some.injEq] at ho
              subst ho
              exact minedTxDetails_sorted hs hu
      rw [detEquiv_eq hd hsd.1 (detailsOf_credits_sorted _ _ _) hsd.2 (detailsOf_debits_sorted _ _ _)]
  · have hk' : ∀ p ∈ known L, p.1.hash ≠ h := fun p hp e => hk ⟨p, hp, e⟩
    rw [details_unknown hk'] at hag ⊢
    cases o with
    | none => rfl
    | some d => exact absurd hag (by simp [DetailsAgree])

/-! ### `UnspentOutputs`, exactly -/

/-- bbolt order of two `canonicalOutPoint` keys: hash (as a big-endian number), then output index -/
def OutPoint.before (a b : OutPoint) : Prop := a.hash < b.hash ∨ (a.hash = b.hash ∧ a.index < b.index)

theorem outPoint_lt_iff (a b : OutPoint) : KOrd.lt a b = true ↔ OutPoint.before a b := by
  simp [KOrd.lt, OutPoint.before]

theorem mapM_filterMap_forall {α β : Type} (f : α → M (Option β)) (P : β → Prop) :
    ∀ (l : List α) (r : List (Option β)), l.mapM f = .ok r → (∀ a ∈ l, ∀ b, f a = .ok (some b) → P b) →
      ∀ c ∈ r.filterMap id, P c := by
  intro l
  induction l with
  | nil => intro r hm _ c hc; simp [List.mapM_nil, pure, Except.pure] at hm; subst hm; cases hc
  | cons a t ih =>
    intro r hm hf c hc
    rw [List.mapM_cons] at hm
    cases ha : f a with
    | error x => rw [ha] at hm; cases hm
    | ok b =>
      rw [ha] at hm
      cases ht : t.mapM f with
      | error x => rw [ht] at hm; cases hm
      | ok bs =>
        rw [ht] at hm
        simp only [bind, Except.bind, pure, Except.pure, Except.ok.injEq] at hm
        subst hm
        have iht := ih bs ht (fun x hx => hf x (List.mem_cons_of_mem _ hx))
        cases b with
        | none =>
          simp only [List.filterMap_cons, id] at hc
          exact iht c hc
        | some x =>
          simp only [List.filterMap_cons, id, List.mem_cons] at hc
          rcases hc with rfl | hc
          · exact hf a List.mem_cons_self _ ha
          · exact iht c hc

theorem fetchMinedCredit_some {s : Store} {now : Nat} {il isp : Bool} {e : OutPoint × Block} {c : Credit}
    (h : fetchMinedCredit s now il isp true e = .ok (some c)) : c.op = e.1 ∧ c.block.isSome = true := by
  obtain ⟨op, blk⟩ := e
  unfold fetchMinedCredit at h
  simp only [pure_eq, throw_eq] at h
  split at h
  · simp at h
  · split at h
    · simp at h
    · split at h
      · simp at h
      · split at h
        · simp at h
        · simp only [if_true] at h
          split at h
          · simp at h
          · simp only [Except.ok.injEq, Option.some.injEq] at h
            subst h; exact ⟨rfl, rfl⟩

theorem fetchUnminedCredit_some {s : Store} {now : Nat} {il isp : Bool} {e : OutPoint × UCredit} {c : Credit}
    (h : fetchUnminedCredit s now il isp true e = .ok (some c)) : c.op = e.1 ∧ c.block = none := by
  obtain ⟨op, uc⟩ := e
  unfold fetchUnminedCredit at h
  simp only [pure_eq, throw_eq] at h
  split at h
  · simp at h
  · split at h
    · simp at h
    · split at h
      · simp at h
      · split at h
        · simp at h
        · simp only [if_true, Except.ok.injEq, Option.some.injEq] at h
          subst h; exact ⟨rfl, rfl⟩

/-- the shape of a `fetchCredits` answer (any store): the entries of the unspent index in cursor order, then those of the
unconfirmed-credits bucket in cursor order (some skipped) -/
theorem fetchCredits_shape {s : Store} {now : Nat} {il isp : Bool} {l : List Credit}
    (h : fetchCredits s now il isp true = .ok l) :
    ∃ a b, l = a ++ b ∧ (a.map (·.op)).Sublist (s.unspent.map (·.1)) ∧
      (b.map (·.op)).Sublist (s.unminedCredits.map (·.1)) ∧
      (∀ c ∈ a, c.block.isSome = true) ∧ (∀ c ∈ b, c.block = none) := by
  unfold fetchCredits at h
  obtain ⟨ra, ha, h⟩ := bind_eq_ok h
  obtain ⟨rb, hb, h⟩ := bind_eq_ok h
  simp only [pure_eq, Except.ok.injEq] at h
  subst h
  refine ⟨ra.filterMap id, rb.filterMap id, rfl, ?_, ?_, ?_, ?_⟩
  · exact mapM_filterMap_sublist _ (fun c : Credit => c.op) (fun e : OutPoint × Block => e.1) _ _ ha
      (fun e _ c hc => (fetchMinedCredit_some hc).1)
  · exact mapM_filterMap_sublist _ (fun c : Credit => c.op) (fun e : OutPoint × UCredit => e.1) _ _ hb
      (fun e _ c hc => (fetchUnminedCredit_some hc).1)
  · exact mapM_filterMap_forall _ (fun c : Credit => c.block.isSome = true) _ _ ha
      (fun e _ c hc => (fetchMinedCredit_some hc).2)
  · exact mapM_filterMap_forall _ (fun c : Credit => c.block = none) _ _ hb
      (fun e _ c hc => (fetchUnminedCredit_some hc).2)

theorem sorted_keys_before {ν : Type} (m : KMap OutPoint ν) (hs : Sorted m) :
    (m.map (·.1)).Pairwise OutPoint.before := by
  rw [List.pairwise_map]
  exact hs.imp (fun h => (outPoint_lt_iff _ _).mp h)

/-- **`UnspentOutputs` = the ledger's spendable outputs, in cursor order**: first the confirmed ones in ascending
outpoint order, then the unconfirmed ones in ascending outpoint order — which, with the permutation, determines the
list -/
theorem utxos_refines_exact {s : Store} {L : Ledger} (hg : Good s L) (hs : SortedS s) :
    ∃ a b, unspentOutputs s L.now = .ok (a ++ b) ∧ (a ++ b).Perm (utxos L) ∧
      (∀ c ∈ a, c.block.isSome = true) ∧ (∀ c ∈ b, c.block = none) ∧
      (a.map (·.op)).Pairwise OutPoint.before ∧ (b.map (·.op)).Pairwise OutPoint.before := by
  obtain ⟨l, h1, h2⟩ := utxos_refines hg
  obtain ⟨a, b, rfl, ha, hb, hab, hbb⟩ := fetchCredits_shape (by unfold unspentOutputs at h1; exact h1)
  exact ⟨a, b, h1, h2, hab, hbb, (sorted_keys_before _ hs.unspent).sublist ha,
    (sorted_keys_before _ hs.unminedCredits).sublist hb⟩

theorem fetchMinedCredit_op {s : Store} {now : Nat} {il isp full : Bool} {e : OutPoint × Block} {c : Credit}
    (h : fetchMinedCredit s now il isp full e = .ok (some c)) : c.op = e.1 := by
  obtain ⟨op, blk⟩ := e
  unfold fetchMinedCredit at h
  simp only [pure_eq, throw_eq] at h
  split at h
  · simp at h
  · split at h
    · simp at h
    · split at h
      · simp at h
      · split at h
        · simp at h
        · split at h
          · split at h
            · simp at h
            · simp only [Except.ok.injEq, Option.some.injEq] at h
              subst h; rfl
          · simp only [Except.ok.injEq, Option.some.injEq] at h
            subst h; rfl

theorem fetchUnminedCredit_op {s : Store} {now : Nat} {il isp full : Bool} {e : OutPoint × UCredit} {c : Credit}
    (h : fetchUnminedCredit s now il isp full e = .ok (some c)) : c.op = e.1 := by
  obtain ⟨op, uc⟩ := e
  unfold fetchUnminedCredit at h
  simp only [pure_eq, throw_eq] at h
  split at h
  · simp at h
  · split at h
    · simp at h
    · split at h
      · simp at h
      · split at h
        · simp at h
        · split at h
          · simp only [Except.ok.injEq, Option.some.injEq] at h
            subst h; rfl
          · simp only [Except.ok.injEq, Option.some.injEq] at h
            subst h; rfl

/-- the outpoints of a `fetchCredits` answer, whatever the flags: cursor order of the two buckets -/
theorem fetchCredits_ops {s : Store} {now : Nat} {il isp full : Bool} {l : List Credit}
    (h : fetchCredits s now il isp full = .ok l) :
    ∃ a b, l = a ++ b ∧ (a.map (·.op)).Sublist (s.unspent.map (·.1)) ∧
      (b.map (·.op)).Sublist (s.unminedCredits.map (·.1)) := by
  unfold fetchCredits at h
  obtain ⟨ra, ha, h⟩ := bind_eq_ok h
  obtain ⟨rb, hb, h⟩ := bind_eq_ok h
  simp only [pure_eq, Except.ok.injEq] at h
  subst h
  refine ⟨ra.filterMap id, rb.filterMap id, rfl, ?_, ?_⟩
  · exact mapM_filterMap_sublist _ (fun c : Credit => c.op) (fun e : OutPoint × Block => e.1) _ _ ha
      (fun e _ c hc => fetchMinedCredit_op hc)
  · exact mapM_filterMap_sublist _ (fun c : Credit => c.op) (fun e : OutPoint × UCredit => e.1) _ _ hb
      (fun e _ c hc => fetchUnminedCredit_op hc)

/-- the unspent index holds outputs of confirmed transactions -/
theorem unspent_key_inChain {s : Store} {L : Ledger} (hg : Good s L) {op : OutPoint} (h : op ∈ s.unspent.map (·.1)) :
    inChain L op.hash = true := by
  obtain ⟨⟨op', blk⟩, he, rfl⟩ := List.mem_map.mp h
  have := (unspent_perm hg).mem_iff.mp he
  unfold expUnspent at this
  simp only [List.mem_filterMap] at this
  obtain ⟨⟨k, cv⟩, hm, he'⟩ := this
  simp only at he'
  split at he'
  · cases he'
  · simp only [Option.some.injEq, Prod.mk.injEq] at he'
    obtain ⟨rfl, _⟩ := he'
    obtain ⟨t, b, ht, e1, _⟩ := mem_expCredits.mp hm
    exact inChain_iff.mpr ⟨(t, b), ht, e1.symm⟩

/-- the unconfirmed-credits bucket holds outputs of unconfirmed transactions -/
theorem ucredit_key_inPool {s : Store} {L : Ledger} (hg : Good s L) {op : OutPoint}
    (h : op ∈ s.unminedCredits.map (·.1)) : inPool L op.hash = true := by
  obtain ⟨⟨op', uc⟩, he, rfl⟩ := List.mem_map.mp h
  have := (unminedCredits_perm hg).mem_iff.mp he
  obtain ⟨t, ht, e1, _⟩ := mem_expUnminedCredits.mp this
  exact inPool_iff.mpr ⟨t, ht, e1.symm⟩

/-- **`OutputsToWatch` = the ledger's watch set, in cursor order** (only the outpoints are meaningful): first the
outputs of confirmed transactions in ascending outpoint order, then those of unconfirmed transactions in ascending
outpoint order -/
theorem watch_refines_exact {s : Store} {L : Ledger} (hg : Good s L) (hs : SortedS s) (now : Nat) :
    ∃ a b, outputsToWatch s now = .ok (a ++ b) ∧ ((a ++ b).map (·.op)).Perm (watchSet L) ∧
      (∀ c ∈ a, inChain L c.op.hash = true) ∧ (∀ c ∈ b, inPool L c.op.hash = true) ∧
      (a.map (·.op)).Pairwise OutPoint.before ∧ (b.map (·.op)).Pairwise OutPoint.before := by
  obtain ⟨l, h1, h2⟩ := watch_refines hg now
  obtain ⟨a, b, rfl, ha, hb⟩ := fetchCredits_ops (by unfold outputsToWatch at h1; exact h1)
  refine ⟨a, b, h1, h2, ?_, ?_, (sorted_keys_before _ hs.unspent).sublist ha,
    (sorted_keys_before _ hs.unminedCredits).sublist hb⟩
  · intro c hc
    exact unspent_key_inChain hg (ha.subset (List.mem_map.mpr ⟨c, hc, rfl⟩))
  · intro c hc
    exact ucredit_key_inPool hg (hb.subset (List.mem_map.mpr ⟨c, hc, rfl⟩))

/-! ### `RangeTransactions`, exactly -/

/-- `Ledger.range` with the unconfirmed batch listing the transactions `pool'` (in that order) -/
def rangeWith (L : Ledger) (pool' : List Tx) (b e : Int) : List (List Details) :=
  (if b < 0 then (if pool'.isEmpty then [] else [pool'.map fun t => detailsOf L t none]) else []) ++
    rangeMidL L b e ++
    (if !(b < 0) && e < 0 then (if pool'.isEmpty then [] else [pool'.map fun t => detailsOf L t none]) else [])

theorem rangeWith_pool (L : Ledger) (b e : Int) : rangeWith L L.pool b e = Ledger.range L b e := rfl

/-- one block batch: the block's transactions in the order the wallet learned them, each with the ledger's record -/
theorem blockDetails_exact {s : Store} {L : Ledger} (hg : Good s L) (hs : SortedS s) {lb : LBlock} (hlb : lb ∈ L.chain) :
    blockDetails s (blockEntry lb).1 (blockEntry lb).2 = .ok (lb.txs.map fun t => detailsOf L t (some lb.bm)) := by
  have hm : ∀ t ∈ lb.txs, (t, lb.bm) ∈ chainTxs L := fun t ht => mem_chainTxs.mpr ⟨lb, hlb, rfl, ht⟩
  unfold blockDetails
  show ((lb.txs.map (·.hash)).mapM _) = _
  have : ∀ (l : List Tx), (∀ t ∈ l, t ∈ lb.txs) →
      (l.map (·.hash)).mapM (fun txHash =>
        match s.txrecs.find? ⟨txHash, ⟨lb.bm.block.height, lb.bm.block.hash⟩⟩ with
        | none => (throw Err.data : M Details)
        | some rec => minedTxDetails s ⟨txHash, ⟨lb.bm.block.height, lb.bm.block.hash⟩⟩ rec) =
      .ok (l.map fun t => detailsOf L t (some lb.bm)) := by
    intro l
    induction l with
    | nil => intro _; rfl
    | cons a r ih =>
      intro hsub
      have ha := hsub a List.mem_cons_self
      have hrec : s.txrecs.find? ⟨a.hash, lb.bm.block⟩ = some a := (hg.ref.txrecs_iff _ _).mpr ⟨lb.bm, hm a ha, rfl⟩
      rw [List.map_cons, List.mapM_cons]
      have hb : (⟨lb.bm.block.height, lb.bm.block.hash⟩ : Block) = lb.bm.block := rfl
      simp only [hb, hrec]
      rw [details_mined_exact hg hs (hm a ha), ih (fun t ht => hsub t (List.mem_cons_of_mem _ ht))]
      rfl
  exact this lb.txs (fun t ht => ht)

theorem blocksDetails_exact {s : Store} {L : Ledger} (hg : Good s L) (hs : SortedS s) :
    ∀ (sel : List LBlock), (∀ lb ∈ sel, lb ∈ L.chain) →
    (sel.map blockEntry).mapM (fun (p : Nat × BlockRec) => blockDetails s p.1 p.2) =
      .ok (sel.map fun lb => lb.txs.map fun t => detailsOf L t (some lb.bm)) := by
  intro sel
  induction sel with
  | nil => intro _; rfl
  | cons lb rest ih =>
    intro hsub
    rw [List.map_cons, List.mapM_cons, blockDetails_exact hg hs (hsub lb List.mem_cons_self),
      ih (fun x hx => hsub x (List.mem_cons_of_mem _ hx))]
    rfl

/-- the unconfirmed transactions in the order of the store's bucket: a permutation of the pool, ascending in hash -/
theorem unmined_order {s : Store} {L : Ledger} (hg : Good s L) (hs : SortedS s) :
    (s.unmined.map (·.2)).Perm L.pool ∧ ((s.unmined.map (·.2)).map (·.hash)).Pairwise (· < ·) := by
  have hperm := unmined_perm hg
  constructor
  · have := hperm.map (fun p : Nat × Tx => p.2)
    unfold expUnmined at this
    rw [List.map_map] at this
    have e : L.pool.map ((fun p : Nat × Tx => p.2) ∘ fun t => (t.hash, t)) = L.pool := by
      rw [show ((fun p : Nat × Tx => p.2) ∘ fun t => (t.hash, t)) = id from rfl]; exact List.map_id _
    rw [e] at this
    exact this
  · rw [List.map_map, List.pairwise_map]
    refine hs.unmined.imp_of_mem ?_
    intro a b ha hb hab
    have h1 := (mem_expUnmined.mp (hperm.mem_iff.mp (show (a.1, a.2) ∈ s.unmined from ha))).2
    have h2 := (mem_expUnmined.mp (hperm.mem_iff.mp (show (b.1, b.2) ∈ s.unmined from hb))).2
    simp only [KOrd.lt, decide_eq_true_eq] at hab
    simp only [Function.comp]
    omega

theorem rangeUnmined_exact {s : Store} {L : Ledger} (hg : Good s L) (hn : NoConflict L) (hs : SortedS s) :
    rangeUnmined s = .ok (if (s.unmined.map (·.2)).isEmpty then []
      else [(s.unmined.map (·.2)).map fun t => detailsOf L t none]) := by
  have hperm := unmined_perm hg
  have hmem : ∀ p ∈ s.unmined, p.2 ∈ L.pool ∧ p.1 = p.2.hash := by
    rintro ⟨k, v⟩ hp
    exact mem_expUnmined.mp (hperm.mem_iff.mp hp)
  unfold rangeUnmined
  rw [mapM_eq_map_of_forall _ (fun p : Nat × Tx => detailsOf L p.2 none) _ (by
    intro p hp
    obtain ⟨k, v⟩ := p
    obtain ⟨h1, h2⟩ := hmem (k, v) hp
    simp only at h1 h2 ⊢
    rw [h2]
    exact details_unmined_exact hg hn hs h1)]
  rw [bind_ok, List.map_map]
  cases s.unmined with
  | nil => rfl
  | cons a t => rfl

/-- **`RangeTransactions` IS `Ledger.range`** with the unconfirmed batch in the store's order: the same batches in the
same order; every block batch equals the ledger's (transactions in the order the wallet learned them, every record
equal to the ledger's, record order included); the unconfirmed batch lists the pool in ascending hash order -/
theorem range_refines_exact {s : Store} {L : Ledger} (hg : Good s L) (hn : NoConflict L) (hs : SortedS s) (b e : Int) :
    rangeTransactions s b e = .ok (rangeWith L (s.unmined.map (·.2)) b e) := by
  have hun1 := rangeUnmined_exact hg hn hs
  have hmid1 : rangeBlockTransactions s b e = .ok (rangeMidL L b e) := by
    unfold rangeBlockTransactions rangeMidL
    simp only
    rw [hg.ref.blocks]
    by_cases hlt : (if b < 0 then maxInt32 else b) < (if e < 0 then maxInt32 else e)
    · simp only [hlt, if_true]
      rw [sel_ascending hg.lwf]
      exact blocksDetails_exact hg hs _ (fun lb hlb => (List.mem_filter.mp hlb).1)
    · simp only [hlt, if_false]
      rw [sel_descending hg.lwf]
      exact blocksDetails_exact hg hs _ (fun lb hlb => (List.mem_filter.mp (List.mem_reverse.mp hlb)).1)
  unfold rangeTransactions rangeWith
  by_cases hb : b < 0
  · simp only [hb, if_true, decide_true, Bool.not_true, Bool.false_and, Bool.false_eq_true, if_false, hun1, hmid1,
      bind_ok, pure_eq]
  · by_cases he : e < 0
    · simp only [hb, he, if_false, if_true, decide_true, decide_false, Bool.not_false, Bool.true_and, hun1, hmid1,
        bind_ok, pure_eq]
    · simp only [hb, he, if_false, decide_false, Bool.not_false, Bool.true_and, Bool.false_eq_true, hmid1, bind_ok,
        pure_eq]

/-! ### the cursor order determines the answers: uniqueness, path independence -/

/-- a list made of an ascending `p`-part followed by an ascending non-`p`-part is determined by its elements -/
theorem append_eq_of_perm_sorted {α : Type} (p : α → Bool) (r : α → α → Prop) (hasym : ∀ a b, r a b → r b a → False)
    {a1 b1 a2 b2 : List α} (hp : (a1 ++ b1).Perm (a2 ++ b2))
    (ha1 : ∀ c ∈ a1, p c = true) (hb1 : ∀ c ∈ b1, p c = false)
    (ha2 : ∀ c ∈ a2, p c = true) (hb2 : ∀ c ∈ b2, p c = false)
    (sa1 : a1.Pairwise r) (sb1 : b1.Pairwise r) (sa2 : a2.Pairwise r) (sb2 : b2.Pairwise r) :
    a1 ++ b1 = a2 ++ b2 := by
  have f1 : ∀ {a b : List α}, (∀ c ∈ a, p c = true) → (∀ c ∈ b, p c = false) → (a ++ b).filter p = a := by
    intro a b ha hb
    rw [List.filter_append, List.filter_eq_self.mpr ha, List.filter_eq_nil_iff.mpr (fun c hc => by simp [hb c hc])]
    exact List.append_nil _
  have f2 : ∀ {a b : List α}, (∀ c ∈ a, p c = true) → (∀ c ∈ b, p c = false) →
      (a ++ b).filter (fun c => !p c) = b := by
    intro a b ha hb
    rw [List.filter_append, List.filter_eq_nil_iff.mpr (fun c hc => by simp [ha c hc]),
      List.filter_eq_self.mpr (fun c hc => by simp [hb c hc])]
    exact List.nil_append _
  have pa : a1.Perm a2 := by
    have := hp.filter p
    rwa [f1 ha1 hb1, f1 ha2 hb2] at this
  have pb : b1.Perm b2 := by
    have := hp.filter (fun c => !p c)
    rwa [f2 ha1 hb1, f2 ha2 hb2] at this
  rw [pa.eq_of_pairwise (fun a b _ _ hab hba => (hasym a b hab hba).elim) sa1 sa2,
    pb.eq_of_pairwise (fun a b _ _ hab hba => (hasym a b hab hba).elim) sb1 sb2]

theorem OutPoint.before_asymm (a b : OutPoint) (h1 : OutPoint.before a b) (h2 : OutPoint.before b a) : False := by
  unfold OutPoint.before at h1 h2; omega

/-- two good pairs with key-ordered stores and the same facts list the same spendable outputs IN THE SAME ORDER -/
theorem utxos_path_independent {s1 s2 : Store} {L1 L2 : Ledger} (hg1 : Good s1 L1) (hg2 : Good s2 L2)
    (hs1 : SortedS s1) (hs2 : SortedS s2) (hf : SameFacts L1 L2) :
    unspentOutputs s1 L1.now = unspentOutputs s2 L2.now := by
  obtain ⟨a1, b1, e1, p1, x1, y1, u1, v1⟩ := utxos_refines_exact hg1 hs1
  obtain ⟨a2, b2, e2, p2, x2, y2, u2, v2⟩ := utxos_refines_exact hg2 hs2
  rw [e1, e2]
  rw [List.pairwise_map] at u1 v1 u2 v2
  rw [append_eq_of_perm_sorted (fun c : Credit => c.block.isSome) (fun c c' : Credit => OutPoint.before c.op c'.op)
    (fun a b => OutPoint.before_asymm _ _) (p1.trans (hf.utxos_perm.trans p2.symm))
    x1 (fun c hc => by simp [y1 c hc]) x2 (fun c hc => by simp [y2 c hc]) u1 v1 u2 v2]

/-- … and hold the same unconfirmed records in the same (hash) order -/
theorem unmined_path_independent {s1 s2 : Store} {L1 L2 : Ledger} (hg1 : Good s1 L1) (hg2 : Good s2 L2)
    (hs1 : SortedS s1) (hs2 : SortedS s2) (hf : SameFacts L1 L2) :
    s1.unmined.map (·.2) = s2.unmined.map (·.2) := by
  obtain ⟨p1, o1⟩ := unmined_order hg1 hs1
  obtain ⟨p2, o2⟩ := unmined_order hg2 hs2
  rw [List.pairwise_map] at o1 o2
  exact (p1.trans (hf.pool.trans p2.symm)).eq_of_pairwise
    (fun a b _ _ (hab : a.hash < b.hash) (hba : b.hash < a.hash) => absurd hab (Nat.lt_asymm hba)) o1 o2

theorem rangeUnmined_path_independent {s1 s2 : Store} {L1 L2 : Ledger} (hg1 : Good s1 L1) (hg2 : Good s2 L2)
    (hn1 : NoConflict L1) (hn2 : NoConflict L2) (hs1 : SortedS s1) (hs2 : SortedS s2) (hf : SameFacts L1 L2) :
    rangeUnmined s1 = rangeUnmined s2 := by
  rw [rangeUnmined_exact hg1 hn1 hs1, rangeUnmined_exact hg2 hn2 hs2, unmined_path_independent hg1 hg2 hs1 hs2 hf]
  have : (fun t => detailsOf L1 t none) = (fun t => detailsOf L2 t none) := by
    funext t; exact hf.detailsOf_eq hg1.lwf hg2.lwf t none
  rw [this]

end TxStore
