import BtcwVerif.Model.WalletRestart
/-! Lemmas for C08 at the wallet level (`WalletRestart`): the coherence invariant of the account cache and its
preservation by every wallet request. Core Lean only. -/
namespace WalletRestart

/-- coherence of the account cache with the database: every cached account equals its database row, and rows exist
only up to the scope's last account -/
structure CohR (rows : Scope → Acct → Option Row) (last : Scope → Acct) (accts : Scope → Acct → Option Row) : Prop where
  cache : ∀ sc a r, accts sc a = some r → rows sc a = some r
  bound : ∀ sc a r, rows sc a = some r → a ≤ last sc

def Coh (d : Disk) (m : Mem) : Prop := CohR d.rows d.last m.accts

theorem setRow_eq (f : Scope → Acct → Option Row) (sc a v sc' a') :
    setRow f sc a v sc' a' = if sc' = sc ∧ a' = a then v else f sc' a' := rfl

theorem loadAcct_fst_eq (d : Disk) (m : Mem) (sc a) :
    (loadAcct d m sc a).1 = match m.accts sc a with | some r => some r | none => d.rows sc a := by
  unfold loadAcct
  cases m.accts sc a with
  | some r => rfl
  | none => cases d.rows sc a <;> rfl

theorem loadAcct_fst (d : Disk) (m : Mem) (sc a) (h : Coh d m) : (loadAcct d m sc a).1 = d.rows sc a := by
  rw [loadAcct_fst_eq]
  cases hm : m.accts sc a with
  | some r => exact (h.cache sc a r hm).symm
  | none => rfl

theorem loadAcct_accts (d : Disk) (m : Mem) (sc a sc' a') :
    (loadAcct d m sc a).2.accts sc' a' =
      if sc' = sc ∧ a' = a ∧ m.accts sc a = none then d.rows sc a else m.accts sc' a' := by
  unfold loadAcct
  cases hm : m.accts sc a with
  | some r => simp
  | none =>
    cases hd : d.rows sc a with
    | none => simp; intro h1 h2; subst h1; subst h2; exact hm
    | some r => simp [setRow_eq]

theorem loadAcct_addrs (d : Disk) (m : Mem) (sc a) : (loadAcct d m sc a).2.addrs = m.addrs := by
  unfold loadAcct; cases m.accts sc a <;> simp only []; cases d.rows sc a <;> simp only []

theorem loadAcct_locked (d : Disk) (m : Mem) (sc a) : (loadAcct d m sc a).2.locked = m.locked := by
  unfold loadAcct; cases m.accts sc a <;> simp only []; cases d.rows sc a <;> simp only []

theorem loadAcct_coh (d : Disk) (m : Mem) (sc a) (h : Coh d m) : Coh d (loadAcct d m sc a).2 := by
  refine ⟨?_, h.bound⟩
  intro sc' a' r hr
  rw [loadAcct_accts] at hr
  split at hr
  · rename_i hc; obtain ⟨h1, h2, _⟩ := hc; subst h1; subst h2; exact hr
  · exact h.cache sc' a' r hr

/-- the account cache after `loadAcct` contains the account whenever the load succeeded -/
theorem loadAcct_cached (d : Disk) (m : Mem) (sc a r) (h : (loadAcct d m sc a).1 = some r) :
    (loadAcct d m sc a).2.accts sc a = some r := by
  rw [loadAcct_fst_eq] at h
  rw [loadAcct_accts]
  cases hm : m.accts sc a with
  | some x => rw [hm] at h; simp [h]
  | none => rw [hm] at h; simp [h]

theorem lookupAddr_accts_coh (d : Disk) (m : Mem) (sc ad) (h : Coh d m) : Coh d (lookupAddr d m sc ad).2 := by
  unfold lookupAddr
  cases m.addrs sc ad with
  | some a => exact h
  | none =>
    simp only []
    cases d.addrs sc ad with
    | none => exact h
    | some a =>
      simp only []
      have := loadAcct_coh d m sc a h
      cases (loadAcct d m sc a).1 <;> exact this

theorem lookupAddr_locked (d : Disk) (m : Mem) (sc ad) : (lookupAddr d m sc ad).2.locked = m.locked := by
  unfold lookupAddr
  cases m.addrs sc ad <;> simp only []
  cases d.addrs sc ad <;> simp only []
  rename_i a
  have := loadAcct_locked d m sc a
  cases (loadAcct d m sc a).1 <;> exact this

theorem scanFunded_coh (d : Disk) (sc a) (l : List (Scope × Addr)) (m : Mem) (h : Coh d m) :
    Coh d (scanFunded d sc a l m).2 := by
  induction l generalizing m with
  | nil => exact h
  | cons p rest ih =>
    simp only [scanFunded]
    exact ih _ (lookupAddr_accts_coh d m p.1 p.2 h)

theorem sweepAccts_coh (d : Disk) (sc) (n : Nat) (m : Mem) (h : Coh d m) : Coh d (sweepAccts d sc n m) := by
  induction n with
  | zero => exact loadAcct_coh d m sc 0 h
  | succ k ih => exact loadAcct_coh d _ sc (k + 1) ih

theorem foldl_coh {α} (d : Disk) (f : Mem → α → Mem) (hf : ∀ m x, Coh d m → Coh d (f m x)) (l : List α) (m : Mem)
    (h : Coh d m) : Coh d (l.foldl f m) := by
  induction l generalizing m with
  | nil => exact h
  | cons x rest ih => exact ih _ (hf m x h)

theorem stepCmp_coh (s : State) (scs us) (h : Coh s.disk s.mem) : Coh (stepCmp s scs us).disk (stepCmp s scs us).mem := by
  unfold stepCmp
  simp only []
  apply foldl_coh
  · intro m p hm; exact lookupAddr_accts_coh _ _ _ _ hm
  · apply foldl_coh
    · intro m sc hm; exact sweepAccts_coh _ _ _ _ hm
    · exact h

theorem issueLoop_accts (sc a key i) (n j : Nat) (d : Disk) (m : Mem) :
    (issueLoop sc a key i n j d m).2.1.accts = m.accts := by
  induction n generalizing j d m with
  | zero => rfl
  | succ k ih =>
    simp only [issueLoop]
    exact ih _ _ _

theorem issue_accts (t : Tx) (sc a i n) : (issue t sc a i n).1.m.accts = (loadAcct t.d t.m sc a).2.accts := by
  unfold issue
  simp only []
  cases (loadAcct t.d t.m sc a).1 with
  | none => rfl
  | some r =>
    simp only []
    generalize (if i = true then r.int else r.ext) = nxt
    split
    · rfl
    · split
      · rfl
      · exact issueLoop_accts _ _ _ _ _ _ _ _

/-- a transaction that is rolled back after `issue` leaves a coherent account cache (the eager mutation is a load
from the still unmodified database view) -/
theorem issue_rollback_coh (d : Disk) (t : Tx) (sc a i n) (ht : t.d = d) (h : Coh d t.m) :
    Coh d (issue t sc a i n).1.m := by
  have h1 := loadAcct_coh t.d t.m sc a (ht ▸ h)
  rw [ht] at h1
  exact ⟨by rw [issue_accts, ht]; exact h1.cache, h.bound⟩

theorem cohR_setRow (rows last accts) (sc a) (r' : Row) (h : CohR rows last accts) (ha : a ≤ last sc) :
    CohR (setRow rows sc a (some r')) last (setRow accts sc a (some r')) := by
  constructor
  · intro sc' a' x hx
    rw [setRow_eq] at hx ⊢
    split
    · rename_i hc; rw [if_pos hc] at hx; exact hx
    · rename_i hc; rw [if_neg hc] at hx; exact h.cache sc' a' x hx
  · intro sc' a' x hx
    rw [setRow_eq] at hx
    split at hx
    · rename_i hc; rw [hc.1, hc.2]; exact ha
    · exact h.bound sc' a' x hx

/-- the committed single-address request: database row and cached account advance together -/
theorem issue1_commit_coh (t : Tx) (sc a i) (h : Coh t.d t.m) (hp : t.pend = []) (l)
    (hi : (issue t sc a i 1).2 = .ok l) :
    Coh (commit (issue t sc a i 1).1).disk (commit (issue t sc a i 1).1).mem := by
  have hf := loadAcct_fst t.d t.m sc a h
  have hc := loadAcct_coh t.d t.m sc a h
  unfold issue at hi ⊢
  simp only [] at hi ⊢
  cases hl : (loadAcct t.d t.m sc a).1 with
  | none => rw [hl] at hi; simp only [] at hi; cases hi
  | some r =>
    have hm1 := loadAcct_cached t.d t.m sc a r hl
    rw [hl] at hi hf
    simp only [] at hi ⊢
    generalize hn : (if i = true then r.int else r.ext) = nxt at hi ⊢
    split at hi
    · cases hi
    · split at hi
      · cases hi
      · rename_i h1 h2
        rw [if_neg h1, if_neg h2]
        simp only [issueLoop, commit, hp, List.nil_append, List.foldl_cons, List.foldl_nil, applyPend,
          List.isEmpty_cons, putAddr, ← hf, hm1, Bool.false_eq_true, if_false]
        have hb : a ≤ t.d.last sc := h.bound sc a r hf.symm
        exact cohR_setRow t.d.rows t.d.last (loadAcct t.d t.m sc a).2.accts sc a
          (if i = true then { r with int := nxt + 1 } else { r with ext := nxt + 1 }) hc hb


theorem issue1_coh (s : State) (t : Tx) (sc a i ab) (ht : t.d = s.disk) (hp : t.pend = []) (h : Coh s.disk t.m) :
    Coh (issue1 s t sc a i ab).1.disk (issue1 s t sc a i ab).1.mem := by
  have h1 := issue_rollback_coh s.disk t sc a i 1 ht h
  have h2 := issue1_commit_coh t sc a i (ht ▸ h) hp
  unfold issue1
  simp only []
  cases hr : (issue t sc a i 1).2 with
  | error e => exact h1
  | ok l =>
    cases l with
    | nil => exact h1
    | cons ad rest =>
      cases ab with
      | some res => exact h1
      | none => exact h2 _ hr

theorem stepNewAddr_coh (s : State) (sc a i cf) (h : Coh s.disk s.mem) :
    Coh (stepNewAddr s sc a i cf).1.disk (stepNewAddr s sc a i cf).1.mem :=
  issue1_coh s (begin s) sc a i _ rfl rfl h

theorem stepCurAddr_coh (s : State) (sc a) (h : Coh s.disk s.mem) :
    Coh (stepCurAddr s sc a).1.disk (stepCurAddr s sc a).1.mem := by
  have h1 := loadAcct_coh s.disk s.mem sc a h
  unfold stepCurAddr
  simp only []
  cases (loadAcct s.disk s.mem sc a).1 with
  | none => exact h1
  | some r =>
    simp only []
    split
    · exact stepNewAddr_coh { s with mem := (loadAcct s.disk s.mem sc a).2 } sc a false false h1
    · split
      · exact stepNewAddr_coh { s with mem := (loadAcct s.disk s.mem sc a).2 } sc a false false h1
      · exact h1

theorem stepFund_coh (s : State) (sc a) (h : Coh s.disk s.mem) :
    Coh (stepFund s sc a).1.disk (stepFund s sc a).1.mem := by
  have h1 := stepNewAddr_coh s sc a false false h
  unfold stepFund
  simp only []
  cases (stepNewAddr s sc a false).2 with
  | addr ad => exact lookupAddr_accts_coh _ _ sc ad h1
  | _ => exact h1

theorem stepCreateTx_coh (s : State) (sc a dry huge nf cf) (h : Coh s.disk s.mem) :
    Coh (stepCreateTx s sc a dry huge nf cf).1.disk (stepCreateTx s sc a dry huge nf cf).1.mem := by
  unfold stepCreateTx
  split
  · exact h
  · have h1 := loadAcct_coh s.disk s.mem sc a h
    simp only []
    cases (loadAcct s.disk s.mem sc a).1 with
    | none => exact h1
    | some r =>
      simp only []
      have h2 := scanFunded_coh s.disk sc a s.disk.funded _ h1
      split
      · exact h2
      · exact issue1_coh s _ sc a true _ rfl rfl h2

theorem stepFundPsbt_coh (s : State) (sc a c) (h : Coh s.disk s.mem) :
    Coh (stepFundPsbt s sc a c).1.disk (stepFundPsbt s sc a c).1.mem := by
  cases c with
  | none => exact stepCreateTx_coh s sc a false false false false h
  | some i =>
    simp only [stepFundPsbt]
    cases s.disk.funded[i]? with
    | none => exact h
    | some c =>
      simp only []
      have h0 := lookupAddr_accts_coh s.disk s.mem c.1 c.2 h
      have h1 := loadAcct_coh s.disk _ sc a h0
      cases (loadAcct s.disk (lookupAddr s.disk s.mem c.1 c.2).2 sc a).1 with
      | none => exact h1
      | some r => exact issue1_coh s _ sc a true none rfl rfl h1


theorem setLast_eq (f : Scope → Acct) (sc v sc') : setLast f sc v sc' = if sc' = sc then v else f sc' := rfl

/-- a new account row at number last+1 keeps the cache coherent (nothing can be cached for that number) -/
theorem newRow_coh (d : Disk) (m : Mem) (sc) (row : Row) (h : Coh d m) :
    CohR (setRow d.rows sc (d.last sc + 1) (some row)) (setLast d.last sc (d.last sc + 1)) m.accts := by
  constructor
  · intro sc' a' x hx
    have := h.cache sc' a' x hx
    rw [setRow_eq]
    split
    · rename_i hc
      have := h.bound sc' a' x this
      rw [hc.1, hc.2] at this; exact absurd this (Nat.not_succ_le_self _)
    · exact this
  · intro sc' a' x hx
    rw [setRow_eq] at hx
    rw [setLast_eq]
    split at hx
    · rename_i hc; rw [if_pos hc.1, hc.2]; exact Nat.le_refl _
    · have := h.bound sc' a' x hx
      split
      · rename_i hs; rw [hs] at this; exact Nat.le_succ_of_le this
      · exact this

def AgreeOff (sc : Scope) (a : Acct) (f g : Scope → Acct → Option Row) : Prop :=
  ∀ sc' a', ¬(sc' = sc ∧ a' = a) → g sc' a' = f sc' a'

theorem AgreeOff.trans {sc a f g k} (h1 : AgreeOff sc a f g) (h2 : AgreeOff sc a g k) : AgreeOff sc a f k :=
  fun sc' a' hn => (h2 sc' a' hn).trans (h1 sc' a' hn)

theorem loadAcct_agree (d : Disk) (m : Mem) (sc a) : AgreeOff sc a m.accts (loadAcct d m sc a).2.accts := by
  intro sc' a' hn
  rw [loadAcct_accts, if_neg]
  intro hc; exact hn ⟨hc.1, hc.2.1⟩

theorem issue_agree (t : Tx) (sc a i n) : AgreeOff sc a t.m.accts (issue t sc a i n).1.m.accts := by
  rw [issue_accts]; exact loadAcct_agree _ _ _ _

theorem inval_coh (d : Disk) (m m' : Mem) (sc a) (h : Coh d m) (ha : AgreeOff sc a m.accts m'.accts) :
    Coh d (inval m' sc a) := by
  refine ⟨?_, h.bound⟩
  intro sc' a' x hx
  simp only [inval, setRow_eq] at hx
  split at hx
  · cases hx
  · rename_i hn; rw [ha sc' a' hn] at hx; exact h.cache sc' a' x hx

theorem stepImport_coh (s : State) (dry sc nm key n cf) (hcf : (!dry && cf) = false) (h : Coh s.disk s.mem) :
    Coh (stepImport s dry sc nm key n cf).1.disk (stepImport s dry sc nm key n cf).1.mem := by
  unfold stepImport stepImportWith
  split
  · exact h
  · simp only []
    split
    · exact h
    · split
      · exact h
      · have hd1 := newRow_coh s.disk s.mem sc ⟨nm, key, 0, 0⟩ h
        generalize hdd : ({ s.disk with rows := setRow s.disk.rows sc (s.disk.last sc + 1) (some ⟨nm, key, 0, 0⟩),
                                        last := setLast s.disk.last sc (s.disk.last sc + 1) } : Disk) = d1
        have hd1' : Coh d1 s.mem := by rw [← hdd]; exact hd1
        have hl := loadAcct_coh d1 s.mem sc (s.disk.last sc + 1) hd1'
        have a1 := loadAcct_agree d1 s.mem sc (s.disk.last sc + 1)
        have hsome : (loadAcct d1 s.mem sc (s.disk.last sc + 1)).1 ≠ none := by
          rw [loadAcct_fst_eq]
          cases s.mem.accts sc (s.disk.last sc + 1) with
          | some x => simp
          | none => rw [← hdd]; simp [setRow_eq]
        cases hld : (loadAcct d1 s.mem sc (s.disk.last sc + 1)).1 with
        | none => exact absurd hld hsome
        | some r =>
          simp only []
          split
          · rename_i hd
            have hc : cf = false := by cases dry <;> simp_all
            subst hc
            exact hl
          · have a2 := a1.trans (issue_agree { d := d1, m := (loadAcct d1 s.mem sc (s.disk.last sc + 1)).2, pend := [] }
              sc (s.disk.last sc + 1) false n)
            cases (issue { d := d1, m := (loadAcct d1 s.mem sc (s.disk.last sc + 1)).2, pend := [] }
              sc (s.disk.last sc + 1) false n).2 with
            | error e => exact inval_coh s.disk s.mem _ sc _ h a2
            | ok ext =>
              simp only []
              have a3 := a2.trans (issue_agree (issue { d := d1, m := (loadAcct d1 s.mem sc (s.disk.last sc + 1)).2, pend := [] }
                sc (s.disk.last sc + 1) false n).1 sc (s.disk.last sc + 1) true n)
              cases (issue (issue { d := d1, m := (loadAcct d1 s.mem sc (s.disk.last sc + 1)).2, pend := [] }
                sc (s.disk.last sc + 1) false n).1 sc (s.disk.last sc + 1) true n).2 with
              | error e => exact inval_coh s.disk s.mem _ sc _ h a3
              | ok int =>
                simp only []
                have a4 := a3.trans (loadAcct_agree
                  (issue (issue { d := d1, m := (loadAcct d1 s.mem sc (s.disk.last sc + 1)).2, pend := [] }
                    sc (s.disk.last sc + 1) false n).1 sc (s.disk.last sc + 1) true n).1.d
                  (issue (issue { d := d1, m := (loadAcct d1 s.mem sc (s.disk.last sc + 1)).2, pend := [] }
                    sc (s.disk.last sc + 1) false n).1 sc (s.disk.last sc + 1) true n).1.m sc (s.disk.last sc + 1))
                split <;> exact inval_coh s.disk s.mem _ sc _ h a4


theorem stepRename_coh (s : State) (sc a nm) (h : Coh s.disk s.mem) :
    Coh (stepRename s sc a nm false).1.disk (stepRename s sc a nm false).1.mem := by
  unfold stepRename
  split
  · exact h
  · split
    · exact h
    · cases hrow : s.disk.rows sc a with
      | none => exact h
      | some r =>
        simp only [Bool.false_eq_true, if_false]
        apply loadAcct_coh
        have hb : a ≤ s.disk.last sc := h.bound sc a r hrow
        cases hc : s.mem.accts sc a with
        | some c =>
          have : c = r := by
            have := h.cache sc a c hc; rw [hrow] at this; exact (Option.some.inj this).symm
          subst this
          exact cohR_setRow s.disk.rows s.disk.last s.mem.accts sc a { c with name := nm } h hb
        | none =>
          constructor
          · intro sc' a' x hx
            simp only [setRow_eq]
            split
            · rename_i hcc; rw [hcc.1, hcc.2, hc] at hx; cases hx
            · exact h.cache sc' a' x hx
          · intro sc' a' x hx
            simp only [setRow_eq] at hx
            split at hx
            · rename_i hcc; rw [hcc.1, hcc.2]; exact hb
            · exact h.bound sc' a' x hx

theorem stepNewAcct_coh (s : State) (sc nm) (h : Coh s.disk s.mem) :
    Coh (stepNewAcct s sc nm).1.disk (stepNewAcct s sc nm).1.mem := by
  unfold stepNewAcct
  split
  · exact h
  · simp only []
    split
    · exact h
    · split
      · exact h
      · exact loadAcct_coh _ s.mem sc _ (newRow_coh s.disk s.mem sc _ h)

theorem stepUnlock_coh (s : State) (h : Coh s.disk s.mem) :
    Coh (stepUnlock s).1.disk (stepUnlock s).1.mem := by
  unfold stepUnlock
  split
  · exact h
  · split
    · exact foldl_coh s.disk _ (fun m p hm => loadAcct_coh s.disk m p.1 p.2 hm) _ _ h
    · exact h

theorem stepUnlockPass_coh (s : State) (p : Nat) (h : Coh s.disk s.mem) :
    Coh (stepUnlockPass s p).1.disk (stepUnlockPass s p).1.mem := by
  unfold stepUnlockPass
  split
  · exact stepUnlock_coh s h
  · exact h

/-- a passphrase step touches neither the account rows / last account of the transaction's view nor the account cache -/
theorem chStep_rows (t : Tx) (priv old new) :
    (chStep t priv old new).1.d.rows = t.d.rows ∧ (chStep t priv old new).1.d.last = t.d.last ∧
    (chStep t priv old new).1.m.accts = t.m.accts ∧ (chStep t priv old new).1.pend = t.pend := by
  unfold chStep
  split <;> split <;> exact ⟨rfl, rfl, rfl, rfl⟩

theorem coh_congr {d d' : Disk} {m m' : Mem} (h : Coh d m) (h1 : d'.rows = d.rows) (h2 : d'.last = d.last)
    (h3 : m'.accts = m.accts) : Coh d' m' := by
  unfold Coh at *
  rw [h1, h2, h3]; exact h

theorem commit_nil (t : Tx) (hp : t.pend = []) : commit t = { disk := t.d, mem := t.m } := by
  unfold commit; rw [hp]; rfl

theorem stepChPass_coh (s : State) (priv old new) (h : Coh s.disk s.mem) :
    Coh (stepChPass s priv old new).1.disk (stepChPass s priv old new).1.mem := by
  have hr := chStep_rows (begin s) priv old new
  cases hc : (chStep (begin s) priv old new).2 with
  | some e => simp only [stepChPass, hc]; exact coh_congr h rfl rfl hr.2.2.1
  | none =>
    simp only [stepChPass, hc, commit_nil _ hr.2.2.2]
    exact coh_congr h hr.1 hr.2.1 hr.2.2.1

theorem stepChBothWith_coh (pf : Bool) (s : State) (po pn vo vn) (h : Coh s.disk s.mem) :
    Coh (stepChBothWith pf s po pn vo vn).1.disk (stepChBothWith pf s po pn vo vn).1.mem := by
  cases pf
  · have ha := chStep_rows (begin s) false po pn
    have hb := chStep_rows (chStep (begin s) false po pn).1 true vo vn
    cases hc : (chStep (begin s) false po pn).2 with
    | some e => simp [stepChBothWith, hc]; exact coh_congr h rfl rfl ha.2.2.1
    | none =>
      cases hc2 : (chStep (chStep (begin s) false po pn).1 true vo vn).2 with
      | some e => simp [stepChBothWith, hc, hc2]; exact coh_congr h rfl rfl (hb.2.2.1.trans ha.2.2.1)
      | none =>
        simp [stepChBothWith, hc, hc2, commit_nil _ (hb.2.2.2.trans ha.2.2.2)]
        exact coh_congr h (hb.1.trans ha.1) (hb.2.1.trans ha.2.1) (hb.2.2.1.trans ha.2.2.1)
  · have ha := chStep_rows (begin s) true vo vn
    have hb := chStep_rows (chStep (begin s) true vo vn).1 false po pn
    cases hc : (chStep (begin s) true vo vn).2 with
    | some e => simp [stepChBothWith, hc]; exact coh_congr h rfl rfl ha.2.2.1
    | none =>
      cases hc2 : (chStep (chStep (begin s) true vo vn).1 false po pn).2 with
      | some e => simp [stepChBothWith, hc, hc2]; exact coh_congr h rfl rfl (hb.2.2.1.trans ha.2.2.1)
      | none =>
        simp [stepChBothWith, hc, hc2, commit_nil _ (hb.2.2.2.trans ha.2.2.2)]
        exact coh_congr h (hb.1.trans ha.1) (hb.2.1.trans ha.2.1) (hb.2.2.1.trans ha.2.2.1)

/-- every request preserves the coherence of the account cache - except the two eager mutators (ImportAccount,
RenameAccount) when the COMMIT of their transaction fails (`Op.eagerCommitFail`) -/
theorem step_coh (s : State) (op : Op) (hop : op.eagerCommitFail = false) (h : Coh s.disk s.mem) :
    Coh (step s op).1.disk (step s op).1.mem := by
  cases op with
  | newAddr sc a i cf => exact stepNewAddr_coh s sc a i cf h
  | curAddr sc a => exact stepCurAddr_coh s sc a h
  | fund sc a => exact stepFund_coh s sc a h
  | createTx sc a dry huge nf cf => exact stepCreateTx_coh s sc a dry huge nf cf h
  | fundPsbt sc a c => exact stepFundPsbt_coh s sc a c h
  | importAcct dry sc nm key n cf => exact stepImport_coh s dry sc nm key n cf hop h
  | rename sc a nm cf =>
    have : cf = false := hop
    subst this
    exact stepRename_coh s sc a nm h
  | newAcct sc nm => exact stepNewAcct_coh s sc nm h
  | lock => exact h
  | unlock => exact stepUnlock_coh s h
  | cmp scs us => exact stepCmp_coh s scs us h
  | unlockPass p => exact stepUnlockPass_coh s p h
  | chPass priv old new => exact stepChPass_coh s priv old new h
  | chBoth po pn vo vn => exact stepChBothWith_coh false s po pn vo vn h
  | restart => exact ⟨fun _ _ _ hx => (by cases hx), h.bound⟩

theorem init_coh : Coh init.disk init.mem := by
  refine ⟨?_, ?_⟩
  · intro sc a r hx; cases hx
  · intro sc a r hx
    simp only [init, initDisk] at hx
    show a ≤ 0
    split at hx
    · rename_i h0; rw [h0]; exact Nat.le_refl _
    · cases hx

theorem run_coh (s : State) (ops : List Op) (hops : ∀ op ∈ ops, op.eagerCommitFail = false) (h : Coh s.disk s.mem) :
    Coh (run s ops).disk (run s ops).mem := by
  induction ops generalizing s with
  | nil => exact h
  | cons op rest ih =>
    exact ih _ (fun o ho => hops o (List.mem_cons_of_mem _ ho)) (step_coh s op (hops op List.mem_cons_self) h)

theorem emptyMem_coh (d : Disk) (m : Mem) (h : Coh d m) : Coh d emptyMem :=
  ⟨fun _ _ _ hx => (by cases hx), h.bound⟩

/-- with a coherent cache every account-level query is answered from the database alone -/
theorem ask_of_coh (d : Disk) (m : Mem) (h : Coh d m) (q : Query) (hq : ∀ sc ad, q ≠ .addrInfo sc ad) :
    ask d m q = ask d emptyMem q := by
  have he := emptyMem_coh d m h
  cases q with
  | props sc a => simp only [ask, loadAcct_fst d m sc a h, loadAcct_fst d emptyMem sc a he]
  | acctNumber sc nm => rfl
  | acctName sc a => rfl
  | next sc a i => simp only [ask, loadAcct_fst d m sc a h, loadAcct_fst d emptyMem sc a he]
  | addrInfo sc ad => exact absurd rfl (hq sc ad)

end WalletRestart
