import BtcwVerif.Model.AddrDeriveStep
/-! The index loops of `nextAddresses` / `extendAddresses` (`firstValid`, `nextIdxs`, `extendIdxs`): helper lemmas. -/
set_option linter.unusedSectionVars false
namespace AddrDerive

theorem firstValid_spec (valid : Nat → Bool) : ∀ (fuel start i : Nat), firstValid valid fuel start = some i →
    start ≤ i ∧ valid i = true ∧ ∀ j, start ≤ j → j < i → valid j = false := by
  intro fuel
  induction fuel with
  | zero => intro start i h; simp [firstValid] at h
  | succ f ih =>
    intro start i h
    unfold firstValid at h
    split at h
    · rename_i hv
      cases h
      exact ⟨Nat.le_refl _, hv, fun j h1 h2 => absurd h1 (by omega)⟩
    · rename_i hv
      have := ih (start + 1) i h
      refine ⟨by omega, this.2.1, fun j h1 h2 => ?_⟩
      by_cases hj : j = start
      · subst hj; simpa using hv
      · exact this.2.2 j (by omega) h2

/-- `l` is exactly the list of valid indices in `[start, stop)`, in increasing order -/
def IsValidRun (valid : Nat → Bool) (start stop : Nat) (l : List Nat) : Prop :=
  l.Pairwise (· < ·) ∧ (∀ i ∈ l, start ≤ i ∧ i < stop ∧ valid i = true) ∧
    (∀ j, start ≤ j → j < stop → valid j = true → j ∈ l)

theorem getLast_cons_ne (i : Nat) (t : List Nat) (d : Nat) (ht : t ≠ []) : getLast (i :: t) d = getLast t d := by
  cases t with
  | nil => exact absurd rfl ht
  | cons a b => simp [getLast]

theorem getLast_default (t : List Nat) (d d' : Nat) (ht : t ≠ []) : getLast t d = getLast t d' := by
  induction t with
  | nil => exact absurd rfl ht
  | cons a b ih =>
    cases b with
    | nil => simp [getLast]
    | cons c e =>
      show getLast (c :: e) d = getLast (c :: e) d'
      exact ih (by simp)

theorem getLast_cons (i : Nat) (t : List Nat) (d : Nat) : getLast (i :: t) d = getLast t (i + 1) := by
  cases t with
  | nil => simp [getLast]
  | cons a b => rw [getLast_cons_ne _ _ _ (by simp)]; exact getLast_default _ _ _ (by simp)

theorem nextIdxs_spec (valid : Nat → Bool) : ∀ (n start : Nat) (l : List Nat), nextIdxs valid n start = some l →
    l.length = n ∧ start ≤ getLast l start ∧ IsValidRun valid start (getLast l start) l := by
  intro n
  induction n with
  | zero =>
    intro start l h
    simp [nextIdxs] at h
    subst h
    exact ⟨rfl, Nat.le_refl _, List.Pairwise.nil, by simp, fun j h1 h2 => absurd h1 (by simp [getLast] at h2; omega)⟩
  | succ m ih =>
    intro start l h
    unfold nextIdxs at h
    split at h
    · cases h
    · rename_i i hi
      have hf := firstValid_spec valid _ _ _ hi
      cases hr : nextIdxs valid m (i + 1) with
      | none => simp [hr] at h
      | some t =>
        simp [hr] at h
        subst h
        have ht := ih (i + 1) t hr
        have hlast : getLast (i :: t) start = getLast t (i + 1) := getLast_cons _ _ _
        rw [hlast]
        refine ⟨by simp [ht.1], by omega, ?_, ?_, ?_⟩
        · refine List.Pairwise.cons ?_ ht.2.2.1
          intro a ha
          have := (ht.2.2.2.1 a ha).1
          omega
        · intro a ha
          rcases List.mem_cons.mp ha with rfl | ha
          · exact ⟨hf.1, by omega, hf.2.1⟩
          · have := ht.2.2.2.1 a ha
            exact ⟨by omega, this.2.1, this.2.2⟩
        · intro j h1 h2 hv
          by_cases hj : j ≤ i
          · by_cases hji : j = i
            · subst hji; exact List.mem_cons_self
            · have := hf.2.2 j h1 (by omega)
              simp [this] at hv
          · exact List.mem_cons_of_mem _ (ht.2.2.2.2 j (by omega) h2 hv)

theorem extendIdxs_spec (valid : Nat → Bool) (last : Nat) : ∀ (fuel start : Nat) (l : List Nat),
    extendIdxs valid last fuel start = some l →
    start ≤ getLast l start ∧ (start ≤ last → last < getLast l start) ∧ IsValidRun valid start (getLast l start) l := by
  intro fuel
  induction fuel with
  | zero => intro start l h; simp [extendIdxs] at h
  | succ f ih =>
    intro start l h
    unfold extendIdxs at h
    split at h
    · rename_i hle
      split at h
      · cases h
      · rename_i i hi
        have hf := firstValid_spec valid _ _ _ hi
        cases hr : extendIdxs valid last f (i + 1) with
        | none => simp [hr] at h
        | some t =>
          simp [hr] at h
          subst h
          have ht := ih (i + 1) t hr
          have hlast : getLast (i :: t) start = getLast t (i + 1) := getLast_cons _ _ _
          rw [hlast]
          refine ⟨by omega, fun _ => ?_, ?_, ?_, ?_⟩
          · by_cases h2 : i + 1 ≤ last
            · exact ht.2.1 h2
            · omega
          · refine List.Pairwise.cons ?_ ht.2.2.1
            intro a ha
            have := (ht.2.2.2.1 a ha).1
            omega
          · intro a ha
            rcases List.mem_cons.mp ha with rfl | ha
            · exact ⟨hf.1, by omega, hf.2.1⟩
            · have := ht.2.2.2.1 a ha
              exact ⟨by omega, this.2.1, this.2.2⟩
          · intro j h1 h2 hv
            by_cases hj : j ≤ i
            · by_cases hji : j = i
              · subst hji; exact List.mem_cons_self
              · have := hf.2.2 j h1 (by omega)
                simp [this] at hv
            · exact List.mem_cons_of_mem _ (ht.2.2.2.2 j (by omega) h2 hv)
    · rename_i hgt
      cases h
      exact ⟨by simp [getLast], fun h => absurd h hgt, List.Pairwise.nil, by simp,
        fun j h1 h2 => absurd h1 (by simp [getLast] at h2; omega)⟩

end AddrDerive
