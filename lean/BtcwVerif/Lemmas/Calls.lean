import BtcwVerif.Lemmas.WFRollback
/-! Histories of store calls and the preservation of `WF2` along every chain-consistent history. -/
namespace TxStore
open KMap


/-- one call of the store API -/
inductive Call
  | insertUnmined (rec : Tx)
  | addCreditUnmined (rec : Tx) (i : Nat) (chg : Bool)
  | insertMined (rec : Tx) (bm : BlockMeta)
  | addCreditMined (rec : Tx) (bm : BlockMeta) (i : Nat) (chg : Bool)
  | removeUnmined (rec : Tx)
  | rollback (height : Int)
  | lock (id : Nat) (op : OutPoint) (d : Int)
  | unlock (id : Nat) (op : OutPoint)
  | sweep

/-- effect at clock `now`; a failing call leaves the store unchanged (the DB transaction rolls back) -/
def Call.run (s : Store) (now : Nat) : Call → Store
  | .insertUnmined rec => match insertTx s rec none with | .ok (_, s') => s' | .error _ => s
  | .addCreditUnmined rec i chg => match addCredit s rec none i chg with | .ok s' => s' | .error _ => s
  | .insertMined rec bm => match insertTx s rec (some bm) with | .ok (_, s') => s' | .error _ => s
  | .addCreditMined rec bm i chg => match addCredit s rec (some bm) i chg with | .ok s' => s' | .error _ => s
  | .removeUnmined rec => match removeUnminedTx s rec with | .ok s' => s' | .error _ => s
  | .rollback h => match TxStore.rollback s h with | .ok s' => s' | .error _ => s
  | .lock id op d => match lockOutput s now id op d with | .ok (_, s') => s' | .error _ => s
  | .unlock id op => match unlockOutput s now id op with | .ok s' => s' | .error _ => s
  | .sweep => deleteExpiredLockedOutputs s now

/-- chain consistency, read on the store at the moment of the call.
* `InsertTx(rec, block)`: either a redelivery (already recorded in that block), or the transaction is recorded in no
  block, the block at that height (if any) has that hash, the credits it spends sit at or below that height (parents
  first), it has fewer than 2^32−1 outputs, and the unconfirmed credits kept under its hash are outputs of it;
* `AddCredit(rec, block, i)`: the transaction is recorded in that block;
* everything else — `Rollback` to any height, unconfirmed inserts and credits, removals, leases — is unconditional. -/
def Call.Pre (s : Store) : Call → Prop
  | .insertMined rec bm => s.txrecs.contains ⟨rec.hash, bm.block⟩ = true ∨ ConfirmPre2 s rec bm
  | .addCreditMined rec bm _ _ => s.txrecs.find? ⟨rec.hash, bm.block⟩ = some rec
  | _ => True

theorem wf2_run (s : Store) (now : Nat) (c : Call) (hw : WF2 s) (hp : c.Pre s) : WF2 (c.run s now) := by
  cases c with
  | insertUnmined rec =>
    simp only [Call.run]
    split
    · rename_i ex s' h
      unfold insertTx at h
      simp only at h
      split at h
      · cases h; exact hw
      · cases h
      · rename_i s2 h2
        have hsm := sameMined_insertMemPoolTx h2
        have huc : s2.unminedCredits = s.unminedCredits := by
          unfold insertMemPoolTx at h2
          split at h2
          · cases h2
          · split at h2
            · cases h2; rfl
            · cases h2
              have : ∀ (l : List OutPoint) (a : Store),
                  (l.foldl (fun s inp => putRawUnminedInput s inp rec.hash) a).unminedCredits = a.unminedCredits := by
                intro l; induction l with
                | nil => intro a; rfl
                | cons x t ih => intro a; rw [List.foldl_cons, ih]; rfl
              exact this rec.ins _
        have hw2 := wf2_of_sameMined hsm (by rw [huc]; exact hw.wf.nodupUC) hw
        cases h; exact hw2
    · exact hw
  | addCreditUnmined rec i chg =>
    simp only [Call.run]
    split
    · rename_i s' h
      have hsm := sameMined_addCredit_unmined h
      have hn : NodupKeys s'.unminedCredits := by
        unfold addCredit at h
        split at h
        · cases h
        · simp only at h
          split at h
          · cases h; exact hw.wf.nodupUC
          · split at h
            · cases h; exact hw.wf.nodupUC
            · cases h; exact nodupKeys_insert _ _ _ hw.wf.nodupUC
      exact wf2_of_sameMined hsm hn hw
    · exact hw
  | insertMined rec bm =>
    simp only [Call.run]
    split
    · rename_i ex s' h
      unfold insertTx at h
      simp only at h
      split at h
      · cases h; exact hw
      · cases h
      · rename_i s2 h2
        have hw2 : WF2 s2 := by
          rcases hp with hdup | hpre
          · unfold insertMinedTx at h2
            simp [hdup] at h2
          · exact wf2_insertMinedTx hw hpre h2
        cases h; exact hw2
    · exact hw
  | addCreditMined rec bm i chg =>
    simp only [Call.run]
    split
    · rename_i s' h; exact wf2_addCredit_mined hw h hp
    · exact hw
  | removeUnmined rec =>
    simp only [Call.run]
    split
    · rename_i s' h
      exact wf2_of_sameMined (sameMined_removeUnminedTx h) (nuc_removeConflict _ _ _ _ h hw.wf.nodupUC) hw
    · exact hw
  | rollback height =>
    simp only [Call.run]
    split
    · rename_i s' h; exact wf2_rollback hw h
    · exact hw
  | lock id op d =>
    simp only [Call.run]
    split
    · rename_i e s' h
      have hsm := sameMined_lockOutput h
      have huc : s'.unminedCredits = s.unminedCredits := by
        by_cases hk : isKnownOutput s op = true
        · cases hl : isLockedOutput s op now with
          | none => simp [lockOutput, hk, hl] at h; obtain ⟨_, rfl⟩ := h; rfl
          | some l =>
            by_cases hid : l.id = id
            · simp [lockOutput, hk, hl, hid] at h; obtain ⟨_, rfl⟩ := h; rfl
            · simp [lockOutput, hk, hl, hid] at h
        · simp [lockOutput, hk] at h
      exact wf2_of_sameMined hsm (by rw [huc]; exact hw.wf.nodupUC) hw
    · exact hw
  | unlock id op =>
    simp only [Call.run]
    split
    · rename_i s' h
      have hsm := sameMined_unlockOutput h
      have huc : s'.unminedCredits = s.unminedCredits := by
        unfold unlockOutput at h
        split at h
        · cases h
        · split at h
          · cases h; rfl
          · split at h
            · cases h
            · cases h; rfl
      exact wf2_of_sameMined hsm (by rw [huc]; exact hw.wf.nodupUC) hw
    · exact hw
  | sweep =>
    have huc : (deleteExpiredLockedOutputs s now).unminedCredits = s.unminedCredits := sweep_uc s now
    show WF2 (deleteExpiredLockedOutputs s now)
    exact wf2_of_sameMined (sameMined_sweep s now) (by rw [huc]; exact hw.wf.nodupUC) hw

/-- run a history of calls; every call comes with the clock value at which it is made -/
def runCalls : Store → List (Nat × Call) → Store
  | s, [] => s
  | s, p :: t => runCalls (p.2.run s p.1) t

/-- the consistency precondition holds at every step of the history -/
def PreAll : Store → List (Nat × Call) → Prop
  | _, [] => True
  | s, p :: t => p.2.Pre s ∧ PreAll (p.2.run s p.1) t

theorem wf2_runCalls (s : Store) (hw : WF2 s) (ops : List (Nat × Call)) (hp : PreAll s ops) :
    WF2 (runCalls s ops) := by
  induction ops generalizing s with
  | nil => exact hw
  | cons p t ih => exact ih _ (wf2_run s p.1 p.2 hw hp.1) hp.2


theorem inv_runCalls (ops : List (Nat × Call)) (hp : PreAll Store.empty ops) : Inv (runCalls Store.empty ops) :=
  inv_of_wf _ (wf2_runCalls _ wf2_empty ops hp).wf

end TxStore
