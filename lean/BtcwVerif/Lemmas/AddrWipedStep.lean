/-
C05 support: "in every reachable LOCKED state every clear-text key buffer is nil / zero" as a state invariant of the
AddrLock model on a tree with f1 (cache purge), f11 (last addresses wiped), f2b (no panic inside Unlock) and f13 (the
OnCommit closure wipes what it caches while locked): `stW_step`, `stW_run`.
-/
import BtcwVerif.Lemmas.AddrWiped
namespace AddrLock

/-- the property of a memory: if it is locked, every clear-text key buffer is clear -/
def LockedClear (m : Mem) : Prop := m.locked = true → KeyClear m

theorem lockedClear_lockMem (cfg : Cfg) (hf1 : cfg.f1 = true) (hf11 : cfg.f11 = true) (m : Mem) :
    LockedClear (lockMem cfg m) := fun _ => keyClear_lockMem cfg hf1 hf11 m

theorem lockedClear_unlocked {m : Mem} (h : m.locked = false) : LockedClear m := by
  intro h'; rw [h] at h'; cases h'

/-- a step that keeps the scalar fields and is `LExt` when it starts locked keeps `LockedClear` -/
theorem lockedClear_of_lExt {m m' : Mem} (hs : Scal m' = Scal m) (he : m.locked = true → LExt m m')
    (h : LockedClear m) : LockedClear m' := by
  intro hl'
  have hl : m.locked = true := by
    have : m'.locked = m.locked := congrArg (·.1) hs
    rw [← this]; exact hl'
  have hk := (keyClear_iff m).mp (h hl)
  exact (keyClear_iff m').mpr ⟨scalClr_of_scal hs hk.1, (he hl).clr hk.2⟩

/-! ### plain operations -/

theorem exec_lExt (s : State) (hf1 : s.cfg.f1 = true) (m : Mem) (hs : s.mem = some m) (hl : m.locked = true) (op : Op)
    (hp : op.plain = true) (m' : Mem) (h : (exec s m op).1.mem = some m') : LExt m m' := by
  cases op <;> simp only [Op.plain] at hp <;> simp only [exec] at h
  all_goals try contradiction
  case newAccount => split at h <;> (simp only [hs] at h; cases h; exact LExt.refl _)
  case rename => cases h; exact lExt_rename ..
  case next =>
    split at h <;> (simp only [] at h; cases h; exact lExt_nextAddresses _ _ _ _ _ _ hl)
  case extend => cases h; exact lExt_extend _ _ _ _ _ _ _ hl
  case importKey => cases h; exact lExt_importKey _ _ _ _ _ hl
  case importScript => cases h; exact lExt_importScript _ _ _ _ _ _ hl
  case markUsed => cases h; exact lExt_markUsed ..
  case setSynced => cases h; exact lExt_setSynced ..
  case setBirthday => simp only [hs] at h; cases h; exact LExt.refl _
  case privKey =>
    split at h
    · simp only [hs] at h; cases h; exact LExt.refl _
    · rename_i r hr; simp only [] at h; cases h
      have h1 := lExt_addressOf hl hr
      rw [privKeyObj_locked _ _ (by rw [h1.locked]; exact hl)]; exact h1
  case lastPrivKey sc acct int =>
    have hq := lExt_query s.disk m (.lastAddr sc acct int) hl
    split at h
    · rename_i m1 k a hm
      rw [hm] at hq
      split at h <;> (simp only [] at h; cases h)
      · rw [privKeyObj_locked _ _ (by rw [hq.locked]; exact hl)]; exact hq
      · exact hq
    · rename_i m1 e hm; rw [hm] at hq; simp only [] at h; cases h; exact hq
    · rename_i m1 _ _ hm; rw [hm] at hq; simp only [] at h; cases h; exact hq
  case script =>
    split at h
    · simp only [hs] at h; cases h; exact LExt.refl _
    · rename_i r hr; simp only [] at h; cases h
      have h1 := lExt_addressOf hl hr
      exact h1.trans (lExt_scriptObj _ _ (by rw [h1.locked]; exact hl))
  case crypt => simp only [hs] at h; cases h; exact LExt.refl _
  case derive => cases h; exact lExt_derivePath _ _ _ _ _ _ hl
  case deriveCache => cases h; rw [deriveCache_locked _ hf1 _ _ _ hl]; exact LExt.refl _
  case q => cases h; exact lExt_query _ _ _ hl

/-! ### Unlock never panics on a tree with 2a11dd6 -/

theorem loadAcct_err_ne_panic {d : Disk} {m : Mem} {sc a : Nat} {e : Err} (h : loadAcct d m sc a = .error e) :
    e ≠ .panic := by
  unfold loadAcct at h
  split at h
  · cases h
  · split at h
    · cases h; simp
    · split at h
      · cases h; simp
      · split at h
        · cases h; simp
        · cases h

theorem unlockDou_no_panic (cfg : Cfg) (hf : cfg.f2b = true) (d : Disk) (sc : Nat) (es : List Dou) (m : Mem) :
    (unlockDou cfg d sc es m).2 ≠ some .panic := by
  induction es generalizing m with
  | nil => simp [unlockDou]
  | cons e es ih =>
    simp only [unlockDou]
    split
    · rename_i err hl
      intro hc
      simp only [Option.some.injEq] at hc
      exact loadAcct_err_ne_panic hl hc
    · split
      · exact ih _
      · exact ih _

theorem unlockScopes_no_panic (cfg : Cfg) (hf : cfg.f2b = true) (d : Disk) (scs : List Nat) (m : Mem) :
    (unlockScopes cfg d scs m).2 ≠ some .panic := by
  induction scs generalizing m with
  | nil => simp [unlockScopes]
  | cons sc rest ih =>
    simp only [unlockScopes]
    split
    · simp
    · rename_i ai _
      have h1 := unlockDou_no_panic cfg hf d sc ((m.updScope sc fun s => { s with acctInfo := ai }).scopes sc).dou
        (m.updScope sc fun s => { s with acctInfo := ai })
      split
      · rename_i m2 e heq; rw [heq] at h1; exact h1
      · exact ih _

/-! ### the operations that change the lock state -/

theorem lockedClear_unlock (cfg : Cfg) (hf1 : cfg.f1 = true) (hf11 : cfg.f11 = true) (hf2b : cfg.f2b = true)
    (d : Disk) (m : Mem) (p : Nat) (h : LockedClear m) : LockedClear (unlock cfg d m p).1 := by
  unfold unlock
  split
  · exact h
  · split
    · rename_i hnl
      have hl : m.locked = false := by simpa using hnl
      dsimp only
      split
      · exact lockedClear_unlocked hl
      · exact lockedClear_lockMem cfg hf1 hf11 _
    · split
      · exact lockedClear_lockMem cfg hf1 hf11 _
      · dsimp only
        have hnp := unlockScopes_no_panic cfg hf2b d (List.range nScopes) (unlockStart cfg m)
        split
        · rename_i m2 heq; rw [heq] at hnp; exact absurd rfl hnp
        · exact lockedClear_lockMem cfg hf1 hf11 _
        · exact lockedClear_unlocked rfl

theorem lockedClear_lockOp (cfg : Cfg) (hf1 : cfg.f1 = true) (hf11 : cfg.f11 = true) (m : Mem) (h : LockedClear m) :
    LockedClear (lockOp cfg m).1 := by
  unfold lockOp
  split
  · exact h
  · split
    · exact h
    · exact lockedClear_lockMem cfg hf1 hf11 _

theorem lockedClear_changePass (cfg : Cfg) (d : Disk) (m : Mem) (o n : Nat) (pr : Bool) (h : LockedClear m) :
    LockedClear (changePass cfg d m o n pr).2.1 := by
  unfold changePass
  split
  · exact h
  · split
    · split
      · exact h
      · intro hl
        have hl' : m.locked = true := hl
        have hk := h hl'
        exact ⟨by simp [hl'], hk.cpriv, hk.cscript, by simp [hl'], hk.acct, hk.pkc, hk.addrs, hk.last⟩
    · split
      · exact h
      · intro hl
        have hk := h hl
        exact ⟨hk.master, hk.cpriv, hk.cscript, hk.hashed, hk.acct, hk.pkc, hk.addrs, hk.last⟩

theorem lockedClear_convertWO (cfg : Cfg) (hf1 : cfg.f1 = true) (hf11 : cfg.f11 = true) (d : Disk) (m : Mem)
    (h : LockedClear m) : LockedClear (convertWO cfg d m).2 := by
  unfold convertWO
  split
  · exact h
  · dsimp only
    have h1 : KeyClear (if m.locked = true then m else lockMem cfg m) := by
      split
      · rename_i hl; exact h hl
      · exact keyClear_lockMem cfg hf1 hf11 m
    generalize (if m.locked = true then m else lockMem cfg m) = m1 at h1 ⊢
    intro _
    refine ⟨by simp, by simp, by simp, h1.hashed, ?_, h1.pkc, ?_, ?_⟩
    · intro sc hsc p hp
      simp only [List.mem_map] at hp
      obtain ⟨q, hq, rfl⟩ := hp
      exact h1.acct sc hsc q hq
    · intro sc hsc p hp hk
      have := h1.addrs sc hsc p hp
      dsimp only at hp hk ⊢
      split
      · split at hk
        · exact this hk
        · exact this hk
      · rename_i hc; rw [if_neg hc] at hk; exact this hk
    · intro sc hsc p hp
      simp only [List.mem_map] at hp
      obtain ⟨q, hq, rfl⟩ := hp
      have := h1.last sc hsc q hq
      dsimp only
      constructor
      · intro hk; split
        · split at hk
          · exact this.1 hk
          · exact this.1 hk
        · rename_i hc; rw [if_neg hc] at hk; exact this.1 hk
      · intro hk; split
        · split at hk
          · exact this.2 hk
          · exact this.2 hk
        · rename_i hc; rw [if_neg hc] at hk; exact this.2 hk

/-! ### the OnCommit closures -/

theorem lockedClear_runPend (cfg : Cfg) (hf13 : cfg.f13 = true) (m : Mem) (p : Pend) (hk : PendKind m p)
    (h : LockedClear m) : LockedClear (runPend cfg m p) :=
  lockedClear_of_lExt (scal_runPend cfg m p) (fun hl => lExt_runPend cfg hf13 m p hl hk) h

theorem lockedClear_foldl_runPend (cfg : Cfg) (hf13 : cfg.f13 = true) (ps : List Pend) (m : Mem)
    (hk : ∀ p ∈ ps, PendKind m p) (h : LockedClear m) : LockedClear (ps.foldl (runPend cfg) m) := by
  induction ps generalizing m with
  | nil => exact h
  | cons p ps ih =>
    simp only [List.foldl]
    exact ih _ (fun q hq => (hk q (List.mem_cons_of_mem _ hq)).ext (wExt_runPend cfg m p (hk p List.mem_cons_self)))
      (lockedClear_runPend cfg hf13 m p (hk p List.mem_cons_self) h)

/-! ### every operation, every history -/

/-- the flags the invariant needs (all on in the current tree) -/
structure WFlags (cfg : Cfg) : Prop where
  f1  : cfg.f1 = true
  f11 : cfg.f11 = true
  f2b : cfg.f2b = true
  f13 : cfg.f13 = true

structure StW (s : State) : Prop where
  mem  : ∀ m, s.mem = some m → LockedClear m ∧ LastKind m ∧ ∀ p ∈ s.pend, PendKind m p
  pend : s.snap = none → s.pend = []

theorem lockedClear_exec (s : State) (hf : WFlags s.cfg) (m : Mem) (hs : s.mem = some m) (op : Op) (h : LockedClear m)
    (m' : Mem) (hm : (exec s m op).1.mem = some m') : LockedClear m' := by
  by_cases hp : op.plain = true
  · exact lockedClear_of_lExt (scal_exec s m hs op hp m' hm) (fun hl => exec_lExt s hf.f1 m hs hl op hp m' hm) h
  · cases op <;> simp only [Op.plain] at hp <;> simp only [exec] at hm
    all_goals try (exact absurd trivial hp)
    case create => rw [hs] at hm; cases hm; exact h
    case reopen => rw [hs] at hm; cases hm; exact h
    case begin => rw [hs] at hm; cases hm; exact h
    case commit => rw [hs] at hm; cases hm; exact h
    case rollback => rw [hs] at hm; cases hm; exact h
    case unlock p => cases hm; exact lockedClear_unlock _ hf.f1 hf.f11 hf.f2b _ _ _ h
    case lock => cases hm; exact lockedClear_lockOp _ hf.f1 hf.f11 _ h
    case changePass o n pr => cases hm; exact lockedClear_changePass _ _ _ _ _ _ h
    case convertWO => cases hm; exact lockedClear_convertWO _ hf.f1 hf.f11 _ _ h

theorem stW_exec (s : State) (hf : WFlags s.cfg) (m : Mem) (hs : s.mem = some m) (op : Op) (hd : LockedClear m)
    (hlk : LastKind m) (hp : ∀ p ∈ s.pend, PendKind m p) (m' : Mem) (h : (exec s m op).1.mem = some m') :
    LockedClear m' ∧ LastKind m' ∧ ∀ p ∈ (exec s m op).1.pend, PendKind m' p := by
  have he := exec_mem_wExt s m hs op m' h
  refine ⟨lockedClear_exec s hf m hs op hd m' h, he.last hlk, ?_⟩
  by_cases hn : ∃ sc a n i, op = .next sc a n i
  · obtain ⟨sc, a, n, i, rfl⟩ := hn
    intro p hpp
    rcases exec_next_pendKind s m sc a n i m' h p hpp with h1 | h1
    · exact (hp p h1).ext he
    · exact h1
  · rw [exec_pend s m op (fun sc a n i hop => hn ⟨sc, a, n, i, hop⟩)]
    intro p hpp; exact (hp p hpp).ext he

theorem keyClear_openMem (d : Disk) : KeyClear (openMem d) := by
  refine ⟨?_, by simp [openMem], by simp [openMem], rfl, ?_, fun _ _ => rfl, ?_, ?_⟩
  · simp only [openMem]; split <;> simp
  · intro sc _ p hp; simp [openMem] at hp
  · intro sc _ p hp; simp [openMem] at hp
  · intro sc _ p hp; simp [openMem] at hp

theorem lastKind_openMem (d : Disk) : LastKind (openMem d) := by
  intro sc p hp; simp [openMem] at hp

/-- the buffer map of a locked manager as the hook reports it: `KeyClear`, and the clear-text key of BOTH cached
last-address objects of every cached account is nil (they are `*managedAddress` objects: `LastKind`) -/
structure BufClear (m : Mem) : Prop where
  key    : KeyClear m
  lastCT : ∀ sc, sc < nScopes → ∀ p ∈ (m.scopes sc).acctInfo,
             (m.heap p.2.lastExt).ct = false ∧ (m.heap p.2.lastInt).ct = false

theorem bufClear_of {m : Mem} (hk : KeyClear m) (hl : LastKind m) : BufClear m :=
  ⟨hk, fun sc hsc p hp => ⟨(hk.last sc hsc p hp).1 (hl sc p hp).1.2, (hk.last sc hsc p hp).2 (hl sc p hp).2.2⟩⟩

theorem stW_commitTx (s : State) (hf : WFlags s.cfg) (h : StW s) : StW (commitTx s) := by
  refine ⟨?_, fun _ => rfl⟩
  intro m hm
  simp only [commitTx] at hm
  cases hs : s.mem with
  | none => rw [hs] at hm; cases hm
  | some m0 =>
    rw [hs] at hm; simp only [Option.map] at hm; cases hm
    obtain ⟨h1, hk, h2⟩ := h.mem m0 hs
    exact ⟨lockedClear_foldl_runPend _ hf.f13 _ _ h2 h1, (wExt_foldl_runPend _ _ _ h2).last hk,
      fun p hp => by simp [commitTx] at hp⟩

theorem stW_rollbackTx (s : State) (h : StW s) : StW (rollbackTx s) := by
  refine ⟨?_, fun _ => rfl⟩
  intro m hm
  exact ⟨(h.mem m hm).1, (h.mem m hm).2.1, fun p hp => by simp [rollbackTx] at hp⟩

theorem stW_step (s : State) (hf : WFlags s.cfg) (op : Op) (h : StW s) : StW (step s op).1 := by
  have generic : ∀ m, s.mem = some m →
      StW (if s.snap.isSome || !op.writes then exec s m op
        else
          let r := exec { s with snap := some s.disk, pend := [] } m op
          if isErr r.2 then (rollbackTx r.1, r.2) else (commitTx r.1, r.2)).1 := by
    intro m hs
    obtain ⟨hd, hlk, hp⟩ := h.mem m hs
    split
    · rename_i hc
      refine ⟨fun m' hm' => stW_exec s hf m hs op hd hlk hp m' hm', ?_⟩
      intro hsn
      rw [exec_snap_same] at hsn
      have hw : op.writes = false := by simpa [hsn] using hc
      rw [exec_pend s m op (not_writes_not_next hw)]; exact h.pend hsn
    · dsimp only
      have hex : StW (exec { s with snap := some s.disk, pend := [] } m op).1 := by
        refine ⟨fun m' hm' => ?_, ?_⟩
        · exact stW_exec { s with snap := some s.disk, pend := [] } hf m hs op hd hlk (fun p hp => by simp at hp) m' hm'
        · intro hsn; rw [exec_snap_same] at hsn; cases hsn
      split
      · exact stW_rollbackTx _ hex
      · exact stW_commitTx _ (by rw [exec_cfg]; exact hf) hex
  unfold step
  cases op
  case create =>
    simp only []; split
    · exact h
    · split
      · exact h
      · rename_i hsn _
        have hsn' : s.snap = none := by cases hx : s.snap <;> simp_all
        refine ⟨?_, fun _ => h.pend hsn'⟩
        intro m hm; simp only at hm; cases hm
        exact ⟨fun _ => keyClear_openMem _, lastKind_openMem _, fun p hp => by rw [h.pend hsn'] at hp; simp at hp⟩
  case reopen =>
    simp only []; split
    · exact h
    · split
      · exact h
      · rename_i hsn _
        have hsn' : s.snap = none := by cases hx : s.snap <;> simp_all
        split
        · exact ⟨fun m hm => (by cases hm), fun _ => h.pend hsn'⟩
        · refine ⟨?_, fun _ => h.pend hsn'⟩
          intro m hm; simp only at hm; cases hm
          exact ⟨fun _ => keyClear_openMem _, lastKind_openMem _, fun p hp => by rw [h.pend hsn'] at hp; simp at hp⟩
  case begin =>
    simp only []; split
    · exact h
    · exact ⟨fun m hm => ⟨(h.mem m hm).1, (h.mem m hm).2.1, fun p hp => by simp at hp⟩, fun _ => rfl⟩
  case commit => simp only []; split; exact h; exact stW_commitTx _ hf h
  case rollback => simp only []; split; exact h; exact stW_rollbackTx _ h
  all_goals
    simp only []
    split
    · exact h
    · rename_i m hs; exact generic m hs

theorem stW_run (s : State) (hf : WFlags s.cfg) (ops : List Op) (h : StW s) : StW (run s ops) := by
  induction ops generalizing s with
  | nil => exact h
  | cons op ops ih => simp only [run]; exact ih _ (by rw [step_cfg]; exact hf) (stW_step s hf op h)

theorem stW_init (cfg : Cfg) : StW { cfg := cfg } := ⟨fun m hm => (by cases hm), fun _ => rfl⟩

end AddrLock
