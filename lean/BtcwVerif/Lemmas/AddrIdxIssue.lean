import BtcwVerif.Lemmas.AddrIdxInv
/-! Exact effect of `nextAddresses` / `extendAddresses` on counters, rows and heap; `IdxInv` through every operation. -/
set_option linter.unusedSectionVars false
set_option linter.unusedVariables false
set_option linter.unusedSimpArgs false
namespace AddrDerive
open AddrSym

variable {K P : Type} [DecidableEq K] [DecidableEq P]

theorem setNext_setNext (row : AcctRow K P) (int : Bool) (x y : Nat) : setNext (setNext row int x) int y = setNext row int y := by
  cases row <;> cases int <;> rfl
theorem setNext_self (row : AcctRow K P) (int : Bool) : setNext row int (rowNext row int) = row := by
  cases row <;> cases int <;> rfl
theorem rowNext_setNext (row : AcctRow K P) (int : Bool) (x : Nat) (int' : Bool) :
    rowNext (setNext row int x) int' = if int' = int then x else rowNext row int' := by
  cases row <;> cases int <;> cases int' <;> rfl
theorem rowPub_setNext (row : AcctRow K P) (int : Bool) (x : Nat) : rowPub (setNext row int x) = rowPub row := by
  cases row <;> cases int <;> rfl

theorem bumpAcctRow_accts (sc : Scope) (sd : ScopeDisk K P) (a b i : Nat) (row : AcctRow K P) (h : alookup sd.accts a = some row) :
    (bumpAcctRow sc sd a b i).1.accts = aset sd.accts a (setNext row (b == 1) (i + 1)) := by
  unfold bumpAcctRow; simp [h]

/-- exact effect of issuing a list of objects of one account / branch -/
theorem issueAll_rows (sc : Scope) (toDou : Bool) (a b : Nat) : ∀ (objs : List (KeyObj K P)) (s : State K P) (rows : List Row)
    (idxs : List Nat) (sm : ScopeMem K P) (sd : ScopeDisk K P) (row : AcctRow K P),
    getSM s sc = some sm → getSD s sc = some sd → alookup sd.accts a = some row → (∀ o ∈ objs, o.acct = a ∧ o.branch = b) →
    (issueAll sc toDou objs s rows idxs).1.mem.heap = s.mem.heap ++ objs.map Obj.key ∧
    (∀ sc' a', ¬(sc' = sc ∧ a' = a) → acctRow (issueAll sc toDou objs s rows idxs).1 sc' a' = acctRow s sc' a') ∧
    acctRow (issueAll sc toDou objs s rows idxs).1 sc a =
      some (setNext row (b == 1) (getLast (objs.map (·.index)) (rowNext row (b == 1)))) ∧
    (∀ sc' a', cacheAt (issueAll sc toDou objs s rows idxs).1 sc' a' = cacheAt s sc' a') ∧
    (∃ sm', getSM (issueAll sc toDou objs s rows idxs).1 sc = some sm') := by
  intro objs
  induction objs with
  | nil =>
    intro s rows idxs sm sd row hsm hsd hrow _
    refine ⟨by simp [issueAll], fun _ _ _ => rfl, ?_, fun _ _ => rfl, sm, hsm⟩
    simp [issueAll, getLast, setNext_self, acctRow_of_getSD hsd, hrow]
  | cons o rest ih =>
    intro s rows idxs sm sd row hsm hsd hrow hobjs
    obtain ⟨ha, hb⟩ := hobjs o List.mem_cons_self
    unfold issueAll
    simp only [hsm, hsd]
    have hacc : (bumpAcctRow sc { sd with addrs := aset sd.addrs (chainId o) (AddrRow.chain o.acct o.branch o.index) } o.acct o.branch o.index).1.accts
        = aset sd.accts a (setNext row (b == 1) (o.index + 1)) := by
      rw [bumpAcctRow_accts sc _ o.acct o.branch o.index row (by rw [ha]; exact hrow), ha, hb]
    obtain ⟨i1, i2, i3, i4, i5⟩ := ih
      (putSM (putSD (alloc s (.key o)).1 sc
        (bumpAcctRow sc { sd with addrs := aset sd.addrs (chainId o) (AddrRow.chain o.acct o.branch o.index) } o.acct o.branch o.index).1) sc
        { sm with addrs := aset sm.addrs (chainId o) (alloc s (Obj.key o)).2,
                  dou := if toDou then sm.dou ++ [((alloc s (Obj.key o)).2, o.branch, o.index)] else sm.dou })
      (rows ++ addrRowPuts sc (chainId o) (AddrRow.chain o.acct o.branch o.index) ++
        (bumpAcctRow sc { sd with addrs := aset sd.addrs (chainId o) (AddrRow.chain o.acct o.branch o.index) } o.acct o.branch o.index).2)
      (idxs ++ [(alloc s (Obj.key o)).2]) _ _ (setNext row (b == 1) (o.index + 1))
      (by rw [getSM_putSM, if_pos rfl]) (by rw [getSD_putSM, getSD_putSD, if_pos rfl])
      (by rw [hacc, alookup_aset_self]) (fun o' ho' => hobjs o' (List.mem_cons_of_mem _ ho'))
    refine ⟨?_, ?_, ?_, ?_, i5⟩
    · rw [i1]; simp
    · intro sc' a' hne
      rw [i2 sc' a' hne, acctRow_putSM, acctRow_putSD]
      by_cases hsc : sc = sc'
      · subst hsc
        simp only [if_true, hacc, alookup_aset, acctRow_alloc, acctRow_of_getSD hsd]
        have : a ≠ a' := fun e => hne ⟨rfl, e.symm⟩
        simp [this]
      · simp [hsc]
    · rw [i3, setNext_setNext, rowNext_setNext]
      simp only [if_true, List.map_cons, getLast_cons]
    · intro sc' a'
      rw [i4, cacheAt_putSM]
      by_cases hsc : sc = sc'
      · subst hsc; simp [cacheAt_of_getSM hsm]
      · simp [hsc]

theorem mkAll_index (hd : HD K P) (sc : Scope) (acct : Nat) (ai : AcctInfo K P) (usePriv : Bool) (b : Nat) (typ : AddrType)
    (ac fp : Nat) : ∀ (idxs : List Nat) (objs : List (KeyObj K P)), mkAll hd sc acct ai usePriv b typ ac fp idxs = some objs →
      objs.map (·.index) = idxs ∧ ∀ o ∈ objs, o.scope = sc ∧ o.acct = acct ∧ o.branch = b := by
  intro idxs
  induction idxs with
  | nil => intro objs h; simp [mkAll] at h; subst h; exact ⟨rfl, fun o ho => by cases ho⟩
  | cons i t ih =>
    intro objs h
    unfold mkAll at h
    split at h
    · rename_i o os ho hos
      cases h
      obtain ⟨e1, e2⟩ := ih os hos
      have hf : o.index = i ∧ o.scope = sc ∧ o.acct = acct ∧ o.branch = b := by
        unfold mkChained at ho
        cases usePriv with
        | true =>
          simp only [if_true] at ho
          cases hk : ai.keyPriv with
          | none => simp [hk] at ho
          | some ak =>
            simp only [hk] at ho
            cases hd2 : derive2 hd ak b i with
            | none => simp [hd2] at ho
            | some k => simp [hd2] at ho; subst ho; exact ⟨rfl, rfl, rfl, rfl⟩
        | false =>
          simp at ho
          obtain ⟨p, _, rfl⟩ := ho
          exact ⟨rfl, rfl, rfl, rfl⟩
      refine ⟨by simp [hf.1, e1], fun o' ho' => ?_⟩
      rcases List.mem_cons.mp ho' with rfl | ho'
      · exact hf.2
      · exact e2 o' ho'
    · cases h

/-- exact effect of `commitIssue` -/
theorem commitIssue_rows {hd : HD K P} {s : State K P} (h : Inv hd s) {sc : Scope} {acct : Nat} {ai : AcctInfo K P}
    (hc : cacheAt s sc acct = some ai) (internal toDou : Bool) (objs : List (KeyObj K P)) (nn : Nat)
    (hobjs : ∀ o ∈ objs, o.acct = acct ∧ o.branch = branchOf internal) :
    ∃ row, acctRow s sc acct = some row ∧
    (commitIssue s sc acct internal toDou objs nn).1.mem.heap = s.mem.heap ++ objs.map Obj.key ∧
    (∀ sc' a', ¬(sc' = sc ∧ a' = acct) → acctRow (commitIssue s sc acct internal toDou objs nn).1 sc' a' = acctRow s sc' a') ∧
    acctRow (commitIssue s sc acct internal toDou objs nn).1 sc acct =
      some (setNext row internal (getLast (objs.map (·.index)) (rowNext row internal))) ∧
    (∀ sc' a', ¬(sc' = sc ∧ a' = acct) → cacheAt (commitIssue s sc acct internal toDou objs nn).1 sc' a' = cacheAt s sc' a') ∧
    cacheAt (commitIssue s sc acct internal toDou objs nn).1 sc acct =
      some (if internal then { ai with nextInt := nn } else { ai with nextExt := nn }) := by
  obtain ⟨row, hr, _⟩ := h.cache sc acct ai hc
  cases hsm : getSM s sc with
  | none => simp [cacheAt, hsm] at hc
  | some sm =>
    cases hsd : getSD s sc with
    | none => simp [acctRow, hsd] at hr
    | some sd =>
      have hb1 : (branchOf internal == 1) = internal := by cases internal <;> rfl
      obtain ⟨i1, i2, i3, i4, sm', i5⟩ := issueAll_rows sc toDou acct (branchOf internal) objs s [] [] sm sd row hsm hsd
        (by rw [← acctRow_of_getSD hsd]; exact hr) hobjs
      rw [hb1] at i3
      refine ⟨row, hr, ?_⟩
      unfold commitIssue
      rcases hi : issueAll sc toDou objs s [] [] with ⟨s1, rows, idxs⟩
      rw [hi] at i1 i2 i3 i4 i5
      simp only at i1 i2 i3 i4 i5 ⊢
      have hc1 : alookup sm'.acctInfo acct = some ai := by rw [← cacheAt_of_getSM i5, i4]; exact hc
      simp only [i5, hc1]
      refine ⟨i1, i2, i3, ?_, ?_⟩
      · intro sc' a' hne
        rw [cacheAt_putSM]
        by_cases hsc : sc = sc'
        · subst hsc
          have : acct ≠ a' := fun e => hne ⟨rfl, e.symm⟩
          simp only [if_true, alookup_aset, this, if_false]
          rw [← cacheAt_of_getSM i5, i4]
        · simp [hsc, i4]
      · rw [cacheAt_putSM]; simp [alookup_aset]

-- ---------------------------------------------------------------------------------------------------------
-- the log grows by a valid run

theorem IsValidRun.append {valid : Nat → Bool} {a b c : Nat} {l1 l2 : List Nat} (h1 : IsValidRun valid a b l1)
    (h2 : IsValidRun valid b c l2) (hab : a ≤ b) (hbc : b ≤ c) : IsValidRun valid a c (l1 ++ l2) := by
  refine ⟨?_, ?_, ?_⟩
  · rw [List.pairwise_append]
    refine ⟨h1.1, h2.1, fun x hx y hy => ?_⟩
    have := (h1.2.1 x hx).2.1
    have := (h2.2.1 y hy).1
    omega
  · intro i hi
    rcases List.mem_append.mp hi with hi | hi
    · have := h1.2.1 i hi; exact ⟨this.1, by omega, this.2.2⟩
    · have := h2.2.1 i hi; exact ⟨by omega, this.2.1, this.2.2⟩
  · intro j hj1 hj2 hv
    rcases Nat.lt_or_ge j b with hlt | hge
    · exact List.mem_append_left _ (h1.2.2 j hj1 hlt hv)
    · exact List.mem_append_right _ (h2.2.2 j hge hj2 hv)

theorem branchOf_inj (x y : Bool) (h : branchOf x = branchOf y) : x = y := by cases x <;> cases y <;> simp [branchOf] at h ⊢

theorem idxOf_append (l1 l2 : List (KeyObj K P)) (sc : Scope) (a b : Nat) : idxOf (l1 ++ l2) sc a b = idxOf l1 sc a b ++ idxOf l2 sc a b := by
  simp [idxOf, List.filter_append]

theorem idxOf_all (l : List (KeyObj K P)) (sc : Scope) (a b : Nat) (h : ∀ o ∈ l, o.scope = sc ∧ o.acct = a ∧ o.branch = b) :
    idxOf l sc a b = l.map (·.index) := by
  unfold idxOf
  rw [List.filter_eq_self.mpr]
  intro o ho
  simpa using h o ho

theorem idxOf_none (l : List (KeyObj K P)) (sc sc' : Scope) (a a' b b' : Nat) (h : ∀ o ∈ l, o.scope = sc ∧ o.acct = a ∧ o.branch = b)
    (hne : ¬(sc' = sc ∧ a' = a ∧ b' = b)) : idxOf l sc' a' b' = [] := by
  unfold idxOf
  rw [List.filter_eq_nil_iff.mpr]
  · rfl
  · intro o ho
    obtain ⟨h1, h2, h3⟩ := h o ho
    simp only [decide_eq_true_eq]
    intro ⟨e1, e2, e3⟩
    exact hne ⟨by rw [← e1, h1], by rw [← e2, h2], by rw [← e3, h3]⟩

theorem IdxInv.issue {hd : HD K P} {s1 s2 : State K P} {log : List (KeyObj K P)} (h1 : Inv hd s1) (x : IdxInv hd s1 log)
    {sc : Scope} {acct : Nat} {ai : AcctInfo K P} (hc : cacheAt s1 sc acct = some ai) (internal : Bool)
    (objs : List (KeyObj K P)) (nn : Nat)
    (hobjs : ∀ o ∈ objs, o.scope = sc ∧ o.acct = acct ∧ o.branch = branchOf internal)
    (hrun : IsValidRun (validAt hd ai.keyPub (branchOf internal)) (if internal then ai.nextInt else ai.nextExt) nn (objs.map (·.index)))
    (hle : (if internal then ai.nextInt else ai.nextExt) ≤ nn)
    {row : AcctRow K P} (hr : acctRow s1 sc acct = some row)
    (hrows : ∀ sc' a', ¬(sc' = sc ∧ a' = acct) → acctRow s2 sc' a' = acctRow s1 sc' a')
    (hrow : acctRow s2 sc acct = some (setNext row internal nn))
    (hcaches : ∀ sc' a', ¬(sc' = sc ∧ a' = acct) → cacheAt s2 sc' a' = cacheAt s1 sc' a')
    (hcache : cacheAt s2 sc acct = some (if internal then { ai with nextInt := nn } else { ai with nextExt := nn })) :
    IdxInv hd s2 (log ++ objs) := by
  obtain ⟨row', hr', hcok⟩ := h1.cache sc acct ai hc
  rw [hr] at hr'; cases hr'
  have hn0 := x.next sc acct ai row hc hr
  have hnext0 : (if internal then ai.nextInt else ai.nextExt) = rowNext row internal := by
    cases internal
    · simp [hn0.1]
    · simp [hn0.2]
  refine ⟨?_, ?_, ?_⟩
  · intro sc' a' ai' r' hc' hr''
    by_cases hm : sc' = sc ∧ a' = acct
    · obtain ⟨e1, e2⟩ := hm; subst e1 e2
      rw [hcache] at hc'; rw [hrow] at hr''
      cases hc'; cases hr''
      cases internal
      · simp [rowNext_setNext, hn0.2]
      · simp [rowNext_setNext, hn0.1]
    · rw [hcaches _ _ hm] at hc'; rw [hrows _ _ hm] at hr''
      exact x.next sc' a' ai' r' hc' hr''
  · intro sc' a' r' hr'' int'
    rw [idxOf_append]
    by_cases hm : sc' = sc ∧ a' = acct
    · obtain ⟨e1, e2⟩ := hm; subst e1 e2
      rw [hrow] at hr''; cases hr''
      rw [rowPub_setNext, rowNext_setNext]
      by_cases hint : int' = internal
      · subst hint
        simp only [if_true]
        rw [idxOf_all objs sc' a' _ hobjs]
        have hold := x.run sc' a' row hr int'
        rw [hnext0, hcok.pub] at hrun
        exact hold.append hrun (Nat.zero_le _) (by rw [← hnext0]; exact hle)
      · simp only [hint, if_false]
        rw [idxOf_none objs sc' sc' a' a' _ _ hobjs (by intro ⟨_, _, e⟩; exact hint (branchOf_inj _ _ e)), List.append_nil]
        exact x.run sc' a' row hr int'
    · rw [hrows _ _ hm] at hr''
      rw [idxOf_none objs sc sc' acct a' _ _ hobjs (by intro ⟨e1, e2, _⟩; exact hm ⟨e1, e2⟩), List.append_nil]
      exact x.run sc' a' r' hr'' int'
  · intro o ho
    rcases List.mem_append.mp ho with ho | ho
    · obtain ⟨k1, k2⟩ := x.known o ho
      refine ⟨?_, k2⟩
      by_cases hm : o.scope = sc ∧ o.acct = acct
      · rw [hm.1, hm.2, hrow]; rfl
      · rw [hrows _ _ hm]; exact k1
    · obtain ⟨e1, e2, e3⟩ := hobjs o ho
      refine ⟨by rw [e1, e2, hrow]; rfl, ?_⟩
      rw [e3]; cases internal <;> simp [branchOf]

/-- key objects a step allocates -/
def newObjs (s s' : State K P) : List (KeyObj K P) :=
  (s'.mem.heap.drop s.mem.heap.length).filterMap fun o => match o with | .key k => some k | .scr _ => none

theorem newObjs_same {s s' : State K P} (h : s'.mem.heap = s.mem.heap) : newObjs s s' = [] := by
  simp [newObjs, h]

theorem newObjs_keys {s s' : State K P} (objs : List (KeyObj K P)) (h : s'.mem.heap = s.mem.heap ++ objs.map Obj.key) :
    newObjs s s' = objs := by
  simp only [newObjs, h, List.drop_left, List.filterMap_map]
  clear h
  induction objs with
  | nil => rfl
  | cons o t ih => simp [List.filterMap_cons, ih]

theorem bindAll_views : ∀ (l : List Nat) (hb : Nat) (s : State K P), (bindAll l hb s).mem.heap = s.mem.heap ∧
    (∀ sc a, acctRow (bindAll l hb s) sc a = acctRow s sc a) ∧ (∀ sc a, cacheAt (bindAll l hb s) sc a = cacheAt s sc a) := by
  intro l
  induction l with
  | nil => intro hb s; exact ⟨rfl, fun _ _ => rfl, fun _ _ => rfl⟩
  | cons i t ih =>
    intro hb s
    obtain ⟨h1, h2, h3⟩ := ih (hb + 1) (bindH s hb i)
    exact ⟨h1, h2, h3⟩

/-- the issuing tail shared by `nextAddresses` and `extendAddresses` -/
theorem IdxInv.commit {hd : HD K P} {s s1 : State K P} {log : List (KeyObj K P)} (h1 : Inv hd s1) (x1 : IdxInv hd s1 log)
    (hheap : s1.mem.heap = s.mem.heap) {sc : Scope} {acct : Nat} {ai : AcctInfo K P} (hc : cacheAt s1 sc acct = some ai)
    (internal toDou : Bool) {usePriv : Bool} {typ : AddrType} {ac fp : Nat} {idxs : List Nat} {objs : List (KeyObj K P)}
    (hm : mkAll hd sc acct ai usePriv (branchOf internal) typ ac fp idxs = some objs)
    (hrun : IsValidRun (validAt hd ai.keyPub (branchOf internal)) (if internal then ai.nextInt else ai.nextExt)
      (getLast idxs (if internal then ai.nextInt else ai.nextExt)) idxs)
    (hle : (if internal then ai.nextInt else ai.nextExt) ≤ getLast idxs (if internal then ai.nextInt else ai.nextExt))
    (s3 : State K P)
    (h3 : s3.mem.heap = (commitIssue s1 sc acct internal toDou objs (getLast idxs (if internal then ai.nextInt else ai.nextExt))).1.mem.heap ∧
      (∀ sc' a', acctRow s3 sc' a' = acctRow (commitIssue s1 sc acct internal toDou objs (getLast idxs (if internal then ai.nextInt else ai.nextExt))).1 sc' a') ∧
      (∀ sc' a', cacheAt s3 sc' a' = cacheAt (commitIssue s1 sc acct internal toDou objs (getLast idxs (if internal then ai.nextInt else ai.nextExt))).1 sc' a')) :
    IdxInv hd s3 (log ++ newObjs s s3) := by
  obtain ⟨hidx, hobjs⟩ := mkAll_index hd sc acct ai usePriv (branchOf internal) typ ac fp idxs objs hm
  obtain ⟨row, hr, c1, c2, c3, c4, c5⟩ := commitIssue_rows h1 hc internal toDou objs
    (getLast idxs (if internal then ai.nextInt else ai.nextExt)) (fun o ho => ⟨(hobjs o ho).2.1, (hobjs o ho).2.2⟩)
  have hn0 := x1.next sc acct ai row hc hr
  have hnext0 : (if internal then ai.nextInt else ai.nextExt) = rowNext row internal := by
    cases internal
    · simp [hn0.1]
    · simp [hn0.2]
  rw [hidx, ← hnext0] at c3
  have hnew : newObjs s s3 = objs := newObjs_keys objs (by rw [h3.1, c1, hheap])
  rw [hnew]
  exact x1.issue h1 hc internal objs _ hobjs (by rw [hidx]; exact hrun) hle hr
    (fun sc' a' hne => by rw [h3.2.1, c2 sc' a' hne]) (by rw [h3.2.1, c3])
    (fun sc' a' hne => by rw [h3.2.2, c4 sc' a' hne]) (by rw [h3.2.2, c5])

theorem opNext_idx {hd : HD K P} (hlaw : hd.Lawful) (hn : hd.NoHardPub) {s : State K P} {log : List (KeyObj K P)} (h : Inv hd s)
    (x : IdxInv hd s log) (sc : Scope) (acct n : Nat) (internal : Bool) (hbase : Nat) :
    IdxInv hd (opNext hd s sc acct n internal hbase).1 (log ++ newObjs s (opNext hd s sc acct n internal hbase).1) := by
  have hsame : ∀ s' : State K P, s'.mem.heap = s.mem.heap → IdxFrame s s' → IdxInv hd s' (log ++ newObjs s s') := by
    intro s' hh f; rw [newObjs_same hh, List.append_nil]; exact x.frame f
  unfold opNext
  split
  · exact hsame _ rfl (IdxFrame.refl _)
  · split
    · exact hsame _ rfl (IdxFrame.refl _)
    · rename_i s1 ai hl
      obtain ⟨h1, hc, hf, sm, sd, hsm, hsd⟩ := loadAcct_spec h hl
      have f1 := loadAcct_idxFrame hl
      have x1 := x.frame f1
      simp only [hsm]
      cases internal with
      | false =>
        simp only [if_true, Bool.false_eq_true, if_false]
        split
        · exact hsame _ hf.heap f1
        · split
          · exact hsame _ hf.heap f1
          · split
            · exact hsame _ hf.heap f1
            · split
              · exact hsame _ hf.heap f1
              · rename_i idxs hidx
                split
                · exact hsame _ hf.heap f1
                · rename_i objs hm
                  have hspec := nextIdxs_spec _ _ _ _ hidx
                  exact x1.commit h1 hf.heap hc false _ hm hspec.2.2 hspec.2.1 _ (bindAll_views _ _ _)
      | true =>
        simp only [if_true, Bool.false_eq_true, if_false]
        split
        · exact hsame _ hf.heap f1
        · split
          · exact hsame _ hf.heap f1
          · split
            · exact hsame _ hf.heap f1
            · split
              · exact hsame _ hf.heap f1
              · rename_i idxs hidx
                split
                · exact hsame _ hf.heap f1
                · rename_i objs hm
                  have hspec := nextIdxs_spec _ _ _ _ hidx
                  exact x1.commit h1 hf.heap hc true _ hm hspec.2.2 hspec.2.1 _ (bindAll_views _ _ _)

theorem opExtend_idx {hd : HD K P} (hlaw : hd.Lawful) (hn : hd.NoHardPub) {s : State K P} {log : List (KeyObj K P)} (h : Inv hd s)
    (x : IdxInv hd s log) (sc : Scope) (acct last : Nat) (internal : Bool) :
    IdxInv hd (opExtend Cfg.fixed hd s sc acct last internal).1 (log ++ newObjs s (opExtend Cfg.fixed hd s sc acct last internal).1) := by
  have hsame : ∀ s' : State K P, s'.mem.heap = s.mem.heap → IdxFrame s s' → IdxInv hd s' (log ++ newObjs s s') := by
    intro s' hh f; rw [newObjs_same hh, List.append_nil]; exact x.frame f
  unfold opExtend
  simp only [show Cfg.fixed.f3 = false from rfl, Bool.false_eq_true, if_false]
  split
  · exact hsame _ rfl (IdxFrame.refl _)
  · split
    · exact hsame _ rfl (IdxFrame.refl _)
    · rename_i s1 ai hl
      obtain ⟨h1, hc, hf, sm, sd, hsm, hsd⟩ := loadAcct_spec h hl
      have f1 := loadAcct_idxFrame hl
      have x1 := x.frame f1
      simp only [hsm]
      cases internal with
      | false =>
        simp only [if_true, Bool.false_eq_true, if_false]
        split
        · exact hsame _ hf.heap f1
        · split
          · exact hsame _ hf.heap f1
          · split
            · exact hsame _ hf.heap (f1.trans (IdxFrame.poison _))
            · split
              · exact hsame _ hf.heap f1
              · split
                · exact hsame _ hf.heap f1
                · rename_i idxs hidx
                  split
                  · exact hsame _ hf.heap f1
                  · rename_i objs hm
                    have hspec := extendIdxs_spec _ _ _ _ _ hidx
                    exact x1.commit h1 hf.heap hc false _ hm hspec.2.2 hspec.1 _ ⟨rfl, fun _ _ => rfl, fun _ _ => rfl⟩
      | true =>
        simp only [if_true, Bool.false_eq_true, if_false]
        split
        · exact hsame _ hf.heap f1
        · split
          · exact hsame _ hf.heap f1
          · split
            · exact hsame _ hf.heap (f1.trans (IdxFrame.poison _))
            · split
              · exact hsame _ hf.heap f1
              · split
                · exact hsame _ hf.heap f1
                · rename_i idxs hidx
                  split
                  · exact hsame _ hf.heap f1
                  · rename_i objs hm
                    have hspec := extendIdxs_spec _ _ _ _ _ hidx
                    exact x1.commit h1 hf.heap hc true _ hm hspec.2.2 hspec.1 _ ⟨rfl, fun _ _ => rfl, fun _ _ => rfl⟩

end AddrDerive
