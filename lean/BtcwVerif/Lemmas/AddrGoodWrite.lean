/-
Preservation of `Good` by the operations that write to the database (each run and committed in its own
transaction), part 2.
-/
import BtcwVerif.Lemmas.AddrGoodOps
namespace AddrLock

/-- well-formedness of the database image alone -/
structure DiskWF (d : Disk) : Prop where
  dpriv : d.watchOnly = false → ∀ sc a row, acctAns d sc a = .ok row → row.wo = false → row.hasPriv = true
  shape : ∀ sc k row, aget (d.scopes sc).addrs k = some row → (k.isChain = true ↔ row = .chain)
  accts : ∀ sc a row, aget (d.scopes sc).accts a = some row → a ≤ (d.scopes sc).lastAcct ∨ a = IMPORTED

theorem good_open {d : Disk} (h : DiskWF d) : Good d (openMem d) :=
  ⟨coherent_open d, by intro sc k id h; simp [openMem, aget] at h, by intro sc a ai h; simp [openMem, aget] at h,
   rfl, h.dpriv, h.shape⟩

theorem acctAns_congr {d d' : Disk} {sc : Nat} (h : (d'.scopes sc).accts = (d.scopes sc).accts) (a : Nat) :
    acctAns d' sc a = acctAns d sc a := by unfold acctAns; rw [h]

theorem addrAns_congr {d d' : Disk} {sc : Nat} {k : AKey}
    (h1 : aget (d'.scopes sc).addrs k = aget (d.scopes sc).addrs k)
    (h2 : ∀ a row, acctAns d sc a = .ok row → ∃ row', acctAns d' sc a = .ok row')
    {x : Nat} (h : addrAns d sc k = .addr k x) : addrAns d' sc k = .addr k x := by
  unfold addrAns at h ⊢
  rw [h1]
  cases hr : aget (d.scopes sc).addrs k with
  | none => simp [hr] at h
  | some row =>
    simp only [hr] at h ⊢
    cases row with
    | chain =>
      cases k with
      | chain a b i =>
        simp only at h ⊢
        cases ha : acctAns d sc a with
        | error e => simp [ha] at h
        | ok row0 =>
          obtain ⟨row', hr'⟩ := h2 a row0 ha
          simp only [ha] at h
          simp only [hr']; exact h
      | imp _ => simp at h
      | scr _ _ => simp at h
    | imp _ => exact h
    | script _ => exact h
    | wscript _ _ _ => exact h

theorem updScope_scopes (d : Disk) (sc : Nat) (f : ScopeDisk → ScopeDisk) (sc' : Nat) :
    (d.updScope sc f).scopes sc' = if sc' = sc then f (d.scopes sc) else d.scopes sc' := by
  simp only [Disk.updScope]; split
  · rename_i h; rw [h]
  · rfl

/-- a database change that leaves account rows and address rows of every scope alone, with a memory that has the
same caches and heap -/
theorem good_disk_same {d d' : Disk} {m m' : Mem} (hg : Good d m)
    (hs : m'.scopes = m.scopes) (hh : m'.heap = m.heap) (hn : m'.heapN = m.heapN) (hw : m'.watchOnly = m.watchOnly)
    (hacc : ∀ sc, (d'.scopes sc).accts = (d.scopes sc).accts)
    (hadr : ∀ sc, (d'.scopes sc).addrs = (d.scopes sc).addrs)
    (hwo : d'.watchOnly = d.watchOnly) (hsy : m'.syncedTo = d'.syncedTo) : Good d' m' := by
  have ha : ∀ sc a, acctAns d' sc a = acctAns d sc a := fun sc a => acctAns_congr (hacc sc) a
  have hio : ∀ a ai row, InfoOK m a ai row → InfoOK m' a ai row := by
    intro a ai row h; unfold InfoOK at *; rw [hh]; exact h
  refine ⟨⟨?_, ?_, ?_, hsy⟩, ?_, ?_, by rw [hw, hg.wo, hwo], ?_, ?_⟩
  · intro sc a ai h; rw [hs] at h
    obtain ⟨row, h1, h2⟩ := hg.coh.acct sc a ai h; exact ⟨row, by rw [ha]; exact h1, hio _ _ _ h2⟩
  · intro sc k id h; rw [hs] at h
    obtain ⟨h1, h2, h3⟩ := hg.coh.addr sc k id h
    exact ⟨addrAns_congr (by rw [hadr]) (fun a row hr => ⟨row, by rw [ha]; exact hr⟩) h1, by rw [hh]; exact h2,
      by rw [hh]; exact h3⟩
  · exact privOK_of (by rw [hw, hg.wo, hwo])
      (by intro hw' sc a row hr; rw [ha] at hr; exact hg.dpriv (by rw [← hwo]; exact hw') sc a row hr)
  · intro sc k id h; rw [hs] at h; rw [hn]; exact hg.hAddrs sc k id h
  · intro sc a ai h; rw [hs] at h; rw [hn]; exact hg.hLast sc a ai h
  · intro hw' sc a row hr; rw [ha] at hr; exact hg.dpriv (by rw [← hwo]; exact hw') sc a row hr
  · intro sc k row h; rw [hadr] at h; exact hg.shape sc k row h

theorem diskWF_same {d d' : Disk} (h : DiskWF d)
    (hacc : ∀ sc, (d'.scopes sc).accts = (d.scopes sc).accts)
    (hadr : ∀ sc, (d'.scopes sc).addrs = (d.scopes sc).addrs)
    (hla : ∀ sc, (d'.scopes sc).lastAcct = (d.scopes sc).lastAcct)
    (hwo : d'.watchOnly = d.watchOnly) : DiskWF d' := by
  have ha : ∀ sc a, acctAns d' sc a = acctAns d sc a := fun sc a => acctAns_congr (hacc sc) a
  refine ⟨?_, ?_, ?_⟩
  · intro hw sc a row hr; rw [ha] at hr; exact h.dpriv (by rw [← hwo]; exact hw) sc a row hr
  · intro sc k row hk; rw [hadr] at hk; exact h.shape sc k row hk
  · intro sc a row hk; rw [hacc] at hk; rw [hla]; exact h.accts sc a row hk

/-! ### ChangePassphrase, SetSyncedTo, SetBirthdayBlock, MarkUsed -/

theorem good_changePass {d : Disk} {m : Mem} (cfg : Cfg) (hg : Good d m) (o n : Nat) (pr : Bool) :
    Good (changePass cfg d m o n pr).1 (changePass cfg d m o n pr).2.1 ∧
    (DiskWF d → DiskWF (changePass cfg d m o n pr).1) := by
  unfold changePass
  repeat' split
  all_goals first
    | exact ⟨hg, id⟩
    | exact ⟨good_disk_same hg rfl rfl rfl rfl (fun _ => rfl) (fun _ => rfl) rfl hg.coh.synced,
             fun h => diskWF_same h (fun _ => rfl) (fun _ => rfl) (fun _ => rfl) rfl⟩

theorem good_setSynced {d : Disk} {m : Mem} (hg : Good d m) (h x : Nat) :
    Good (setSyncedTo d m h x).1 (setSyncedTo d m h x).2.1 ∧ (DiskWF d → DiskWF (setSyncedTo d m h x).1) := by
  unfold setSyncedTo
  split
  · exact ⟨hg, id⟩
  · exact ⟨good_disk_same hg rfl rfl rfl rfl (fun _ => rfl) (fun _ => rfl) rfl rfl,
      fun h => diskWF_same h (fun _ => rfl) (fun _ => rfl) (fun _ => rfl) rfl⟩

theorem good_setBirthday {d : Disk} {m : Mem} (hg : Good d m) :
    Good { d with birthday := true } m ∧ (DiskWF d → DiskWF { d with birthday := true }) :=
  ⟨good_disk_same hg rfl rfl rfl rfl (fun _ => rfl) (fun _ => rfl) rfl hg.coh.synced,
   fun h => diskWF_same h (fun _ => rfl) (fun _ => rfl) (fun _ => rfl) rfl⟩

theorem good_markUsed {d : Disk} {m : Mem} (hg : Good d m) (sc : Nat) (k : AKey) :
    Good (markUsed d m sc k).1 (markUsed d m sc k).2 ∧ (DiskWF d → DiskWF (markUsed d m sc k).1) := by
  unfold markUsed
  have hacc : ∀ sc', ((d.updScope sc fun s => { s with used := if s.used.contains k then s.used else k :: s.used }).scopes sc').accts
      = (d.scopes sc').accts := by intro sc'; rw [updScope_scopes]; split <;> simp_all
  have hadr : ∀ sc', ((d.updScope sc fun s => { s with used := if s.used.contains k then s.used else k :: s.used }).scopes sc').addrs
      = (d.scopes sc').addrs := by intro sc'; rw [updScope_scopes]; split <;> simp_all
  have hla : ∀ sc', ((d.updScope sc fun s => { s with used := if s.used.contains k then s.used else k :: s.used }).scopes sc').lastAcct
      = (d.scopes sc').lastAcct := by intro sc'; rw [updScope_scopes]; split <;> simp_all
  have g1 : Good d (m.updScope sc fun s => { s with addrs := adel s.addrs k }) := by
    apply good_ext hg (ext_updScope _ _ _)
    · intro sc' k' id h
      simp only [Mem.updScope] at h
      by_cases hsc : sc' = sc
      · subst hsc; simp only [if_true] at h; exact aget_adel_some h
      · simp only [hsc, if_false] at h; exact h
    · intro sc' a ai h
      refine Or.inl ⟨ai, ?_, rfl⟩
      simp only [Mem.updScope] at h
      by_cases hsc : sc' = sc
      · subst hsc; simp only [if_true] at h; exact h
      · simp only [hsc, if_false] at h; exact h
  exact ⟨good_disk_same g1 rfl rfl rfl rfl hacc hadr rfl g1.coh.synced, fun h => diskWF_same h hacc hadr hla rfl⟩

/-! ### imports -/

/-- adding (or overwriting) one address row -/
theorem good_disk_addAddr {d : Disk} {m : Mem} (hg : Good d m) (hw : DiskWF d) (sc : Nat) (k : AKey) (row : ARow)
    (hshape : k.isChain = true ↔ row = .chain)
    (hk : ∀ id, aget (m.scopes sc).addrs k = some id →
      addrAns (d.updScope sc fun s => { s with addrs := aset s.addrs k row }) sc k = .addr k (keyAcct k)) :
    Good (d.updScope sc fun s => { s with addrs := aset s.addrs k row }) m ∧
    DiskWF (d.updScope sc fun s => { s with addrs := aset s.addrs k row }) := by
  have hacc : ∀ sc', ((d.updScope sc fun s => { s with addrs := aset s.addrs k row }).scopes sc').accts
      = (d.scopes sc').accts := by intro sc'; rw [updScope_scopes]; split <;> simp_all
  have hla : ∀ sc', ((d.updScope sc fun s => { s with addrs := aset s.addrs k row }).scopes sc').lastAcct
      = (d.scopes sc').lastAcct := by intro sc'; rw [updScope_scopes]; split <;> simp_all
  have ha : ∀ sc' a, acctAns (d.updScope sc fun s => { s with addrs := aset s.addrs k row }) sc' a = acctAns d sc' a :=
    fun sc' a => acctAns_congr (hacc sc') a
  have hadr : ∀ sc' k', (sc' ≠ sc ∨ k' ≠ k) →
      aget ((d.updScope sc fun s => { s with addrs := aset s.addrs k row }).scopes sc').addrs k' =
      aget (d.scopes sc').addrs k' := by
    intro sc' k' h
    rw [updScope_scopes]
    by_cases hsc : sc' = sc
    · subst hsc
      simp only [if_true]
      rcases h with h | h
      · exact absurd rfl h
      · exact aget_aset_ne _ _ _ _ h
    · simp only [hsc, if_false]
  have hshape' : ∀ sc' k' row', aget ((d.updScope sc fun s => { s with addrs := aset s.addrs k row }).scopes sc').addrs k' = some row' →
      (k'.isChain = true ↔ row' = .chain) := by
    intro sc' k' row' h
    by_cases hc : sc' = sc ∧ k' = k
    · obtain ⟨rfl, rfl⟩ := hc
      rw [updScope_scopes] at h; simp only [if_true] at h
      rw [aget_aset_self] at h; cases h; exact hshape
    · have : sc' ≠ sc ∨ k' ≠ k := by
        by_cases h1 : sc' = sc
        · exact Or.inr (fun h2 => hc ⟨h1, h2⟩)
        · exact Or.inl h1
      rw [hadr sc' k' this] at h; exact hg.shape sc' k' row' h
  refine ⟨⟨⟨?_, ?_, ?_, hg.coh.synced⟩, hg.hAddrs, hg.hLast, hg.wo, ?_, hshape'⟩, ⟨?_, hshape', ?_⟩⟩
  · intro sc' a ai h; obtain ⟨r, h1, h2⟩ := hg.coh.acct sc' a ai h; exact ⟨r, by rw [ha]; exact h1, h2⟩
  · intro sc' k' id h
    obtain ⟨h1, h2, h3⟩ := hg.coh.addr sc' k' id h
    by_cases hc : sc' = sc ∧ k' = k
    · obtain ⟨rfl, rfl⟩ := hc; exact ⟨hk id h, h2, h3⟩
    · have : sc' ≠ sc ∨ k' ≠ k := by
        by_cases h1 : sc' = sc
        · exact Or.inr (fun h2 => hc ⟨h1, h2⟩)
        · exact Or.inl h1
      exact ⟨addrAns_congr (hadr sc' k' this) (fun a r hr => ⟨r, by rw [ha]; exact hr⟩) h1, h2, h3⟩
  · exact privOK_of hg.wo (by intro hw' sc' a r hr; rw [ha] at hr; exact hg.dpriv hw' sc' a r hr)
  · intro hw' sc' a r hr; rw [ha] at hr; exact hg.dpriv hw' sc' a r hr
  · intro hw' sc' a r hr; rw [ha] at hr; exact hw.dpriv hw' sc' a r hr
  · intro sc' a r h; rw [hacc] at h; rw [hla]; exact hw.accts sc' a r h

theorem addrAns_nonchain {d : Disk} {sc : Nat} {k : AKey} {row : ARow} (h : aget (d.scopes sc).addrs k = some row)
    (hr : row ≠ .chain) : addrAns d sc k = .addr k IMPORTED := by
  unfold addrAns; rw [h]
  cases row <;> cases k <;> simp_all

/-- allocate an imported object and cache it, after its (non-chain) row was written -/
theorem good_import_tail {d : Disk} {m : Mem} (hg : Good d m) (hw : DiskWF d) (sc : Nat) (k : AKey) (row : ARow) (o : Obj)
    (hkc : k.isChain = false) (hrow : row ≠ .chain) (hok : o.key = k) (hoa : o.acct = IMPORTED)
    (hnc : aget (m.scopes sc).addrs k = none) :
    Good (d.updScope sc fun s => { s with addrs := aset s.addrs k row })
      ((m.alloc o).1.updScope sc fun s => { s with addrs := aset s.addrs k (m.alloc o).2 }) ∧
    DiskWF (d.updScope sc fun s => { s with addrs := aset s.addrs k row }) := by
  obtain ⟨g1, w1⟩ := good_disk_addAddr hg hw sc k row (by simp [hkc, hrow]) (by intro id h; rw [hnc] at h; cases h)
  have hka : keyAcct k = IMPORTED := by cases k <;> simp_all [AKey.isChain, keyAcct]
  have hans : addrAns (d.updScope sc fun s => { s with addrs := aset s.addrs k row }) sc k = .addr k (keyAcct k) := by
    rw [hka]; apply addrAns_nonchain (row := row) _ hrow
    rw [updScope_scopes]; simp only [if_true]; exact aget_aset_self _ _ _
  have hobj : (m.alloc o).1.heap (m.alloc o).2 = o := by simp [Mem.alloc]
  exact ⟨good_addAddr (good_alloc g1 o) sc k _ (by simp [Mem.alloc]) (by rw [hobj, hok]) (by rw [hobj, hoa, hka]) hans, w1⟩

theorem existsAddr_false {d : Disk} {m : Mem} {sc : Nat} {k : AKey} (h : existsAddr d m sc k = false) :
    aget (m.scopes sc).addrs k = none := by
  unfold existsAddr at h
  cases hc : aget (m.scopes sc).addrs k with
  | none => rfl
  | some _ => simp [hc] at h

theorem good_importKey {d : Disk} {m : Mem} (hg : Good d m) (hw : DiskWF d) (sc k : Nat) (pr : Bool) :
    Good (importKey d m sc k pr).1 (importKey d m sc k pr).2.1 ∧ DiskWF (importKey d m sc k pr).1 := by
  unfold importKey
  split
  · exact ⟨hg, hw⟩
  · split
    · exact ⟨hg, hw⟩
    · rename_i hex
      exact good_import_tail hg hw sc (.imp k) _ _ rfl (by simp) rfl rfl (existsAddr_false (by simpa using hex))

theorem good_importScript {d : Disk} {m : Mem} (hg : Good d m) (hw : DiskWF d) (sc kind sid : Nat) (sec : Bool) :
    Good (importScript d m sc kind sid sec).1 (importScript d m sc kind sid sec).2.1 ∧
    DiskWF (importScript d m sc kind sid sec).1 := by
  unfold importScript
  dsimp only
  generalize (if kind = 0 then true else sec) = secret
  have hrow : ∀ secret : Bool, (if kind = 0 then ARow.script true else ARow.wscript (kind == 2) secret true) ≠ .chain := by
    intro secret; split <;> simp
  generalize hr : (if kind = 0 then ARow.script true else ARow.wscript (kind == 2) secret true) = row
  have hrow' : row ≠ .chain := hr ▸ hrow secret
  generalize (if kind = 0 then OKind.script else if kind = 2 then OKind.tscript secret else OKind.wscript secret) = okind
  split
  · exact ⟨hg, hw⟩
  · split
    · exact ⟨hg, hw⟩
    · split
      · exact ⟨hg, hw⟩
      · rename_i hex
        exact good_import_tail hg hw sc (.scr kind sid) row _ rfl hrow' rfl rfl
          (existsAddr_false (by simpa using hex))

end AddrLock
