/-
Preservation of `Good` by the operations that write to the database (each run and committed in its own
transaction), part 2.
-/
import BtcwVerif.Lemmas.AddrGoodOps
namespace AddrLock

/-- well-formedness of the database image alone -/
structure DiskWF (d : Disk) : Prop where
  dpriv : d.watchOnly = false → ∀ sc a row, acctAns d sc a = .ok row → row.wo = false → row.hasPriv = true
  shape : ∀ sc k row, aget (d.scopes sc).addrs k = some row → (k.isChain = true ↔ row = .chain)
  accts : ∀ sc a row, aget (d.scopes sc).accts a = some row → a ≤ (d.scopes sc).lastAcct ∨ a = IMPORTED

theorem good_open {d : Disk} (h : DiskWF d) : Good d (openMem d) :=
  ⟨coherent_open d, by intro sc k id h; simp [openMem, aget] at h, by intro sc a ai h; simp [openMem, aget] at h,
   rfl, h.dpriv, h.shape⟩

theorem acctAns_congr {d d' : Disk} {sc : Nat} (h : (d'.scopes sc).accts = (d.scopes sc).accts) (a : Nat) :
    acctAns d' sc a = acctAns d sc a := by unfold acctAns; rw [h]

theorem addrAns_congr {d d' : Disk} {sc : Nat} {k : AKey}
    (h1 : aget (d'.scopes sc).addrs k = aget (d.scopes sc).addrs k)
    (h2 : ∀ a row, acctAns d sc a = .ok row → ∃ row', acctAns d' sc a = .ok row')
    {x : Nat} (h : addrAns d sc k = .addr k x) : addrAns d' sc k = .addr k x := by
  unfold addrAns at h ⊢
  rw [h1]
  cases hr : aget (d.scopes sc).addrs k with
  | none => simp [hr] at h
  | some row =>
    simp only [hr] at h ⊢
    cases row with
    | chain =>
      cases k with
      | chain a b i =>
        simp only at h ⊢
        cases ha : acctAns d sc a with
        | error e => simp [ha] at h
        | ok row0 =>
          obtain ⟨row', hr'⟩ := h2 a row0 ha
          simp only [ha] at h
          simp only [hr']; exact h
      | imp _ => simp at h
      | scr _ _ => simp at h
    | imp _ => exact h
    | script _ => exact h
    | wscript _ _ _ => exact h

theorem updScope_scopes (d : Disk) (sc : Nat) (f : ScopeDisk → ScopeDisk) (sc' : Nat) :
    (d.updScope sc f).scopes sc' = if sc' = sc then f (d.scopes sc) else d.scopes sc' := by
  simp only [Disk.updScope]; split
  · rename_i h; rw [h]
  · rfl

/-- a database change that leaves account rows and address rows of every scope alone, with a memory that has the
same caches and heap -/
theorem good_disk_same {d d' : Disk} {m m' : Mem} (hg : Good d m)
    (hs : m'.scopes = m.scopes) (hh : m'.heap = m.heap) (hn : m'.heapN = m.heapN) (hw : m'.watchOnly = m.watchOnly)
    (hacc : ∀ sc, (d'.scopes sc).accts = (d.scopes sc).accts)
    (hadr : ∀ sc, (d'.scopes sc).addrs = (d.scopes sc).addrs)
    (hwo : d'.watchOnly = d.watchOnly) (hsy : m'.syncedTo = d'.syncedTo) : Good d' m' := by
  have ha : ∀ sc a, acctAns d' sc a = acctAns d sc a := fun sc a => acctAns_congr (hacc sc) a
  have hio : ∀ a ai row, InfoOK m a ai row → InfoOK m' a ai row := by
    intro a ai row h; unfold InfoOK at *; rw [hh]; exact h
  refine ⟨⟨?_, ?_, ?_, hsy⟩, ?_, ?_, by rw [hw, hg.wo, hwo], ?_, ?_⟩
  · intro sc a ai h; rw [hs] at h
    obtain ⟨row, h1, h2⟩ := hg.coh.acct sc a ai h; exact ⟨row, by rw [ha]; exact h1, hio _ _ _ h2⟩
  · intro sc k id h; rw [hs] at h
    obtain ⟨h1, h2, h3⟩ := hg.coh.addr sc k id h
    exact ⟨addrAns_congr (by rw [hadr]) (fun a row hr => ⟨row, by rw [ha]; exact hr⟩) h1, by rw [hh]; exact h2,
      by rw [hh]; exact h3⟩
  · exact privOK_of (by rw [hw, hg.wo, hwo])
      (by intro hw' sc a row hr; rw [ha] at hr; exact hg.dpriv (by rw [← hwo]; exact hw') sc a row hr)
  · intro sc k id h; rw [hs] at h; rw [hn]; exact hg.hAddrs sc k id h
  · intro sc a ai h; rw [hs] at h; rw [hn]; exact hg.hLast sc a ai h
  · intro hw' sc a row hr; rw [ha] at hr; exact hg.dpriv (by rw [← hwo]; exact hw') sc a row hr
  · intro sc k row h; rw [hadr] at h; exact hg.shape sc k row h

theorem diskWF_same {d d' : Disk} (h : DiskWF d)
    (hacc : ∀ sc, (d'.scopes sc).accts = (d.scopes sc).accts)
    (hadr : ∀ sc, (d'.scopes sc).addrs = (d.scopes sc).addrs)
    (hla : ∀ sc, (d'.scopes sc).lastAcct = (d.scopes sc).lastAcct)
    (hwo : d'.watchOnly = d.watchOnly) : DiskWF d' := by
  have ha : ∀ sc a, acctAns d' sc a = acctAns d sc a := fun sc a => acctAns_congr (hacc sc) a
  refine ⟨?_, ?_, ?_⟩
  · intro hw sc a row hr; rw [ha] at hr; exact h.dpriv (by rw [← hwo]; exact hw) sc a row hr
  · intro sc k row hk; rw [hadr] at hk; exact h.shape sc k row hk
  · intro sc a row hk; rw [hacc] at hk; rw [hla]; exact h.accts sc a row hk

/-! ### ChangePassphrase, SetSyncedTo, SetBirthdayBlock, MarkUsed -/

theorem good_changePass {d : Disk} {m : Mem} (cfg : Cfg) (hg : Good d m) (o n : Nat) (pr : Bool) :
    Good (changePass cfg d m o n pr).1 (changePass cfg d m o n pr).2.1 ∧
    (DiskWF d → DiskWF (changePass cfg d m o n pr).1) := by
  unfold changePass
  repeat' split
  all_goals first
    | exact ⟨hg, id⟩
    | exact ⟨good_disk_same hg rfl rfl rfl rfl (fun _ => rfl) (fun _ => rfl) rfl hg.coh.synced,
             fun h => diskWF_same h (fun _ => rfl) (fun _ => rfl) (fun _ => rfl) rfl⟩

theorem good_setSynced {d : Disk} {m : Mem} (hg : Good d m) (h x : Nat) :
    Good (setSyncedTo d m h x).1 (setSyncedTo d m h x).2.1 ∧ (DiskWF d → DiskWF (setSyncedTo d m h x).1) := by
  unfold setSyncedTo
  split
  · exact ⟨hg, id⟩
  · exact ⟨good_disk_same hg rfl rfl rfl rfl (fun _ => rfl) (fun _ => rfl) rfl rfl,
      fun h => diskWF_same h (fun _ => rfl) (fun _ => rfl) (fun _ => rfl) rfl⟩

theorem good_setBirthday {d : Disk} {m : Mem} (hg : Good d m) :
    Good { d with birthday := true } m ∧ (DiskWF d → DiskWF { d with birthday := true }) :=
  ⟨good_disk_same hg rfl rfl rfl rfl (fun _ => rfl) (fun _ => rfl) rfl hg.coh.synced,
   fun h => diskWF_same h (fun _ => rfl) (fun _ => rfl) (fun _ => rfl) rfl⟩

theorem good_markUsed {d : Disk} {m : Mem} (hg : Good d m) (sc : Nat) (k : AKey) :
    Good (markUsed d m sc k).1 (markUsed d m sc k).2 ∧ (DiskWF d → DiskWF (markUsed d m sc k).1) := by
  unfold markUsed
  have hacc : ∀ sc', ((d.updScope sc fun s => { s with used := if s.used.contains k then s.used else k :: s.used }).scopes sc').accts
      = (d.scopes sc').accts := by intro sc'; rw [updScope_scopes]; split <;> simp_all
  have hadr : ∀ sc', ((d.updScope sc fun s => { s with used := if s.used.contains k then s.used else k :: s.used }).scopes sc').addrs
      = (d.scopes sc').addrs := by intro sc'; rw [updScope_scopes]; split <;> simp_all
  have hla : ∀ sc', ((d.updScope sc fun s => { s with used := if s.used.contains k then s.used else k :: s.used }).scopes sc').lastAcct
      = (d.scopes sc').lastAcct := by intro sc'; rw [updScope_scopes]; split <;> simp_all
  have g1 : Good d (m.updScope sc fun s => { s with addrs := adel s.addrs k }) := by
    apply good_ext hg (ext_updScope _ _ _)
    · intro sc' k' id h
      simp only [Mem.updScope] at h
      by_cases hsc : sc' = sc
      · subst hsc; simp only [if_true] at h; exact aget_adel_some h
      · simp only [hsc, if_false] at h; exact h
    · intro sc' a ai h
      refine Or.inl ⟨ai, ?_, rfl⟩
      simp only [Mem.updScope] at h
      by_cases hsc : sc' = sc
      · subst hsc; simp only [if_true] at h; exact h
      · simp only [hsc, if_false] at h; exact h
  exact ⟨good_disk_same g1 rfl rfl rfl rfl hacc hadr rfl g1.coh.synced, fun h => diskWF_same h hacc hadr hla rfl⟩

/-! ### imports -/

/-- adding (or overwriting) one address row -/
theorem good_disk_addAddr {d : Disk} {m : Mem} (hg : Good d m) (hw : DiskWF d) (sc : Nat) (k : AKey) (row : ARow)
    (hshape : k.isChain = true ↔ row = .chain)
    (hk : ∀ id, aget (m.scopes sc).addrs k = some id →
      addrAns (d.updScope sc fun s => { s with addrs := aset s.addrs k row }) sc k = .addr k (keyAcct k)) :
    Good (d.updScope sc fun s => { s with addrs := aset s.addrs k row }) m ∧
    DiskWF (d.updScope sc fun s => { s with addrs := aset s.addrs k row }) := by
  have hacc : ∀ sc', ((d.updScope sc fun s => { s with addrs := aset s.addrs k row }).scopes sc').accts
      = (d.scopes sc').accts := by intro sc'; rw [updScope_scopes]; split <;> simp_all
  have hla : ∀ sc', ((d.updScope sc fun s => { s with addrs := aset s.addrs k row }).scopes sc').lastAcct
      = (d.scopes sc').lastAcct := by intro sc'; rw [updScope_scopes]; split <;> simp_all
  have ha : ∀ sc' a, acctAns (d.updScope sc fun s => { s with addrs := aset s.addrs k row }) sc' a = acctAns d sc' a :=
    fun sc' a => acctAns_congr (hacc sc') a
  have hadr : ∀ sc' k', (sc' ≠ sc ∨ k' ≠ k) →
      aget ((d.updScope sc fun s => { s with addrs := aset s.addrs k row }).scopes sc').addrs k' =
      aget (d.scopes sc').addrs k' := by
    intro sc' k' h
    rw [updScope_scopes]
    by_cases hsc : sc' = sc
    · subst hsc
      simp only [if_true]
      rcases h with h | h
      · exact absurd rfl h
      · exact aget_aset_ne _ _ _ _ h
    · simp only [hsc, if_false]
  have hshape' : ∀ sc' k' row', aget ((d.updScope sc fun s => { s with addrs := aset s.addrs k row }).scopes sc').addrs k' = some row' →
      (k'.isChain = true ↔ row' = .chain) := by
    intro sc' k' row' h
    by_cases hc : sc' = sc ∧ k' = k
    · obtain ⟨rfl, rfl⟩ := hc
      rw [updScope_scopes] at h; simp only [if_true] at h
      rw [aget_aset_self] at h; cases h; exact hshape
    · have : sc' ≠ sc ∨ k' ≠ k := by
        by_cases h1 : sc' = sc
        · exact Or.inr (fun h2 => hc ⟨h1, h2⟩)
        · exact Or.inl h1
      rw [hadr sc' k' this] at h; exact hg.shape sc' k' row' h
  refine ⟨⟨⟨?_, ?_, ?_, hg.coh.synced⟩, hg.hAddrs, hg.hLast, hg.wo, ?_, hshape'⟩, ⟨?_, hshape', ?_⟩⟩
  · intro sc' a ai h; obtain ⟨r, h1, h2⟩ := hg.coh.acct sc' a ai h; exact ⟨r, by rw [ha]; exact h1, h2⟩
  · intro sc' k' id h
    obtain ⟨h1, h2, h3⟩ := hg.coh.addr sc' k' id h
    by_cases hc : sc' = sc ∧ k' = k
    · obtain ⟨rfl, rfl⟩ := hc; exact ⟨hk id h, h2, h3⟩
    · have : sc' ≠ sc ∨ k' ≠ k := by
        by_cases h1 : sc' = sc
        · exact Or.inr (fun h2 => hc ⟨h1, h2⟩)
        · exact Or.inl h1
      exact ⟨addrAns_congr (hadr sc' k' this) (fun a r hr => ⟨r, by rw [ha]; exact hr⟩) h1, h2, h3⟩
  · exact privOK_of hg.wo (by intro hw' sc' a r hr; rw [ha] at hr; exact hg.dpriv hw' sc' a r hr)
  · intro hw' sc' a r hr; rw [ha] at hr; exact hg.dpriv hw' sc' a r hr
  · intro hw' sc' a r hr; rw [ha] at hr; exact hw.dpriv hw' sc' a r hr
  · intro sc' a r h; rw [hacc] at h; rw [hla]; exact hw.accts sc' a r h

theorem addrAns_nonchain {d : Disk} {sc : Nat} {k : AKey} {row : ARow} (h : aget (d.scopes sc).addrs k = some row)
    (hr : row ≠ .chain) : addrAns d sc k = .addr k IMPORTED := by
  unfold addrAns; rw [h]
  cases row <;> cases k <;> simp_all

/-- allocate an imported object and cache it, after its (non-chain) row was written -/
theorem good_import_tail {d : Disk} {m : Mem} (hg : Good d m) (hw : DiskWF d) (sc : Nat) (k : AKey) (row : ARow) (o : Obj)
    (hkc : k.isChain = false) (hrow : row ≠ .chain) (hok : o.key = k) (hoa : o.acct = IMPORTED)
    (hnc : aget (m.scopes sc).addrs k = none) :
    Good (d.updScope sc fun s => { s with addrs := aset s.addrs k row })
      ((m.alloc o).1.updScope sc fun s => { s with addrs := aset s.addrs k (m.alloc o).2 }) ∧
    DiskWF (d.updScope sc fun s => { s with addrs := aset s.addrs k row }) := by
  obtain ⟨g1, w1⟩ := good_disk_addAddr hg hw sc k row (by simp [hkc, hrow]) (by intro id h; rw [hnc] at h; cases h)
  have hka : keyAcct k = IMPORTED := by cases k <;> simp_all [AKey.isChain, keyAcct]
  have hans : addrAns (d.updScope sc fun s => { s with addrs := aset s.addrs k row }) sc k = .addr k (keyAcct k) := by
    rw [hka]; apply addrAns_nonchain (row := row) _ hrow
    rw [updScope_scopes]; simp only [if_true]; exact aget_aset_self _ _ _
  have hobj : (m.alloc o).1.heap (m.alloc o).2 = o := by simp [Mem.alloc]
  exact ⟨good_addAddr (good_alloc g1 o) sc k _ (by simp [Mem.alloc]) (by rw [hobj, hok]) (by rw [hobj, hoa, hka]) hans, w1⟩

theorem existsAddr_false {d : Disk} {m : Mem} {sc : Nat} {k : AKey} (h : existsAddr d m sc k = false) :
    aget (m.scopes sc).addrs k = none := by
  unfold existsAddr at h
  cases hc : aget (m.scopes sc).addrs k with
  | none => rfl
  | some _ => simp [hc] at h

theorem good_importKey {d : Disk} {m : Mem} (hg : Good d m) (hw : DiskWF d) (sc k : Nat) (pr : Bool) :
    Good (importKey d m sc k pr).1 (importKey d m sc k pr).2.1 ∧ DiskWF (importKey d m sc k pr).1 := by
  unfold importKey
  split
  · exact ⟨hg, hw⟩
  · split
    · exact ⟨hg, hw⟩
    · rename_i hex
      exact good_import_tail hg hw sc (.imp k) _ _ rfl (by simp) rfl rfl (existsAddr_false (by simpa using hex))

theorem good_importScript {d : Disk} {m : Mem} (hg : Good d m) (hw : DiskWF d) (sc kind sid : Nat) (sec : Bool) :
    Good (importScript d m sc kind sid sec).1 (importScript d m sc kind sid sec).2.1 ∧
    DiskWF (importScript d m sc kind sid sec).1 := by
  unfold importScript
  dsimp only
  generalize (if kind = 0 then true else sec) = secret
  have hrow : ∀ secret : Bool, (if kind = 0 then ARow.script true else ARow.wscript (kind == 2) secret true) ≠ .chain := by
    intro secret; split <;> simp
  generalize hr : (if kind = 0 then ARow.script true else ARow.wscript (kind == 2) secret true) = row
  have hrow' : row ≠ .chain := hr ▸ hrow secret
  generalize (if kind = 0 then OKind.script else if kind = 2 then OKind.tscript secret else OKind.wscript secret) = okind
  split
  · exact ⟨hg, hw⟩
  · split
    · exact ⟨hg, hw⟩
    · split
      · exact ⟨hg, hw⟩
      · rename_i hex
        exact good_import_tail hg hw sc (.scr kind sid) row _ rfl hrow' rfl rfl
          (existsAddr_false (by simpa using hex))

/-! ### accounts -/

theorem acctAns_ok_row {d : Disk} {sc a : Nat} {row : AcctRow} (h : acctAns d sc a = .ok row) :
    aget (d.scopes sc).accts a = some row ∧ a ≠ IMPORTED := by
  unfold acctAns at h
  cases hr : aget (d.scopes sc).accts a with
  | none => simp [hr] at h
  | some r =>
    simp only [hr] at h
    by_cases hi : a = IMPORTED
    · simp [hi] at h
    · simp only [hi, if_false] at h; cases h; exact ⟨rfl, hi⟩

/-- replacing / adding the account row of account `acct` in scope `sc` -/
theorem acctAns_setRow (d : Disk) (sc acct : Nat) (row : AcctRow) (g : ScopeDisk → ScopeDisk)
    (hg : ∀ s, (g s).accts = aset s.accts acct row) (sc' a : Nat) :
    acctAns (d.updScope sc g) sc' a =
      if sc' = sc ∧ a = acct then (if a = IMPORTED then .error .crypto else .ok row) else acctAns d sc' a := by
  unfold acctAns
  rw [updScope_scopes]
  by_cases hsc : sc' = sc
  · subst hsc
    simp only [if_true, hg, true_and]
    by_cases ha : a = acct
    · subst ha; simp [aget_aset_self]
    · simp [ha, aget_aset_ne _ _ _ _ ha]
  · simp [hsc]

theorem good_newAccount {d : Disk} {m : Mem} (hg : Good d m) (hw : DiskWF d) (sc : Nat) (name : String) (wo : Bool) :
    Good (newAccount d m sc name wo).1 m ∧ DiskWF (newAccount d m sc name wo).1 := by
  unfold newAccount
  split
  · exact ⟨hg, hw⟩
  · split
    · exact ⟨hg, hw⟩
    · dsimp only
      split
      · exact ⟨hg, hw⟩
      · split
        · exact ⟨hg, hw⟩
        · -- the new row
          generalize hacct : (d.scopes sc).lastAcct + 1 = acct
          have hrow := acctAns_setRow d sc acct ⟨name, wo, !wo, 0, 0⟩
            (fun s => { s with accts := aset s.accts acct ⟨name, wo, !wo, 0, 0⟩, lastAcct := acct }) (fun _ => rfl)
          have hadr : ∀ sc', ((d.updScope sc fun s => { s with accts := aset s.accts acct ⟨name, wo, !wo, 0, 0⟩, lastAcct := acct }).scopes sc').addrs
              = (d.scopes sc').addrs := by intro sc'; rw [updScope_scopes]; split <;> simp_all
          -- an account that has a row is not the new number
          have hold : ∀ sc' a r, acctAns d sc' a = .ok r → ¬ (sc' = sc ∧ a = acct) := by
            intro sc' a r hr ⟨h1, h2⟩
            subst h1
            obtain ⟨h3, h4⟩ := acctAns_ok_row hr
            rcases hw.accts sc' a r h3 with h5 | h5
            · omega
            · exact h4 h5
          have hkeep : ∀ sc' a r, acctAns d sc' a = .ok r →
              acctAns (d.updScope sc fun s => { s with accts := aset s.accts acct ⟨name, wo, !wo, 0, 0⟩, lastAcct := acct }) sc' a = .ok r := by
            intro sc' a r hr; rw [hrow, if_neg (hold sc' a r hr)]; exact hr
          have hdp : ∀ sc' a r,
              acctAns (d.updScope sc fun s => { s with accts := aset s.accts acct ⟨name, wo, !wo, 0, 0⟩, lastAcct := acct }) sc' a = .ok r →
              d.watchOnly = false → r.wo = false → r.hasPriv = true := by
            intro sc' a r hr hwo hrw
            rw [hrow] at hr
            by_cases hc : sc' = sc ∧ a = acct
            · rw [if_pos hc] at hr
              by_cases hi : a = IMPORTED
              · simp [hi] at hr
              · simp only [hi, if_false] at hr; cases hr; simp at hrw ⊢; exact hrw
            · rw [if_neg hc] at hr; exact hw.dpriv hwo sc' a r hr hrw
          refine ⟨⟨⟨?_, ?_, ?_, hg.coh.synced⟩, hg.hAddrs, hg.hLast, hg.wo, ?_, ?_⟩, ⟨?_, ?_, ?_⟩⟩
          · intro sc' a ai h; obtain ⟨r, h1, h2⟩ := hg.coh.acct sc' a ai h; exact ⟨r, hkeep sc' a r h1, h2⟩
          · intro sc' k id h
            obtain ⟨h1, h2, h3⟩ := hg.coh.addr sc' k id h
            exact ⟨addrAns_congr (by rw [hadr]) (fun a r hr => ⟨r, hkeep sc' a r hr⟩) h1, h2, h3⟩
          · exact privOK_of hg.wo (fun hwo sc' a r hr hrw => hdp sc' a r hr hwo hrw)
          · exact fun hwo sc' a r hr hrw => hdp sc' a r hr hwo hrw
          · intro sc' k r h; rw [hadr] at h; exact hg.shape sc' k r h
          · exact fun hwo sc' a r hr hrw => hdp sc' a r hr hwo hrw
          · intro sc' k r h; rw [hadr] at h; exact hw.shape sc' k r h
          · intro sc' a r h
            rw [updScope_scopes] at h ⊢
            by_cases hsc : sc' = sc
            · subst hsc
              simp only [if_true] at h ⊢
              rw [aget_aset] at h
              by_cases ha : a = acct
              · left; omega
              · simp only [ha, if_false] at h
                rcases hw.accts sc' a r h with h5 | h5
                · left; omega
                · exact Or.inr h5
            · simp only [hsc, if_false] at h ⊢; exact hw.accts sc' a r h

theorem good_rename {d : Disk} {m : Mem} (hg : Good d m) (hw : DiskWF d) (sc acct : Nat) (name : String) :
    Good (renameAccount d m sc acct name).1 (renameAccount d m sc acct name).2.1 ∧
    DiskWF (renameAccount d m sc acct name).1 := by
  unfold renameAccount
  split
  · exact ⟨hg, hw⟩
  · rename_i hni
    dsimp only
    split
    · exact ⟨hg, hw⟩
    · split
      · exact ⟨hg, hw⟩
      · split
        · exact ⟨hg, hw⟩
        · rename_i row hrow0
          have hrow := acctAns_setRow d sc acct { row with name := name }
            (fun s => { s with accts := aset s.accts acct { row with name := name } }) (fun _ => rfl)
          have hadr : ∀ sc', ((d.updScope sc fun s => { s with accts := aset s.accts acct { row with name := name } }).scopes sc').addrs
              = (d.scopes sc').addrs := by intro sc'; rw [updScope_scopes]; split <;> simp_all
          have hla : ∀ sc', ((d.updScope sc fun s => { s with accts := aset s.accts acct { row with name := name } }).scopes sc').lastAcct
              = (d.scopes sc').lastAcct := by intro sc'; rw [updScope_scopes]; split <;> simp_all
          have hold : acctAns d sc acct = .ok row := by unfold acctAns; simp [hrow0, hni]
          -- every ok row stays ok (the renamed one with the new name)
          have hkeep : ∀ sc' a r, acctAns d sc' a = .ok r → ∃ r',
              acctAns (d.updScope sc fun s => { s with accts := aset s.accts acct { row with name := name } }) sc' a = .ok r' ∧
              r'.nextExt = r.nextExt ∧ r'.nextInt = r.nextInt ∧ r'.wo = r.wo ∧ r'.hasPriv = r.hasPriv ∧
              ((sc' = sc ∧ a = acct) → r'.name = name) ∧ (¬ (sc' = sc ∧ a = acct) → r' = r) := by
            intro sc' a r hr
            rw [hrow]
            by_cases hc : sc' = sc ∧ a = acct
            · obtain ⟨rfl, rfl⟩ := hc
              rw [hold] at hr; cases hr
              simp only [and_self, if_true, hni, if_false]
              exact ⟨_, rfl, rfl, rfl, rfl, rfl, fun _ => rfl, fun h => (h (by simp)).elim⟩
            · rw [if_neg hc]; exact ⟨r, hr, rfl, rfl, rfl, rfl, fun h => absurd h hc, fun _ => rfl⟩
          have hdp : ∀ sc' a r,
              acctAns (d.updScope sc fun s => { s with accts := aset s.accts acct { row with name := name } }) sc' a = .ok r →
              d.watchOnly = false → r.wo = false → r.hasPriv = true := by
            intro sc' a r hr hwo hrw
            rw [hrow] at hr
            by_cases hc : sc' = sc ∧ a = acct
            · rw [if_pos hc] at hr
              obtain ⟨rfl, rfl⟩ := hc
              simp only [hni, if_false] at hr; cases hr
              exact hw.dpriv hwo sc' a row hold hrw
            · rw [if_neg hc] at hr; exact hw.dpriv hwo sc' a r hr hrw
          have hwf : DiskWF (d.updScope sc fun s => { s with accts := aset s.accts acct { row with name := name } }) := by
            refine ⟨fun hwo sc' a r hr hrw => hdp sc' a r hr hwo hrw, ?_, ?_⟩
            · intro sc' k r h; rw [hadr] at h; exact hw.shape sc' k r h
            · intro sc' a r h
              rw [hla]
              rw [updScope_scopes] at h
              by_cases hsc : sc' = sc
              · subst hsc
                simp only [if_true] at h
                rw [aget_aset] at h
                by_cases ha : a = acct
                · subst ha; exact hw.accts sc' a row hrow0
                · simp only [ha, if_false] at h; exact hw.accts sc' a r h
              · simp only [hsc, if_false] at h; exact hw.accts sc' a r h
          -- memory
          cases hc : acctInfoOf m sc acct with
          | none =>
            simp only
            refine ⟨⟨⟨?_, ?_, ?_, hg.coh.synced⟩, hg.hAddrs, hg.hLast, hg.wo, hwf.dpriv, hwf.shape⟩, hwf⟩
            · intro sc' a ai h
              obtain ⟨r, h1, h2⟩ := hg.coh.acct sc' a ai h
              obtain ⟨r', k1, k2, k3, _, _, _, k7⟩ := hkeep sc' a r h1
              have hne : ¬ (sc' = sc ∧ a = acct) := by
                intro ⟨e1, e2⟩; subst e1; subst e2
                have : acctInfoOf m sc' a = some ai := h
                rw [hc] at this; cases this
              rw [k7 hne] at k1; exact ⟨r, k1, h2⟩
            · intro sc' k id h
              obtain ⟨h1, h2, h3⟩ := hg.coh.addr sc' k id h
              exact ⟨addrAns_congr (by rw [hadr]) (fun a r hr => by
                obtain ⟨r', k1, _⟩ := hkeep sc' a r hr; exact ⟨r', k1⟩) h1, h2, h3⟩
            · exact privOK_of hg.wo hwf.dpriv
          | some ai0 =>
            simp only
            have hai : ∀ sc' a ai, aget ((m.updScope sc fun s => { s with acctInfo := aset s.acctInfo acct { ai0 with name := name } }).scopes sc').acctInfo a = some ai →
                (sc' = sc ∧ a = acct ∧ ai = { ai0 with name := name }) ∨
                (¬ (sc' = sc ∧ a = acct) ∧ aget (m.scopes sc').acctInfo a = some ai) := by
              intro sc' a ai h
              simp only [Mem.updScope] at h
              by_cases hsc : sc' = sc
              · subst hsc
                simp only [if_true] at h
                rw [aget_aset] at h
                by_cases ha : a = acct
                · simp only [ha, if_true] at h; cases h; exact Or.inl ⟨rfl, ha, rfl⟩
                · simp only [ha, if_false] at h; exact Or.inr ⟨fun hh => ha hh.2, h⟩
              · simp only [hsc, if_false] at h; exact Or.inr ⟨fun hh => hsc hh.1, h⟩
            have haddrs : ∀ sc', ((m.updScope sc fun s => { s with acctInfo := aset s.acctInfo acct { ai0 with name := name } }).scopes sc').addrs
                = (m.scopes sc').addrs := by
              intro sc'; simp only [Mem.updScope]; split <;> simp_all
            refine ⟨⟨⟨?_, ?_, ?_, hg.coh.synced⟩, ?_, ?_, hg.wo, hwf.dpriv, hwf.shape⟩, hwf⟩
            · intro sc' a ai h
              rcases hai sc' a ai h with ⟨rfl, rfl, rfl⟩ | ⟨hne, h⟩
              · obtain ⟨r, h1, h2⟩ := hg.coh.acct sc' a ai0 hc
                obtain ⟨r', k1, k2, k3, _, _, k6, _⟩ := hkeep sc' a r h1
                refine ⟨r', k1, ?_⟩
                obtain ⟨_, i2, i3, i4, i5, i6, i7⟩ := h2
                exact ⟨(k6 ⟨rfl, rfl⟩).symm, by rw [k2]; exact i2, by rw [k3]; exact i3, by rw [k2]; exact i4, i5,
                  by rw [k3]; exact i6, i7⟩
              · obtain ⟨r, h1, h2⟩ := hg.coh.acct sc' a ai h
                obtain ⟨r', k1, _, _, _, _, _, k7⟩ := hkeep sc' a r h1
                rw [k7 hne] at k1; exact ⟨r, k1, h2⟩
            · intro sc' k id h
              rw [haddrs] at h
              obtain ⟨h1, h2, h3⟩ := hg.coh.addr sc' k id h
              exact ⟨addrAns_congr (by rw [hadr]) (fun a r hr => by
                obtain ⟨r', k1, _⟩ := hkeep sc' a r hr; exact ⟨r', k1⟩) h1, h2, h3⟩
            · exact privOK_of hg.wo hwf.dpriv
            · intro sc' k id h; rw [haddrs] at h; exact hg.hAddrs sc' k id h
            · intro sc' a ai h
              rcases hai sc' a ai h with ⟨rfl, rfl, rfl⟩ | ⟨_, h⟩
              · exact hg.hLast sc' a ai0 hc
              · exact hg.hLast sc' a ai h

/-! ### ConvertToWatchingOnly -/

theorem good_convertWO {d : Disk} {m : Mem} (cfg : Cfg) (hg : Good d m) (hw : DiskWF d) :
    Good (convertWO cfg d m).1 (convertWO cfg d m).2 ∧ DiskWF (convertWO cfg d m).1 := by
  unfold convertWO
  split
  · exact ⟨hg, hw⟩
  · dsimp only
    have g1 : Good d (if m.locked = true then m else lockMem cfg m) := by
      split
      · exact hg
      · exact good_lockMem cfg hg
    generalize (if m.locked = true then m else lockMem cfg m) = m1 at g1 ⊢
    -- the database
    have hacc : ∀ sc a, aget (delPrivScope cfg (d.scopes sc)).accts a = (aget (d.scopes sc).accts a).map delPrivAcct := by
      intro sc a; simp only [delPrivScope]; exact aget_map_snd _ _ _
    have hrowview : ∀ r : AcctRow, (delPrivAcct r).name = r.name ∧ (delPrivAcct r).nextExt = r.nextExt ∧
        (delPrivAcct r).nextInt = r.nextInt := by
      intro r; unfold delPrivAcct; split <;> exact ⟨rfl, rfl, rfl⟩
    have hans : ∀ sc a, acctAns { d with watchOnly := true, scopes := fun i => delPrivScope cfg (d.scopes i) } sc a =
        match acctAns d sc a with
        | .ok r => .ok (delPrivAcct r)
        | .error e => .error e := by
      intro sc a
      unfold acctAns
      simp only [hacc]
      cases aget (d.scopes sc).accts a with
      | none => rfl
      | some r => simp only [Option.map]; split <;> rfl
    have hadr : ∀ sc k, aget (delPrivScope cfg (d.scopes sc)).addrs k = (aget (d.scopes sc).addrs k).map (delPrivAddr cfg) := by
      intro sc k; simp only [delPrivScope]; exact aget_map_snd _ _ _
    have hchain : ∀ r : ARow, (delPrivAddr cfg r = .chain) ↔ r = .chain := by
      intro r; cases r <;> simp [delPrivAddr]
      split <;> simp
    have haddrAns : ∀ sc k, addrAns { d with watchOnly := true, scopes := fun i => delPrivScope cfg (d.scopes i) } sc k =
        addrAns d sc k := by
      intro sc k
      unfold addrAns
      simp only [hadr]
      cases hr : aget (d.scopes sc).addrs k with
      | none => rfl
      | some r =>
        simp only [Option.map]
        cases r with
        | chain =>
          cases k with
          | chain a b i =>
            simp only [delPrivAddr, hans]
            cases acctAns d sc a <;> rfl
          | imp _ => rfl
          | scr _ _ => rfl
        | imp _ => cases k <;> rfl
        | script _ => cases k <;> rfl
        | wscript t s' h' =>
          cases k <;> (by_cases hb : ((!t || cfg.fo1) && s') = true <;> simp [delPrivAddr, hb])
    have hshape : ∀ sc k r, aget (delPrivScope cfg (d.scopes sc)).addrs k = some r → (k.isChain = true ↔ r = .chain) := by
      intro sc k r h
      rw [hadr] at h
      cases h0 : aget (d.scopes sc).addrs k with
      | none => simp [h0] at h
      | some r0 =>
        simp only [h0, Option.map, Option.some.injEq] at h
        rw [← h, hchain]; exact hw.shape sc k r0 h0
    have hwf : DiskWF { d with watchOnly := true, scopes := fun i => delPrivScope cfg (d.scopes i) } := by
      refine ⟨fun h => by simp at h, hshape, ?_⟩
      intro sc a r h
      have h' : aget (delPrivScope cfg (d.scopes sc)).accts a = some r := h
      rw [hacc] at h'
      cases h0 : aget (d.scopes sc).accts a with
      | none => simp [h0] at h'
      | some r0 => exact hw.accts sc a r0 h0
    -- the memory
    have hmI : ∀ sc a ai, aget ((m1.scopes sc).acctInfo.map (fun p => (p.1, { p.2 with hasEnc := false }))) a = some ai →
        ∃ ai0, aget (m1.scopes sc).acctInfo a = some ai0 ∧ ai = { ai0 with hasEnc := false } := by
      intro sc a ai h
      have h' : (aget (m1.scopes sc).acctInfo a).map (fun i : AcctInfo => { i with hasEnc := false }) = some ai :=
        (aget_map_snd (m1.scopes sc).acctInfo (fun i : AcctInfo => { i with hasEnc := false }) a).symm.trans h
      cases h0 : aget (m1.scopes sc).acctInfo a with
      | none => simp [h0] at h'
      | some ai0 => simp only [h0, Option.map, Option.some.injEq] at h'; exact ⟨ai0, rfl, h'.symm⟩
    refine ⟨⟨⟨?_, ?_, Or.inr (Or.inl rfl), g1.coh.synced⟩, ?_, ?_, rfl, hwf.dpriv, hshape⟩, hwf⟩
    · intro sc a ai h
      obtain ⟨ai0, h0, rfl⟩ := hmI sc a ai h
      obtain ⟨row, hr, hok⟩ := g1.coh.acct sc a ai0 h0
      refine ⟨delPrivAcct row, by rw [hans, hr], ?_⟩
      obtain ⟨i1, i2, i3, i4, i5, i6, i7⟩ := hok
      obtain ⟨v1, v2, v3⟩ := hrowview row
      refine ⟨by rw [v1]; exact i1, by rw [v2]; exact i2, by rw [v3]; exact i3, ?_, ?_, ?_, ?_⟩
      · rw [v2]; dsimp only; split <;> exact i4
      · dsimp only; split <;> exact i5
      · rw [v3]; dsimp only; split <;> exact i6
      · dsimp only; split <;> exact i7
    · intro sc k id h
      obtain ⟨h1, h2, h3⟩ := g1.coh.addr sc k id h
      refine ⟨by rw [haddrAns]; exact h1, ?_, ?_⟩
      · dsimp only; split <;> exact h2
      · dsimp only; split <;> exact h3
    · intro sc k id h; exact g1.hAddrs sc k id h
    · intro sc a ai h
      obtain ⟨ai0, h0, rfl⟩ := hmI sc a ai h
      exact g1.hLast sc a ai0 h0

end AddrLock
