import BtcwVerif.Lemmas.RefDetails
/-!
# Observables of a good pair: `RangeTransactions` (C13)
-/
namespace TxStore
open KMap Ledger

/-- two lists related element by element -/
inductive Pointwise {α β : Type} (R : α → β → Prop) : List α → List β → Prop
  | nil : Pointwise R [] []
  | cons {a : α} {b : β} {l : List α} {m : List β} : R a b → Pointwise R l m → Pointwise R (a :: l) (b :: m)

/-- one batch: the store's records are those of the ledger, up to the order inside the batch -/
def BatchAgree (ds ds' : List Details) : Prop := ∃ ds'', ds''.Perm ds' ∧ Pointwise DetEquiv ds ds''

/-- batches in the same order, each agreeing -/
def BatchesAgree (bs bs' : List (List Details)) : Prop := Pointwise BatchAgree bs bs'

theorem forall₂_map_of_forall {α β γ : Type} (R : β → γ → Prop) (f : α → β) (g : α → γ) : ∀ (l : List α),
    (∀ a ∈ l, R (f a) (g a)) → Pointwise R (l.map f) (l.map g) := by
  intro l
  induction l with
  | nil => intro _; exact Pointwise.nil
  | cons a t ih =>
    intro h
    exact Pointwise.cons (h a List.mem_cons_self) (ih (fun x hx => h x (List.mem_cons_of_mem _ hx)))

theorem forall₂_append {α β : Type} {R : α → β → Prop} {l1 l2 : List α} {m1 m2 : List β}
    (h1 : Pointwise R l1 m1) (h2 : Pointwise R l2 m2) : Pointwise R (l1 ++ l2) (m1 ++ m2) := by
  induction h1 with
  | nil => exact h2
  | cons h _ ih => exact Pointwise.cons h ih

/-! ### the unconfirmed batch -/

theorem unmined_perm {s : Store} {L : Ledger} (hg : Good s L) : s.unmined.Perm (expUnmined L) := by
  have h1 : s.unmined.Nodup := by
    have := hg.ref.nodupUnmined
    unfold NodupKeys keys at this
    rw [List.Nodup, List.pairwise_map] at this
    exact this.imp (fun hne e => hne (by rw [e]))
  have h2 : (expUnmined L).Nodup := by
    have := pool_hashes_nodup hg.lwf
    unfold expUnmined
    rw [List.Nodup, List.pairwise_map] at this ⊢
    exact this.imp (fun hne e => hne (congrArg Prod.fst e))
  rw [List.perm_ext_iff_of_nodup h1 h2]
  rintro ⟨k, v⟩
  rw [mem_iff_find? _ hg.ref.nodupUnmined]
  exact hg.ref.unmined k v

theorem rangeUnmined_refines {s : Store} {L : Ledger} (hg : Good s L) (hn : NoConflict L) :
    ∃ bs, rangeUnmined s = .ok bs ∧
      BatchesAgree bs (if L.pool.isEmpty then [] else [L.pool.map fun t => detailsOf L t none]) := by
  have hperm := unmined_perm hg
  have hmem : ∀ p ∈ s.unmined, p.2 ∈ L.pool ∧ p.1 = p.2.hash := by
    rintro ⟨k, v⟩ hp
    exact mem_expUnmined.mp (hperm.mem_iff.mp hp)
  have hd : ∀ p ∈ s.unmined, unminedTxDetails s p.1 p.2 = .ok (okOr default (unminedTxDetails s p.1 p.2)) ∧
      DetEquiv (okOr default (unminedTxDetails s p.1 p.2)) (detailsOf L p.2 none) := by
    intro p hp
    obtain ⟨h1, h2⟩ := hmem p hp
    obtain ⟨d, hd1, hd2⟩ := details_unmined hg hn h1
    rw [h2, hd1]
    exact ⟨rfl, hd2⟩
  refine ⟨if (s.unmined.map fun p => okOr default (unminedTxDetails s p.1 p.2)).isEmpty then []
    else [s.unmined.map fun p => okOr default (unminedTxDetails s p.1 p.2)], ?_, ?_⟩
  · unfold rangeUnmined
    rw [mapM_eq_map_of_forall _ (fun p : Nat × Tx => okOr default (unminedTxDetails s p.1 p.2)) _
      (by intro p hp; obtain ⟨k, v⟩ := p; exact (hd (k, v) hp).1)]
    rfl
  · have hlen : s.unmined.length = L.pool.length := unmined_length hg
    cases hu : s.unmined with
    | nil =>
      have : L.pool = [] := by
        rw [hu] at hlen
        exact List.eq_nil_of_length_eq_zero hlen.symm
      simp [this]
      exact Pointwise.nil
    | cons a t =>
      have hne : L.pool ≠ [] := by
        intro e; rw [hu, e] at hlen; simp at hlen
      have h1 : L.pool.isEmpty = false := by
        cases hp : L.pool with
        | nil => exact absurd hp hne
        | cons _ _ => rfl
      rw [h1, ← hu]
      have h2 : (s.unmined.map fun p => okOr default (unminedTxDetails s p.1 p.2)).isEmpty = false := by
        rw [hu]; rfl
      rw [h2]
      simp only [Bool.false_eq_true, if_false]
      refine Pointwise.cons ⟨s.unmined.map fun p => detailsOf L p.2 none, ?_, ?_⟩ Pointwise.nil
      · have := hperm.map (fun p : Nat × Tx => detailsOf L p.2 none)
        unfold expUnmined at this
        rw [List.map_map] at this
        exact this
      · exact forall₂_map_of_forall _ _ _ _ (fun p hp => (hd p hp).2)

/-! ### the confirmed batches -/

theorem blockDetails_refines {s : Store} {L : Ledger} (hg : Good s L) {lb : LBlock} (hlb : lb ∈ L.chain) :
    ∃ ds, blockDetails s (blockEntry lb).1 (blockEntry lb).2 = .ok ds ∧
      BatchAgree ds (lb.txs.map fun t => detailsOf L t (some lb.bm)) := by
  have hm : ∀ t ∈ lb.txs, (t, lb.bm) ∈ chainTxs L := fun t ht => mem_chainTxs.mpr ⟨lb, hlb, rfl, ht⟩
  have hd : ∀ t ∈ lb.txs,
      minedTxDetails s ⟨t.hash, lb.bm.block⟩ t = .ok (okOr default (minedTxDetails s ⟨t.hash, lb.bm.block⟩ t)) ∧
      DetEquiv (okOr default (minedTxDetails s ⟨t.hash, lb.bm.block⟩ t)) (detailsOf L t (some lb.bm)) := by
    intro t ht
    obtain ⟨d, hd1, hd2⟩ := details_mined hg (hm t ht)
    rw [hd1]; exact ⟨rfl, hd2⟩
  refine ⟨lb.txs.map fun t => okOr default (minedTxDetails s ⟨t.hash, lb.bm.block⟩ t), ?_, ?_⟩
  · unfold blockDetails
    show ((lb.txs.map (·.hash)).mapM _) = _
    have : ∀ (l : List Tx), (∀ t ∈ l, t ∈ lb.txs) →
        (l.map (·.hash)).mapM (fun txHash =>
          match s.txrecs.find? ⟨txHash, ⟨lb.bm.block.height, lb.bm.block.hash⟩⟩ with
          | none => (throw Err.data : M Details)
          | some rec => minedTxDetails s ⟨txHash, ⟨lb.bm.block.height, lb.bm.block.hash⟩⟩ rec) =
        .ok (l.map fun t => okOr default (minedTxDetails s ⟨t.hash, lb.bm.block⟩ t)) := by
      intro l
      induction l with
      | nil => intro _; rfl
      | cons a r ih =>
        intro hsub
        have ha := hsub a List.mem_cons_self
        have hrec : s.txrecs.find? ⟨a.hash, lb.bm.block⟩ = some a := (hg.ref.txrecs_iff _ _).mpr ⟨lb.bm, hm a ha, rfl⟩
        rw [List.map_cons, List.mapM_cons]
        have hb : (⟨lb.bm.block.height, lb.bm.block.hash⟩ : Block) = lb.bm.block := rfl
        simp only [hb, hrec]
        rw [(hd a ha).1, ih (fun t ht => hsub t (List.mem_cons_of_mem _ ht))]
        rfl
    exact this lb.txs (fun t ht => ht)
  · exact ⟨_, List.Perm.refl _, forall₂_map_of_forall _ _ _ _ (fun t ht => (hd t ht).2)⟩

theorem blocksDetails_refines {s : Store} {L : Ledger} (hg : Good s L) : ∀ (sel : List LBlock), (∀ lb ∈ sel, lb ∈ L.chain) →
    ∃ bs, (sel.map blockEntry).mapM (fun (p : Nat × BlockRec) => blockDetails s p.1 p.2) = .ok bs ∧
      BatchesAgree bs (sel.map fun lb => lb.txs.map fun t => detailsOf L t (some lb.bm)) := by
  intro sel
  induction sel with
  | nil => intro _; exact ⟨[], rfl, Pointwise.nil⟩
  | cons lb rest ih =>
    intro hsub
    obtain ⟨ds, h1, h2⟩ := blockDetails_refines hg (hsub lb List.mem_cons_self)
    obtain ⟨bs, h3, h4⟩ := ih (fun x hx => hsub x (List.mem_cons_of_mem _ hx))
    refine ⟨ds :: bs, ?_, Pointwise.cons h2 h4⟩
    rw [List.map_cons, List.mapM_cons, h1, h3]; rfl

/-- selecting a height interval from the block records (ascending or descending) = selecting it from the chain -/
theorem sel_ascending {L : Ledger} (hl : LWF L) (lo hi : Int) :
    ((L.chain.map blockEntry).filter (fun p => decide (lo ≤ (p.1 : Int)))).takeWhile (fun p => decide ((p.1 : Int) ≤ hi)) =
      (L.chain.filter fun lb => decide (lo ≤ (lb.bm.block.height : Int) ∧ (lb.bm.block.height : Int) ≤ hi)).map blockEntry := by
  have hp : ((L.chain.map blockEntry).filter (fun p => decide (lo ≤ (p.1 : Int)))).Pairwise
      (fun a b => decide ((b.1 : Int) ≤ hi) = true → decide ((a.1 : Int) ≤ hi) = true) := by
    apply List.Pairwise.sublist List.filter_sublist
    rw [List.pairwise_map]
    have := hl.heights
    rw [List.pairwise_map] at this
    refine this.imp ?_
    intro a b hab hb
    have ha' : (blockEntry a).1 = a.bm.block.height := rfl
    have hb' : (blockEntry b).1 = b.bm.block.height := rfl
    simp only [decide_eq_true_eq] at hb ⊢
    rw [ha']; rw [hb'] at hb; omega
  rw [takeWhile_eq_filter _ _ hp, List.filter_filter, List.filter_map]
  congr 1
  apply List.filter_congr
  intro lb _
  simp only [Function.comp]
  show (decide ((lb.bm.block.height : Int) ≤ hi) && decide (lo ≤ (lb.bm.block.height : Int))) = _
  by_cases h1 : (lb.bm.block.height : Int) ≤ hi <;> by_cases h2 : lo ≤ (lb.bm.block.height : Int) <;> simp [h1, h2]

theorem sel_descending {L : Ledger} (hl : LWF L) (lo hi : Int) :
    (((L.chain.map blockEntry).filter (fun p => decide ((p.1 : Int) ≤ hi))).reverse).takeWhile
        (fun p => decide (lo ≤ (p.1 : Int))) =
      ((L.chain.filter fun lb => decide (lo ≤ (lb.bm.block.height : Int) ∧ (lb.bm.block.height : Int) ≤ hi)).reverse).map
        blockEntry := by
  have hp : (((L.chain.map blockEntry).filter (fun p => decide ((p.1 : Int) ≤ hi))).reverse).Pairwise
      (fun a b => decide (lo ≤ (b.1 : Int)) = true → decide (lo ≤ (a.1 : Int)) = true) := by
    rw [List.pairwise_reverse]
    apply List.Pairwise.sublist List.filter_sublist
    rw [List.pairwise_map]
    have := hl.heights
    rw [List.pairwise_map] at this
    refine this.imp ?_
    intro a b hab hb
    have ha' : (blockEntry a).1 = a.bm.block.height := rfl
    have hb' : (blockEntry b).1 = b.bm.block.height := rfl
    simp only [decide_eq_true_eq] at hb ⊢
    rw [hb']; rw [ha'] at hb; omega
  rw [takeWhile_eq_filter _ _ hp, List.filter_reverse, List.filter_filter, List.filter_map, List.map_reverse]
  congr 2
  apply List.filter_congr
  intro lb _
  simp only [Function.comp]
  show (decide (lo ≤ (lb.bm.block.height : Int)) && decide ((lb.bm.block.height : Int) ≤ hi)) = _
  by_cases h1 : (lb.bm.block.height : Int) ≤ hi <;> by_cases h2 : lo ≤ (lb.bm.block.height : Int) <;> simp [h1, h2]

theorem pointwise_append {α β : Type} {R : α → β → Prop} {l1 l2 : List α} {m1 m2 : List β}
    (h1 : Pointwise R l1 m1) (h2 : Pointwise R l2 m2) : Pointwise R (l1 ++ l2) (m1 ++ m2) := forall₂_append h1 h2

/-- the confirmed batches of `Ledger.range` -/
def rangeMidL (L : Ledger) (b e : Int) : List (List Details) :=
  if (if b < 0 then maxInt32 else b) < (if e < 0 then maxInt32 else e) then
    (L.chain.filter fun lb => decide ((if b < 0 then maxInt32 else b) ≤ (lb.bm.block.height : Int) ∧
      (lb.bm.block.height : Int) ≤ (if e < 0 then maxInt32 else e))).map
      fun lb => lb.txs.map fun t => detailsOf L t (some lb.bm)
  else ((L.chain.filter fun lb => decide ((if e < 0 then maxInt32 else e) ≤ (lb.bm.block.height : Int) ∧
      (lb.bm.block.height : Int) ≤ (if b < 0 then maxInt32 else b))).reverse).map
      fun lb => lb.txs.map fun t => detailsOf L t (some lb.bm)

/-- the unconfirmed batch of `Ledger.range` -/
def rangeUnL (L : Ledger) : List (List Details) :=
  if L.pool.isEmpty then [] else [L.pool.map fun t => detailsOf L t none]

theorem range_eq (L : Ledger) (b e : Int) :
    Ledger.range L b e = (if b < 0 then rangeUnL L else []) ++ rangeMidL L b e ++
      (if !(b < 0) && e < 0 then rangeUnL L else []) := rfl

/-- **`RangeTransactions` reports the ledger's batches**: the same batches in the same order (unconfirmed batch first or
last by the −1 rule, blocks ascending or descending), each holding the ledger's records of exactly the transactions of
that block / of the pool (records compared as in `details_refines`; inside the unconfirmed batch the order is the
store's) -/
theorem range_refines {s : Store} {L : Ledger} (hg : Good s L) (hn : NoConflict L) (b e : Int) :
    ∃ bs, rangeTransactions s b e = .ok bs ∧ BatchesAgree bs (Ledger.range L b e) := by
  obtain ⟨un, hun1, hun2⟩ := rangeUnmined_refines hg hn
  -- the confirmed batches
  have hmid : ∃ mid, rangeBlockTransactions s b e = .ok mid ∧ BatchesAgree mid (rangeMidL L b e) := by
    unfold rangeBlockTransactions rangeMidL
    simp only
    rw [hg.ref.blocks]
    by_cases hlt : (if b < 0 then maxInt32 else b) < (if e < 0 then maxInt32 else e)
    · simp only [hlt, if_true]
      rw [sel_ascending hg.lwf]
      exact blocksDetails_refines hg _ (fun lb hlb => (List.mem_filter.mp hlb).1)
    · simp only [hlt, if_false]
      rw [sel_descending hg.lwf]
      exact blocksDetails_refines hg _ (fun lb hlb => (List.mem_filter.mp (List.mem_reverse.mp hlb)).1)
  obtain ⟨mid, hmid1, hmid2⟩ := hmid
  have hun2' : BatchesAgree un (rangeUnL L) := hun2
  rw [range_eq]
  unfold rangeTransactions
  by_cases hb : b < 0
  · simp only [hb, if_true, decide_true, Bool.not_true, Bool.false_and, Bool.false_eq_true, if_false, hun1, hmid1,
      bind_ok, pure_eq]
    exact ⟨_, rfl, pointwise_append (pointwise_append hun2' hmid2) Pointwise.nil⟩
  · by_cases he : e < 0
    · simp only [hb, he, if_false, if_true, decide_true, decide_false, Bool.not_false, Bool.true_and, hun1, hmid1,
        bind_ok, pure_eq]
      exact ⟨_, rfl, pointwise_append (pointwise_append Pointwise.nil hmid2) hun2'⟩
    · simp only [hb, he, if_false, decide_false, Bool.not_false, Bool.true_and, Bool.false_eq_true, hmid1, bind_ok,
        pure_eq]
      exact ⟨_, rfl, pointwise_append (pointwise_append Pointwise.nil hmid2) Pointwise.nil⟩

end TxStore
