import BtcwVerif.Model.Refine
import BtcwVerif.Lemmas.Calls
/-!
# The refinement relation between the store and the ledger — definitions and reading lemmas

* `LWF L` — well-formedness of a ledger (what every chain-consistent history maintains): one block per height in
  ascending order, every known transaction once, credits name outputs of known transactions, no confirmed double spend,
  parents confirmed at or below their children, spends are acyclic, unconfirmed transactions are not coinbases,
  inputs naming a known transaction name an existing output.  `NoConflict L`: no unconfirmed transaction conflicts
  with a confirmed one.
* `Refines s L` — bucket by bucket, the store holds exactly the entries the ledger expects (`Ledger.exp…`,
  Model/Refine.lean; the executable form `Ledger.refinesB` is evaluated on every generated history).
* `Good s L` = `WF2 s` ∧ `LWF L` ∧ `Refines s L`: the invariant of the simulation.
* `Consistent L e` — `Ledger.consistent` plus what a validating node guarantees besides (`Ledger.extra`, fewer than
  2^32−1 outputs, no transaction spends its own output).
-/
namespace TxStore
open KMap Ledger

/-! ### reading the ledger's Boolean functions -/

theorem mem_chainTxs {L : Ledger} {t : Tx} {bm : BlockMeta} :
    (t, bm) ∈ chainTxs L ↔ ∃ lb ∈ L.chain, lb.bm = bm ∧ t ∈ lb.txs := by
  unfold chainTxs
  simp only [List.mem_flatMap, List.mem_map, Prod.mk.injEq]
  constructor
  · rintro ⟨lb, hlb, t', ht', rfl, rfl⟩; exact ⟨lb, hlb, rfl, ht'⟩
  · rintro ⟨lb, hlb, rfl, ht⟩; exact ⟨lb, hlb, t, ht, rfl, rfl⟩

theorem mem_known {L : Ledger} {t : Tx} {ob : Option BlockMeta} :
    (t, ob) ∈ known L ↔ (∃ bm, ob = some bm ∧ (t, bm) ∈ chainTxs L) ∨ (ob = none ∧ t ∈ L.pool) := by
  unfold known
  simp only [List.mem_append, List.mem_map, Prod.mk.injEq]
  constructor
  · rintro (⟨p, hp, rfl, rfl⟩ | ⟨t', ht', rfl, rfl⟩)
    · exact Or.inl ⟨p.2, rfl, hp⟩
    · exact Or.inr ⟨rfl, ht'⟩
  · rintro (⟨bm, rfl, h⟩ | ⟨rfl, h⟩)
    · exact Or.inl ⟨(t, bm), h, rfl, rfl⟩
    · exact Or.inr ⟨t, h, rfl, rfl⟩

theorem known_of_mined {L : Ledger} {t : Tx} {bm : BlockMeta} (h : (t, bm) ∈ chainTxs L) : (t, some bm) ∈ known L :=
  mem_known.mpr (Or.inl ⟨bm, rfl, h⟩)

theorem known_of_pool {L : Ledger} {t : Tx} (h : t ∈ L.pool) : (t, none) ∈ known L :=
  mem_known.mpr (Or.inr ⟨rfl, h⟩)

theorem isKnown_iff {L : Ledger} {h : Nat} : isKnown L h = true ↔ ∃ p ∈ known L, p.1.hash = h := by
  unfold isKnown; simp

theorem isKnown_false_iff {L : Ledger} {h : Nat} : isKnown L h = false ↔ ∀ p ∈ known L, p.1.hash ≠ h := by
  unfold isKnown; simp

theorem inPool_iff {L : Ledger} {h : Nat} : inPool L h = true ↔ ∃ t ∈ L.pool, t.hash = h := by
  unfold inPool; simp

theorem inPool_false_iff {L : Ledger} {h : Nat} : inPool L h = false ↔ ∀ t ∈ L.pool, t.hash ≠ h := by
  unfold inPool; simp

theorem inChain_iff {L : Ledger} {h : Nat} : inChain L h = true ↔ ∃ p ∈ chainTxs L, p.1.hash = h := by
  unfold inChain; simp

theorem inChain_false_iff {L : Ledger} {h : Nat} : inChain L h = false ↔ ∀ p ∈ chainTxs L, p.1.hash ≠ h := by
  unfold inChain; simp

theorem spentConfirmed_iff {L : Ledger} {op : OutPoint} :
    spentConfirmed L op = true ↔ ∃ p ∈ chainTxs L, op ∈ p.1.ins := by
  unfold spentConfirmed; simp

theorem spentConfirmed_false_iff {L : Ledger} {op : OutPoint} :
    spentConfirmed L op = false ↔ ∀ p ∈ chainTxs L, op ∉ p.1.ins := by
  unfold spentConfirmed; simp

theorem spent_iff {L : Ledger} {op : OutPoint} : Ledger.spent L op = true ↔ ∃ p ∈ known L, op ∈ p.1.ins := by
  unfold Ledger.spent; simp

/-- `lookup` on a list with unique keys is membership -/
theorem lookup_eq_some_iff {α : Type} (l : List (OutPoint × α)) (hn : (l.map (·.1)).Nodup) (op : OutPoint) (v : α) :
    lookup l op = some v ↔ (op, v) ∈ l := by
  unfold lookup
  induction l with
  | nil => simp
  | cons p t ih =>
    rw [List.map_cons, List.nodup_cons] at hn
    rw [List.find?_cons]
    by_cases hp : p.1 = op
    · have : (p.1 == op) = true := by simpa using hp
      simp only [this, List.mem_cons]
      constructor
      · intro h; cases h; left; rw [← hp]
      · rintro (h | h)
        · rw [← h]
        · exact absurd (List.mem_map.mpr ⟨(op, v), h, rfl⟩) (hp ▸ hn.1)
    · have : (p.1 == op) = false := by simpa using hp
      simp only [this, List.mem_cons]
      rw [ih hn.2]
      constructor
      · intro h; exact Or.inr h
      · rintro (h | h)
        · exact absurd (by rw [← h]) hp
        · exact h

theorem lookup_eq_none_iff {α : Type} (l : List (OutPoint × α)) (op : OutPoint) :
    lookup l op = none ↔ ∀ p ∈ l, p.1 ≠ op := by
  unfold lookup
  cases h : l.find? (fun p => p.1 == op) with
  | none =>
    simp only [true_iff]
    intro p hp
    have := List.find?_eq_none.mp h p hp
    simpa using this
  | some p =>
    simp only [false_iff, reduceCtorEq]
    intro hall
    have h1 := List.mem_of_find?_eq_some h
    have h2 := List.find?_some h
    exact hall p h1 (by simpa using h2)

theorem lookup_isSome_iff {α : Type} (l : List (OutPoint × α)) (op : OutPoint) :
    (lookup l op).isSome = true ↔ ∃ p ∈ l, p.1 = op := by
  cases h : lookup l op with
  | none =>
    simp only [Option.isSome_none, Bool.false_eq_true, false_iff]
    rintro ⟨p, hp, he⟩
    exact (lookup_eq_none_iff l op).mp h p hp he
  | some v =>
    simp only [Option.isSome_some, true_iff]
    unfold lookup at h
    cases hf : l.find? (fun p => p.1 == op) with
    | none => rw [hf] at h; cases h
    | some p => exact ⟨p, List.mem_of_find?_eq_some hf, by simpa using List.find?_some hf⟩

/-! ### ledger well-formedness -/

structure LWF (L : Ledger) : Prop where
  /-- one block per height, ascending -/
  heights : (L.chain.map (·.bm.block.height)).Pairwise (· < ·)
  /-- every known transaction is known once (hashes identify transactions) -/
  hashes : ((known L).map (·.1.hash)).Nodup
  creditKeys : (L.credit.map (·.1)).Nodup
  /-- credited outputs are outputs of known transactions -/
  creditKnown : ∀ p ∈ L.credit, ∃ q ∈ known L, q.1.hash = p.1.hash ∧ p.1.index < q.1.outs.length
  /-- a coinbase is never unconfirmed -/
  poolNoCb : ∀ t ∈ L.pool, t.isCoinBase = false
  /-- no output is spent twice by confirmed transactions (nor twice by one of them) -/
  noDouble : ((chainTxs L).flatMap (·.1.ins)).Nodup
  /-- known parents of a confirmed transaction are confirmed at or below it -/
  parents : ∀ p ∈ chainTxs L, ∀ i ∈ p.1.ins, ∀ q ∈ known L, q.1.hash = i.hash →
    ∃ bm, q.2 = some bm ∧ bm.block.height ≤ p.2.block.height
  /-- spends among known transactions are acyclic (transactions are hash-linked) -/
  rank : ∃ rk : Nat → Nat, ∀ p ∈ known L, ∀ i ∈ p.1.ins, ∀ q ∈ known L, q.1.hash = i.hash → rk i.hash < rk p.1.hash
  /-- inputs naming a known transaction name one of its outputs -/
  validRefs : ∀ p ∈ known L, ∀ i ∈ p.1.ins, ∀ q ∈ known L, q.1.hash = i.hash → i.index < q.1.outs.length
  outsBound : ∀ p ∈ known L, p.1.outs.length ≤ nullIndex
  /-- one lease per output -/
  leaseKeys : (L.leases.map (·.1)).Nodup

theorem lwf_empty : LWF {} := by
  refine ⟨List.Pairwise.nil, List.nodup_nil, List.nodup_nil, ?_, ?_, List.nodup_nil, ?_, ⟨fun _ => 0, ?_⟩, ?_, ?_,
    List.nodup_nil⟩
  all_goals intro p hp; cases hp

/-- an unconfirmed transaction does not conflict with a confirmed one (kept next to `Good`: it holds between events,
not in the middle of *confirmed*, and only the history queries need it) -/
def NoConflict (L : Ledger) : Prop := ∀ t ∈ L.pool, ∀ i ∈ t.ins, spentConfirmed L i = false

theorem eq_of_nodup_map {α β : Type} (f : α → β) : ∀ (l : List α), (l.map f).Nodup →
    ∀ a ∈ l, ∀ b ∈ l, f a = f b → a = b := by
  intro l
  induction l with
  | nil => intro _ a ha; cases ha
  | cons x t ih =>
    intro hn a ha b hb e
    rw [List.map_cons, List.nodup_cons] at hn
    rcases List.mem_cons.mp ha with rfl | ha'
    · rcases List.mem_cons.mp hb with rfl | hb'
      · rfl
      · exact absurd (List.mem_map.mpr ⟨b, hb', e.symm⟩) hn.1
    · rcases List.mem_cons.mp hb with rfl | hb'
      · exact absurd (List.mem_map.mpr ⟨a, ha', e⟩) hn.1
      · exact ih hn.2 a ha' b hb' e

/-- two known entries with the same hash are the same entry -/
theorem LWF.known_unique {L : Ledger} (h : LWF L) {p q : Tx × Option BlockMeta} (hp : p ∈ known L) (hq : q ∈ known L)
    (e : p.1.hash = q.1.hash) : p = q :=
  eq_of_nodup_map (fun p : Tx × Option BlockMeta => p.1.hash) _ h.hashes p hp q hq e

/-! ### what the ledger expects in each bucket -/

theorem mem_withIdx_iff {α : Type} : ∀ (l : List α) (n i : Nat) (a : α), (i, a) ∈ withIdx l n ↔ n ≤ i ∧ l[i - n]? = some a := by
  intro l
  induction l with
  | nil => intro n i a; simp [withIdx]
  | cons x t ih =>
    intro n i a
    simp only [withIdx, List.mem_cons, Prod.mk.injEq]
    rw [ih]
    constructor
    · rintro (⟨rfl, rfl⟩ | ⟨h1, h2⟩)
      · simp
      · refine ⟨by omega, ?_⟩
        have : i - n = (i - (n + 1)) + 1 := by omega
        rw [this, List.getElem?_cons_succ]; exact h2
    · rintro ⟨h1, h2⟩
      by_cases e : i = n
      · subst e
        simp only [Nat.sub_self, List.getElem?_cons_zero, Option.some.injEq] at h2
        exact Or.inl ⟨rfl, h2.symm⟩
      · right
        refine ⟨by omega, ?_⟩
        have : i - n = (i - (n + 1)) + 1 := by omega
        rw [this, List.getElem?_cons_succ] at h2; exact h2

theorem mem_withIdx0 {α : Type} (l : List α) (i : Nat) (a : α) : (i, a) ∈ withIdx l ↔ l[i]? = some a := by
  rw [mem_withIdx_iff]; simp

theorem mem_expTxrecs {L : Ledger} {k : TxKey} {v : Tx} :
    (k, v) ∈ expTxrecs L ↔ ∃ bm, (v, bm) ∈ chainTxs L ∧ k = ⟨v.hash, bm.block⟩ := by
  unfold expTxrecs
  simp only [List.mem_map, Prod.mk.injEq]
  constructor
  · rintro ⟨p, hp, rfl, rfl⟩; exact ⟨p.2, hp, rfl⟩
  · rintro ⟨bm, hp, rfl⟩; exact ⟨(v, bm), hp, rfl, rfl⟩

theorem mem_expUnmined {L : Ledger} {k : Nat} {v : Tx} : (k, v) ∈ expUnmined L ↔ v ∈ L.pool ∧ k = v.hash := by
  unfold expUnmined
  simp only [List.mem_map, Prod.mk.injEq]
  constructor
  · rintro ⟨t, ht, rfl, rfl⟩; exact ⟨ht, rfl⟩
  · rintro ⟨ht, rfl⟩; exact ⟨v, ht, rfl, rfl⟩

theorem mem_expCreditsOf {L : Ledger} {t : Tx} {bm : BlockMeta} {k : CredKey} {v : CreditVal} :
    (k, v) ∈ expCreditsOf L t bm ↔
      k.hash = t.hash ∧ k.block = bm.block ∧ t.outs[k.index]? = some v.amount ∧
      lookup L.credit k.outPoint = some v.change ∧ v.spender = spenderOf L k.outPoint ∧
      v.spent = (spenderOf L k.outPoint).isSome := by
  unfold expCreditsOf
  simp only [List.mem_filterMap]
  constructor
  · rintro ⟨⟨i, a⟩, hm, hv⟩
    rw [mem_withIdx0] at hm
    simp only at hv
    split at hv
    · rename_i chg hl
      simp only [Option.some.injEq, Prod.mk.injEq] at hv
      obtain ⟨rfl, rfl⟩ := hv
      exact ⟨rfl, rfl, hm, hl, rfl, rfl⟩
    · cases hv
  · rintro ⟨h1, h2, h3, h4, h5, h6⟩
    refine ⟨(k.index, v.amount), (mem_withIdx0 _ _ _).mpr h3, ?_⟩
    have hk : (⟨t.hash, k.index⟩ : OutPoint) = k.outPoint := by simp [CredKey.outPoint, h1]
    simp only [hk, h4, Option.some.injEq, Prod.mk.injEq]
    constructor
    · cases k; simp_all
    · cases v; simp_all

theorem mem_expCredits {L : Ledger} {k : CredKey} {v : CreditVal} :
    (k, v) ∈ expCredits L ↔
      ∃ t bm, (t, bm) ∈ chainTxs L ∧ k.hash = t.hash ∧ k.block = bm.block ∧ t.outs[k.index]? = some v.amount ∧
      lookup L.credit k.outPoint = some v.change ∧ v.spender = spenderOf L k.outPoint ∧
      v.spent = (spenderOf L k.outPoint).isSome := by
  unfold expCredits
  simp only [List.mem_flatMap]
  constructor
  · rintro ⟨p, hp, h⟩; exact ⟨p.1, p.2, hp, mem_expCreditsOf.mp h⟩
  · rintro ⟨t, bm, hp, h⟩; exact ⟨(t, bm), hp, mem_expCreditsOf.mpr h⟩

theorem mem_expUnminedCredits {L : Ledger} {op : OutPoint} {uc : UCredit} :
    (op, uc) ∈ expUnminedCredits L ↔
      ∃ t ∈ L.pool, op.hash = t.hash ∧ t.outs[op.index]? = some uc.amount ∧ lookup L.credit op = some uc.change := by
  unfold expUnminedCredits
  simp only [List.mem_flatMap, List.mem_filterMap]
  constructor
  · rintro ⟨t, ht, ⟨i, a⟩, hm, hv⟩
    rw [mem_withIdx0] at hm
    simp only at hv
    split at hv
    · rename_i chg hl
      simp only [Option.some.injEq, Prod.mk.injEq] at hv
      obtain ⟨rfl, rfl⟩ := hv
      exact ⟨t, ht, rfl, hm, hl⟩
    · cases hv
  · rintro ⟨t, ht, h1, h2, h3⟩
    refine ⟨t, ht, (op.index, uc.amount), (mem_withIdx0 _ _ _).mpr h2, ?_⟩
    have hk : (⟨t.hash, op.index⟩ : OutPoint) = op := by cases op; simp_all
    simp only [hk, h3]

theorem mem_poolSpenders {L : Ledger} {op : OutPoint} {h : Nat} :
    h ∈ poolSpenders L op ↔ ∃ t ∈ L.pool, op ∈ t.ins ∧ t.hash = h := by
  unfold poolSpenders
  simp only [List.mem_map, List.mem_filter, List.contains_iff_mem]
  constructor
  · rintro ⟨t, ⟨ht, hi⟩, rfl⟩; exact ⟨t, ht, hi, rfl⟩
  · rintro ⟨t, ht, hi, rfl⟩; exact ⟨t, ⟨ht, hi⟩, rfl⟩

/-! ### the refinement relation -/

structure Refines (s : Store) (L : Ledger) : Prop where
  /-- block records: the chain, block by block, transactions in the order the wallet learned them -/
  blocks : s.blocks = L.chain.map blockEntry
  txrecs : ∀ k v, s.txrecs.find? k = some v ↔ (k, v) ∈ expTxrecs L
  unmined : ∀ k v, s.unmined.find? k = some v ↔ (k, v) ∈ expUnmined L
  /-- credit records: credited outputs of confirmed transactions, with amount, change flag, and the confirmed spender -/
  credits : ∀ k v, s.credits.find? k = some v ↔ (k, v) ∈ expCredits L
  /-- debit records: one for every credit record with a confirmed spender, under the spender's key -/
  debits : ∀ dk d, s.debits.find? dk = some d ↔
    ∃ cv, s.credits.find? d.credKey = some cv ∧ cv.spender = some dk ∧ cv.amount = d.amount
  ucredits : ∀ k v, s.unminedCredits.find? k = some v ↔ (k, v) ∈ expUnminedCredits L
  /-- the unconfirmed-inputs index lists, per outpoint, the unconfirmed transactions spending it -/
  uinputs : ∀ op h, h ∈ spendHashes s op ↔ h ∈ poolSpenders L op
  uinputsNE : ∀ op, s.unminedInputs.find? op ≠ some []
  /-- leases: stored whole seconds = the instant handed to the caller -/
  leases : ∀ op, (s.locked.find? op).map (fun l => (l.id, l.expiry * 1000000000)) =
    (lookup L.leases op).map (fun l => (l.id, l.expiry))
  /-- buckets hold one entry per key (the other buckets: `WF`) -/
  nodupTxrecs : NodupKeys s.txrecs
  nodupUnmined : NodupKeys s.unmined
  nodupDebits : NodupKeys s.debits
  nodupLocked : NodupKeys s.locked

/-- the invariant of the simulation -/
structure Good (s : Store) (L : Ledger) : Prop where
  wf2 : WF2 s
  lwf : LWF L
  ref : Refines s L

/-- the transaction an event delivers -/
def Event.tx? : Event → Option Tx
  | .seen t _ => some t
  | .confirmed _ t _ => some t
  | _ => none

/-- chain consistency of the next event: `Ledger.consistent`, `Ledger.extra` (inputs name existing outputs; no
unconfirmed transaction conflicting with a confirmed one is delivered), a transaction has fewer than 2^32−1 outputs and
does not spend an output of itself -/
structure Consistent (L : Ledger) (e : Event) : Prop where
  cons : consistent L e = true
  extra : extra L e = true
  bound : ∀ t, Event.tx? e = some t → t.outs.length ≤ nullIndex ∧ ∀ i ∈ t.ins, i.hash ≠ t.hash

end TxStore
