/-
Completeness of the recovery batch loop (C16): specification vocabulary (chain well-formedness, the look-ahead
hypothesis, wallet outputs, ledger balance), the loop invariant, and the step lemmas for
expandAll → filterBlocks → applyFound (extendFound, watched outpoints, addRelevantTx), Resurrect, batches.
The property theorem `C16_complete` is assembled in Lemmas/RecoveryComplete.lean / Props/C16.lean.
-/
import BtcwVerif.Lemmas.RecoveryLemmas

namespace Recovery

/-! ## PART 3 — specification vocabulary -/

/-- The blocks recovery walks over: (height, block). -/
abbrev Chain := List (Nat × Block)

/-- All transactions of a chain in chain order. -/
def allTxs (c : Chain) : List Tx := c.flatMap (·.2)

/-- A wallet output: pays a key of one of the recovered scopes. -/
def isW (scopes : List Nat) (o : TxOut) : Bool :=
  match o.key with
  | some k => scopes.contains k.scope
  | none => false

/-- Wallet outputs among `outs` (output indices starting at `i`) of transaction `txid`: (outpoint, amount). -/
def wouts (scopes : List Nat) (txid : Nat) : List TxOut → Nat → List (OutPoint × Nat)
  | [], _ => []
  | o :: rest, i =>
    if isW scopes o then ((txid, i), o.amount) :: wouts scopes txid rest (i + 1) else wouts scopes txid rest (i + 1)

/-- All wallet outputs created by `txs`, in order. -/
def walletOuts (scopes : List Nat) (txs : List Tx) : List (OutPoint × Nat) :=
  txs.flatMap (fun tx => wouts scopes tx.id tx.outs 0)

/-- The outpoints of the wallet outputs created by `txs`. -/
def wops (scopes : List Nat) (txs : List Tx) : List OutPoint := (walletOuts scopes txs).map (·.1)

/-- Some transaction of `txs` spends `op`. -/
def spentIn (txs : List Tx) (op : OutPoint) : Bool := txs.any (fun t => t.ins.contains op)

/-- The transaction pays a wallet key or spends one of the outpoints `ops`. -/
def touches (scopes : List Nat) (ops : List OutPoint) (tx : Tx) : Bool :=
  tx.outs.any (isW scopes) || tx.ins.any (fun op => ops.contains op)

/-- Every key some output of `txs` pays. -/
def paidKeys (txs : List Tx) : List Key := txs.flatMap (fun tx => tx.outs.filterMap (·.key))

/-- The child indices paid on branch `br` by `txs`. -/
def paidIdx (txs : List Tx) (br : BranchId) : List Nat :=
  ((paidKeys txs).filter (fun k => k.scope == br.1 && k.internal == br.2)).map (·.index)

/-- One above the highest index paid on `br` by `txs` (0 if none): the branch's next index after `txs`. -/
def nextAfter (txs : List Tx) (br : BranchId) : Nat := invBound (paidIdx txs br)

/-- The look-ahead hypothesis of C16: every block pays, on each branch of each recovered scope, only indices less
    than `W` beyond the next index after the EARLIER blocks (several payments per block allowed; payments of one
    block are all measured against the earlier blocks). -/
def LookAhead (W : Nat) (scopes : List Nat) (c : Chain) : Prop :=
  ∀ pre h blk post, c = pre ++ (h, blk) :: post → ∀ k ∈ paidKeys blk, scopes.contains k.scope = true →
    k.index < nextAfter (allTxs pre) (k.scope, k.internal) + W

/-- What a valid chain gives us.  All clauses only constrain wallet outputs. -/
structure ChainWF (scopes : List Nat) (invalid : BranchId → List Nat) (c : Chain) : Prop where
  /-- transaction ids are unique -/
  ids : ∀ pre tx post, allTxs c = pre ++ tx :: post → ∀ t ∈ pre, t.id ≠ tx.id
  /-- no transaction spends a wallet output of itself or of a later transaction -/
  order : ∀ pre tx post, allTxs c = pre ++ tx :: post → ∀ op ∈ tx.ins, ∀ t ∈ tx :: post,
      op ∉ (wouts scopes t.id t.outs 0).map (·.1)
  /-- no wallet output is spent twice -/
  nodbl : ∀ pre tx post, allTxs c = pre ++ tx :: post → ∀ op ∈ tx.ins, op ∈ wops scopes (allTxs c) →
      ∀ t ∈ pre, op ∉ t.ins
  /-- an address exists only for valid child indices -/
  valid : ∀ k ∈ paidKeys (allTxs c), scopes.contains k.scope = true → Valid (invalid (k.scope, k.internal)) k.index

/-- Ground truth: the sum of the wallet outputs of the chain no transaction of the chain spends. -/
def ledgerBalance (scopes : List Nat) (txs : List Tx) : Nat :=
  (((walletOuts scopes txs).filter (fun p => !spentIn txs p.1)).map (·.2)).sum

/-- Ground truth: the credits the wallet must hold after `txs`. -/
def specCredits (scopes : List Nat) (txs : List Tx) : List Credit :=
  (walletOuts scopes txs).map (fun p => ⟨p.1, p.2, spentIn txs p.1⟩)

/-! ### basic facts -/

theorem allTxs_append (a b : Chain) : allTxs (a ++ b) = allTxs a ++ allTxs b := by
  simp [allTxs, List.flatMap_append]

theorem allTxs_single (h : Nat) (blk : Block) : allTxs [(h, blk)] = blk := by simp [allTxs]

theorem walletOuts_append (scopes : List Nat) (a b : List Tx) :
    walletOuts scopes (a ++ b) = walletOuts scopes a ++ walletOuts scopes b := by
  simp [walletOuts, List.flatMap_append]

theorem wops_append (scopes : List Nat) (a b : List Tx) : wops scopes (a ++ b) = wops scopes a ++ wops scopes b := by
  simp [wops, walletOuts_append]

theorem paidKeys_append (a b : List Tx) : paidKeys (a ++ b) = paidKeys a ++ paidKeys b := by
  simp [paidKeys, List.flatMap_append]

theorem spentIn_append (a b : List Tx) (op : OutPoint) : spentIn (a ++ b) op = (spentIn a op || spentIn b op) := by
  simp [spentIn, List.any_append]

theorem mem_wops_iff (scopes : List Nat) (txs : List Tx) (op : OutPoint) :
    op ∈ wops scopes txs ↔ ∃ t ∈ txs, op ∈ (wouts scopes t.id t.outs 0).map (·.1) := by
  simp only [wops, walletOuts, List.mem_map, List.mem_flatMap]
  constructor
  · rintro ⟨p, ⟨t, ht, hp⟩, rfl⟩; exact ⟨t, ht, p, hp, rfl⟩
  · rintro ⟨t, ht, p, hp, rfl⟩; exact ⟨p, ⟨t, ht, hp⟩, rfl⟩

theorem isW_iff (scopes : List Nat) (o : TxOut) :
    isW scopes o = true ↔ ∃ k, o.key = some k ∧ scopes.contains k.scope = true := by
  unfold isW
  cases o.key with
  | none => simp
  | some k => simp

theorem wouts_eq_nil (scopes : List Nat) (txid : Nat) : ∀ (outs : List TxOut) (i : Nat),
    outs.any (isW scopes) = false → wouts scopes txid outs i = [] := by
  intro outs
  induction outs with
  | nil => intro _ _; rfl
  | cons o rest ih =>
    intro i h
    simp only [List.any_cons, Bool.or_eq_false_iff] at h
    simp only [wouts, h.1]
    exact ih (i + 1) h.2

theorem any_isW_iff (scopes : List Nat) (outs : List TxOut) :
    outs.any (isW scopes) = true ↔ ∃ k ∈ outs.filterMap (·.key), scopes.contains k.scope = true := by
  simp only [List.any_eq_true, List.mem_filterMap]
  constructor
  · rintro ⟨o, ho, hw⟩
    obtain ⟨k, hk, hs⟩ := (isW_iff scopes o).mp hw
    exact ⟨k, ⟨o, ho, hk⟩, hs⟩
  · rintro ⟨k, ⟨o, ho, hk⟩, hs⟩
    exact ⟨o, ho, (isW_iff scopes o).mpr ⟨k, hk, hs⟩⟩

/-- `invBound l ≤ n` when every element is below `n`. -/
theorem invBound_le (l : List Nat) (n : Nat) (h : ∀ i ∈ l, i < n) : invBound l ≤ n := by
  have aux : ∀ (l : List Nat) (m : Nat), m ≤ n → (∀ i ∈ l, i < n) → l.foldl (fun m i => max m (i + 1)) m ≤ n := by
    intro l
    induction l with
    | nil => intro m hm _; simpa using hm
    | cons a l ih =>
      intro m hm hl
      simp only [List.foldl_cons]
      apply ih
      · have := hl a (by simp); omega
      · intro i hi; exact hl i (by simp [hi])
  exact aux l 0 (Nat.zero_le _) h

/-! ### association lists -/

theorem lookup_filter_ne {β : Type} (l : List (BranchId × β)) (k k' : BranchId) (h : k' ≠ k) :
    (l.filter (fun p => !(p.1 == k))).lookup k' = l.lookup k' := by
  induction l with
  | nil => rfl
  | cons p l ih =>
    obtain ⟨a, b⟩ := p
    by_cases hak : a = k
    · subst hak
      have h1 : (k' == a) = false := by simp [h]
      simp [List.lookup_cons, h1, ih]
    · have h2 : (a == k) = false := by simp [hak]
      simp only [List.filter_cons, h2, Bool.not_false, if_true, List.lookup_cons]
      rw [ih]

theorem lookupD_assocSet {β : Type} (l : List (BranchId × β)) (d : β) (k k' : BranchId) (v : β) :
    lookupD (assocSet l k v) d k' = if k' = k then v else lookupD l d k' := by
  unfold lookupD assocSet
  by_cases h : k' = k
  · subst h; simp
  · have h1 : (k' == k) = false := by simp [h]
    simp only [List.lookup_cons, h1, if_neg h]
    rw [lookup_filter_ne l k k' h]

theorem mem_branchIds (scopes : List Nat) (br : BranchId) : br ∈ branchIds scopes ↔ scopes.contains br.1 = true := by
  obtain ⟨s, b⟩ := br
  simp only [branchIds, List.mem_flatMap, List.mem_cons, List.not_mem_nil, or_false, Prod.mk.injEq,
    List.contains_iff_mem]
  constructor
  · rintro ⟨a, ha, h | h⟩ <;> (rw [h.1]; exact ha)
  · intro h
    cases b
    · exact ⟨s, h, Or.inl ⟨rfl, rfl⟩⟩
    · exact ⟨s, h, Or.inr ⟨rfl, rfl⟩⟩

theorem mem_foldl_insert {α : Type} [BEq α] [LawfulBEq α] (l : List α) : ∀ (w : List α) (x : α),
    x ∈ l.foldl (fun w op => w.insert op) w ↔ x ∈ w ∨ x ∈ l := by
  induction l with
  | nil => intro w x; simp
  | cons a l ih =>
    intro w x
    simp only [List.foldl_cons, ih, List.mem_insert_iff, List.mem_cons]
    constructor
    · rintro ((h | h) | h)
      · exact Or.inr (Or.inl h)
      · exact Or.inl h
      · exact Or.inr (Or.inr h)
    · rintro (h | h | h)
      · exact Or.inl (Or.inr h)
      · exact Or.inl (Or.inl h)
      · exact Or.inr h

/-! ## PART 4 — the block filter -/

theorem filterOuts_spec (st : State) (scopes : List Nat) (txid : Nat) : ∀ (outs : List TxOut) (i : Nat) (f : Found),
    (∀ o ∈ outs, ∀ k, o.key = some k → watchesKey st k = scopes.contains k.scope) →
    (filterOuts st txid outs i f).1 = outs.any (isW scopes) ∧
    (filterOuts st txid outs i f).2.txs = f.txs ∧
    (∀ k, k ∈ f.keys → k ∈ (filterOuts st txid outs i f).2.keys) ∧
    (∀ k ∈ outs.filterMap (·.key), scopes.contains k.scope = true → k ∈ (filterOuts st txid outs i f).2.keys) ∧
    (∀ op, op ∈ (filterOuts st txid outs i f).2.outpoints ↔
        op ∈ f.outpoints ∨ op ∈ (wouts scopes txid outs i).map (·.1)) := by
  intro outs
  induction outs with
  | nil => intro i f _; simp [filterOuts, wouts]
  | cons o rest ih =>
    intro i f hw
    have hwr : ∀ o' ∈ rest, ∀ k, o'.key = some k → watchesKey st k = scopes.contains k.scope :=
      fun o' ho' => hw o' (List.mem_cons_of_mem _ ho')
    cases hk : o.key with
    | none =>
      have hiw : isW scopes o = false := by simp [isW, hk]
      obtain ⟨r1, r2, r3, r4, r5⟩ := ih (i + 1) f hwr
      simp only [filterOuts, hk, List.any_cons, hiw, Bool.false_or, wouts, List.filterMap_cons]
      exact ⟨r1, r2, r3, r4, r5⟩
    | some k =>
      have hwk := hw o (List.mem_cons_self) k hk
      by_cases hc : scopes.contains k.scope = true
      · have hiw : isW scopes o = true := by simp only [isW, hk]; exact hc
        rw [hc] at hwk
        obtain ⟨_, r2, r3, r4, r5⟩ := ih (i + 1)
          { f with keys := f.keys.insert k, outpoints := f.outpoints.insert (txid, i) } hwr
        simp only [filterOuts, hk, hwk, if_true, List.any_cons, hiw, Bool.true_or, wouts, List.filterMap_cons,
          List.map_cons, List.mem_cons]
        refine ⟨trivial, r2, ?_, ?_, ?_⟩
        · intro k' hk'; exact r3 k' (by simp [hk'])
        · intro k' hk' hs
          rcases hk' with rfl | hk'
          · exact r3 _ (by simp)
          · exact r4 k' hk' hs
        · intro op
          rw [r5 op]
          simp only [List.mem_insert_iff]
          constructor
          · rintro ((h | h) | h)
            · exact Or.inr (Or.inl h)
            · exact Or.inl h
            · exact Or.inr (Or.inr h)
          · rintro (h | h | h)
            · exact Or.inl (Or.inr h)
            · exact Or.inl (Or.inl h)
            · exact Or.inr h
      · have hc' : scopes.contains k.scope = false := eq_false_of_ne_true hc
        have hiw : isW scopes o = false := by simp only [isW, hk]; exact hc'
        rw [hc'] at hwk
        obtain ⟨r1, r2, r3, r4, r5⟩ := ih (i + 1) f hwr
        simp only [filterOuts, hk, hwk, List.any_cons, hiw, Bool.false_or, wouts, List.filterMap_cons]
        refine ⟨r1, r2, r3, ?_, r5⟩
        intro k' hk' hs
        simp only [List.mem_cons] at hk'
        rcases hk' with rfl | hk'
        · rw [hc'] at hs; cases hs
        · exact r4 k' hk' hs

theorem wops_cons (scopes : List Nat) (tx : Tx) (rest : List Tx) :
    wops scopes (tx :: rest) = (wouts scopes tx.id tx.outs 0).map (·.1) ++ wops scopes rest := by
  simp [wops, walletOuts]

theorem paidKeys_cons (tx : Tx) (rest : List Tx) :
    paidKeys (tx :: rest) = tx.outs.filterMap (·.key) ++ paidKeys rest := by
  simp [paidKeys]

/-- `BlockFilterer.FilterBlock` when the watched addresses cover every wallet key the block pays and the watched
    outpoints cover every wallet outpoint the block spends (created before the block): the relevant transactions
    are exactly those that touch the wallet, all paid wallet keys and all created wallet outpoints are reported. -/
theorem filterBlock_spec (st : State) (scopes : List Nat) (ops : List OutPoint)
    (hwa : ∀ op ∈ st.watched, op ∈ ops) : ∀ (blk : Block) (f : Found),
    (∀ tx ∈ blk, ∀ o ∈ tx.outs, ∀ k, o.key = some k → watchesKey st k = scopes.contains k.scope) →
    (∀ op ∈ f.outpoints, op ∈ ops) →
    (∀ op ∈ wops scopes blk, op ∈ ops) →
    (∀ a tx b, blk = a ++ tx :: b → ∀ op ∈ tx.ins, op ∈ ops →
        op ∈ st.watched ∨ op ∈ f.outpoints ∨ op ∈ wops scopes a) →
    (filterBlock st blk f).txs = f.txs ++ blk.filter (touches scopes ops) ∧
    (∀ k ∈ f.keys, k ∈ (filterBlock st blk f).keys) ∧
    (∀ k ∈ paidKeys blk, scopes.contains k.scope = true → k ∈ (filterBlock st blk f).keys) ∧
    (∀ op, op ∈ (filterBlock st blk f).outpoints ↔ op ∈ f.outpoints ∨ op ∈ wops scopes blk) := by
  intro blk
  induction blk with
  | nil => intro f _ _ _ _; simp [filterBlock, wops, walletOuts, paidKeys]
  | cons tx rest ih =>
    intro f h1 h3 h4 h5
    have hs := filterOuts_spec st scopes tx.id tx.outs 0 f (h1 tx List.mem_cons_self)
    rw [filterBlock]
    generalize filterOuts st tx.id tx.outs 0 f = r at hs ⊢
    obtain ⟨pays, f'⟩ := r
    simp only at hs ⊢
    obtain ⟨r1, r2, r3, r4, r5⟩ := hs
    have ht : (tx.ins.any (fun op => st.watched.contains op || f.outpoints.contains op) || pays)
        = touches scopes ops tx := by
      rw [r1, touches, Bool.or_comm]
      cases hp : tx.outs.any (isW scopes)
      · simp only [Bool.false_or]
        rw [Bool.eq_iff_iff]
        simp only [List.any_eq_true, Bool.or_eq_true, List.contains_iff_mem]
        constructor
        · rintro ⟨op, hop, h | h⟩
          · exact ⟨op, hop, hwa op h⟩
          · exact ⟨op, hop, h3 op h⟩
        · rintro ⟨op, hop, h⟩
          rcases h5 [] tx rest rfl op hop h with h' | h' | h'
          · exact ⟨op, hop, Or.inl h'⟩
          · exact ⟨op, hop, Or.inr h'⟩
          · simp [wops, walletOuts] at h'
      · simp
    rw [ht]
    -- the accumulator handed to the rest of the block
    have hrest : ∀ f'' : Found, f''.keys = f'.keys → f''.outpoints = f'.outpoints →
        f''.txs = f.txs ++ [tx].filter (touches scopes ops) →
        (filterBlock st rest f'').txs = f.txs ++ (tx :: rest).filter (touches scopes ops) ∧
        (∀ k ∈ f.keys, k ∈ (filterBlock st rest f'').keys) ∧
        (∀ k ∈ paidKeys (tx :: rest), scopes.contains k.scope = true → k ∈ (filterBlock st rest f'').keys) ∧
        (∀ op, op ∈ (filterBlock st rest f'').outpoints ↔ op ∈ f.outpoints ∨ op ∈ wops scopes (tx :: rest)) := by
      intro f'' hk ho htx
      have h3' : ∀ op ∈ f''.outpoints, op ∈ ops := by
        intro op hop
        rw [ho] at hop
        rcases (r5 op).mp hop with h | h
        · exact h3 op h
        · exact h4 op (by rw [wops_cons]; exact List.mem_append_left _ h)
      have h4' : ∀ op ∈ wops scopes rest, op ∈ ops :=
        fun op hop => h4 op (by rw [wops_cons]; exact List.mem_append_right _ hop)
      have h5' : ∀ a t b, rest = a ++ t :: b → ∀ op ∈ t.ins, op ∈ ops →
          op ∈ st.watched ∨ op ∈ f''.outpoints ∨ op ∈ wops scopes a := by
        intro a t b hab op hop hops
        rcases h5 (tx :: a) t b (by rw [hab]; rfl) op hop hops with h | h | h
        · exact Or.inl h
        · exact Or.inr (Or.inl (by rw [ho]; exact (r5 op).mpr (Or.inl h)))
        · rw [wops_cons] at h
          rcases List.mem_append.mp h with h | h
          · exact Or.inr (Or.inl (by rw [ho]; exact (r5 op).mpr (Or.inr h)))
          · exact Or.inr (Or.inr h)
      obtain ⟨q1, q2, q3, q4⟩ := ih f'' (fun t ht' => h1 t (List.mem_cons_of_mem _ ht')) h3' h4' h5'
      refine ⟨?_, ?_, ?_, ?_⟩
      · rw [q1, htx, List.append_assoc, ← List.filter_append]
        rfl
      · intro k hk'
        exact q2 k (by rw [hk]; exact r3 k hk')
      · intro k hk' hs
        rw [paidKeys_cons] at hk'
        rcases List.mem_append.mp hk' with h | h
        · exact q2 k (by rw [hk]; exact r4 k h hs)
        · exact q3 k h hs
      · intro op
        rw [q4 op, ho, r5 op, wops_cons, List.mem_append, or_assoc]
    cases htt : touches scopes ops tx
    · simp only [Bool.false_eq_true, if_false]
      exact hrest f' rfl rfl (by simp [htt, r2])
    · simp only [if_true]
      exact hrest { f' with txs := f'.txs ++ [tx] } rfl rfl (by simp [htt, r2])

end Recovery
