/-
Completeness of the recovery batch loop (C16): specification vocabulary (chain well-formedness, the look-ahead
hypothesis, wallet outputs, ledger balance), the loop invariant, and the step lemmas for
expandAll → filterBlocks → applyFound (extendFound, watched outpoints, addRelevantTx), Resurrect, batches.
The property theorem `C16_complete` is assembled in Lemmas/RecoveryComplete.lean / Props/C16.lean.
-/
import BtcwVerif.Lemmas.RecoveryLemmas

namespace Recovery

/-! ## PART 3 — specification vocabulary -/

/-- The blocks recovery walks over: (height, block). -/
abbrev Chain := List (Nat × Block)

/-- All transactions of a chain in chain order. -/
def allTxs (c : Chain) : List Tx := c.flatMap (·.2)

/-- A wallet output: pays a key of one of the recovered scopes. -/
def isW (scopes : List Nat) (o : TxOut) : Bool :=
  match o.key with
  | some k => scopes.contains k.scope
  | none => false

/-- Wallet outputs among `outs` (output indices starting at `i`) of transaction `txid`: (outpoint, amount). -/
def wouts (scopes : List Nat) (txid : Nat) : List TxOut → Nat → List (OutPoint × Nat)
  | [], _ => []
  | o :: rest, i =>
    if isW scopes o then ((txid, i), o.amount) :: wouts scopes txid rest (i + 1) else wouts scopes txid rest (i + 1)

/-- All wallet outputs created by `txs`, in order. -/
def walletOuts (scopes : List Nat) (txs : List Tx) : List (OutPoint × Nat) :=
  txs.flatMap (fun tx => wouts scopes tx.id tx.outs 0)

/-- The outpoints of the wallet outputs created by `txs`. -/
def wops (scopes : List Nat) (txs : List Tx) : List OutPoint := (walletOuts scopes txs).map (·.1)

/-- Some transaction of `txs` spends `op`. -/
def spentIn (txs : List Tx) (op : OutPoint) : Bool := txs.any (fun t => t.ins.contains op)

/-- The transaction pays a wallet key or spends one of the outpoints `ops`. -/
def touches (scopes : List Nat) (ops : List OutPoint) (tx : Tx) : Bool :=
  tx.outs.any (isW scopes) || tx.ins.any (fun op => ops.contains op)

/-- Every key some output of `txs` pays. -/
def paidKeys (txs : List Tx) : List Key := txs.flatMap (fun tx => tx.outs.filterMap (·.key))

/-- The child indices paid on branch `br` by `txs`. -/
def paidIdx (txs : List Tx) (br : BranchId) : List Nat :=
  ((paidKeys txs).filter (fun k => k.scope == br.1 && k.internal == br.2)).map (·.index)

/-- One above the highest index paid on `br` by `txs` (0 if none): the branch's next index after `txs`. -/
def nextAfter (txs : List Tx) (br : BranchId) : Nat := invBound (paidIdx txs br)

/-- The look-ahead hypothesis of C16: every block pays, on each branch of each recovered scope, only indices less
    than `W` beyond the next index after the EARLIER blocks (several payments per block allowed; payments of one
    block are all measured against the earlier blocks). -/
def LookAhead (W : Nat) (scopes : List Nat) (c : Chain) : Prop :=
  ∀ pre h blk post, c = pre ++ (h, blk) :: post → ∀ k ∈ paidKeys blk, scopes.contains k.scope = true →
    k.index < nextAfter (allTxs pre) (k.scope, k.internal) + W

/-- The same for the blocks at positions `≥ n` only (a recovery that resumes above the first `n` blocks). -/
def LookAheadFrom (W : Nat) (scopes : List Nat) (n : Nat) (c : Chain) : Prop :=
  ∀ pre h blk post, c = pre ++ (h, blk) :: post → n ≤ pre.length → ∀ k ∈ paidKeys blk, scopes.contains k.scope = true →
    k.index < nextAfter (allTxs pre) (k.scope, k.internal) + W

theorem LookAhead.from0 {W : Nat} {scopes : List Nat} {c : Chain} (h : LookAhead W scopes c) :
    LookAheadFrom W scopes 0 c := fun pre hh blk post e _ => h pre hh blk post e

/-- What a valid chain gives us.  All clauses only constrain wallet outputs. -/
structure ChainWF (scopes : List Nat) (invalid : BranchId → List Nat) (c : Chain) : Prop where
  /-- transaction ids are unique -/
  ids : ∀ pre tx post, allTxs c = pre ++ tx :: post → ∀ t ∈ pre, t.id ≠ tx.id
  /-- no transaction spends a wallet output of itself or of a later transaction -/
  order : ∀ pre tx post, allTxs c = pre ++ tx :: post → ∀ op ∈ tx.ins, ∀ t ∈ tx :: post,
      op ∉ (wouts scopes t.id t.outs 0).map (·.1)
  /-- no wallet output is spent twice -/
  nodbl : ∀ pre tx post, allTxs c = pre ++ tx :: post → ∀ op ∈ tx.ins, op ∈ wops scopes (allTxs c) →
      ∀ t ∈ pre, op ∉ t.ins
  /-- an address exists only for valid child indices -/
  valid : ∀ k ∈ paidKeys (allTxs c), scopes.contains k.scope = true → Valid (invalid (k.scope, k.internal)) k.index

/-- Ground truth: the sum of the wallet outputs of the chain no transaction of the chain spends. -/
def ledgerBalance (scopes : List Nat) (txs : List Tx) : Nat :=
  (((walletOuts scopes txs).filter (fun p => !spentIn txs p.1)).map (·.2)).sum

/-- Ground truth: the credits the wallet must hold after `txs`. -/
def specCredits (scopes : List Nat) (txs : List Tx) : List Credit :=
  (walletOuts scopes txs).map (fun p => ⟨p.1, p.2, spentIn txs p.1⟩)

/-! ### basic facts -/

theorem allTxs_append (a b : Chain) : allTxs (a ++ b) = allTxs a ++ allTxs b := by
  simp [allTxs, List.flatMap_append]

theorem allTxs_single (h : Nat) (blk : Block) : allTxs [(h, blk)] = blk := by simp [allTxs]

theorem walletOuts_append (scopes : List Nat) (a b : List Tx) :
    walletOuts scopes (a ++ b) = walletOuts scopes a ++ walletOuts scopes b := by
  simp [walletOuts, List.flatMap_append]

theorem wops_append (scopes : List Nat) (a b : List Tx) : wops scopes (a ++ b) = wops scopes a ++ wops scopes b := by
  simp [wops, walletOuts_append]

theorem paidKeys_append (a b : List Tx) : paidKeys (a ++ b) = paidKeys a ++ paidKeys b := by
  simp [paidKeys, List.flatMap_append]

theorem spentIn_append (a b : List Tx) (op : OutPoint) : spentIn (a ++ b) op = (spentIn a op || spentIn b op) := by
  simp [spentIn, List.any_append]

theorem mem_wops_iff (scopes : List Nat) (txs : List Tx) (op : OutPoint) :
    op ∈ wops scopes txs ↔ ∃ t ∈ txs, op ∈ (wouts scopes t.id t.outs 0).map (·.1) := by
  simp only [wops, walletOuts, List.mem_map, List.mem_flatMap]
  constructor
  · rintro ⟨p, ⟨t, ht, hp⟩, rfl⟩; exact ⟨t, ht, p, hp, rfl⟩
  · rintro ⟨t, ht, p, hp, rfl⟩; exact ⟨p, ⟨t, ht, hp⟩, rfl⟩

theorem isW_iff (scopes : List Nat) (o : TxOut) :
    isW scopes o = true ↔ ∃ k, o.key = some k ∧ scopes.contains k.scope = true := by
  unfold isW
  cases o.key with
  | none => simp
  | some k => simp

theorem wouts_eq_nil (scopes : List Nat) (txid : Nat) : ∀ (outs : List TxOut) (i : Nat),
    outs.any (isW scopes) = false → wouts scopes txid outs i = [] := by
  intro outs
  induction outs with
  | nil => intro _ _; rfl
  | cons o rest ih =>
    intro i h
    simp only [List.any_cons, Bool.or_eq_false_iff] at h
    simp only [wouts, h.1]
    exact ih (i + 1) h.2

theorem any_isW_iff (scopes : List Nat) (outs : List TxOut) :
    outs.any (isW scopes) = true ↔ ∃ k ∈ outs.filterMap (·.key), scopes.contains k.scope = true := by
  simp only [List.any_eq_true, List.mem_filterMap]
  constructor
  · rintro ⟨o, ho, hw⟩
    obtain ⟨k, hk, hs⟩ := (isW_iff scopes o).mp hw
    exact ⟨k, ⟨o, ho, hk⟩, hs⟩
  · rintro ⟨k, ⟨o, ho, hk⟩, hs⟩
    exact ⟨o, ho, (isW_iff scopes o).mpr ⟨k, hk, hs⟩⟩

/-- `invBound l ≤ n` when every element is below `n`. -/
theorem invBound_le (l : List Nat) (n : Nat) (h : ∀ i ∈ l, i < n) : invBound l ≤ n := by
  have aux : ∀ (l : List Nat) (m : Nat), m ≤ n → (∀ i ∈ l, i < n) → l.foldl (fun m i => max m (i + 1)) m ≤ n := by
    intro l
    induction l with
    | nil => intro m hm _; simpa using hm
    | cons a l ih =>
      intro m hm hl
      simp only [List.foldl_cons]
      apply ih
      · have := hl a (by simp); omega
      · intro i hi; exact hl i (by simp [hi])
  exact aux l 0 (Nat.zero_le _) h

/-! ### association lists -/

theorem lookup_filter_ne {β : Type} (l : List (BranchId × β)) (k k' : BranchId) (h : k' ≠ k) :
    (l.filter (fun p => !(p.1 == k))).lookup k' = l.lookup k' := by
  induction l with
  | nil => rfl
  | cons p l ih =>
    obtain ⟨a, b⟩ := p
    by_cases hak : a = k
    · subst hak
      have h1 : (k' == a) = false := by simp [h]
      simp [List.lookup_cons, h1, ih]
    · have h2 : (a == k) = false := by simp [hak]
      simp only [List.filter_cons, h2, Bool.not_false, if_true, List.lookup_cons]
      rw [ih]

theorem lookupD_assocSet {β : Type} (l : List (BranchId × β)) (d : β) (k k' : BranchId) (v : β) :
    lookupD (assocSet l k v) d k' = if k' = k then v else lookupD l d k' := by
  unfold lookupD assocSet
  by_cases h : k' = k
  · subst h; simp
  · have h1 : (k' == k) = false := by simp [h]
    simp only [List.lookup_cons, h1, if_neg h]
    rw [lookup_filter_ne l k k' h]

theorem mem_branchIds (scopes : List Nat) (br : BranchId) : br ∈ branchIds scopes ↔ scopes.contains br.1 = true := by
  obtain ⟨s, b⟩ := br
  simp only [branchIds, List.mem_flatMap, List.mem_cons, List.not_mem_nil, or_false, Prod.mk.injEq,
    List.contains_iff_mem]
  constructor
  · rintro ⟨a, ha, h | h⟩ <;> (rw [h.1]; exact ha)
  · intro h
    cases b
    · exact ⟨s, h, Or.inl ⟨rfl, rfl⟩⟩
    · exact ⟨s, h, Or.inr ⟨rfl, rfl⟩⟩

theorem mem_foldl_insert {α : Type} [BEq α] [LawfulBEq α] (l : List α) : ∀ (w : List α) (x : α),
    x ∈ l.foldl (fun w op => w.insert op) w ↔ x ∈ w ∨ x ∈ l := by
  induction l with
  | nil => intro w x; simp
  | cons a l ih =>
    intro w x
    simp only [List.foldl_cons, ih, List.mem_insert_iff, List.mem_cons]
    constructor
    · rintro ((h | h) | h)
      · exact Or.inr (Or.inl h)
      · exact Or.inl h
      · exact Or.inr (Or.inr h)
    · rintro (h | h | h)
      · exact Or.inl (Or.inr h)
      · exact Or.inl (Or.inl h)
      · exact Or.inr h

theorem mem_foldl_insert_map {α β : Type} [BEq β] [LawfulBEq β] (g : α → β) (l : List α) : ∀ (w : List β) (x : β),
    x ∈ l.foldl (fun w a => w.insert (g a)) w ↔ x ∈ w ∨ ∃ a ∈ l, g a = x := by
  induction l with
  | nil => intro w x; simp
  | cons a l ih =>
    intro w x
    simp only [List.foldl_cons, ih, List.mem_insert_iff, List.mem_cons]
    constructor
    · rintro ((h | h) | ⟨a', h1, h2⟩)
      · exact Or.inr ⟨a, Or.inl rfl, h.symm⟩
      · exact Or.inl h
      · exact Or.inr ⟨a', Or.inr h1, h2⟩
    · rintro (h | ⟨a', h1 | h1, h2⟩)
      · exact Or.inl (Or.inr h)
      · subst h1; exact Or.inl (Or.inl h2.symm)
      · exact Or.inr ⟨a', h1, h2⟩

/-! ## PART 4 — the block filter -/

theorem filterOuts_spec (st : State) (scopes : List Nat) (txid : Nat) : ∀ (outs : List TxOut) (i : Nat) (f : Found),
    (∀ o ∈ outs, ∀ k, o.key = some k → watchesKey st k = scopes.contains k.scope) →
    (filterOuts st txid outs i f).1 = outs.any (isW scopes) ∧
    (filterOuts st txid outs i f).2.txs = f.txs ∧
    (∀ k, k ∈ f.keys → k ∈ (filterOuts st txid outs i f).2.keys) ∧
    (∀ k ∈ outs.filterMap (·.key), scopes.contains k.scope = true → k ∈ (filterOuts st txid outs i f).2.keys) ∧
    (∀ op, op ∈ (filterOuts st txid outs i f).2.outpoints ↔
        op ∈ f.outpoints ∨ op ∈ (wouts scopes txid outs i).map (·.1)) := by
  intro outs
  induction outs with
  | nil => intro i f _; simp [filterOuts, wouts]
  | cons o rest ih =>
    intro i f hw
    have hwr : ∀ o' ∈ rest, ∀ k, o'.key = some k → watchesKey st k = scopes.contains k.scope :=
      fun o' ho' => hw o' (List.mem_cons_of_mem _ ho')
    cases hk : o.key with
    | none =>
      have hiw : isW scopes o = false := by simp [isW, hk]
      obtain ⟨r1, r2, r3, r4, r5⟩ := ih (i + 1) f hwr
      simp only [filterOuts, hk, List.any_cons, hiw, Bool.false_or, wouts, List.filterMap_cons]
      exact ⟨r1, r2, r3, r4, r5⟩
    | some k =>
      have hwk := hw o (List.mem_cons_self) k hk
      by_cases hc : scopes.contains k.scope = true
      · have hiw : isW scopes o = true := by simp only [isW, hk]; exact hc
        rw [hc] at hwk
        obtain ⟨_, r2, r3, r4, r5⟩ := ih (i + 1)
          { f with keys := f.keys.insert k, outpoints := f.outpoints.insert (txid, i) } hwr
        simp only [filterOuts, hk, hwk, if_true, List.any_cons, hiw, Bool.true_or, wouts, List.filterMap_cons,
          List.map_cons, List.mem_cons]
        refine ⟨trivial, r2, ?_, ?_, ?_⟩
        · intro k' hk'; exact r3 k' (by simp [hk'])
        · intro k' hk' hs
          rcases hk' with rfl | hk'
          · exact r3 _ (by simp)
          · exact r4 k' hk' hs
        · intro op
          rw [r5 op]
          simp only [List.mem_insert_iff]
          constructor
          · rintro ((h | h) | h)
            · exact Or.inr (Or.inl h)
            · exact Or.inl h
            · exact Or.inr (Or.inr h)
          · rintro (h | h | h)
            · exact Or.inl (Or.inr h)
            · exact Or.inl (Or.inl h)
            · exact Or.inr h
      · have hc' : scopes.contains k.scope = false := eq_false_of_ne_true hc
        have hiw : isW scopes o = false := by simp only [isW, hk]; exact hc'
        rw [hc'] at hwk
        obtain ⟨r1, r2, r3, r4, r5⟩ := ih (i + 1) f hwr
        simp only [filterOuts, hk, hwk, List.any_cons, hiw, Bool.false_or, wouts, List.filterMap_cons]
        refine ⟨r1, r2, r3, ?_, r5⟩
        intro k' hk' hs
        simp only [List.mem_cons] at hk'
        rcases hk' with rfl | hk'
        · rw [hc'] at hs; cases hs
        · exact r4 k' hk' hs

theorem wops_cons (scopes : List Nat) (tx : Tx) (rest : List Tx) :
    wops scopes (tx :: rest) = (wouts scopes tx.id tx.outs 0).map (·.1) ++ wops scopes rest := by
  simp [wops, walletOuts]

theorem paidKeys_cons (tx : Tx) (rest : List Tx) :
    paidKeys (tx :: rest) = tx.outs.filterMap (·.key) ++ paidKeys rest := by
  simp [paidKeys]

/-- `BlockFilterer.FilterBlock` when the watched addresses cover every wallet key the block pays and the watched
    outpoints cover every wallet outpoint the block spends (created before the block): the relevant transactions
    are exactly those that touch the wallet, all paid wallet keys and all created wallet outpoints are reported. -/
theorem filterBlock_spec (st : State) (scopes : List Nat) (ops : List OutPoint)
    (hwa : ∀ op ∈ st.watched, op ∈ ops) : ∀ (blk : Block) (f : Found),
    (∀ tx ∈ blk, ∀ o ∈ tx.outs, ∀ k, o.key = some k → watchesKey st k = scopes.contains k.scope) →
    (∀ op ∈ f.outpoints, op ∈ ops) →
    (∀ op ∈ wops scopes blk, op ∈ ops) →
    (∀ a tx b, blk = a ++ tx :: b → ∀ op ∈ tx.ins, op ∈ ops →
        op ∈ st.watched ∨ op ∈ f.outpoints ∨ op ∈ wops scopes a) →
    (filterBlock st blk f).txs = f.txs ++ blk.filter (touches scopes ops) ∧
    (∀ k ∈ f.keys, k ∈ (filterBlock st blk f).keys) ∧
    (∀ k ∈ paidKeys blk, scopes.contains k.scope = true → k ∈ (filterBlock st blk f).keys) ∧
    (∀ op, op ∈ (filterBlock st blk f).outpoints ↔ op ∈ f.outpoints ∨ op ∈ wops scopes blk) := by
  intro blk
  induction blk with
  | nil => intro f _ _ _ _; simp [filterBlock, wops, walletOuts, paidKeys]
  | cons tx rest ih =>
    intro f h1 h3 h4 h5
    have hs := filterOuts_spec st scopes tx.id tx.outs 0 f (h1 tx List.mem_cons_self)
    rw [filterBlock]
    generalize filterOuts st tx.id tx.outs 0 f = r at hs ⊢
    obtain ⟨pays, f'⟩ := r
    simp only at hs ⊢
    obtain ⟨r1, r2, r3, r4, r5⟩ := hs
    have ht : (tx.ins.any (fun op => st.watched.contains op || f.outpoints.contains op) || pays)
        = touches scopes ops tx := by
      rw [r1, touches, Bool.or_comm]
      cases hp : tx.outs.any (isW scopes)
      · simp only [Bool.false_or]
        rw [Bool.eq_iff_iff]
        simp only [List.any_eq_true, Bool.or_eq_true, List.contains_iff_mem]
        constructor
        · rintro ⟨op, hop, h | h⟩
          · exact ⟨op, hop, hwa op h⟩
          · exact ⟨op, hop, h3 op h⟩
        · rintro ⟨op, hop, h⟩
          rcases h5 [] tx rest rfl op hop h with h' | h' | h'
          · exact ⟨op, hop, Or.inl h'⟩
          · exact ⟨op, hop, Or.inr h'⟩
          · simp [wops, walletOuts] at h'
      · simp
    rw [ht]
    -- the accumulator handed to the rest of the block
    have hrest : ∀ f'' : Found, f''.keys = f'.keys → f''.outpoints = f'.outpoints →
        f''.txs = f.txs ++ [tx].filter (touches scopes ops) →
        (filterBlock st rest f'').txs = f.txs ++ (tx :: rest).filter (touches scopes ops) ∧
        (∀ k ∈ f.keys, k ∈ (filterBlock st rest f'').keys) ∧
        (∀ k ∈ paidKeys (tx :: rest), scopes.contains k.scope = true → k ∈ (filterBlock st rest f'').keys) ∧
        (∀ op, op ∈ (filterBlock st rest f'').outpoints ↔ op ∈ f.outpoints ∨ op ∈ wops scopes (tx :: rest)) := by
      intro f'' hk ho htx
      have h3' : ∀ op ∈ f''.outpoints, op ∈ ops := by
        intro op hop
        rw [ho] at hop
        rcases (r5 op).mp hop with h | h
        · exact h3 op h
        · exact h4 op (by rw [wops_cons]; exact List.mem_append_left _ h)
      have h4' : ∀ op ∈ wops scopes rest, op ∈ ops :=
        fun op hop => h4 op (by rw [wops_cons]; exact List.mem_append_right _ hop)
      have h5' : ∀ a t b, rest = a ++ t :: b → ∀ op ∈ t.ins, op ∈ ops →
          op ∈ st.watched ∨ op ∈ f''.outpoints ∨ op ∈ wops scopes a := by
        intro a t b hab op hop hops
        rcases h5 (tx :: a) t b (by rw [hab]; rfl) op hop hops with h | h | h
        · exact Or.inl h
        · exact Or.inr (Or.inl (by rw [ho]; exact (r5 op).mpr (Or.inl h)))
        · rw [wops_cons] at h
          rcases List.mem_append.mp h with h | h
          · exact Or.inr (Or.inl (by rw [ho]; exact (r5 op).mpr (Or.inr h)))
          · exact Or.inr (Or.inr h)
      obtain ⟨q1, q2, q3, q4⟩ := ih f'' (fun t ht' => h1 t (List.mem_cons_of_mem _ ht')) h3' h4' h5'
      refine ⟨?_, ?_, ?_, ?_⟩
      · rw [q1, htx, List.append_assoc, ← List.filter_append]
        rfl
      · intro k hk'
        exact q2 k (by rw [hk]; exact r3 k hk')
      · intro k hk' hs
        rw [paidKeys_cons] at hk'
        rcases List.mem_append.mp hk' with h | h
        · exact q2 k (by rw [hk]; exact r4 k h hs)
        · exact q3 k h hs
      · intro op
        rw [q4 op, ho, r5 op, wops_cons, List.mem_append, or_assoc]
    cases htt : touches scopes ops tx
    · simp only [Bool.false_eq_true, if_false]
      exact hrest f' rfl rfl (by simp [htt, r2])
    · simp only [if_true]
      exact hrest { f' with txs := f'.txs ++ [tx] } rfl rfl (by simp [htt, r2])

/-! ## PART 5 — horizon expansion over all branches -/

/-- The in-memory branch states of the recovered scopes are well-formed and agree with the address manager. -/
def BrOK (W : Nat) (scopes : List Nat) (invalid : BranchId → List Nat) (st : State) : Prop :=
  ∀ br, scopes.contains br.1 = true →
    BranchOK (invalid br) (st.branch br) ∧ (st.branch br).window = W ∧ (st.branch br).nextUnfound = st.nextOf br

/-- Branch `br` watches every valid child below `nextUnfound + W`. -/
def ExpAt (W : Nat) (invalid : BranchId → List Nat) (st : State) (br : BranchId) : Prop :=
  ∀ i, i < (st.branch br).nextUnfound + W → Valid (invalid br) i → i ∈ (st.branch br).addrs

theorem branch_eq_of (st st' : State) (k : BranchId) (b : Branch) (hw : st'.window = st.window)
    (hb : st'.branches = assocSet st.branches k b) (br : BranchId) :
    st'.branch br = if br = k then b else st.branch br := by
  unfold State.branch
  rw [hb, hw]
  exact lookupD_assocSet _ _ _ _ _

theorem nextOf_eq_of (st st' : State) (k : BranchId) (v : Nat) (hn : st'.next = assocSet st.next k v)
    (br : BranchId) : st'.nextOf br = if br = k then v else st.nextOf br := by
  unfold State.nextOf
  rw [hn]
  exact lookupD_assocSet _ _ _ _ _

theorem branch_upd (st : State) (k : BranchId) (b : Branch) (nx : List (BranchId × Nat)) (us : List Key)
    (br : BranchId) :
    ({ st with branches := assocSet st.branches k b, next := nx, used := us } : State).branch br
      = if br = k then b else st.branch br :=
  branch_eq_of st { st with branches := assocSet st.branches k b, next := nx, used := us } k b rfl rfl br

theorem nextOf_upd (st : State) (k : BranchId) (v : Nat) (brs : List (BranchId × Branch)) (us : List Key)
    (br : BranchId) :
    ({ st with branches := brs, next := assocSet st.next k v, used := us } : State).nextOf br
      = if br = k then v else st.nextOf br :=
  nextOf_eq_of st { st with branches := brs, next := assocSet st.next k v, used := us } k v rfl br

theorem expandFold_spec (W : Nat) (scopes : List Nat) (invalid : BranchId → List Nat) :
    ∀ (ids : List BranchId) (st : State), (∀ k ∈ ids, scopes.contains k.1 = true) → BrOK W scopes invalid st →
    (∃ brs, ids.foldl (fun st k => { st with branches := assocSet st.branches k (expand (invalid k) (st.branch k)) }) st
        = { st with branches := brs }) ∧
    BrOK W scopes invalid
      (ids.foldl (fun st k => { st with branches := assocSet st.branches k (expand (invalid k) (st.branch k)) }) st) ∧
    (∀ br, ExpAt W invalid st br → ExpAt W invalid
      (ids.foldl (fun st k => { st with branches := assocSet st.branches k (expand (invalid k) (st.branch k)) }) st) br) ∧
    (∀ k ∈ ids, ExpAt W invalid
      (ids.foldl (fun st k => { st with branches := assocSet st.branches k (expand (invalid k) (st.branch k)) }) st) k) := by
  intro ids
  induction ids with
  | nil => intro st _ hb; exact ⟨⟨st.branches, rfl⟩, hb, fun _ h => h, fun _ h => by cases h⟩
  | cons k ids ih =>
    intro st hids hb
    simp only [List.foldl_cons]
    have hk := hids k List.mem_cons_self
    obtain ⟨hbk, hwk, hnk⟩ := hb k hk
    obtain ⟨e1, e2, e3, e4, _, e6⟩ := expand_spec (invalid k) (st.branch k) hbk
    have hbh := branch_horizon (invalid k) (st.branch k) hbk
    -- the state after expanding branch k
    have hb1 : BrOK W scopes invalid { st with branches := assocSet st.branches k (expand (invalid k) (st.branch k)) } := by
      intro br hbr
      rw [branch_upd]
      by_cases hbk' : br = k
      · rw [if_pos hbk', hbk']
        exact ⟨e1, by rw [e3]; exact hwk, by rw [e2]; exact hnk⟩
      · rw [if_neg hbk']; exact hb br hbr
    have hx1 : ∀ br, ExpAt W invalid st br →
        ExpAt W invalid { st with branches := assocSet st.branches k (expand (invalid k) (st.branch k)) } br := by
      intro br hx i
      rw [branch_upd]
      by_cases hbk' : br = k
      · rw [if_pos hbk', hbk']
        intro hi hv
        rw [e2] at hi
        rw [hbk'] at hx
        exact e6 i (hx i hi hv)
      · rw [if_neg hbk']; exact hx i
    have hxk : ExpAt W invalid { st with branches := assocSet st.branches k (expand (invalid k) (st.branch k)) } k := by
      intro i
      rw [branch_upd, if_pos rfl]
      intro hi hv
      apply hbh.2.2.2 i _ hv
      show i < (expand (invalid k) (st.branch k)).nextUnfound + (expand (invalid k) (st.branch k)).window
      rw [e3, hwk]; exact hi
    obtain ⟨⟨brs, q1⟩, q2, q3, q4⟩ := ih _ (fun k' hk' => hids k' (List.mem_cons_of_mem _ hk')) hb1
    refine ⟨⟨brs, by rw [q1]⟩, q2, fun br hx => q3 br (hx1 br hx), ?_⟩
    intro k' hk'
    rcases List.mem_cons.mp hk' with rfl | hk'
    · exact q3 _ hxk
    · exact q4 k' hk'

/-- `expandHorizons:` keeps the branch invariant, changes nothing but the in-memory branch states, and makes every
    branch of every recovered scope watch its window. -/
theorem expandAll_spec (W : Nat) (scopes : List Nat) (invalid : BranchId → List Nat) (st : State)
    (hsc : st.scopes = scopes) (hb : BrOK W scopes invalid st) :
    (∃ brs, expandAll invalid st = { st with branches := brs }) ∧ BrOK W scopes invalid (expandAll invalid st) ∧
    (∀ br, scopes.contains br.1 = true → ExpAt W invalid (expandAll invalid st) br) := by
  obtain ⟨q1, q2, _, q4⟩ := expandFold_spec W scopes invalid (branchIds st.scopes) st
    (fun k hk => by rw [hsc] at hk; exact (mem_branchIds scopes k).mp hk) hb
  exact ⟨q1, q2, fun br hbr => q4 br (by rw [hsc]; exact (mem_branchIds scopes br).mpr hbr)⟩

/-! ## PART 6 — `extendFoundAddresses` -/

theorem reportFold_spec (inv : List Nat) : ∀ (idxs : List Nat) (b : Branch), BranchOK inv b →
    BranchOK inv (idxs.foldl (fun b i => b.reportFound i) b) ∧
    (idxs.foldl (fun b i => b.reportFound i) b).window = b.window ∧
    b.nextUnfound ≤ (idxs.foldl (fun b i => b.reportFound i) b).nextUnfound ∧
    (∀ i ∈ idxs, i < (idxs.foldl (fun b i => b.reportFound i) b).nextUnfound) := by
  intro idxs
  induction idxs with
  | nil => intro b hb; exact ⟨hb, rfl, Nat.le_refl _, fun _ h => by cases h⟩
  | cons a idxs ih =>
    intro b hb
    simp only [List.foldl_cons]
    obtain ⟨q1, q2, q3, q4⟩ := ih (b.reportFound a) (branchOK_reportFound hb a)
    have hw : (b.reportFound a).window = b.window := by unfold Branch.reportFound; split <;> rfl
    have hn : b.nextUnfound ≤ (b.reportFound a).nextUnfound ∧ a < (b.reportFound a).nextUnfound := by
      unfold Branch.reportFound; split <;> (try dsimp only) <;> omega
    refine ⟨q1, by rw [q2, hw], by omega, ?_⟩
    intro i hi
    rcases List.mem_cons.mp hi with rfl | hi
    · omega
    · exact q4 i hi

theorem extendFound_spec (W : Nat) (scopes : List Nat) (invalid : BranchId → List Nat) (st : State) (k : BranchId)
    (idxs : List Nat) (hk : scopes.contains k.1 = true) (hb : BrOK W scopes invalid st) :
    (∃ brs nx us, extendFound st k idxs = { st with branches := brs, next := nx, used := us }) ∧
    BrOK W scopes invalid (extendFound st k idxs) ∧
    (∀ br, st.nextOf br ≤ (extendFound st k idxs).nextOf br) ∧
    (∀ x ∈ st.used, x ∈ (extendFound st k idxs).used) ∧
    (∀ i ∈ idxs, i < (extendFound st k idxs).nextOf k ∧ (⟨k.1, k.2, i⟩ : Key) ∈ (extendFound st k idxs).used) := by
  unfold extendFound
  by_cases he : idxs.isEmpty = true
  · simp only [he, if_true]
    refine ⟨⟨st.branches, st.next, st.used, rfl⟩, hb, fun _ => Nat.le_refl _, fun _ h => h, ?_⟩
    intro i hi
    rw [List.isEmpty_iff] at he
    rw [he] at hi; cases hi
  · simp only [he]
    obtain ⟨hbk, hwk, hnk⟩ := hb k hk
    obtain ⟨q1, q2, q3, q4⟩ := reportFold_spec (invalid k) idxs (st.branch k) hbk
    generalize hb' : idxs.foldl (fun b i => b.reportFound i) (st.branch k) = b' at q1 q2 q3 q4
    have hne : ∃ i, i ∈ idxs := by
      cases idxs with
      | nil => simp at he
      | cons a _ => exact ⟨a, List.mem_cons_self⟩
    obtain ⟨i0, hi0⟩ := hne
    have h0 := q4 i0 hi0
    have hmax : max (st.nextOf k) (b'.nextUnfound - 1 + 1) = b'.nextUnfound := by omega
    simp only [Bool.false_eq_true, if_false, hmax]
    refine ⟨⟨_, _, _, rfl⟩, ?_, ?_, ?_, ?_⟩
    · intro br hbr
      rw [nextOf_upd, branch_upd]
      by_cases hbk' : br = k
      · rw [if_pos hbk', if_pos hbk', hbk']
        exact ⟨q1, by rw [q2]; exact hwk, rfl⟩
      · rw [if_neg hbk', if_neg hbk']
        exact hb br hbr
    · intro br
      rw [nextOf_upd]
      by_cases hbk' : br = k
      · rw [if_pos hbk', hbk']; omega
      · rw [if_neg hbk']; exact Nat.le_refl _
    · intro x hx
      exact (mem_foldl_insert_map (fun i => (⟨k.1, k.2, i⟩ : Key)) idxs st.used x).mpr (Or.inl hx)
    · intro i hi
      rw [nextOf_upd, if_pos rfl]
      exact ⟨q4 i hi, (mem_foldl_insert_map (fun i => (⟨k.1, k.2, i⟩ : Key)) idxs st.used _).mpr (Or.inr ⟨i, hi, rfl⟩)⟩

/-- One step of the `extendFoundAddresses` loop over the branches. -/
def efStep (keys : List Key) (st : State) (k : BranchId) : State :=
  extendFound st k ((keys.filter (fun key => key.scope == k.1 && key.internal == k.2)).map (·.index))

theorem extendFold_spec (W : Nat) (scopes : List Nat) (invalid : BranchId → List Nat) (keys : List Key) :
    ∀ (ids : List BranchId) (st : State), (∀ k ∈ ids, scopes.contains k.1 = true) → BrOK W scopes invalid st →
    (∃ brs nx us, ids.foldl (efStep keys) st = { st with branches := brs, next := nx, used := us }) ∧
    BrOK W scopes invalid (ids.foldl (efStep keys) st) ∧
    (∀ br, st.nextOf br ≤ (ids.foldl (efStep keys) st).nextOf br) ∧
    (∀ x ∈ st.used, x ∈ (ids.foldl (efStep keys) st).used) ∧
    (∀ key ∈ keys, (key.scope, key.internal) ∈ ids →
      key.index < (ids.foldl (efStep keys) st).nextOf (key.scope, key.internal) ∧
      key ∈ (ids.foldl (efStep keys) st).used) := by
  intro ids
  induction ids with
  | nil =>
    intro st _ hb
    exact ⟨⟨st.branches, st.next, st.used, rfl⟩, hb, fun _ => Nat.le_refl _, fun _ h => h, fun _ _ h => by cases h⟩
  | cons k ids ih =>
    intro st hids hb
    simp only [List.foldl_cons]
    obtain ⟨⟨brs1, nx1, us1, e1⟩, p2, p3, p4, p5⟩ := extendFound_spec W scopes invalid st k
      ((keys.filter (fun key => key.scope == k.1 && key.internal == k.2)).map (·.index))
      (hids k List.mem_cons_self) hb
    obtain ⟨⟨brs, nx, us, e⟩, q2, q3, q4, q5⟩ := ih (efStep keys st k)
      (fun k' hk' => hids k' (List.mem_cons_of_mem _ hk')) p2
    refine ⟨⟨brs, nx, us, ?_⟩, q2, fun br => Nat.le_trans (p3 br) (q3 br), fun x hx => q4 x (p4 x hx), ?_⟩
    · rw [e]; unfold efStep; rw [e1]
    · intro key hkey hmem
      rcases List.mem_cons.mp hmem with hk | hk
      · have hidx : key.index ∈ (keys.filter (fun key => key.scope == k.1 && key.internal == k.2)).map (·.index) := by
          apply List.mem_map.mpr
          refine ⟨key, List.mem_filter.mpr ⟨hkey, ?_⟩, rfl⟩
          rw [← hk]; simp
        obtain ⟨h1, h2⟩ := p5 key.index hidx
        subst hk
        exact ⟨Nat.lt_of_lt_of_le h1 (q3 _), q4 _ h2⟩
      · exact q5 key hkey hk

/-! ## PART 7 — `addRelevantTx` -/

theorem arOuts_spec (st : State) (scopes : List Nat) (hsc : st.scopes = scopes) (tx : Tx) :
    ∀ (os : List TxOut) (i : Nat) (cs : List Credit) (used : List Key),
    (∀ o ∈ os, ∀ k, o.key = some k → scopes.contains k.scope = true → k.index < st.nextOf (k.scope, k.internal)) →
    (addRelevantTx.outs st tx os i cs used).1 = cs ++ (wouts scopes tx.id os i).map (fun p => (⟨p.1, p.2, false⟩ : Credit)) ∧
    (∀ x ∈ used, x ∈ (addRelevantTx.outs st tx os i cs used).2) := by
  intro os
  induction os with
  | nil => intro i cs used _; simp [addRelevantTx.outs, wouts]
  | cons o rest ih =>
    intro i cs used hk
    have hkr : ∀ o' ∈ rest, ∀ k, o'.key = some k → scopes.contains k.scope = true →
        k.index < st.nextOf (k.scope, k.internal) := fun o' ho' => hk o' (List.mem_cons_of_mem _ ho')
    cases hkey : o.key with
    | none =>
      have hiw : isW scopes o = false := by simp only [isW, hkey]
      simp only [addRelevantTx.outs, hkey, wouts, hiw]
      exact ih (i + 1) cs used hkr
    | some k =>
      by_cases hc : scopes.contains k.scope = true
      · have hiw : isW scopes o = true := by simp only [isW, hkey]; exact hc
        have hlt := hk o List.mem_cons_self k hkey hc
        simp only [addRelevantTx.outs, hkey, hsc, hc, hlt, decide_true, Bool.and_self, if_true, wouts, hiw]
        obtain ⟨r1, r2⟩ := ih (i + 1) (cs ++ [⟨(tx.id, i), o.amount, false⟩]) (used.insert k) hkr
        refine ⟨?_, fun x hx => r2 x (by simp [hx])⟩
        rw [r1]; simp
      · have hc' : scopes.contains k.scope = false := eq_false_of_ne_true hc
        have hiw : isW scopes o = false := by simp only [isW, hkey]; exact hc'
        simp only [addRelevantTx.outs, hkey, hsc, hc', Bool.false_and, Bool.false_eq_true, if_false, wouts, hiw]
        exact ih (i + 1) cs used hkr

theorem spentIn_single (tx : Tx) (op : OutPoint) : spentIn [tx] op = tx.ins.contains op := by
  simp [spentIn]

/-- `addRelevantTx` for a transaction not yet recorded, when the credits are exactly those of the transactions
    `pre` processed so far and every wallet key the transaction pays is known to the address manager. -/
theorem addRelevantTx_spec (st : State) (scopes : List Nat) (hsc : st.scopes = scopes) (pre : List Tx) (tx : Tx)
    (h : Nat) (hfresh : ∀ p ∈ st.txs, p.1 ≠ tx.id) (hcr : st.credits = specCredits scopes pre)
    (hknown : ∀ o ∈ tx.outs, ∀ k, o.key = some k → scopes.contains k.scope = true →
      k.index < st.nextOf (k.scope, k.internal))
    (hnew : ∀ p ∈ wouts scopes tx.id tx.outs 0, spentIn (pre ++ [tx]) p.1 = false) :
    ∃ us um ls, addRelevantTx st tx h =
        { st with txs := st.txs ++ [(tx.id, h)], credits := specCredits scopes (pre ++ [tx]), used := us,
                  unmined := um, leased := ls } ∧
      ∀ x ∈ st.used, x ∈ us := by
  have hany : (st.txs.any fun p => p.1 == tx.id) = false := by
    rw [List.any_eq_false]
    intro p hp; simpa using hfresh p hp
  unfold addRelevantTx
  simp only [hany, Bool.false_eq_true, if_false]
  obtain ⟨r1, r2⟩ := arOuts_spec st scopes hsc tx tx.outs 0
    (st.credits.map (fun c => if tx.ins.contains c.op then { c with spent := true } else c)) st.used hknown
  generalize addRelevantTx.outs st tx tx.outs 0
    (st.credits.map (fun c => if tx.ins.contains c.op then { c with spent := true } else c)) st.used = r at r1 r2
  obtain ⟨cs, us⟩ := r
  simp only at r1 r2 ⊢
  refine ⟨us, st.unmined.filter (fun t => !(t.id == tx.id) && !(t.ins.any (fun op => tx.ins.contains op))),
    st.leased.filter (fun op => !tx.ins.contains op), ?_, r2⟩
  have hcs : cs = specCredits scopes (pre ++ [tx]) := by
    rw [r1, hcr]
    simp only [specCredits, walletOuts_append, List.map_append, List.map_map]
    congr 1
    · apply List.map_congr_left
      intro p _
      simp only [Function.comp, spentIn_append, spentIn_single]
      cases tx.ins.contains p.1 <;> simp
    · have hw : walletOuts scopes [tx] = wouts scopes tx.id tx.outs 0 := by simp [walletOuts]
      rw [hw]
      apply List.map_congr_left
      intro p hp
      rw [hnew p hp]
  rw [hcs]

/-- A transaction that does not touch the wallet leaves the expected credits unchanged. -/
theorem specCredits_untouched (scopes : List Nat) (ops : List OutPoint) (pre : List Tx) (tx : Tx)
    (hsub : ∀ op ∈ wops scopes pre, op ∈ ops) (ht : touches scopes ops tx = false) :
    specCredits scopes (pre ++ [tx]) = specCredits scopes pre := by
  simp only [touches, Bool.or_eq_false_iff] at ht
  have hw : walletOuts scopes [tx] = [] := by
    simp only [walletOuts, List.flatMap_cons, List.flatMap_nil, List.append_nil]
    exact wouts_eq_nil scopes tx.id tx.outs 0 ht.1
  simp only [specCredits, walletOuts_append, hw, List.append_nil]
  apply List.map_congr_left
  intro p hp
  have hpo : p.1 ∈ ops := hsub p.1 (List.mem_map.mpr ⟨p, hp, rfl⟩)
  have hc : tx.ins.contains p.1 = false := by
    have h2 := ht.2
    rw [List.any_eq_false] at h2
    cases hcc : tx.ins.contains p.1
    · rfl
    · exfalso
      exact h2 p.1 (by simpa using hcc) (by simpa using hpo)
  rw [spentIn_append, spentIn_single, hc, Bool.or_false]

/-- A wallet output is not spent by its own or an earlier transaction. -/
theorem order_at {scopes : List Nat} {invalid : BranchId → List Nat} {c : Chain} (hwf : ChainWF scopes invalid c)
    {pre : List Tx} {tx : Tx} {post : List Tx} (e : allTxs c = pre ++ tx :: post) :
    ∀ p ∈ wouts scopes tx.id tx.outs 0, spentIn (pre ++ [tx]) p.1 = false := by
  intro p hp
  unfold spentIn
  rw [List.any_eq_false]
  intro t ht hc
  have hop : p.1 ∈ t.ins := by simpa using hc
  have hpm : p.1 ∈ (wouts scopes tx.id tx.outs 0).map (·.1) := List.mem_map.mpr ⟨p, hp, rfl⟩
  rcases List.mem_append.mp ht with ht | ht
  · obtain ⟨a, b, hab⟩ := List.append_of_mem ht
    have e' : allTxs c = a ++ t :: (b ++ tx :: post) := by rw [e, hab]; simp
    exact hwf.order a t _ e' p.1 hop tx (by simp) hpm
  · simp only [List.mem_singleton] at ht
    subst ht
    exact hwf.order pre t post e p.1 hop t (by simp) hpm

/-- The `for _, txn := range filterResp.RelevantTxns { addRelevantTx }` loop over the transactions of a block that
    touch the wallet: credits become exactly those expected after the block; every such transaction is recorded. -/
theorem relevantFold_spec {scopes : List Nat} {invalid : BranchId → List Nat} {c : Chain}
    (hwf : ChainWF scopes invalid c) (h : Nat) :
    ∀ (blk : Block) (pre post : List Tx) (st : State), allTxs c = pre ++ blk ++ post → st.scopes = scopes →
    st.credits = specCredits scopes pre →
    (∀ p ∈ st.txs, ∃ t ∈ pre, t.id = p.1) →
    (∀ k ∈ paidKeys blk, scopes.contains k.scope = true → k.index < st.nextOf (k.scope, k.internal)) →
    (∃ ts us um ls, (blk.filter (touches scopes (wops scopes (allTxs c)))).foldl (fun st tx => addRelevantTx st tx h) st
        = { st with txs := ts, credits := specCredits scopes (pre ++ blk), used := us, unmined := um, leased := ls }) ∧
    (∀ x ∈ st.used, x ∈
      ((blk.filter (touches scopes (wops scopes (allTxs c)))).foldl (fun st tx => addRelevantTx st tx h) st).used) ∧
    (∀ p ∈ st.txs, p ∈
      ((blk.filter (touches scopes (wops scopes (allTxs c)))).foldl (fun st tx => addRelevantTx st tx h) st).txs) ∧
    (∀ p ∈ ((blk.filter (touches scopes (wops scopes (allTxs c)))).foldl (fun st tx => addRelevantTx st tx h) st).txs,
      ∃ t ∈ pre ++ blk, t.id = p.1) ∧
    (∀ tx ∈ blk, touches scopes (wops scopes (allTxs c)) tx = true → (tx.id, h) ∈
      ((blk.filter (touches scopes (wops scopes (allTxs c)))).foldl (fun st tx => addRelevantTx st tx h) st).txs) := by
  intro blk
  induction blk with
  | nil =>
    intro pre post st _ _ hcr hids _
    simp only [List.filter_nil, List.foldl_nil, List.append_nil]
    exact ⟨⟨st.txs, st.used, st.unmined, st.leased, by rw [← hcr]⟩, fun _ h => h, fun _ h => h, hids, fun _ h => by cases h⟩
  | cons tx rest ih =>
    intro pre post st e hsc hcr hids hknown
    have e' : allTxs c = (pre ++ [tx]) ++ rest ++ post := by rw [e]; simp
    have e'' : allTxs c = pre ++ tx :: (rest ++ post) := by rw [e]; simp
    have hknown' : ∀ k ∈ paidKeys rest, scopes.contains k.scope = true → k.index < st.nextOf (k.scope, k.internal) :=
      fun k hk => hknown k (by rw [paidKeys_cons]; exact List.mem_append_right _ hk)
    have hsubpre : ∀ op ∈ wops scopes pre, op ∈ wops scopes (allTxs c) := by
      intro op hop; rw [e'', wops_append]; exact List.mem_append_left _ hop
    cases htt : touches scopes (wops scopes (allTxs c)) tx
    · -- not relevant: skipped by the filter
      have hf : (tx :: rest).filter (touches scopes (wops scopes (allTxs c)))
          = rest.filter (touches scopes (wops scopes (allTxs c))) := by simp [htt]
      rw [hf]
      have hcr' : st.credits = specCredits scopes (pre ++ [tx]) := by
        rw [specCredits_untouched scopes _ pre tx hsubpre htt]; exact hcr
      obtain ⟨⟨ts, us, um, ls, q1⟩, q2, q3, q4, q5⟩ := ih (pre ++ [tx]) post st e' hsc hcr'
        (fun p hp => by obtain ⟨t, ht, hid⟩ := hids p hp; exact ⟨t, List.mem_append_left _ ht, hid⟩) hknown'
      refine ⟨⟨ts, us, um, ls, by rw [q1]; simp⟩, q2, q3, ?_, ?_⟩
      · intro p hp; obtain ⟨t, ht, hid⟩ := q4 p hp; exact ⟨t, by simpa using ht, hid⟩
      · intro t ht htch
        rcases List.mem_cons.mp ht with rfl | ht
        · rw [htt] at htch; cases htch
        · exact q5 t ht htch
    · have hf : (tx :: rest).filter (touches scopes (wops scopes (allTxs c)))
          = tx :: rest.filter (touches scopes (wops scopes (allTxs c))) := by simp [htt]
      rw [hf, List.foldl_cons]
      have hfresh : ∀ p ∈ st.txs, p.1 ≠ tx.id := by
        intro p hp
        obtain ⟨t, ht, hid⟩ := hids p hp
        rw [← hid]; exact hwf.ids pre tx _ e'' t ht
      have hkn : ∀ o ∈ tx.outs, ∀ k, o.key = some k → scopes.contains k.scope = true →
          k.index < st.nextOf (k.scope, k.internal) := by
        intro o ho k hk hs
        apply hknown k _ hs
        rw [paidKeys_cons]
        exact List.mem_append_left _ (List.mem_filterMap.mpr ⟨o, ho, hk⟩)
      obtain ⟨us1, um1, ls1, e1, hu1⟩ := addRelevantTx_spec st scopes hsc pre tx h hfresh hcr hkn (order_at hwf e'')
      rw [e1]
      obtain ⟨⟨ts, us, um, ls, q1⟩, q2, q3, q4, q5⟩ := ih (pre ++ [tx]) post
        { st with txs := st.txs ++ [(tx.id, h)], credits := specCredits scopes (pre ++ [tx]), used := us1,
                  unmined := um1, leased := ls1 }
        e' hsc rfl
        (by
          intro p hp
          rcases List.mem_append.mp hp with hp | hp
          · obtain ⟨t, ht, hid⟩ := hids p hp; exact ⟨t, List.mem_append_left _ ht, hid⟩
          · simp only [List.mem_singleton] at hp
            exact ⟨tx, by simp, by rw [hp]⟩)
        hknown'
      refine ⟨⟨ts, us, um, ls, by rw [q1]; simp⟩, fun x hx => q2 x (hu1 x hx),
        fun p hp => q3 p (List.mem_append_left _ hp), ?_, ?_⟩
      · intro p hp; obtain ⟨t, ht, hid⟩ := q4 p hp; exact ⟨t, by simpa using ht, hid⟩
      · intro t ht htch
        rcases List.mem_cons.mp ht with rfl | ht
        · exact q3 _ (by simp)
        · exact q5 t ht htch

end Recovery
