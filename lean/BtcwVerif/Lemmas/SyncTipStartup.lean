/-
C15, start-up path: the rollback loop of `syncWithChain` finds the last block the wallet's chain and the backend's
chain have in common, and the surrounding database transaction moves the wallet (synced-to stamp, remembered hashes,
transaction records) back to it — or fails without writing anything.
-/
import BtcwVerif.Lemmas.SyncTipEvolve
namespace SyncTip

/-- What is known about a wallet that was stopped while in sync with the chain `old` (`chainSynced` plays no role). -/
structure StoppedInv (cfg : Cfg) (w : Wallet) (old : BlockId) (lo : Nat) : Prop where
  bday       : w.birthdaySet = true
  tipEq      : w.syncedTo = stampOf cfg.C old
  lo_le      : lo ≤ old.length
  window     : old.length < lo + cfg.W ∨ (lo = 0 ∧ old.length ≤ cfg.W)
  remembered : ∀ h, lo ≤ h → h ≤ old.length → w.hashes h = some (some (ancestorAt old h))
  correct    : ∀ h x, h ≤ old.length → w.hashes h = some x → x = some (ancestorAt old h)
  mined      : MinedOn w old

theorem Inv.stopped {cfg w old lo} (h : Inv cfg w old lo) : StoppedInv cfg w old lo :=
  ⟨h.bday, h.tipEq, h.lo_le, h.window, h.remembered, h.correct, h.mined⟩

theorem getBlockHash_some (tip : BlockId) (h : Nat) (ch : BlockId) (e : getBlockHash tip h = some ch) :
    h ≤ tip.length ∧ ch = ancestorAt tip h := by
  unfold getBlockHash at e
  split at e
  · exact ⟨by assumption, (Option.some.inj e).symm⟩
  · cases e

/-- All heights in `(h, old.length]` that both chains have differ. -/
def DifferAbove (old tip : BlockId) (h : Nat) : Prop :=
  ∀ k, h < k → k ≤ old.length → k ≤ tip.length → ancestorAt old k ≠ ancestorAt tip k

/-- The loop, started at height `h` with everything above `h` known to differ, stops at the last common block. -/
theorem rollbackLoop_ok (C : Content) (w : Wallet) (old tip : BlockId)
    (hc : ∀ h x, h ≤ old.length → w.hashes h = some x → x = some (ancestorAt old h)) :
    ∀ (h : Nat) (rb : Bool) (stamp : Stamp) (rb' : Bool), h ≤ old.length → DifferAbove old tip h →
      rollbackLoop C w tip h rb = .ok (stamp, rb') →
      ∃ c, c ≤ h ∧ c ≤ tip.length ∧ stamp = stampOf C (ancestorAt tip c) ∧ ancestorAt old c = ancestorAt tip c ∧
        DifferAbove old tip c ∧ w.hashes c = some (some (ancestorAt old c)) ∧ rb' = (rb || decide (c < h)) := by
  intro h
  induction h with
  | zero =>
    intro rb stamp rb' hle hd e
    simp only [rollbackLoop] at e
    split at e
    · cases e
    · rename_i hash hh
      split at e
      · cases e
      · rename_i ch hch
        obtain ⟨h1, h2⟩ := getBlockHash_some _ _ _ hch
        split at e
        · rename_i heq
          have hx := hc 0 hash hle hh
          injection e with e
          injection e with e1 e2
          refine ⟨0, Nat.le_refl _, h1, ?_, ?_, hd, ?_, ?_⟩
          · rw [← e1, h2]; simp [stampOf, ancestorAt_length tip 0 h1]
          · rw [hx, h2] at heq; exact Option.some.inj heq
          · rw [hh, hx]
          · rw [← e2]; simp
        · cases e
  | succ n ih =>
    intro rb stamp rb' hle hd e
    simp only [rollbackLoop] at e
    split at e
    · cases e
    · rename_i hash hh
      split at e
      · cases e
      · rename_i ch hch
        obtain ⟨h1, h2⟩ := getBlockHash_some _ _ _ hch
        have hx := hc (n + 1) hash hle hh
        split at e
        · rename_i heq
          injection e with e
          injection e with e1 e2
          refine ⟨n + 1, Nat.le_refl _, h1, ?_, ?_, hd, ?_, ?_⟩
          · rw [← e1, h2]; simp [stampOf, ancestorAt_length tip (n + 1) h1]
          · rw [hx, h2] at heq; exact Option.some.inj heq
          · rw [hh, hx]
          · rw [← e2]; simp
        · rename_i hne
          have hd' : DifferAbove old tip n := by
            intro k hk hk1 hk2
            by_cases hkn : k = n + 1
            · subst hkn
              intro heq
              apply hne
              rw [hx, h2, heq]
            · exact hd k (by omega) hk1 hk2
          obtain ⟨c, c1, c2, c3, c4, c5, c6, c7⟩ := ih true stamp rb' (by omega) hd' e
          refine ⟨c, by omega, c2, c3, c4, c5, c6, ?_⟩
          rw [c7]
          have : decide (c < n + 1) = true := by simp; omega
          simp [this]

/-- The loop's first backend query is for the wallet's own tip height: it only succeeds when the backend is that high. -/
theorem rollbackLoop_ok_len (C : Content) (w : Wallet) (tip : BlockId) (h : Nat) (rb : Bool) (res : Stamp × Bool)
    (e : rollbackLoop C w tip h rb = .ok res) : h ≤ tip.length := by
  cases h with
  | zero => exact Nat.zero_le _
  | succ n =>
    simp only [rollbackLoop] at e
    split at e
    · cases e
    · split at e
      · cases e
      · rename_i ch hch
        exact (getBlockHash_some _ _ _ hch).1

theorem differAbove_top (old tip : BlockId) : DifferAbove old tip old.length := by
  intro k hk hk1 _; omega

theorem rollbackMined_all (mined : List Mined) (n : Nat) (h : ∀ r ∈ mined, r.height < n) : rollbackMined mined n = mined := by
  unfold rollbackMined
  apply List.filter_eq_self.mpr
  intro r hr
  simpa using h r hr

/-- **Start-up rolls back to the last common block** (total outcome).  Either the database transaction fails and
    nothing is written, or the wallet ends at the last block `c` its chain shares with the backend's: synced-to stamp,
    records of blocks above `c` rolled back, every remembered hash at or below `c` is the best chain's, the
    remembered range `[lo, c]` intact, every mined record on the best chain. -/
theorem startup_rolls_to_common_ex (cfg : Cfg) {w : Wallet} {old : BlockId} {lo : Nat}
    (hS : StoppedInv cfg w old lo) (tip : BlockId) :
    (∃ e, startupRollback cfg w tip = .error e) ∨
    (∃ w' c, startupRollback cfg w tip = .ok w' ∧ IsLastCommon old tip c ∧
        w'.syncedTo = stampOf cfg.C (ancestorAt tip c) ∧
        w'.mined = rollbackMined w.mined (c + 1) ∧
        w'.unmined = (if c < old.length then rollbackUnmined w.mined w.unmined (c + 1) else w.unmined) ∧
        (∀ h x, h ≤ c → w'.hashes h = some x → x = some (ancestorAt tip h)) ∧
        (∀ h, lo ≤ h → h ≤ c → w'.hashes h = some (some (ancestorAt tip h))) ∧
        MinedOn w' tip ∧
        w'.hashes c = some (some (ancestorAt tip c)) ∧ w'.birthdaySet = w.birthdaySet ∧
        w'.chainSynced = w.chainSynced ∧ old.length ≤ tip.length) := by
  have hT : w.syncedTo.height = old.length := by rw [hS.tipEq]; rfl
  unfold startupRollback
  rw [hT]
  cases hloop : rollbackLoop cfg.C w tip old.length false with
  | error e => exact Or.inl ⟨e, rfl⟩
  | ok res =>
    obtain ⟨stamp, rb⟩ := res
    obtain ⟨c, c1, c2, c3, c4, c5, c6, c7⟩ :=
      rollbackLoop_ok cfg.C w old tip hS.correct old.length false stamp rb (Nat.le_refl _) (differAbove_top old tip) hloop
    have hcommon : IsLastCommon old tip c := ⟨c1, c2, c4, c5⟩
    have hlenT : old.length ≤ tip.length := rollbackLoop_ok_len cfg.C w tip old.length false _ hloop
    have hbelow : ∀ h, h ≤ c → ancestorAt old h = ancestorAt tip h :=
      fun h hh => same_hash_same_below old tip c h hh c1 c2 c4
    have hlenc : (ancestorAt tip c).length = c := ancestorAt_length tip c c2
    have hminedTip : ∀ r ∈ rollbackMined w.mined (c + 1), r.height ≤ tip.length ∧ r.hash = some (ancestorAt tip r.height) := by
      intro r hr
      unfold rollbackMined at hr
      obtain ⟨hr1, hr2⟩ := List.mem_filter.mp hr
      have hlt : r.height < c + 1 := by simpa using hr2
      obtain ⟨m1, m2⟩ := hS.mined r hr1
      exact ⟨by omega, by rw [m2, hbelow r.height (by omega)]⟩
    simp only []
    by_cases hrb : rb = false
    · -- no rollback: c = old.length
      have hc : ¬ c < old.length := by
        intro hlt
        rw [hrb] at c7
        simp [hlt] at c7
      have hce : c = old.length := by omega
      rw [if_pos hrb]
      refine Or.inr ⟨w, c, rfl, hcommon, ?_, ?_, ?_, ?_, ?_, ?_, ?_, rfl, rfl, hlenT⟩
      · rw [hS.tipEq, ← c4, hce, ancestorAt_self]
      · rw [rollbackMined_all]
        intro r hr
        have := (hS.mined r hr).1
        omega
      · rw [if_neg hc]
      · intro h x hh hx
        rw [hS.correct h x (by omega) hx, hbelow h hh]
      · intro h h1 h2
        rw [hS.remembered h h1 (by omega), hbelow h h2]
      · intro r hr
        have hr' : r ∈ rollbackMined w.mined (c + 1) := by
          rw [rollbackMined_all]; exact hr
          intro r hr; have := (hS.mined r hr).1; omega
        exact hminedTip r hr'
      · have hll := hS.lo_le
        rw [hS.remembered c (by omega) (by omega), hbelow c (Nat.le_refl _)]
    · have hrbt : rb = true := by
        cases hb : rb with
        | true => rfl
        | false => exact absurd hb hrb
      have hclt : c < old.length := by
        rw [hrbt] at c7
        simpa using c7.symm
      rw [if_neg hrb]
      rcases putSyncedTo_cases cfg.W w stamp with e | ⟨err, e⟩
      · rw [e]
        simp only []
        have hsh : stamp.height = c := by rw [c3]; simp [stampOf, hlenc]
        have hshash : stamp.hash = some (ancestorAt tip c) := by rw [c3]; rfl
        rw [hsh]
        generalize hw2 : (if c ≤ (putOk cfg.W w stamp).birthday.1 ∧ stamp.hash ≠ (putOk cfg.W w stamp).birthday.2
            then { putOk cfg.W w stamp with birthday := (c, stamp.hash) } else putOk cfg.W w stamp) = w2
        have f1 : w2.syncedTo = stamp := by rw [← hw2]; split <;> rfl
        have f2 : w2.hashes = (putOk cfg.W w stamp).hashes := by rw [← hw2]; split <;> rfl
        have f3 : w2.mined = w.mined := by rw [← hw2]; split <;> rfl
        have f4 : w2.unmined = w.unmined := by rw [← hw2]; split <;> rfl
        have f5 : w2.birthdaySet = w.birthdaySet := by rw [← hw2]; split <;> rfl
        have f6 : w2.chainSynced = w.chainSynced := by rw [← hw2]; split <;> rfl
        refine Or.inr ⟨_, c, rfl, hcommon, ?_, ?_, ?_, ?_, ?_, ?_, ?_, f5, f6, hlenT⟩
        · show w2.syncedTo = _
          rw [f1, c3]
        · show rollbackMined w2.mined (c + 1) = _
          rw [f3]
        · show rollbackUnmined w2.mined w2.unmined (c + 1) = _
          rw [if_pos hclt, f3, f4]
        · intro h x hh hx
          have hx' : (putOk cfg.W w stamp).hashes h = some x := by rw [← f2]; exact hx
          rw [putOk_hashes] at hx'
          split at hx'
          · cases hx'
          · split at hx'
            · rename_i heq
              rw [← Option.some.inj hx', hshash, heq, hsh]
            · rw [hS.correct h x (by omega) hx', hbelow h hh]
        · intro h h1 h2
          show w2.hashes h = _
          rw [f2, putOk_hashes, hsh]
          have hnp : ¬ (c > cfg.W ∧ h = c - cfg.W) := by
            rintro ⟨g1, g2⟩
            rcases hS.window with hw | ⟨hw1, hw2⟩ <;> omega
          rw [if_neg hnp]
          split
          · rename_i heq; rw [hshash, heq]
          · rw [hS.remembered h h1 (by omega), hbelow h h2]
        · intro r hr
          have hr' : r ∈ rollbackMined w.mined (c + 1) := by
            have : r ∈ rollbackMined w2.mined (c + 1) := hr
            rw [f3] at this; exact this
          exact hminedTip r hr'
        · show w2.hashes c = _
          rw [f2, putOk_hashes, hsh]
          have hnp : ¬ (c > cfg.W ∧ c = c - cfg.W) := by
            rintro ⟨g1, g2⟩
            have hll := hS.lo_le
            rcases hS.window with hw | ⟨hw1, hw2⟩ <;> omega
          rw [if_neg hnp, if_pos rfl, hshash]
      · rw [e]; exact Or.inl ⟨err, rfl⟩

theorem startup_rolls_to_common (cfg : Cfg) {w : Wallet} {old : BlockId} {lo : Nat}
    (hS : StoppedInv cfg w old lo) (tip : BlockId) :
    (∃ e, startupRollback cfg w tip = .error e) ∨
    (∃ w' c, startupRollback cfg w tip = .ok w' ∧ IsLastCommon old tip c ∧
        w'.syncedTo = stampOf cfg.C (ancestorAt tip c) ∧
        w'.mined = rollbackMined w.mined (c + 1) ∧
        w'.unmined = (if c < old.length then rollbackUnmined w.mined w.unmined (c + 1) else w.unmined) ∧
        (∀ h x, h ≤ c → w'.hashes h = some x → x = some (ancestorAt tip h)) ∧
        (∀ h, lo ≤ h → h ≤ c → w'.hashes h = some (some (ancestorAt tip h))) ∧
        MinedOn w' tip) := by
  rcases startup_rolls_to_common_ex cfg hS tip with h | ⟨w', c, h1, h2, h3, h4, h5, h6, h7, h8, _⟩
  · exact Or.inl h
  · exact Or.inr ⟨w', c, h1, h2, h3, h4, h5, h6, h7, h8⟩

/-- When does it succeed?  The backend must have every height the loop asks for, the common block must still be
    remembered, and (if a rollback is needed) so must its predecessor. -/
theorem rollbackLoop_succeeds (C : Content) (w : Wallet) (old tip : BlockId) (lo c : Nat)
    (hrem : ∀ h, lo ≤ h → h ≤ old.length → w.hashes h = some (some (ancestorAt old h)))
    (hlen : old.length ≤ tip.length) (hcm : IsLastCommon old tip c) (hlo : lo ≤ c) :
    ∀ (h : Nat) (rb : Bool), c ≤ h → h ≤ old.length → ∃ res, rollbackLoop C w tip h rb = .ok res := by
  intro h
  induction h with
  | zero =>
    intro rb hc hle
    have hc0 : c = 0 := by omega
    subst hc0
    simp only [rollbackLoop, hrem 0 hlo hle, getBlockHash, Nat.zero_le, if_true]
    rw [if_pos (by rw [hcm.2.2.1])]
    exact ⟨_, rfl⟩
  | succ n ih =>
    intro rb hc hle
    simp only [rollbackLoop, hrem (n + 1) (by omega) hle, getBlockHash]
    rw [if_pos (by omega)]
    simp only []
    by_cases heq : ancestorAt old (n + 1) = ancestorAt tip (n + 1)
    · rw [if_pos (by rw [heq])]; exact ⟨_, rfl⟩
    · rw [if_neg (by intro h; exact heq (Option.some.inj h))]
      have : c ≠ n + 1 := by
        intro hcn; apply heq; rw [← hcn]; exact hcm.2.2.1
      exact ih true (by omega) (by omega)

end SyncTip
