/-
Helper lemmas about the generic write-program model `FaultOps` (C10).  Core Lean only.
-/
import BtcwVerif.Model.FaultOps
namespace FaultOps
variable {σ δ μ : Type}

theorem tick_none : tick none = (false, none) := rfl

/-- Without an armed fault the counter stays disarmed. -/
theorem iter_none (step : Cfg δ μ → Option Nat → Res δ μ) (hs : ∀ c, (step c none).2.1 = none) :
    ∀ n c, (iter step n c none).2.1 = none := by
  intro n
  induction n with
  | zero => intro c; rfl
  | succ n ih =>
    intro c
    have h1 := hs c
    rcases h : step c none with ⟨c', f', o⟩
    rw [h] at h1; simp only at h1; subst h1
    cases o with
    | ok => simp only [iter, h]; exact ih c'
    | err => simp only [iter, h]

theorem run_none (tbl : σ → Handling) (op : Prog σ δ μ) : ∀ c, (run tbl op c none).2.1 = none := by
  induction op with
  | skip => intro c; rfl
  | fail => intro c; rfl
  | write s eff => intro c; simp [run, tick]
  | memEager m => intro c; rfl
  | memOnCommit m => intro c; rfl
  | seq a b iha ihb =>
    intro c
    have h1 := iha c
    rcases h : run tbl a c none with ⟨c', f', o⟩
    rw [h] at h1; simp only at h1; subst h1
    cases o with
    | ok => simp only [run, h]; exact ihb c'
    | err => simp only [run, h]
  | branch cond t e iht ihe =>
    intro c
    simp only [run]
    split
    · exact iht c
    · exact ihe c
  | loop n body ih =>
    intro c
    simp only [run]
    exact iter_none _ ih _ c

/-- "error, or identical to the fault-free run" for one step function. -/
def Atomic (step : Cfg δ μ → Option Nat → Res δ μ) : Prop :=
  ∀ c f, (step c f).2.2 = .err ∨
    ((step c f).1 = (step c none).1 ∧ (step c f).2.2 = (step c none).2.2)

theorem iter_atomic (step : Cfg δ μ → Option Nat → Res δ μ) (hs : ∀ c, (step c none).2.1 = none)
    (ha : Atomic step) : ∀ n, Atomic (iter step n) := by
  intro n
  induction n with
  | zero => intro c f; right; exact ⟨rfl, rfl⟩
  | succ n ih =>
    intro c f
    have h0 := hs c
    rcases ha c f with he | ⟨h1, h2⟩
    · left
      rcases h : step c f with ⟨c', f', o⟩
      rw [h] at he; simp only at he; subst he
      simp only [iter, h]
    · rcases h : step c f with ⟨c', f', o⟩
      rcases hn : step c none with ⟨c0, f0, o0⟩
      rw [h, hn] at h1 h2; simp only at h1 h2
      rw [hn] at h0; simp only at h0
      subst h1 h2 h0
      cases o with
      | ok => simp only [iter, h, hn]; exact ih c' f'
      | err => left; simp only [iter, h]

theorem run_atomic (tbl : σ → Handling) (op : Prog σ δ μ)
    (hs : ∀ s ∈ sitesOf op, tbl s = .propagated) : Atomic (run tbl op) := by
  induction op with
  | skip => intro c f; right; exact ⟨rfl, rfl⟩
  | fail => intro c f; left; rfl
  | write s eff =>
    intro c f
    have hp : tbl s = .propagated := hs s (by simp [sitesOf])
    simp only [run, tick_none, hp, if_true]
    rcases ht : tick f with ⟨b, f'⟩
    cases b with
    | true => left; rfl
    | false => right; exact ⟨rfl, rfl⟩
  | memEager m => intro c f; right; exact ⟨rfl, rfl⟩
  | memOnCommit m => intro c f; right; exact ⟨rfl, rfl⟩
  | seq a b iha ihb =>
    intro c f
    have ha := iha (fun s h => hs s (by simp [sitesOf, h]))
    have hb := ihb (fun s h => hs s (by simp [sitesOf, h]))
    have h0 := run_none tbl a c
    rcases ha c f with he | ⟨h1, h2⟩
    · left
      rcases h : run tbl a c f with ⟨c', f', o⟩
      rw [h] at he; simp only at he; subst he
      simp only [run, h]
    · rcases h : run tbl a c f with ⟨c', f', o⟩
      rcases hn : run tbl a c none with ⟨c0, f0, o0⟩
      rw [h, hn] at h1 h2; simp only at h1 h2
      rw [hn] at h0; simp only at h0
      subst h1 h2 h0
      cases o with
      | ok => simp only [run, h, hn]; exact hb c' f'
      | err => left; simp only [run, h]
  | branch cond t e iht ihe =>
    intro c f
    have ht := iht (fun s h => hs s (by simp [sitesOf, h]))
    have he := ihe (fun s h => hs s (by simp [sitesOf, h]))
    simp only [run]
    split
    · exact ht c f
    · exact he c f
  | loop n body ih =>
    intro c f
    have hb := ih (fun s h => hs s (by simp [sitesOf, h]))
    simp only [run]
    exact iter_atomic _ (run_none tbl body) hb _ c f

/-! ### memory discipline -/

theorem iter_mem_of (step : Cfg δ μ → Option Nat → Res δ μ) (h : ∀ c f, (step c f).1.mem = c.mem) :
    ∀ n c f, (iter step n c f).1.mem = c.mem := by
  intro n
  induction n with
  | zero => intro c f; rfl
  | succ n ih =>
    intro c f
    have h1 := h c f
    rcases hh : step c f with ⟨c', f', o⟩
    rw [hh] at h1; simp only at h1
    cases o with
    | ok => simp only [iter, hh]; rw [ih c' f', h1]
    | err => simp only [iter, hh]; exact h1

/-- A program without eager mutation leaves the memory untouched. -/
theorem run_noEager_mem (tbl : σ → Handling) (op : Prog σ δ μ) (hne : noEager op = true) :
    ∀ c f, (run tbl op c f).1.mem = c.mem := by
  induction op with
  | skip => intro c f; rfl
  | fail => intro c f; rfl
  | write s eff =>
    intro c f; simp only [run]
    rcases tick f with ⟨b, f'⟩
    cases b <;> simp only <;> (try split) <;> rfl
  | memEager m => simp [noEager] at hne
  | memOnCommit m => intro c f; rfl
  | seq a b iha ihb =>
    simp only [noEager, Bool.and_eq_true] at hne
    intro c f
    have h1 := iha hne.1 c f
    rcases hh : run tbl a c f with ⟨c', f', o⟩
    rw [hh] at h1; simp only at h1
    cases o with
    | ok => simp only [run, hh]; rw [ihb hne.2 c' f', h1]
    | err => simp only [run, hh]; exact h1
  | branch cond t e iht ihe =>
    simp only [noEager, Bool.and_eq_true] at hne
    intro c f; simp only [run]
    split
    · exact iht hne.1 c f
    · exact ihe hne.2 c f
  | loop n body ih =>
    simp only [noEager] at hne
    intro c f; simp only [run]
    exact iter_mem_of _ (ih hne) _ c f

theorem iter_ok_of (step : Cfg δ μ → Option Nat → Res δ μ) (h : ∀ c f, (step c f).2.2 = .ok) :
    ∀ n c f, (iter step n c f).2.2 = .ok := by
  intro n
  induction n with
  | zero => intro c f; rfl
  | succ n ih =>
    intro c f
    have h1 := h c f
    rcases hh : step c f with ⟨c', f', o⟩
    rw [hh] at h1; simp only at h1; subst h1
    simp only [iter, hh]; exact ih c' f'

/-- A program without writes and logical failures always succeeds. -/
theorem run_cantErr_ok (tbl : σ → Handling) (op : Prog σ δ μ) (hce : cantErr op = true) :
    ∀ c f, (run tbl op c f).2.2 = .ok := by
  induction op with
  | skip => intro c f; rfl
  | fail => simp [cantErr] at hce
  | write s eff => simp [cantErr] at hce
  | memEager m => intro c f; rfl
  | memOnCommit m => intro c f; rfl
  | seq a b iha ihb =>
    simp only [cantErr, Bool.and_eq_true] at hce
    intro c f
    have h1 := iha hce.1 c f
    rcases hh : run tbl a c f with ⟨c', f', o⟩
    rw [hh] at h1; simp only at h1; subst h1
    simp only [run, hh]; exact ihb hce.2 c' f'
  | branch cond t e iht ihe =>
    simp only [cantErr, Bool.and_eq_true] at hce
    intro c f; simp only [run]
    split
    · exact iht hce.1 c f
    · exact ihe hce.2 c f
  | loop n body ih =>
    simp only [cantErr] at hce
    intro c f; simp only [run]
    exact iter_ok_of _ (ih hce) _ c f

/-- `err ⇒ memory unchanged` for one step function. -/
def ErrKeepsMem (step : Cfg δ μ → Option Nat → Res δ μ) : Prop :=
  ∀ c f, (step c f).2.2 = .err → (step c f).1.mem = c.mem

theorem iter_errKeepsMem (step : Cfg δ μ → Option Nat → Res δ μ)
    (hor : (∀ c f, (step c f).1.mem = c.mem) ∨ (∀ c f, (step c f).2.2 = .ok)) :
    ∀ n, ErrKeepsMem (iter step n) := by
  intro n
  rcases hor with hm | hok
  · intro c f _; exact iter_mem_of step hm n c f
  · intro c f he
    rw [iter_ok_of step hok n c f] at he; cases he

theorem run_errKeepsMem (tbl : σ → Handling) (op : Prog σ δ μ) (h : noEagerBeforeWrite op = true) :
    ErrKeepsMem (run tbl op) := by
  induction op with
  | skip => intro c f he; cases he
  | fail => intro c f _; rfl
  | write s eff => intro c f _; exact run_noEager_mem tbl (.write s eff) rfl c f
  | memEager m => intro c f he; cases he
  | memOnCommit m => intro c f he; cases he
  | seq a b iha ihb =>
    simp only [noEagerBeforeWrite, Bool.and_eq_true, Bool.or_eq_true] at h
    obtain ⟨⟨ha, hb⟩, hor⟩ := h
    intro c f he
    have ka := iha ha c f
    rcases hh : run tbl a c f with ⟨c', f', o⟩
    rw [hh] at ka; simp only at ka
    cases o with
    | err => simp only [run, hh]; exact ka rfl
    | ok =>
      simp only [run, hh] at he ⊢
      rcases hor with hna | hcb
      · have hm := run_noEager_mem tbl a hna c f
        rw [hh] at hm; simp only at hm
        rw [ihb hb c' f' he, hm]
      · rw [run_cantErr_ok tbl b hcb c' f'] at he; cases he
  | branch cond t e iht ihe =>
    simp only [noEagerBeforeWrite, Bool.and_eq_true] at h
    intro c f; simp only [run]
    split
    · exact iht h.1 c f
    · exact ihe h.2 c f
  | loop n body ih =>
    simp only [noEagerBeforeWrite, Bool.and_eq_true, Bool.or_eq_true] at h
    intro c f; simp only [run]
    have _ := ih h.1
    refine iter_errKeepsMem _ ?_ _ c f
    rcases h.2 with hne | hce
    · left; exact run_noEager_mem tbl body hne
    · right; exact run_cantErr_ok tbl body hce

/-! ### tables -/

theorem lookupHandling_of_all {κ : Type} [BEq κ] (tab : List (κ × Handling))
    (hall : allPropagatedTab tab = true) (k : κ) (hk : (tab.lookup k).isSome = true) :
    lookupHandling tab k = .propagated := by
  induction tab with
  | nil => simp [List.lookup] at hk
  | cons e rest ih =>
    obtain ⟨k', h'⟩ := e
    simp only [allPropagatedTab, List.all_cons, Bool.and_eq_true, beq_iff_eq] at hall
    unfold lookupHandling
    simp only [List.lookup] at hk ⊢
    cases hkk : (k == k') with
    | true => simp only [hall.1]
    | false =>
      simp only [hkk] at hk
      have := ih (by simpa [allPropagatedTab] using hall.2) hk
      unfold lookupHandling at this
      exact this

theorem chainHandling_of_all {κ : Type} [BEq κ] (tab : List (κ × Handling))
    (hall : allPropagatedTab tab = true) (ch : List κ) (hk : ∀ k ∈ ch, (tab.lookup k).isSome = true) :
    chainHandling tab ch = .propagated := by
  induction ch with
  | nil => rfl
  | cons k ks ih =>
    simp only [chainHandling]
    rw [lookupHandling_of_all tab hall k (hk k (by simp))]
    exact ih (fun k' h' => hk k' (by simp [h']))

end FaultOps
