/-
C15: the invariant `Inv` is preserved by every valid backend evolution step when `disconnectBlock` stores the parent's
hash; corollaries (tip follows the backend, remembered hashes match, no mined record off the
best chain, lower bound of the remembered window).
-/
import BtcwVerif.Lemmas.SyncTipDefs
namespace SyncTip

/-! ### (1) Chains -/

theorem ancestorAt_self (b : BlockId) : ancestorAt b b.length = b := by
  simp [ancestorAt]

theorem ancestorAt_length (b : BlockId) (h : Nat) (hh : h ≤ b.length) : (ancestorAt b h).length = h := by
  simp [ancestorAt]; omega

theorem ancestorAt_cons (n : Nat) (b : BlockId) (h : Nat) (hh : h ≤ b.length) :
    ancestorAt (n :: b) h = ancestorAt b h := by
  unfold ancestorAt
  have e : (n :: b).length - h = (b.length - h) + 1 := by simp; omega
  rw [e, List.drop_succ_cons]

theorem ancestorAt_ancestorAt (b : BlockId) (h k : Nat) (hk : k ≤ h) (hh : h ≤ b.length) :
    ancestorAt (ancestorAt b h) k = ancestorAt b k := by
  have hl := ancestorAt_length b h hh
  unfold ancestorAt at *
  rw [hl, List.drop_drop]
  congr 1; omega

theorem same_hash_same_below (a b : BlockId) (h k : Nat) (hk : k ≤ h) (ha : h ≤ a.length) (hb : h ≤ b.length)
    (e : ancestorAt a h = ancestorAt b h) : ancestorAt a k = ancestorAt b k := by
  rw [← ancestorAt_ancestorAt a h k hk ha, ← ancestorAt_ancestorAt b h k hk hb, e]

theorem ancestorAt_drop (b : BlockId) (d h : Nat) (hh : h + d ≤ b.length) :
    ancestorAt (b.drop d) h = ancestorAt b h := by
  unfold ancestorAt
  rw [List.drop_drop, List.length_drop]
  congr 1; omega

theorem ancestorAt_append (a b : BlockId) (h : Nat) (hh : h ≤ b.length) :
    ancestorAt (a ++ b) h = ancestorAt b h := by
  induction a with
  | nil => rfl
  | cons n a ih =>
    rw [List.cons_append, ancestorAt_cons _ _ _ (by simp; omega), ih]

/-- A block is on the chain with tip `c`. -/
def OnChain (b c : BlockId) : Prop := b.length ≤ c.length ∧ ancestorAt c b.length = b

theorem onChain_self (c : BlockId) : OnChain c c := ⟨Nat.le_refl _, ancestorAt_self c⟩

theorem onChain_ancestorAt (c : BlockId) (h : Nat) (hh : h ≤ c.length) : OnChain (ancestorAt c h) c := by
  unfold OnChain
  rw [ancestorAt_length c h hh]
  exact ⟨hh, rfl⟩

/-! ### MinedOn -/

theorem MinedOn.cons {w : Wallet} {c : BlockId} (n : Nat) (h : MinedOn w c) : MinedOn w (n :: c) := by
  intro r hr
  obtain ⟨h1, h2⟩ := h r hr
  refine ⟨by simp; omega, ?_⟩
  rw [ancestorAt_cons n c r.height h1]; exact h2

/-! ### The sync part of the invariant -/

/-- `Inv` without the `mined` field. -/
structure SyncInv (cfg : Cfg) (w : Wallet) (tip : BlockId) (lo : Nat) : Prop where
  synced     : w.chainSynced = true
  bday       : w.birthdaySet = true
  tipEq      : w.syncedTo = stampOf cfg.C tip
  lo_le      : lo ≤ tip.length
  window     : tip.length < lo + cfg.W ∨ (lo = 0 ∧ tip.length ≤ cfg.W)
  remembered : ∀ h, lo ≤ h → h ≤ tip.length → w.hashes h = some (some (ancestorAt tip h))
  correct    : ∀ h x, h ≤ tip.length → w.hashes h = some x → x = some (ancestorAt tip h)

theorem Inv.sync {cfg w tip lo} (h : Inv cfg w tip lo) : SyncInv cfg w tip lo :=
  ⟨h.synced, h.bday, h.tipEq, h.lo_le, h.window, h.remembered, h.correct⟩

theorem SyncInv.inv {cfg w tip lo} (h : SyncInv cfg w tip lo) (hm : MinedOn w tip) : Inv cfg w tip lo :=
  ⟨h.synced, h.bday, h.tipEq, h.lo_le, h.window, h.remembered, h.correct, hm⟩

/-- Two wallets with the same manager (sync) state. -/
def SameSync (w w' : Wallet) : Prop :=
  w'.syncedTo = w.syncedTo ∧ w'.hashes = w.hashes ∧ w'.birthdaySet = w.birthdaySet ∧ w'.chainSynced = w.chainSynced

theorem SameSync.refl (w : Wallet) : SameSync w w := ⟨rfl, rfl, rfl, rfl⟩

theorem SameSync.trans {a b c : Wallet} (h1 : SameSync a b) (h2 : SameSync b c) : SameSync a c := by
  obtain ⟨a1, a2, a3, a4⟩ := h1
  obtain ⟨b1, b2, b3, b4⟩ := h2
  exact ⟨b1.trans a1, b2.trans a2, b3.trans a3, b4.trans a4⟩

theorem SyncInv.congr {cfg w w' tip lo} (h : SyncInv cfg w tip lo) (e : SameSync w w') : SyncInv cfg w' tip lo := by
  obtain ⟨e1, e2, e3, e4⟩ := e
  exact ⟨e4 ▸ h.synced, e3 ▸ h.bday, e1 ▸ h.tipEq, h.lo_le, h.window, e2 ▸ h.remembered, e2 ▸ h.correct⟩

/-! ### `putSyncedTo` -/

/-- The wallet `putSyncedTo` produces when its predecessor check passes. -/
def putOk (W : Nat) (w : Wallet) (bs : Stamp) : Wallet :=
  { w with
    hashes := if bs.height > W then upd (upd w.hashes bs.height (some bs.hash)) (bs.height - W) none
              else upd w.hashes bs.height (some bs.hash),
    syncedTo := bs }

theorem putOk_hashes (W : Nat) (w : Wallet) (bs : Stamp) (h : Nat) :
    (putOk W w bs).hashes h =
      if bs.height > W ∧ h = bs.height - W then none
      else if h = bs.height then some bs.hash else w.hashes h := by
  simp only [putOk]
  by_cases hgt : bs.height > W
  · rw [if_pos hgt]; simp only [upd, hgt, true_and]
  · rw [if_neg hgt]; simp only [upd, hgt, false_and, if_false]

theorem putSyncedTo_eq (W : Nat) (w : Wallet) (bs : Stamp) :
    putSyncedTo W w bs =
      if bs.height > 0 ∧ w.birthdaySet = true ∧ w.hashes (bs.height - 1) = none then .error .blockNotFound
      else .ok (putOk W w bs) := rfl

theorem putSyncedTo_ok (W : Nat) (w : Wallet) (bs : Stamp) (h : bs.height = 0 ∨ w.hashes (bs.height - 1) ≠ none) :
    putSyncedTo W w bs = .ok (putOk W w bs) := by
  rw [putSyncedTo_eq, if_neg]
  rintro ⟨h1, _, h3⟩
  rcases h with h | h
  · omega
  · exact h h3

theorem putSyncedTo_cases (W : Nat) (w : Wallet) (bs : Stamp) :
    putSyncedTo W w bs = .ok (putOk W w bs) ∨ ∃ e, putSyncedTo W w bs = .error e := by
  rw [putSyncedTo_eq]
  split
  · exact Or.inr ⟨_, rfl⟩
  · exact Or.inl rfl

/-- The general effect of a successful `PutSyncedTo(stampOf c')` on a wallet in sync with `c`, where `c'` is `c`, its
    parent, or a child of `c`. -/
theorem putOk_syncInv {cfg : Cfg} {w : Wallet} {c : BlockId} {lo : Nat} (c' : BlockId) (lo' : Nat) (hW : 1 ≤ cfg.W)
    (hS : SyncInv cfg w c lo)
    (hlen : c'.length ≤ c.length + 1)
    (hagree : ∀ h, h < c'.length → ancestorAt c' h = ancestorAt c h)
    (hlo1 : lo ≤ lo') (hlo2 : lo' ≤ c'.length)
    (hwin : c'.length < lo' + cfg.W ∨ (lo' = 0 ∧ c'.length ≤ cfg.W)) :
    SyncInv cfg (putOk cfg.W w (stampOf cfg.C c')) c' lo' := by
  have key : ∀ h, h ≤ c'.length → (cfg.W < c'.length → h ≠ c'.length - cfg.W) →
      (putOk cfg.W w (stampOf cfg.C c')).hashes h =
        if h = c'.length then some (some c') else w.hashes h := by
    intro h _ hne
    rw [putOk_hashes]
    split
    · rename_i hgt; exact absurd hgt.2 (hne hgt.1)
    · rfl
  have sub : ∀ h x, (putOk cfg.W w (stampOf cfg.C c')).hashes h = some x →
      (if h = c'.length then some (some c') else w.hashes h) = some x := by
    intro h x
    rw [putOk_hashes]
    split
    · intro hx; cases hx
    · exact id
  refine ⟨hS.synced, hS.bday, rfl, hlo2, hwin, ?_, ?_⟩
  · intro h h1 h2
    rw [key h h2 (by have := hW; omega)]
    split
    · rename_i e; subst e; rw [ancestorAt_self]
    · rw [hagree h (by omega)]
      exact hS.remembered h (by omega) (by omega)
  · intro h x h1 hx
    have := sub h x hx
    split at this
    · rename_i e; subst e; rw [ancestorAt_self]; exact (Option.some.inj this).symm
    · rw [hagree h (by omega)]
      exact hS.correct h x (by omega) this

theorem putOk_mined (W : Nat) (w : Wallet) (bs : Stamp) : (putOk W w bs).mined = w.mined := rfl

/-! ### (2) Single notifications -/

theorem loAfter_ge (W lo H : Nat) : lo ≤ loAfter W lo H := by
  unfold loAfter; split <;> omega

theorem loAfter_tip {cfg w tip lo} (hS : SyncInv cfg w tip lo) : loAfter cfg.W lo tip.length = lo := by
  have := hS.window
  unfold loAfter; split <;> omega

/-- `BlockConnected` for a child of the tip. -/
theorem connect_next_sync {cfg : Cfg} {w : Wallet} {tip : BlockId} {lo : Nat} (hW : 1 ≤ cfg.W) (n : Nat)
    (hS : SyncInv cfg w tip lo) :
    handle cfg w (.connected (stampOf cfg.C (n :: tip))) = putOk cfg.W w (stampOf cfg.C (n :: tip)) ∧
    SyncInv cfg (putOk cfg.W w (stampOf cfg.C (n :: tip))) (n :: tip) (loAfter cfg.W lo (tip.length + 1)) := by
  constructor
  · have : putSyncedTo cfg.W w (stampOf cfg.C (n :: tip)) = .ok (putOk cfg.W w (stampOf cfg.C (n :: tip))) := by
      apply putSyncedTo_ok
      right
      have := hS.remembered tip.length hS.lo_le (Nat.le_refl _)
      simp [stampOf, this]
    simp only [handle, connectBlock, this, orKeep]
  · have hwin := hS.window
    have hle := hS.lo_le
    apply putOk_syncInv (n :: tip) _ hW hS
    · simp
    · intro h hh; exact ancestorAt_cons n tip h (by simp at hh; omega)
    · exact loAfter_ge _ _ _
    · simp only [List.length_cons]; unfold loAfter; split <;> omega
    · simp only [List.length_cons]; unfold loAfter; split <;> omega

theorem connect_next {cfg : Cfg} {w : Wallet} {tip : BlockId} {lo : Nat} (hW : 1 ≤ cfg.W) (n : Nat)
    (hS : SyncInv cfg w tip lo) (hm : MinedOn w (n :: tip)) :
    Inv cfg (handle cfg w (.connected (stampOf cfg.C (n :: tip)))) (n :: tip) (loAfter cfg.W lo (tip.length + 1)) := by
  obtain ⟨e, h⟩ := connect_next_sync hW n hS
  rw [e]
  exact h.inv hm

theorem connect_next_inv {cfg : Cfg} {w : Wallet} {tip : BlockId} {lo : Nat} (hW : 1 ≤ cfg.W) (n : Nat)
    (hI : Inv cfg w tip lo) :
    Inv cfg (handle cfg w (.connected (stampOf cfg.C (n :: tip)))) (n :: tip) (loAfter cfg.W lo (tip.length + 1)) :=
  connect_next hW n hI.sync (hI.mined.cons n)

/-- `BlockConnected` for the current tip again. -/
theorem dup_connect {cfg : Cfg} {w : Wallet} {tip : BlockId} {lo : Nat} (hW : 1 ≤ cfg.W) (hI : Inv cfg w tip lo) :
    Inv cfg (handle cfg w (.connected (stampOf cfg.C tip))) tip lo := by
  simp only [handle, connectBlock]
  rcases putSyncedTo_cases cfg.W w (stampOf cfg.C tip) with e | ⟨err, e⟩
  · rw [e]
    simp only [orKeep]
    exact (putOk_syncInv tip lo hW hI.sync (by omega) (fun _ _ => rfl) (Nat.le_refl _) hI.lo_le hI.window).inv hI.mined
  · rw [e]; exact hI

/-! #### Disconnect -/

theorem rollbackTxs_sameSync (w : Wallet) (h : Nat) : SameSync w (rollbackTxs w h) := ⟨rfl, rfl, rfl, rfl⟩

theorem disconnectBlock_tip {cfg : Cfg} {w : Wallet} {n : Nat} {rest : BlockId} {lo : Nat}
    (hS : SyncInv cfg w (n :: rest) lo) (hlo : lo + 1 ≤ rest.length ∨ (rest.length = 0 ∧ lo = 0)) :
    disconnectBlock cfg w (stampOf cfg.C (n :: rest)) =
      .ok (rollbackTxs (putOk cfg.W w (stampOf cfg.C rest)) (rest.length + 1)) := by
  have h1 := hS.remembered (rest.length + 1) (by have := hS.lo_le; simpa using this) (by simp)
  have h2 := hS.remembered rest.length (by omega) (by simp)
  have a1 : ancestorAt (n :: rest) (rest.length + 1) = n :: rest := ancestorAt_self (n :: rest)
  have a2 : ancestorAt (n :: rest) rest.length = rest := by
    rw [ancestorAt_cons n rest _ (Nat.le_refl _), ancestorAt_self]
  rw [a1] at h1
  rw [a2] at h2
  have hput : putSyncedTo cfg.W w (stampOf cfg.C rest) = .ok (putOk cfg.W w (stampOf cfg.C rest)) := by
    apply putSyncedTo_ok
    rcases hlo with hlo | hlo
    · right
      have := hS.remembered (rest.length - 1) (by omega) (by simp; omega)
      simp [stampOf, this]
    · left; exact hlo.1
  have hput' : putSyncedTo cfg.W w ⟨rest.length, some rest, cfg.C.time rest⟩
      = .ok (putOk cfg.W w (stampOf cfg.C rest)) := hput
  have hs := hS.synced
  have ht : w.syncedTo.height = rest.length + 1 := by rw [hS.tipEq]; rfl
  simp only [disconnectBlock, stampOf, List.length_cons, hs, ht, h1, h2]
  simp only [Bool.true_eq_false, if_false, Nat.le_refl, if_true]
  rw [hput']
  rfl

/-- `BlockDisconnected` for the tip, with the block below the new tip remembered (or the new tip is a remembered
    genesis). -/
theorem disconnect_tip {cfg : Cfg} {w : Wallet} {n : Nat} {rest : BlockId} {lo : Nat} (hW : 1 ≤ cfg.W)
    (hI : Inv cfg w (n :: rest) lo)
    (hlo : lo + 1 ≤ rest.length ∨ (rest.length = 0 ∧ lo = 0)) :
    Inv cfg (handle cfg w (.disconnected (stampOf cfg.C (n :: rest)))) rest lo := by
  simp only [handle, disconnectBlock_tip hI.sync hlo, orKeep]
  have hwin := hI.window
  have hS : SyncInv cfg (putOk cfg.W w (stampOf cfg.C rest)) rest lo := by
    apply putOk_syncInv rest lo hW hI.sync
    · simp only [List.length_cons]; omega
    · intro h hh; exact (ancestorAt_cons n rest h (by omega)).symm
    · exact Nat.le_refl _
    · omega
    · simp only [List.length_cons] at hwin; omega
  refine (hS.congr (rollbackTxs_sameSync _ _)).inv ?_
  intro r hr
  simp only [rollbackTxs, rollbackMined, putOk_mined, List.mem_filter, decide_eq_true_eq] at hr
  obtain ⟨hr1, hr2⟩ := hr
  obtain ⟨_, m2⟩ := hI.mined r hr1
  refine ⟨by omega, ?_⟩
  rw [m2, ancestorAt_cons n rest r.height (by omega)]

theorem stale_disconnect_stamp {cfg : Cfg} {w : Wallet} {tip : BlockId} {lo : Nat} (hI : Inv cfg w tip lo)
    (s : Stamp) (hs : s.hash ≠ some (ancestorAt tip s.height)) : handle cfg w (.disconnected s) = w := by
  have ht : w.syncedTo.height = tip.length := by rw [hI.tipEq]; rfl
  simp only [handle, disconnectBlock, hI.synced, ht]
  simp only [Bool.true_eq_false, if_false]
  split
  · rename_i hle
    split
    · rfl
    · rename_i hash hh
      have := hI.correct s.height hash hle hh
      split
      · rename_i e; rw [this] at e; exact absurd e.symm hs
      · rfl
  · rfl

/-- `BlockDisconnected` for a block that is not on the best chain (e.g. a repeated notification) changes nothing. -/
theorem stale_disconnect_noop {cfg : Cfg} {w : Wallet} {tip : BlockId} {lo : Nat} (hI : Inv cfg w tip lo)
    (b : BlockId) (hb : ancestorAt tip b.length ≠ b) : handle cfg w (.disconnected (stampOf cfg.C b)) = w := by
  apply stale_disconnect_stamp hI
  intro e
  exact hb (Option.some.inj e).symm

/-! #### Transactions -/

theorem addRelevantTx_sameSync (w : Wallet) (t : Tx) (blk : Option Stamp) : SameSync w (addRelevantTx w t blk) := by
  unfold addRelevantTx
  split
  · split
    · exact SameSync.refl w
    · exact ⟨rfl, rfl, rfl, rfl⟩
  · split
    · exact SameSync.refl w
    · exact ⟨rfl, rfl, rfl, rfl⟩

theorem addRelevantTx_mined_none (w : Wallet) (t : Tx) : (addRelevantTx w t none).mined = w.mined := by
  simp only [addRelevantTx]
  split <;> rfl

theorem addRelevantTx_mined_some (w : Wallet) (t : Tx) (b : Stamp) :
    ∀ r ∈ (addRelevantTx w t (some b)).mined, r ∈ w.mined ∨ r = ⟨t, b.height, b.hash⟩ := by
  intro r
  simp only [addRelevantTx]
  split
  · exact Or.inl
  · simp only [List.mem_append, List.mem_singleton]; exact id

/-- A (repeated) `RelevantTx`/`FilteredBlockConnected` for a block of the chain with tip `c`. -/
theorem addRelevantTx_onChain {w : Wallet} {c : BlockId} (C : Content) (t : Tx) (b : BlockId) (hb : OnChain b c)
    (hm : MinedOn w c) : MinedOn (addRelevantTx w t (some (stampOf C b))) c := by
  intro r hr
  rcases addRelevantTx_mined_some w t _ r hr with h | h
  · exact hm r h
  · subst h
    simp only [stampOf]
    exact ⟨hb.1, by rw [hb.2]⟩

theorem foldTxs_onChain {c : BlockId} (C : Content) (b : BlockId) (hb : OnChain b c) (ts : List Tx) (w : Wallet)
    (hm : MinedOn w c) :
    SameSync w (ts.foldl (fun w t => addRelevantTx w t (some (stampOf C b))) w) ∧
    MinedOn (ts.foldl (fun w t => addRelevantTx w t (some (stampOf C b))) w) c := by
  induction ts generalizing w with
  | nil => exact ⟨SameSync.refl w, hm⟩
  | cons t ts ih =>
    simp only [List.foldl_cons]
    obtain ⟨h1, h2⟩ := ih _ (addRelevantTx_onChain C t b hb hm)
    exact ⟨(addRelevantTx_sameSync w t _).trans h1, h2⟩

theorem process_append (cfg : Cfg) (w : Wallet) (xs ys : List Ntfn) :
    process cfg w (xs ++ ys) = process cfg (process cfg w xs) ys := by
  simp [process]

theorem process_relevantTxs (cfg : Cfg) (w : Wallet) (s : Stamp) (ts : List Tx) :
    process cfg w (ts.map (fun t => .relevantTx t (some s))) = ts.foldl (fun w t => addRelevantTx w t (some s)) w := by
  simp only [process, List.foldl_map, handle]

theorem filtered_eq (cfg : Cfg) (w : Wallet) (s : Stamp) (ts : List Tx) :
    handle cfg w (.filtered s ts) = ts.foldl (fun w t => addRelevantTx w t (some s)) w := rfl

theorem mempoolTx_inv {cfg : Cfg} {w : Wallet} {tip : BlockId} {lo : Nat} (t : Tx) (hI : Inv cfg w tip lo) :
    Inv cfg (handle cfg w (.relevantTx t none)) tip lo := by
  refine (hI.sync.congr (addRelevantTx_sameSync w t none)).inv ?_
  intro r hr
  simp only [addRelevantTx_mined_none] at hr
  exact hI.mined r hr

theorem relevantTxs_inv {cfg : Cfg} {w : Wallet} {tip : BlockId} {lo : Nat} (b : BlockId) (hb : OnChain b tip)
    (ts : List Tx) (hI : Inv cfg w tip lo) :
    Inv cfg (process cfg w (ts.map (fun t => .relevantTx t (some (stampOf cfg.C b))))) tip lo := by
  rw [process_relevantTxs]
  obtain ⟨h1, h2⟩ := foldTxs_onChain cfg.C b hb ts w hI.mined
  exact (hI.sync.congr h1).inv h2

/-! ### (3) Steps -/

/-- The notifications for one new block on top of the tip, in any of the three orders. -/
theorem connectNtfns_inv {cfg : Cfg} {w : Wallet} {tip : BlockId} {lo : Nat} (hW : 1 ≤ cfg.W) (m : TxMode) (n : Nat)
    (hI : Inv cfg w tip lo) :
    Inv cfg (process cfg w (connectNtfns cfg.C m (n :: tip))) (n :: tip) (loAfter cfg.W lo (tip.length + 1)) := by
  cases m with
  | after =>
    simp only [connectNtfns]
    rw [← List.singleton_append, process_append]
    exact relevantTxs_inv (n :: tip) (onChain_self _) _ (connect_next_inv hW n hI)
  | before =>
    simp only [connectNtfns]
    rw [process_append, process_relevantTxs]
    obtain ⟨h1, h2⟩ := foldTxs_onChain cfg.C (n :: tip) (onChain_self _) (cfg.C.txs (n :: tip)) w (hI.mined.cons n)
    exact connect_next hW n (hI.sync.congr h1) h2
  | filtered =>
    simp only [connectNtfns]
    rw [← List.singleton_append, process_append]
    have e : process cfg w [Ntfn.filtered (stampOf cfg.C (n :: tip)) (cfg.C.txs (n :: tip))] =
        (cfg.C.txs (n :: tip)).foldl (fun w t => addRelevantTx w t (some (stampOf cfg.C (n :: tip)))) w := rfl
    rw [e]
    obtain ⟨h1, h2⟩ := foldTxs_onChain cfg.C (n :: tip) (onChain_self _) (cfg.C.txs (n :: tip)) w (hI.mined.cons n)
    exact connect_next hW n (hI.sync.congr h1) h2

/-- The disconnect phase of a reorganisation. -/
theorem disconnectNtfns_inv {cfg : Cfg} (hW : 1 ≤ cfg.W) {lo : Nat} (d : Nat) :
    ∀ {w : Wallet} {tip : BlockId}, Inv cfg w tip lo → d ≤ tip.length →
      (d = 0 ∨ lo + 1 + d ≤ tip.length ∨ (d = tip.length ∧ lo = 0)) →
      Inv cfg (process cfg w (disconnectNtfns cfg.C tip d)) (tip.drop d) lo := by
  induction d with
  | zero =>
    intro w tip hI _ _
    cases tip <;> exact hI
  | succ d ih =>
    intro w tip hI hd hv
    cases tip with
    | nil => simp at hd
    | cons n rest =>
      simp only [List.length_cons] at hd hv
      simp only [disconnectNtfns, List.drop_succ_cons]
      rw [← List.singleton_append, process_append]
      have h1 : Inv cfg (handle cfg w (.disconnected (stampOf cfg.C (n :: rest)))) rest lo :=
        disconnect_tip hW hI (by omega)
      exact ih h1 (by omega) (by omega)

/-- The connect phase of a reorganisation. -/
theorem connectBranch_inv {cfg : Cfg} (hW : 1 ≤ cfg.W) (m : TxMode) (br : List Nat) :
    ∀ {w : Wallet} {base : BlockId} {lo : Nat}, Inv cfg w base lo →
      Inv cfg (process cfg w (connectBranch cfg.C m base br)) (br.reverse ++ base)
        (loAfterN cfg.W lo base.length br.length) := by
  induction br with
  | nil => intro w base lo hI; exact hI
  | cons n br ih =>
    intro w base lo hI
    simp only [connectBranch, process_append, List.length_cons, loAfterN, List.reverse_cons, List.append_assoc,
      List.singleton_append]
    exact ih (connectNtfns_inv hW m n hI)

theorem step_preserves_inv (cfg : Cfg) (hW : 1 ≤ cfg.W) {w : Wallet} {tip : BlockId}
    {lo : Nat} (st : Step) (hI : Inv cfg w tip lo) (hv : ValidStep tip lo st) :
    Inv cfg (process cfg w (ntfnsOf cfg.C tip st)) (stepTip tip st) (stepLo cfg.W tip lo st) := by
  cases st with
  | extend n m => exact connectNtfns_inv hW m n hI
  | reorg d br m =>
    simp only [ntfnsOf, stepTip, stepLo, process_append]
    have h1 := disconnectNtfns_inv hW d hI hv.1 hv.2
    have h2 := connectBranch_inv hW m br h1
    rw [List.length_drop] at h2
    exact h2
  | staleDisconnect b =>
    simp only [ntfnsOf, stepTip, stepLo]
    have : process cfg w [Ntfn.disconnected (stampOf cfg.C b)] = w := stale_disconnect_noop hI b hv
    rw [this]; exact hI
  | dupConnect =>
    simp only [ntfnsOf, stepTip, stepLo, loAfter_tip hI.sync]
    exact dup_connect hW hI
  | dupTxs h =>
    simp only [ntfnsOf, stepTip, stepLo]
    exact relevantTxs_inv _ (onChain_ancestorAt tip h hv) _ hI
  | mempoolTx t =>
    simp only [ntfnsOf, stepTip, stepLo]
    exact mempoolTx_inv t hI

/-! ### (4) Runs -/

theorem run_preserves_inv (cfg : Cfg) (hW : 1 ≤ cfg.W) {w : Wallet} {tip : BlockId}
    {lo : Nat} {steps : List Step} {tip' : BlockId} {lo' : Nat} (hI : Inv cfg w tip lo)
    (hr : ValidRun cfg.W tip lo steps tip' lo') :
    Inv cfg (evolve cfg (w, tip) steps).1 tip' lo' ∧ (evolve cfg (w, tip) steps).2 = tip' := by
  induction hr generalizing w with
  | nil tip lo => exact ⟨hI, rfl⟩
  | cons hv _ ih =>
    simp only [evolve]
    exact ih (step_preserves_inv cfg hW _ hI hv)

theorem tip_follows_backend (cfg : Cfg) (hW : 1 ≤ cfg.W) {w : Wallet} {tip : BlockId}
    {lo : Nat} {steps : List Step} {tip' : BlockId} {lo' : Nat} (hI : Inv cfg w tip lo)
    (hr : ValidRun cfg.W tip lo steps tip' lo') :
    (evolve cfg (w, tip) steps).1.syncedTo = stampOf cfg.C tip' :=
  (run_preserves_inv cfg hW hI hr).1.tipEq

theorem window_hashes_match (cfg : Cfg) (hW : 1 ≤ cfg.W) {w : Wallet} {tip : BlockId}
    {lo : Nat} {steps : List Step} {tip' : BlockId} {lo' : Nat} (hI : Inv cfg w tip lo)
    (hr : ValidRun cfg.W tip lo steps tip' lo') :
    ∀ h, h ≤ tip'.length →
      (∀ x, (evolve cfg (w, tip) steps).1.hashes h = some x → x = some (ancestorAt tip' h)) ∧
      (lo' ≤ h → (evolve cfg (w, tip) steps).1.hashes h = some (some (ancestorAt tip' h))) := by
  intro h hh
  have := (run_preserves_inv cfg hW hI hr).1
  exact ⟨fun x hx => this.correct h x hh hx, fun hl => this.remembered h hl hh⟩

theorem no_tx_off_chain (cfg : Cfg) (hW : 1 ≤ cfg.W) {w : Wallet} {tip : BlockId}
    {lo : Nat} {steps : List Step} {tip' : BlockId} {lo' : Nat} (hI : Inv cfg w tip lo)
    (hr : ValidRun cfg.W tip lo steps tip' lo') :
    ∀ r ∈ (evolve cfg (w, tip) steps).1.mined, r.height ≤ tip'.length ∧ r.hash = some (ancestorAt tip' r.height) :=
  (run_preserves_inv cfg hW hI hr).1.mined

theorem inv_genesis (cfg : Cfg) (hW : 1 ≤ cfg.W) : Inv cfg (genesisWallet cfg.C) [] 0 := by
  refine ⟨rfl, rfl, rfl, Nat.le_refl _, Or.inl (by simp only [List.length_nil]; omega), ?_, ?_, ?_⟩
  · intro h _ hh
    have : h = 0 := by simpa using hh
    subst this; rfl
  · intro h x hh hx
    have : h = 0 := by simpa using hh
    subst this
    simp only [genesisWallet, upd, if_true] at hx
    cases hx; rfl
  · intro r hr; simp [genesisWallet] at hr

/-! #### The lower end of the remembered window -/

theorem loAfter_le (W lo H : Nat) : loAfter W lo H ≤ max lo (H + 1 - W) := by
  unfold loAfter; split <;> omega

theorem loAfterN_ge (W : Nat) (n : Nat) : ∀ lo T, lo ≤ loAfterN W lo T n := by
  induction n with
  | zero => intro lo T; exact Nat.le_refl _
  | succ n ih => intro lo T; exact Nat.le_trans (loAfter_ge W lo (T + 1)) (ih _ _)

theorem loAfterN_le (W : Nat) (n : Nat) : ∀ lo T, loAfterN W lo T n ≤ max lo (T + n + 1 - W) := by
  induction n with
  | zero => intro lo T; simp only [loAfterN]; omega
  | succ n ih =>
    intro lo T
    simp only [loAfterN]
    have h1 := ih (loAfter W lo (T + 1)) (T + 1)
    have h2 := loAfter_le W lo (T + 1)
    omega

/-- The greatest height the backend's tip has while the step is carried out. -/
def stepMax (tip : BlockId) : Step → Nat
  | .extend _ _ => tip.length + 1
  | .reorg d br _ => max tip.length (tip.length - d + br.length)
  | _ => tip.length

/-- The greatest height the backend's tip ever has during the evolution (including inside reorganisations). -/
def maxTip (tip : BlockId) : List Step → Nat
  | [] => tip.length
  | st :: rest => max (stepMax tip st) (maxTip (stepTip tip st) rest)

theorem stepLo_ge (W : Nat) (tip : BlockId) (lo : Nat) (st : Step) : lo ≤ stepLo W tip lo st := by
  cases st <;> simp only [stepLo]
  · exact loAfter_ge _ _ _
  · exact loAfterN_ge _ _ _ _
  all_goals first | exact Nat.le_refl _ | exact loAfter_ge _ _ _

theorem stepLo_le (W : Nat) (tip : BlockId) (lo : Nat) (st : Step) :
    stepLo W tip lo st ≤ max lo (stepMax tip st + 1 - W) := by
  cases st <;> simp only [stepLo, stepMax]
  · exact loAfter_le _ _ _
  · have := loAfterN_le W ‹List Nat›.length lo (tip.length - ‹Nat›)
    omega
  · omega
  · exact loAfter_le _ _ _
  · omega
  · omega

/-- The ghost lower end never decreases ... -/
theorem lo_mono {W : Nat} {tip : BlockId} {lo : Nat} {steps : List Step} {tip' : BlockId} {lo' : Nat}
    (hr : ValidRun W tip lo steps tip' lo') : lo ≤ lo' := by
  induction hr with
  | nil => exact Nat.le_refl _
  | cons _ _ ih => exact Nat.le_trans (stepLo_ge _ _ _ _) ih

/-- ... and rises only as far as pruning forces it: every height in `(maxTip - W, tip'] ∩ [lo, ∞)` is remembered. -/
theorem lo_bound {W : Nat} {tip : BlockId} {lo : Nat} {steps : List Step} {tip' : BlockId} {lo' : Nat}
    (hr : ValidRun W tip lo steps tip' lo') : lo' ≤ max lo (maxTip tip steps + 1 - W) := by
  induction hr with
  | nil => omega
  | cons _ _ ih =>
    rename_i tip lo st rest tip' lo' _ _
    have := stepLo_le W tip lo st
    simp only [maxTip]
    omega

/-- Every height of the final best chain that is at least the initial `lo` and within `W` of the greatest height the
    backend ever had is remembered, with the right hash. -/
theorem remembered_range (cfg : Cfg) (hW : 1 ≤ cfg.W) {w : Wallet} {tip : BlockId}
    {lo : Nat} {steps : List Step} {tip' : BlockId} {lo' : Nat} (hI : Inv cfg w tip lo)
    (hr : ValidRun cfg.W tip lo steps tip' lo') :
    ∀ h, lo ≤ h → maxTip tip steps + 1 - cfg.W ≤ h → h ≤ tip'.length →
      (evolve cfg (w, tip) steps).1.hashes h = some (some (ancestorAt tip' h)) := by
  intro h h1 h2 h3
  have := lo_bound hr
  exact (run_preserves_inv cfg hW hI hr).1.remembered h (by omega) h3

/-! ### (5) Concrete evolutions (non-vacuity) -/

def C0 : Content := ⟨fun b => b.length, fun _ => []⟩
def cfg0 : Cfg := ⟨10000, C0⟩
def C1 : Content := ⟨fun b => b.length, fun b => if b = [1] then [⟨7, false⟩] else []⟩
def cfg1 : Cfg := ⟨10000, C1⟩
def steps0 : List Step := [.extend 1 .after, .extend 2 .after, .reorg 1 [3] .after]
def steps1 : List Step := [.extend 1 .after, .extend 2 .after, .reorg 2 [3, 4] .after]

theorem steps0_valid : ValidRun 10000 [] 0 steps0 [3, 1] 0 :=
  .cons trivial (.cons trivial (.cons ⟨by decide, by decide⟩ (.nil _ _)))

theorem steps1_valid : ValidRun 10000 [] 0 steps1 [4, 3] 0 :=
  .cons trivial (.cons trivial (.cons ⟨by decide, by decide⟩ (.nil _ _)))

/-- depth-1 reorg: the fork block's hash is still remembered -/
example : (evolve cfg0 (genesisWallet C0, []) steps0).1.hashes 1 = some (some [1]) := by decide

/-- depth-2 reorg over a block holding a wallet transaction: it goes back to unmined -/
example : let r := evolve cfg1 (genesisWallet C1, []) steps1
    r.1.mined = [] ∧ r.1.unmined = [⟨7, false⟩] := by decide

example : Inv cfg0 (evolve cfg0 (genesisWallet C0, []) steps0).1 [3, 1] 0 :=
  (run_preserves_inv cfg0 (by decide) (inv_genesis _ (by decide)) steps0_valid).1

end SyncTip
