import BtcwVerif.Lemmas.AddrInvWO
/-! The scope lists (memory and database) never hold two entries for the same scope. -/
set_option linter.unusedSectionVars false
set_option linter.unusedVariables false
set_option linter.unusedSimpArgs false
namespace AddrDerive
open AddrSym

variable {K P : Type} [DecidableEq K] [DecidableEq P]

section
variable {α β : Type} [DecidableEq α]

theorem keys_aset (l : List (α × β)) (a : α) (b : β) :
    (aset l a b).map (·.1) = if a ∈ l.map (·.1) then l.map (·.1) else l.map (·.1) ++ [a] := by
  induction l with
  | nil => simp [aset]
  | cons h t ih =>
    obtain ⟨k, v⟩ := h
    by_cases hk : k = a
    · subst hk; simp [aset]
    · have hk' : ¬ a = k := fun e => hk e.symm
      simp only [aset, hk, if_false, List.map_cons, ih, List.mem_cons, hk', false_or]
      split <;> simp

theorem nodup_keys_aset (l : List (α × β)) (a : α) (b : β) (h : (l.map (·.1)).Nodup) : ((aset l a b).map (·.1)).Nodup := by
  rw [keys_aset]
  split
  · exact h
  · rename_i hn
    rw [List.nodup_append]
    refine ⟨h, by simp, ?_⟩
    intro x hx y hy
    simp at hy; subst hy
    intro e; subst e; exact hn hx

theorem alookup_of_mem_nodup (l : List (α × β)) (h : (l.map (·.1)).Nodup) (a : α) (b : β) (hm : (a, b) ∈ l) : alookup l a = some b := by
  induction l with
  | nil => cases hm
  | cons hd t ih =>
    obtain ⟨k, v⟩ := hd
    simp only [List.map_cons, List.nodup_cons] at h
    rcases List.mem_cons.mp hm with e | hm
    · cases e; simp [alookup]
    · have : k ≠ a := by
        intro e; subst e
        exact h.1 (List.mem_map.mpr ⟨(k, b), hm, rfl⟩)
      simp [alookup, this, ih h.2 hm]
end

structure Nodups (s : State K P) : Prop where
  m : (s.mem.scopes.map (·.1)).Nodup
  d : (s.disk.scopes.map (·.1)).Nodup

theorem Nodups.noShadow {s : State K P} (h : Nodups s) : NoShadow s :=
  fun sc sm hm => alookup_of_mem_nodup _ h.m sc sm hm

theorem Nodups.putSM {s : State K P} (h : Nodups s) (sc : Scope) (sm : ScopeMem K P) : Nodups (putSM s sc sm) :=
  ⟨nodup_keys_aset _ _ _ h.m, h.d⟩
theorem Nodups.putSD {s : State K P} (h : Nodups s) (sc : Scope) (sd : ScopeDisk K P) : Nodups (putSD s sc sd) :=
  ⟨h.m, nodup_keys_aset _ _ _ h.d⟩
theorem Nodups.alloc {s : State K P} (h : Nodups s) (o : Obj K P) : Nodups (alloc s o).1 := ⟨h.m, h.d⟩
theorem Nodups.bindH {s : State K P} (h : Nodups s) (a b : Nat) : Nodups (bindH s a b) := ⟨h.m, h.d⟩
theorem Nodups.same {s s' : State K P} (h : Nodups s) (hm : s'.mem.scopes.map (·.1) = s.mem.scopes.map (·.1))
    (hd : s'.disk.scopes.map (·.1) = s.disk.scopes.map (·.1)) : Nodups s' := ⟨by rw [hm]; exact h.m, by rw [hd]; exact h.d⟩

theorem Nodups.poison {s : State K P} (h : Nodups s) : Nodups { s with poisoned := true } := ⟨h.m, h.d⟩

theorem loadAcct_nodups {hd : HD K P} {s s1 : State K P} {sc : Scope} {acct : Nat} {ai : AcctInfo K P} (h : Nodups s)
    (hl : loadAcct hd s sc acct = .ok (s1, ai)) : Nodups s1 := by
  unfold loadAcct at hl
  split at hl
  · split at hl
    · cases hl; exact h
    · split at hl
      · cases hl
      · split at hl
        · cases hl
        · dsimp only at hl
          split at hl
          · cases hl
          · split at hl
            · cases hl
            · cases hl; exact h.putSM _ _
  · cases hl

theorem issueAll_nodups (sc : Scope) (toDou : Bool) (objs : List (KeyObj K P)) :
    ∀ (s : State K P) (rows : List Row) (idxs : List Nat), Nodups s → Nodups (issueAll sc toDou objs s rows idxs).1 := by
  induction objs with
  | nil => intro s rows idxs h; exact h
  | cons o rest ih =>
    intro s rows idxs h
    unfold issueAll
    split
    · exact ih _ _ _ (((h.alloc _).putSD _ _).putSM _ _)
    · exact h

theorem commitIssue_nodups {s : State K P} (h : Nodups s) (sc : Scope) (acct : Nat) (internal toDou : Bool)
    (objs : List (KeyObj K P)) (nn : Nat) : Nodups (commitIssue s sc acct internal toDou objs nn).1 := by
  have h1 := issueAll_nodups sc toDou objs s [] [] h
  unfold commitIssue
  rcases hi : issueAll sc toDou objs s [] [] with ⟨s1, rows, idxs⟩
  rw [hi] at h1
  simp only at h1 ⊢
  split
  · split
    · exact h1.putSM _ _
    · exact h1
  · exact h1

theorem bindAll_nodups : ∀ (l : List Nat) (hb : Nat) (s : State K P), Nodups s → Nodups (bindAll l hb s) := by
  intro l
  induction l with
  | nil => intro hb s h; exact h
  | cons i t ih => intro hb s h; exact ih _ _ (h.bindH _ _)

theorem keys_map_snd {α β γ : Type} (l : List (α × β)) (f : α × β → γ) : (l.map fun e => (e.1, f e)).map (·.1) = l.map (·.1) := by
  simp [List.map_map, Function.comp_def]

theorem doLock_nodups {s : State K P} (h : Nodups s) : Nodups (doLock s) :=
  h.same (by simp [doLock, List.map_map, Function.comp_def]) rfl

theorem unlockScopes_keys {hd : HD K P} : ∀ (scs : List (Scope × ScopeMem K P)) (heap : List (Obj K P))
    (scs' : List (Scope × ScopeMem K P)) (heap' : List (Obj K P)), unlockScopes hd scs heap = some (scs', heap') →
    scs'.map (·.1) = scs.map (·.1) := by
  intro scs
  induction scs with
  | nil => intro heap scs' heap' h; simp [unlockScopes] at h; rw [h.1]
  | cons p t ih =>
    intro heap scs' heap' h
    obtain ⟨sc, sm⟩ := p
    unfold unlockScopes at h
    dsimp only at h
    split at h
    · cases h
    · split at h
      · cases h
      · rename_i t' h2 ht
        cases h
        simp [ih _ _ _ ht]

theorem mkScopes_keys (hd : HD K P) (root : K) : ∀ (l : List (Scope × Schema)) (r : List (Scope × ScopeDisk K P)),
    mkScopes hd root l = some r → r.map (·.1) = l.map (·.1) := by
  intro l
  induction l with
  | nil => intro r h; simp [mkScopes] at h; subst h; rfl
  | cons p t ih =>
    intro r h
    obtain ⟨sc0, sch⟩ := p
    unfold mkScopes at h
    split at h
    · rename_i sd0 r0 hmk hr0
      cases h
      simp [ih r0 hr0]
    · cases h

theorem emptyState_nodups : Nodups (emptyState : State K P) := ⟨by simp [emptyState], by simp [emptyState]⟩

theorem step_nodups (hd : HD K P) (s : State K P) (op : Op K P) (h : Nodups s) : Nodups (step Cfg.fixed hd s op).1 := by
  have hcreate : ∀ root, Nodups (opCreate hd root).1 := by
    intro root
    unfold opCreate
    split
    · exact emptyState_nodups
    · rename_i scs hscs
      have hk := mkScopes_keys hd root _ _ hscs
      refine ⟨?_, ?_⟩
      · simp only [freshMem, List.map_map, Function.comp_def]
        show (scs.map (·.1)).Nodup
        rw [hk]; decide
      · show (scs.map (·.1)).Nodup
        rw [hk]; decide
  unfold step
  split
  · exact hcreate _
  · split
    · exact h
    · split
      · exact h
      · split
        · exact hcreate _
        · -- unlock
          unfold opUnlock
          repeat' split
          all_goals first
            | exact h
            | exact doLock_nodups h
            | (rename_i hu; exact h.same (unlockScopes_keys _ _ _ _ hu) rfl)
        · unfold opLock
          repeat' split
          all_goals first
            | exact h
            | exact doLock_nodups h
        · unfold opChangePass
          repeat' split
          all_goals first
            | exact h
            | exact h.same rfl rfl
        · unfold opNewScope
          repeat' split
          all_goals first
            | exact h
            | exact (h.putSD _ _).putSM _ _
        · unfold opNewAccount
          repeat' (first | split | dsimp only)
          all_goals first
            | exact h
            | exact h.putSD _ _
        · unfold opNewAccountWO
          repeat' (first | split | dsimp only)
          all_goals first
            | exact h
            | exact (h.putSD _ _).same rfl rfl
        · unfold opNext
          repeat' (first | split | dsimp only)
          all_goals first
            | exact h
            | exact loadAcct_nodups h ‹_›
            | exact bindAll_nodups _ _ _ (commitIssue_nodups (loadAcct_nodups h ‹_›) _ _ _ _ _ _)
        · unfold opExtend
          repeat' (first | split | dsimp only)
          all_goals first
            | exact h
            | exact loadAcct_nodups h ‹_›
            | exact (loadAcct_nodups h ‹_›).poison
            | exact commitIssue_nodups (loadAcct_nodups h ‹_›) _ _ _ _ _ _
        · unfold opLookup
          repeat' (first | split | dsimp only)
          all_goals first
            | exact h
            | exact h.bindH _ _
            | exact loadAcct_nodups h ‹_›
            | exact (((loadAcct_nodups h ‹_›).alloc _).putSM _ _).bindH _ _
            | exact ((h.alloc _).putSM _ _).bindH _ _
        · unfold opMarkUsed
          repeat' (first | split | dsimp only)
          all_goals first
            | exact h
            | exact (h.putSD _ _).putSM _ _
        · unfold opDerive
          repeat' (first | split | dsimp only)
          all_goals first
            | exact h
            | exact loadAcct_nodups h ‹_›
            | exact (((loadAcct_nodups h ‹_›).alloc _).putSM _ _).bindH _ _
        · unfold opImportPriv importKey
          repeat' (first | split | dsimp only)
          all_goals first
            | exact h
            | exact (((h.putSD _ _).alloc _).putSM _ _).bindH _ _
        · unfold opImportPub importKey
          repeat' (first | split | dsimp only)
          all_goals first
            | exact h
            | exact (((h.putSD _ _).alloc _).putSM _ _).bindH _ _
        · unfold opImportScript
          repeat' (first | split | dsimp only)
          all_goals first
            | exact h
            | exact (((h.putSD _ _).alloc _).putSM _ _).bindH _ _
        · unfold opPrivKey
          repeat' (first | split | dsimp only)
          all_goals exact h
        · unfold opScript
          repeat' (first | split | dsimp only)
          all_goals exact h
        · unfold opInfo
          repeat' (first | split | dsimp only)
          all_goals exact h
        · unfold opProps
          repeat' (first | split | dsimp only)
          all_goals first
            | exact h
            | exact loadAcct_nodups h ‹_›
        · exact ⟨by simp only [opRestart, freshMem, List.map_map, Function.comp_def]; exact h.d, h.d⟩
        · unfold opConvertWO
          split
          · exact h
          · exact ⟨by simp only [doLock, List.map_map, Function.comp_def]; exact h.m,
              by simp only [List.map_map, Function.comp_def]; exact h.d⟩
        · unfold opDeriveCache
          repeat' (first | split | dsimp only)
          all_goals exact h
        · unfold opRename renameCached
          repeat' (first | split | dsimp only)
          all_goals first
            | exact h
            | exact h.putSD _ _
            | exact (h.putSD _ _).putSM _ _

end AddrDerive
