import BtcwVerif.Lemmas.InvPres
/-! `rollback` and the block records: blocks at or above the height are deleted, blocks below are kept. -/
namespace TxStore
open KMap

theorem rbCoinbaseOut_blocks (rec : Tx) (blk : Block) (r : RB) (io : Nat × Int) :
    (rbCoinbaseOut rec blk r io).s.blocks = r.s.blocks := by
  obtain ⟨i, v⟩ := io
  unfold rbCoinbaseOut
  dsimp only
  split
  · rfl
  · split <;> rfl

theorem rbInput_blocks (rec : Tx) (blk : Block) (r : RB) (ii : Nat × OutPoint) :
    (rbInput rec blk r ii).s.blocks = r.s.blocks := by
  obtain ⟨i, inp⟩ := ii
  unfold rbInput
  dsimp only
  split
  · rfl
  · unfold unspendRawCredit
    split <;> (dsimp only; split <;> rfl)

theorem rbOutput_blocks (rec : Tx) (blk : Block) (r : RB) (io : Nat × Int) :
    (rbOutput rec blk r io).s.blocks = r.s.blocks := by
  obtain ⟨i, v⟩ := io
  unfold rbOutput
  dsimp only
  split
  · rfl
  · split <;> rfl

theorem foldl_blocks {α : Type} (f : RB → α → RB) (hf : ∀ r a, (f r a).s.blocks = r.s.blocks) :
    ∀ (l : List α) (r : RB), (l.foldl f r).s.blocks = r.s.blocks := by
  intro l
  induction l with
  | nil => intro r; rfl
  | cons a t ih => intro r; rw [List.foldl_cons, ih, hf]

theorem rbTx_blocks {blk : Block} {r r' : RB} {tx : Nat} (h : rbTx blk r tx = .ok r') : r'.s.blocks = r.s.blocks := by
  unfold rbTx at h
  split at h
  · cases h
  · rename_i rec _
    dsimp only at h
    split at h
    · simp only [pure_eq, Except.ok.injEq] at h
      subst h
      rw [foldl_blocks _ (rbCoinbaseOut_blocks rec blk)]
    · simp only [pure_eq, Except.ok.injEq] at h
      subst h
      rw [foldl_blocks _ (rbOutput_blocks rec blk), foldl_blocks _ (rbInput_blocks rec blk)]

theorem foldlM_rb_blocks {α : Type} (f : RB → α → M RB) (hf : ∀ r a r', f r a = .ok r' → r'.s.blocks = r.s.blocks) :
    ∀ (l : List α) (r r' : RB), l.foldlM f r = .ok r' → r'.s.blocks = r.s.blocks := by
  intro l
  induction l with
  | nil => intro r r' h; simp at h; subst h; rfl
  | cons a t ih =>
    intro r r' h
    rw [List.foldlM_cons] at h
    cases hfa : f r a with
    | error e => rw [hfa] at h; cases h
    | ok r1 => rw [hfa, bind_ok] at h; rw [ih r1 r' h, hf r a r1 hfa]

theorem foldl_eraseBlocks_find (l : List (Nat × BlockRec)) (s : Store) (k : Nat) :
    (l.foldl (fun s p => { s with blocks := s.blocks.erase p.1 }) s).blocks.find? k =
      if k ∈ l.map (·.1) then none else s.blocks.find? k := by
  induction l generalizing s with
  | nil => simp
  | cons p t ih =>
    simp only [List.foldl_cons, List.map_cons, List.mem_cons]
    rw [ih]
    by_cases h1 : k ∈ t.map (·.1)
    · simp [h1]
    · by_cases h2 : k = p.1
      · subst h2; simp
      · simp [h1, h2, find?_erase_ne _ (fun h => h2 h.symm)]

/-- the block bucket after a successful `rollback` -/
theorem rollback_blocks {s s' : Store} {height : Int} (h : rollback s height = .ok s') (k : Nat) :
    s'.blocks.find? k =
      if k ∈ (s.blocks.reverse.takeWhile fun p => !decide ((p.1 : Int) < height)).map (·.1) then none
      else s.blocks.find? k := by
  unfold rollback at h
  simp only [bind, Except.bind] at h
  split at h
  · cases h
  · rename_i r hr
    split at h
    · cases h
    · rename_i s2 hs2
      simp only [pure, Except.pure, Except.ok.injEq] at h
      subst h
      have hb : r.s.blocks = s.blocks := by
        refine foldlM_rb_blocks _ ?_ _ _ r hr
        intro a p a' hstep
        obtain ⟨hh, br⟩ := p
        exact foldlM_rb_blocks _ (fun _ _ _ h => rbTx_blocks h) _ _ _ hstep
      have hs2b : s2.blocks = (List.foldl (fun s p => { s with blocks := s.blocks.erase p.1 }) r.s
          (s.blocks.reverse.takeWhile fun p => !decide ((p.1 : Int) < height))).blocks := by
        have : SameMined (List.foldl (fun s p => { s with blocks := s.blocks.erase p.1 }) r.s
            (s.blocks.reverse.takeWhile fun p => !decide ((p.1 : Int) < height))) s2 := by
          refine foldlM_preserves (SameMined _) _ ?_ _ _ s2 (SameMined.refl _) hs2
          intro a op a' ha hstep
          refine foldlM_preserves (SameMined _) _ ?_ _ _ a' ha hstep
          intro b hsh b' hb' hst
          split at hst
          · simp only [pure_eq, Except.ok.injEq] at hst; subst hst; exact hb'
          · exact hb'.trans (sameMined_removeConflict _ _ _ _ hst)
        exact this.1
      show s2.blocks.find? k = _
      rw [hs2b, foldl_eraseBlocks_find, hb]

end TxStore
