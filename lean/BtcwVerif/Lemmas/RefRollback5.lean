import BtcwVerif.Lemmas.RefRollback4
/-!
# Refinement, event *disconnected*: the store after the main loop and the block deletion refines the detached ledger
-/
namespace TxStore
open KMap Ledger

/-- the store `rollback` has built when the coinbase clean-up starts, with the counter it will get at the end -/
def rbMid (s : Store) (h : Int) (r : RB) : Store :=
  { (List.foldl (fun s p => { s with blocks := s.blocks.erase p.1 }) r.s
      (s.blocks.reverse.takeWhile fun p => !decide ((p.1 : Int) < h))) with minedBalance := r.bal }

theorem rbMid_fields (s : Store) (h : Int) (r : RB) :
    rbMid s h r = { r.s with
      blocks := eraseBlocks r.s.blocks (s.blocks.reverse.takeWhile fun p => !decide ((p.1 : Int) < h)),
      minedBalance := r.bal } := by
  unfold rbMid
  rw [foldl_eraseBlocks_store]

/-- `WF2` of that store (the first half of the argument of `wf2_rollback`) -/
theorem wf2_rbMid {s : Store} {h : Int} {r : RB} (hw : WF2 s)
    (hr : (s.blocks.reverse.takeWhile fun p => !decide ((p.1 : Int) < h)).foldlM
      (fun r (p : Nat × BlockRec) => p.2.txs.foldlM (rbTx ⟨p.1, p.2.hash⟩) r) (⟨s, s.minedBalance, []⟩ : RB) = .ok r) :
    WF2 (rbMid s h r) := by
  have hj0 : RJ s.blocks (⟨s, s.minedBalance, []⟩ : RB).s.txrecs ⟨0, 0⟩ [] ⟨s, s.minedBalance, []⟩ :=
    ⟨hw.wf, hw.outs, fun dk d hf => by
      obtain ⟨a, b⟩ := hw.deb dk d hf
      exact ⟨a, Or.inl b⟩⟩
  have hpre := @List.takeWhile_append_dropWhile _ (fun p : Nat × BlockRec => !decide ((p.1 : Int) < h))
    s.blocks.reverse
  obtain ⟨blk1, hfin⟩ := rj_blocks _ s.blocks ⟨0, 0⟩ ⟨s, s.minedBalance, []⟩ r _ hj0 hpre.symm hr
  have hb : r.s.blocks = s.blocks := by
    refine foldlM_rb_blocks _ ?_ _ _ r hr
    intro a p a' hstep
    exact foldlM_rb_blocks _ (fun _ _ _ h => rbTx_blocks h) _ _ _ hstep
  rw [rbMid_fields, hb]
  refine ⟨hfin.wf, ?_, hfin.outs⟩
  intro dk d hf
  obtain ⟨a, b⟩ := hfin.deb dk d hf
  refine ⟨a, ?_⟩
  rcases b with b | ⟨_, _, b3⟩
  · exact b
  · cases b3

theorem eraseBlocks_eq_filter (B : KMap Nat BlockRec) : ∀ (l : List (Nat × BlockRec)),
    eraseBlocks B l = B.filter (fun q => !(l.map (·.1)).contains q.1) := by
  intro l
  induction l generalizing B with
  | nil =>
    show B = _
    symm
    rw [List.filter_eq_self]
    intro a _; rfl
  | cons p t ih =>
    unfold eraseBlocks at ih ⊢
    rw [List.foldl_cons, ih]
    unfold KMap.erase
    rw [List.filter_filter]
    apply List.filter_congr
    intro q _
    simp only [List.map_cons, List.contains_cons]
    by_cases e : q.1 = p.1
    · simp [e]
    · have : (q.1 == p.1) = false := by simpa using e
      simp [e, this]

/-- the block bucket after the deletion is the kept part of the chain -/
theorem blocks_after_cut {s : Store} {L : Ledger} (hg : Good s L) (h : Int) :
    eraseBlocks s.blocks (s.blocks.reverse.takeWhile fun p => !decide ((p.1 : Int) < h)) =
      (detach L h).chain.map blockEntry := by
  rw [rollback_blocks_eq hg, eraseBlocks_eq_filter, hg.ref.blocks, List.filter_map]
  show _ = (L.chain.filter fun b => decide ((b.bm.block.height : Int) < h)).map blockEntry
  congr 1
  apply List.filter_congr
  intro lb hlb
  simp only [List.map_map]
  have hfun : ((fun x : Nat × BlockRec => x.1) ∘ blockEntry) = (fun x => (blockEntry x).1) := rfl
  rw [hfun]
  have hiff : ((cutBlocks L h).map (fun x => (blockEntry x).1)).contains (blockEntry lb).1 = true ↔
      ¬ ((lb.bm.block.height : Int) < h) := by
    rw [List.contains_iff_mem, List.mem_map]
    unfold cutBlocks
    constructor
    · rintro ⟨lb', hlb', e⟩
      rw [List.mem_reverse, List.mem_filter] at hlb'
      have e' : lb'.bm.block.height = lb.bm.block.height := e
      have := hlb'.2
      simp only [Bool.not_eq_true', decide_eq_false_iff_not] at this
      rw [← e']; exact this
    · intro hh
      exact ⟨lb, by rw [List.mem_reverse, List.mem_filter]; exact ⟨hlb, by simpa using hh⟩, rfl⟩
  by_cases hh : (lb.bm.block.height : Int) < h
  · have : ((cutBlocks L h).map (fun x => (blockEntry x).1)).contains (blockEntry lb).1 = false := by
      cases hc : ((cutBlocks L h).map (fun x => (blockEntry x).1)).contains (blockEntry lb).1 with
      | false => rfl
      | true => exact absurd hh (hiff.mp hc)
    show (!((cutBlocks L h).map (fun x => (blockEntry x).1)).contains (blockEntry lb).1) = _
    rw [this]; simp only [Bool.not_false]; exact (decide_eq_true hh).symm
  · have := hiff.mpr hh
    show (!((cutBlocks L h).map (fun x => (blockEntry x).1)).contains (blockEntry lb).1) = _
    rw [this]; simp only [Bool.not_true]; exact (decide_eq_false hh).symm

/-- the credits of the kept transactions are not those of a detached coinbase -/
theorem not_cutCb_of_keep {L : Ledger} (hl : LWF L) {h : Int} {x : Tx} {b : BlockMeta}
    (hx : (x, b) ∈ chainTxs (detach L h)) : isCutCb L h x.hash = false := by
  cases hc : isCutCb L h x.hash with
  | false => rfl
  | true =>
    obtain ⟨q, hq, _, e⟩ := isCutCb_iff.mp hc
    obtain ⟨hq1, hq2⟩ := mem_cutPairs.mp hq
    obtain ⟨hx1, hx2⟩ := mem_chainTxs_detach.mp hx
    have := hl.mined_unique hq1 hx1 e
    rw [this.2] at hq2
    exact absurd hx2 hq2

theorem not_cutCb_of_noncb {L : Ledger} (hl : LWF L) {h : Int} {u : Tx} (hu : ∃ ob, (u, ob) ∈ known L)
    (hcb : u.isCoinBase = false) : isCutCb L h u.hash = false := by
  cases hc : isCutCb L h u.hash with
  | false => rfl
  | true =>
    obtain ⟨q, hq, hqcb, e⟩ := isCutCb_iff.mp hc
    obtain ⟨ob, hob⟩ := hu
    have := hl.known_unique (known_of_mined (mem_cutPairs.mp hq).1) hob e
    have e2 : q.1 = u := congrArg Prod.fst this
    rw [e2, hcb] at hqcb; cases hqcb

/-- **the store after the main loop and the block deletion refines the detached ledger** -/
theorem refines_rbMid {s : Store} {L : Ledger} (hg : Good s L) (h : Int) {r : RB}
    (hI : RBInv s L (cutPairs L h) r) : Refines (rbMid s h r) (detach L h) := by
  have hr := hg.ref
  have hl := hg.lwf
  have hld := lwf_detach hl h
  rw [rbMid_fields]
  -- the credits bucket in ledger terms
  have hcred : ∀ k v, r.s.credits.find? k = some v ↔ (k, v) ∈ expCredits (detach L h) := by
    intro k v
    rw [hI.credits, mem_expCredits]
    constructor
    · rintro ⟨p, hp, e1, e2, e3, e4, e5⟩
      have hp' := (remaining_cut_iff p).mp hp
      have h5 : SpenderIs (fun q => q ∈ chainTxs (detach L h)) k.outPoint v := by
        rcases e5 with ⟨a, b, c⟩ | ⟨a, q, j, hq, b⟩
        · exact Or.inl ⟨a, b, fun q hq => c q ((remaining_cut_iff q).mpr hq)⟩
        · exact Or.inr ⟨a, q, j, (remaining_cut_iff q).mp hq, b⟩
      obtain ⟨h6, h7⟩ := (spenderIs_of_ledger hld.noDouble k.outPoint v).mp h5
      refine ⟨p.1, p.2, hp', e1, e2, e3, ?_, h6, h7⟩
      rw [lookup_detach, show k.outPoint.hash = k.hash from rfl, e1, not_cutCb_of_keep hl hp']
      exact e4
    · rintro ⟨x, b, hxb, e1, e2, e3, e4, e5, e6⟩
      rw [lookup_detach, show k.outPoint.hash = k.hash from rfl, e1, not_cutCb_of_keep hl hxb] at e4
      have h5 := (spenderIs_of_ledger hld.noDouble k.outPoint v).mpr ⟨e5, e6⟩
      refine ⟨(x, b), (remaining_cut_iff _).mpr hxb, e1, e2, e3, e4, ?_⟩
      rcases h5 with ⟨a, b', c⟩ | ⟨a, q, j, hq, b'⟩
      · exact Or.inl ⟨a, b', fun q hq => c q ((remaining_cut_iff q).mp hq)⟩
      · exact Or.inr ⟨a, q, j, (remaining_cut_iff q).mpr hq, b'⟩
  refine ⟨?_, ?_, ?_, hcred, ?_, ?_, ?_, hI.ne, ?_, hI.nodupTx, hI.nodupUnmined, hI.nodupDeb, ?_⟩
  · -- blocks
    show eraseBlocks r.s.blocks _ = _
    rw [hI.blocks]; exact blocks_after_cut hg h
  · -- txrecs
    intro k v
    show r.s.txrecs.find? k = some v ↔ _
    rw [hI.txrecs, mem_expTxrecs]
    by_cases e : ∃ p ∈ cutPairs L h, k = ⟨p.1.hash, p.2.block⟩
    · rw [if_pos e]
      simp only [reduceCtorEq, false_iff]
      rintro ⟨b, hm, rfl⟩
      obtain ⟨p, hp, e'⟩ := e
      injection e' with e1 e2
      obtain ⟨hm1, hm2⟩ := mem_chainTxs_detach.mp hm
      obtain ⟨hp1, hp2⟩ := mem_cutPairs.mp hp
      have := hl.mined_unique hm1 hp1 e1
      rw [← this.2] at hp2
      exact hp2 hm2
    · rw [if_neg e, hr.txrecs_iff]
      constructor
      · rintro ⟨b, hm, rfl⟩
        refine ⟨b, mem_chainTxs_detach.mpr ⟨hm, ?_⟩, rfl⟩
        by_cases hh : (b.block.height : Int) < h
        · exact hh
        · exact absurd ⟨(v, b), mem_cutPairs.mpr ⟨hm, hh⟩, rfl⟩ e
      · rintro ⟨b, hm, rfl⟩
        exact ⟨b, (mem_chainTxs_detach.mp hm).1, rfl⟩
  · -- unmined
    intro hh v
    show r.s.unmined.find? hh = some v ↔ _
    rw [hI.unmined, hr.unmined_iff, mem_expUnmined, mem_pool_detach]
    constructor
    · rintro (⟨h1, h2⟩ | ⟨p, hp, h1, h2, h3⟩)
      · exact ⟨Or.inl h1, h2⟩
      · subst h2; exact ⟨Or.inr ⟨h1, p.2, hp⟩, h3⟩
    · rintro ⟨h1 | ⟨h1, bm, h2⟩, h3⟩
      · exact Or.inl ⟨h1, h3⟩
      · exact Or.inr ⟨(v, bm), h2, h1, rfl, h3⟩
  · -- debits
    intro dk d
    show r.s.debits.find? dk = some d ↔ ∃ cv, r.s.credits.find? d.credKey = some cv ∧ _
    rw [hI.debits]
    constructor
    · intro hf
      by_cases e : ∃ p ∈ cutPairs L h, dk.hash = p.1.hash ∧ dk.block = p.2.block
      · rw [if_pos e] at hf; cases hf
      · rw [if_neg e] at hf
        obtain ⟨cv0, h1, h2, h3⟩ := (hr.debits dk d).mp hf
        obtain ⟨x, b, hxb, e1, e2, e3, e4, e5, e6⟩ := (hr.credits_iff _ _).mp h1
        -- the spender is a kept transaction, hence so is the parent
        obtain ⟨q, hq, j, hj, hdk⟩ := spenderOf_some_elim (by rw [← e5, h2] : spenderOf L d.credKey.outPoint = some dk)
        have hqkeep : (q.2.block.height : Int) < h := by
          by_cases hh : (q.2.block.height : Int) < h
          · exact hh
          · exact absurd ⟨q, mem_cutPairs.mpr ⟨hq, hh⟩, by rw [hdk], by rw [hdk]⟩ e
        have hparent := hl.parents q hq _ (List.mem_of_getElem? hj) (x, some b) (known_of_mined hxb) e1.symm
        obtain ⟨b', hb', hle⟩ := hparent
        cases hb'
        have hle' : (b.block.height : Int) ≤ q.2.block.height := by exact_mod_cast hle
        have hxkeep : (x, b) ∈ chainTxs (detach L h) := mem_chainTxs_detach.mpr ⟨hxb, by show (b.block.height : Int) < h; omega⟩
        refine ⟨cv0, ?_, h2, h3⟩
        rw [hI.credits]
        refine ⟨(x, b), (remaining_cut_iff _).mpr hxkeep, e1, e2, e3, e4, Or.inr ⟨?_, q, j, ?_, hj, ?_⟩⟩
        · rw [e6, ← e5, h2]; rfl
        · exact (remaining_cut_iff _).mpr (mem_chainTxs_detach.mpr ⟨hq, hqkeep⟩)
        · rw [h2, hdk]
    · rintro ⟨cv, h1, h2, h3⟩
      obtain ⟨p, hp, e1, e2, e3, e4, e5⟩ := (hI.credits _ _).mp h1
      rcases e5 with ⟨_, b, _⟩ | ⟨_, q, j, hq, hj, b⟩
      · rw [b] at h2; cases h2
      · rw [h2] at b
        simp only [Option.some.injEq] at b
        have hq' := (remaining_cut_iff q).mp hq
        obtain ⟨hq1, hq2⟩ := mem_chainTxs_detach.mp hq'
        have hnot : ¬ ∃ p ∈ cutPairs L h, dk.hash = p.1.hash ∧ dk.block = p.2.block := by
          rintro ⟨p', hp', e1', _⟩
          obtain ⟨hp1, hp2⟩ := mem_cutPairs.mp hp'
          have := hl.mined_unique hq1 hp1 (by rw [← e1', b])
          rw [← this.2] at hp2
          exact hp2 hq2
        rw [if_neg hnot]
        -- the record of the original store
        have hsp : spenderOf L d.credKey.outPoint = some dk :=
          (spenderOf_eq_some_iff hl.noDouble).mpr ⟨q, hq1, j, hj, b⟩
        have hks : s.credits.find? d.credKey = some ⟨cv.amount, cv.change, true, some dk⟩ :=
          (hr.credits_iff _ _).mpr ⟨p.1, p.2, hp.1, e1, e2, e3, e4, by rw [hsp], by rw [hsp]; rfl⟩
        exact (hr.debits dk d).mpr ⟨_, hks, rfl, h3⟩
  · -- unconfirmed credits
    intro op u
    show r.s.unminedCredits.find? op = some u ↔ _
    rw [hI.uc, hr.ucredits_iff, mem_expUnminedCredits]
    constructor
    · rintro (⟨w, hw, h1, h2, h3⟩ | ⟨p, hp, h1, h2, h3, h4⟩)
      · refine ⟨w, mem_pool_detach.mpr (Or.inl hw), h1, h2, ?_⟩
        rw [lookup_detach, h1, not_cutCb_of_noncb hl ⟨_, known_of_pool hw⟩ (hl.poolNoCb w hw)]
        exact h3
      · refine ⟨p.1, mem_pool_detach.mpr (Or.inr ⟨h1, p.2, hp⟩), h2, h3, ?_⟩
        rw [lookup_detach, h2, not_cutCb_of_noncb hl ⟨_, known_of_mined (mem_cutPairs.mp hp).1⟩ h1]
        exact h4
    · rintro ⟨w, hw, h1, h2, h3⟩
      rcases mem_pool_detach.mp hw with hw' | ⟨hcb, bm, hw'⟩
      · rw [lookup_detach, h1, not_cutCb_of_noncb hl ⟨_, known_of_pool hw'⟩ (hl.poolNoCb w hw')] at h3
        exact Or.inl ⟨w, hw', h1, h2, h3⟩
      · rw [lookup_detach, h1, not_cutCb_of_noncb hl ⟨_, known_of_mined (mem_cutPairs.mp hw').1⟩ hcb] at h3
        exact Or.inr ⟨(w, bm), hw', hcb, h1, h2, h3⟩
  · -- unconfirmed inputs
    intro op x
    show x ∈ spendHashes r.s op ↔ _
    rw [hI.ui, hr.uinputs, mem_poolSpenders, mem_poolSpenders]
    constructor
    · rintro (⟨w, hw, h1, h2⟩ | ⟨p, hp, h1, h2, h3⟩)
      · exact ⟨w, mem_pool_detach.mpr (Or.inl hw), h1, h2⟩
      · exact ⟨p.1, mem_pool_detach.mpr (Or.inr ⟨h1, p.2, hp⟩), h3, h2.symm⟩
    · rintro ⟨w, hw, h1, h2⟩
      rcases mem_pool_detach.mp hw with hw' | ⟨hcb, bm, hw'⟩
      · exact Or.inl ⟨w, hw', h1, h2⟩
      · exact Or.inr ⟨(w, bm), hw', hcb, h2.symm, h1⟩
  · -- leases
    intro op
    show (r.s.locked.find? op).map _ = _
    rw [hI.locked]; exact hr.leases op
  · show NodupKeys r.s.locked
    rw [hI.locked]; exact hr.nodupLocked

end TxStore
