import BtcwVerif.Lemmas.RefRange
/-!
# Path independence: every observable of a good pair is a function of the ledger's FACTS
(which blocks hold which transactions, which transactions are unconfirmed, which outputs are credited, which leases are
in force, the clock) — not of the order in which the wallet learned them.
-/
namespace TxStore
open KMap Ledger

/-- the two ledgers hold the same facts: the same blocks with the same transactions (in any order inside a block), the
same unconfirmed transactions (in any order), the same credited outputs, the same leases, the same clock -/
structure SameFacts (L1 L2 : Ledger) : Prop where
  chain : Pointwise (fun a b : LBlock => a.bm = b.bm ∧ a.txs.Perm b.txs) L1.chain L2.chain
  pool : L1.pool.Perm L2.pool
  credit : ∀ op, lookup L1.credit op = lookup L2.credit op
  leases : ∀ op, lookup L1.leases op = lookup L2.leases op
  now : L1.now = L2.now

theorem pointwise_refl {α : Type} {R : α → α → Prop} (hr : ∀ a, R a a) : ∀ (l : List α), Pointwise R l l := by
  intro l
  induction l with
  | nil => exact Pointwise.nil
  | cons a t ih => exact Pointwise.cons (hr a) ih

theorem SameFacts.refl (L : Ledger) : SameFacts L L :=
  ⟨pointwise_refl (fun a => ⟨rfl, List.Perm.refl _⟩) _, List.Perm.refl _, fun _ => rfl, fun _ => rfl, rfl⟩

theorem perm_flatMap_pointwise {α β γ : Type} {R : α → β → Prop} (f : α → List γ) (g : β → List γ)
    (hfg : ∀ a b, R a b → (f a).Perm (g b)) : ∀ {l : List α} {m : List β}, Pointwise R l m →
    (l.flatMap f).Perm (m.flatMap g) := by
  intro l m h
  induction h with
  | nil => exact List.Perm.refl _
  | cons hr _ ih =>
    rw [List.flatMap_cons, List.flatMap_cons]
    exact List.Perm.append (hfg _ _ hr) ih

theorem SameFacts.chainTxs_perm {L1 L2 : Ledger} (h : SameFacts L1 L2) : (chainTxs L1).Perm (chainTxs L2) := by
  unfold chainTxs
  refine perm_flatMap_pointwise _ _ ?_ h.chain
  rintro a b ⟨e, hp⟩
  rw [e]
  exact hp.map _

theorem SameFacts.known_perm {L1 L2 : Ledger} (h : SameFacts L1 L2) : (known L1).Perm (known L2) := by
  unfold known
  exact List.Perm.append (h.chainTxs_perm.map _) (h.pool.map _)

theorem SameFacts.credited_eq {L1 L2 : Ledger} (h : SameFacts L1 L2) (op : OutPoint) : credited L1 op = credited L2 op := by
  unfold credited; rw [h.credit]

theorem SameFacts.spent_eq {L1 L2 : Ledger} (h : SameFacts L1 L2) (op : OutPoint) :
    Ledger.spent L1 op = Ledger.spent L2 op := by
  unfold Ledger.spent; exact h.known_perm.any_eq

theorem SameFacts.leased_eq {L1 L2 : Ledger} (h : SameFacts L1 L2) (op : OutPoint) : leased L1 op = leased L2 op := by
  unfold leased leaseOf; rw [h.leases, h.now]

theorem SameFacts.counts_eq {L1 L2 : Ledger} (h : SameFacts L1 L2) (m sy mat : Int) (t : Tx) (b : Option BlockMeta)
    (i : Nat) : counts L1 m sy mat t b i = counts L2 m sy mat t b i := by
  unfold counts
  simp only [h.credited_eq, h.spent_eq, h.leased_eq]

/-- **the balance is a function of the facts** -/
theorem SameFacts.balance_eq {L1 L2 : Ledger} (h : SameFacts L1 L2) (mat m sy : Int) :
    Ledger.balance L1 mat m sy = Ledger.balance L2 mat m sy := by
  rw [balance_eq_ledgerTx, balance_eq_ledgerTx]
  have : (fun p : Tx × Option BlockMeta => ledgerTx L1 m sy mat p.1 p.2) =
      (fun p => ledgerTx L2 m sy mat p.1 p.2) := by
    funext p
    unfold ledgerTx ledgerTerm
    simp only [h.counts_eq]
  rw [this]
  exact perm_map_sum _ h.known_perm

/-- **the spendable outputs are a function of the facts** -/
theorem SameFacts.utxos_perm {L1 L2 : Ledger} (h : SameFacts L1 L2) : (utxos L1).Perm (utxos L2) := by
  rw [utxos_eq, utxos_eq]
  have : (fun p : Tx × Option BlockMeta => (withIdx p.1.outs).filterMap (utxoOf L1 p.1 p.2)) =
      (fun p => (withIdx p.1.outs).filterMap (utxoOf L2 p.1 p.2)) := by
    funext p
    congr 1
    funext iv
    unfold utxoOf
    simp only [h.credited_eq, h.spent_eq, h.leased_eq]
  rw [this]
  exact h.known_perm.flatMap_right _

/-- finding a transaction by hash does not depend on the order (hashes identify transactions) -/
theorem find_known_eq {L1 L2 : Ledger} (hl1 : LWF L1) (hl2 : LWF L2) (h : SameFacts L1 L2) (x : Nat) :
    (known L1).find? (fun p => p.1.hash == x) = (known L2).find? (fun p => p.1.hash == x) := by
  cases h1 : (known L1).find? (fun p => p.1.hash == x) with
  | none =>
    symm
    rw [List.find?_eq_none] at h1 ⊢
    intro p hp
    exact h1 p (h.known_perm.mem_iff.mpr hp)
  | some p =>
    have hp1 := List.mem_of_find?_eq_some h1
    have hpx : p.1.hash = x := by simpa using List.find?_some h1
    have hp2 := h.known_perm.mem_iff.mp hp1
    have := known_find hl2 hp2
    rw [hpx] at this
    exact this.symm

theorem SameFacts.creditValue_eq {L1 L2 : Ledger} (hl1 : LWF L1) (hl2 : LWF L2) (h : SameFacts L1 L2) (op : OutPoint) :
    creditValue L1 op = creditValue L2 op := by
  unfold creditValue
  rw [h.credited_eq, find_known_eq hl1 hl2 h]

theorem SameFacts.detailsOf_eq {L1 L2 : Ledger} (hl1 : LWF L1) (hl2 : LWF L2) (h : SameFacts L1 L2) (t : Tx)
    (ob : Option BlockMeta) : detailsOf L1 t ob = detailsOf L2 t ob := by
  unfold detailsOf
  simp only [h.credit, h.spent_eq, h.creditValue_eq hl1 hl2]

/-- **the record of a transaction is a function of the facts** -/
theorem SameFacts.details_eq {L1 L2 : Ledger} (hl1 : LWF L1) (hl2 : LWF L2) (h : SameFacts L1 L2) (x : Nat) :
    Ledger.details L1 x = Ledger.details L2 x := by
  unfold Ledger.details
  rw [find_known_eq hl1 hl2 h]
  cases (known L2).find? (fun p => p.1.hash == x) with
  | none => rfl
  | some p => simp only [h.detailsOf_eq hl1 hl2]

/-- two records hold the same transaction under the same block with the same credit and debit records (as sets) -/
structure SameRecord (d d' : Details) : Prop where
  tx : d.tx = d'.tx
  block : d.block = d'.block
  credits : ∀ c, c ∈ d.credits ↔ c ∈ d'.credits
  debits : ∀ x, x ∈ d.debits ↔ x ∈ d'.debits

def SameAnswer : Option Details → Option Details → Prop
  | none, none => True
  | some d, some d' => SameRecord d d'
  | _, _ => False

theorem sameAnswer_of_agree {o1 o2 o : Option Details} (h1 : DetailsAgree o1 o) (h2 : DetailsAgree o2 o) :
    SameAnswer o1 o2 := by
  cases o1 <;> cases o2 <;> cases o <;> simp only [DetailsAgree, SameAnswer] at h1 h2 ⊢
  exact ⟨h1.tx.trans h2.tx.symm, h1.block.trans h2.block.symm, fun c => (h1.credits c).trans (h2.credits c).symm,
    fun x => (h1.debits x).trans (h2.debits x).symm⟩

end TxStore
