import BtcwVerif.Lemmas.RefRollback1
/-!
# Refinement, event *disconnected*: the main loop of `rollback`, invariant over the processed transactions
-/
namespace TxStore
open KMap Ledger

/-- the confirmed transactions not yet detached -/
def Remaining (L : Ledger) (done : List (Tx × BlockMeta)) (q : Tx × BlockMeta) : Prop := q ∈ chainTxs L ∧ q ∉ done

/-- the (spent, spender) fields of a credit record agree with the remaining confirmed transactions -/
def SpenderIs (C : Tx × BlockMeta → Prop) (op : OutPoint) (v : CreditVal) : Prop :=
  (v.spent = false ∧ v.spender = none ∧ ∀ q, C q → op ∉ q.1.ins) ∨
  (v.spent = true ∧ ∃ q j, C q ∧ q.1.ins[j]? = some op ∧ v.spender = some ⟨q.1.hash, q.2.block, j⟩)

/-- the credits bucket holds the credited outputs of the remaining confirmed transactions -/
def CredInv (L : Ledger) (C : Tx × BlockMeta → Prop) (credits : KMap CredKey CreditVal) : Prop :=
  ∀ k v, credits.find? k = some v ↔
    ∃ p, C p ∧ k.hash = p.1.hash ∧ k.block = p.2.block ∧ p.1.outs[k.index]? = some v.amount ∧
      lookup L.credit k.outPoint = some v.change ∧ SpenderIs C k.outPoint v

theorem spenderIs_of_ledger {L : Ledger} (hn : ((chainTxs L).flatMap (·.1.ins)).Nodup) (op : OutPoint) (v : CreditVal) :
    SpenderIs (fun q => q ∈ chainTxs L) op v ↔ (v.spender = spenderOf L op ∧ v.spent = (spenderOf L op).isSome) := by
  unfold SpenderIs
  constructor
  · rintro (⟨h1, h2, h3⟩ | ⟨h1, q, j, hq, hj, h2⟩)
    · have : spenderOf L op = none := spenderOf_eq_none_iff.mpr h3
      rw [this, h1, h2]; exact ⟨rfl, rfl⟩
    · have : spenderOf L op = some ⟨q.1.hash, q.2.block, j⟩ := (spenderOf_eq_some_iff hn).mpr ⟨q, hq, j, hj, rfl⟩
      rw [this, h1, h2]; exact ⟨rfl, rfl⟩
  · rintro ⟨h1, h2⟩
    cases hs : spenderOf L op with
    | none =>
      rw [hs] at h1 h2
      exact Or.inl ⟨h2, h1, spenderOf_eq_none_iff.mp hs⟩
    | some dk =>
      rw [hs] at h1 h2
      obtain ⟨q, hq, j, hj, e⟩ := spenderOf_some_elim hs
      exact Or.inr ⟨h2, q, j, hq, hj, by rw [h1, e]⟩

theorem credInv_init {s : Store} {L : Ledger} (hg : Good s L) : CredInv L (Remaining L []) s.credits := by
  intro k v
  rw [hg.ref.credits_iff]
  have hC : ∀ q, Remaining L [] q ↔ q ∈ chainTxs L := fun q => by simp [Remaining]
  constructor
  · rintro ⟨t, bm, hm, e1, e2, e3, e4, e5, e6⟩
    refine ⟨(t, bm), (hC _).mpr hm, e1, e2, e3, e4, ?_⟩
    have := (spenderIs_of_ledger hg.lwf.noDouble k.outPoint v).mpr ⟨e5, e6⟩
    rcases this with ⟨a, b, c⟩ | ⟨a, q, j, hq, b⟩
    · exact Or.inl ⟨a, b, fun q hq => c q ((hC q).mp hq)⟩
    · exact Or.inr ⟨a, q, j, (hC q).mpr hq, b⟩
  · rintro ⟨p, hp, e1, e2, e3, e4, e5⟩
    have h5 : SpenderIs (fun q => q ∈ chainTxs L) k.outPoint v := by
      rcases e5 with ⟨a, b, c⟩ | ⟨a, q, j, hq, b⟩
      · exact Or.inl ⟨a, b, fun q hq => c q ((hC q).mpr hq)⟩
      · exact Or.inr ⟨a, q, j, (hC q).mp hq, b⟩
    obtain ⟨h6, h7⟩ := (spenderIs_of_ledger hg.lwf.noDouble k.outPoint v).mp h5
    exact ⟨p.1, p.2, (hC _).mp hp, e1, e2, e3, e4, h6, h7⟩

/-- one more transaction detached: the store-side effect of `rbTxPure` on the credits bucket keeps `CredInv` -/
theorem credInv_step {L : Ledger} (hl : LWF L) {done : List (Tx × BlockMeta)} {t : Tx} {bm : BlockMeta}
    (ha : (t, bm) ∈ chainTxs L) (hnd : (t, bm) ∉ done)
    {c c' : KMap CredKey CreditVal} (hI : CredInv L (Remaining L done) c)
    (hstep : ∀ k, c'.find? k =
      if ∃ i, i < t.outs.length ∧ k = ⟨t.hash, bm.block, i⟩ then none
      else if k.outPoint ∈ t.ins then (c.find? k).map unspendVal else c.find? k) :
    CredInv L (Remaining L (done ++ [(t, bm)])) c' := by
  have hC' : ∀ q, Remaining L (done ++ [(t, bm)]) q ↔ Remaining L done q ∧ q ≠ (t, bm) := by
    intro q
    simp only [Remaining, List.mem_append, List.mem_singleton, not_or]
    constructor
    · rintro ⟨h1, h2, h3⟩; exact ⟨⟨h1, h2⟩, h3⟩
    · rintro ⟨⟨h1, h2⟩, h3⟩; exact ⟨h1, h2, h3⟩
  have haC : Remaining L done (t, bm) := ⟨ha, hnd⟩
  -- only t spends the inputs of t
  have honly : ∀ q, q ∈ chainTxs L → ∀ op, op ∈ q.1.ins → op ∈ t.ins → q = (t, bm) :=
    fun q hq op h1 h2 => nodup_flatMap_unique _ _ hl.noDouble q hq (t, bm) ha op h1 h2
  have hE : ∀ k : CredKey, (∃ i, i < t.outs.length ∧ k = ⟨t.hash, bm.block, i⟩) ↔
      (k.hash = t.hash ∧ k.block = bm.block ∧ k.index < t.outs.length) := by
    intro k
    constructor
    · rintro ⟨i, hi, rfl⟩; exact ⟨rfl, rfl, hi⟩
    · rintro ⟨h1, h2, h3⟩; exact ⟨k.index, h3, by cases k; simp_all⟩
  intro k v
  rw [hstep]
  constructor
  · intro hf
    by_cases hEk : ∃ i, i < t.outs.length ∧ k = ⟨t.hash, bm.block, i⟩
    · rw [if_pos hEk] at hf; cases hf
    · rw [if_neg hEk] at hf
      by_cases hin : k.outPoint ∈ t.ins
      · rw [if_pos hin] at hf
        cases hc : c.find? k with
        | none => rw [hc] at hf; cases hf
        | some v0 =>
          rw [hc] at hf
          simp only [Option.map_some, Option.some.injEq] at hf
          subst hf
          obtain ⟨p, hp, e1, e2, e3, e4, _⟩ := (hI k v0).mp hc
          have hpne : p ≠ (t, bm) := by
            rintro rfl
            exact hEk ((hE k).mpr ⟨e1, e2, (List.getElem?_eq_some_iff.mp e3).1⟩)
          refine ⟨p, (hC' p).mpr ⟨hp, hpne⟩, e1, e2, e3, e4, Or.inl ⟨rfl, rfl, ?_⟩⟩
          intro q hq hqin
          obtain ⟨hq1, hq2⟩ := (hC' q).mp hq
          exact hq2 (honly q hq1.1 _ hqin hin)
      · rw [if_neg hin] at hf
        obtain ⟨p, hp, e1, e2, e3, e4, e5⟩ := (hI k v).mp hf
        have hpne : p ≠ (t, bm) := by
          rintro rfl
          exact hEk ((hE k).mpr ⟨e1, e2, (List.getElem?_eq_some_iff.mp e3).1⟩)
        refine ⟨p, (hC' p).mpr ⟨hp, hpne⟩, e1, e2, e3, e4, ?_⟩
        rcases e5 with ⟨a, b, cc⟩ | ⟨a, q, j, hq, hj, b⟩
        · exact Or.inl ⟨a, b, fun q hq => cc q ((hC' q).mp hq).1⟩
        · refine Or.inr ⟨a, q, j, (hC' q).mpr ⟨hq, ?_⟩, hj, b⟩
          rintro rfl
          exact hin (List.mem_of_getElem? hj)
  · rintro ⟨p, hp, e1, e2, e3, e4, e5⟩
    obtain ⟨hp1, hp2⟩ := (hC' p).mp hp
    have hEk : ¬ ∃ i, i < t.outs.length ∧ k = ⟨t.hash, bm.block, i⟩ := by
      intro hEk
      obtain ⟨h1, h2, _⟩ := (hE k).mp hEk
      have := hl.mined_unique hp1.1 ha (by rw [← e1, h1])
      exact hp2 (Prod.ext this.1 this.2)
    rw [if_neg hEk]
    by_cases hin : k.outPoint ∈ t.ins
    · rw [if_pos hin]
      obtain ⟨j, hj⟩ := List.getElem?_of_mem hin
      -- v is unspent: nobody remaining spends the output
      have hv : v.spent = false ∧ v.spender = none := by
        rcases e5 with ⟨a, b, _⟩ | ⟨_, q, j', hq, hj', _⟩
        · exact ⟨a, b⟩
        · obtain ⟨hq1, hq2⟩ := (hC' q).mp hq
          exact absurd (honly q hq1.1 _ (List.mem_of_getElem? hj') hin) hq2
      have h0 : c.find? k = some { v with spent := true, spender := some ⟨t.hash, bm.block, j⟩ } :=
        (hI k _).mpr ⟨p, hp1, e1, e2, e3, e4, Or.inr ⟨rfl, (t, bm), j, haC, hj, rfl⟩⟩
      rw [h0]
      obtain ⟨a, ch, sp, spd⟩ := v
      simp only at hv
      simp only [Option.map_some, unspendVal, Option.some.injEq]
      rw [hv.1, hv.2]
    · rw [if_neg hin]
      refine (hI k v).mpr ⟨p, hp1, e1, e2, e3, e4, ?_⟩
      rcases e5 with ⟨a, b, cc⟩ | ⟨a, q, j, hq, hj, b⟩
      · refine Or.inl ⟨a, b, ?_⟩
        intro q hq hqin
        by_cases e : q = (t, bm)
        · subst e; exact hin hqin
        · exact cc q ((hC' q).mpr ⟨hq, e⟩) hqin
      · exact Or.inr ⟨a, q, j, ((hC' q).mp hq).1, hj, b⟩

/-! ### the loop invariant -/

structure RBInv (s : Store) (L : Ledger) (done : List (Tx × BlockMeta)) (r : RB) : Prop where
  blocks : r.s.blocks = s.blocks
  locked : r.s.locked = s.locked
  txrecs : ∀ k, r.s.txrecs.find? k = if ∃ p ∈ done, k = ⟨p.1.hash, p.2.block⟩ then none else s.txrecs.find? k
  debits : ∀ dk, r.s.debits.find? dk =
    if ∃ p ∈ done, dk.hash = p.1.hash ∧ dk.block = p.2.block then none else s.debits.find? dk
  credits : CredInv L (Remaining L done) r.s.credits
  unmined : ∀ h v, r.s.unmined.find? h = some v ↔
    s.unmined.find? h = some v ∨ ∃ p ∈ done, p.1.isCoinBase = false ∧ p.1 = v ∧ h = v.hash
  uc : ∀ op u, r.s.unminedCredits.find? op = some u ↔
    s.unminedCredits.find? op = some u ∨ ∃ p ∈ done, p.1.isCoinBase = false ∧ op.hash = p.1.hash ∧
      p.1.outs[op.index]? = some u.amount ∧ lookup L.credit op = some u.change
  ui : ∀ op x, x ∈ spendHashes r.s op ↔
    x ∈ spendHashes s op ∨ ∃ p ∈ done, p.1.isCoinBase = false ∧ x = p.1.hash ∧ op ∈ p.1.ins
  ne : InputsNE r.s
  cb : ∀ op, op ∈ r.cb ↔ ∃ p ∈ done, p.1.isCoinBase = true ∧ op.hash = p.1.hash ∧ op.index < p.1.outs.length
  nodupTx : NodupKeys r.s.txrecs
  nodupUnmined : NodupKeys r.s.unmined
  nodupDeb : NodupKeys r.s.debits
  nodupUC : NodupKeys r.s.unminedCredits

theorem rbInv_init {s : Store} {L : Ledger} (hg : Good s L) : RBInv s L [] ⟨s, s.minedBalance, []⟩ := by
  refine ⟨rfl, rfl, ?_, ?_, credInv_init hg, ?_, ?_, ?_, hg.ref.uinputsNE, ?_, hg.ref.nodupTxrecs, hg.ref.nodupUnmined,
    hg.ref.nodupDebits, hg.wf2.wf.nodupUC⟩
  · intro k; simp
  · intro dk; simp
  · intro h v; simp
  · intro op u; simp
  · intro op x; simp
  · intro op; simp

theorem isCoinBase_ins {t : Tx} (h : t.isCoinBase = true) : ∃ i, t.ins = [i] ∧ i.index = nullIndex := by
  unfold Tx.isCoinBase at h
  split at h
  · rename_i i hi
    simp only [Bool.and_eq_true, beq_iff_eq] at h
    exact ⟨i, hi, h.1⟩
  · cases h

/-- one more transaction of the detached blocks -/
theorem rbInv_step {s : Store} {L : Ledger} (hg : Good s L) {done : List (Tx × BlockMeta)} {t : Tx} {bm : BlockMeta}
    (hsub : ∀ p ∈ done, p ∈ chainTxs L) (ha : (t, bm) ∈ chainTxs L) (hnd : (t, bm) ∉ done) {r : RB}
    (hI : RBInv s L done r) :
    rbTx bm.block r t.hash = .ok (rbTxPure bm.block r t) ∧ RBInv s L (done ++ [(t, bm)]) (rbTxPure bm.block r t) := by
  have hr := hg.ref
  have hl := hg.lwf
  have hkey : ∀ p ∈ done, ¬ (t.hash = p.1.hash ∧ bm.block = p.2.block) := by
    intro p hp h
    have := hl.mined_unique ha (hsub p hp) h.1
    exact hnd (by rw [show (t, bm) = p from Prod.ext this.1 this.2]; exact hp)
  have hkey' : ∀ p ∈ done, p.1.hash ≠ t.hash := by
    intro p hp h
    have := hl.mined_unique ha (hsub p hp) h.symm
    exact hnd (by rw [show (t, bm) = p from Prod.ext this.1 this.2]; exact hp)
  have hrecS : s.txrecs.find? ⟨t.hash, bm.block⟩ = some t := (hr.txrecs_iff _ _).mpr ⟨bm, ha, rfl⟩
  have hrec : r.s.txrecs.find? ⟨t.hash, bm.block⟩ = some t := by
    rw [hI.txrecs, if_neg]
    · exact hrecS
    · rintro ⟨p, hp, e⟩
      injection e with e1 e2
      exact hkey p hp ⟨e1, e2⟩
  refine ⟨rbTx_ok hrec, ?_⟩
  have hsp := txSpec_pure t bm.block r
  generalize rbTxPure bm.block r t = r' at hsp
  -- debits of t in the loop state are those of the original store
  have hdebt : ∀ j, r.s.debits.find? ⟨t.hash, bm.block, j⟩ = s.debits.find? ⟨t.hash, bm.block, j⟩ := by
    intro j
    rw [hI.debits, if_neg]
    rintro ⟨p, hp, e1, e2⟩
    exact hkey p hp ⟨e1, e2⟩
  -- a debit of t in the original store: t is not a coinbase and the index is an input index
  have hdebS : ∀ dk d, s.debits.find? dk = some d → dk.hash = t.hash → dk.block = bm.block →
      t.isCoinBase = false ∧ dk.index < t.ins.length ∧ t.ins[dk.index]? = some d.credKey.outPoint := by
    intro dk d hd e1 e2
    obtain ⟨⟨⟨rec, hrec', hin⟩, _, hlt, _⟩, _⟩ := hg.wf2.deb dk d hd
    have : dk.txKey = ⟨t.hash, bm.block⟩ := by cases dk; simp_all [CredKey.txKey]
    rw [this, hrecS] at hrec'
    cases hrec'
    refine ⟨?_, (List.getElem?_eq_some_iff.mp hin).1, hin⟩
    cases hcb : t.isCoinBase with
    | false => rfl
    | true =>
      obtain ⟨i, hi, hidx⟩ := isCoinBase_ins hcb
      rw [hi] at hin
      have h0 : dk.index = 0 := by
        have := (List.getElem?_eq_some_iff.mp hin).1
        simpa using this
      rw [h0] at hin
      simp only [List.getElem?_cons_zero, Option.some.injEq] at hin
      have : d.credKey.index = nullIndex := by
        have := congrArg OutPoint.index hin
        rw [hidx] at this; exact this.symm
      omega
  refine ⟨hsp.blocks.trans hI.blocks, hsp.locked.trans hI.locked, ?_, ?_, ?_, ?_, ?_, ?_, hsp.ne hI.ne, ?_,
    hsp.nodupTx hI.nodupTx, hsp.nodupUnmined hI.nodupUnmined, hsp.nodupDeb hI.nodupDeb, hsp.nodupUC hI.nodupUC⟩
  · -- txrecs
    intro k
    rw [hsp.txrecs, hI.txrecs]
    by_cases e : k = ⟨t.hash, bm.block⟩
    · have : ∃ p ∈ done ++ [(t, bm)], k = ⟨p.1.hash, p.2.block⟩ := ⟨(t, bm), by simp, e⟩
      rw [if_pos e, if_pos this]
    · rw [if_neg e]
      by_cases e2 : ∃ p ∈ done, k = ⟨p.1.hash, p.2.block⟩
      · have : ∃ p ∈ done ++ [(t, bm)], k = ⟨p.1.hash, p.2.block⟩ := by
          obtain ⟨p, hp, h⟩ := e2; exact ⟨p, List.mem_append_left _ hp, h⟩
        rw [if_pos e2, if_pos this]
      · have : ¬ ∃ p ∈ done ++ [(t, bm)], k = ⟨p.1.hash, p.2.block⟩ := by
          rintro ⟨p, hp, h⟩
          rcases List.mem_append.mp hp with hp' | hp'
          · exact e2 ⟨p, hp', h⟩
          · simp only [List.mem_singleton] at hp'; subst hp'; exact e h
        rw [if_neg e2, if_neg this]
  · -- debits
    intro dk
    rw [hsp.debits, hI.debits]
    by_cases e2 : ∃ p ∈ done, dk.hash = p.1.hash ∧ dk.block = p.2.block
    · have : ∃ p ∈ done ++ [(t, bm)], dk.hash = p.1.hash ∧ dk.block = p.2.block := by
        obtain ⟨p, hp, h⟩ := e2; exact ⟨p, List.mem_append_left _ hp, h⟩
      rw [if_pos e2, if_pos this]
      split <;> rfl
    · rw [if_neg e2]
      by_cases e : dk.hash = t.hash ∧ dk.block = bm.block
      · have : ∃ p ∈ done ++ [(t, bm)], dk.hash = p.1.hash ∧ dk.block = p.2.block := ⟨(t, bm), by simp, e⟩
        rw [if_pos this]
        cases hd : s.debits.find? dk with
        | none => split <;> rfl
        | some d =>
          obtain ⟨h1, h2, _⟩ := hdebS dk d hd e.1 e.2
          rw [if_pos ⟨h1, dk.index, h2, by cases dk; simp_all⟩]
      · have : ¬ ∃ p ∈ done ++ [(t, bm)], dk.hash = p.1.hash ∧ dk.block = p.2.block := by
          rintro ⟨p, hp, h⟩
          rcases List.mem_append.mp hp with hp' | hp'
          · exact e2 ⟨p, hp', h⟩
          · simp only [List.mem_singleton] at hp'; subst hp'; exact e h
        rw [if_neg this, if_neg]
        rintro ⟨_, j, _, rfl⟩
        exact e ⟨rfl, rfl⟩
  · -- credits
    refine credInv_step hl ha hnd hI.credits ?_
    intro k
    rw [hsp.credits]
    by_cases hEk : ∃ i, i < t.outs.length ∧ k = ⟨t.hash, bm.block, i⟩
    · rw [if_pos hEk, if_pos hEk]
    · rw [if_neg hEk, if_neg hEk]
      cases hc : r.s.credits.find? k with
      | none => simp
      | some v0 =>
        -- the record is a credit of the original store
        obtain ⟨p, hp, e1, e2, e3, e4, _⟩ := (hI.credits k v0).mp hc
        have hks : s.credits.find? k = some ⟨v0.amount, v0.change, (spenderOf L k.outPoint).isSome, spenderOf L k.outPoint⟩ :=
          (hr.credits_iff _ _).mpr ⟨p.1, p.2, hp.1, e1, e2, e3, e4, rfl, rfl⟩
        have hiff : (t.isCoinBase = false ∧ ∃ j, j < t.ins.length ∧ ∃ d,
            r.s.debits.find? ⟨t.hash, bm.block, j⟩ = some d ∧ d.credKey = k) ↔ k.outPoint ∈ t.ins := by
          constructor
          · rintro ⟨_, j, _, d, hd, hdk⟩
            rw [hdebt] at hd
            obtain ⟨_, _, h3⟩ := hdebS _ d hd rfl rfl
            rw [hdk] at h3
            exact List.mem_of_getElem? h3
          · intro hin
            obtain ⟨j, hj⟩ := List.getElem?_of_mem hin
            have hsp' : spenderOf L k.outPoint = some ⟨t.hash, bm.block, j⟩ :=
              (spenderOf_eq_some_iff hl.noDouble).mpr ⟨(t, bm), ha, j, hj, rfl⟩
            have hd : s.debits.find? ⟨t.hash, bm.block, j⟩ = some ⟨v0.amount, k⟩ :=
              (hr.debits _ _).mpr ⟨_, hks, hsp', rfl⟩
            obtain ⟨h1, h2, _⟩ := hdebS _ _ hd rfl rfl
            exact ⟨h1, j, h2, ⟨v0.amount, k⟩, by rw [hdebt]; exact hd, rfl⟩
        by_cases hin : k.outPoint ∈ t.ins
        · rw [if_pos (hiff.mpr hin), if_pos hin]
        · rw [if_neg (fun h => hin (hiff.mp h)), if_neg hin]
  · -- unmined
    intro h v
    rw [hsp.unmined]
    by_cases e : t.isCoinBase = false ∧ h = t.hash
    · rw [if_pos e]
      constructor
      · intro hv; cases hv
        exact Or.inr ⟨(t, bm), by simp, e.1, rfl, e.2⟩
      · rintro (hs | ⟨p, hp, h1, h2, h3⟩)
        · obtain ⟨hpool, hh⟩ := (hr.unmined_iff h v).mp hs
          exact absurd (by rw [← e.2, hh]) (hl.pool_not_mined hpool ha)
        · rcases List.mem_append.mp hp with hp' | hp'
          · exact absurd (by rw [h2, ← h3, e.2]) (hkey' p hp')
          · simp only [List.mem_singleton] at hp'; subst hp'; rw [← h2]
    · rw [if_neg e, hI.unmined]
      constructor
      · rintro (hs | ⟨p, hp, h1⟩)
        · exact Or.inl hs
        · exact Or.inr ⟨p, List.mem_append_left _ hp, h1⟩
      · rintro (hs | ⟨p, hp, h1, h2, h3⟩)
        · exact Or.inl hs
        · rcases List.mem_append.mp hp with hp' | hp'
          · exact Or.inr ⟨p, hp', h1, h2, h3⟩
          · simp only [List.mem_singleton] at hp'; subst hp'
            exact absurd ⟨h1, by rw [h3, ← h2]⟩ e
  · -- unconfirmed credits
    intro op u
    rw [hsp.uc]
    by_cases e : t.isCoinBase = false ∧ ∃ i, i < t.outs.length ∧ op = ⟨t.hash, i⟩ ∧
        (r.s.credits.find? ⟨t.hash, bm.block, i⟩).isSome = true
    · rw [if_pos e]
      obtain ⟨hcb, i, hi, rfl, hsome⟩ := e
      simp only
      cases hc : r.s.credits.find? ⟨t.hash, bm.block, i⟩ with
      | none => rw [hc] at hsome; cases hsome
      | some v0 =>
        obtain ⟨p, hp, e1, e2, e3, e4, _⟩ := (hI.credits _ v0).mp hc
        have hpt : p = (t, bm) := by
          have := hl.mined_unique hp.1 ha e1.symm
          exact Prod.ext this.1 this.2
        subst hpt
        simp only [Option.map_some, Option.some.injEq]
        constructor
        · intro hu
          subst hu
          exact Or.inr ⟨(t, bm), by simp, hcb, rfl, e3, e4⟩
        · rintro (hs | ⟨p, hp', _, h2, h3, h4⟩)
          · obtain ⟨w, hw, h1, _⟩ := (hr.ucredits_iff _ _).mp hs
            exact absurd h1 (hl.pool_not_mined hw ha)
          · rcases List.mem_append.mp hp' with hp'' | hp''
            · exact absurd h2.symm (hkey' p hp'')
            · simp only [List.mem_singleton] at hp''; subst hp''
              have e3' : t.outs[i]? = some v0.amount := e3
              have e4' : lookup L.credit ⟨t.hash, i⟩ = some v0.change := e4
              have h3' : t.outs[i]? = some u.amount := h3
              rw [e3'] at h3'; rw [e4'] at h4
              have h3 := h3' 
              obtain ⟨ua, uch⟩ := u
              simp only [Option.some.injEq] at h3 h4
              rw [h3, h4]
    · rw [if_neg e, hI.uc]
      constructor
      · rintro (hs | ⟨p, hp, h1⟩)
        · exact Or.inl hs
        · exact Or.inr ⟨p, List.mem_append_left _ hp, h1⟩
      · rintro (hs | ⟨p, hp, h1, h2, h3, h4⟩)
        · exact Or.inl hs
        · rcases List.mem_append.mp hp with hp' | hp'
          · exact Or.inr ⟨p, hp', h1, h2, h3, h4⟩
          · simp only [List.mem_singleton] at hp'; subst hp'
            exfalso
            apply e
            have hlt : op.index < t.outs.length := (List.getElem?_eq_some_iff.mp h3).1
            refine ⟨h1, op.index, hlt, by cases op; simp_all, ?_⟩
            -- the credit record of this output is still there
            have hop : (⟨t.hash, op.index⟩ : OutPoint) = op := by cases op; simp_all
            by_cases hq : ∃ (q : Tx × BlockMeta) (j : Nat), Remaining L done q ∧ q.1.ins[j]? = some op
            · obtain ⟨q, j, hq1, hq2⟩ := hq
              rw [(hI.credits _ ⟨u.amount, u.change, true, some ⟨q.1.hash, q.2.block, j⟩⟩).mpr
                ⟨(t, bm), ⟨ha, hnd⟩, rfl, rfl, h3, by simp only [CredKey.outPoint, hop]; exact h4,
                  Or.inr ⟨rfl, q, j, hq1, by simp only [CredKey.outPoint, hop]; exact hq2, rfl⟩⟩]
              rfl
            · rw [(hI.credits _ ⟨u.amount, u.change, false, none⟩).mpr
                ⟨(t, bm), ⟨ha, hnd⟩, rfl, rfl, h3, by simp only [CredKey.outPoint, hop]; exact h4,
                  Or.inl ⟨rfl, rfl, fun q hq1 hin => by
                    obtain ⟨j, hj⟩ := List.getElem?_of_mem hin
                    simp only [CredKey.outPoint, hop] at hj
                    exact hq ⟨q, j, hq1, hj⟩⟩⟩]
              rfl
  · -- unconfirmed inputs
    intro op x
    rw [hsp.ui, hI.ui]
    constructor
    · rintro ((hs | ⟨p, hp, h1⟩) | ⟨h1, h2, h3⟩)
      · exact Or.inl hs
      · exact Or.inr ⟨p, List.mem_append_left _ hp, h1⟩
      · exact Or.inr ⟨(t, bm), by simp, h1, h2, h3⟩
    · rintro (hs | ⟨p, hp, h1, h2, h3⟩)
      · exact Or.inl (Or.inl hs)
      · rcases List.mem_append.mp hp with hp' | hp'
        · exact Or.inl (Or.inr ⟨p, hp', h1, h2, h3⟩)
        · simp only [List.mem_singleton] at hp'; subst hp'
          exact Or.inr ⟨h1, h2, h3⟩
  · -- remembered coinbase outputs
    intro op
    rw [hsp.cb, List.mem_append, hI.cb]
    constructor
    · rintro (⟨p, hp, h1⟩ | h)
      · exact ⟨p, List.mem_append_left _ hp, h1⟩
      · cases hcb : t.isCoinBase with
        | false => rw [hcb] at h; simp at h
        | true =>
          rw [hcb] at h
          simp only [if_true, List.mem_map, List.mem_range] at h
          obtain ⟨i, hi, rfl⟩ := h
          exact ⟨(t, bm), by simp, hcb, rfl, hi⟩
    · rintro ⟨p, hp, h1, h2, h3⟩
      rcases List.mem_append.mp hp with hp' | hp'
      · exact Or.inl ⟨p, hp', h1, h2, h3⟩
      · simp only [List.mem_singleton] at hp'; subst hp'
        right
        simp only at h1 h2 h3
        rw [h1]
        simp only [if_true, List.mem_map, List.mem_range]
        exact ⟨op.index, h3, by cases op; simp_all⟩

end TxStore
