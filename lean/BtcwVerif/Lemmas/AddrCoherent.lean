/-
Coherence of the in-memory caches of the address manager with the database (C08), and the answers every query of
the property gives as a function of the DATABASE ALONE.
-/
import BtcwVerif.Lemmas.AddrLock
namespace AddrLock

/-- account an address key belongs to -/
def keyAcct : AKey → Nat
  | .chain a _ _ => a
  | _ => IMPORTED

/-- what `loadAccountInfo` finds in the database -/
def acctAns (d : Disk) (sc a : Nat) : Except Err AcctRow :=
  match aget (d.scopes sc).accts a with
  | none => .error .accountNotFound
  | some row => if a = IMPORTED then .error .crypto else .ok row

/-- answer of `Address(k)` computed from the database alone -/
def addrAns (d : Disk) (sc : Nat) (k : AKey) : QRes :=
  match aget (d.scopes sc).addrs k with
  | none => .err .addressNotFound
  | some row =>
    match row, k with
    | .chain, .chain a _ _ =>
      match acctAns d sc a with
      | .error e => .err e
      | .ok _ => .addr k a
    | .chain, _ => .err .database
    | _, _ => .addr k IMPORTED

def propsAns (d : Disk) (sc a : Nat) : QRes :=
  if a = IMPORTED then .props "imported" 0 0 (importedCount (d.scopes sc))
  else match acctAns d sc a with
    | .error e => .err e
    | .ok row => .props row.name row.nextExt row.nextInt 0

def rowNext (row : AcctRow) (internal : Bool) : Nat := if internal then row.nextInt else row.nextExt

def lastAns (d : Disk) (sc a : Nat) (internal : Bool) : QRes :=
  match acctAns d sc a with
  | .error e => .err e
  | .ok row =>
    if rowNext row internal > 0 then .addr (.chain a (brOf internal) (rowNext row internal - 1)) a
    else .err .addressNotFound

def usedAns (d : Disk) (sc : Nat) (k : AKey) : QRes :=
  match addrAns d sc k with
  | .addr _ _ => .used ((d.scopes sc).used.contains k)
  | _ => .used false

/-- the answer of every query of the property as a function of the database -/
def qAns (d : Disk) : Query → QRes
  | .address sc k => addrAns d sc k
  | .props sc a => propsAns d sc a
  | .lastAddr sc a i => lastAns d sc a i
  | .lookup sc name =>
    match lookupName (d.scopes sc) name with
    | some a => .acct a
    | none => .err .accountNotFound
  | .acctName sc a =>
    match aget (d.scopes sc).accts a with
    | some r => .name r.name
    | none => .err .accountNotFound
  | .used sc k => usedAns d sc k
  | .syncedTo => .synced d.syncedTo.1 d.syncedTo.2
  | .blockHash h =>
    match aget d.hashes h with
    | some x => .hash x
    | none => .err .blockNotFound

/-- a cached account info agrees with the account row `row` (name, next indices, the two last-address objects) -/
def InfoOK (m : Mem) (a : Nat) (ai : AcctInfo) (row : AcctRow) : Prop :=
  ai.name = row.name ∧ ai.nextExt = row.nextExt ∧ ai.nextInt = row.nextInt ∧
  (m.heap ai.lastExt).key = .chain a 0 (row.nextExt - 1) ∧ (m.heap ai.lastExt).acct = a ∧
  (m.heap ai.lastInt).key = .chain a 1 (row.nextInt - 1) ∧ (m.heap ai.lastInt).acct = a

/-- the manager never needs a private account key the database does not have: it is locked, watching-only, or
every default account row carries an encrypted private key -/
def PrivOK (d : Disk) (m : Mem) : Prop :=
  m.locked = true ∨ m.watchOnly = true ∨
  ∀ sc a row, acctAns d sc a = .ok row → row.wo = false → row.hasPriv = true

structure Coherent (d : Disk) (m : Mem) : Prop where
  acct   : ∀ sc a ai, aget (m.scopes sc).acctInfo a = some ai → ∃ row, acctAns d sc a = .ok row ∧ InfoOK m a ai row
  addr   : ∀ sc k id, aget (m.scopes sc).addrs k = some id →
             addrAns d sc k = .addr k (keyAcct k) ∧ (m.heap id).key = k ∧ (m.heap id).acct = keyAcct k
  priv   : PrivOK d m
  synced : m.syncedTo = d.syncedTo

/-! ### heap / cache frame facts -/

theorem ktm_snd (m : Mem) (sc a b i : Nat) (p : Bool) : (keyToManaged m sc a b i p).2 = m.heapN := by
  unfold keyToManaged; split <;> rfl

theorem ktm_heapN (m : Mem) (sc a b i : Nat) (p : Bool) : (keyToManaged m sc a b i p).1.heapN = m.heapN + 1 := by
  unfold keyToManaged; split <;> rfl

theorem ktm_heap (m : Mem) (sc a b i : Nat) (p : Bool) (id : Nat) :
    (keyToManaged m sc a b i p).1.heap id =
      if id = m.heapN then { key := .chain a b i, kind := .managed, hasEnc := p, ct := p, acct := a } else m.heap id := by
  unfold keyToManaged; split <;> rfl

theorem ktm_acctInfo (m : Mem) (sc a b i : Nat) (p : Bool) (sc' : Nat) :
    ((keyToManaged m sc a b i p).1.scopes sc').acctInfo = (m.scopes sc').acctInfo := by
  unfold keyToManaged; split
  · rfl
  · simp only [Mem.updScope, Mem.alloc]; split <;> rfl

theorem ktm_addrs (m : Mem) (sc a b i : Nat) (p : Bool) (sc' : Nat) :
    ((keyToManaged m sc a b i p).1.scopes sc').addrs = (m.scopes sc').addrs := by
  unfold keyToManaged; split
  · rfl
  · simp only [Mem.updScope, Mem.alloc]; split <;> rfl

theorem ktm_synced (m : Mem) (sc a b i : Nat) (p : Bool) : (keyToManaged m sc a b i p).1.syncedTo = m.syncedTo := by
  unfold keyToManaged; split <;> rfl

/-! ### loadAccountInfo against the database -/

/-- the account info `loadAccountInfo` builds from a row (the two last-address objects are the next two heap ids) -/
def rowInfo (m : Mem) (row : AcctRow) : AcctInfo :=
  { name := row.name, wo := row.wo, hasEnc := row.hasPriv && !row.wo, keyPriv := !m.locked && !m.watchOnly && !row.wo,
    nextExt := row.nextExt, nextInt := row.nextInt, lastExt := m.heapN, lastInt := m.heapN + 1 }

theorem loadAcctRow_spec (m : Mem) (sc a : Nat) (row : AcctRow) :
    let m1 := loadAcctRow m sc a row
    (m1.scopes sc).acctInfo = aset (m.scopes sc).acctInfo a (rowInfo m row) ∧
    (∀ sc', sc' ≠ sc → (m1.scopes sc').acctInfo = (m.scopes sc').acctInfo) ∧
    (∀ sc', (m1.scopes sc').addrs = (m.scopes sc').addrs) ∧
    (∀ id, id < m.heapN → m1.heap id = m.heap id) ∧ m1.heapN = m.heapN + 2 ∧
    m1.syncedTo = m.syncedTo ∧ Scal m1 = Scal m ∧
    (m1.heap m.heapN).key = .chain a 0 (row.nextExt - 1) ∧ (m1.heap m.heapN).acct = a ∧
    (m1.heap (m.heapN + 1)).key = .chain a 1 (row.nextInt - 1) ∧ (m1.heap (m.heapN + 1)).acct = a := by
  unfold loadAcctRow
  dsimp only
  refine ⟨?_, ?_, ?_, ?_, ?_, ?_, ?_, ?_, ?_, ?_, ?_⟩
  · simp [Mem.updScope, ktm_acctInfo, ktm_snd, ktm_heapN, rowInfo]
  · intro sc' hne; simp [Mem.updScope, hne, ktm_acctInfo]
  · intro sc'; simp only [Mem.updScope]; split <;> simp [ktm_addrs]
  · intro id hid
    simp only [Mem.updScope, ktm_heap, ktm_heapN]
    have h1 : id ≠ m.heapN + 1 := by omega
    have h2 : id ≠ m.heapN := by omega
    simp [h1, h2]
  · simp only [Mem.updScope, ktm_heapN]
  · simp [Mem.updScope, ktm_synced]
  · simp [scal_updScope, scal_keyToManaged]
  · simp [Mem.updScope, ktm_heap, ktm_heapN]
  · simp [Mem.updScope, ktm_heap, ktm_heapN]
  · simp [Mem.updScope, ktm_heap, ktm_heapN]
  · simp [Mem.updScope, ktm_heap, ktm_heapN]

theorem loadAcct_uncached {d : Disk} {m : Mem} {sc a : Nat} {row : AcctRow}
    (hc : aget (m.scopes sc).acctInfo a = none) (hr : acctAns d sc a = .ok row)
    (hp : (!m.locked && !m.watchOnly && !row.wo && !row.hasPriv) = false) :
    loadAcct d m sc a = .ok (loadAcctRow m sc a row) := by
  unfold acctAns at hr
  cases hrow : aget (d.scopes sc).accts a with
  | none => simp [hrow] at hr
  | some row' =>
    simp only [hrow] at hr
    by_cases hi : a = IMPORTED
    · simp [hi] at hr
    · simp only [hi, if_false] at hr
      cases hr
      have hne : ¬ ((!m.locked && !m.watchOnly && !row.wo && !row.hasPriv) = true) := by rw [hp]; simp
      unfold loadAcct
      simp only [hc, hrow]
      rw [if_neg hi, if_neg hne]

theorem loadAcct_uncached_err {d : Disk} {m : Mem} {sc a : Nat} {e : Err}
    (hc : aget (m.scopes sc).acctInfo a = none) (hr : acctAns d sc a = .error e) :
    loadAcct d m sc a = .error e := by
  unfold acctAns at hr
  unfold loadAcct
  simp only [hc]
  cases hrow : aget (d.scopes sc).accts a with
  | none => simp [hrow] at hr; simp [hr]
  | some row' =>
    simp only [hrow] at hr ⊢
    by_cases hi : a = IMPORTED
    · simp [hi] at hr ⊢; exact hr
    · simp [hi] at hr

theorem loadAcct_cached {d : Disk} {m : Mem} {sc a : Nat} {ai : AcctInfo}
    (hc : aget (m.scopes sc).acctInfo a = some ai) : loadAcct d m sc a = .ok m := by
  unfold loadAcct; simp [hc]

theorem privOK_hp {d : Disk} {m : Mem} (h : PrivOK d m) {sc a : Nat} {row : AcctRow} (hr : acctAns d sc a = .ok row) :
    (!m.locked && !m.watchOnly && !row.wo && !row.hasPriv) = false := by
  rcases h with h | h | h
  · simp [h]
  · simp [h]
  · by_cases hw : row.wo = true
    · simp [hw]
    · have := h sc a row hr (by simpa using hw)
      simp [this]

/-- `loadAccountInfo` of a coherent manager, described by the database row -/
theorem loadAcct_ans {d : Disk} {m : Mem}
    (hacct : ∀ sc a ai, aget (m.scopes sc).acctInfo a = some ai → ∃ row, acctAns d sc a = .ok row ∧ InfoOK m a ai row)
    (hpriv : PrivOK d m) (sc a : Nat) :
    match acctAns d sc a with
    | .error e => loadAcct d m sc a = .error e
    | .ok row => ∃ m1 ai, loadAcct d m sc a = .ok m1 ∧ acctInfoOf m1 sc a = some ai ∧ InfoOK m1 a ai row := by
  cases hc : aget (m.scopes sc).acctInfo a with
  | some ai =>
    obtain ⟨row, hr, hok⟩ := hacct sc a ai hc
    rw [hr]
    exact ⟨m, ai, loadAcct_cached hc, hc, hok⟩
  | none =>
    cases hr : acctAns d sc a with
    | error e => exact loadAcct_uncached_err hc hr
    | ok row =>
      have hl := loadAcct_uncached hc hr (privOK_hp hpriv hr)
      have hs := loadAcctRow_spec m sc a row
      dsimp only at hs
      obtain ⟨h1, _, _, _, _, _, _, k1, k2, k3, k4⟩ := hs
      refine ⟨_, rowInfo m row, hl, ?_, ?_⟩
      · unfold acctInfoOf; rw [h1, aget_aset_self]
      · exact ⟨rfl, rfl, rfl, k1, k2, k3, k4⟩

theorem query_props_ans {d : Disk} {m : Mem}
    (hacct : ∀ sc a ai, aget (m.scopes sc).acctInfo a = some ai → ∃ row, acctAns d sc a = .ok row ∧ InfoOK m a ai row)
    (hpriv : PrivOK d m) (sc a : Nat) : (query d m (.props sc a)).2 = propsAns d sc a := by
  unfold query propsAns
  by_cases hi : a = IMPORTED
  · simp [hi]
  · simp only [hi, if_false]
    have h := loadAcct_ans hacct hpriv sc a
    cases hr : acctAns d sc a with
    | error e => rw [hr] at h; simp only at h; simp [h]
    | ok row =>
      rw [hr] at h; simp only at h
      obtain ⟨m1, ai, hl, hai, hok⟩ := h
      simp only [hl, hai]
      rw [hok.1, hok.2.1, hok.2.2.1]

theorem lastOf_info {m : Mem} {a : Nat} {ai : AcctInfo} {row : AcctRow} (hok : InfoOK m a ai row) (internal : Bool) :
    nextOf ai internal = rowNext row internal ∧
    (m.heap (lastOf ai internal)).key = .chain a (brOf internal) (rowNext row internal - 1) ∧
    (m.heap (lastOf ai internal)).acct = a := by
  obtain ⟨_, h2, h3, h4, h5, h6, h7⟩ := hok
  cases internal <;> simp [nextOf, rowNext, lastOf, brOf, h2, h3, h4, h5, h6, h7]

theorem query_last_ans {d : Disk} {m : Mem}
    (hacct : ∀ sc a ai, aget (m.scopes sc).acctInfo a = some ai → ∃ row, acctAns d sc a = .ok row ∧ InfoOK m a ai row)
    (hpriv : PrivOK d m) (sc a : Nat) (internal : Bool) :
    (query d m (.lastAddr sc a internal)).2 = lastAns d sc a internal := by
  unfold query lastAns
  have h := loadAcct_ans hacct hpriv sc a
  cases hr : acctAns d sc a with
  | error e => rw [hr] at h; simp only at h; simp [h]
  | ok row =>
    rw [hr] at h; simp only at h
    obtain ⟨m1, ai, hl, hai, hok⟩ := h
    obtain ⟨k1, k2, k3⟩ := lastOf_info hok internal
    simp only [hl, hai, k1]
    by_cases hz : rowNext row internal > 0
    · simp only [hz, if_true]; rw [k2, k3]
    · simp only [hz, if_false]

/-- outcome of an address lookup against what the database says -/
def AddrOutcome (d : Disk) (m : Mem) (sc : Nat) (k : AKey) : Prop :=
  (∃ r, addressOf d m sc k = .ok r ∧ addrAns d sc k = .addr (r.1.heap r.2).key (r.1.heap r.2).acct) ∨
  (∃ e, addressOf d m sc k = .error e ∧ addrAns d sc k = .err e)

theorem chainRow_ans {d : Disk} {m : Mem}
    (hacct : ∀ sc a ai, aget (m.scopes sc).acctInfo a = some ai → ∃ row, acctAns d sc a = .ok row ∧ InfoOK m a ai row)
    (hpriv : PrivOK d m) (sc a b i : Nat) :
    match acctAns d sc a with
    | .error e => chainRowToManaged d m sc a b i = .error e
    | .ok _ => ∃ r, chainRowToManaged d m sc a b i = .ok r ∧ (r.1.heap r.2).key = .chain a b i ∧ (r.1.heap r.2).acct = a := by
  have h := loadAcct_ans hacct hpriv sc a
  cases hr : acctAns d sc a with
  | error e => rw [hr] at h; simp only at h ⊢; unfold chainRowToManaged; simp [h]
  | ok row =>
    rw [hr] at h; simp only at h ⊢
    obtain ⟨m1, ai, hl, hai, _⟩ := h
    unfold chainRowToManaged
    simp only [hl, hai]
    refine ⟨_, rfl, ?_, ?_⟩ <;> simp [ktm_heap, ktm_snd]

theorem addressOf_ans {d : Disk} {m : Mem}
    (hacct : ∀ sc a ai, aget (m.scopes sc).acctInfo a = some ai → ∃ row, acctAns d sc a = .ok row ∧ InfoOK m a ai row)
    (haddr : ∀ sc k id, aget (m.scopes sc).addrs k = some id →
             addrAns d sc k = .addr k (keyAcct k) ∧ (m.heap id).key = k ∧ (m.heap id).acct = keyAcct k)
    (hpriv : PrivOK d m) (sc : Nat) (k : AKey) : AddrOutcome d m sc k := by
  unfold AddrOutcome addressOf
  cases hc : aget (m.scopes sc).addrs k with
  | some id =>
    obtain ⟨h1, h2, h3⟩ := haddr sc k id hc
    exact Or.inl ⟨(m, id), rfl, by simp only [h1, h2, h3]⟩
  | none =>
    simp only
    unfold loadAndCache addrAns
    cases hrow : aget (d.scopes sc).addrs k with
    | none => exact Or.inr ⟨_, rfl, rfl⟩
    | some row =>
      simp only
      cases row with
      | chain =>
        cases k with
        | chain a b i =>
          simp only
          have h := chainRow_ans hacct hpriv sc a b i
          cases hr : acctAns d sc a with
          | error e => rw [hr] at h; simp only at h; exact Or.inr ⟨e, by simp [h], rfl⟩
          | ok row' =>
            rw [hr] at h; simp only at h
            obtain ⟨r, hcr, hk, ha⟩ := h
            refine Or.inl ⟨(r.1.updScope sc (fun s => { s with addrs := aset s.addrs (.chain a b i) r.2 }), r.2),
              by simp only [hcr], ?_⟩
            simp only [Mem.updScope]
            rw [hk, ha]
        | imp k' => exact Or.inr ⟨_, rfl, rfl⟩
        | scr k1 k2 => exact Or.inr ⟨_, rfl, rfl⟩
      | imp hp =>
        refine Or.inl ⟨_, rfl, ?_⟩
        cases k <;> simp [Mem.updScope, Mem.alloc]
      | script hs =>
        refine Or.inl ⟨_, rfl, ?_⟩
        cases k <;> simp [Mem.updScope, Mem.alloc]
      | wscript t s' h' =>
        refine Or.inl ⟨_, rfl, ?_⟩
        cases k <;> simp [Mem.updScope, Mem.alloc]

theorem query_address_ans {d : Disk} {m : Mem} (sc : Nat) (k : AKey) (h : AddrOutcome d m sc k) :
    (query d m (.address sc k)).2 = addrAns d sc k := by
  unfold query
  rcases h with ⟨r, h1, h2⟩ | ⟨e, h1, h2⟩
  · simp only [h1, h2]
  · simp only [h1, h2]

theorem query_used_ans {d : Disk} {m : Mem} (sc : Nat) (k : AKey) (h : AddrOutcome d m sc k) :
    (query d m (.used sc k)).2 = usedAns d sc k := by
  unfold query usedAns
  rcases h with ⟨r, h1, h2⟩ | ⟨e, h1, h2⟩
  · simp only [h1, h2]
  · simp only [h1, h2]

/-- **Coherent caches answer every query of the property from the database.** -/
theorem query_ans {d : Disk} {m : Mem} (h : Coherent d m) (q : Query) : (query d m q).2 = qAns d q := by
  cases q with
  | address sc k => exact query_address_ans sc k (addressOf_ans h.acct h.addr h.priv sc k)
  | props sc a => exact query_props_ans h.acct h.priv sc a
  | lastAddr sc a i => exact query_last_ans h.acct h.priv sc a i
  | lookup sc n => simp only [query, qAns]; cases lookupName (d.scopes sc) n <;> rfl
  | acctName sc a => simp only [query, qAns]; cases aget (d.scopes sc).accts a <;> rfl
  | used sc k => exact query_used_ans sc k (addressOf_ans h.acct h.addr h.priv sc k)
  | syncedTo => simp only [query, qAns, h.synced]
  | blockHash x => simp only [query, qAns]; cases aget d.hashes x <;> rfl

/-- a freshly opened manager is coherent with its database (empty caches, locked) -/
theorem coherent_open (d : Disk) : Coherent d (openMem d) where
  acct := by intro sc a ai h; simp [openMem, aget] at h
  addr := by intro sc k id h; simp [openMem, aget] at h
  priv := Or.inl rfl
  synced := rfl

end AddrLock
