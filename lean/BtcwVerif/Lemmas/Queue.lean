/-
Helper lemmas for C18: the step function of `Queue.expectedTable` written out by hand (`wstepSpec`, the `Start`
loop read clause by clause), its equality with the table interpreter, and the invariant.
-/
import BtcwVerif.Model.Queue
namespace Queue
variable {α : Type}

/-- The `Start` loop of chain/queue.go, clause by clause (what `wstep expectedTable` computes). -/
def wstepSpec (s : State α) (l : WLabel α) : Option (State α) :=
  match s.pc with
  | .exited => none
  | .top =>
    match s.overflow, l with
    -- `nextElement == nil`
    | [], .recvIn x =>
      some { s with accepted := s.accepted ++ [x], held := some x, handled := false, pc := .inner expectedInner }
    | [], .quit => if s.quitClosed then some { finish s with pc := .exited } else none
    | [], _ => none
    -- `nextElement != nil`
    | f :: r, .recvIn x =>
      some (finish { s with accepted := s.accepted ++ [x], held := some x, handled := true, overflow := (f :: r) ++ [x] })
    | f :: r, .sendFront => if sendReady s then some (finish { deliver s f with overflow := r }) else none
    | _ :: _, .quit => if s.quitClosed then some { finish s with pc := .exited } else none
    | _ :: _, _ => none
  | .inner _ =>
    -- nested non-blocking select
    match s.held, l with
    | some x, .sendItem => if sendReady s then some (finish (deliver { s with handled := true } x)) else none
    | _, .quit => if s.quitClosed then some { finish s with pc := .exited } else none
    | some x, .dflt =>
      if !sendReady s && !s.quitClosed then some (finish { s with overflow := s.overflow ++ [x], handled := true })
      else none
    | none, .dflt => if !s.quitClosed then some (finish s) else none
    | _, _ => none

theorem wstep_expected (s : State α) (l : WLabel α) (h : ∀ cs, s.pc = .inner cs → cs = expectedInner) :
    wstep expectedTable s l = wstepSpec s l := by
  obtain ⟨cap, out, overflow, delivered, accepted, lost, held, handled, pc, quitClosed, waiting⟩ := s
  cases pc with
  | exited => cases l <;> rfl
  | top =>
    cases overflow with
    | nil => cases l <;> cases quitClosed <;> rfl
    | cons f r => cases l <;> cases quitClosed <;> cases waiting <;> rfl
  | inner cs =>
    have := h cs rfl
    subst this
    cases held <;> cases l <;> cases quitClosed <;> cases waiting <;> rfl

/-! ### The invariant -/

structure Inv (c : Nat) (s : State α) : Prop where
  capc : s.cap = c
  acc : s.accepted = s.delivered ++ s.out ++ s.overflow ++ s.held.toList ++ s.lost
  cap : s.out.length ≤ s.cap
  wait : s.waiting = true → s.out = []
  top : s.pc = .top → s.held = none ∧ s.handled = false ∧ s.lost = []
  inner : ∀ cs, s.pc = .inner cs →
    cs = expectedInner ∧ s.held.isSome = true ∧ s.overflow = [] ∧ s.handled = false ∧ s.lost = []
  exited : s.pc = .exited → s.quitClosed = true ∧ s.held = none ∧ s.lost.length ≤ 1

theorem inv_init (c : Nat) : Inv c (init α c) := by
  constructor <;> simp [init]

theorem inv_wstepSpec {c : Nat} {s s' : State α} {l : WLabel α} (hI : Inv c s) (h : wstepSpec s l = some s') :
    Inv c s' := by
  obtain ⟨cap, out, overflow, delivered, accepted, lost, held, handled, pc, quitClosed, waiting⟩ := s
  obtain ⟨hcapc, hacc, hcap, hwait, htop, hinner, hexit⟩ := hI
  simp only at hcapc hacc hcap hwait htop hinner hexit
  cases pc with
  | exited => simp [wstepSpec] at h
  | top =>
    obtain ⟨rfl, rfl, rfl⟩ := htop rfl
    cases overflow with
    | nil =>
      cases l <;> simp [wstepSpec] at h
      · subst h; constructor <;> simp_all
      · obtain ⟨hq, rfl⟩ := h; constructor <;> simp_all [finish]
    | cons f r =>
      cases l <;> simp [wstepSpec] at h
      · subst h; constructor <;> simp_all [finish]
      · obtain ⟨hr, rfl⟩ := h
        cases waiting <;> constructor <;> simp_all [finish, deliver, sendReady] <;> omega
      · obtain ⟨hq, rfl⟩ := h; constructor <;> simp_all [finish]
  | inner cs =>
    obtain ⟨rfl, hh, rfl, rfl, rfl⟩ := hinner cs rfl
    cases held with
    | none => simp at hh
    | some x =>
      cases l <;> simp [wstepSpec] at h
      · obtain ⟨hr, rfl⟩ := h
        cases waiting <;> constructor <;> simp_all [finish, deliver, sendReady] <;> omega
      · obtain ⟨hq, rfl⟩ := h; constructor <;> simp_all [finish]
      · obtain ⟨hr, rfl⟩ := h; constructor <;> simp_all [finish]

theorem inv_estep {c : Nat} {s s' : State α} {l : ELabel} (hI : Inv c s) (h : estep s l = some s') : Inv c s' := by
  obtain ⟨cap, out, overflow, delivered, accepted, lost, held, handled, pc, quitClosed, waiting⟩ := s
  obtain ⟨hcapc, hacc, hcap, hwait, htop, hinner, hexit⟩ := hI
  simp only at hcapc hacc hcap hwait htop hinner hexit
  cases l with
  | consume =>
    cases out with
    | nil => simp [estep] at h
    | cons x o =>
      simp [estep] at h; subst h
      constructor <;> simp_all
      omega
  | wait =>
    simp [estep] at h; obtain ⟨⟨h1, h2⟩, rfl⟩ := h
    constructor <;> simp_all
  | unwait =>
    simp [estep] at h; obtain ⟨h1, rfl⟩ := h
    constructor <;> simp_all
  | stop =>
    simp [estep] at h; obtain ⟨h1, rfl⟩ := h
    constructor <;> simp_all

theorem step_w_eq {c : Nat} {s : State α} (hI : Inv c s) (l : WLabel α) :
    step expectedTable s (.w l) = wstepSpec s l :=
  wstep_expected s l (fun cs h => (hI.inner cs h).1)

theorem inv_step {c : Nat} {s s' : State α} {l : Label α} (hI : Inv c s) (h : step expectedTable s l = some s') :
    Inv c s' := by
  cases l with
  | w l => rw [step_w_eq hI] at h; exact inv_wstepSpec hI h
  | e l => exact inv_estep hI h

theorem inv_run {c : Nat} : ∀ (tr : List (Label α)) {s s' : State α}, Inv c s → run expectedTable s tr = some s' →
    Inv c s'
  | [], s, s', hI, h => by simp [run] at h; exact h ▸ hI
  | l :: ls, s, s', hI, h => by
    simp only [run] at h
    cases hs : step expectedTable s l with
    | none => simp [hs] at h
    | some s1 => simp [hs] at h; exact inv_run ls (inv_step hI hs) h

theorem inv_reachable {c : Nat} {s : State α} (h : Reachable expectedTable c s) : Inv c s := by
  obtain ⟨tr, h⟩ := h
  exact inv_run tr (inv_init c) h

theorem run_append (t : Table) : ∀ (a b : List (Label α)) (s : State α),
    run t s (a ++ b) = (run t s a).bind (fun s' => run t s' b)
  | [], b, s => by simp [run]
  | l :: a, b, s => by
    simp only [List.cons_append, run]
    cases step t s l with
    | none => simp
    | some s1 => simpa using run_append t a b s1

theorem run_cons_some {t : Table} {s s1 : State α} {l : Label α} (h : step t s l = some s1) (ls : List (Label α)) :
    run t s (l :: ls) = run t s1 ls := by
  simp [run, h]

end Queue
