/-
Preservation of `Good` (cache/database coherence + well-formedness) by the operations of the address manager.
Part 1: operations that do not write to the database.
-/
import BtcwVerif.Lemmas.AddrGood
namespace AddrLock

theorem aget_map_snd {α β γ} [DecidableEq α] (l : List (α × β)) (f : β → γ) (k : α) :
    aget (l.map (fun p => (p.1, f p.2))) k = (aget l k).map f := by
  induction l with
  | nil => rfl
  | cons p t ih =>
    obtain ⟨k', v⟩ := p
    by_cases h : k' = k <;> simp [aget, h, ih]

theorem aget_adel_some {α β} [DecidableEq α] {l : List (α × β)} {k k' : α} {v : β}
    (h : aget (adel l k) k' = some v) : aget l k' = some v := by
  induction l with
  | nil => simp [adel, aget] at h
  | cons p t ih =>
    obtain ⟨k0, v0⟩ := p
    by_cases h0 : k0 = k
    · subst h0
      simp only [adel, if_true] at h
      have := ih h
      by_cases h1 : k0 = k'
      · subst h1
        -- k' was deleted everywhere: contradiction with h
        exfalso
        clear ih this
        induction t with
        | nil => simp [adel, aget] at h
        | cons q t' ih' =>
          obtain ⟨k1, v1⟩ := q
          by_cases h2 : k1 = k0
          · subst h2; simp only [adel, if_true] at h; exact ih' h
          · simp only [adel, h2, if_false, aget] at h; exact ih' h
      · simp [aget, h1, this]
    · simp only [adel, h0, if_false] at h
      by_cases h1 : k0 = k'
      · subst h1; simp only [aget, if_true] at h ⊢; exact h
      · simp only [aget, h1, if_false] at h ⊢; exact ih h

/-- same caches, same heap, same sync state and watch-only flag: only lock state / buffers / passphrase data differ -/
theorem good_same {d : Disk} {m m' : Mem} (hg : Good d m) (hs : m'.scopes = m.scopes) (hh : m'.heap = m.heap)
    (hn : m'.heapN = m.heapN) (hsy : m'.syncedTo = m.syncedTo) (hw : m'.watchOnly = m.watchOnly) : Good d m' :=
  good_ext hg ⟨by rw [hn]; exact Nat.le_refl _, fun id _ => by rw [hh]; exact ⟨rfl, rfl⟩, hsy, hw⟩
    (fun sc k id h => by rw [hs] at h; exact h) (fun sc a ai h => Or.inl ⟨ai, by rw [hs] at h; exact h, rfl⟩)

theorem good_setObj {d : Disk} {m : Mem} (hg : Good d m) (id : Nat) (f : Obj → Obj)
    (hf : ∀ o, (f o).key = o.key ∧ (f o).acct = o.acct) : Good d (m.setObj id f) :=
  good_ext hg ⟨Nat.le_refl _, fun i _ => by
      simp only [Mem.setObj]; split
      · exact hf _
      · exact ⟨rfl, rfl⟩, rfl, rfl⟩
    (fun _ _ _ h => h) (fun _ _ ai h => Or.inl ⟨ai, h, rfl⟩)

/-- a scope update that leaves the account and address caches alone (dou, pkc) -/
theorem good_updScope_other {d : Disk} {m : Mem} (hg : Good d m) (sc : Nat) (f : ScopeMem → ScopeMem)
    (hf : ∀ s, (f s).acctInfo = s.acctInfo ∧ (f s).addrs = s.addrs) : Good d (m.updScope sc f) :=
  good_ext hg (ext_updScope m sc f)
    (fun sc' k id h => by
      simp only [Mem.updScope] at h
      by_cases hsc : sc' = sc
      · subst hsc; simp only [if_true] at h; rw [(hf _).2] at h; exact h
      · simp only [hsc, if_false] at h; exact h)
    (fun sc' a ai h => Or.inl ⟨ai, by
      simp only [Mem.updScope] at h
      by_cases hsc : sc' = sc
      · subst hsc; simp only [if_true] at h; rw [(hf _).1] at h; exact h
      · simp only [hsc, if_false] at h; exact h, rfl⟩)

theorem good_lockMem {d : Disk} {m : Mem} (cfg : Cfg) (hg : Good d m) : Good d (lockMem cfg m) :=
  good_ext hg
    ⟨Nat.le_refl _, fun id _ => by simp only [lockMem]; split <;> exact ⟨rfl, rfl⟩, rfl, rfl⟩
    (fun _ _ _ h => h)
    (fun sc a ai h => by
      simp only [lockMem, lockScope] at h
      have h : (aget (m.scopes sc).acctInfo a).map (fun i : AcctInfo => { i with keyPriv := false }) = some ai :=
        (aget_map_snd (m.scopes sc).acctInfo (fun i : AcctInfo => { i with keyPriv := false }) a).symm.trans h
      cases h0 : aget (m.scopes sc).acctInfo a with
      | none => simp [h0] at h
      | some ai0 => simp only [h0, Option.map] at h; cases h; exact Or.inl ⟨ai0, rfl, rfl⟩)

theorem good_setCT {d : Disk} {m : Mem} (hg : Good d m) (id : Nat) :
    Good d (m.setObj id (fun o => { o with ct := true })) :=
  good_setObj hg id _ (fun _ => ⟨rfl, rfl⟩)

theorem good_privKeyObj {d : Disk} {m : Mem} (hg : Good d m) (id : Nat) : Good d (privKeyObj m id).1 := by
  unfold privKeyObj; dsimp only
  repeat' split
  all_goals first | exact hg | exact good_setCT hg id

theorem good_scriptObj {d : Disk} {m : Mem} (hg : Good d m) (id : Nat) : Good d (scriptObj m id).1 := by
  unfold scriptObj; dsimp only
  repeat' split
  all_goals first | exact hg | exact good_setCT hg id

theorem good_deriveCache {d : Disk} {m : Mem} (cfg : Cfg) (hg : Good d m) (sc : Nat) (p : Path) :
    Good d (deriveCache cfg m sc p).1 := by
  unfold deriveCache; dsimp only
  repeat' split
  all_goals first
    | exact hg
    | exact good_updScope_other hg sc (fun s => { s with pkc := pkcTouch s.pkc p }) (fun _ => ⟨rfl, rfl⟩)
    | exact good_updScope_other hg sc (fun s => { s with pkc := (pkcTouch s.pkc p).take cfg.cap }) (fun _ => ⟨rfl, rfl⟩)

theorem good_chainRow {d : Disk} {m : Mem} {sc a b i : Nat} {r : Mem × Nat} (hg : Good d m)
    (h : chainRowToManaged d m sc a b i = .ok r) : Good d r.1 := by
  unfold chainRowToManaged at h
  split at h
  · cases h
  · rename_i m1 hl
    split at h
    · cases h
    · cases h; exact good_ktm (loadAcct_good hg hl).good ..

theorem good_derivePath {d : Disk} {m : Mem} (hg : Good d m) (sc a b i : Nat) : Good d (derivePath d m sc a b i).1 := by
  unfold derivePath; split
  · exact hg
  · rename_i r hr; exact good_privKeyObj (good_chainRow hg hr) _

theorem good_query {d : Disk} {m : Mem} (hg : Good d m) (q : Query) : Good d (query d m q).1 := by
  cases q <;> simp only [query]
  · split
    · exact hg
    · rename_i r hr; exact (addressOf_good hg hr).good
  · split
    · exact hg
    · split
      · exact hg
      · rename_i m1 hl; split <;> exact (loadAcct_good hg hl).good
  · split
    · exact hg
    · rename_i m1 hl; split
      · exact (loadAcct_good hg hl).good
      · split <;> exact (loadAcct_good hg hl).good
  · split <;> exact hg
  · split <;> exact hg
  · split
    · exact hg
    · rename_i r hr; exact (addressOf_good hg hr).good
  · exact hg
  · split <;> exact hg

/-! ### Unlock -/

theorem unlockAccts_view (cfg : Cfg) {l l' : List (Nat × AcctInfo)} (h : unlockAccts cfg l = some l') (a : Nat) :
    Option.map infoView (aget l' a) = Option.map infoView (aget l a) := by
  induction l generalizing l' with
  | nil => simp [unlockAccts] at h; subst h; rfl
  | cons p t ih =>
    obtain ⟨a0, i0⟩ := p
    simp only [unlockAccts] at h
    split at h
    · split at h
      · cases ht : unlockAccts cfg t with
        | none => simp [ht] at h
        | some t' =>
          simp only [ht, Option.map] at h; cases h
          by_cases h1 : a0 = a
          · simp [aget, h1]
          · simp [aget, h1, ih ht]
      · cases h
    · cases ht : unlockAccts cfg t with
      | none => simp [ht] at h
      | some t' =>
        simp only [ht, Option.map] at h; cases h
        by_cases h1 : a0 = a
        · simp [aget, h1, infoView]
        · simp [aget, h1, ih ht]

theorem good_unlockDou {d : Disk} (cfg : Cfg) (sc : Nat) (es : List Dou) {m : Mem} (hg : Good d m) :
    Good d (unlockDou cfg d sc es m).1 := by
  induction es generalizing m with
  | nil => exact hg
  | cons e es ih =>
    simp only [unlockDou]
    split
    · exact hg
    · rename_i m1 hl
      have g1 := (loadAcct_good hg hl).good
      split
      · split
        · apply ih; apply good_updScope_other g1; intro s; exact ⟨rfl, rfl⟩
        · exact g1
      · apply ih
        apply good_updScope_other
        · apply good_setObj g1
          intro o; split <;> exact ⟨rfl, rfl⟩
        · intro s; exact ⟨rfl, rfl⟩

theorem good_unlockScopes {d : Disk} (cfg : Cfg) (scs : List Nat) {m : Mem} (hg : Good d m) :
    Good d (unlockScopes cfg d scs m).1 := by
  induction scs generalizing m with
  | nil => exact hg
  | cons sc rest ih =>
    simp only [unlockScopes]
    split
    · exact hg
    · rename_i ai hai
      have g1 : Good d (m.updScope sc fun s => { s with acctInfo := ai }) := by
        apply good_ext hg (ext_updScope _ _ _)
        · intro sc' k id h
          simp only [Mem.updScope] at h
          by_cases hsc : sc' = sc
          · subst hsc; simp only [if_true] at h; exact h
          · simp only [hsc, if_false] at h; exact h
        · intro sc' a ai' h
          simp only [Mem.updScope] at h
          by_cases hsc : sc' = sc
          · subst hsc
            simp only [if_true] at h
            have hv := unlockAccts_view cfg hai a
            rw [h] at hv
            cases h0 : aget (m.scopes sc').acctInfo a with
            | none => simp [h0] at hv
            | some ai0 => simp only [h0, Option.map, Option.some.injEq] at hv; exact Or.inl ⟨ai0, rfl, hv.symm⟩
          · simp only [hsc, if_false] at h; exact Or.inl ⟨ai', h, rfl⟩
      have g2 := good_unlockDou cfg sc ((m.updScope sc fun s => { s with acctInfo := ai }).scopes sc).dou g1
      split
      · rename_i m2 e heq; rw [heq] at g2; exact g2
      · rename_i m2 heq; rw [heq] at g2; exact ih g2

theorem good_unlock {d : Disk} (cfg : Cfg) {m : Mem} (hg : Good d m) (p : Nat) : Good d (unlock cfg d m p).1 := by
  unfold unlock
  split
  · exact hg
  · split
    · dsimp only
      split
      · exact good_same hg rfl rfl rfl rfl rfl
      · exact good_lockMem cfg (good_same hg rfl rfl rfl rfl rfl)
    · split
      · exact good_lockMem cfg hg
      · dsimp only
        have g1 : Good d (unlockStart cfg m) := good_same hg rfl rfl rfl rfl rfl
        have g2 := good_unlockScopes cfg (List.range nScopes) g1
        split
        · rename_i m2 heq; rw [heq] at g2; exact g2
        · rename_i m2 e _ heq; rw [heq] at g2; exact good_lockMem cfg g2
        · rename_i m2 heq; rw [heq] at g2; exact good_same g2 rfl rfl rfl rfl rfl

theorem good_lockOp {d : Disk} (cfg : Cfg) {m : Mem} (hg : Good d m) : Good d (lockOp cfg m).1 := by
  unfold lockOp; repeat' split
  all_goals first | exact hg | exact good_lockMem cfg hg

end AddrLock
