/-
`Good` over whole steps: every operation run in its own database transaction (committed when it succeeds, rolled back
when it fails) keeps the running manager coherent with the database.
-/
import BtcwVerif.Lemmas.AddrGoodNext
namespace AddrLock

theorem changePass_err (cfg : Cfg) (d : Disk) (m : Mem) (o n : Nat) (pr : Bool)
    (h : (changePass cfg d m o n pr).2.2 ≠ none) :
    (changePass cfg d m o n pr).1 = d ∧ (changePass cfg d m o n pr).2.1 = m := by
  unfold changePass at h ⊢
  repeat' split
  all_goals first | exact ⟨rfl, rfl⟩ | simp_all

theorem rename_err (d : Disk) (m : Mem) (sc a : Nat) (n : String) (h : (renameAccount d m sc a n).2.2 ≠ none) :
    (renameAccount d m sc a n).1 = d ∧ (renameAccount d m sc a n).2.1 = m := by
  unfold renameAccount at h ⊢
  dsimp only at h ⊢
  repeat' split
  all_goals first | exact ⟨rfl, rfl⟩ | simp_all

theorem importKey_err (d : Disk) (m : Mem) (sc k : Nat) (pr : Bool) (h : (importKey d m sc k pr).2.2 ≠ none) :
    (importKey d m sc k pr).1 = d ∧ (importKey d m sc k pr).2.1 = m := by
  unfold importKey at h ⊢
  dsimp only at h ⊢
  repeat' split
  all_goals first | exact ⟨rfl, rfl⟩ | simp_all

theorem importScript_err (d : Disk) (m : Mem) (sc kind sid : Nat) (sec : Bool)
    (h : (importScript d m sc kind sid sec).2.2 ≠ none) :
    (importScript d m sc kind sid sec).1 = d ∧ (importScript d m sc kind sid sec).2.1 = m := by
  unfold importScript at h ⊢
  dsimp only at h ⊢
  generalize (if kind = 0 then true else sec) = secret at h ⊢
  repeat' split
  all_goals first | exact ⟨rfl, rfl⟩ | simp_all

theorem setSynced_err (d : Disk) (m : Mem) (hh x : Nat) (h : (setSyncedTo d m hh x).2.2 ≠ none) :
    (setSyncedTo d m hh x).1 = d ∧ (setSyncedTo d m hh x).2.1 = m := by
  unfold setSyncedTo at h ⊢
  repeat' split
  all_goals first | exact ⟨rfl, rfl⟩ | simp_all

theorem newAccount_err (d : Disk) (m : Mem) (sc : Nat) (n : String) (wo : Bool) (e : Err)
    (h : (newAccount d m sc n wo).2 = .error e) : (newAccount d m sc n wo).1 = d := by
  unfold newAccount at h ⊢
  dsimp only at h ⊢
  repeat' split
  all_goals first | rfl | simp_all


/-- state-level invariant at transaction boundaries -/
def StGood (s : State) : Prop :=
  s.snap = none ∧ s.pend = [] ∧ DiskWF s.disk ∧ ∀ m, s.mem = some m → Good s.disk m

/-- not a transaction bracket -/
def Op.single : Op → Bool
  | .begin | .commit | .rollback => false
  | _ => true

theorem diskWF_create (pub priv : Nat) : DiskWF (createDisk pub priv) := by
  have hsc : ∀ sc, (createDisk pub priv).scopes sc = if sc < nScopes then defaultScope else {} := fun _ => rfl
  refine ⟨?_, ?_, ?_⟩
  · intro _ sc a row hr _
    obtain ⟨h1, h2⟩ := acctAns_ok_row hr
    rw [hsc] at h1
    split at h1
    · simp only [defaultScope, aget] at h1
      split at h1
      · cases h1; rfl
      · split at h1
        · rename_i h; exact absurd h.symm h2
        · cases h1
    · simp [aget] at h1
  · intro sc k row h
    rw [hsc] at h
    split at h <;> simp [defaultScope, aget] at h
  · intro sc a row h
    rw [hsc] at h ⊢
    split at h
    · simp only [defaultScope, aget] at h
      split at h
      · rename_i h0; left; rw [← h0]; simp [defaultScope]
      · split at h
        · rename_i h0; right; exact h0.symm
        · cases h
    · simp [aget] at h

/-- operations that do not write: the database, bracket state and pending list are untouched, memory stays good -/
theorem exec_ro (s : State) (m : Mem) (op : Op) (hw : op.writes = false) (hs : op.single = true)
    (hm : s.mem = some m) (hg : Good s.disk m) :
    (exec s m op).1.disk = s.disk ∧ (exec s m op).1.snap = s.snap ∧ (exec s m op).1.pend = s.pend ∧
    (exec s m op).1.cfg = s.cfg ∧ ∀ m', (exec s m op).1.mem = some m' → Good s.disk m' := by
  cases op <;> simp only [Op.writes, Op.single] at hw hs <;> try contradiction
  case create => exact ⟨rfl, rfl, rfl, rfl, fun m' h => by simp only [exec] at h; rw [hm] at h; cases h; exact hg⟩
  case reopen => exact ⟨rfl, rfl, rfl, rfl, fun m' h => by simp only [exec] at h; rw [hm] at h; cases h; exact hg⟩
  case unlock p => exact ⟨rfl, rfl, rfl, rfl, fun m' h => by simp only [exec] at h; cases h; exact good_unlock _ hg p⟩
  case lock => exact ⟨rfl, rfl, rfl, rfl, fun m' h => by simp only [exec] at h; cases h; exact good_lockOp _ hg⟩
  case privKey sc k =>
    simp only [exec]
    split
    · exact ⟨rfl, rfl, rfl, rfl, fun m' h => by rw [hm] at h; cases h; exact hg⟩
    · rename_i r hr
      exact ⟨rfl, rfl, rfl, rfl, fun m' h => by cases h; exact good_privKeyObj (addressOf_good hg hr).good _⟩
  case lastPrivKey sc a int =>
    simp only [exec]
    have hq := good_query hg (.lastAddr sc a int)
    split
    · rename_i m1 k' a' heq
      rw [heq] at hq
      split
      · exact ⟨rfl, rfl, rfl, rfl, fun m' h => by cases h; exact good_privKeyObj hq _⟩
      · exact ⟨rfl, rfl, rfl, rfl, fun m' h => by cases h; exact hq⟩
    · rename_i m1 e heq; rw [heq] at hq
      exact ⟨rfl, rfl, rfl, rfl, fun m' h => by cases h; exact hq⟩
    · rename_i m1 _ _ _ heq; rw [heq] at hq
      exact ⟨rfl, rfl, rfl, rfl, fun m' h => by cases h; exact hq⟩
  case script sc k =>
    simp only [exec]
    split
    · exact ⟨rfl, rfl, rfl, rfl, fun m' h => by rw [hm] at h; cases h; exact hg⟩
    · rename_i r hr
      exact ⟨rfl, rfl, rfl, rfl, fun m' h => by cases h; exact good_scriptObj (addressOf_good hg hr).good _⟩
  case crypt kt => exact ⟨rfl, rfl, rfl, rfl, fun m' h => by simp only [exec] at h; rw [hm] at h; cases h; exact hg⟩
  case derive sc a b i =>
    exact ⟨rfl, rfl, rfl, rfl, fun m' h => by simp only [exec] at h; cases h; exact good_derivePath hg ..⟩
  case deriveCache sc a b i =>
    exact ⟨rfl, rfl, rfl, rfl, fun m' h => by simp only [exec] at h; cases h; exact good_deriveCache _ hg ..⟩
  case q x => exact ⟨rfl, rfl, rfl, rfl, fun m' h => by simp only [exec] at h; cases h; exact good_query hg x⟩

theorem isErr_ofErr (x : Option Err) : isErr (ofErr x) = true ↔ x ≠ none := by
  cases x <;> simp [isErr, ofErr]

theorem isErr_ofErr_false (x : Option Err) : isErr (ofErr x) = false ↔ x = none := by
  cases x <;> simp [isErr, ofErr]

theorem exec_snap' (s : State) (m : Mem) (op : Op) : (exec s m op).1.snap = s.snap := by
  cases op <;> simp only [exec] <;> (repeat' split) <;> rfl

theorem exec_cfg' (s : State) (m : Mem) (op : Op) : (exec s m op).1.cfg = s.cfg := by
  cases op <;> simp only [exec] <;> (repeat' split) <;> rfl

/-- operations that write, executed inside a transaction that was opened for them alone -/
theorem exec_w (s : State) (m : Mem) (op : Op) (hw : op.writes = true) (hm : s.mem = some m)
    (hg : Good s.disk m) (hd : DiskWF s.disk) (hp : s.pend = []) :
    (isErr (exec s m op).2 = true → ∀ m', (exec s m op).1.mem = some m' → Good s.disk m') ∧
    (isErr (exec s m op).2 = false → DiskWF (exec s m op).1.disk ∧
      ∀ m', (exec s m op).1.mem = some m' →
        Good (exec s m op).1.disk ((exec s m op).1.pend.foldl (runPend s.cfg) m')) := by
  cases op <;> simp only [Op.writes] at hw <;> try contradiction
  case changePass o n pr =>
    simp only [exec]
    refine ⟨?_, ?_⟩
    · intro he m' h
      cases h
      rw [(changePass_err _ _ _ _ _ _ ((isErr_ofErr _).mp he)).2]; exact hg
    · intro _
      have := good_changePass s.cfg hg o n pr
      exact ⟨this.2 hd, fun m' h => by cases h; rw [hp]; exact this.1⟩
  case convertWO =>
    simp only [exec]
    have := good_convertWO s.cfg hg hd
    exact ⟨fun he => by simp [isErr] at he, fun _ => ⟨this.2, fun m' h => by cases h; rw [hp]; exact this.1⟩⟩
  case newAccount sc name wo =>
    simp only [exec]
    have := good_newAccount hg hd sc name wo
    split
    · rename_i d' a heq
      rw [heq] at this
      exact ⟨fun he => by simp [isErr] at he, fun _ => ⟨this.2, fun m' h => by
        simp only [hm] at h; cases h; rw [hp]; exact this.1⟩⟩
    · rename_i d' e heq
      exact ⟨fun _ m' h => by simp only [hm] at h; cases h; exact hg, fun he => by simp [isErr] at he⟩
  case rename sc a name =>
    simp only [exec]
    refine ⟨?_, ?_⟩
    · intro he m' h
      cases h
      rw [(rename_err _ _ _ _ _ ((isErr_ofErr _).mp he)).2]; exact hg
    · intro _
      have := good_rename hg hd sc a name
      exact ⟨this.2, fun m' h => by cases h; rw [hp]; exact this.1⟩
  case next sc a n int =>
    simp only [exec]
    have := good_next s.cfg hg hd sc a n int
    dsimp only at this
    cases hres : (nextAddresses s.disk m sc a n int).res with
    | error e =>
      obtain ⟨h1, h2⟩ := this.1 e hres
      exact ⟨fun _ m' h => by cases h; exact h2, fun he => by simp [isErr] at he⟩
    | ok l =>
      obtain ⟨p, h1, h2, h3⟩ := this.2 l hres
      refine ⟨fun he => by simp [isErr] at he, fun _ => ⟨h3, fun m' h => ?_⟩⟩
      cases h
      simp only [h1, hp, List.nil_append, List.foldl]
      exact h2
  case extend sc a li int =>
    simp only [exec]
    have := good_extend s.cfg hg hd sc a li int
    dsimp only at this
    exact ⟨fun he m' h => by cases h; exact this.2 ((isErr_ofErr _).mp he),
      fun he => ⟨(this.1 ((isErr_ofErr_false _).mp he)).2, fun m' h => by
        cases h; rw [hp]; exact (this.1 ((isErr_ofErr_false _).mp he)).1⟩⟩
  case importKey sc k pr =>
    simp only [exec]
    refine ⟨?_, ?_⟩
    · intro he m' h
      cases h
      rw [(importKey_err _ _ _ _ _ ((isErr_ofErr _).mp he)).2]; exact hg
    · intro _
      have := good_importKey hg hd sc k pr
      exact ⟨this.2, fun m' h => by cases h; rw [hp]; exact this.1⟩
  case importScript sc kind sid sec =>
    simp only [exec]
    refine ⟨?_, ?_⟩
    · intro he m' h
      cases h
      rw [(importScript_err _ _ _ _ _ _ ((isErr_ofErr _).mp he)).2]; exact hg
    · intro _
      have := good_importScript hg hd sc kind sid sec
      exact ⟨this.2, fun m' h => by cases h; rw [hp]; exact this.1⟩
  case markUsed sc k =>
    simp only [exec]
    have := good_markUsed hg sc k
    exact ⟨fun he => by simp [isErr] at he, fun _ => ⟨this.2 hd, fun m' h => by cases h; rw [hp]; exact this.1⟩⟩
  case setSynced h x =>
    simp only [exec]
    refine ⟨?_, ?_⟩
    · intro he m' h'
      cases h'
      rw [(setSynced_err _ _ _ _ ((isErr_ofErr _).mp he)).2]; exact hg
    · intro _
      have := good_setSynced hg h x
      exact ⟨this.2 hd, fun m' h' => by cases h'; rw [hp]; exact this.1⟩
  case setBirthday =>
    simp only [exec]
    have := good_setBirthday hg
    exact ⟨fun he => by simp [isErr] at he, fun _ => ⟨this.2 hd, fun m' h => by
      simp only [hm] at h; cases h; rw [hp]; exact this.1⟩⟩

/-- **every operation run in its own transaction keeps the manager coherent with the database** -/
theorem stGood_step (s : State) (op : Op) (h : StGood s) (hop : op.single = true) : StGood (step s op).1 := by
  obtain ⟨h1, h2, h3, h4⟩ := h
  have hsn : s.snap.isSome = false := by rw [h1]; rfl
  have generic : ∀ m, s.mem = some m →
      StGood (if s.snap.isSome || !op.writes then exec s m op
        else
          let r := exec { s with snap := some s.disk, pend := [] } m op
          if isErr r.2 then (rollbackTx r.1, r.2) else (commitTx r.1, r.2)).1 := by
    intro m hm
    by_cases hwr : op.writes = true
    · simp only [hsn, hwr, Bool.not_true, Bool.or_self, Bool.false_eq_true, if_false]
      have hsnap := exec_snap' { s with snap := some s.disk, pend := [] } m op
      have hcfg := exec_cfg' { s with snap := some s.disk, pend := [] } m op
      have hw := exec_w { s with snap := some s.disk, pend := [] } m op hwr hm (h4 m hm) h3 rfl
      split
      · rename_i he
        refine ⟨rfl, rfl, ?_, ?_⟩
        · simp only [rollbackTx, hsnap, Option.getD]; exact h3
        · intro m' hm'
          simp only [rollbackTx, hsnap, Option.getD] at hm' ⊢
          exact hw.1 he m' hm'
      · rename_i he
        have he' : isErr (exec { s with snap := some s.disk, pend := [] } m op).2 = false := by simpa using he
        obtain ⟨w1, w2⟩ := hw.2 he'
        refine ⟨rfl, rfl, w1, ?_⟩
        intro m' hm'
        simp only [commitTx] at hm' ⊢
        cases hmem : (exec { s with snap := some s.disk, pend := [] } m op).1.mem with
        | none => rw [hmem] at hm'; cases hm'
        | some m0 =>
          rw [hmem] at hm'
          simp only [Option.map, Option.some.injEq] at hm'
          subst hm'
          rw [hcfg]
          exact w2 m0 hmem
    · have hwr' : op.writes = false := by simpa using hwr
      simp only [hsn, hwr', Bool.not_false, Bool.or_true, if_true]
      obtain ⟨r1, r2, r3, _, r5⟩ := exec_ro s m op hwr' hop hm (h4 m hm)
      exact ⟨by rw [r2]; exact h1, by rw [r3]; exact h2, by rw [r1]; exact h3, fun m' hm' => by rw [r1]; exact r5 m' hm'⟩
  unfold step
  cases op <;> simp only [Op.single] at hop <;> try contradiction
  case create pub priv =>
    simp only []
    split
    · exact ⟨h1, h2, h3, h4⟩
    · split
      · exact ⟨h1, h2, h3, h4⟩
      · exact ⟨h1, h2, diskWF_create pub priv, fun m hm => by simp only at hm; cases hm; exact good_open (diskWF_create pub priv)⟩
  case reopen pub =>
    simp only []
    split
    · exact ⟨h1, h2, h3, h4⟩
    · split
      · exact ⟨h1, h2, h3, h4⟩
      · split
        · exact ⟨h1, h2, h3, fun m hm => by cases hm⟩
        · exact ⟨h1, h2, h3, fun m hm => by simp only at hm; cases hm; exact good_open h3⟩
  all_goals
    simp only []
    split
    · exact ⟨h1, h2, h3, h4⟩
    · rename_i m hm; exact generic m hm

theorem stGood_run (s : State) (ops : List Op) (h : StGood s) (hops : ∀ op ∈ ops, op.single = true) :
    StGood (run s ops) := by
  induction ops generalizing s with
  | nil => exact h
  | cons op ops ih =>
    simp only [run]
    exact ih _ (stGood_step s op h (hops op List.mem_cons_self)) (fun o ho => hops o (List.mem_cons_of_mem _ ho))

theorem stGood_init (cfg : Cfg) : StGood { cfg := cfg } :=
  ⟨rfl, rfl,
   ⟨fun _ sc a row hr _ => by simp [acctAns, aget] at hr, fun sc k row h => by simp [aget] at h,
    fun sc a row h => by simp [aget] at h⟩,
   fun m hm => by cases hm⟩

/-! ### a rolled-back NextAddresses: the account cache still agrees with the (restored) database -/

/-- the account clause of coherence + the private-key clause: what AccountProperties / Last…Address / the next
index depend on -/
def AcctCoh (d : Disk) (m : Mem) : Prop :=
  (∀ sc a ai, aget (m.scopes sc).acctInfo a = some ai → ∃ row, acctAns d sc a = .ok row ∧ InfoOK m a ai row) ∧ PrivOK d m

theorem privOK_scal {d : Disk} {m m' : Mem} (h : Scal m' = Scal m) (hp : PrivOK d m) : PrivOK d m' := by
  have h1 : m'.locked = m.locked := congrArg (·.1) h
  have h2 : m'.watchOnly = m.watchOnly := congrArg (·.2.1) h
  unfold PrivOK at *; rw [h1, h2]; exact hp

theorem next_rollback_acct {d : Disk} {m : Mem} (hg : Good d m) (sc a n : Nat) (int : Bool) :
    AcctCoh d (nextAddresses d m sc a n int).mem := by
  unfold nextAddresses
  cases hl : loadAcct d m sc a with
  | error e => exact ⟨hg.coh.acct, hg.coh.priv⟩
  | ok m1 =>
    have hf := loadAcct_good hg hl
    obtain ⟨ai, row, hc, hr, hok⟩ := hf.cached
    have hai : acctInfoOf m1 sc a = some ai := hc
    obtain ⟨hrow0, _⟩ := acctAns_ok_row hr
    simp only [hai]
    generalize hwo : (m1.watchOnly || !ai.hasEnc) = w
    generalize hpv : (!m1.locked && !w) = pv
    split
    · exact ⟨hf.good.coh.acct, hf.good.coh.priv⟩
    · split
      · exact ⟨hf.good.coh.acct, hf.good.coh.priv⟩
      · obtain ⟨k1, k2, k3, k4, k5, k6, k7⟩ := mkAddrs_spec a (brOf int) pv n (nextOf ai int) m1
        generalize hr' : mkAddrs m1 a (brOf int) pv (nextOf ai int) n = r at *
        have hc' : aget (r.1.scopes sc).acctInfo a = some ai := by rw [k1]; exact hc
        obtain ⟨d2, m2, q1, q2, q3, q4, q5, q6, q7, q8, q9⟩ :=
          putAndLoad_spec sc a r.2 d r.1 ai row hc' hrow0 (fun e he => (k7.acct_eq e he).1)
        simp only [q1]
        refine ⟨?_, privOK_scal (by rw [q7, k4]) hf.good.coh.priv⟩
        intro sc' a' ai' h
        rw [q3, k1] at h
        obtain ⟨row', hr1, hok1⟩ := hf.good.coh.acct sc' a' ai' h
        refine ⟨row', hr1, ?_⟩
        obtain ⟨b1, b2⟩ := hf.good.hLast sc' a' ai' h
        have hheap : ∀ id, id < m1.heapN → m2.heap id = m1.heap id := by
          intro id hid; rw [q4 id (by rw [k2]; omega), k6 id hid]
        obtain ⟨i1, i2, i3, i4, i5, i6, i7⟩ := hok1
        exact ⟨i1, i2, i3, by rw [hheap _ b1]; exact i4, by rw [hheap _ b1]; exact i5,
          by rw [hheap _ b2]; exact i6, by rw [hheap _ b2]; exact i7⟩

/-- the keys `mkAddrs` issues depend only on account, branch, start and count -/
theorem mkAddrs_keys (acct br : Nat) : ∀ (n start : Nat) (m m' : Mem) (p p' : Bool),
    (mkAddrs m acct br p start n).2.map (fun e => AKey.chain e.acct e.br e.idx) =
    (mkAddrs m' acct br p' start n).2.map (fun e => AKey.chain e.acct e.br e.idx) := by
  intro n
  induction n with
  | zero => intro _ _ _ _ _; rfl
  | succ n ih => intro start m m' p p'; simp only [mkAddrs, List.map_cons]; rw [ih]

/-- whenever a manager whose account cache agrees with database `d` issues addresses, a manager freshly opened
on `d` issues exactly the same ones -/
theorem next_same_as_fresh {d : Disk} {m : Mem} (h : AcctCoh d m) (sc a n : Nat) (int : Bool) (l : List AKey)
    (hres : (nextAddresses d m sc a n int).res = .ok l) :
    (nextAddresses d (openMem d) sc a n int).res = .ok l := by
  obtain ⟨hacct, hpriv⟩ := h
  have hA := loadAcct_ans hacct hpriv sc a
  have hF := loadAcct_ans (coherent_open d).acct (coherent_open d).priv sc a
  cases hr : acctAns d sc a with
  | error e =>
    rw [hr] at hA; simp only at hA
    unfold nextAddresses at hres; simp [hA] at hres
  | ok row =>
    rw [hr] at hA hF; simp only at hA hF
    obtain ⟨m1, ai, hl, hai, hok⟩ := hA
    obtain ⟨f1, fi, hlf, hfi, hokf⟩ := hF
    obtain ⟨hrow0, _⟩ := acctAns_ok_row hr
    have hnext : nextOf ai int = nextOf fi int := by
      rw [(lastOf_info hok int).1, (lastOf_info hokf int).1]
    have hflocked : f1.locked = true := by
      have := scal_loadAcct hlf
      exact (congrArg (·.1) this).trans rfl
    unfold nextAddresses at hres ⊢
    simp only [hl, hai] at hres
    simp only [hlf, hfi]
    simp only [hflocked, Bool.not_true, Bool.false_and, Bool.false_eq_true, if_false]
    split at hres
    · cases hres
    · rename_i htm
      rw [hnext] at htm
      simp only [htm, if_false]
      split at hres
      · cases hres
      · -- both loops succeed
        generalize hwR : (m1.watchOnly || !ai.hasEnc) = wR at hres
        generalize hpR : (!m1.locked && !wR) = pR at hres
        obtain ⟨_, _, _, _, _, _, c7⟩ := mkAddrs_spec a (brOf int) pR n (nextOf ai int) m1
        obtain ⟨k1, _, _, _, _, _, _⟩ := mkAddrs_spec a (brOf int) pR n (nextOf ai int) m1
        have hcR : aget ((mkAddrs m1 a (brOf int) pR (nextOf ai int) n).1.scopes sc).acctInfo a = some ai := by
          rw [k1]; exact hai
        obtain ⟨d2, m2, q1, _⟩ := putAndLoad_spec sc a (mkAddrs m1 a (brOf int) pR (nextOf ai int) n).2 d
          (mkAddrs m1 a (brOf int) pR (nextOf ai int) n).1 ai row hcR hrow0 (fun e he => (c7.acct_eq e he).1)
        rw [q1] at hres
        simp only [NextOut.res] at hres
        obtain ⟨_, _, _, _, _, _, f7⟩ := mkAddrs_spec a (brOf int) false n (nextOf fi int) f1
        obtain ⟨kf1, _, _, _, _, _, _⟩ := mkAddrs_spec a (brOf int) false n (nextOf fi int) f1
        have hcF : aget ((mkAddrs f1 a (brOf int) false (nextOf fi int) n).1.scopes sc).acctInfo a = some fi := by
          rw [kf1]; exact hfi
        obtain ⟨d2', m2', q1', _⟩ := putAndLoad_spec sc a (mkAddrs f1 a (brOf int) false (nextOf fi int) n).2 d
          (mkAddrs f1 a (brOf int) false (nextOf fi int) n).1 fi row hcF hrow0 (fun e he => (f7.acct_eq e he).1)
        rw [q1']
        simp only [NextOut.res]
        cases hres
        rw [← hnext]
        exact congrArg Except.ok (mkAddrs_keys a (brOf int) n (nextOf ai int) f1 m1 false pR)

end AddrLock
