import BtcwVerif.Lemmas.RefUtxos
/-!
# Observables of a good pair: `TxDetails` reports the ledger's record of a transaction (C13)
The credit / debit records are compared as sets (the store lists them in bucket order, the ledger in index order); both
sides list each record once.
-/
namespace TxStore
open KMap Ledger

/-- same transaction, same block, same credit records and same debit records (as sets, the store's without
duplicates) -/
structure DetEquiv (d d' : Details) : Prop where
  tx : d.tx = d'.tx
  block : d.block = d'.block
  credits : ∀ c, c ∈ d.credits ↔ c ∈ d'.credits
  debits : ∀ x, x ∈ d.debits ↔ x ∈ d'.debits
  creditsNodup : (d.credits.map (·.index)).Nodup
  debitsNodup : (d.debits.map (·.index)).Nodup

/-! ### finding a known transaction by hash -/

theorem find?_of_nodup_map {α : Type} (f : α → Nat) : ∀ (l : List α), (l.map f).Nodup → ∀ p ∈ l,
    l.find? (fun q => f q == f p) = some p := by
  intro l
  induction l with
  | nil => intro _ p hp; cases hp
  | cons a t ih =>
    intro hn p hp
    rw [List.map_cons, List.nodup_cons] at hn
    rw [List.find?_cons]
    rcases List.mem_cons.mp hp with rfl | hp'
    · simp
    · have : (f a == f p) = false := by
        have : f a ≠ f p := fun e => hn.1 (by rw [e]; exact List.mem_map.mpr ⟨p, hp', rfl⟩)
        simpa using this
      rw [this]
      exact ih hn.2 p hp'

theorem known_find {L : Ledger} (hl : LWF L) {p : Tx × Option BlockMeta} (hp : p ∈ known L) :
    (known L).find? (fun q => q.1.hash == p.1.hash) = some p :=
  find?_of_nodup_map (fun q : Tx × Option BlockMeta => q.1.hash) _ hl.hashes p hp

theorem details_known {L : Ledger} (hl : LWF L) {t : Tx} {ob : Option BlockMeta} (hp : (t, ob) ∈ known L) :
    Ledger.details L t.hash = some (detailsOf L t ob) := by
  unfold Ledger.details
  rw [known_find hl hp]

theorem details_unknown {L : Ledger} {h : Nat} (hp : ∀ p ∈ known L, p.1.hash ≠ h) : Ledger.details L h = none := by
  unfold Ledger.details
  have : (known L).find? (fun p => p.1.hash == h) = none := by
    rw [List.find?_eq_none]
    intro p hp'
    simpa using hp p hp'
  rw [this]

/-- the value of a credited output of a known transaction -/
theorem creditValue_eq {L : Ledger} (hl : LWF L) {x : Tx} {ob : Option BlockMeta} (hx : (x, ob) ∈ known L)
    (op : OutPoint) (hh : op.hash = x.hash) :
    creditValue L op = if credited L op then x.outs[op.index]? else none := by
  unfold creditValue
  by_cases hc : credited L op = true
  · simp only [hc, if_true]
    have := known_find hl hx
    simp only at this
    rw [hh, this]
  · simp [hc]

theorem creditValue_none_of_unknown {L : Ledger} (hl : LWF L) (op : OutPoint)
    (hu : ∀ p ∈ known L, p.1.hash ≠ op.hash) : creditValue L op = none := by
  unfold creditValue
  by_cases hc : credited L op = true
  · exfalso
    unfold credited at hc
    obtain ⟨p, hp, hpk⟩ := (lookup_isSome_iff L.credit op).mp hc
    obtain ⟨q, hq, e, _⟩ := hl.creditKnown p hp
    exact hu q hq (by rw [e, hpk])
  · simp [hc]

/-! ### an unconfirmed transaction -/

/-- the debit record of one input of an unconfirmed transaction: the credited value of the spent output, if any -/
theorem unminedDebit_good {s : Store} {L : Ledger} (hg : Good s L) (hn : NoConflict L) {t : Tx} (ht : t ∈ L.pool)
    (j : Nat) (inp : OutPoint) (hin : inp ∈ t.ins) :
    unminedDebit s j inp = .ok ((creditValue L inp).map fun v => (⟨j, v⟩ : DebitRecord)) := by
  have hr := hg.ref
  have hl := hg.lwf
  have hnc : spentConfirmed L inp = false := hn t ht inp hin
  unfold unminedDebit
  by_cases hk : ∃ p ∈ known L, p.1.hash = inp.hash
  · obtain ⟨⟨x, ob⟩, hp, hph⟩ := hk
    rw [creditValue_eq hl hp inp hph.symm]
    rcases mem_known.mp hp with ⟨bx, rfl, hm⟩ | ⟨rfl, hm⟩
    · -- the parent is confirmed
      have huc : s.unminedCredits.find? inp = none := by
        cases hf : s.unminedCredits.find? inp with
        | none => rfl
        | some uc =>
          obtain ⟨w, hw, h1, _⟩ := (hr.ucredits_iff _ _).mp hf
          exact absurd (by rw [hph, ← h1]) (hl.pool_not_mined hw hm)
      cases hlk : lookup L.credit inp with
      | none =>
        have hu : s.unspent.find? inp = none := by
          cases hf : s.unspent.find? inp with
          | none => rfl
          | some blk =>
            obtain ⟨cv, hcv, _⟩ := (hg.wf2.wf.index inp blk).mp hf
            obtain ⟨_, _, _, _, _, _, h4, _⟩ := (hr.credits_iff _ _).mp hcv
            have ho : (⟨inp.hash, blk, inp.index⟩ : CredKey).outPoint = inp := by cases inp; rfl
            rw [ho, hlk] at h4; cases h4
        simp [hu, huc, credited, hlk]
      | some chg =>
        cases hv : x.outs[inp.index]? with
        | none =>
          have hu : s.unspent.find? inp = none := by
            cases hf : s.unspent.find? inp with
            | none => rfl
            | some blk =>
              obtain ⟨cv, hcv, _⟩ := (hg.wf2.wf.index inp blk).mp hf
              obtain ⟨x', b', hm', e1, _, e3, _⟩ := (hr.credits_iff _ _).mp hcv
              have := hl.mined_unique hm' hm (by rw [← e1]; exact hph.symm)
              rw [this.1] at e3
              simp only at e3
              rw [hv] at e3; cases e3
          simp [hu, huc, credited, hlk]
        | some v =>
          have ho : (⟨inp.hash, bx.block, inp.index⟩ : CredKey).outPoint = inp := by cases inp; rfl
          have hsp : spenderOf L inp = none := by
            cases hs : spenderOf L inp with
            | none => rfl
            | some dk =>
              have : (spenderOf L inp).isSome = true := by rw [hs]; rfl
              rw [spenderOf_isSome, hnc] at this; cases this
          have hcred : s.credits.find? ⟨inp.hash, bx.block, inp.index⟩ = some ⟨v, chg, false, none⟩ :=
            (hr.credits_iff _ _).mpr ⟨x, bx, hm, hph.symm, rfl, hv, by rw [ho]; exact hlk, by rw [ho, hsp],
              by rw [ho, hsp]; rfl⟩
          have hu : s.unspent.find? inp = some bx.block := (hg.wf2.wf.index inp bx.block).mpr ⟨_, hcred, rfl⟩
          simp [hu, hcred, credited, hlk]
    · -- the parent is unconfirmed
      have hu : s.unspent.find? inp = none := by
        cases hf : s.unspent.find? inp with
        | none => rfl
        | some blk =>
          obtain ⟨cv, hcv, _⟩ := (hg.wf2.wf.index inp blk).mp hf
          obtain ⟨x', b', hm', e1, _⟩ := (hr.credits_iff _ _).mp hcv
          exact absurd (by rw [← e1]; exact hph.symm) (hl.pool_not_mined hm hm')
      cases hlk : lookup L.credit inp with
      | none =>
        have huc : s.unminedCredits.find? inp = none := by
          cases hf : s.unminedCredits.find? inp with
          | none => rfl
          | some uc =>
            obtain ⟨_, _, _, _, h3⟩ := (hr.ucredits_iff _ _).mp hf
            rw [hlk] at h3; cases h3
        simp [hu, huc, credited, hlk]
      | some chg =>
        cases hv : x.outs[inp.index]? with
        | none =>
          have huc : s.unminedCredits.find? inp = none := by
            cases hf : s.unminedCredits.find? inp with
            | none => rfl
            | some uc =>
              obtain ⟨w, hw, h1, h2, _⟩ := (hr.ucredits_iff _ _).mp hf
              have : w = x := hl.pool_unique hw hm (by rw [← h1, hph])
              rw [this, hv] at h2; cases h2
          simp [hu, huc, credited, hlk]
        | some v =>
          have huc : s.unminedCredits.find? inp = some ⟨v, chg⟩ := (hr.ucredits_iff _ _).mpr ⟨x, hm, hph.symm, hv, hlk⟩
          simp [hu, huc, credited, hlk]
  · have hk' : ∀ p ∈ known L, p.1.hash ≠ inp.hash := fun p hp e => hk ⟨p, hp, e⟩
    rw [creditValue_none_of_unknown hl inp hk']
    have hu : s.unspent.find? inp = none := by
      cases hf : s.unspent.find? inp with
      | none => rfl
      | some blk =>
        obtain ⟨cv, hcv, _⟩ := (hg.wf2.wf.index inp blk).mp hf
        obtain ⟨x', b', hm', e1, _⟩ := (hr.credits_iff _ _).mp hcv
        exact absurd e1.symm (hk' _ (known_of_mined hm'))
    have huc : s.unminedCredits.find? inp = none := by
      cases hf : s.unminedCredits.find? inp with
      | none => rfl
      | some uc =>
        obtain ⟨w, hw, h1, _⟩ := (hr.ucredits_iff _ _).mp hf
        exact absurd h1.symm (hk' _ (known_of_pool hw))
    simp [hu, huc]

theorem withIdx_filterMap_index_nodup {α β : Type} (F : Nat × α → Option β) (idx : β → Nat)
    (hidx : ∀ p b, F p = some b → idx b = p.1) (l : List α) :
    (((withIdx l).filterMap F).map idx).Nodup := by
  rw [List.Nodup, List.pairwise_map, List.pairwise_filterMap]
  have hnd := withIdx_fst_nodup l 0
  rw [List.Nodup, List.pairwise_map] at hnd
  refine hnd.imp ?_
  intro a a' hne b hb b' hb' e
  rw [hidx a b hb, hidx a' b' hb'] at e
  exact hne e

theorem details_unmined {s : Store} {L : Ledger} (hg : Good s L) (hn : NoConflict L) {t : Tx} (ht : t ∈ L.pool) :
    ∃ d, unminedTxDetails s t.hash t = .ok d ∧ DetEquiv d (detailsOf L t none) := by
  have hr := hg.ref
  have hl := hg.lwf
  -- the credit records
  have hcred : ∀ p ∈ unminedCreditsOf s t.hash,
      (if p.1.index ≥ t.outs.length then (throw Err.data : M CreditRecord)
        else pure (⟨p.1.index, p.2.amount, spentByUnmined s p.1, p.2.change⟩ : CreditRecord)) =
      .ok ⟨p.1.index, p.2.amount, spentByUnmined s p.1, p.2.change⟩ := by
    rintro ⟨op, uc⟩ hp
    unfold unminedCreditsOf at hp
    obtain ⟨hp1, hp2⟩ := List.mem_filter.mp hp
    have hf := find?_of_mem _ hg.wf2.wf.nodupUC hp1
    obtain ⟨w, hw, h1, h2, _⟩ := (hr.ucredits_iff op uc).mp hf
    have : w = t := hl.pool_unique hw ht (by rw [← h1]; simpa using hp2)
    subst this
    have hlt := (List.getElem?_eq_some_iff.mp h2).1
    simp only [ge_iff_le]
    rw [if_neg (by omega)]; rfl
  have hdeb : ∀ p ∈ withIdx t.ins, unminedDebit s p.1 p.2 =
      .ok ((creditValue L p.2).map fun v => (⟨p.1, v⟩ : DebitRecord)) := by
    rintro ⟨j, inp⟩ hp
    exact unminedDebit_good hg hn ht j inp (List.mem_of_getElem? ((mem_withIdx0 _ _ _).mp hp))
  refine ⟨⟨t, none, (unminedCreditsOf s t.hash).map fun p => ⟨p.1.index, p.2.amount, spentByUnmined s p.1, p.2.change⟩,
    ((withIdx t.ins).map fun p => (creditValue L p.2).map fun v => (⟨p.1, v⟩ : DebitRecord)).filterMap id⟩, ?_, ?_⟩
  · unfold unminedTxDetails
    have e1 : (unminedCreditsOf s t.hash).mapM (fun (x : OutPoint × UCredit) => match x with
        | (op, uc) => if op.index ≥ t.outs.length then (throw Err.data : M CreditRecord)
          else pure (⟨op.index, uc.amount, spentByUnmined s op, uc.change⟩ : CreditRecord)) =
        .ok ((unminedCreditsOf s t.hash).map fun p => ⟨p.1.index, p.2.amount, spentByUnmined s p.1, p.2.change⟩) :=
      mapM_eq_map_of_forall _ _ _ (fun p hp => by obtain ⟨op, uc⟩ := p; exact hcred (op, uc) hp)
    have e2 : (withIdx t.ins).mapM (fun (x : Nat × OutPoint) => match x with | (i, inp) => unminedDebit s i inp) =
        .ok ((withIdx t.ins).map fun p => (creditValue L p.2).map fun v => (⟨p.1, v⟩ : DebitRecord)) :=
      mapM_eq_map_of_forall _ _ _ (fun p hp => by obtain ⟨j, inp⟩ := p; exact hdeb (j, inp) hp)
    rw [e1, e2]; rfl
  · have hdebEq : ((withIdx t.ins).map fun p => (creditValue L p.2).map fun v => (⟨p.1, v⟩ : DebitRecord)).filterMap id =
        (detailsOf L t none).debits := by
      rw [List.filterMap_map]
      unfold detailsOf
      simp only
      apply filterMap_congr'
      rintro ⟨j, inp⟩ _
      simp only [Function.comp, id]
      cases creditValue L inp <;> rfl
    refine ⟨rfl, rfl, ?_, by intro x; simp only; rw [hdebEq], ?_, ?_⟩
    · -- credit records as a set
      intro c
      simp only [List.mem_map]
      unfold detailsOf
      simp only [List.mem_filterMap]
      constructor
      · rintro ⟨⟨op, uc⟩, hp, rfl⟩
        unfold unminedCreditsOf at hp
        obtain ⟨hp1, hp2⟩ := List.mem_filter.mp hp
        have hf := find?_of_mem _ hg.wf2.wf.nodupUC hp1
        obtain ⟨w, hw, h1, h2, h3⟩ := (hr.ucredits_iff op uc).mp hf
        have : w = t := hl.pool_unique hw ht (by rw [← h1]; simpa using hp2)
        subst this
        have hop : (⟨w.hash, op.index⟩ : OutPoint) = op := by cases op; simp_all
        refine ⟨(op.index, uc.amount), (mem_withIdx0 _ _ _).mpr h2, ?_⟩
        simp only [hop, h3, Option.some.injEq]
        have hsc : spentConfirmed L op = false := by
          rw [spentConfirmed_false_iff]
          intro p hp' hin
          obtain ⟨b, hb, _⟩ := hl.parents p hp' _ hin _ (known_of_pool hw) h1.symm
          cases hb
        rw [spent_eq hr, hsc]; rfl
      · rintro ⟨⟨i, v⟩, hiv, hc⟩
        have hv := (mem_withIdx0 _ _ _).mp hiv
        simp only at hc
        cases hlk : lookup L.credit ⟨t.hash, i⟩ with
        | none => rw [hlk] at hc; cases hc
        | some chg =>
          rw [hlk] at hc
          simp only [Option.some.injEq] at hc
          subst hc
          have hf : s.unminedCredits.find? ⟨t.hash, i⟩ = some ⟨v, chg⟩ := (hr.ucredits_iff _ _).mpr ⟨t, ht, rfl, hv, hlk⟩
          refine ⟨(⟨t.hash, i⟩, ⟨v, chg⟩), ?_, ?_⟩
          · unfold unminedCreditsOf
            exact List.mem_filter.mpr ⟨mem_of_find? _ hf, by simp⟩
          · have hsc : spentConfirmed L ⟨t.hash, i⟩ = false := by
              rw [spentConfirmed_false_iff]
              intro p hp' hin
              obtain ⟨b, hb, _⟩ := hl.parents p hp' _ hin _ (known_of_pool ht) rfl
              cases hb
            rw [spent_eq hr, hsc]; rfl
    · simp only [List.map_map]
      exact nodup_indices_of_same_hash _ hg.wf2.wf.nodupUC t.hash
    · simp only
      rw [hdebEq]
      unfold detailsOf
      simp only
      apply withIdx_filterMap_index_nodup
      rintro ⟨j, inp⟩ b hb
      simp only at hb
      cases hcv : creditValue L inp with
      | none => rw [hcv] at hb; cases hb
      | some v => rw [hcv] at hb; cases hb; rfl

end TxStore
