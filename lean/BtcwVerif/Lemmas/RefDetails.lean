import BtcwVerif.Lemmas.RefUtxos
/-!
# Observables of a good pair: `TxDetails` reports the ledger's record of a transaction (C13)
The credit / debit records are compared as sets (the store lists them in bucket order, the ledger in index order); both
sides list each record once.
-/
namespace TxStore
open KMap Ledger

/-- same transaction, same block, same credit records and same debit records (as sets, the store's without
duplicates) -/
structure DetEquiv (d d' : Details) : Prop where
  tx : d.tx = d'.tx
  block : d.block = d'.block
  credits : ∀ c, c ∈ d.credits ↔ c ∈ d'.credits
  debits : ∀ x, x ∈ d.debits ↔ x ∈ d'.debits
  creditsNodup : (d.credits.map (·.index)).Nodup
  debitsNodup : (d.debits.map (·.index)).Nodup

/-! ### finding a known transaction by hash -/

theorem find?_of_nodup_map {α : Type} (f : α → Nat) : ∀ (l : List α), (l.map f).Nodup → ∀ p ∈ l,
    l.find? (fun q => f q == f p) = some p := by
  intro l
  induction l with
  | nil => intro _ p hp; cases hp
  | cons a t ih =>
    intro hn p hp
    rw [List.map_cons, List.nodup_cons] at hn
    rw [List.find?_cons]
    rcases List.mem_cons.mp hp with rfl | hp'
    · simp
    · have : (f a == f p) = false := by
        have : f a ≠ f p := fun e => hn.1 (by rw [e]; exact List.mem_map.mpr ⟨p, hp', rfl⟩)
        simpa using this
      rw [this]
      exact ih hn.2 p hp'

theorem known_find {L : Ledger} (hl : LWF L) {p : Tx × Option BlockMeta} (hp : p ∈ known L) :
    (known L).find? (fun q => q.1.hash == p.1.hash) = some p :=
  find?_of_nodup_map (fun q : Tx × Option BlockMeta => q.1.hash) _ hl.hashes p hp

theorem details_known {L : Ledger} (hl : LWF L) {t : Tx} {ob : Option BlockMeta} (hp : (t, ob) ∈ known L) :
    Ledger.details L t.hash = some (detailsOf L t ob) := by
  unfold Ledger.details
  rw [known_find hl hp]

theorem details_unknown {L : Ledger} {h : Nat} (hp : ∀ p ∈ known L, p.1.hash ≠ h) : Ledger.details L h = none := by
  unfold Ledger.details
  have : (known L).find? (fun p => p.1.hash == h) = none := by
    rw [List.find?_eq_none]
    intro p hp'
    simpa using hp p hp'
  rw [this]

/-- the value of a credited output of a known transaction -/
theorem creditValue_eq {L : Ledger} (hl : LWF L) {x : Tx} {ob : Option BlockMeta} (hx : (x, ob) ∈ known L)
    (op : OutPoint) (hh : op.hash = x.hash) :
    creditValue L op = if credited L op then x.outs[op.index]? else none := by
  unfold creditValue
  by_cases hc : credited L op = true
  · simp only [hc, if_true]
    have := known_find hl hx
    simp only at this
    rw [hh, this]
  · simp [hc]

theorem creditValue_none_of_unknown {L : Ledger} (hl : LWF L) (op : OutPoint)
    (hu : ∀ p ∈ known L, p.1.hash ≠ op.hash) : creditValue L op = none := by
  unfold creditValue
  by_cases hc : credited L op = true
  · exfalso
    unfold credited at hc
    obtain ⟨p, hp, hpk⟩ := (lookup_isSome_iff L.credit op).mp hc
    obtain ⟨q, hq, e, _⟩ := hl.creditKnown p hp
    exact hu q hq (by rw [e, hpk])
  · simp [hc]

/-! ### an unconfirmed transaction -/

/-- the debit record of one input of an unconfirmed transaction: the credited value of the spent output, if any -/
theorem unminedDebit_good {s : Store} {L : Ledger} (hg : Good s L) (hn : NoConflict L) {t : Tx} (ht : t ∈ L.pool)
    (j : Nat) (inp : OutPoint) (hin : inp ∈ t.ins) :
    unminedDebit s j inp = .ok ((creditValue L inp).map fun v => (⟨j, v⟩ : DebitRecord)) := by
  have hr := hg.ref
  have hl := hg.lwf
  have hnc : spentConfirmed L inp = false := hn t ht inp hin
  unfold unminedDebit
  by_cases hk : ∃ p ∈ known L, p.1.hash = inp.hash
  · obtain ⟨⟨x, ob⟩, hp, hph⟩ := hk
    rw [creditValue_eq hl hp inp hph.symm]
    rcases mem_known.mp hp with ⟨bx, rfl, hm⟩ | ⟨rfl, hm⟩
    · -- the parent is confirmed
      have huc : s.unminedCredits.find? inp = none := by
        cases hf : s.unminedCredits.find? inp with
        | none => rfl
        | some uc =>
          obtain ⟨w, hw, h1, _⟩ := (hr.ucredits_iff _ _).mp hf
          exact absurd (by rw [hph, ← h1]) (hl.pool_not_mined hw hm)
      cases hlk : lookup L.credit inp with
      | none =>
        have hu : s.unspent.find? inp = none := by
          cases hf : s.unspent.find? inp with
          | none => rfl
          | some blk =>
            obtain ⟨cv, hcv, _⟩ := (hg.wf2.wf.index inp blk).mp hf
            obtain ⟨_, _, _, _, _, _, h4, _⟩ := (hr.credits_iff _ _).mp hcv
            have ho : (⟨inp.hash, blk, inp.index⟩ : CredKey).outPoint = inp := by cases inp; rfl
            rw [ho, hlk] at h4; cases h4
        simp [hu, huc, credited, hlk]
      | some chg =>
        cases hv : x.outs[inp.index]? with
        | none =>
          have hu : s.unspent.find? inp = none := by
            cases hf : s.unspent.find? inp with
            | none => rfl
            | some blk =>
              obtain ⟨cv, hcv, _⟩ := (hg.wf2.wf.index inp blk).mp hf
              obtain ⟨x', b', hm', e1, _, e3, _⟩ := (hr.credits_iff _ _).mp hcv
              have := hl.mined_unique hm' hm (by rw [← e1]; exact hph.symm)
              rw [this.1] at e3
              simp only at e3
              rw [hv] at e3; cases e3
          simp [hu, huc, credited, hlk]
        | some v =>
          have ho : (⟨inp.hash, bx.block, inp.index⟩ : CredKey).outPoint = inp := by cases inp; rfl
          have hsp : spenderOf L inp = none := by
            cases hs : spenderOf L inp with
            | none => rfl
            | some dk =>
              have : (spenderOf L inp).isSome = true := by rw [hs]; rfl
              rw [spenderOf_isSome, hnc] at this; cases this
          have hcred : s.credits.find? ⟨inp.hash, bx.block, inp.index⟩ = some ⟨v, chg, false, none⟩ :=
            (hr.credits_iff _ _).mpr ⟨x, bx, hm, hph.symm, rfl, hv, by rw [ho]; exact hlk, by rw [ho, hsp],
              by rw [ho, hsp]; rfl⟩
          have hu : s.unspent.find? inp = some bx.block := (hg.wf2.wf.index inp bx.block).mpr ⟨_, hcred, rfl⟩
          simp [hu, hcred, credited, hlk]
    · -- the parent is unconfirmed
      have hu : s.unspent.find? inp = none := by
        cases hf : s.unspent.find? inp with
        | none => rfl
        | some blk =>
          obtain ⟨cv, hcv, _⟩ := (hg.wf2.wf.index inp blk).mp hf
          obtain ⟨x', b', hm', e1, _⟩ := (hr.credits_iff _ _).mp hcv
          exact absurd (by rw [← e1]; exact hph.symm) (hl.pool_not_mined hm hm')
      cases hlk : lookup L.credit inp with
      | none =>
        have huc : s.unminedCredits.find? inp = none := by
          cases hf : s.unminedCredits.find? inp with
          | none => rfl
          | some uc =>
            obtain ⟨_, _, _, _, h3⟩ := (hr.ucredits_iff _ _).mp hf
            rw [hlk] at h3; cases h3
        simp [hu, huc, credited, hlk]
      | some chg =>
        cases hv : x.outs[inp.index]? with
        | none =>
          have huc : s.unminedCredits.find? inp = none := by
            cases hf : s.unminedCredits.find? inp with
            | none => rfl
            | some uc =>
              obtain ⟨w, hw, h1, h2, _⟩ := (hr.ucredits_iff _ _).mp hf
              have : w = x := hl.pool_unique hw hm (by rw [← h1, hph])
              rw [this, hv] at h2; cases h2
          simp [hu, huc, credited, hlk]
        | some v =>
          have huc : s.unminedCredits.find? inp = some ⟨v, chg⟩ := (hr.ucredits_iff _ _).mpr ⟨x, hm, hph.symm, hv, hlk⟩
          simp [hu, huc, credited, hlk]
  · have hk' : ∀ p ∈ known L, p.1.hash ≠ inp.hash := fun p hp e => hk ⟨p, hp, e⟩
    rw [creditValue_none_of_unknown hl inp hk']
    have hu : s.unspent.find? inp = none := by
      cases hf : s.unspent.find? inp with
      | none => rfl
      | some blk =>
        obtain ⟨cv, hcv, _⟩ := (hg.wf2.wf.index inp blk).mp hf
        obtain ⟨x', b', hm', e1, _⟩ := (hr.credits_iff _ _).mp hcv
        exact absurd e1.symm (hk' _ (known_of_mined hm'))
    have huc : s.unminedCredits.find? inp = none := by
      cases hf : s.unminedCredits.find? inp with
      | none => rfl
      | some uc =>
        obtain ⟨w, hw, h1, _⟩ := (hr.ucredits_iff _ _).mp hf
        exact absurd h1.symm (hk' _ (known_of_pool hw))
    simp [hu, huc]

theorem withIdx_filterMap_index_nodup {α β : Type} (F : Nat × α → Option β) (idx : β → Nat)
    (hidx : ∀ p b, F p = some b → idx b = p.1) (l : List α) :
    (((withIdx l).filterMap F).map idx).Nodup := by
  rw [List.Nodup, List.pairwise_map, List.pairwise_filterMap]
  have hnd := withIdx_fst_nodup l 0
  rw [List.Nodup, List.pairwise_map] at hnd
  refine hnd.imp ?_
  intro a a' hne b hb b' hb' e
  rw [hidx a b hb, hidx a' b' hb'] at e
  exact hne e

theorem details_unmined {s : Store} {L : Ledger} (hg : Good s L) (hn : NoConflict L) {t : Tx} (ht : t ∈ L.pool) :
    ∃ d, unminedTxDetails s t.hash t = .ok d ∧ DetEquiv d (detailsOf L t none) := by
  have hr := hg.ref
  have hl := hg.lwf
  -- the credit records
  have hcred : ∀ p ∈ unminedCreditsOf s t.hash,
      (if p.1.index ≥ t.outs.length then (throw Err.data : M CreditRecord)
        else pure (⟨p.1.index, p.2.amount, spentByUnmined s p.1, p.2.change⟩ : CreditRecord)) =
      .ok ⟨p.1.index, p.2.amount, spentByUnmined s p.1, p.2.change⟩ := by
    rintro ⟨op, uc⟩ hp
    unfold unminedCreditsOf at hp
    obtain ⟨hp1, hp2⟩ := List.mem_filter.mp hp
    have hf := find?_of_mem _ hg.wf2.wf.nodupUC hp1
    obtain ⟨w, hw, h1, h2, _⟩ := (hr.ucredits_iff op uc).mp hf
    have : w = t := hl.pool_unique hw ht (by rw [← h1]; simpa using hp2)
    subst this
    have hlt := (List.getElem?_eq_some_iff.mp h2).1
    simp only [ge_iff_le]
    rw [if_neg (by omega)]; rfl
  have hdeb : ∀ p ∈ withIdx t.ins, unminedDebit s p.1 p.2 =
      .ok ((creditValue L p.2).map fun v => (⟨p.1, v⟩ : DebitRecord)) := by
    rintro ⟨j, inp⟩ hp
    exact unminedDebit_good hg hn ht j inp (List.mem_of_getElem? ((mem_withIdx0 _ _ _).mp hp))
  refine ⟨⟨t, none, (unminedCreditsOf s t.hash).map fun p => ⟨p.1.index, p.2.amount, spentByUnmined s p.1, p.2.change⟩,
    ((withIdx t.ins).map fun p => (creditValue L p.2).map fun v => (⟨p.1, v⟩ : DebitRecord)).filterMap id⟩, ?_, ?_⟩
  · unfold unminedTxDetails
    have e1 : (unminedCreditsOf s t.hash).mapM (fun (x : OutPoint × UCredit) => match x with
        | (op, uc) => if op.index ≥ t.outs.length then (throw Err.data : M CreditRecord)
          else pure (⟨op.index, uc.amount, spentByUnmined s op, uc.change⟩ : CreditRecord)) =
        .ok ((unminedCreditsOf s t.hash).map fun p => ⟨p.1.index, p.2.amount, spentByUnmined s p.1, p.2.change⟩) :=
      mapM_eq_map_of_forall _ _ _ (fun p hp => by obtain ⟨op, uc⟩ := p; exact hcred (op, uc) hp)
    have e2 : (withIdx t.ins).mapM (fun (x : Nat × OutPoint) => match x with | (i, inp) => unminedDebit s i inp) =
        .ok ((withIdx t.ins).map fun p => (creditValue L p.2).map fun v => (⟨p.1, v⟩ : DebitRecord)) :=
      mapM_eq_map_of_forall _ _ _ (fun p hp => by obtain ⟨j, inp⟩ := p; exact hdeb (j, inp) hp)
    rw [e1, e2]; rfl
  · have hdebEq : ((withIdx t.ins).map fun p => (creditValue L p.2).map fun v => (⟨p.1, v⟩ : DebitRecord)).filterMap id =
        (detailsOf L t none).debits := by
      rw [List.filterMap_map]
      unfold detailsOf
      simp only
      apply filterMap_congr'
      rintro ⟨j, inp⟩ _
      simp only [Function.comp, id]
      cases creditValue L inp <;> rfl
    refine ⟨rfl, rfl, ?_, by intro x; simp only; rw [hdebEq], ?_, ?_⟩
    · -- credit records as a set
      intro c
      simp only [List.mem_map]
      unfold detailsOf
      simp only [List.mem_filterMap]
      constructor
      · rintro ⟨⟨op, uc⟩, hp, rfl⟩
        unfold unminedCreditsOf at hp
        obtain ⟨hp1, hp2⟩ := List.mem_filter.mp hp
        have hf := find?_of_mem _ hg.wf2.wf.nodupUC hp1
        obtain ⟨w, hw, h1, h2, h3⟩ := (hr.ucredits_iff op uc).mp hf
        have : w = t := hl.pool_unique hw ht (by rw [← h1]; simpa using hp2)
        subst this
        have hop : (⟨w.hash, op.index⟩ : OutPoint) = op := by cases op; simp_all
        refine ⟨(op.index, uc.amount), (mem_withIdx0 _ _ _).mpr h2, ?_⟩
        simp only [hop, h3, Option.some.injEq]
        have hsc : spentConfirmed L op = false := by
          rw [spentConfirmed_false_iff]
          intro p hp' hin
          obtain ⟨b, hb, _⟩ := hl.parents p hp' _ hin _ (known_of_pool hw) h1.symm
          cases hb
        rw [spent_eq hr, hsc]; rfl
      · rintro ⟨⟨i, v⟩, hiv, hc⟩
        have hv := (mem_withIdx0 _ _ _).mp hiv
        simp only at hc
        cases hlk : lookup L.credit ⟨t.hash, i⟩ with
        | none => rw [hlk] at hc; cases hc
        | some chg =>
          rw [hlk] at hc
          simp only [Option.some.injEq] at hc
          subst hc
          have hf : s.unminedCredits.find? ⟨t.hash, i⟩ = some ⟨v, chg⟩ := (hr.ucredits_iff _ _).mpr ⟨t, ht, rfl, hv, hlk⟩
          refine ⟨(⟨t.hash, i⟩, ⟨v, chg⟩), ?_, ?_⟩
          · unfold unminedCreditsOf
            exact List.mem_filter.mpr ⟨mem_of_find? _ hf, by simp⟩
          · have hsc : spentConfirmed L ⟨t.hash, i⟩ = false := by
              rw [spentConfirmed_false_iff]
              intro p hp' hin
              obtain ⟨b, hb, _⟩ := hl.parents p hp' _ hin _ (known_of_pool ht) rfl
              cases hb
            rw [spent_eq hr, hsc]; rfl
    · simp only [List.map_map]
      exact nodup_indices_of_same_hash _ hg.wf2.wf.nodupUC t.hash
    · simp only
      rw [hdebEq]
      unfold detailsOf
      simp only
      apply withIdx_filterMap_index_nodup
      rintro ⟨j, inp⟩ b hb
      simp only at hb
      cases hcv : creditValue L inp with
      | none => rw [hcv] at hb; cases hb
      | some v => rw [hcv] at hb; cases hb; rfl

/-! ### a confirmed transaction -/

theorem nodup_indices_of_same_txkey {ν : Type} (m : KMap CredKey ν) (hn : NodupKeys m) (k : TxKey) :
    ((m.filter fun p => decide (p.1.hash = k.hash ∧ p.1.block = k.block)).map (·.1.index)).Nodup := by
  have hk : (m.map (·.1)).Nodup := hn
  rw [List.Nodup, List.pairwise_map] at hk ⊢
  have hf := hk.filter (fun p : CredKey × ν => decide (p.1.hash = k.hash ∧ p.1.block = k.block))
  refine hf.imp_of_mem ?_
  intro a b ha hb hab e
  apply hab
  have h1 := (List.mem_filter.mp ha).2
  have h2 := (List.mem_filter.mp hb).2
  simp only [decide_eq_true_eq] at h1 h2
  obtain ⟨⟨ah, ab, ai⟩, _⟩ := a
  obtain ⟨⟨bh, bb, bi⟩, _⟩ := b
  simp only at h1 h2 e ⊢
  rw [h1.1, h1.2, h2.1, h2.2, e]

theorem details_mined {s : Store} {L : Ledger} (hg : Good s L) {t : Tx} {b : BlockMeta} (ht : (t, b) ∈ chainTxs L) :
    ∃ d, minedTxDetails s ⟨t.hash, b.block⟩ t = .ok d ∧ DetEquiv d (detailsOf L t (some b)) := by
  have hr := hg.ref
  have hl := hg.lwf
  have hrec : s.txrecs.find? ⟨t.hash, b.block⟩ = some t := (hr.txrecs_iff _ _).mpr ⟨b, ht, rfl⟩
  obtain ⟨br, hbr, htime⟩ := blocks_find_of_mined hg ht
  -- membership in the two prefix scans
  have hcmem : ∀ p : CredKey × CreditVal, p ∈ creditsOf s ⟨t.hash, b.block⟩ ↔
      s.credits.find? p.1 = some p.2 ∧ p.1.hash = t.hash ∧ p.1.block = b.block := by
    intro p
    unfold creditsOf
    rw [List.mem_filter, mem_iff_find? _ hg.wf2.wf.nodupCredits]
    simp
  have hdmem : ∀ p : CredKey × DebitVal, p ∈ debitsOf s ⟨t.hash, b.block⟩ ↔
      s.debits.find? p.1 = some p.2 ∧ p.1.hash = t.hash ∧ p.1.block = b.block := by
    intro p
    unfold debitsOf
    rw [List.mem_filter, mem_iff_find? _ hr.nodupDebits]
    simp
  -- what a credit record of t looks like
  have hcfacts : ∀ p ∈ creditsOf s ⟨t.hash, b.block⟩, t.outs[p.1.index]? = some p.2.amount ∧
      lookup L.credit ⟨t.hash, p.1.index⟩ = some p.2.change ∧ p.2.spent = spentConfirmed L ⟨t.hash, p.1.index⟩ := by
    rintro ⟨ck, cv⟩ hp
    obtain ⟨hf, e1, e2⟩ := (hcmem _).mp hp
    obtain ⟨x, bx, hx, h1, _, h3, h4, _, h6⟩ := (hr.credits_iff _ _).mp hf
    have := hl.mined_unique hx ht (by rw [← h1, e1])
    rw [this.1] at h3
    have ho : ck.outPoint = ⟨t.hash, ck.index⟩ := by cases ck; simp_all [CredKey.outPoint]
    rw [ho] at h4 h6
    exact ⟨h3, h4, by rw [h6, spenderOf_isSome]⟩
  -- what a debit record of t looks like
  have hdfacts : ∀ p ∈ debitsOf s ⟨t.hash, b.block⟩, t.ins[p.1.index]? = some p.2.credKey.outPoint ∧
      creditValue L p.2.credKey.outPoint = some p.2.amount := by
    rintro ⟨dk, dv⟩ hp
    obtain ⟨hf, e1, e2⟩ := (hdmem _).mp hp
    obtain ⟨cv, h1, h2, h3⟩ := (hr.debits dk dv).mp hf
    obtain ⟨x, bx, hx, g1, _, g3, g4, g5, _⟩ := (hr.credits_iff _ _).mp h1
    obtain ⟨q, hq, j, hj, hdk⟩ := spenderOf_some_elim (by rw [← g5, h2] : spenderOf L dv.credKey.outPoint = some dk)
    have hqt := hl.mined_unique hq ht (by rw [← e1, hdk])
    have hji : dk.index = j := by rw [hdk]
    rw [hqt.1] at hj
    refine ⟨by rw [hji]; exact hj, ?_⟩
    rw [creditValue_eq hl (known_of_mined hx) _ g1]
    have hc : credited L dv.credKey.outPoint = true := by unfold credited; rw [g4]; rfl
    rw [hc, if_pos rfl]
    show x.outs[dv.credKey.index]? = _
    rw [g3, h3]
  refine ⟨⟨t, some ⟨b.block, br.time⟩,
    (creditsOf s ⟨t.hash, b.block⟩).map (fun p =>
      ⟨p.1.index, p.2.amount, p.2.spent || spentByUnmined s ⟨t.hash, p.1.index⟩, p.2.change⟩),
    (debitsOf s ⟨t.hash, b.block⟩).map (fun p => ⟨p.1.index, p.2.amount⟩)⟩, ?_, ?_⟩
  · unfold minedTxDetails
    simp only [hbr, pure_eq, bind_ok]
    rw [mapM_eq_map_of_forall _ (fun p : CredKey × CreditVal =>
        (⟨p.1.index, p.2.amount, p.2.spent || spentByUnmined s ⟨t.hash, p.1.index⟩, p.2.change⟩ : CreditRecord)) _
      (by
        intro p hp
        have hlt := (List.getElem?_eq_some_iff.mp (hcfacts _ hp).1).1
        obtain ⟨ck, cv⟩ := p
        simp only [ge_iff_le]
        rw [if_neg (by simp only at hlt; omega)])]
    rw [mapM_eq_map_of_forall _ (fun p : CredKey × DebitVal => (⟨p.1.index, p.2.amount⟩ : DebitRecord)) _
      (by
        intro p hp
        have hlt := (List.getElem?_eq_some_iff.mp (hdfacts _ hp).1).1
        obtain ⟨dk, dv⟩ := p
        simp only [ge_iff_le]
        rw [if_neg (by simp only at hlt; omega)])]
    rfl
  · have hblk : (⟨b.block, br.time⟩ : BlockMeta) = b := by rw [htime]
    refine ⟨rfl, by show some _ = some b; rw [hblk], ?_, ?_, ?_, ?_⟩
    · -- credits
      intro c
      simp only [List.mem_map]
      unfold detailsOf
      simp only [List.mem_filterMap]
      constructor
      · rintro ⟨p, hp, rfl⟩
        obtain ⟨f1, f2, f3⟩ := hcfacts p hp
        refine ⟨(p.1.index, p.2.amount), (mem_withIdx0 _ _ _).mpr f1, ?_⟩
        simp only [f2, Option.some.injEq]
        rw [spent_eq hr, f3]
      · rintro ⟨⟨i, v⟩, hiv, hc⟩
        have hv := (mem_withIdx0 _ _ _).mp hiv
        simp only at hc
        cases hlk : lookup L.credit ⟨t.hash, i⟩ with
        | none => rw [hlk] at hc; cases hc
        | some chg =>
          rw [hlk] at hc
          simp only [Option.some.injEq] at hc
          subst hc
          have hf : s.credits.find? ⟨t.hash, b.block, i⟩ =
              some ⟨v, chg, (spenderOf L ⟨t.hash, i⟩).isSome, spenderOf L ⟨t.hash, i⟩⟩ :=
            (hr.credits_iff _ _).mpr ⟨t, b, ht, rfl, rfl, hv, hlk, rfl, rfl⟩
          refine ⟨(⟨t.hash, b.block, i⟩, _), (hcmem _).mpr ⟨hf, rfl, rfl⟩, ?_⟩
          simp only
          rw [spent_eq hr, spenderOf_isSome]
    · -- debits
      intro x
      simp only [List.mem_map]
      unfold detailsOf
      simp only [List.mem_filterMap]
      constructor
      · rintro ⟨p, hp, rfl⟩
        obtain ⟨f1, f2⟩ := hdfacts p hp
        refine ⟨(p.1.index, p.2.credKey.outPoint), (mem_withIdx0 _ _ _).mpr f1, ?_⟩
        simp only [f2]
      · rintro ⟨⟨j, inp⟩, hji, hx⟩
        have hj := (mem_withIdx0 _ _ _).mp hji
        simp only at hx
        cases hcv : creditValue L inp with
        | none => rw [hcv] at hx; cases hx
        | some v =>
          rw [hcv] at hx
          simp only [Option.some.injEq] at hx
          subst hx
          -- the parent is a confirmed transaction with a credit record spent by t
          have hcv' := hcv
          unfold creditValue at hcv'
          by_cases hc : credited L inp = true
          · simp only [hc, if_true] at hcv'
            cases hfind : (known L).find? (fun p => p.1.hash == inp.hash) with
            | none => rw [hfind] at hcv'; cases hcv'
            | some p =>
              rw [hfind] at hcv'
              obtain ⟨x, ob⟩ := p
              simp only at hcv'
              have hpk := List.mem_of_find?_eq_some hfind
              have hph : x.hash = inp.hash := by simpa using List.find?_some hfind
              obtain ⟨bx, hbx, _⟩ := hl.parents (t, b) ht inp (List.mem_of_getElem? hj) (x, ob) hpk hph
              simp only at hbx
              subst hbx
              have hxm : (x, bx) ∈ chainTxs L := by
                rcases mem_known.mp hpk with ⟨b', hb', hm⟩ | ⟨hb', _⟩
                · cases hb'; exact hm
                · cases hb'
              unfold credited at hc
              cases hlk : lookup L.credit inp with
              | none => rw [hlk] at hc; cases hc
              | some chg =>
                have hsp : spenderOf L inp = some ⟨t.hash, b.block, j⟩ :=
                  (spenderOf_eq_some_iff hl.noDouble).mpr ⟨(t, b), ht, j, hj, rfl⟩
                have ho : (⟨inp.hash, bx.block, inp.index⟩ : CredKey).outPoint = inp := by cases inp; rfl
                have hcr : s.credits.find? ⟨inp.hash, bx.block, inp.index⟩ =
                    some ⟨v, chg, true, some ⟨t.hash, b.block, j⟩⟩ :=
                  (hr.credits_iff _ _).mpr ⟨x, bx, hxm, hph.symm, rfl, hcv', by rw [ho]; exact hlk, by rw [ho, hsp],
                    by rw [ho, hsp]; rfl⟩
                have hdb : s.debits.find? ⟨t.hash, b.block, j⟩ = some ⟨v, ⟨inp.hash, bx.block, inp.index⟩⟩ :=
                  (hr.debits _ _).mpr ⟨_, hcr, rfl, rfl⟩
                exact ⟨(⟨t.hash, b.block, j⟩, ⟨v, ⟨inp.hash, bx.block, inp.index⟩⟩), (hdmem _).mpr ⟨hdb, rfl, rfl⟩, rfl⟩
          · simp [hc] at hcv'
    · simp only [List.map_map]
      exact nodup_indices_of_same_txkey _ hg.wf2.wf.nodupCredits ⟨t.hash, b.block⟩
    · simp only [List.map_map]
      exact nodup_indices_of_same_txkey _ hr.nodupDebits ⟨t.hash, b.block⟩

/-! ### `TxDetails` -/

theorem latestTxRecord_of_mined {s : Store} {L : Ledger} (hg : Good s L) {t : Tx} {b : BlockMeta}
    (ht : (t, b) ∈ chainTxs L) : latestTxRecord s t.hash = some (⟨t.hash, b.block⟩, t) := by
  have hrec : s.txrecs.find? ⟨t.hash, b.block⟩ = some t := (hg.ref.txrecs_iff _ _).mpr ⟨b, ht, rfl⟩
  unfold latestTxRecord
  have hall : ∀ p ∈ s.txrecs.filter (fun p => decide (p.1.hash = t.hash)), p = (⟨t.hash, b.block⟩, t) := by
    rintro ⟨k, v⟩ hp
    obtain ⟨hp1, hp2⟩ := List.mem_filter.mp hp
    have hf := find?_of_mem _ hg.ref.nodupTxrecs hp1
    obtain ⟨bv, hm, rfl⟩ := (hg.ref.txrecs_iff _ _).mp hf
    have := hg.lwf.mined_unique hm ht (by simpa using hp2)
    rw [this.1, this.2]
  have hmem : (⟨t.hash, b.block⟩, t) ∈ s.txrecs.filter (fun p => decide (p.1.hash = t.hash)) :=
    List.mem_filter.mpr ⟨mem_of_find? _ hrec, by simp⟩
  cases hl : (s.txrecs.filter (fun p => decide (p.1.hash = t.hash))).getLast? with
  | none => rw [List.getLast?_eq_none_iff] at hl; rw [hl] at hmem; cases hmem
  | some x => rw [hall x (List.mem_of_getLast? hl)]

/-- what `TxDetails` and the ledger say about a hash: both nothing, or equivalent records -/
def DetailsAgree : Option Details → Option Details → Prop
  | none, none => True
  | some d, some d' => DetEquiv d d'
  | _, _ => False

/-- **`TxDetails` reports the ledger's record** — for every hash: nothing when the transaction is not known; otherwise
the transaction, its current block (none while unconfirmed) and exactly the credit / debit records of the ledger -/
theorem details_refines {s : Store} {L : Ledger} (hg : Good s L) (hn : NoConflict L) (h : Nat) :
    ∃ o, txDetails s h = .ok o ∧ DetailsAgree o (Ledger.details L h) := by
  by_cases hk : ∃ p ∈ known L, p.1.hash = h
  · obtain ⟨⟨t, ob⟩, hp, rfl⟩ := hk
    rw [details_known hg.lwf hp]
    rcases mem_known.mp hp with ⟨b, rfl, hm⟩ | ⟨rfl, hm⟩
    · have hun : s.unmined.find? t.hash = none := by
        cases hf : s.unmined.find? t.hash with
        | none => rfl
        | some v =>
          obtain ⟨hv, hh⟩ := (hg.ref.unmined_iff _ _).mp hf
          exact absurd hh (hg.lwf.pool_not_mined hv hm)
      obtain ⟨d, hd, he⟩ := details_mined hg hm
      refine ⟨some d, ?_, he⟩
      unfold txDetails
      rw [hun]
      simp only [latestTxRecord_of_mined hg hm, hd, bind_ok, pure_eq]
    · have hun : s.unmined.find? t.hash = some t := (hg.ref.unmined_iff _ _).mpr ⟨hm, rfl⟩
      obtain ⟨d, hd, he⟩ := details_unmined hg hn hm
      refine ⟨some d, ?_, he⟩
      unfold txDetails
      rw [hun]
      simp only [hd, bind_ok, pure_eq]
  · have hk' : ∀ p ∈ known L, p.1.hash ≠ h := fun p hp e => hk ⟨p, hp, e⟩
    obtain ⟨o, ho, hiff⟩ := txDetails_total hg h
    have : o = none := by
      cases o with
      | none => rfl
      | some d => exact absurd (hiff.mp rfl) hk
    subst this
    exact ⟨none, ho, by rw [details_unknown hk']; trivial⟩

end TxStore
