import BtcwVerif.Lemmas.AddrNodup
import BtcwVerif.Lemmas.AddrRename
/-! Every state reached by any history satisfies `Inv` (official tree). -/
set_option linter.unusedSectionVars false
set_option linter.unusedVariables false
set_option linter.unusedSimpArgs false
namespace AddrDerive
open AddrSym

variable {K P : Type} [DecidableEq K] [DecidableEq P]

theorem opChangePass_inv {hd : HD K P} {s : State K P} (h : Inv hd s) (priv : Bool) (o n : Nat) :
    Inv hd (opChangePass s priv o n).1 := by
  unfold opChangePass
  repeat' split
  all_goals first
    | exact h
    | exact h.same (fun _ => rfl) (fun _ => rfl) rfl rfl rfl rfl rfl rfl rfl

theorem opProps_inv {hd : HD K P} {s : State K P} (h : Inv hd s) (sc : Scope) (a : Nat) : Inv hd (opProps hd s sc a).1 := by
  unfold opProps
  split
  · exact h
  · rename_i s1 ai hl
    exact (loadAcct_spec h hl).1

theorem opPrivKey_state (s : State K P) (hh : Nat) : (opPrivKey s hh).1 = s := by
  unfold opPrivKey; repeat' split
  all_goals rfl

theorem opScript_state (cfg : Cfg) (s : State K P) (hh : Nat) : (opScript cfg s hh).1 = s := by
  unfold opScript; repeat' split
  all_goals rfl

theorem opInfo_state (s : State K P) (hh : Nat) : (opInfo s hh).1 = s := by
  unfold opInfo; repeat' split
  all_goals rfl

/-- **Every operation preserves the consistency invariant** (one lemma per operation above). -/
theorem step_inv {hd : HD K P} (hlaw : hd.Lawful) (hn : hd.NoHardPub) {s : State K P} (h : Inv hd s) (hnd : Nodups s)
    (op : Op K P) : Inv hd (step Cfg.fixed hd s op).1 := by
  unfold step
  split
  · exact opCreate_inv hd _
  · split
    · exact h
    · split
      · exact h
      · split
        · exact opCreate_inv hd _
        · exact opUnlock_inv hlaw hn h hnd.noShadow _
        · exact opLock_inv h
        · exact opChangePass_inv h _ _ _
        · exact opNewScope_inv h _ _
        · exact opNewAccount_inv h _ _
        · exact opNewAccountWO_inv h _ _ _ _ _ _
        · exact opNext_inv hlaw hn h _ _ _ _ _
        · exact opExtend_inv hlaw hn h _ _ _ _
        · exact opLookup_inv hlaw h _ _ _
        · exact opMarkUsed_inv h _ _ _
        · exact opDerive_inv hlaw h _ _ _ _ _ _
        · exact opImportPriv_inv h _ _ _ _
        · exact importKey_inv h _ _ _ _ _
        · exact opImportScript_inv _ h _ _ _ _ _
        · rw [opPrivKey_state]; exact h
        · rw [opScript_state]; exact h
        · rw [opInfo_state]; exact h
        · exact opProps_inv h _ _
        · exact opRestart_inv h
        · exact opConvertWO_inv _ h
        · rw [opDeriveCache_state]; exact h
        · exact opRename_inv h _ _ _

/-- the state reached by a history (`run` without the write stream) -/
def runState (hd : HD K P) (ops : List (Op K P)) : State K P := ops.foldl (fun s op => (step Cfg.fixed hd s op).1) emptyState

theorem run_fst_eq (hd : HD K P) (ops : List (Op K P)) : (run Cfg.fixed hd ops).1 = runState hd ops := by
  unfold run runState
  have : ∀ (l : List (Op K P)) (s : State K P) (r : List Row),
      (l.foldl (fun acc op => let x := step Cfg.fixed hd acc.1 op; (x.1, acc.2 ++ x.2.2)) (s, r)).1 =
        l.foldl (fun s op => (step Cfg.fixed hd s op).1) s := by
    intro l
    induction l with
    | nil => intro s r; rfl
    | cons op t ih => intro s r; simp only [List.foldl_cons]; exact ih _ _
  cases ops with
  | nil => rfl
  | cons op t => exact this _ _ _

theorem runState_snoc (hd : HD K P) (ops : List (Op K P)) (op : Op K P) :
    runState hd (ops ++ [op]) = (step Cfg.fixed hd (runState hd ops) op).1 := by
  simp [runState, List.foldl_append]

theorem foldl_reach {hd : HD K P} (hlaw : hd.Lawful) (hn : hd.NoHardPub) : ∀ (ops : List (Op K P)) (s : State K P),
    Inv hd s → Nodups s →
    Inv hd (ops.foldl (fun s op => (step Cfg.fixed hd s op).1) s) ∧ Nodups (ops.foldl (fun s op => (step Cfg.fixed hd s op).1) s) := by
  intro ops
  induction ops with
  | nil => intro s h hnd; exact ⟨h, hnd⟩
  | cons op t ih =>
    intro s h hnd
    simp only [List.foldl_cons]
    exact ih _ (step_inv hlaw hn h hnd op) (step_nodups hd s op hnd)

/-- **The invariant holds after every history.** -/
theorem run_inv {hd : HD K P} (hlaw : hd.Lawful) (hn : hd.NoHardPub) (ops : List (Op K P)) :
    Inv hd (run Cfg.fixed hd ops).1 ∧ Nodups (run Cfg.fixed hd ops).1 := by
  rw [run_fst_eq]
  exact foldl_reach hlaw hn ops emptyState (Inv_empty hd) emptyState_nodups

end AddrDerive
