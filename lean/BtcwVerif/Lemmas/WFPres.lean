import BtcwVerif.Lemmas.WF
import BtcwVerif.Lemmas.InvPres
/-! Preservation of the lookup-level invariant `WF` by the store operations. -/
namespace TxStore
open KMap

/-! ### operations that leave the mined part alone -/

/-- generic: a reflexive, transitive relation that holds across the three primitive writes of `removeConflict`
holds across `removeConflict` (any depth) -/
theorem removeConflict_rel (R : Store → Store → Prop) (hrefl : ∀ s, R s s)
    (htrans : ∀ a b c, R a b → R b c → R a c)
    (hUC : ∀ s k, R s { s with unminedCredits := s.unminedCredits.erase k })
    (hDI : ∀ s k h, R s (deleteRawUnminedInput s k h))
    (hUM : ∀ s h, R s { s with unmined := s.unmined.erase h }) :
    ∀ (n : Nat) (s : Store) (t : Tx) (s' : Store), removeConflict n s t = .ok s' → R s s' := by
  intro n
  induction n with
  | zero => intro s t s' h; cases h
  | succ n ih =>
    intro s rec s' h
    unfold removeConflict removeConflictBody at h
    simp only [bind, Except.bind] at h
    split at h
    · cases h
    · rename_i s1 h1
      simp only [pure, Except.pure, Except.ok.injEq] at h
      subst h
      have hs1 : R s s1 := by
        refine foldlM_preserves (R s) _ ?_ _ s s1 (hrefl s) h1
        intro a io a' ha hstep
        obtain ⟨i, o⟩ := io
        simp only [bind, Except.bind] at hstep
        split at hstep
        · cases hstep
        · rename_i a2 h2
          simp only [pure, Except.pure, Except.ok.injEq] at hstep
          subst hstep
          have : R a a2 := by
            refine foldlM_preserves (R a) _ ?_ _ a a2 (hrefl a) h2
            intro b hsh b' hb hst
            split at hst
            · simp only [pure, Except.pure, Except.ok.injEq] at hst; subst hst; exact hb
            · exact htrans _ _ _ hb (ih _ _ _ hst)
          exact htrans _ _ _ (htrans _ _ _ ha this) (hUC a2 _)
      have hs2 := foldl_preserves (R s) (fun s inp => deleteRawUnminedInput s inp rec.hash)
        (fun a p hp => htrans _ _ _ hp (hDI a p rec.hash)) rec.ins s1 hs1
      exact htrans _ _ _ hs2 (hUM _ _)

/-- unique keys of the unconfirmed-credits bucket are kept -/
def NUC (s s' : Store) : Prop := NodupKeys s.unminedCredits → NodupKeys s'.unminedCredits

theorem nuc_deleteRawUnminedInput (s : Store) (k : OutPoint) (h : Nat) : NUC s (deleteRawUnminedInput s k h) := by
  unfold deleteRawUnminedInput
  split
  · exact id
  · split
    · exact id
    · dsimp only
      split <;> exact id

theorem nuc_removeConflict (n : Nat) (s : Store) (t : Tx) (s' : Store) (h : removeConflict n s t = .ok s') : NUC s s' :=
  removeConflict_rel NUC (fun _ => id) (fun _ _ _ h1 h2 hn => h2 (h1 hn))
    (fun s k hn => nodupKeys_erase _ k hn) nuc_deleteRawUnminedInput (fun _ _ => id) n s t s' h

theorem nuc_removeDoubleSpends {s s' : Store} {rec : Tx} (h : removeDoubleSpends s rec = .ok s') : NUC s s' := by
  unfold removeDoubleSpends at h
  refine foldlM_preserves (NUC s) _ ?_ _ s s' id h
  intro a inp a' ha hstep
  refine foldlM_preserves (NUC s) _ ?_ _ a a' ha hstep
  intro b hh b' hb hst
  split at hst
  · simp only [pure_eq, Except.ok.injEq] at hst; subst hst; exact hb
  · split at hst
    · simp only [pure_eq, Except.ok.injEq] at hst; subst hst; exact hb
    · exact fun hn => nuc_removeConflict _ _ _ _ hst (hb hn)

theorem sameMined_removeDoubleSpends {s s' : Store} {rec : Tx} (h : removeDoubleSpends s rec = .ok s') :
    SameMined s s' := by
  unfold removeDoubleSpends at h
  refine foldlM_preserves (SameMined s) _ ?_ _ s s' (SameMined.refl s) h
  intro a inp a' ha hstep
  refine foldlM_preserves (SameMined s) _ ?_ _ a a' ha hstep
  intro b hh b' hb hst
  split at hst
  · simp only [pure_eq, Except.ok.injEq] at hst; subst hst; exact hb
  · split at hst
    · simp only [pure_eq, Except.ok.injEq] at hst; subst hst; exact hb
    · exact hb.trans (sameMined_removeConflict _ _ _ _ hst)

theorem sameMined_deleteUnminedTx (s : Store) (rec : Tx) : SameMined s (deleteUnminedTx s rec) := by
  unfold deleteUnminedTx
  have h1 := foldl_preserves (SameMined s) (fun s inp => deleteRawUnminedInput s inp rec.hash)
    (fun a p hp => hp.trans (sameMined_deleteRawUnminedInput a p rec.hash)) rec.ins s (SameMined.refl s)
  have h2 := foldl_preserves (SameMined s)
    (fun s (p : Nat × Int) => { s with unminedCredits := s.unminedCredits.erase ⟨rec.hash, p.1⟩ })
    (fun a p hp => hp.trans ⟨rfl, rfl, rfl, rfl, rfl, rfl⟩) (withIdx rec.outs) _ h1
  exact h2.trans ⟨rfl, rfl, rfl, rfl, rfl, rfl⟩

theorem nuc_deleteUnminedTx (s : Store) (rec : Tx) : NUC s (deleteUnminedTx s rec) := by
  unfold deleteUnminedTx
  have h1 := foldl_preserves (NUC s) (fun s inp => deleteRawUnminedInput s inp rec.hash)
    (fun a p hp hn => nuc_deleteRawUnminedInput a p rec.hash (hp hn)) rec.ins s id
  have h2 := foldl_preserves (NUC s)
    (fun s (p : Nat × Int) => { s with unminedCredits := s.unminedCredits.erase ⟨rec.hash, p.1⟩ })
    (fun a p hp hn => nodupKeys_erase _ _ (hp hn)) (withIdx rec.outs) _ h1
  exact h2

theorem wf_of_sameMined {s s' : Store} (h : SameMined s s') (hn : NodupKeys s'.unminedCredits) (hw : WF s) : WF s' := by
  obtain ⟨hb, ht, hc, hu, hm, _⟩ := h
  refine ⟨by rw [hc]; exact hw.nodupCredits, by rw [hu]; exact hw.nodupUnspent, hn, by rw [hb]; exact hw.sorted,
    by rw [hb]; exact hw.txsNodup, by rw [hb, ht]; exact hw.recorded, by rw [hb, ht]; exact hw.recListed,
    by rw [ht]; exact hw.oneBlock, ?_, by rw [hu, hc]; exact hw.index, by rw [hm, hc]; exact hw.counter⟩
  intro k cv hf
  rw [hc] at hf
  unfold Listed
  rw [hb, ht]
  exact hw.listed k cv hf

theorem sweep_uc (s : Store) (now : Nat) : (deleteExpiredLockedOutputs s now).unminedCredits = s.unminedCredits := by
  unfold deleteExpiredLockedOutputs
  generalize s.locked.filter _ = l
  induction l generalizing s with
  | nil => rfl
  | cons x t ih => rw [List.foldl_cons, ih]; rfl

/-! ### `addCredit` for a mined transaction -/

theorem wf_addCredit_mined {s s' : Store} {rec : Tx} {bm : BlockMeta} {i : Nat} {chg : Bool} (hw : WF s)
    (h : addCredit s rec (some bm) i chg = .ok s')
    (hrec : s.txrecs.find? ⟨rec.hash, bm.block⟩ = some rec) : WF s' := by
  unfold addCredit at h
  cases hout : rec.outs[i]? with
  | none => simp [hout] at h
  | some amt =>
    simp only [hout] at h
    by_cases hex : s.credits.contains ⟨rec.hash, bm.block, i⟩ = true
    · simp only [hex, if_true, pure_eq, Except.ok.injEq] at h
      subst h; exact hw
    · have hnone : s.credits.find? ⟨rec.hash, bm.block, i⟩ = none := by
        cases hf : s.credits.find? ⟨rec.hash, bm.block, i⟩ with
        | none => rfl
        | some v => simp [contains_eq, hf] at hex
      simp only [hex, if_false, pure_eq, Except.ok.injEq, Bool.false_eq_true] at h
      subst h
      obtain ⟨_, br, hbr, hbh, htx⟩ := hw.recListed _ _ hrec
      refine ⟨nodupKeys_insert _ _ _ hw.nodupCredits, nodupKeys_insert _ _ _ hw.nodupUnspent, hw.nodupUC, hw.sorted,
        hw.txsNodup, hw.recorded, hw.recListed, hw.oneBlock, ?_, ?_, ?_⟩
      · intro k cv hf
        simp only [find?_insert] at hf
        split at hf
        · rename_i hk
          cases hf; subst hk
          exact ⟨br, rec, hbr, hbh, htx, hrec, hout⟩
        · exact hw.listed k cv hf
      · intro op blk
        simp only [find?_insert]
        by_cases hop : (⟨rec.hash, i⟩ : OutPoint) = op
        · subst hop
          simp only [if_true]
          by_cases hb : blk = bm.block
          · subst hb; simp
          · have hne : ¬ (⟨rec.hash, bm.block, i⟩ : CredKey) = ⟨rec.hash, blk, i⟩ := by
              intro e; injection e with _ e2 _; exact hb e2.symm
            simp only [hne, if_false]
            constructor
            · intro e; injection e with e; exact absurd e.symm hb
            · rintro ⟨cv, hcv, _⟩
              obtain ⟨_, rec', _, _, _, hrec', _⟩ := hw.listed _ _ hcv
              have := hw.oneBlock ⟨rec.hash, blk⟩ ⟨rec.hash, bm.block⟩ (by simp [CredKey.txKey] at hrec'; simp [hrec'])
                (by simp [hrec]) rfl
              injection this with _ e; exact absurd e hb
        · have hne : ¬ (⟨rec.hash, bm.block, i⟩ : CredKey) = ⟨op.hash, blk, op.index⟩ := by
            intro e; apply hop
            have e1 : rec.hash = op.hash := congrArg CredKey.hash e
            have e3 : i = op.index := congrArg CredKey.index e
            cases op; simp only at e1 e3; rw [e1, e3]
          simp only [hop, hne, if_false]
          exact hw.index op blk
      · show s.minedBalance + amt = creditSum _
        unfold creditSum
        rw [sum_insert _ _ _ _ hw.nodupCredits, hnone]
        have := hw.counter
        unfold creditSum at this
        simp only [Bool.false_eq_true, if_false]
        omega

end TxStore
