import BtcwVerif.Lemmas.KMap
/-!
# Sortedness of the buckets (`KMap`) in bbolt key order

`KOrd.lt` of every key type of the store is a strict total order (`LawfulKOrd`); `insert` (bbolt `Put`) and `erase`
(bbolt `Delete`) keep a bucket strictly ascending (`Sorted`).  Used by `Lemmas/SortedStore.lean` to carry "every bucket
is in key order" along every sequence of store operations, which fixes the ORDER of the records the queries return.
-/
namespace TxStore

/-- `KOrd.lt` is a strict total order -/
class LawfulKOrd (κ : Type) [KOrd κ] : Prop where
  irrefl : ∀ a : κ, KOrd.lt a a = false
  trans : ∀ a b c : κ, KOrd.lt a b = true → KOrd.lt b c = true → KOrd.lt a c = true
  total : ∀ a b : κ, KOrd.lt a b = false → a ≠ b → KOrd.lt b a = true

instance : LawfulKOrd Nat where
  irrefl a := by simp [KOrd.lt]
  trans a b c h1 h2 := by simp only [KOrd.lt, decide_eq_true_eq] at *; omega
  total a b h1 h2 := by simp only [KOrd.lt, decide_eq_true_eq, decide_eq_false_iff_not] at *; omega

instance : LawfulKOrd OutPoint where
  irrefl a := by simp [KOrd.lt]
  trans a b c h1 h2 := by simp only [KOrd.lt, decide_eq_true_eq] at *; omega
  total a b h1 h2 := by
    obtain ⟨ah, ai⟩ := a
    obtain ⟨bh, bi⟩ := b
    simp only [KOrd.lt, decide_eq_true_eq, decide_eq_false_iff_not, ne_eq, OutPoint.mk.injEq] at *
    omega

theorem Block.lt_iff (a b : Block) : a.lt b = true ↔ a.height < b.height ∨ (a.height = b.height ∧ a.hash < b.hash) := by
  simp [Block.lt]

theorem Block.lt_false_iff (a b : Block) :
    a.lt b = false ↔ ¬ (a.height < b.height ∨ (a.height = b.height ∧ a.hash < b.hash)) := by
  simp [Block.lt]

theorem Block.eq_iff (a b : Block) : a = b ↔ a.height = b.height ∧ a.hash = b.hash := by
  cases a; cases b; simp

instance : LawfulKOrd Block where
  irrefl a := by simp [KOrd.lt, Block.lt]
  trans a b c h1 h2 := by simp only [KOrd.lt, Block.lt_iff] at *; omega
  total a b h1 h2 := by
    simp only [KOrd.lt, Block.lt_iff, Block.lt_false_iff, ne_eq, Block.eq_iff] at *
    omega

theorem TxKey.lt_iff (a b : TxKey) :
    KOrd.lt a b = true ↔ a.hash < b.hash ∨ (a.hash = b.hash ∧ a.block.lt b.block = true) := by
  simp [KOrd.lt]

instance : LawfulKOrd TxKey where
  irrefl a := by
    have := LawfulKOrd.irrefl a.block
    simp only [KOrd.lt] at this
    simp [KOrd.lt, this]
  trans a b c h1 h2 := by
    rw [TxKey.lt_iff] at *
    simp only [Block.lt_iff] at *
    omega
  total a b h1 h2 := by
    obtain ⟨ah, ab⟩ := a
    obtain ⟨bh, bb⟩ := b
    rw [TxKey.lt_iff]
    have h1' : ¬ (ah < bh ∨ (ah = bh ∧ ab.lt bb = true)) := by
      intro h; rw [← TxKey.lt_iff ⟨ah, ab⟩ ⟨bh, bb⟩, h1] at h; cases h
    simp only [Block.lt_iff, ne_eq, TxKey.mk.injEq, Block.eq_iff] at *
    omega

theorem CredKey.lt_iff (a b : CredKey) :
    KOrd.lt a b = true ↔ a.hash < b.hash ∨ (a.hash = b.hash ∧
      (a.block.lt b.block = true ∨ (a.block = b.block ∧ a.index < b.index))) := by
  simp [KOrd.lt]

instance : LawfulKOrd CredKey where
  irrefl a := by
    have := LawfulKOrd.irrefl a.block
    simp only [KOrd.lt] at this
    simp [KOrd.lt, this]
  trans a b c h1 h2 := by
    rw [CredKey.lt_iff] at *
    simp only [Block.lt_iff, Block.eq_iff] at *
    omega
  total a b h1 h2 := by
    obtain ⟨ah, ab, ai⟩ := a
    obtain ⟨bh, bb, bi⟩ := b
    rw [CredKey.lt_iff]
    have h1' : ¬ (ah < bh ∨ (ah = bh ∧ (ab.lt bb = true ∨ (ab = bb ∧ ai < bi)))) := by
      intro h; rw [← CredKey.lt_iff ⟨ah, ab, ai⟩ ⟨bh, bb, bi⟩, h1] at h; cases h
    simp only [Block.lt_iff, ne_eq, CredKey.mk.injEq, Block.eq_iff] at *
    omega

namespace KMap
variable {κ ν : Type}

/-- strictly ascending keys (bbolt cursor order) -/
def Sorted [KOrd κ] (m : KMap κ ν) : Prop := m.Pairwise (fun p q => KOrd.lt p.1 q.1 = true)

theorem sorted_nil [KOrd κ] : Sorted ([] : KMap κ ν) := List.Pairwise.nil

theorem sorted_erase [DecidableEq κ] [KOrd κ] (m : KMap κ ν) (k : κ) (h : Sorted m) : Sorted (erase m k) :=
  List.Pairwise.filter _ h

theorem sorted_filter [KOrd κ] (m : KMap κ ν) (f : κ × ν → Bool) (h : Sorted m) : Sorted (m.filter f) :=
  List.Pairwise.filter _ h

theorem sorted_place [DecidableEq κ] [KOrd κ] [LawfulKOrd κ] (m : KMap κ ν) (k : κ) (v : ν) (hs : Sorted m)
    (hk : k ∉ keys m) : Sorted (place m k v) := by
  induction m with
  | nil => simp [place, Sorted]
  | cons p t ih =>
    obtain ⟨a, b⟩ := p
    unfold Sorted at hs
    rw [List.pairwise_cons] at hs
    have hka : k ≠ a := by intro e; apply hk; simp [keys, e]
    have hkt : k ∉ keys t := by intro e; apply hk; simp only [keys, List.map_cons, List.mem_cons]; exact Or.inr e
    unfold place
    by_cases h2 : KOrd.lt k a = true
    · simp only [h2, if_true]
      unfold Sorted
      rw [List.pairwise_cons, List.pairwise_cons]
      refine ⟨?_, hs⟩
      intro x hx
      rcases List.mem_cons.mp hx with rfl | hx'
      · exact h2
      · exact LawfulKOrd.trans _ _ _ h2 (hs.1 x hx')
    · have h2' : KOrd.lt k a = false := by simpa using h2
      simp only [h2, if_false, Bool.false_eq_true]
      unfold Sorted
      rw [List.pairwise_cons]
      refine ⟨?_, ih hs.2 hkt⟩
      intro x hx
      have hx' : x.1 ∈ keys (place t k v) := List.mem_map.mpr ⟨x, hx, rfl⟩
      rcases (mem_keys_place t k v x.1).mp hx' with e | e
      · rw [e]; exact LawfulKOrd.total _ _ h2' hka
      · obtain ⟨y, hy, hye⟩ := List.mem_map.mp e
        have := hs.1 y hy
        rw [hye] at this
        exact this

theorem sorted_insert [DecidableEq κ] [KOrd κ] [LawfulKOrd κ] (m : KMap κ ν) (k : κ) (v : ν) (hs : Sorted m) :
    Sorted (insert m k v) := by
  unfold insert
  apply sorted_place _ _ _ (sorted_erase m k hs)
  intro hm
  exact ((mem_keys_erase m k k).mp hm).2 rfl

/-- strictly ascending keys are unique -/
theorem nodupKeys_of_sorted' [DecidableEq κ] [KOrd κ] [LawfulKOrd κ] (m : KMap κ ν) (h : Sorted m) : NodupKeys m := by
  unfold NodupKeys keys
  rw [List.Nodup, List.pairwise_map]
  refine h.imp ?_
  intro a b hab e
  rw [e, LawfulKOrd.irrefl] at hab
  cases hab

/-- two strictly ascending lists with the same elements are the same list -/
theorem eq_of_sorted_of_mem_iff {α : Type} (r : α → α → Prop) (hirr : ∀ a, ¬ r a a)
    (hasym : ∀ a b, r a b → r b a → False) {l1 l2 : List α}
    (h1 : l1.Pairwise r) (h2 : l2.Pairwise r) (hm : ∀ a, a ∈ l1 ↔ a ∈ l2) : l1 = l2 := by
  have n1 : l1.Nodup := by
    unfold List.Nodup
    refine h1.imp ?_
    intro a b hab e
    subst e; exact hirr _ hab
  have n2 : l2.Nodup := by
    unfold List.Nodup
    refine h2.imp ?_
    intro a b hab e
    subst e; exact hirr _ hab
  have hp : l1.Perm l2 := (List.perm_ext_iff_of_nodup n1 n2).mpr hm
  exact hp.eq_of_pairwise (fun a b _ _ hab hba => (hasym a b hab hba).elim) h1 h2

end KMap
end TxStore
