import BtcwVerif.Lemmas.AddrInvAcct
/-! `ConvertToWatchingOnly` preserves `Inv`; `step` preserves `Inv`. -/
set_option linter.unusedSectionVars false
set_option linter.unusedVariables false
set_option linter.unusedSimpArgs false
namespace AddrDerive
open AddrSym

variable {K P : Type} [DecidableEq K] [DecidableEq P]

/-- `heap'` is `heap` with some objects stripped of their private part -/
def Stripped (heap heap' : List (Obj K P)) : Prop :=
  heap'.length = heap.length ∧ ∀ idx : Nat, heap'[idx]? = heap[idx]? ∨ ∃ o, heap[idx]? = some o ∧ heap'[idx]? = some (stripObj o)

theorem stripObj_idem (o : Obj K P) : stripObj (stripObj o) = stripObj o := by
  cases o with
  | key k => rfl
  | scr sc =>
    by_cases hk : sc.kind = 0 <;> simp [stripObj, hk]

theorem Stripped.refl (heap : List (Obj K P)) : Stripped heap heap := ⟨rfl, fun _ => Or.inl rfl⟩

theorem Stripped.trans {h1 h2 h3 : List (Obj K P)} (a : Stripped h1 h2) (b : Stripped h2 h3) : Stripped h1 h3 := by
  refine ⟨b.1.trans a.1, fun idx => ?_⟩
  rcases b.2 idx with hb | ⟨o, hb1, hb2⟩
  · rw [hb]; exact a.2 idx
  · rcases a.2 idx with ha | ⟨o0, ha1, ha2⟩
    · exact Or.inr ⟨o, by rw [← ha]; exact hb1, hb2⟩
    · rw [ha2] at hb1; cases hb1
      exact Or.inr ⟨o0, ha1, by rw [hb2, stripObj_idem]⟩

theorem stripCached_spec : ∀ (l : List Nat) (heap : List (Obj K P)), Stripped heap (stripCached heap l) := by
  intro l
  induction l with
  | nil => intro heap; exact Stripped.refl heap
  | cons i t ih =>
    intro heap
    unfold stripCached
    split
    · rename_i o ho
      refine Stripped.trans ?_ (ih _)
      have hlt : i < heap.length := by
        rcases Nat.lt_or_ge i heap.length with hlt | hge
        · exact hlt
        · rw [List.getElem?_eq_none hge] at ho; cases ho
      refine ⟨length_setAt _ _ _, fun idx => ?_⟩
      rw [getElem?_setAt]
      by_cases hi : i = idx
      · subst hi; exact Or.inr ⟨o, ho, by simp [hlt]⟩
      · simp [hi]
    · exact ih _

theorem Stripped.key {h1 h2 : List (Obj K P)} (a : Stripped h1 h2) {idx : Nat} {o' : KeyObj K P} (h : h2[idx]? = some (.key o')) :
    ∃ o, h1[idx]? = some (.key o) ∧ (o' = o ∨ o' = { o with privEnc := none }) := by
  rcases a.2 idx with ha | ⟨o, ha1, ha2⟩
  · exact ⟨o', by rw [← ha]; exact h, Or.inl rfl⟩
  · rw [ha2] at h
    cases o with
    | key k =>
      simp [stripObj] at h
      exact ⟨k, ha1, Or.inr h.symm⟩
    | scr sc =>
      simp only [stripObj] at h
      split at h <;> simp at h

theorem Stripped.key' {h1 h2 : List (Obj K P)} (a : Stripped h1 h2) {idx : Nat} {o : KeyObj K P} (h : h1[idx]? = some (.key o)) :
    ∃ o', h2[idx]? = some (.key o') ∧ (o' = o ∨ o' = { o with privEnc := none }) := by
  rcases a.2 idx with ha | ⟨o0, ha1, ha2⟩
  · exact ⟨o, by rw [ha]; exact h, Or.inl rfl⟩
  · rw [h] at ha1; cases ha1
    exact ⟨_, ha2, Or.inr rfl⟩

theorem stripAddrRow_chain (cfg : Cfg) (r : AddrRow) (a b i : Nat) (h : stripAddrRow cfg r = .chain a b i) : r = .chain a b i := by
  cases r with
  | chain a' b' i' => simpa [stripAddrRow] using h
  | imp k c hp => simp [stripAddrRow] at h
  | scr k kd s e =>
    rcases kd with _ | _ | n
    · simp [stripAddrRow] at h
    · cases s <;> simp [stripAddrRow] at h
    · cases s <;> simp [stripAddrRow] at h
      split at h <;> cases h

theorem rowPub_strip (r : AcctRow K P) : rowPub (stripAcctRow r) = rowPub r := by cases r <;> rfl
theorem rowPriv_strip (r : AcctRow K P) : rowPriv (stripAcctRow r) = none := by cases r <;> rfl

section convert
variable (cfg : Cfg) (s : State K P) (hw : s.mem.watchOnly = false)
include hw

theorem getSD_convertWO (sc : Scope) : getSD (opConvertWO cfg s).1 sc = (getSD s sc).map fun sd => (stripScope cfg sc sd).1 := by
  simp only [opConvertWO, hw, Bool.false_eq_true, if_false, getSD, List.map_map]
  exact alookup_map s.disk.scopes (fun k sd => (stripScope cfg k sd).1) sc

theorem getSM_convertWO (sc : Scope) : getSM (opConvertWO cfg s).1 sc = (getSM s sc).map fun sm => woScope (lockScope sm) := by
  simp only [opConvertWO, hw, Bool.false_eq_true, if_false, getSM, doLock, List.map_map]
  exact alookup_map s.mem.scopes (fun _ sm => woScope (lockScope sm)) sc

theorem heap_convertWO : Stripped s.mem.heap (opConvertWO cfg s).1.mem.heap := by
  simp only [opConvertWO, hw, Bool.false_eq_true, if_false]
  exact stripCached_spec _ _

theorem flags_convertWO : (opConvertWO cfg s).1.root = s.root ∧ (opConvertWO cfg s).1.imports = s.imports ∧
    (opConvertWO cfg s).1.mem.watchOnly = true ∧ (opConvertWO cfg s).1.disk.watchOnly = true ∧
    (opConvertWO cfg s).1.mem.locked = true ∧ (opConvertWO cfg s).1.disk.rootPriv = none := by
  simp [opConvertWO, hw, doLock]

end convert

theorem opConvertWO_inv {hd : HD K P} (cfg : Cfg) {s : State K P} (h : Inv hd s) : Inv hd (opConvertWO cfg s).1 := by
  cases hw : s.mem.watchOnly with
  | true => simp only [opConvertWO, hw, if_true]; exact h
  | false =>
    generalize hs' : (opConvertWO cfg s).1 = s'
    have hsd : ∀ sc, getSD s' sc = (getSD s sc).map fun sd => (stripScope cfg sc sd).1 := by
      intro sc; rw [← hs']; exact getSD_convertWO cfg s hw sc
    have hsm : ∀ sc, getSM s' sc = (getSM s sc).map fun sm => woScope (lockScope sm) := by
      intro sc; rw [← hs']; exact getSM_convertWO cfg s hw sc
    have hheap : Stripped s.mem.heap s'.mem.heap := by rw [← hs']; exact heap_convertWO cfg s hw
    obtain ⟨hroot, himp, hmw, hdw, hlk, hrp⟩ : s'.root = s.root ∧ s'.imports = s.imports ∧ s'.mem.watchOnly = true ∧
        s'.disk.watchOnly = true ∧ s'.mem.locked = true ∧ s'.disk.rootPriv = none := by
      rw [← hs']; exact flags_convertWO cfg s hw
    have hacct : ∀ sc a, acctRow s' sc a = (acctRow s sc a).map stripAcctRow := by
      intro sc a
      unfold acctRow
      rw [hsd]
      cases getSD s sc with
      | none => rfl
      | some sd => exact alookup_map sd.accts (fun _ r => stripAcctRow r) a
    have haddr : ∀ sc id, addrRowAt s' sc id = (addrRowAt s sc id).map (stripAddrRow cfg) := by
      intro sc id
      unfold addrRowAt
      rw [hsd]
      cases getSD s sc with
      | none => rfl
      | some sd => exact alookup_map sd.addrs (fun _ r => stripAddrRow cfg r) id
    have hcache : ∀ sc a, cacheAt s' sc a = (cacheAt s sc a).map fun ai => woAcct (lockAcct ai) := by
      intro sc a
      unfold cacheAt
      rw [hsm]
      cases getSM s sc with
      | none => rfl
      | some sm =>
        simp only [Option.map_some, Option.bind_some, woScope, lockScope, List.map_map]
        exact alookup_map sm.acctInfo (fun _ ai => woAcct (lockAcct ai)) a
    have hdou : ∀ sc, douAt s' sc = douAt s sc := by
      intro sc
      unfold douAt
      rw [hsm]
      cases getSM s sc <;> rfl
    refine ⟨by rw [hmw, hdw], fun _ => hlk, ⟨fun r hr => (by rw [hrp] at hr; cases hr), ?_, ?_, ?_, ?_⟩, ?_, ?_, ?_, ?_⟩
    · intro sc ck hc
      simp only [coinAt, hsd] at hc
      cases hx : getSD s sc <;> simp [hx, stripScope] at hc
    · intro sc lo hlo
      have : lastAt s sc = some lo := by
        simp only [lastAt, hsd] at hlo ⊢
        cases hx : getSD s sc with
        | none => simp [hx] at hlo
        | some sd => simpa [hx, stripScope] using hlo
      obtain ⟨l, h1, h2⟩ := h.disk.last sc lo this
      refine ⟨l, h1, fun a ha => h2 a ?_⟩
      rw [hacct] at ha
      cases hx : acctRow s sc a with
      | none => simp [hx] at ha
      | some _ => rfl
    · intro sc a r hr
      rw [hacct] at hr
      cases hx : acctRow s sc a with
      | none => simp [hx] at hr
      | some r0 =>
        simp [hx] at hr
        subst hr
        have := h.disk.row sc a r0 hx
        cases r0 with
        | dflt pub priv ne ni name =>
          obtain ⟨root, ak, h1, h2, h3, _⟩ := this
          exact ⟨root, ak, (by rw [hroot]; exact h1), h2, h3, fun k hk => (by cases hk)⟩
        | wo pub fp ne ni name schema ci => simpa [stripAcctRow, RowKeyOK, himp] using this
    · intro sc id a b i hr
      rw [haddr] at hr
      cases hx : addrRowAt s sc id with
      | none => simp [hx] at hr
      | some r0 =>
        simp [hx] at hr
        have := stripAddrRow_chain cfg r0 a b i hr
        subst this
        obtain ⟨row, p, cls, h1, h2, h3⟩ := h.disk.addr sc id a b i hx
        exact ⟨stripAcctRow row, p, cls, (by rw [hacct, h1]; rfl), (by rw [rowPub_strip]; exact h2), h3⟩
    · intro sc a ai hc
      rw [hcache] at hc
      cases hx : cacheAt s sc a with
      | none => simp [hx] at hc
      | some ai0 =>
        simp [hx] at hc
        subst hc
        obtain ⟨row, hr, hok⟩ := h.cache sc a ai0 hx
        exact ⟨stripAcctRow row, (by rw [hacct, hr]; rfl), (by rw [rowPub_strip]; exact hok.pub), (by rw [rowPriv_strip]; rfl),
          fun _ => rfl, fun hl => (by rw [hlk] at hl; cases hl)⟩
    · intro o' ho'
      obtain ⟨idx, hidx⟩ := List.getElem?_of_mem ho'
      obtain ⟨o, ho, hcase⟩ := hheap.key hidx
      have hko := h.heap o (List.mem_of_getElem? ho)
      have hch : o'.imported = false → ∃ row, acctRow s' o.scope o.acct = some row ∧ o.acctPub = some (rowPub row) ∧
          o.internal = (o.branch == 1) ∧
          (o.branch < H → o.index < H → ∃ p, derive2pub hd (rowPub row) o.branch o.index = some p ∧ o.pub = .hd p) ∧
          (s'.disk.watchOnly = false → o.hasPrivAcct = (rowPriv row).isSome) := by
        intro hni
        have hni' : o.imported = false := by rcases hcase with e | e <;> rw [e] at hni <;> exact hni
        obtain ⟨row, h1, h2, h3, h4, _⟩ := hko.chained hni'
        exact ⟨stripAcctRow row, (by rw [hacct, h1]; rfl), (by rw [rowPub_strip]; exact h2), h3, (by rw [rowPub_strip]; exact h4),
          fun hw => (by rw [hdw] at hw; cases hw)⟩
      rcases hcase with e | e
      · subst e; exact ⟨hko.priv, hch, hko.imported⟩
      · subst e; exact ⟨fun k hk => (by cases hk), hch, hko.imported⟩
    · intro sc e he
      rw [hdou] at he
      obtain ⟨o, ho, hdo⟩ := h.dou sc e he
      obtain ⟨o', ho', hcase⟩ := hheap.key' ho
      have hc' : (cacheAt s' sc o.acct).isSome := by
        rw [hcache]
        have := hdo.cached
        cases hx : cacheAt s sc o.acct with
        | none => rw [hx] at this; cases this
        | some _ => rfl
      rcases hcase with e' | e'
      · subst e'; exact ⟨o', ho', hdo.notImp, hdo.scope, hdo.branch, hdo.index, hc', hdo.pub⟩
      · subst e'; exact ⟨_, ho', hdo.notImp, hdo.scope, hdo.branch, hdo.index, hc', hdo.pub⟩
    · intro idx o ho hni hpa hw
      rw [hmw] at hw; cases hw

end AddrDerive
