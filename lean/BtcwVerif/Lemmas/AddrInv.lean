import BtcwVerif.Model.AddrDeriveStep
/-!
# Consistency invariant of the `AddrDerive` model (C03)

`Inv hd s` ties together what the database holds (account rows, cointype keys, address rows), what the manager
caches (account info, derive-on-unlock queue) and the address objects handed out (the heap): every account key is
the seed's child at the scope/account path (or the imported account key), cached account info mirrors its row,
every address object was derived from the key of its account's row, an attached private key is the key of the
object's public key, and an object whose account has a private key either carries its key or is queued for
derive-on-unlock.  `Lemmas/AddrInvOps.lean` shows that `Create` establishes it and every operation preserves it.
-/
set_option linter.unusedSectionVars false
set_option linter.unusedVariables false
namespace AddrDerive

variable {K P : Type} [DecidableEq K] [DecidableEq P]

/-- public derivation of a hardened child is impossible (BIP32) -/
def HD.NoHardPub {K P : Type} (hd : HD K P) : Prop := ∀ p i, H ≤ i → hd.pubChild p i = none

-- ---------------------------------------------------------------------------------------------------------
-- association lists

section alist
variable {α β γ : Type} [DecidableEq α]

theorem alookup_aset (l : List (α × β)) (a a' : α) (b : β) :
    alookup (aset l a b) a' = if a = a' then some b else alookup l a' := by
  induction l with
  | nil => simp [aset, alookup]
  | cons h t ih =>
    obtain ⟨k, v⟩ := h
    by_cases hk : k = a
    · subst hk
      by_cases ha : k = a' <;> simp [aset, alookup, ha]
    · by_cases ha : a = a'
      · subst ha; simp [aset, alookup, hk, ih]
      · by_cases hk' : k = a'
        · subst hk'; simp [aset, alookup, hk, ha]
        · simp [aset, alookup, hk, hk', ih, ha]

theorem alookup_aset_self (l : List (α × β)) (a : α) (b : β) : alookup (aset l a b) a = some b := by
  simp [alookup_aset]

theorem alookup_aset_ne (l : List (α × β)) (a a' : α) (b : β) (h : a ≠ a') : alookup (aset l a b) a' = alookup l a' := by
  simp [alookup_aset, h]

theorem alookup_map (l : List (α × β)) (f : α → β → γ) (a : α) :
    alookup (l.map fun e => (e.1, f e.1 e.2)) a = (alookup l a).map (f a) := by
  induction l with
  | nil => simp [alookup]
  | cons h t ih =>
    obtain ⟨k, v⟩ := h
    by_cases hk : k = a
    · subst hk; simp [alookup]
    · simp [alookup, hk, ih]

theorem alookup_cons (k a : α) (v : β) (t : List (α × β)) :
    alookup ((k, v) :: t) a = if k = a then some v else alookup t a := rfl

theorem alookup_mem (l : List (α × β)) (a : α) (b : β) (h : alookup l a = some b) : (a, b) ∈ l := by
  induction l with
  | nil => simp [alookup] at h
  | cons hd t ih =>
    obtain ⟨k, v⟩ := hd
    by_cases hk : k = a
    · subst hk; simp [alookup] at h; subst h; exact List.mem_cons_self
    · simp [alookup, hk] at h; exact List.mem_cons_of_mem _ (ih h)

end alist

theorem getElem?_setAt {α : Type} (l : List α) (n m : Nat) (a : α) :
    (setAt l n a)[m]? = if n = m ∧ n < l.length then some a else l[m]? := by
  induction l generalizing n m with
  | nil => cases n <;> simp [setAt]
  | cons h t ih =>
    cases n with
    | zero => cases m <;> simp [setAt]
    | succ n =>
      cases m with
      | zero => simp [setAt]
      | succ m => simp [setAt, ih]

theorem length_setAt {α : Type} (l : List α) (n : Nat) (a : α) : (setAt l n a).length = l.length := by
  induction l generalizing n with
  | nil => cases n <;> simp [setAt]
  | cons h t ih => cases n <;> simp [setAt, ih]

-- ---------------------------------------------------------------------------------------------------------
-- state access

@[simp] theorem getSD_putSD (s : State K P) (sc sc' : Scope) (sd : ScopeDisk K P) :
    getSD (putSD s sc sd) sc' = if sc = sc' then some sd else getSD s sc' := by
  simp [getSD, putSD, alookup_aset]
@[simp] theorem getSM_putSM (s : State K P) (sc sc' : Scope) (sm : ScopeMem K P) :
    getSM (putSM s sc sm) sc' = if sc = sc' then some sm else getSM s sc' := by
  simp [getSM, putSM, alookup_aset]
@[simp] theorem getSM_putSD (s : State K P) (sc sc' : Scope) (sd : ScopeDisk K P) : getSM (putSD s sc sd) sc' = getSM s sc' := rfl
@[simp] theorem getSD_putSM (s : State K P) (sc sc' : Scope) (sm : ScopeMem K P) : getSD (putSM s sc sm) sc' = getSD s sc' := rfl
@[simp] theorem mem_putSD (s : State K P) (sc : Scope) (sd : ScopeDisk K P) : (putSD s sc sd).mem = s.mem := rfl
@[simp] theorem root_putSD (s : State K P) (sc : Scope) (sd : ScopeDisk K P) : (putSD s sc sd).root = s.root := rfl
@[simp] theorem imports_putSD (s : State K P) (sc : Scope) (sd : ScopeDisk K P) : (putSD s sc sd).imports = s.imports := rfl
@[simp] theorem dwo_putSD (s : State K P) (sc : Scope) (sd : ScopeDisk K P) : (putSD s sc sd).disk.watchOnly = s.disk.watchOnly := rfl
@[simp] theorem drp_putSD (s : State K P) (sc : Scope) (sd : ScopeDisk K P) : (putSD s sc sd).disk.rootPriv = s.disk.rootPriv := rfl
@[simp] theorem disk_putSM (s : State K P) (sc : Scope) (sm : ScopeMem K P) : (putSM s sc sm).disk = s.disk := rfl
@[simp] theorem root_putSM (s : State K P) (sc : Scope) (sm : ScopeMem K P) : (putSM s sc sm).root = s.root := rfl
@[simp] theorem imports_putSM (s : State K P) (sc : Scope) (sm : ScopeMem K P) : (putSM s sc sm).imports = s.imports := rfl
@[simp] theorem heap_putSM (s : State K P) (sc : Scope) (sm : ScopeMem K P) : (putSM s sc sm).mem.heap = s.mem.heap := rfl
@[simp] theorem locked_putSM (s : State K P) (sc : Scope) (sm : ScopeMem K P) : (putSM s sc sm).mem.locked = s.mem.locked := rfl
@[simp] theorem mwo_putSM (s : State K P) (sc : Scope) (sm : ScopeMem K P) : (putSM s sc sm).mem.watchOnly = s.mem.watchOnly := rfl

@[simp] theorem getSD_alloc (s : State K P) (o : Obj K P) (sc : Scope) : getSD (alloc s o).1 sc = getSD s sc := rfl
@[simp] theorem getSM_alloc (s : State K P) (o : Obj K P) (sc : Scope) : getSM (alloc s o).1 sc = getSM s sc := rfl
@[simp] theorem disk_alloc (s : State K P) (o : Obj K P) : (alloc s o).1.disk = s.disk := rfl
@[simp] theorem root_alloc (s : State K P) (o : Obj K P) : (alloc s o).1.root = s.root := rfl
@[simp] theorem imports_alloc (s : State K P) (o : Obj K P) : (alloc s o).1.imports = s.imports := rfl
@[simp] theorem heap_alloc (s : State K P) (o : Obj K P) : (alloc s o).1.mem.heap = s.mem.heap ++ [o] := rfl
@[simp] theorem idx_alloc (s : State K P) (o : Obj K P) : (alloc s o).2 = s.mem.heap.length := rfl
@[simp] theorem locked_alloc (s : State K P) (o : Obj K P) : (alloc s o).1.mem.locked = s.mem.locked := rfl
@[simp] theorem mwo_alloc (s : State K P) (o : Obj K P) : (alloc s o).1.mem.watchOnly = s.mem.watchOnly := rfl

@[simp] theorem getSD_bindH (s : State K P) (h i : Nat) (sc : Scope) : getSD (bindH s h i) sc = getSD s sc := rfl
@[simp] theorem getSM_bindH (s : State K P) (h i : Nat) (sc : Scope) : getSM (bindH s h i) sc = getSM s sc := rfl
@[simp] theorem disk_bindH (s : State K P) (h i : Nat) : (bindH s h i).disk = s.disk := rfl
@[simp] theorem root_bindH (s : State K P) (h i : Nat) : (bindH s h i).root = s.root := rfl
@[simp] theorem imports_bindH (s : State K P) (h i : Nat) : (bindH s h i).imports = s.imports := rfl
@[simp] theorem heap_bindH (s : State K P) (h i : Nat) : (bindH s h i).mem.heap = s.mem.heap := rfl
@[simp] theorem locked_bindH (s : State K P) (h i : Nat) : (bindH s h i).mem.locked = s.mem.locked := rfl
@[simp] theorem mwo_bindH (s : State K P) (h i : Nat) : (bindH s h i).mem.watchOnly = s.mem.watchOnly := rfl

-- ---------------------------------------------------------------------------------------------------------
-- views

def rowPub : AcctRow K P → P
  | .dflt p _ _ _ _ => p
  | .wo p _ _ _ _ _ _ => p

def rowPriv : AcctRow K P → Option K
  | .dflt _ k _ _ _ => k
  | .wo _ _ _ _ _ _ _ => none

def rowNext : AcctRow K P → Bool → Nat
  | .dflt _ _ ne ni _, int => if int then ni else ne
  | .wo _ _ ne ni _ _ _, int => if int then ni else ne

/-- the account row of scope `sc`, account `a` in the database -/
def acctRow (s : State K P) (sc : Scope) (a : Nat) : Option (AcctRow K P) := (getSD s sc).bind fun sd => alookup sd.accts a
/-- the cached account info -/
def cacheAt (s : State K P) (sc : Scope) (a : Nat) : Option (AcctInfo K P) := (getSM s sc).bind fun sm => alookup sm.acctInfo a
/-- the derive-on-unlock queue of a scope -/
def douAt (s : State K P) (sc : Scope) : List (Nat × Nat × Nat) := match getSM s sc with | some sm => sm.dou | none => []
/-- the address row stored under an address id -/
def addrRowAt (s : State K P) (sc : Scope) (id : AddrId P) : Option AddrRow := (getSD s sc).bind fun sd => alookup sd.addrs id

/-- the key of an account row is what it should be: the seed's child `m/purpose'/coin'/a'` (an attached private
    key is that very key), or the account key given to `NewAccountWatchingOnly` -/
def RowKeyOK (hd : HD K P) (s : State K P) (sc : Scope) (a : Nat) : AcctRow K P → Prop
  | .dflt pub priv _ _ _ => ∃ root ak, s.root = some root ∧ acctKeyAt hd root sc a = some ak ∧ hd.neuter ak = pub ∧ ∀ k, priv = some k → k = ak
  | .wo pub _ _ _ _ _ _ => (sc, a, pub) ∈ s.imports

/-- what matters of an account row for key consistency: kind, public key, private key (not the counters / name) -/
def rowKey : AcctRow K P → Bool × P × Option K
  | .dflt p k _ _ _ => (true, p, k)
  | .wo p _ _ _ _ _ _ => (false, p, none)

def coinAt (s : State K P) (sc : Scope) : Option K := (getSD s sc).bind (·.coinPriv)
def lastAt (s : State K P) (sc : Scope) : Option (Option Nat) := (getSD s sc).map (·.lastAcct)

structure DiskOK (hd : HD K P) (s : State K P) : Prop where
  root : ∀ r, s.disk.rootPriv = some r → s.root = some r
  coin : ∀ sc ck, coinAt s sc = some ck → ∃ root, s.root = some root ∧ coinKeyAt hd root sc = some ck
  last : ∀ sc lo, lastAt s sc = some lo → ∃ l, lo = some l ∧ ∀ a, (acctRow s sc a).isSome → a ≤ l
  row : ∀ sc a row, acctRow s sc a = some row → RowKeyOK hd s sc a row
  addr : ∀ sc id a b i, addrRowAt s sc id = some (.chain a b i) →
    ∃ row p cls, acctRow s sc a = some row ∧ derive2pub hd (rowPub row) b i = some p ∧ id = .key (.hd p) cls true

/-- a key object in the heap is what it claims to be -/
structure KeyObjOK (hd : HD K P) (s : State K P) (o : KeyObj K P) : Prop where
  priv : ∀ k, o.privEnc = some k → pubOf hd k = o.pub
  chained : o.imported = false → ∃ row, acctRow s o.scope o.acct = some row ∧ o.acctPub = some (rowPub row) ∧
    o.internal = (o.branch == 1) ∧
    (o.branch < H → o.index < H → ∃ p, derive2pub hd (rowPub row) o.branch o.index = some p ∧ o.pub = .hd p) ∧
    (s.disk.watchOnly = false → o.hasPrivAcct = (rowPriv row).isSome)
  imported : o.imported = true → ∃ id, o.pub = .imp id

/-- the object a derive-on-unlock entry `e` of scope `sc` points to -/
structure DouObj (hd : HD K P) (s : State K P) (sc : Scope) (e : Nat × Nat × Nat) (o : KeyObj K P) : Prop where
  notImp : o.imported = false
  scope : o.scope = sc
  branch : o.branch = e.2.1
  index : o.index = e.2.2
  cached : (cacheAt s sc o.acct).isSome
  pub : ∃ ap p, o.acctPub = some ap ∧ derive2pub hd ap o.branch o.index = some p ∧ o.pub = .hd p

structure CacheOK (s : State K P) (ai : AcctInfo K P) (row : AcctRow K P) : Prop where
  pub : ai.keyPub = rowPub row
  enc : ai.keyEnc = rowPriv row
  locked : s.mem.locked = true → ai.keyPriv = none
  unlocked : s.mem.locked = false → ai.keyPriv = ai.keyEnc

structure Inv (hd : HD K P) (s : State K P) : Prop where
  woEq : s.mem.watchOnly = s.disk.watchOnly
  woLocked : s.mem.watchOnly = true → s.mem.locked = true
  disk : DiskOK hd s
  cache : ∀ sc a ai, cacheAt s sc a = some ai → ∃ row, acctRow s sc a = some row ∧ CacheOK s ai row
  heap : ∀ o, Obj.key o ∈ s.mem.heap → KeyObjOK hd s o
  dou : ∀ sc e, e ∈ douAt s sc → ∃ o, s.mem.heap[e.1]? = some (.key o) ∧ DouObj hd s sc e o
  sign : ∀ idx o, s.mem.heap[idx]? = some (.key o) → o.imported = false → o.hasPrivAcct = true → s.mem.watchOnly = false →
    o.privEnc.isSome ∨ (s.mem.locked = true ∧ ∃ e ∈ douAt s o.scope, e.1 = idx)

theorem rowKey_pub (r r' : AcctRow K P) (h : rowKey r = rowKey r') : rowPub r = rowPub r' := by
  cases r <;> cases r' <;> simp_all [rowKey, rowPub]

theorem rowKey_priv (r r' : AcctRow K P) (h : rowKey r = rowKey r') : rowPriv r = rowPriv r' := by
  cases r <;> cases r' <;> simp_all [rowKey, rowPriv]

theorem RowKeyOK.congr {hd : HD K P} {s s' : State K P} {sc : Scope} {a : Nat} {r r' : AcctRow K P}
    (hk : rowKey r = rowKey r') (hroot : s'.root = s.root) (himp : s'.imports = s.imports)
    (h : RowKeyOK hd s sc a r) : RowKeyOK hd s' sc a r' := by
  cases r <;> cases r' <;> simp_all [rowKey, RowKeyOK]

/-- rows with the same key material at the same place: transfer of a lookup -/
theorem acctRow_of_key {s s' : State K P} {sc : Scope} {a : Nat}
    (hkey : (acctRow s' sc a).map rowKey = (acctRow s sc a).map rowKey) {row : AcctRow K P} (h : acctRow s sc a = some row) :
    ∃ row', acctRow s' sc a = some row' ∧ rowKey row' = rowKey row := by
  rw [h] at hkey
  cases h' : acctRow s' sc a with
  | none => simp [h'] at hkey
  | some r => simp [h'] at hkey; exact ⟨r, rfl, hkey⟩

theorem acctRow_of_key' {s s' : State K P} {sc : Scope} {a : Nat}
    (hkey : (acctRow s' sc a).map rowKey = (acctRow s sc a).map rowKey) {row : AcctRow K P} (h : acctRow s' sc a = some row) :
    ∃ row', acctRow s sc a = some row' ∧ rowKey row' = rowKey row := by
  rw [h] at hkey
  cases h' : acctRow s sc a with
  | none => simp [h'] at hkey
  | some r => simp [h'] at hkey; exact ⟨r, rfl, hkey.symm⟩

theorem KeyObjOK.congr {hd : HD K P} {s s' : State K P} {o : KeyObj K P}
    (hkey : ∀ sc a, (acctRow s' sc a).map rowKey = (acctRow s sc a).map rowKey)
    (hdw : s'.disk.watchOnly = s.disk.watchOnly) (h : KeyObjOK hd s o) : KeyObjOK hd s' o := by
  refine ⟨h.priv, fun hni => ?_, h.imported⟩
  obtain ⟨row, h1, h2, h3, h4, h5⟩ := h.chained hni
  obtain ⟨row', hr', hk⟩ := acctRow_of_key (hkey _ _) h1
  have hp := rowKey_pub _ _ hk
  have hq := rowKey_priv _ _ hk
  exact ⟨row', hr', by rw [hp]; exact h2, h3, by rw [hp]; exact h4, by rw [hq, hdw]; exact h5⟩

theorem Inv.extend {hd : HD K P} {s s' : State K P} (h : Inv hd s)
    (hl : s'.mem.locked = s.mem.locked) (hmw : s'.mem.watchOnly = s.mem.watchOnly) (hdw : s'.disk.watchOnly = s.disk.watchOnly)
    (hrp : s'.disk.rootPriv = s.disk.rootPriv) (hroot : s'.root = s.root) (himp : s'.imports = s.imports)
    (hcoin : ∀ sc, coinAt s' sc = coinAt s sc) (hlast : ∀ sc, lastAt s' sc = lastAt s sc)
    (hkey : ∀ sc a, (acctRow s' sc a).map rowKey = (acctRow s sc a).map rowKey)
    (haddr : ∀ sc id a b i, addrRowAt s' sc id = some (.chain a b i) → addrRowAt s sc id = some (.chain a b i) ∨
        ∃ row p cls, acctRow s' sc a = some row ∧ derive2pub hd (rowPub row) b i = some p ∧ id = .key (.hd p) cls true)
    (hcache : ∀ sc a ai, cacheAt s' sc a = some ai →
        (∃ ai0, cacheAt s sc a = some ai0 ∧ ai.keyPub = ai0.keyPub ∧ ai.keyEnc = ai0.keyEnc ∧ ai.keyPriv = ai0.keyPriv) ∨
        (∃ row, acctRow s' sc a = some row ∧ CacheOK s' ai row))
    (hcmono : ∀ sc a, (cacheAt s sc a).isSome → (cacheAt s' sc a).isSome)
    (new : List (Obj K P)) (hheap : s'.mem.heap = s.mem.heap ++ new)
    (hnew : ∀ o, Obj.key o ∈ new → KeyObjOK hd s' o)
    (hdou : ∀ sc e, e ∈ douAt s' sc → e ∈ douAt s sc ∨ ∃ o, s'.mem.heap[e.1]? = some (.key o) ∧ DouObj hd s' sc e o)
    (hdmono : ∀ sc e, e ∈ douAt s sc → e ∈ douAt s' sc)
    (hsign : ∀ idx o, s.mem.heap.length ≤ idx → s'.mem.heap[idx]? = some (.key o) → o.imported = false → o.hasPrivAcct = true →
        s'.mem.watchOnly = false → o.privEnc.isSome ∨ (s'.mem.locked = true ∧ ∃ e ∈ douAt s' o.scope, e.1 = idx)) :
    Inv hd s' := by
  have hold : ∀ (idx : Nat) (o : Obj K P), s.mem.heap[idx]? = some o → s'.mem.heap[idx]? = some o := by
    intro idx o ho
    rw [hheap]
    have hlt : idx < s.mem.heap.length := by
      rcases Nat.lt_or_ge idx s.mem.heap.length with hlt | hge
      · exact hlt
      · rw [List.getElem?_eq_none hge] at ho; cases ho
    rw [List.getElem?_append_left hlt]; exact ho
  refine ⟨by rw [hmw, hdw]; exact h.woEq, by rw [hmw, hl]; exact h.woLocked, ?_, ?_, ?_, ?_, ?_⟩
  · refine ⟨by rw [hrp, hroot]; exact h.disk.root, ?_, ?_, ?_, ?_⟩
    · intro sc ck hc; rw [hcoin] at hc; rw [hroot]; exact h.disk.coin sc ck hc
    · intro sc lo hlo
      rw [hlast] at hlo
      obtain ⟨l, hl1, hl2⟩ := h.disk.last sc lo hlo
      refine ⟨l, hl1, fun a ha => hl2 a ?_⟩
      have := hkey sc a
      cases h1 : acctRow s' sc a with
      | none => simp [h1] at ha
      | some r =>
        rw [h1] at this
        cases h2 : acctRow s sc a with
        | none => simp [h2] at this
        | some r2 => rfl
    · intro sc a row hr
      obtain ⟨row0, hr0, hk⟩ := acctRow_of_key' (hkey sc a) hr
      exact RowKeyOK.congr hk hroot himp (h.disk.row sc a row0 hr0)
    · intro sc id a b i hr
      rcases haddr sc id a b i hr with h0 | h0
      · obtain ⟨row, p, cls, h1, h2, h3⟩ := h.disk.addr sc id a b i h0
        obtain ⟨row', hr', hk⟩ := acctRow_of_key (hkey sc a) h1
        exact ⟨row', p, cls, hr', by rw [rowKey_pub _ _ hk]; exact h2, h3⟩
      · exact h0
  · intro sc a ai hc
    rcases hcache sc a ai hc with ⟨ai0, h0, e1, e2, e3⟩ | h0
    · obtain ⟨row, hr, hok⟩ := h.cache sc a ai0 h0
      obtain ⟨row', hr', hk⟩ := acctRow_of_key (hkey sc a) hr
      refine ⟨row', hr', ?_, ?_, ?_, ?_⟩
      · rw [e1, rowKey_pub _ _ hk]; exact hok.pub
      · rw [e2, rowKey_priv _ _ hk]; exact hok.enc
      · rw [hl, e3]; exact hok.locked
      · rw [hl, e3, e2]; exact hok.unlocked
    · exact h0
  · intro o ho
    rw [hheap] at ho
    rcases List.mem_append.mp ho with ho | ho
    · exact KeyObjOK.congr hkey hdw (h.heap o ho)
    · exact hnew o ho
  · intro sc e he
    rcases hdou sc e he with h0 | h0
    · obtain ⟨o, ho, hd0⟩ := h.dou sc e h0
      exact ⟨o, hold _ _ ho, hd0.notImp, hd0.scope, hd0.branch, hd0.index, hcmono _ _ hd0.cached, hd0.pub⟩
    · exact h0
  · intro idx o ho hni hpa hw
    rcases Nat.lt_or_ge idx s.mem.heap.length with hlt | hge
    · have ho' : s.mem.heap[idx]? = some (.key o) := by
        rw [hheap, List.getElem?_append_left hlt] at ho; exact ho
      rcases h.sign idx o ho' hni hpa (by rw [← hmw]; exact hw) with h1 | ⟨h1, e, he, hei⟩
      · exact Or.inl h1
      · exact Or.inr ⟨by rw [hl]; exact h1, e, hdmono _ _ he, hei⟩
    · exact hsign idx o hge ho hni hpa hw

end AddrDerive
