import BtcwVerif.Lemmas.RefAbandon
/-!
# Refinement: "remove every unconfirmed spender of these outpoints" (the loop shared by `removeDoubleSpends` and the
coinbase clean-up of `rollback`) removes exactly those spenders and their unconfirmed descendants
-/
namespace TxStore
open KMap Ledger

def dsInner (skip : Nat → Bool) (s : Store) (h : Nat) : M Store :=
  if skip h then pure s else
  match s.unmined.find? h with
  | none => pure s
  | some ds => removeConflict (fuelOf s) s ds

def dsOuter (skip : Nat → Bool) (s : Store) (op : OutPoint) : M Store :=
  (spendHashes s op).foldlM (dsInner skip) s

/-- invariant of the loops: `P` collects the removed transactions -/
structure SInv (L : Ledger) (R : Nat → Prop) (b : Store) (P : Nat → Bool) : Prop where
  good : Good b (minus L P (fun _ => false))
  closed : ∀ v ∈ L.pool, ∀ i ∈ v.ins, P i.hash = true → P v.hash = true
  sound : ∀ h, P h = true → ∃ r, R r ∧ Desc L.pool r h

theorem ds_inner_loop {L : Ledger} (hl : LWF L) {rk : Nat → Nat} (hrk : RankOK rk L) {R : Nat → Prop}
    {skip : Nat → Bool} :
    ∀ (hs : List Nat) (b : Store) (P : Nat → Bool), SInv L R b P →
      (∀ h ∈ hs, skip h = false ∧ R h ∧ ∃ v ∈ L.pool, v.hash = h) →
      ∃ b' P', hs.foldlM (dsInner skip) b = .ok b' ∧ SInv L R b' P' ∧ (∀ h, P h = true → P' h = true) ∧
        (∀ h ∈ hs, P' h = true) := by
  intro hs
  induction hs with
  | nil => intro b P hi _; exact ⟨b, P, rfl, hi, fun _ h => h, fun _ h => by cases h⟩
  | cons h rest ih =>
    intro b P hi hhs
    obtain ⟨hsk, hR, v, hv, hvh⟩ := hhs h List.mem_cons_self
    have hrest := fun h' hh' => hhs h' (List.mem_cons_of_mem _ hh')
    rw [List.foldlM_cons]
    have hstep : dsInner skip b h = (match b.unmined.find? h with
        | none => pure b
        | some ds => removeConflict (fuelOf b) b ds) := by
      unfold dsInner; rw [hsk]; rfl
    rw [hstep]
    cases hf : b.unmined.find? h with
    | none =>
      have hPv : P v.hash = true := by
        cases hp : P v.hash with
        | true => rfl
        | false =>
          have : b.unmined.find? h = some v :=
            (hi.good.ref.unmined_iff h v).mpr ⟨mem_pool_minus.mpr ⟨hv, hp⟩, hvh.symm⟩
          rw [hf] at this; cases this
      obtain ⟨b', P', h1, h2, h3, h4⟩ := ih b P hi hrest
      refine ⟨b', P', by simpa using h1, h2, h3, ?_⟩
      intro h' hh'
      rcases List.mem_cons.mp hh' with rfl | hh''
      · rw [← hvh]; exact h3 _ hPv
      · exact h4 h' hh''
    | some sp =>
      obtain ⟨hsp, hsph⟩ := (hi.good.ref.unmined_iff h sp).mp hf
      obtain ⟨hspL, hspP⟩ := mem_pool_minus.mp hsp
      obtain ⟨b1, P1, hcall, hgood1, hdesc1⟩ := good_removeConflict rk (fuelOf b) b _ sp hi.good (hrk.minus _ _) hsp
        (above_lt_fuel hi.good rk _)
      have hmono : ∀ x, Desc (minus L P (fun _ => false)).pool sp.hash x → Desc L.pool sp.hash x :=
        fun x hx => hx.mono (fun t ht => (mem_pool_minus.mp ht).1)
      have hi1 : SInv L R b1 (fun x => P x || P1 x) := by
        refine ⟨?_, ?_, ?_⟩
        · rw [minus_minus] at hgood1
          rw [minus_congr L (P := fun x => P x || P1 x) (P' := fun x => P x || P1 x)
            (Q' := fun _ => false || false) (fun _ => rfl) (fun o => by simp)]
          exact hgood1
        · intro w hw i hi' hx
          simp only [Bool.or_eq_true] at hx ⊢
          rcases hx with hx | hx
          · exact Or.inl (hi.closed w hw i hi' hx)
          · cases hpw : P w.hash with
            | true => exact Or.inl rfl
            | false =>
              right
              rw [hdesc1]
              exact Desc.step ((hdesc1 _).mp hx) (mem_pool_minus.mpr ⟨hw, hpw⟩) ⟨i, hi', rfl⟩
        · intro x hx
          simp only [Bool.or_eq_true] at hx
          rcases hx with hx | hx
          · exact hi.sound x hx
          · exact ⟨h, hR, by rw [hsph]; exact hmono x ((hdesc1 x).mp hx)⟩
      obtain ⟨b', P', h1, h2, h3, h4⟩ := ih b1 _ hi1 hrest
      refine ⟨b', P', ?_, h2, fun x hx => h3 x (by simp [hx]), ?_⟩
      · simp only [hcall, bind_ok]; exact h1
      · intro h' hh'
        rcases List.mem_cons.mp hh' with rfl | hh''
        · apply h3
          simp only [Bool.or_eq_true]
          right
          rw [hdesc1, hsph]; exact Desc.refl _
        · exact h4 h' hh''

/-- **removing the unconfirmed spenders of a list of outpoints** -/
theorem good_removeSpenders {s : Store} {L : Ledger} (hg : Good s L) (skip : Nat → Bool)
    (hskip : ∀ v ∈ L.pool, skip v.hash = false) (ops : List OutPoint) :
    ∃ s' P, ops.foldlM (dsOuter skip) s = .ok s' ∧ Good s' (minus L P (fun _ => false)) ∧
      (∀ h, P h = true ↔ ∃ v ∈ L.pool, (∃ op ∈ ops, op ∈ v.ins) ∧ Desc L.pool v.hash h) := by
  have hl := hg.lwf
  obtain ⟨rk, hrk⟩ := hl.rank
  -- loop over the outpoints, with the set of outpoints generalised
  have loop : ∀ (todo : List OutPoint) (b : Store) (P : Nat → Bool) (R : Nat → Prop),
      (∀ op ∈ todo, ∀ v ∈ L.pool, op ∈ v.ins → R v.hash) → SInv L R b P →
      ∃ b' P', todo.foldlM (dsOuter skip) b = .ok b' ∧ SInv L R b' P' ∧ (∀ h, P h = true → P' h = true) ∧
        (∀ op ∈ todo, ∀ v ∈ L.pool, op ∈ v.ins → P' v.hash = true) := by
    intro todo
    induction todo with
    | nil => intro b P R _ hi; exact ⟨b, P, rfl, hi, fun _ h => h, fun _ h => by cases h⟩
    | cons op rest ih =>
      intro b P R hR hi
      have hhs : ∀ h ∈ spendHashes b op, skip h = false ∧ R h ∧ ∃ v ∈ L.pool, v.hash = h := by
        intro h hh
        obtain ⟨v, hv, h1, h2⟩ := mem_poolSpenders.mp ((hi.good.ref.uinputs _ _).mp hh)
        have hvL := (mem_pool_minus.mp hv).1
        exact ⟨by rw [← h2]; exact hskip v hvL, by rw [← h2]; exact hR op List.mem_cons_self v hvL h1, v, hvL, h2⟩
      obtain ⟨b1, P1, h1, h2, h3, h4⟩ := ds_inner_loop hl hrk _ b P hi hhs
      obtain ⟨b', P', h5, h6, h7, h8⟩ := ih b1 P1 R (fun op' hop' => hR op' (List.mem_cons_of_mem _ hop')) h2
      refine ⟨b', P', ?_, h6, fun h hh => h7 h (h3 h hh), ?_⟩
      · rw [List.foldlM_cons]
        have : dsOuter skip b op = .ok b1 := h1
        rw [this, bind_ok]; exact h5
      · intro op' hop' v hv hin
        rcases List.mem_cons.mp hop' with rfl | hop''
        · apply h7
          cases hp : P v.hash with
          | true => exact h3 _ hp
          | false =>
            apply h4
            rw [hi.good.ref.uinputs, mem_poolSpenders]
            exact ⟨v, mem_pool_minus.mpr ⟨hv, hp⟩, hin, rfl⟩
        · exact h8 op' hop'' v hv hin
  have hi0 : SInv L (fun r => ∃ v ∈ L.pool, v.hash = r ∧ ∃ op ∈ ops, op ∈ v.ins) s (fun _ => false) := by
    refine ⟨?_, fun _ _ _ _ hh => absurd hh (by simp), fun h hh => absurd hh (by simp)⟩
    have : minus L (fun _ => false) (fun _ => false) = L := by
      unfold minus
      have h1 : L.pool.filter (fun t => !(fun _ => false) t.hash) = L.pool := by simp
      have h2 : L.credit.filter (fun p => !(fun _ => false) p.1.hash && !(fun _ : OutPoint => false) p.1) = L.credit := by
        simp
      rw [h1, h2]
    rw [this]; exact hg
  obtain ⟨s', P, h1, h2, _, h4⟩ := loop ops s _ _ (fun op hop v hv hin => ⟨v, hv, rfl, op, hop, hin⟩) hi0
  refine ⟨s', P, h1, h2.good, ?_⟩
  intro h
  constructor
  · intro hp
    obtain ⟨r, ⟨v, hv, rfl, hops⟩, hd⟩ := h2.sound h hp
    exact ⟨v, hv, hops, hd⟩
  · rintro ⟨v, hv, ⟨op, hop, hin⟩, hd⟩
    have hroot : P v.hash = true := h4 op hop v hv hin
    generalize v.hash = a at hd hroot
    induction hd with
    | refl => exact hroot
    | step _ hu hi ih =>
      obtain ⟨i, hi1, hi2⟩ := hi
      exact h2.closed _ hu i hi1 (by rw [hi2]; exact ih)

end TxStore
