/-
C15, composition of start-up and evolution: a stopped wallet (`StoppedInv`) that gets through `syncWithChain`
(`startup … = (w', true)`: rollback loop → recovery when `recW > 0` → rescan → `RescanFinished`/`catchUpHashes`)
against ANY backend chain ends in exactly the state `Inv` the evolution theorems start from.

Plan: `CatchInv` = `SyncInv` without the `chainSynced` flag (the flag is false during the whole start-up and no
function of the catch-up reads it); the rollback transaction leaves `CatchInv` w.r.t. the last common block
(`startup_rolls_to_common_ex`); every `PutSyncedTo` of the catch-up (recovery batches or `catchUpHashes`) is a
"connect the next best-chain block" step (`catch_connect_next`, from `connect_next_sync`); transaction records are
only ever added for blocks of the backend's chain (`MinedOn … tip` is kept separately because the rescan records
transactions of blocks above the synced-to height before the hashes are caught up).
-/
import BtcwVerif.Lemmas.SyncTipStartup
namespace SyncTip

/-- `SyncInv` without the `chainSynced` flag: what holds while the wallet is catching up. -/
structure CatchInv (cfg : Cfg) (w : Wallet) (c : BlockId) (lo : Nat) : Prop where
  bday       : w.birthdaySet = true
  tipEq      : w.syncedTo = stampOf cfg.C c
  lo_le      : lo ≤ c.length
  window     : c.length < lo + cfg.W ∨ (lo = 0 ∧ c.length ≤ cfg.W)
  remembered : ∀ h, lo ≤ h → h ≤ c.length → w.hashes h = some (some (ancestorAt c h))
  correct    : ∀ h x, h ≤ c.length → w.hashes h = some x → x = some (ancestorAt c h)

def setSynced (w : Wallet) (b : Bool) : Wallet := { w with chainSynced := b }

theorem CatchInv.toSync {cfg w c lo} (h : CatchInv cfg w c lo) : SyncInv cfg (setSynced w true) c lo :=
  ⟨rfl, h.bday, h.tipEq, h.lo_le, h.window, h.remembered, h.correct⟩

theorem CatchInv.ofSync {cfg w c lo} (h : SyncInv cfg (setSynced w true) c lo) : CatchInv cfg w c lo :=
  ⟨h.bday, h.tipEq, h.lo_le, h.window, h.remembered, h.correct⟩

theorem CatchInv.congr {cfg w w' c lo} (h : CatchInv cfg w c lo) (e : SameSync w w') : CatchInv cfg w' c lo := by
  obtain ⟨e1, e2, e3, _⟩ := e
  exact ⟨e3 ▸ h.bday, e1 ▸ h.tipEq, h.lo_le, h.window, e2 ▸ h.remembered, e2 ▸ h.correct⟩

theorem CatchInv.setSynced {cfg w c lo} (h : CatchInv cfg w c lo) (b : Bool) : CatchInv cfg (setSynced w b) c lo :=
  ⟨h.bday, h.tipEq, h.lo_le, h.window, h.remembered, h.correct⟩

theorem StoppedInv.catch {cfg w old lo} (h : StoppedInv cfg w old lo) : CatchInv cfg w old lo :=
  ⟨h.bday, h.tipEq, h.lo_le, h.window, h.remembered, h.correct⟩

/-- `PutSyncedTo` of a child of the block the wallet is at. -/
theorem catch_connect_next {cfg : Cfg} {w : Wallet} {tip : BlockId} {lo : Nat} (hW : 1 ≤ cfg.W) (n : Nat)
    (hS : CatchInv cfg w tip lo) :
    putSyncedTo cfg.W w (stampOf cfg.C (n :: tip)) = .ok (putOk cfg.W w (stampOf cfg.C (n :: tip))) ∧
    CatchInv cfg (putOk cfg.W w (stampOf cfg.C (n :: tip))) (n :: tip) (loAfter cfg.W lo (tip.length + 1)) := by
  constructor
  · apply putSyncedTo_ok
    right
    have := hS.remembered tip.length hS.lo_le (Nat.le_refl _)
    simp [stampOf, this]
  · exact CatchInv.ofSync (connect_next_sync hW n hS.toSync).2

theorem ancestorAt_succ (tip : BlockId) (h : Nat) (hh : h < tip.length) :
    ∃ n, ancestorAt tip (h + 1) = n :: ancestorAt tip h := by
  unfold ancestorAt
  have e : tip.length - h = (tip.length - (h + 1)) + 1 := by omega
  rw [e]
  exact ⟨tip[tip.length - (h + 1)]'(by omega), List.drop_eq_getElem_cons (by omega)⟩

theorem loAfterN_add (W : Nat) : ∀ (a lo T b : Nat),
    loAfterN W lo T (a + b) = loAfterN W (loAfterN W lo T a) (T + a) b := by
  intro a
  induction a with
  | zero => intro lo T b; simp [loAfterN]
  | succ a ih =>
    intro lo T b
    have e : a + 1 + b = (a + b) + 1 := by omega
    rw [e]
    simp only [loAfterN]
    rw [ih]
    have e2 : T + 1 + a = T + (a + 1) := by omega
    rw [e2]

/-! ### `catchUpHashes` -/

theorem catchUpFrom_ok (cfg : Cfg) (hW : 1 ≤ cfg.W) (tip : BlockId) :
    ∀ (n : Nat) (w : Wallet) (h lo : Nat), CatchInv cfg w (ancestorAt tip h) lo → h + n ≤ tip.length →
      ∃ w', catchUpFrom cfg tip w (h + 1) n = .ok w' ∧
        CatchInv cfg w' (ancestorAt tip (h + n)) (loAfterN cfg.W lo h n) ∧
        w'.mined = w.mined ∧ w'.chainSynced = w.chainSynced := by
  intro n
  induction n with
  | zero => intro w h lo hI _; exact ⟨w, rfl, hI, rfl, rfl⟩
  | succ n ih =>
    intro w h lo hI hle
    obtain ⟨x, hx⟩ := ancestorAt_succ tip h (by omega)
    have hlen : (ancestorAt tip h).length = h := ancestorAt_length tip h (by omega)
    have hlen1 : (ancestorAt tip (h + 1)).length = h + 1 := ancestorAt_length tip (h + 1) (by omega)
    obtain ⟨e1, e2⟩ := catch_connect_next hW x hI
    rw [← hx] at e1 e2
    rw [hlen] at e2
    have hst : (⟨h + 1, some (ancestorAt tip (h + 1)), cfg.C.time (ancestorAt tip (h + 1))⟩ : Stamp)
        = stampOf cfg.C (ancestorAt tip (h + 1)) := by
      simp [stampOf, hlen1]
    obtain ⟨w', f1, f2, f3, f4⟩ := ih _ (h + 1) _ e2 (by omega)
    refine ⟨w', ?_, ?_, f3, f4⟩
    · simp only [catchUpFrom, getBlockHash]
      rw [if_pos (by omega)]
      simp only [hst, e1]
      exact f1
    · have e : h + 1 + n = h + (n + 1) := by omega
      rw [e] at f2
      exact f2

/-! ### Transactions reported for blocks of the backend's chain -/

theorem blocksFrom_onChain (tip : BlockId) : ∀ (n a : Nat), a + n ≤ tip.length + 1 →
    ∀ b ∈ blocksFrom tip a n, OnChain b tip := by
  intro n
  induction n with
  | zero => intro a _ b hb; simp [blocksFrom] at hb
  | succ n ih =>
    intro a ha b hb
    simp only [blocksFrom, List.mem_cons] at hb
    rcases hb with hb | hb
    · subst hb; exact onChain_ancestorAt tip a (by omega)
    · exact ih (a + 1) (by omega) b hb

theorem blockTxs_inv (cfg : Cfg) (tip : BlockId) : ∀ (bs : List BlockId) (w : Wallet), (∀ b ∈ bs, OnChain b tip) →
    MinedOn w tip →
    let w' := process cfg w ((bs.map (fun b => (cfg.C.txs b).map (fun t => Ntfn.relevantTx t (some (stampOf cfg.C b))))).flatten)
    SameSync w w' ∧ MinedOn w' tip := by
  intro bs
  induction bs with
  | nil => intro w _ hm; exact ⟨SameSync.refl w, hm⟩
  | cons b bs ih =>
    intro w hb hm
    simp only [List.map_cons, List.flatten_cons, process_append, process_relevantTxs]
    obtain ⟨h1, h2⟩ := foldTxs_onChain cfg.C b (hb b (List.mem_cons_self ..)) (cfg.C.txs b) w hm
    obtain ⟨h3, h4⟩ := ih _ (fun b' hb' => hb b' (List.mem_cons_of_mem _ hb')) h2
    exact ⟨h1.trans h3, h4⟩

theorem rescanTxs_inv (cfg : Cfg) (tip : BlockId) (w : Wallet) (from_ : Nat) (hm : MinedOn w tip) :
    SameSync w (process cfg w (rescanTxNtfns cfg.C tip from_)) ∧
    MinedOn (process cfg w (rescanTxNtfns cfg.C tip from_)) tip := by
  by_cases hf : from_ ≤ tip.length
  · exact blockTxs_inv cfg tip _ w (blocksFrom_onChain tip _ _ (by omega)) hm
  · have : tip.length - from_ = 0 := by omega
    simp only [rescanTxNtfns, this, blocksFrom, List.map_nil, List.flatten_nil]
    exact ⟨SameSync.refl w, hm⟩

/-! ### `recovery` -/

/-- The transaction-recording half of a recovery batch. -/
def recTxs (cfg : Cfg) (w : Wallet) (blocks : List BlockId) : Wallet :=
  blocks.foldl (fun w b =>
      if w.birthday.1 ≤ b.length then
        (cfg.C.txs b).foldl (fun w t => addRelevantTx w t (some (stampOf cfg.C b))) w
      else w) w

theorem recoveryBatch_eq (cfg : Cfg) (w : Wallet) (blocks : List BlockId) :
    recoveryBatch cfg w blocks =
      blocks.foldlM (fun w b => putSyncedTo cfg.W w (stampOf cfg.C b)) (recTxs cfg w blocks) := rfl

theorem recTxs_inv (cfg : Cfg) (tip : BlockId) : ∀ (bs : List BlockId) (w : Wallet), (∀ b ∈ bs, OnChain b tip) →
    MinedOn w tip → SameSync w (recTxs cfg w bs) ∧ MinedOn (recTxs cfg w bs) tip := by
  intro bs
  induction bs with
  | nil => intro w _ hm; exact ⟨SameSync.refl w, hm⟩
  | cons b bs ih =>
    intro w hb hm
    simp only [recTxs, List.foldl_cons]
    by_cases hbd : w.birthday.1 ≤ b.length
    · rw [if_pos hbd]
      obtain ⟨h1, h2⟩ := foldTxs_onChain cfg.C b (hb b (List.mem_cons_self ..)) (cfg.C.txs b) w hm
      obtain ⟨h3, h4⟩ := ih _ (fun b' hb' => hb b' (List.mem_cons_of_mem _ hb')) h2
      exact ⟨h1.trans h3, h4⟩
    · rw [if_neg hbd]
      exact ih w (fun b' hb' => hb b' (List.mem_cons_of_mem _ hb')) hm

theorem except_bind_ok {ε α β : Type} (x : α) (f : α → Except ε β) : (Except.ok x >>= f) = f x := rfl

theorem putFold_ok (cfg : Cfg) (hW : 1 ≤ cfg.W) (tip : BlockId) :
    ∀ (n : Nat) (w : Wallet) (h lo : Nat), CatchInv cfg w (ancestorAt tip h) lo → h + n ≤ tip.length →
      ∃ w', (blocksFrom tip (h + 1) n).foldlM (fun w b => putSyncedTo cfg.W w (stampOf cfg.C b)) w = .ok w' ∧
        CatchInv cfg w' (ancestorAt tip (h + n)) (loAfterN cfg.W lo h n) ∧
        w'.mined = w.mined ∧ w'.chainSynced = w.chainSynced := by
  intro n
  induction n with
  | zero => intro w h lo hI _; exact ⟨w, rfl, hI, rfl, rfl⟩
  | succ n ih =>
    intro w h lo hI hle
    obtain ⟨x, hx⟩ := ancestorAt_succ tip h (by omega)
    have hlen : (ancestorAt tip h).length = h := ancestorAt_length tip h (by omega)
    obtain ⟨e1, e2⟩ := catch_connect_next hW x hI
    rw [← hx] at e1 e2
    rw [hlen] at e2
    obtain ⟨w', f1, f2, f3, f4⟩ := ih _ (h + 1) _ e2 (by omega)
    refine ⟨w', ?_, ?_, f3, f4⟩
    · simp only [blocksFrom, List.foldlM_cons, e1, except_bind_ok]
      exact f1
    · have e : h + 1 + n = h + (n + 1) := by omega
      rw [e] at f2
      exact f2

theorem recoveryRun_ok (cfg : Cfg) (hW : 1 ≤ cfg.W) (batch : Nat) (tip : BlockId) :
    ∀ (fuel : Nat) (w : Wallet) (h lo : Nat), CatchInv cfg w (ancestorAt tip h) lo → MinedOn w tip →
      h ≤ tip.length → tip.length - h < fuel →
      ∃ w', recoveryRun cfg batch tip fuel w = (w', true) ∧
        CatchInv cfg w' tip (loAfterN cfg.W lo h (tip.length - h)) ∧ MinedOn w' tip ∧
        w'.chainSynced = w.chainSynced := by
  intro fuel
  induction fuel with
  | zero => intro w h lo _ _ _ hf; omega
  | succ fuel ih =>
    intro w h lo hI hm hle hf
    have hs : w.syncedTo.height = h := by
      rw [hI.tipEq]; simp [stampOf, ancestorAt_length tip h hle]
    simp only [recoveryRun, hs]
    by_cases hgt : h + 1 > tip.length
    · rw [if_pos hgt]
      have hh : h = tip.length := by omega
      subst hh
      rw [ancestorAt_self] at hI
      refine ⟨w, rfl, ?_, hm, rfl⟩
      simp only [Nat.sub_self, loAfterN]
      exact hI
    · rw [if_neg hgt]
      generalize hn : min (max batch 1) (tip.length + 1 - (h + 1)) = n
      have hn1 : 1 ≤ n := by omega
      have hn2 : h + n ≤ tip.length := by omega
      have hon := blocksFrom_onChain tip n (h + 1) (by omega)
      obtain ⟨s1, m1⟩ := recTxs_inv cfg tip (blocksFrom tip (h + 1) n) w hon hm
      obtain ⟨w1, f1, f2, f3, f4⟩ := putFold_ok cfg hW tip n _ h lo (hI.congr s1) hn2
      rw [recoveryBatch_eq, f1]
      simp only []
      have hm1 : MinedOn w1 tip := by
        intro r hr; rw [f3] at hr; exact m1 r hr
      obtain ⟨w', g1, g2, g3, g4⟩ := ih w1 (h + n) _ f2 hm1 hn2 (by omega)
      refine ⟨w', g1, ?_, g3, ?_⟩
      · have e : tip.length - h = n + (tip.length - (h + n)) := by omega
        rw [e, loAfterN_add]
        exact g2
      · rw [g4, f4]; exact s1.2.2.2

/-! ### The rescan and `RescanFinished` -/

theorem process_nil (cfg : Cfg) (w : Wallet) : process cfg w [] = w := rfl

/-- From a wallet at height `c2` of the backend's chain (not yet marked synced): the rescan's transaction
    notifications, then `RescanFinished(tip)` ⇒ in sync with `tip`. -/
theorem rescan_finish (cfg : Cfg) (hW : 1 ≤ cfg.W) (tip : BlockId) (w : Wallet) (c2 lo2 : Nat)
    (hI : CatchInv cfg w (ancestorAt tip c2) lo2) (hm : MinedOn w tip) (hc : c2 ≤ tip.length) :
    Inv cfg (process cfg w (rescanTxNtfns cfg.C tip c2 ++ [] ++ [.rescanFinished tip tip.length])) tip
      (loAfterN cfg.W lo2 c2 (tip.length - c2)) := by
  obtain ⟨s1, m1⟩ := rescanTxs_inv cfg tip w c2 hm
  simp only [List.append_nil, process_append]
  generalize process cfg w (rescanTxNtfns cfg.C tip c2) = w1 at s1 m1
  have hI1 := hI.congr s1
  have hs : w1.syncedTo.height = c2 := by
    rw [hI1.tipEq]; simp [stampOf, ancestorAt_length tip c2 hc]
  obtain ⟨w2, f1, f2, f3, _⟩ := catchUpFrom_ok cfg hW tip (tip.length - c2) w1 c2 lo2 hI1 (by omega)
  have e : c2 + (tip.length - c2) = tip.length := by omega
  rw [e, ancestorAt_self] at f2
  have hp : process cfg w1 [.rescanFinished tip tip.length] = setSynced w2 true := by
    simp only [process, List.foldl_cons, List.foldl_nil, handle, catchUpHashes, hs, f1, orKeep]
    rfl
  rw [hp]
  refine f2.toSync.inv ?_
  intro r hr
  have hr' : r ∈ w2.mined := hr
  rw [f3] at hr'
  exact m1 r hr'

/-! ### Uniqueness of the last common block, success of the rollback transaction -/

theorem isLastCommon_unique {a b : BlockId} {c c' : Nat} (h : IsLastCommon a b c) (h' : IsLastCommon a b c') : c = c' := by
  obtain ⟨a1, a2, a3, a4⟩ := h
  obtain ⟨b1, b2, b3, b4⟩ := h'
  rcases Nat.lt_trichotomy c c' with hlt | heq | hgt
  · exact absurd b3 (a4 c' hlt b1 b2)
  · exact heq
  · exact absurd a3 (b4 c hgt a1 a2)

/-- The start-up rollback transaction succeeds when the backend is at least as high as the wallet's tip, the last
    common block is within the remembered range and — if anything has to be rolled back — the block below it is
    remembered too (or it is the genesis block): the `ValidStep` condition of an online reorg. -/
theorem startupRollback_succeeds (cfg : Cfg) {w : Wallet} {old : BlockId} {lo : Nat} (hS : StoppedInv cfg w old lo)
    (tip : BlockId) (c : Nat) (hlen : old.length ≤ tip.length) (hcm : IsLastCommon old tip c) (hlo : lo ≤ c)
    (hpred : c = old.length ∨ c = 0 ∨ lo + 1 ≤ c) : ∃ w1, startupRollback cfg w tip = .ok w1 := by
  have hT : w.syncedTo.height = old.length := by rw [hS.tipEq]; rfl
  obtain ⟨⟨stamp, rb⟩, hloop⟩ := rollbackLoop_succeeds cfg.C w old tip lo c hS.remembered hlen hcm hlo old.length false
    hcm.1 (Nat.le_refl _)
  obtain ⟨c', c1, c2, c3, c4, c5, _, c7⟩ :=
    rollbackLoop_ok cfg.C w old tip hS.correct old.length false stamp rb (Nat.le_refl _) (differAbove_top old tip) hloop
  have hcc : c' = c := isLastCommon_unique ⟨c1, c2, c4, c5⟩ hcm
  subst hcc
  unfold startupRollback
  rw [hT, hloop]
  simp only []
  by_cases hrb : rb = false
  · rw [if_pos hrb]; exact ⟨w, rfl⟩
  · rw [if_neg hrb]
    have hclt : c' < old.length := by
      cases rb with
      | false => exact absurd rfl hrb
      | true => simpa using c7.symm
    have hsh : stamp.height = c' := by rw [c3]; simp [stampOf, ancestorAt_length tip c' c2]
    have hput : putSyncedTo cfg.W w stamp = .ok (putOk cfg.W w stamp) := by
      apply putSyncedTo_ok
      rw [hsh]
      rcases hpred with h | h | h
      · omega
      · exact Or.inl h
      · right
        rw [hS.remembered (c' - 1) (by omega) (by omega)]
        simp
    rw [hput]
    exact ⟨_, rfl⟩

/-! ### The whole start-up -/

theorem StoppedInv.unsynced {cfg w old lo} (h : StoppedInv cfg w old lo) :
    StoppedInv cfg { w with chainSynced := false } old lo :=
  ⟨h.bday, h.tipEq, h.lo_le, h.window, h.remembered, h.correct, h.mined⟩

/-- **Total outcome of `syncWithChain` for a stopped wallet**, any backend chain, any recovery window and batch size:
    either the rollback transaction fails, nothing is written and start-up reports failure (the wallet retries),
    or start-up succeeds and the wallet is in sync (`Inv`) with the backend's chain.  The ghost lower end of the
    remembered range afterwards: `min lo c` (the loop only gets down to `c` when everything in `[c, old]` is
    remembered), pushed up by the pruning of the `tip.length - c` catch-up `PutSyncedTo`s. -/
theorem startup_total (cfg : Cfg) (hW : 1 ≤ cfg.W) {w : Wallet} {old : BlockId} {lo : Nat}
    (hS : StoppedInv cfg w old lo) (tip : BlockId) (recW batch : Nat) :
    ((∃ e, startupRollback cfg { w with chainSynced := false } tip = .error e) ∧
      startup cfg recW batch w tip = ({ w with chainSynced := false }, false)) ∨
    (∃ w' c, startup cfg recW batch w tip = (w', true) ∧
      (∃ w1, startupRollback cfg { w with chainSynced := false } tip = .ok w1) ∧
      IsLastCommon old tip c ∧ old.length ≤ tip.length ∧
      Inv cfg w' tip (loAfterN cfg.W (min lo c) c (tip.length - c))) := by
  have hS0 := hS.unsynced
  rcases startup_rolls_to_common_ex cfg hS0 tip with ⟨e, he⟩ | ⟨w1, c, he, hcm, r1, _, _, r4, r5, r6, r7, r8, r9, r10⟩
  · left
    refine ⟨⟨e, he⟩, ?_⟩
    simp only [startup, startupDuring, he]
  · right
    have hc : c ≤ tip.length := hcm.2.1
    have hco : c ≤ old.length := hcm.1
    have hlenc : (ancestorAt tip c).length = c := ancestorAt_length tip c hc
    -- the wallet after the rollback transaction, w.r.t. the last common block
    have hI1 : CatchInv cfg w1 (ancestorAt tip c) (min lo c) := by
      refine ⟨by rw [r8]; exact hS.bday, r1, by rw [hlenc]; omega, ?_, ?_, ?_⟩
      · rw [hlenc]
        have := hS.window
        have := hS.lo_le
        omega
      · intro h h1 h2
        rw [hlenc] at h2
        rw [ancestorAt_ancestorAt tip c h h2 hc]
        by_cases hl : lo ≤ h
        · exact r5 h hl h2
        · have : h = c := by omega
          subst this; exact r7
      · intro h x h1 hx
        rw [hlenc] at h1
        rw [ancestorAt_ancestorAt tip c h h1 hc]
        exact r4 h x h1 hx
    have hs1 : w1.syncedTo.height = c := by rw [r1]; simp [stampOf, hlenc]
    by_cases hr : recW > 0
    · obtain ⟨w2, g1, g2, g3, _⟩ := recoveryRun_ok cfg hW batch tip (tip.length + 1) w1 c _ hI1 r6 hc (by omega)
      have hs2 : w2.syncedTo.height = tip.length := by rw [g2.tipEq]; rfl
      have hI2 : CatchInv cfg w2 (ancestorAt tip tip.length) (loAfterN cfg.W (min lo c) c (tip.length - c)) := by
        rw [ancestorAt_self]; exact g2
      have hfin := rescan_finish cfg hW tip w2 tip.length _ hI2 g3 (Nat.le_refl _)
      simp only [Nat.sub_self, loAfterN] at hfin
      refine ⟨_, c, ?_, ⟨w1, he⟩, hcm, r10, hfin⟩
      simp only [startup, startupDuring, he, if_pos hr, g1, hs2]
      rfl
    · have hfin := rescan_finish cfg hW tip w1 c _ hI1 r6 hc
      refine ⟨_, c, ?_, ⟨w1, he⟩, hcm, r10, hfin⟩
      simp only [startup, startupDuring, he, if_neg hr, hs1]
      rfl

/-! ### Blocks arriving while the start-up rescan is in flight (`during`)

`BlockConnected` / `RelevantTx` / `FilteredBlockConnected` are handled without looking at `chainSynced`, so on these
notifications the not-yet-synced wallet behaves like the synced one. -/

def NoSyncRead : Ntfn → Prop
  | .connected _ => True
  | .relevantTx _ _ => True
  | .filtered _ _ => True
  | _ => False

theorem addRelevantTx_setSynced (w : Wallet) (b : Bool) (t : Tx) (blk : Option Stamp) :
    addRelevantTx (setSynced w b) t blk = setSynced (addRelevantTx w t blk) b := by
  cases blk with
  | some s =>
    show _ = setSynced (if _ then _ else _) b
    rw [apply_ite (fun x => setSynced x b)]; rfl
  | none =>
    show _ = setSynced (if _ then _ else _) b
    rw [apply_ite (fun x => setSynced x b)]; rfl

theorem foldTxs_setSynced (b : Bool) (blk : Option Stamp) (ts : List Tx) : ∀ (w : Wallet),
    ts.foldl (fun w t => addRelevantTx w t blk) (setSynced w b)
      = setSynced (ts.foldl (fun w t => addRelevantTx w t blk) w) b := by
  induction ts with
  | nil => intro w; rfl
  | cons t ts ih => intro w; simp only [List.foldl_cons, addRelevantTx_setSynced, ih]

theorem handle_setSynced (cfg : Cfg) (w : Wallet) (b : Bool) (n : Ntfn) (hn : NoSyncRead n) :
    handle cfg (setSynced w b) n = setSynced (handle cfg w n) b := by
  cases n with
  | connected s =>
    simp only [handle, connectBlock, putSyncedTo_eq]
    by_cases hc : s.height > 0 ∧ w.birthdaySet = true ∧ w.hashes (s.height - 1) = none
    · have hc' : s.height > 0 ∧ (setSynced w b).birthdaySet = true ∧ (setSynced w b).hashes (s.height - 1) = none := hc
      rw [if_pos hc, if_pos hc']; rfl
    · have hc' : ¬ (s.height > 0 ∧ (setSynced w b).birthdaySet = true ∧ (setSynced w b).hashes (s.height - 1) = none) := hc
      rw [if_neg hc, if_neg hc']; rfl
  | relevantTx t blk => exact addRelevantTx_setSynced w b t blk
  | filtered s ts => exact foldTxs_setSynced b (some s) ts w
  | disconnected _ => exact absurd hn (by simp [NoSyncRead])
  | rescanFinished _ _ => exact absurd hn (by simp [NoSyncRead])

theorem process_setSynced (cfg : Cfg) (b : Bool) (ns : List Ntfn) : ∀ (w : Wallet), (∀ n ∈ ns, NoSyncRead n) →
    process cfg (setSynced w b) ns = setSynced (process cfg w ns) b := by
  induction ns with
  | nil => intro w _; rfl
  | cons n ns ih =>
    intro w h
    simp only [process, List.foldl_cons] at ih ⊢
    rw [handle_setSynced cfg w b n (h n (List.mem_cons_self ..))]
    exact ih _ (fun n' hn' => h n' (List.mem_cons_of_mem _ hn'))

theorem connectNtfns_noSyncRead (C : Content) (m : TxMode) (b : BlockId) : ∀ n ∈ connectNtfns C m b, NoSyncRead n := by
  intro n hn
  cases m <;> simp only [connectNtfns, List.mem_cons, List.mem_map, List.mem_append,
    List.not_mem_nil, or_false] at hn
  · rcases hn with h | ⟨t, _, h⟩ <;> subst h <;> trivial
  · rcases hn with ⟨t, _, h⟩ | h <;> subst h <;> trivial
  · rcases hn with h | h <;> subst h <;> trivial

theorem connectBranch_noSyncRead (C : Content) (m : TxMode) (br : List Nat) : ∀ (base : BlockId),
    ∀ n ∈ connectBranch C m base br, NoSyncRead n := by
  induction br with
  | nil => intro base n hn; simp [connectBranch] at hn
  | cons x br ih =>
    intro base n hn
    simp only [connectBranch, List.mem_append] at hn
    rcases hn with h | h
    · exact connectNtfns_noSyncRead C m _ n h
    · exact ih _ n h

theorem setSynced_of_synced (w : Wallet) (h : w.chainSynced = true) : setSynced w true = w := by
  cases w; simp only [setSynced] at *; subst h; rfl

/-- **Blocks arriving during the rescan, nothing to catch up**: the backend's chain is the wallet's (`old`) when the
    rescan request is evaluated, the blocks `br` are connected on top of it before `RescanFinished(old)` is processed.
    Start-up succeeds and the wallet is in sync with the extended chain.  (With something to catch up the connects are
    dropped — predecessor not remembered — and `RescanFinished` only catches up to the height the rescan was started
    for: the race the TODO in `catchUpHashes` documents; see the `example` in Props/C15.) -/
theorem startup_blocks_during_rescan (cfg : Cfg) (hW : 1 ≤ cfg.W) {w : Wallet} {old : BlockId} {lo : Nat}
    (hS : StoppedInv cfg w old lo) (batch : Nat) (m : TxMode) (br : List Nat) :
    ∃ w', startupDuring cfg 0 batch w old (connectBranch cfg.C m old br) = (w', true) ∧
      Inv cfg w' (br.reverse ++ old) (loAfterN cfg.W lo old.length br.length) := by
  have hS0 := hS.unsynced
  have hcm : IsLastCommon old old old.length :=
    ⟨Nat.le_refl _, Nat.le_refl _, rfl, fun h h1 h2 _ => by omega⟩
  have hlo := hS.lo_le
  obtain ⟨w1, he⟩ := startupRollback_succeeds cfg hS0 old old.length (Nat.le_refl _) hcm hlo (Or.inl rfl)
  rcases startup_rolls_to_common_ex cfg hS0 old with ⟨e, he'⟩ | ⟨w1', c, he', hc, r1, _, _, r4, r5, r6, r7, r8, r9, _⟩
  · rw [he] at he'; cases he'
  · rw [he] at he'
    have : w1' = w1 := (Except.ok.inj he').symm
    subst this
    have hce : c = old.length := isLastCommon_unique hc hcm
    subst hce
    rw [ancestorAt_self] at r1
    have hI1 : Inv cfg (setSynced w1' true) old lo := by
      refine ⟨rfl, by show w1'.birthdaySet = true; rw [r8]; exact hS.bday, r1, hlo, hS.window, ?_, ?_, r6⟩
      · intro h h1 h2; exact r5 h h1 h2
      · intro h x h1 hx; exact r4 h x h1 hx
    have hI2 := connectBranch_inv hW m br hI1
    have hs1 : w1'.syncedTo.height = old.length := by rw [r1]; rfl
    have hw1 : w1' = setSynced (setSynced w1' true) false := by
      have : w1'.chainSynced = false := r9
      cases w1'; simp only [setSynced] at *; subst this; rfl
    refine ⟨process cfg (setSynced w1' true) (connectBranch cfg.C m old br), ?_, hI2⟩
    simp only [startupDuring, he, Nat.lt_irrefl, if_false, hs1, rescanTxNtfns, Nat.sub_self, blocksFrom,
      List.map_nil, List.flatten_nil, List.nil_append, process_append]
    rw [show process cfg w1' (connectBranch cfg.C m old br)
        = setSynced (process cfg (setSynced w1' true) (connectBranch cfg.C m old br)) false from by
      conv => lhs; rw [hw1]
      exact process_setSynced cfg false _ _ (connectBranch_noSyncRead cfg.C m br old)]
    generalize process cfg (setSynced w1' true) (connectBranch cfg.C m old br) = w2 at hI2 ⊢
    have hh : (setSynced w2 false).syncedTo.height = (br.reverse ++ old).length := by
      show w2.syncedTo.height = _
      rw [hI2.tipEq]; rfl
    have hz : old.length - (setSynced w2 false).syncedTo.height = 0 := by
      rw [hh]; simp
    simp only [process, List.foldl_cons, List.foldl_nil, handle, catchUpHashes, hz, catchUpFrom, orKeep]
    exact Prod.ext (setSynced_of_synced w2 hI2.synced) rfl

/-! ### Corollaries used by Props/C15 -/

/-- Ghost lower end of the remembered range after a successful start-up: `min lo c` pushed up by pruning. -/
def startupLo (W lo c L : Nat) : Nat := loAfterN W (min lo c) c (L - c)

theorem startupLo_le (W lo c L : Nat) (hc : c ≤ L) : startupLo W lo c L ≤ max (min lo c) (L + 1 - W) := by
  have := loAfterN_le W (L - c) (min lo c) c
  unfold startupLo
  have e : c + (L - c) = L := by omega
  rw [e] at this
  exact this

theorem startupLo_ge (W lo c L : Nat) : min lo c ≤ startupLo W lo c L := loAfterN_ge W _ _ _

theorem stepMax_ge (tip : BlockId) (st : Step) : tip.length ≤ stepMax tip st := by
  cases st <;> simp only [stepMax] <;> omega

theorem maxTip_ge (tip : BlockId) (steps : List Step) : tip.length ≤ maxTip tip steps := by
  cases steps with
  | nil => exact Nat.le_refl _
  | cons st rest =>
    have := stepMax_ge tip st
    simp only [maxTip]
    omega

end SyncTip
