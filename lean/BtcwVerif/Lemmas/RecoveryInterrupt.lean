/-
C16, interrupted-and-resumed recoveries: what a run of `Wallet.recovery` that ENDS EARLY leaves on disk
(`recoverInterrupted`: quit flag set by Lock / unlock timeout / Stop; `recoverChainFail`: FilterBlocks failing inside
a batch) is the result of an uninterrupted `recoverChain` over a PREFIX of the blocks, so the resumed run is covered by
`C16_complete_resumed`.  Hypotheses are closed under taking prefixes of the chain.
-/
import BtcwVerif.Lemmas.RecoveryComplete

namespace Recovery

/-! ### the hypotheses are prefix-closed -/

theorem ChainWF.prefix {scopes : List Nat} {invalid : BranchId → List Nat} {p q : Chain}
    (h : ChainWF scopes invalid (p ++ q)) : ChainWF scopes invalid p := by
  have e : ∀ pre tx post, allTxs p = pre ++ tx :: post → allTxs (p ++ q) = pre ++ tx :: (post ++ allTxs q) := by
    intro pre tx post hp
    rw [allTxs_append, hp]; simp
  refine ⟨?_, ?_, ?_, ?_⟩
  · intro pre tx post hp t ht
    exact h.ids pre tx _ (e pre tx post hp) t ht
  · intro pre tx post hp op hop t ht
    apply h.order pre tx _ (e pre tx post hp) op hop t
    rcases List.mem_cons.mp ht with ht | ht
    · exact List.mem_cons.mpr (Or.inl ht)
    · exact List.mem_cons.mpr (Or.inr (List.mem_append_left _ ht))
  · intro pre tx post hp op hop hw t ht
    apply h.nodbl pre tx _ (e pre tx post hp) op hop _ t ht
    rw [allTxs_append, wops_append]
    exact List.mem_append_left _ hw
  · intro k hk hs
    apply h.valid k _ hs
    rw [allTxs_append, paidKeys_append]
    exact List.mem_append_left _ hk

theorem LookAheadFrom.prefix {W : Nat} {scopes : List Nat} {n : Nat} {p q : Chain}
    (h : LookAheadFrom W scopes n (p ++ q)) : LookAheadFrom W scopes n p := by
  intro pre hh blk post e hn k hk hs
  exact h pre hh blk (post ++ q) (by rw [e]; simp) hn k hk hs

theorem LookAhead.prefix {W : Nat} {scopes : List Nat} {p q : Chain}
    (h : LookAhead W scopes (p ++ q)) : LookAhead W scopes p := by
  intro pre hh blk post e k hk hs
  exact h pre hh blk (post ++ q) (by rw [e]; simp) k hk hs

theorem LookAhead.from {W : Nat} {scopes : List Nat} {c : Chain} (h : LookAhead W scopes c) (n : Nat) :
    LookAheadFrom W scopes n c := fun pre hh blk post e _ => h pre hh blk post e

/-! ### `recoverChain` does not depend on surplus fuel, nor (without resume points) on the batch counter -/

theorem recoverChain_fuel (invalid : BranchId → List Nat) (batchSize : Nat) (cuts : Nat → Bool) :
    ∀ (f1 f2 : Nat) (st : State) (blocks : Chain) (n : Nat), blocks.length < f1 → blocks.length < f2 →
    recoverChain invalid batchSize f1 st blocks cuts n = recoverChain invalid batchSize f2 st blocks cuts n := by
  intro f1
  induction f1 with
  | zero => intro f2 st blocks n h1; omega
  | succ f1 ih =>
    intro f2 st blocks n h1 h2
    cases f2 with
    | zero => omega
    | succ f2 =>
      rw [recoverChain, recoverChain]
      by_cases hbe : blocks.isEmpty = true
      · rw [if_pos hbe, if_pos hbe]
      · rw [if_neg hbe, if_neg hbe]
        have hpos : 0 < blocks.length := by
          cases blocks with
          | nil => exact absurd rfl hbe
          | cons a l => simp
        have hl : (blocks.drop (max batchSize 1)).length < blocks.length := by
          rw [List.length_drop]; omega
        exact ih f2 _ _ _ (by omega) (by omega)

theorem recoverChain_nocut_index (invalid : BranchId → List Nat) (batchSize : Nat) :
    ∀ (fuel : Nat) (st : State) (blocks : Chain) (i j : Nat),
    recoverChain invalid batchSize fuel st blocks (fun _ => false) i =
    recoverChain invalid batchSize fuel st blocks (fun _ => false) j := by
  intro fuel
  induction fuel with
  | zero => intro st blocks i j; rfl
  | succ fuel ih =>
    intro st blocks i j
    rw [recoverChain, recoverChain]
    by_cases hbe : blocks.isEmpty = true
    · rw [if_pos hbe, if_pos hbe]
    · rw [if_neg hbe, if_neg hbe]
      exact ih _ _ (i + 1) (j + 1)

/-! ### a run that ends with a failed batch leaves what an uninterrupted run over the earlier batches leaves -/

theorem recoverChainFail_spec (invalid : BranchId → List Nat) (batchSize target : Nat) :
    ∀ (fuel : Nat) (st : State) (blocks : Chain) (d : Nat) (st' : State) (n : Nat),
    recoverChainFail invalid batchSize target fuel st blocks d = some (st', n) →
    ∃ m, n = d + m ∧ m ≤ blocks.length ∧
      st' = recoverChain invalid batchSize (m + 1) st (blocks.take m) (fun _ => false) 0 := by
  intro fuel
  induction fuel with
  | zero => intro st blocks d st' n h; simp [recoverChainFail] at h
  | succ fuel ih =>
    intro st blocks d st' n h
    rw [recoverChainFail] at h
    by_cases hbe : blocks.isEmpty = true
    · rw [if_pos hbe] at h; cases h
    · rw [if_neg hbe] at h
      simp only [] at h
      by_cases ht : target ≤ (recoverBatch invalid st (blocks.take (max batchSize 1))).calls
      · rw [if_pos ht] at h
        cases h
        refine ⟨0, rfl, Nat.zero_le _, ?_⟩
        rw [List.take_zero, recoverChain]
        rfl
      · rw [if_neg ht] at h
        obtain ⟨m', hn, hm', hst⟩ := ih _ _ _ _ _ h
        have hbs : 1 ≤ max batchSize 1 := Nat.le_max_right _ _
        -- the recursive call returned `some`, so blocks remain after the first batch
        have hrest : (blocks.drop (max batchSize 1)) ≠ [] := by
          intro he
          rw [he] at h
          cases fuel <;> simp [recoverChainFail] at h
        have hlen : max batchSize 1 < blocks.length := by
          have := List.length_pos_iff.mpr hrest
          rw [List.length_drop] at this; omega
        refine ⟨max batchSize 1 + m', by omega, ?_, ?_⟩
        · rw [List.length_drop] at hm'; omega
        · rw [hst]
          conv => rhs; rw [recoverChain]
          have hne : (blocks.take (max batchSize 1 + m')).isEmpty = false := by
            cases hb : blocks with
            | nil => rw [hb] at hlen; simp at hlen
            | cons a l =>
              have : max batchSize 1 + m' = (max batchSize 1 + m' - 1) + 1 := by omega
              rw [this, List.take_succ_cons]; rfl
          rw [hne]
          simp only [Bool.false_eq_true, if_false]
          have e1 : (blocks.take (max batchSize 1 + m')).take (max batchSize 1) = blocks.take (max batchSize 1) := by
            rw [List.take_take]; congr 1; omega
          have e2 : (blocks.take (max batchSize 1 + m')).drop (max batchSize 1) =
              (blocks.drop (max batchSize 1)).take m' := by
            rw [List.drop_take]; congr 1; omega
          rw [e1, e2]
          rw [recoverChain_nocut_index invalid batchSize _ _ _ (0 + 1) 0]
          apply recoverChain_fuel
          · rw [List.length_take]; omega
          · rw [List.length_take]; omega

end Recovery
