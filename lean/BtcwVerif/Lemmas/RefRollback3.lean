import BtcwVerif.Lemmas.RefRollback2
/-!
# Refinement, event *disconnected*: the detached blocks, the loop over them, the ledger without them
-/
namespace TxStore
open KMap Ledger

/-! ### list plumbing -/

theorem sublist_flatMap_filter {α β : Type} (f : α → List β) (p : α → Bool) : ∀ (l : List α),
    ((l.filter p).flatMap f).Sublist (l.flatMap f) := by
  intro l
  induction l with
  | nil => exact List.Sublist.refl _
  | cons a t ih =>
    rw [List.filter_cons]
    by_cases h : p a = true
    · simp only [h, if_true, List.flatMap_cons]
      exact List.Sublist.append (List.Sublist.refl _) ih
    · simp only [h, Bool.false_eq_true, if_false, List.flatMap_cons]
      exact List.Sublist.trans ih (List.sublist_append_right _ _)

theorem foldlM_flatMap {α β σ : Type} (f : α → List β) (g : σ → β → M σ) : ∀ (l : List α) (r : σ),
    (l.flatMap f).foldlM g r = l.foldlM (fun r a => (f a).foldlM g r) r := by
  intro l
  induction l with
  | nil => intro r; rfl
  | cons a t ih =>
    intro r
    rw [List.flatMap_cons, List.foldlM_append, List.foldlM_cons]
    cases h : (f a).foldlM g r with
    | error e => rfl
    | ok r1 => simp only [bind_ok]; exact ih r1

theorem foldlM_map {α β σ : Type} (f : α → β) (g : σ → β → M σ) : ∀ (l : List α) (r : σ),
    (l.map f).foldlM g r = l.foldlM (fun r a => g r (f a)) r := by
  intro l
  induction l with
  | nil => intro r; rfl
  | cons a t ih =>
    intro r
    rw [List.map_cons, List.foldlM_cons, List.foldlM_cons]
    cases h : g r (f a) with
    | error e => rfl
    | ok r1 => simp only [bind_ok]; exact ih r1

theorem takeWhile_eq_filter {α : Type} (p : α → Bool) : ∀ (l : List α),
    l.Pairwise (fun a b => p b = true → p a = true) → l.takeWhile p = l.filter p := by
  intro l
  induction l with
  | nil => intro _; rfl
  | cons a t ih =>
    intro hp
    rw [List.pairwise_cons] at hp
    rw [List.takeWhile_cons, List.filter_cons]
    by_cases h : p a = true
    · simp only [h, if_true]; rw [ih hp.2]
    · simp only [h, Bool.false_eq_true, if_false]
      symm
      rw [List.filter_eq_nil_iff]
      intro b hb hpb
      exact h (hp.1 b hb hpb)

/-! ### the detached blocks and transactions -/

/-- the detached blocks, highest first (the order `rollback` visits them) -/
def cutBlocks (L : Ledger) (h : Int) : List LBlock :=
  (L.chain.filter fun b => !decide ((b.bm.block.height : Int) < h)).reverse

/-- the detached transactions in the order `rollback` visits them -/
def cutPairs (L : Ledger) (h : Int) : List (Tx × BlockMeta) := chainTxsOf (cutBlocks L h)

theorem mem_cutPairs {L : Ledger} {h : Int} {p : Tx × BlockMeta} :
    p ∈ cutPairs L h ↔ p ∈ chainTxs L ∧ ¬ ((p.2.block.height : Int) < h) := by
  obtain ⟨t, bm⟩ := p
  unfold cutPairs cutBlocks chainTxsOf
  simp only [List.mem_flatMap, List.mem_map, List.mem_reverse, List.mem_filter, Prod.mk.injEq]
  rw [mem_chainTxs]
  constructor
  · rintro ⟨lb, ⟨hlb, hh⟩, t', ht', rfl, rfl⟩
    exact ⟨⟨lb, hlb, rfl, ht'⟩, by simpa using hh⟩
  · rintro ⟨⟨lb, hlb, rfl, ht⟩, hh⟩
    exact ⟨lb, ⟨hlb, by simpa using hh⟩, t, ht, rfl, rfl⟩

theorem chain_hashes_nodup {L : Ledger} (hl : LWF L) : ((chainTxs L).map (·.1.hash)).Nodup := by
  have := hl.hashes
  unfold known at this
  rw [List.map_append, List.nodup_append] at this
  have h1 := this.1
  rw [List.map_map] at h1
  exact h1

theorem cutPairs_nodup {L : Ledger} (hl : LWF L) (h : Int) : (cutPairs L h).Nodup := by
  have h0 := chain_hashes_nodup hl
  have h1 : ((cutPairs L h).map (·.1.hash)).Nodup := by
    unfold cutPairs cutBlocks chainTxsOf
    have hperm : ((L.chain.filter fun b => !decide ((b.bm.block.height : Int) < h)).reverse.flatMap
        fun b => b.txs.map fun t => (t, b.bm)).Perm
        ((L.chain.filter fun b => !decide ((b.bm.block.height : Int) < h)).flatMap fun b => b.txs.map fun t => (t, b.bm)) :=
      (List.reverse_perm _).flatMap_right _
    rw [(hperm.map _).nodup_iff]
    exact ((sublist_flatMap_filter _ _ L.chain).map _).nodup h0
  rw [List.Nodup, List.pairwise_map] at h1
  exact h1.imp (fun hne e => hne (by rw [e]))

/-- the store's block loop visits exactly `cutBlocks` -/
theorem rollback_blocks_eq {s : Store} {L : Ledger} (hg : Good s L) (h : Int) :
    (s.blocks.reverse.takeWhile fun p => !decide ((p.1 : Int) < h)) = (cutBlocks L h).map blockEntry := by
  rw [hg.ref.blocks]
  unfold cutBlocks
  have hp : ((L.chain.map blockEntry).reverse).Pairwise
      (fun a b => (!decide ((b.1 : Int) < h)) = true → (!decide ((a.1 : Int) < h)) = true) := by
    rw [List.pairwise_reverse, List.pairwise_map]
    have := hg.lwf.heights
    rw [List.pairwise_map] at this
    refine this.imp ?_
    intro a b hab hb
    have ha' : (blockEntry a).1 = a.bm.block.height := rfl
    have hb' : (blockEntry b).1 = b.bm.block.height := rfl
    have h1 : ¬ (((blockEntry a).1 : Int) < h) := by simpa using hb
    have h2 : ¬ (((blockEntry b).1 : Int) < h) := by rw [ha'] at h1; rw [hb']; omega
    simpa using h2
  rw [takeWhile_eq_filter _ _ hp, List.filter_reverse, List.filter_map, List.map_reverse]
  rfl

/-- the nested loops of `rollback` as one loop over the detached transactions -/
theorem rollback_loop_flat (L : Ledger) (h : Int) (r : RB) :
    ((cutBlocks L h).map blockEntry).foldlM
        (fun r (p : Nat × BlockRec) => p.2.txs.foldlM (rbTx ⟨p.1, p.2.hash⟩) r) r =
      (cutPairs L h).foldlM (fun r p => rbTx p.2.block r p.1.hash) r := by
  unfold cutPairs chainTxsOf
  rw [foldlM_flatMap, foldlM_map]
  congr 1
  funext r lb
  simp only [blockEntry]
  rw [foldlM_map, foldlM_map]

/-- the whole main loop: it succeeds, and the invariant holds for all detached transactions -/
theorem rbInv_loop {s : Store} {L : Ledger} (hg : Good s L) : ∀ (todo done : List (Tx × BlockMeta)) (r : RB),
    RBInv s L done r → (∀ p ∈ done, p ∈ chainTxs L) → (∀ p ∈ todo, p ∈ chainTxs L) → (done ++ todo).Nodup →
    ∃ r', todo.foldlM (fun r p => rbTx p.2.block r p.1.hash) r = .ok r' ∧ RBInv s L (done ++ todo) r' := by
  intro todo
  induction todo with
  | nil => intro done r hI _ _ _; exact ⟨r, rfl, by rw [List.append_nil]; exact hI⟩
  | cons a rest ih =>
    intro done r hI hd ht hn
    obtain ⟨t, bm⟩ := a
    have ha : (t, bm) ∈ chainTxs L := ht _ List.mem_cons_self
    have hnd : (t, bm) ∉ done := by
      intro hmem
      rw [List.nodup_append] at hn
      exact hn.2.2 _ hmem _ List.mem_cons_self rfl
    obtain ⟨h1, h2⟩ := rbInv_step hg hd ha hnd hI
    have hn' : ((done ++ [(t, bm)]) ++ rest).Nodup := by rw [List.append_assoc]; exact hn
    obtain ⟨r', h3, h4⟩ := ih (done ++ [(t, bm)]) _ h2
      (fun p hp => by
        rcases List.mem_append.mp hp with h | h
        · exact hd p h
        · simp only [List.mem_singleton] at h; subst h; exact ha)
      (fun p hp => ht p (List.mem_cons_of_mem _ hp)) hn'
    refine ⟨r', ?_, by rw [List.append_assoc] at h4; exact h4⟩
    rw [List.foldlM_cons]
    simp only [h1, bind_ok]
    exact h3

end TxStore
