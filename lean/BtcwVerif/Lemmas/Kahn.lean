/-
Helper lemmas for C14 (Props/C14.lean): association-list graph algebra, the exact shape of `makeGraph`'s result,
the Kahn loop invariant, and "a finite non-empty set in which every node has a parent contains a cycle".
Core Lean only.
-/
import BtcwVerif.Model.Kahn
namespace Kahn

/-! ### association-list graph -/

theorem Graph.find?_set (g : Graph) (h h' : Nat) (n : Node) :
    (g.set h n).find? h' = if h = h' then some n else g.find? h' := by
  induction g with
  | nil => simp [Graph.set, Graph.find?]
  | cons kn g ih =>
    obtain ⟨k, m⟩ := kn
    simp only [Graph.set]
    by_cases hk : k = h
    · subst hk
      simp only [if_true, Graph.find?]
      by_cases hk' : k = h' <;> simp [hk']
    · simp only [hk, if_false, Graph.find?, ih]
      by_cases hk' : k = h'
      · subst hk'
        simp [Ne.symm hk]
      · simp [hk']

theorem Graph.get_set (g : Graph) (h h' : Nat) (n : Node) :
    (g.set h n).get h' = if h = h' then n else g.get h' := by
  unfold Graph.get
  rw [Graph.find?_set]
  by_cases hh : h = h' <;> simp [hh]

theorem Graph.has_set (g : Graph) (h h' : Nat) (n : Node) :
    (g.set h n).has h' = (decide (h = h') || g.has h') := by
  unfold Graph.has
  rw [Graph.find?_set]
  by_cases hh : h = h' <;> simp [hh]

theorem Graph.get_of_find? {g : Graph} {h : Nat} {n : Node} (hf : g.find? h = some n) : g.get h = n := by
  simp [Graph.get, hf]

theorem Graph.get_of_not_has {g : Graph} {h : Nat} (hf : g.has h = false) : g.get h = Node.zero := by
  unfold Graph.has at hf
  unfold Graph.get
  cases hx : g.find? h <;> simp_all

theorem Graph.find?_of_has {g : Graph} {h : Nat} (hf : g.has h = true) : g.find? h = some (g.get h) := by
  unfold Graph.has at hf
  unfold Graph.get
  cases hx : g.find? h <;> simp_all

/-! ### the input map -/

theorem lookupTx_none {S : List Tx} {h : Nat} : lookupTx S h = none ↔ h ∉ hashes S := by
  induction S with
  | nil => simp [lookupTx, hashes]
  | cons t ts ih =>
    simp only [lookupTx, hashes, List.map_cons, List.mem_cons, not_or]
    by_cases ht : t.hash = h
    · simp [ht]
    · simp only [ht, if_false]
      rw [ih]
      simp [hashes, Ne.symm ht]

theorem lookupTx_some {S : List Tx} {h : Nat} {t : Tx} (hl : lookupTx S h = some t) : t ∈ S ∧ t.hash = h := by
  induction S with
  | nil => simp [lookupTx] at hl
  | cons u us ih =>
    simp only [lookupTx] at hl
    by_cases hu : u.hash = h
    · simp only [hu, if_true, Option.some.injEq] at hl
      subst hl
      exact ⟨List.mem_cons_self, hu⟩
    · simp only [hu, if_false] at hl
      exact ⟨List.mem_cons_of_mem _ (ih hl).1, (ih hl).2⟩

theorem lookupTx_of_mem {S : List Tx} (hnd : (hashes S).Nodup) {t : Tx} (ht : t ∈ S) :
    lookupTx S t.hash = some t := by
  induction S with
  | nil => cases ht
  | cons u us ih =>
    simp only [hashes, List.map_cons, List.nodup_cons] at hnd
    simp only [lookupTx]
    rcases List.mem_cons.mp ht with rfl | ht'
    · simp
    · have : u.hash ≠ t.hash := by
        intro he
        exact hnd.1 (he ▸ List.mem_map_of_mem (f := (·.hash)) ht')
      simp only [this, if_false]
      exact ih hnd.2 ht'

theorem hash_inj {S : List Tx} (hnd : (hashes S).Nodup) {t u : Tx} (ht : t ∈ S) (hu : u ∈ S)
    (he : t.hash = u.hash) : t = u := by
  have h1 := lookupTx_of_mem hnd ht
  have h2 := lookupTx_of_mem hnd hu
  rw [he] at h1
  exact Option.some.inj (h1.symm.trans h2)

/-! ### spend edges -/

/-- Edges contributed by one transaction, in input order. -/
def edgesOfTx (S : List Tx) (c : Tx) : List (Nat × Nat) :=
  (c.ins.filter fun i => (hashes S).contains i.1).map fun i => (i.1, c.hash)

theorem edges_eq (S : List Tx) : edges S = S.flatMap (edgesOfTx S) := rfl

theorem mem_edges {S : List Tx} {p c : Nat} :
    (p, c) ∈ edges S ↔ ∃ t ∈ S, t.hash = c ∧ p ∈ hashes S ∧ ∃ i ∈ t.ins, i.1 = p := by
  simp only [edges, List.mem_flatMap, List.mem_map, List.mem_filter, List.contains_iff_mem, Prod.mk.injEq]
  constructor
  · rintro ⟨t, ht, i, ⟨hi, hm⟩, rfl, rfl⟩
    exact ⟨t, ht, rfl, hm, i, hi, rfl⟩
  · rintro ⟨t, ht, rfl, hm, i, hi, rfl⟩
    exact ⟨t, ht, i, ⟨hi, hm⟩, rfl, rfl⟩

theorem edges_fst_mem {S : List Tx} {e : Nat × Nat} (he : e ∈ edges S) : e.1 ∈ hashes S := by
  obtain ⟨p, c⟩ := e
  obtain ⟨_, _, _, hm, _⟩ := mem_edges.mp he
  exact hm

theorem edges_snd_mem {S : List Tx} {e : Nat × Nat} (he : e ∈ edges S) : ∃ t ∈ S, t.hash = e.2 := by
  obtain ⟨p, c⟩ := e
  obtain ⟨t, ht, hc, _⟩ := mem_edges.mp he
  exact ⟨t, ht, hc⟩

/-- children recorded for `h`, in edge order -/
def outOf (E : List (Nat × Nat)) (h : Nat) : List Nat := (E.filter fun e => e.1 == h).map (·.2)
/-- number of edges into `h` -/
def degOf (E : List (Nat × Nat)) (h : Nat) : Nat := E.countP fun e => e.2 == h

theorem outOf_append (E F : List (Nat × Nat)) (h : Nat) : outOf (E ++ F) h = outOf E h ++ outOf F h := by
  simp [outOf]

theorem degOf_append (E F : List (Nat × Nat)) (h : Nat) : degOf (E ++ F) h = degOf E h + degOf F h := by
  simp [degOf]

theorem mem_outOf {E : List (Nat × Nat)} {h c : Nat} : c ∈ outOf E h ↔ (h, c) ∈ E := by
  simp only [outOf, List.mem_map, List.mem_filter, beq_iff_eq]
  constructor
  · rintro ⟨⟨a, b⟩, ⟨he, rfl⟩, rfl⟩
    exact he
  · intro he
    exact ⟨(h, c), ⟨he, rfl⟩, rfl⟩

/-! ### what `makeGraph` builds -/

/-- State of `makeGraph` after the edges `E` have been recorded. -/
structure GInv (S : List Tx) (g : Graph) (E : List (Nat × Nat)) : Prop where
  out : ∀ h, (g.get h).outEdges = outOf E h
  deg : ∀ h, (g.get h).inDegree = degOf E h
  val : ∀ h, g.has h = true → (g.get h).value = lookupTx S h
  noself : ∀ e ∈ E, e.1 ≠ e.2

theorem GInv.stepInput {S : List Tx} {g : Graph} {E : List (Nat × Nat)} (hg : GInv S g E)
    {c : Tx} (hc : lookupTx S c.hash = some c) {i : Nat × Nat} (hi : i.1 ≠ c.hash) :
    GInv S (addInput S c g i) (E ++ if (hashes S).contains i.1 then [(i.1, c.hash)] else []) := by
  unfold Kahn.addInput
  cases hl : lookupTx S i.1 with
  | none =>
    have : ¬ i.1 ∈ hashes S := lookupTx_none.mp hl
    simpa [this, hl] using hg
  | some parentTx =>
    have hm : i.1 ∈ hashes S := by
      apply Classical.byContradiction
      intro hn
      rw [lookupTx_none.mpr hn] at hl
      cases hl
    have hdup : (g.get i.1).outEdges.contains i.1 = false := by
      rw [hg.out]
      apply Bool.eq_false_iff.mpr
      intro hcon
      have := mem_outOf.mp (List.contains_iff_mem.mp hcon)
      exact hg.noself _ this rfl
    simp only [hl, hdup, Bool.false_eq_true, if_false, List.contains_iff_mem, hm, if_true]
    have hval : (g.get i.1).value.or (some parentTx) = some parentTx := by
      by_cases hh : g.has i.1 = true
      · rw [hg.val _ hh, hl]
        rfl
      · rw [Graph.get_of_not_has (by simpa using hh)]
        rfl
    refine ⟨?_, ?_, ?_, ?_⟩
    · intro h
      rw [outOf_append, Graph.get_set]
      by_cases h1 : c.hash = h
      · subst h1
        simp only [if_true, Graph.get_set, hi, if_false, hg.out]
        simp [outOf, hi]
      · simp only [h1, if_false, Graph.get_set]
        by_cases h2 : i.1 = h
        · subst h2
          simp [hg.out, outOf]
        · simp [h2, hg.out, outOf]
    · intro h
      rw [degOf_append, Graph.get_set]
      by_cases h1 : c.hash = h
      · subst h1
        simp only [if_true, Graph.get_set, hi, if_false, hg.deg]
        simp [degOf]
      · simp only [h1, if_false, Graph.get_set]
        by_cases h2 : i.1 = h
        · subst h2
          simp [hg.deg, degOf, h1]
        · simp [h2, hg.deg, degOf, h1]
    · intro h hh
      rw [Graph.get_set]
      by_cases h1 : c.hash = h
      · subst h1
        simp [hc]
      · simp only [h1, if_false, Graph.get_set]
        by_cases h2 : i.1 = h
        · subst h2
          simp only [if_true]
          rw [hval, hl]
        · simp only [h2, if_false]
          apply hg.val
          simpa [Graph.has_set, h1, h2] using hh
    · intro e he
      rcases List.mem_append.mp he with he | he
      · exact hg.noself e he
      · simp only [List.mem_singleton] at he
        subst he
        exact hi

theorem has_addInput {S : List Tx} {c : Tx} {g : Graph} {i : Nat × Nat} {h : Nat} (hh : g.has h = true) :
    (addInput S c g i).has h = true := by
  unfold Kahn.addInput
  cases hl : lookupTx S i.1 with
  | none => simpa [hl] using hh
  | some parentTx =>
    simp only [hl]
    split
    · exact hh
    · simp [Graph.has_set, hh]

theorem has_foldl_addInput {S : List Tx} {c : Tx} (ins : List (Nat × Nat)) {g : Graph} {h : Nat}
    (hh : g.has h = true) : (ins.foldl (addInput S c) g).has h = true := by
  induction ins generalizing g with
  | nil => exact hh
  | cons i is ih => exact ih (has_addInput hh)

theorem GInv.foldInputs {S : List Tx} {c : Tx} (hc : lookupTx S c.hash = some c)
    (ins : List (Nat × Nat)) (hins : ∀ i ∈ ins, i.1 ≠ c.hash) {g : Graph} {E : List (Nat × Nat)}
    (hg : GInv S g E) :
    GInv S (ins.foldl (addInput S c) g)
      (E ++ (ins.filter fun i => (hashes S).contains i.1).map fun i => (i.1, c.hash)) := by
  induction ins generalizing g E with
  | nil => simpa using hg
  | cons i is ih =>
    have h1 := hg.stepInput hc (hins i List.mem_cons_self)
    have h2 := ih (fun j hj => hins j (List.mem_cons_of_mem _ hj)) h1
    simp only [List.foldl_cons]
    by_cases hm : i.1 ∈ hashes S
    · simpa [List.filter_cons, hm] using h2
    · simpa [List.filter_cons, hm] using h2

theorem GInv.stepTx {S : List Tx} {g : Graph} {E : List (Nat × Nat)} (hg : GInv S g E)
    {c : Tx} (hc : lookupTx S c.hash = some c) (hins : ∀ i ∈ c.ins, i.1 ≠ c.hash) :
    GInv S (addTx S g c) (E ++ edgesOfTx S c) := by
  unfold Kahn.addTx edgesOfTx
  apply GInv.foldInputs hc _ hins
  by_cases hh : g.has c.hash = true
  · simpa [hh] using hg
  · simp only [hh, Bool.false_eq_true, if_false]
    have hz := Graph.get_of_not_has (by simpa using hh : g.has c.hash = false)
    refine ⟨?_, ?_, ?_, hg.noself⟩
    · intro h
      rw [Graph.get_set]
      by_cases h1 : c.hash = h
      · subst h1
        simp only [if_true]
        rw [← hg.out, hz]
        rfl
      · simp [h1, hg.out]
    · intro h
      rw [Graph.get_set]
      by_cases h1 : c.hash = h
      · subst h1
        simp only [if_true]
        rw [← hg.deg, hz]
        rfl
      · simp [h1, hg.deg]
    · intro h hhas
      rw [Graph.get_set]
      by_cases h1 : c.hash = h
      · subst h1
        simp [hc]
      · simp only [h1, if_false]
        apply hg.val
        simpa [Graph.has_set, h1] using hhas

theorem has_addTx_self {S : List Tx} {g : Graph} {c : Tx} : (addTx S g c).has c.hash = true := by
  unfold Kahn.addTx
  apply has_foldl_addInput
  by_cases hh : g.has c.hash = true
  · simp [hh]
  · simp [hh, Graph.has_set]

theorem has_addTx_mono {S : List Tx} {g : Graph} {c : Tx} {h : Nat} (hh : g.has h = true) :
    (addTx S g c).has h = true := by
  unfold Kahn.addTx
  apply has_foldl_addInput
  by_cases hc : g.has c.hash = true
  · simpa [hc] using hh
  · simp [hc, Graph.has_set, hh]

theorem has_foldl_addTx {S : List Tx} (l : List Tx) {g : Graph} {h : Nat}
    (hh : g.has h = true ∨ ∃ t ∈ l, t.hash = h) : (l.foldl (addTx S) g).has h = true := by
  induction l generalizing g with
  | nil =>
    rcases hh with hh | ⟨t, ht, _⟩
    · exact hh
    · cases ht
  | cons u us ih =>
    simp only [List.foldl_cons]
    apply ih
    rcases hh with hh | ⟨t, ht, rfl⟩
    · exact Or.inl (has_addTx_mono hh)
    · rcases List.mem_cons.mp ht with rfl | ht
      · exact Or.inl has_addTx_self
      · exact Or.inr ⟨t, ht, rfl⟩

theorem GInv.foldTxs {S : List Tx} (l : List Tx)
    (hl : ∀ c ∈ l, lookupTx S c.hash = some c ∧ ∀ i ∈ c.ins, i.1 ≠ c.hash)
    {g : Graph} {E : List (Nat × Nat)} (hg : GInv S g E) :
    GInv S (l.foldl (addTx S) g) (E ++ l.flatMap (edgesOfTx S)) := by
  induction l generalizing g E with
  | nil => simpa using hg
  | cons c cs ih =>
    have h1 := hg.stepTx (hl c List.mem_cons_self).1 (hl c List.mem_cons_self).2
    have h2 := ih (fun d hd => hl d (List.mem_cons_of_mem _ hd)) h1
    simpa [List.flatMap_cons, List.append_assoc] using h2

/-- no transaction of `S` spends an output of itself -/
def NoSelf (S : List Tx) : Prop := ∀ c ∈ S, ∀ i ∈ c.ins, i.1 ≠ c.hash

theorem makeGraph_inv {S : List Tx} (hnd : (hashes S).Nodup) (hns : NoSelf S) :
    GInv S (makeGraph S) (edges S) := by
  have h0 : GInv S [] [] := by
    refine ⟨?_, ?_, ?_, ?_⟩
    · intro h; rfl
    · intro h; rfl
    · intro h hh; cases hh
    · intro e he; cases he
  have := GInv.foldTxs (S := S) S (fun c hc => ⟨lookupTx_of_mem hnd hc, hns c hc⟩) h0
  simpa [makeGraph, edges_eq] using this

/-- Every node of `makeGraph`'s result carries its transaction (never the nil pointer). -/
theorem makeGraph_value {S : List Tx} (hnd : (hashes S).Nodup) (hns : NoSelf S) {t : Tx} (ht : t ∈ S) :
    (makeGraph S).has t.hash = true ∧ ((makeGraph S).get t.hash).value = some t := by
  have hh : (makeGraph S).has t.hash = true := has_foldl_addTx S (Or.inr ⟨t, ht, rfl⟩)
  exact ⟨hh, by rw [(makeGraph_inv hnd hns).val _ hh, lookupTx_of_mem hnd ht]⟩

/-! ### a finite non-empty set in which every node has a parent contains a cycle -/

theorem Reach.trans {r : Nat → Nat → Prop} {a b c : Nat} (h1 : Reach r a b) (h2 : Reach r b c) : Reach r a c := by
  induction h1 with
  | single h => exact Reach.cons h h2
  | cons h _ ih => exact Reach.cons h (ih h2)

theorem Reach.mono {r r' : Nat → Nat → Prop} (hrr : ∀ a b, r a b → Reach r' a b) {a b : Nat}
    (h : Reach r a b) : Reach r' a b := by
  induction h with
  | single h => exact hrr _ _ h
  | cons h _ ih => exact (hrr _ _ h).trans ih

theorem exists_cycle_of_all_have_parent (R : List Nat) :
    ∀ (r : Nat → Nat → Prop), R ≠ [] → (∀ x ∈ R, ∃ y ∈ R, r y x) → ∃ x, Reach r x x := by
  induction R with
  | nil => intro r h; exact absurd rfl h
  | cons a R' ih =>
    intro r _ hpar
    by_cases haa : r a a
    · exact ⟨a, Reach.single haa⟩
    by_cases hR' : R' = []
    · subst hR'
      obtain ⟨y, hy, hya⟩ := hpar a List.mem_cons_self
      simp only [List.mem_singleton] at hy
      subst hy
      exact absurd hya haa
    · -- contract `a`: y →' z  iff  y → z  or  y → a → z
      let r' : Nat → Nat → Prop := fun y z => r y z ∨ (r y a ∧ r a z)
      have hpar' : ∀ z ∈ R', ∃ y ∈ R', r' y z := by
        intro z hz
        obtain ⟨y, hy, hyz⟩ := hpar z (List.mem_cons_of_mem _ hz)
        rcases List.mem_cons.mp hy with rfl | hy
        · obtain ⟨w, hw, hwa⟩ := hpar y List.mem_cons_self
          rcases List.mem_cons.mp hw with rfl | hw
          · exact absurd hwa haa
          · exact ⟨w, hw, Or.inr ⟨hwa, hyz⟩⟩
        · exact ⟨y, hy, Or.inl hyz⟩
      obtain ⟨x, hx⟩ := ih r' hR' hpar'
      refine ⟨x, Reach.mono ?_ hx⟩
      intro u v huv
      rcases huv with h | ⟨h1, h2⟩
      · exact Reach.single h
      · exact Reach.cons h1 (Reach.single h2)

theorem Acyclic.noSelf {S : List Tx} (hd : Acyclic S) : NoSelf S := by
  intro c hc i hi he
  apply hd c.hash
  apply Reach.single
  have hm : c.hash ∈ hashes S := List.mem_map_of_mem (f := (·.hash)) hc
  exact mem_edges.mpr ⟨c, hc, rfl, hm, i, hi, he⟩

/-! ### the Kahn loop -/

/-- edges into `h` from parents that are not in `em` (not yet emitted) -/
def remDeg (E : List (Nat × Nat)) (em : List Nat) (h : Nat) : Nat :=
  E.countP fun e => e.2 == h && !em.contains e.1

theorem remDeg_nil (E : List (Nat × Nat)) (h : Nat) : remDeg E [] h = degOf E h := by
  simp [remDeg, degOf]

theorem count_outOf (E : List (Nat × Nat)) (n h : Nat) :
    (outOf E n).count h = E.countP fun e => e.1 == n && e.2 == h := by
  induction E with
  | nil => rfl
  | cons e E ih =>
    obtain ⟨a, b⟩ := e
    simp only [outOf, List.filter_cons, List.countP_cons] at ih ⊢
    by_cases h1 : a = n <;> by_cases h2 : b = h <;> simp [h1, h2, ih]

/-- Emitting `n` (not emitted before) moves exactly the edges `n → h` out of the remaining in-degree of `h`. -/
theorem remDeg_emit (E : List (Nat × Nat)) (em : List Nat) (n h : Nat) (hn : n ∉ em) :
    remDeg E em h = remDeg E (em ++ [n]) h + (outOf E n).count h := by
  rw [count_outOf]
  unfold remDeg
  induction E with
  | nil => rfl
  | cons e E ih =>
    obtain ⟨a, b⟩ := e
    simp only [List.countP_cons, ih]
    by_cases h1 : a = n
    · subst h1
      by_cases h2 : b = h <;> simp [h2, hn] <;> omega
    · by_cases h2 : b = h
      · by_cases h3 : a ∈ em <;> simp [h1, h2, h3] <;> omega
      · simp [h1, h2]

/-- parents-first so far: every edge into an emitted node comes from an earlier emitted node -/
def Closed (E : List (Nat × Nat)) (l : List Nat) : Prop :=
  ∀ e ∈ E, e.2 ∈ l → l.idxOf e.1 < l.idxOf e.2

theorem Closed.snoc {E : List (Nat × Nat)} {l : List Nat} (hc : Closed E l) {x : Nat} (hx : x ∉ l)
    (hpar : ∀ e ∈ E, e.2 = x → e.1 ∈ l) : Closed E (l ++ [x]) := by
  intro e he hmem
  rcases List.mem_append.mp hmem with h2 | h2
  · have hlt := hc e he h2
    have h1 : e.1 ∈ l := by
      apply List.idxOf_lt_length_iff.mp
      exact Nat.lt_trans hlt (List.idxOf_lt_length_iff.mpr h2)
    rw [List.idxOf_append, List.idxOf_append]
    simpa [h1, h2] using hlt
  · simp only [List.mem_singleton] at h2
    have h1 : e.1 ∈ l := hpar e he h2
    rw [List.idxOf_append, List.idxOf_append, h2]
    simp only [h1, hx, if_true, if_false]
    have := List.idxOf_lt_length_iff.mpr h1
    omega

/-- Invariant of `DependencySort`'s loop.  `sorted` = emitted so far, `s` = work list, `rest` = the out-edges of
the transaction emitted last that the inner `for` loop has not visited yet. -/
structure LInv (S : List Tx) (g : Graph) (sorted s : List Tx) (rest : List Nat) : Prop where
  out : ∀ h, (g.get h).outEdges = outOf (edges S) h
  val : ∀ t ∈ S, (g.get t.hash).value = some t
  deg : ∀ h, (g.get h).inDegree = remDeg (edges S) (hashes sorted) h + rest.count h
  zero : ∀ t ∈ S, (t.hash ∈ hashes sorted ∨ t.hash ∈ hashes s) ↔ (g.get t.hash).inDegree = 0
  mem : ∀ t, t ∈ sorted ∨ t ∈ s → t ∈ S
  nodup : (hashes sorted ++ hashes s).Nodup
  restH : ∀ m ∈ rest, ∃ t ∈ S, t.hash = m
  closed : Closed (edges S) (hashes sorted)

/-- popping the head of the work list and appending it to `sorted` -/
theorem LInv.pop {S : List Tx} {g : Graph} {sorted s : List Tx} {tx : Tx}
    (h : LInv S g sorted (tx :: s) []) : LInv S g (sorted ++ [tx]) s (outOf (edges S) tx.hash) := by
  have hnd := h.nodup
  simp only [hashes, List.map_cons] at hnd
  have hn : tx.hash ∉ hashes sorted := by
    intro hmem
    have := (List.nodup_append.mp hnd).2.2 _ hmem _ List.mem_cons_self
    exact this rfl
  have htxS : tx ∈ S := h.mem tx (Or.inr List.mem_cons_self)
  refine ⟨h.out, h.val, ?_, ?_, ?_, ?_, ?_, ?_⟩
  · intro x
    have := h.deg x
    simp only [List.count_nil, Nat.add_zero] at this
    rw [this]
    simpa [hashes] using remDeg_emit (edges S) (hashes sorted) tx.hash x hn
  · intro t ht
    rw [← h.zero t ht]
    simp only [hashes, List.map_append, List.map_cons, List.map_nil, List.mem_append,
      List.mem_cons, List.not_mem_nil, or_false]
    constructor
    · rintro ((h1 | h1) | h1)
      · exact Or.inl h1
      · exact Or.inr (Or.inl h1)
      · exact Or.inr (Or.inr h1)
    · rintro (h1 | h1 | h1)
      · exact Or.inl (Or.inl h1)
      · exact Or.inl (Or.inr h1)
      · exact Or.inr h1
  · intro t ht
    apply h.mem
    rcases ht with ht | ht
    · rcases List.mem_append.mp ht with ht | ht
      · exact Or.inl ht
      · simp only [List.mem_singleton] at ht
        subst ht
        exact Or.inr List.mem_cons_self
    · exact Or.inr (List.mem_cons_of_mem _ ht)
  · simpa [hashes, List.append_assoc] using hnd
  · intro m hm
    have := mem_outOf.mp hm
    exact edges_snd_mem this
  · have hz : (g.get tx.hash).inDegree = 0 :=
      (h.zero tx htxS).mp (Or.inr (by simp [hashes]))
    have hd := h.deg tx.hash
    rw [hz] at hd
    simp only [List.count_nil, Nat.add_zero] at hd
    have hall := List.countP_eq_zero.mp hd.symm
    have : Closed (edges S) (hashes sorted ++ [tx.hash]) := by
      apply h.closed.snoc hn
      intro e he h2
      have := hall e he
      simpa [h2] using this
    simpa [hashes] using this

theorem get_setDeg (g : Graph) (x y k : Nat) :
    ((g.set x ⟨(g.get x).value, (g.get x).outEdges, k⟩).get y).value = (g.get y).value ∧
    ((g.set x ⟨(g.get x).value, (g.get x).outEdges, k⟩).get y).outEdges = (g.get y).outEdges ∧
    ((g.set x ⟨(g.get x).value, (g.get x).outEdges, k⟩).get y).inDegree
      = if x = y then k else (g.get y).inDegree := by
  rw [Graph.get_set]
  by_cases h : x = y
  · subst h; simp
  · simp [h]

theorem relax_eq {g : Graph} {s : List Tx} {m : Nat} (hne : (g.get m).inDegree ≠ 0) :
    relax (g, s) m = (g.set m ⟨(g.get m).value, (g.get m).outEdges, (g.get m).inDegree - 1⟩,
      if (g.get m).inDegree - 1 = 0 then ((g.get m).value.elim s fun v => s ++ [v]) else s) := by
  unfold Kahn.relax
  simp only [hne, ne_eq, not_false_eq_true, if_true]
  by_cases hz : (g.get m).inDegree - 1 = 0
  · simp only [hz, if_true]
    cases (g.get m).value <;> rfl
  · simp only [hz, if_false]

/-- one iteration of the inner `for _, mHash := range n.outEdges` -/
theorem LInv.relaxStep {S : List Tx} {g : Graph} {sorted s : List Tx} {m : Nat} {rest : List Nat}
    (h : LInv S g sorted s (m :: rest)) :
    LInv S (relax (g, s) m).1 sorted (relax (g, s) m).2 rest := by
  obtain ⟨t, htS, htm⟩ := h.restH m List.mem_cons_self
  subst htm
  have hd := h.deg t.hash
  simp only [List.count_cons_self] at hd
  have hv := h.val t htS
  have hne : (g.get t.hash).inDegree ≠ 0 := by omega
  have hnot : ¬ (t.hash ∈ hashes sorted ∨ t.hash ∈ hashes s) := fun hc => hne ((h.zero t htS).mp hc)
  have hrest : ∀ m ∈ rest, ∃ t ∈ S, t.hash = m := fun m hm => h.restH m (List.mem_cons_of_mem _ hm)
  have hdeg : ∀ x, ((g.set t.hash ⟨(g.get t.hash).value, (g.get t.hash).outEdges,
      (g.get t.hash).inDegree - 1⟩).get x).inDegree
        = remDeg (edges S) (hashes sorted) x + rest.count x := by
    intro x
    rw [(get_setDeg g t.hash x _).2.2]
    by_cases hx : t.hash = x
    · subst hx
      simp only [if_true]
      omega
    · simp only [hx, if_false]
      rw [h.deg x, List.count_cons_of_ne hx]
  rw [relax_eq hne]
  by_cases hz : (g.get t.hash).inDegree - 1 = 0
  · have hq : (if (g.get t.hash).inDegree - 1 = 0 then ((g.get t.hash).value.elim s fun v => s ++ [v]) else s)
        = s ++ [t] := by
      rw [if_pos hz, hv]; rfl
    rw [hq]
    refine ⟨?_, ?_, hdeg, ?_, ?_, ?_, hrest, h.closed⟩
    · intro x; rw [(get_setDeg g t.hash x _).2.1]; exact h.out x
    · intro u hu; rw [(get_setDeg g t.hash u.hash _).1]; exact h.val u hu
    · intro u hu
      rw [(get_setDeg g t.hash u.hash _).2.2]
      by_cases hx : t.hash = u.hash
      · rw [hx] at hz
        simp [hx, hz, hashes]
      · simp only [hx, if_false]
        rw [← h.zero u hu]
        simp [hashes, Ne.symm hx]
    · intro u hu
      rcases hu with hu | hu
      · exact h.mem u (Or.inl hu)
      · rcases List.mem_append.mp hu with hu | hu
        · exact h.mem u (Or.inr hu)
        · simp only [List.mem_singleton] at hu
          subst hu
          exact htS
    · have := h.nodup
      simp only [hashes, List.map_append, List.map_cons, List.map_nil, ← List.append_assoc]
      rw [List.nodup_append]
      refine ⟨this, by simp, ?_⟩
      intro a ha b hb
      simp only [List.mem_singleton] at hb
      subst hb
      intro hab
      subst hab
      exact hnot (List.mem_append.mp ha)
  · simp only [if_neg hz]
    refine ⟨?_, ?_, hdeg, ?_, h.mem, h.nodup, hrest, h.closed⟩
    · intro x; rw [(get_setDeg g t.hash x _).2.1]; exact h.out x
    · intro u hu; rw [(get_setDeg g t.hash u.hash _).1]; exact h.val u hu
    · intro u hu
      rw [(get_setDeg g t.hash u.hash _).2.2]
      by_cases hx : t.hash = u.hash
      · simp only [hx, if_true]
        rw [← hx]
        constructor
        · intro hc; exact absurd hc hnot
        · intro hc; exact absurd hc hz
      · simp only [hx, if_false]
        exact h.zero u hu

/-- the whole inner loop -/
theorem LInv.relaxAll {S : List Tx} {sorted : List Tx} (rest : List Nat) {g : Graph} {s : List Tx}
    (h : LInv S g sorted s rest) :
    LInv S (rest.foldl relax (g, s)).1 sorted (rest.foldl relax (g, s)).2 [] := by
  induction rest generalizing g s with
  | nil => exact h
  | cons m rest ih => exact ih h.relaxStep

theorem LInv.length_le {S : List Tx} {g : Graph} {sorted s : List Tx} {rest : List Nat}
    (h : LInv S g sorted s rest) : sorted.length + s.length ≤ S.length := by
  have := List.Nodup.length_le_of_subset h.nodup (l₂ := hashes S) (by
    intro x hx
    rcases List.mem_append.mp hx with hx | hx
    · obtain ⟨t, ht, rfl⟩ := List.mem_map.mp hx
      exact List.mem_map_of_mem (h.mem t (Or.inl ht))
    · obtain ⟨t, ht, rfl⟩ := List.mem_map.mp hx
      exact List.mem_map_of_mem (h.mem t (Or.inr ht)))
  simpa [hashes] using this

/-- The `for len(s) != 0` loop ends with an empty work list (the fuel is never exhausted) in a state that still
satisfies the invariant. -/
theorem sortLoop_inv {S : List Tx} (fuel : Nat) {g : Graph} {s sorted : List Tx}
    (h : LInv S g sorted s []) (hf : S.length + 1 ≤ fuel + sorted.length) :
    ∃ g', LInv S g' (sortLoop fuel g s sorted) [] [] := by
  induction fuel generalizing g s sorted with
  | zero =>
    have := h.length_le
    omega
  | succ fuel ih =>
    cases s with
    | nil => exact ⟨g, h⟩
    | cons tx s =>
      simp only [sortLoop]
      have h1 := h.pop
      rw [← h.out tx.hash] at h1
      have h2 := h1.relaxAll
      apply ih h2
      simp only [List.length_append, List.length_singleton]
      omega

/-- When the work list is empty in an acyclic graph, everything has been emitted. -/
theorem LInv.complete {S : List Tx} {g : Graph} {out : List Tx} (h : LInv S g out [] [])
    (hd : Acyclic S) : ∀ t ∈ S, t.hash ∈ hashes out := by
  let R := (hashes S).filter fun x => !(hashes out).contains x
  have hR : R = [] := by
    apply Classical.byContradiction
    intro hne
    have hpar : ∀ x ∈ R, ∃ y ∈ R, (fun p c => (p, c) ∈ edges S) y x := by
      intro x hx
      have hx' := List.mem_filter.mp hx
      obtain ⟨t, ht, rfl⟩ := List.mem_map.mp hx'.1
      have hnot : t.hash ∉ hashes out := by simpa using hx'.2
      have hdeg : (g.get t.hash).inDegree ≠ 0 := by
        intro hz
        rcases (h.zero t ht).mpr hz with hc | hc
        · exact hnot hc
        · simp [hashes] at hc
      have hpos : 0 < remDeg (edges S) (hashes out) t.hash := by
        have := h.deg t.hash
        simp only [List.count_nil, Nat.add_zero] at this
        omega
      obtain ⟨e, he, hp⟩ := List.countP_pos_iff.mp hpos
      simp only [Bool.and_eq_true, beq_iff_eq, Bool.not_eq_true', List.contains_eq_mem,
        decide_eq_false_iff_not] at hp
      refine ⟨e.1, ?_, ?_⟩
      · apply List.mem_filter.mpr
        refine ⟨edges_fst_mem he, ?_⟩
        simpa using hp.2
      · show (e.1, t.hash) ∈ edges S
        rw [← hp.1]
        exact he
    obtain ⟨x, hx⟩ := exists_cycle_of_all_have_parent R _ hne hpar
    exact hd x hx
  intro t ht
  have := List.filter_eq_nil_iff.mp hR t.hash (List.mem_map_of_mem ht)
  simpa using this

/-! ### `graphRoots` and the whole function -/

theorem graphRoots_spec {S : List Tx} {G : Graph}
    (hval : ∀ t ∈ S, G.has t.hash = true ∧ (G.get t.hash).value = some t)
    (ro : List Nat) (hro : ∀ h ∈ ro, h ∈ hashes S) :
    hashes (graphRoots G ro) = ro.filter (fun h => (G.get h).inDegree == 0) ∧
      ∀ t ∈ graphRoots G ro, t ∈ S := by
  induction ro with
  | nil => exact ⟨rfl, fun t ht => by cases ht⟩
  | cons h ro ih =>
    obtain ⟨ih1, ih2⟩ := ih (fun x hx => hro x (List.mem_cons_of_mem _ hx))
    obtain ⟨t, ht, rfl⟩ := List.mem_map.mp (hro h List.mem_cons_self)
    obtain ⟨hhas, hv⟩ := hval t ht
    have hf := Graph.find?_of_has hhas
    unfold graphRoots at ih1 ih2 ⊢
    simp only [List.filterMap_cons, hf, hv, List.filter_cons]
    by_cases hz : (G.get t.hash).inDegree = 0
    · simp only [hz, if_true, beq_self_eq_true]
      refine ⟨by simp [hashes] at ih1 ⊢; exact ih1, ?_⟩
      intro u hu
      rcases List.mem_cons.mp hu with rfl | hu
      · exact ht
      · exact ih2 u hu
    · have hb : ((G.get t.hash).inDegree == 0) = false := by simpa using hz
      simp only [hz, if_false, hb, Bool.false_eq_true]
      exact ⟨ih1, ih2⟩

theorem LInv.init {S : List Tx} (hnd : (hashes S).Nodup) (hns : NoSelf S) {ro : List Nat}
    (hro : ro.Perm (hashes S)) : LInv S (makeGraph S) [] (graphRoots (makeGraph S) ro) [] := by
  have hinv := makeGraph_inv hnd hns
  obtain ⟨hr1, hr2⟩ := graphRoots_spec (S := S) (G := makeGraph S)
    (fun t ht => makeGraph_value hnd hns ht) ro (fun h hh => hro.mem_iff.mp hh)
  refine ⟨hinv.out, fun t ht => (makeGraph_value hnd hns ht).2, ?_, ?_, ?_, ?_, ?_, ?_⟩
  · intro h
    rw [hinv.deg h]
    simp [hashes, remDeg_nil]
  · intro t ht
    rw [hr1]
    have : t.hash ∈ ro := hro.mem_iff.mpr (List.mem_map_of_mem ht)
    simp [hashes, List.mem_filter, this]
  · intro t ht
    rcases ht with ht | ht
    · cases ht
    · exact hr2 t ht
  · rw [hr1]
    simpa [hashes] using (hro.nodup_iff.mpr hnd).sublist List.filter_sublist
  · intro m hm; cases hm
  · intro e _ h2; cases h2

/-- Without any acyclicity assumption: what is returned are distinct members of `S`, parents first. -/
theorem dependencySort_sound {S : List Tx} (hnd : (hashes S).Nodup) (hns : NoSelf S) {ro : List Nat}
    (hro : ro.Perm (hashes S)) :
    (∀ t ∈ dependencySort S ro, t ∈ S) ∧ (hashes (dependencySort S ro)).Nodup ∧
      Closed (edges S) (hashes (dependencySort S ro)) := by
  have h0 := LInv.init hnd hns hro
  unfold dependencySort
  simp only
  split
  · rename_i hlen
    refine ⟨fun t ht => h0.mem t (Or.inr ht), by simpa [hashes] using h0.nodup, ?_⟩
    -- every node has in-degree 0, so there is no edge at all
    intro e he h2
    exfalso
    obtain ⟨t, ht, hte⟩ := edges_snd_mem he
    have hz : ((makeGraph S).get t.hash).inDegree = 0 := (h0.zero t ht).mp (Or.inr (hte ▸ h2))
    have hd := (makeGraph_inv hnd hns).deg t.hash
    rw [hz] at hd
    have := List.countP_eq_zero.mp hd.symm e he
    simp [hte] at this
  · obtain ⟨g', h1⟩ := sortLoop_inv (S := S) (S.length + 1) h0 (by simp)
    exact ⟨fun t ht => h1.mem t (Or.inl ht), by simpa [hashes] using h1.nodup, h1.closed⟩

/-- With acyclicity nothing is left behind. -/
theorem dependencySort_complete {S : List Tx} (hnd : (hashes S).Nodup) (hd : Acyclic S) {ro : List Nat}
    (hro : ro.Perm (hashes S)) : ∀ t ∈ S, t.hash ∈ hashes (dependencySort S ro) := by
  have hns := hd.noSelf
  have h0 := LInv.init hnd hns hro
  unfold dependencySort
  simp only
  split
  · rename_i hlen
    obtain ⟨hr1, _⟩ := graphRoots_spec (S := S) (G := makeGraph S)
      (fun t ht => makeGraph_value hnd hns ht) ro (fun h hh => hro.mem_iff.mp hh)
    have hl : (ro.filter fun h => ((makeGraph S).get h).inDegree == 0).length = ro.length := by
      rw [← hr1, hro.length_eq]
      simpa [hashes] using hlen
    have hall := List.filter_eq_self.mpr (List.length_filter_eq_length_iff.mp hl)
    intro t ht
    rw [hr1, hall]
    exact hro.mem_iff.mpr (List.mem_map_of_mem ht)
  · obtain ⟨g', h1⟩ := sortLoop_inv (S := S) (S.length + 1) h0 (by simp)
    exact h1.complete hd

/-! ### independence of the listing order of `S` -/

theorem hashes_perm {S S' : List Tx} (hp : S.Perm S') : (hashes S).Perm (hashes S') := by
  unfold hashes; exact hp.map _

theorem nodup_of_hashes {l : List Tx} (h : (hashes l).Nodup) : l.Nodup :=
  List.Pairwise.of_map (·.hash) (fun _ _ hne hab => hne (hab ▸ rfl)) h

theorem count_eq_one_of_mem {α} [BEq α] [LawfulBEq α] {l : List α} (hl : l.Nodup) {a : α} (ha : a ∈ l) :
    l.count a = 1 := by
  rw [hl.count]; simp [ha]

theorem mem_edges_perm {S S' : List Tx} (hp : S.Perm S') {e : Nat × Nat} : e ∈ edges S ↔ e ∈ edges S' := by
  obtain ⟨p, c⟩ := e
  have hh : ∀ x, x ∈ hashes S ↔ x ∈ hashes S' := fun x => (hashes_perm hp).mem_iff
  simp only [mem_edges, hh]
  constructor
  · rintro ⟨t, ht, r⟩; exact ⟨t, hp.mem_iff.mp ht, r⟩
  · rintro ⟨t, ht, r⟩; exact ⟨t, hp.mem_iff.mpr ht, r⟩

theorem Acyclic.perm {S S' : List Tx} (hp : S.Perm S') (hd : Acyclic S) : Acyclic S' := by
  intro h hr
  apply hd h
  exact Reach.mono (fun a b hab => Reach.single ((mem_edges_perm hp).mpr hab)) hr

/-- a ranking (e.g. creation time) that strictly increases along every spend edge witnesses acyclicity -/
theorem acyclic_of_rank {S : List Tx} (rank : Nat → Nat)
    (hr : ∀ e ∈ edges S, rank e.1 < rank e.2) : Acyclic S := by
  have key : ∀ a b, Reach (fun p c => (p, c) ∈ edges S) a b → rank a < rank b := by
    intro a b hab
    induction hab with
    | single h => exact hr _ h
    | cons h _ ih => exact Nat.lt_trans (hr _ h) ih
  intro h hh
  exact Nat.lt_irrefl _ (key h h hh)

/-! ### acyclicity is decidable (peeling: repeatedly drop the hashes with no remaining parent) -/

/-- one peeling round: keep the hashes that still have a parent among the kept ones -/
def peelStep (E : List (Nat × Nat)) (R : List Nat) : List Nat :=
  R.filter fun x => R.any fun y => E.contains (y, x)

def peel (E : List (Nat × Nat)) : Nat → List Nat → List Nat
  | 0, R => R
  | k + 1, R => peel E k (peelStep E R)

/-- Decision procedure for `Acyclic` (`acyclicB_iff`): after `|S|` peeling rounds nothing is left. -/
def acyclicB (S : List Tx) : Bool := (peel (edges S) S.length (hashes S)).isEmpty

theorem mem_peelStep {E : List (Nat × Nat)} {R : List Nat} {x : Nat} :
    x ∈ peelStep E R ↔ x ∈ R ∧ ∃ y ∈ R, (y, x) ∈ E := by
  simp [peelStep, List.mem_filter]

theorem Reach.last {r : Nat → Nat → Prop} {a b : Nat} (h : Reach r a b) :
    ∃ y, r y b ∧ (a = y ∨ Reach r a y) := by
  induction h with
  | single h => exact ⟨_, h, Or.inl rfl⟩
  | cons h _ ih =>
    obtain ⟨y, hy, hor⟩ := ih
    refine ⟨y, hy, Or.inr ?_⟩
    rcases hor with rfl | hor
    · exact Reach.single h
    · exact Reach.cons h hor

theorem cycle_parent {r : Nat → Nat → Prop} {x : Nat} (h : Reach r x x) : ∃ y, r y x ∧ Reach r y y := by
  obtain ⟨y, hy, hor⟩ := h.last
  refine ⟨y, hy, ?_⟩
  rcases hor with rfl | hor
  · exact Reach.single hy
  · exact Reach.cons hy hor

theorem peel_keeps_cycles {E : List (Nat × Nat)} (k : Nat) (R : List Nat)
    (hR : ∀ x, Reach (fun p c => (p, c) ∈ E) x x → x ∈ R) :
    ∀ x, Reach (fun p c => (p, c) ∈ E) x x → x ∈ peel E k R := by
  induction k generalizing R with
  | zero => exact hR
  | succ k ih =>
    apply ih
    intro x hx
    obtain ⟨y, hyx, hy⟩ := cycle_parent hx
    exact mem_peelStep.mpr ⟨hR x hx, y, hR y hy, hyx⟩

theorem peelStep_length_lt {E : List (Nat × Nat)} {R : List Nat} (hne : R ≠ [])
    (hac : ∀ h, ¬ Reach (fun p c => (p, c) ∈ E) h h) : (peelStep E R).length < R.length := by
  have hle : (peelStep E R).length ≤ R.length := List.length_filter_le _ _
  apply Nat.lt_of_le_of_ne hle
  intro heq
  have hall := List.length_filter_eq_length_iff.mp heq
  obtain ⟨x, hx⟩ := exists_cycle_of_all_have_parent R (fun p c => (p, c) ∈ E) hne (by
    intro x hx
    have := hall x hx
    simp only [List.any_eq_true, List.contains_iff_mem] at this
    exact this)
  exact hac x hx

theorem peel_length_le {E : List (Nat × Nat)} (hac : ∀ h, ¬ Reach (fun p c => (p, c) ∈ E) h h)
    (k : Nat) (R : List Nat) : (peel E k R).length ≤ R.length - k := by
  induction k generalizing R with
  | zero => exact Nat.le_refl _
  | succ k ih =>
    have h1 := ih (peelStep E R)
    simp only [peel]
    by_cases hne : R = []
    · subst hne
      simpa [peelStep] using h1
    · have := peelStep_length_lt hne hac
      omega

theorem acyclicB_iff (S : List Tx) : acyclicB S = true ↔ Acyclic S := by
  unfold acyclicB
  rw [List.isEmpty_iff]
  constructor
  · intro hnil h hh
    have hmem : ∀ x, Reach (fun p c => (p, c) ∈ edges S) x x → x ∈ hashes S := by
      intro x hx
      obtain ⟨y, hyx, _⟩ := cycle_parent hx
      obtain ⟨t, ht, hte⟩ := edges_snd_mem hyx
      have hte' : t.hash = x := hte
      exact hte' ▸ List.mem_map_of_mem ht
    have := peel_keeps_cycles S.length (hashes S) hmem h hh
    rw [hnil] at this
    cases this
  · intro hac
    have := peel_length_le hac S.length (hashes S)
    have hl : (hashes S).length = S.length := by simp [hashes]
    apply List.eq_nil_of_length_eq_zero
    omega

instance (S : List Tx) : Decidable (Acyclic S) := decidable_of_iff _ (acyclicB_iff S)

end Kahn
