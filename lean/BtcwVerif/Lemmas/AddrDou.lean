/-
C05 support: the derive-on-unlock invariant `DouOK` (every queued derive-on-unlock entry belongs to a cached
account) carried through EVERY operation of the AddrLock model, brackets included.

`DouExt m m'` is the frame relation every primitive satisfies: the set of cached account numbers only grows (the model
has no InvalidateAccountCache; a restart builds a fresh, empty memory), and every derive-on-unlock entry of `m'` is an
old entry or belongs to an account cached in `m'`.
-/
import BtcwVerif.Lemmas.AddrLock
namespace AddrLock

/-- is account `a` of scope `sc` in the account cache? -/
def cachedA (m : Mem) (sc a : Nat) : Bool := (aget (m.scopes sc).acctInfo a).isSome

/-- every address queued for derive-on-unlock belongs to an account that is in the account cache -/
def DouOK (m : Mem) : Prop :=
  ∀ sc, ∀ e ∈ (m.scopes sc).dou, (aget (m.scopes sc).acctInfo e.acct).isSome = true

structure DouExt (m m' : Mem) : Prop where
  keys : ∀ sc a, cachedA m sc a = true → cachedA m' sc a = true
  dou  : ∀ sc e, e ∈ (m'.scopes sc).dou → e ∈ (m.scopes sc).dou ∨ cachedA m' sc e.acct = true

theorem DouExt.refl (m : Mem) : DouExt m m := ⟨fun _ _ h => h, fun _ _ h => Or.inl h⟩

theorem DouExt.trans {a b c : Mem} (h1 : DouExt a b) (h2 : DouExt b c) : DouExt a c :=
  ⟨fun sc x h => h2.keys sc x (h1.keys sc x h),
   fun sc e he => by
     rcases h2.dou sc e he with h | h
     · rcases h1.dou sc e h with h | h
       · exact Or.inl h
       · exact Or.inr (h2.keys sc _ h)
     · exact Or.inr h⟩

theorem DouExt.ok {m m' : Mem} (h : DouExt m m') (hd : DouOK m) : DouOK m' := by
  intro sc e he
  rcases h.dou sc e he with h1 | h1
  · exact h.keys sc _ (hd sc e h1)
  · exact h1

theorem douExt_scopes {m m' : Mem} (h : m'.scopes = m.scopes) : DouExt m m' :=
  ⟨fun sc a hc => by simpa [cachedA, h] using hc, fun sc e he => Or.inl (by simpa [h] using he)⟩

/-- a scope update that keeps the set of cached accounts and the derive-on-unlock list -/
theorem douExt_updScope (m : Mem) (sc : Nat) (f : ScopeMem → ScopeMem)
    (h1 : ∀ a, (aget (f (m.scopes sc)).acctInfo a).isSome = (aget (m.scopes sc).acctInfo a).isSome)
    (h2 : ∀ e, e ∈ (f (m.scopes sc)).dou → e ∈ (m.scopes sc).dou) : DouExt m (m.updScope sc f) := by
  constructor
  · intro sc' a hc
    simp only [cachedA, Mem.updScope] at hc ⊢
    by_cases hs : sc' = sc
    · subst hs; simp only [if_true]; rw [h1]; exact hc
    · simp only [hs, if_false]; exact hc
  · intro sc' e he
    simp only [Mem.updScope] at he
    by_cases hs : sc' = sc
    · subst hs; simp only [if_true] at he; exact Or.inl (h2 e he)
    · simp only [hs, if_false] at he; exact Or.inl he

theorem aget_map_isSome {β} (l : List (Nat × β)) (f : Nat × β → β) (k : Nat) :
    (aget (l.map fun p => (p.1, f p)) k).isSome = (aget l k).isSome := by
  induction l with
  | nil => rfl
  | cons p t ih =>
    obtain ⟨k', v⟩ := p
    by_cases hk : k' = k <;> simp [aget, hk, ih]

theorem aget_aset_isSome {β} (l : List (Nat × β)) (k k' : Nat) (v : β) (h : (aget l k').isSome = true) :
    (aget (aset l k v) k').isSome = true := by
  rw [aget_aset]; split
  · rfl
  · exact h

/-! ### cache-filling primitives -/

theorem loadAcctRow_scopes (m : Mem) (sc acct : Nat) (row : AcctRow) :
    (∀ sc', sc' ≠ sc → (loadAcctRow m sc acct row).scopes sc' = m.scopes sc') ∧
    (∃ ai, ((loadAcctRow m sc acct row).scopes sc).acctInfo = aset (m.scopes sc).acctInfo acct ai) ∧
    (∀ e, e ∈ ((loadAcctRow m sc acct row).scopes sc).dou → e ∈ (m.scopes sc).dou ∨ e.acct = acct) := by
  unfold loadAcctRow keyToManaged
  by_cases hp : (!m.locked && !m.watchOnly && !row.wo) = true
  · simp only [hp, if_true]
    refine ⟨fun sc' hne => by simp [Mem.updScope, Mem.alloc, hne], ⟨_, by simp [Mem.updScope, Mem.alloc]; rfl⟩, ?_⟩
    intro e he
    simp [Mem.updScope, Mem.alloc] at he
    exact Or.inl he
  · simp only [hp]
    refine ⟨fun sc' hne => by simp [Mem.updScope, Mem.alloc, hne], ⟨_, by simp [Mem.updScope, Mem.alloc]; rfl⟩, ?_⟩
    intro e he
    simp [Mem.updScope, Mem.alloc] at he
    rcases he with he | he | he
    · exact Or.inl he
    · exact Or.inr (by rw [he])
    · exact Or.inr (by rw [he])

theorem douExt_loadAcctRow (m : Mem) (sc acct : Nat) (row : AcctRow) :
    DouExt m (loadAcctRow m sc acct row) ∧ cachedA (loadAcctRow m sc acct row) sc acct = true := by
  obtain ⟨h1, ⟨ai, h2⟩, h3⟩ := loadAcctRow_scopes m sc acct row
  have hc : cachedA (loadAcctRow m sc acct row) sc acct = true := by
    simp only [cachedA]; rw [h2, aget_aset_self]; rfl
  refine ⟨⟨?_, ?_⟩, hc⟩
  · intro sc' a hca
    by_cases hs : sc' = sc
    · subst hs; simp only [cachedA] at hca ⊢; rw [h2]; exact aget_aset_isSome _ _ _ _ hca
    · simp only [cachedA] at hca ⊢; rw [h1 sc' hs]; exact hca
  · intro sc' e he
    by_cases hs : sc' = sc
    · subst hs
      rcases h3 e he with h | h
      · exact Or.inl h
      · right; rw [h]; exact hc
    · rw [h1 sc' hs] at he; exact Or.inl he

theorem douExt_loadAcct {d : Disk} {m m1 : Mem} {sc a : Nat} (h : loadAcct d m sc a = .ok m1) :
    DouExt m m1 ∧ cachedA m1 sc a = true := by
  unfold loadAcct at h
  split at h
  · rename_i x hx; cases h; exact ⟨DouExt.refl _, by simp [cachedA, hx]⟩
  · split at h
    · cases h
    · split at h
      · cases h
      · split at h
        · cases h
        · cases h; exact douExt_loadAcctRow ..

theorem douExt_alloc (m : Mem) (o : Obj) : DouExt m (m.alloc o).1 := douExt_scopes rfl
theorem douExt_setObj (m : Mem) (i : Nat) (f : Obj → Obj) : DouExt m (m.setObj i f) := douExt_scopes rfl

/-- `keyToManaged` for an account that is cached -/
theorem douExt_ktm (m : Mem) (sc a b i : Nat) (p : Bool) (hc : cachedA m sc a = true) :
    DouExt m (keyToManaged m sc a b i p).1 := by
  unfold keyToManaged
  split
  · exact douExt_alloc ..
  · constructor
    · intro sc' x hx
      simp only [cachedA, Mem.updScope, Mem.alloc] at hx ⊢
      by_cases hs : sc' = sc
      · subst hs; simpa using hx
      · simpa [hs] using hx
    · intro sc' e he
      simp only [Mem.updScope, Mem.alloc] at he
      by_cases hs : sc' = sc
      · subst hs
        simp only [if_true, List.mem_append, List.mem_singleton] at he
        rcases he with he | he
        · exact Or.inl he
        · right; rw [he]; simpa [cachedA, Mem.updScope, Mem.alloc] using hc
      · simp only [hs, if_false] at he; exact Or.inl he

theorem douExt_chainRow {d m sc a b i r} (h : chainRowToManaged d m sc a b i = .ok r) : DouExt m r.1 := by
  unfold chainRowToManaged at h
  split at h
  · cases h
  · rename_i m1 hl
    split at h
    · cases h
    · cases h
      exact (douExt_loadAcct hl).1.trans (douExt_ktm _ _ _ _ _ _ (douExt_loadAcct hl).2)

/-- adding an entry to the address cache -/
theorem douExt_addAddr (m : Mem) (sc : Nat) (g : List (AKey × Nat) → List (AKey × Nat)) :
    DouExt m (m.updScope sc fun s => { s with addrs := g s.addrs }) :=
  douExt_updScope m sc _ (fun _ => rfl) (fun _ h => h)

theorem douExt_loadAndCache {d m sc k r} (h : loadAndCache d m sc k = .ok r) : DouExt m r.1 := by
  unfold loadAndCache at h
  split at h
  · cases h
  · dsimp only at h
    split at h
    · split at h
      · cases h
      · rename_i r' hc; cases h
        exact (douExt_chainRow hc).trans (douExt_addAddr _ _ (fun l => aset l _ _))
    · cases h
    · cases h; exact (douExt_alloc _ _).trans (douExt_addAddr _ _ (fun l => aset l _ _))
    · cases h; exact (douExt_alloc _ _).trans (douExt_addAddr _ _ (fun l => aset l _ _))
    · cases h; exact (douExt_alloc _ _).trans (douExt_addAddr _ _ (fun l => aset l _ _))

theorem douExt_addressOf {d m sc k r} (h : addressOf d m sc k = .ok r) : DouExt m r.1 := by
  unfold addressOf at h
  split at h
  · cases h; exact DouExt.refl _
  · exact douExt_loadAndCache h

/-! ### nextAddresses / extendAddresses / the OnCommit closure -/

theorem mkAddrs_scopes (m : Mem) (a b : Nat) (p : Bool) (start n : Nat) : (mkAddrs m a b p start n).1.scopes = m.scopes := by
  induction n generalizing m start with
  | zero => rfl
  | succ n ih => simp only [mkAddrs]; rw [ih]; rfl

theorem mkAddrs_acct (m : Mem) (a b : Nat) (p : Bool) (start n : Nat) : ∀ e ∈ (mkAddrs m a b p start n).2, e.acct = a := by
  induction n generalizing m start with
  | zero => intro e he; simp [mkAddrs] at he
  | succ n ih =>
    intro e he
    simp only [mkAddrs, List.mem_cons] at he
    rcases he with he | he
    · rw [he]
    · exact ih _ _ e he

theorem douExt_mkAddrs (m : Mem) (a b : Nat) (p : Bool) (start n : Nat) : DouExt m (mkAddrs m a b p start n).1 :=
  douExt_scopes (mkAddrs_scopes ..)

theorem douExt_putAndLoad (sc : Nat) (es : List Dou) (d : Disk) (m : Mem) : DouExt m (putAndLoad sc es d m).2.1 := by
  induction es generalizing d m with
  | nil => exact DouExt.refl _
  | cons e es ih =>
    simp only [putAndLoad]
    split
    · exact DouExt.refl _
    · split
      · exact DouExt.refl _
      · rename_i r hr; exact (douExt_loadAndCache hr).trans (ih _ _)

/-- what the invariant needs to know about a pending OnCommit closure: its account is cached and every address it
will register belongs to that account -/
def PendOK (m : Mem) (p : Pend) : Prop :=
  cachedA m p.scope p.acct = true ∧ ∀ e ∈ p.infos, e.acct = p.acct

theorem PendOK.ext {m m' : Mem} {p : Pend} (h : PendOK m p) (he : DouExt m m') : PendOK m' p :=
  ⟨he.keys _ _ h.1, h.2⟩

theorem douExt_nextAddresses (d : Disk) (m : Mem) (sc a n : Nat) (int : Bool) :
    DouExt m (nextAddresses d m sc a n int).mem ∧
    ∀ p, (nextAddresses d m sc a n int).pend = some p → PendOK (nextAddresses d m sc a n int).mem p := by
  unfold nextAddresses
  split
  · exact ⟨DouExt.refl _, fun p hp => by cases hp⟩
  · rename_i m1 hl
    have h1 := douExt_loadAcct hl
    split
    · exact ⟨h1.1, fun p hp => by cases hp⟩
    · rename_i info _
      dsimp only
      split
      · exact ⟨h1.1, fun p hp => by cases hp⟩
      · split
        · exact ⟨h1.1, fun p hp => by cases hp⟩
        · have key := douExt_putAndLoad sc
            (mkAddrs m1 a (brOf int) (!m1.locked && !(m1.watchOnly || !info.hasEnc)) (nextOf info int) n).2 d
            (mkAddrs m1 a (brOf int) (!m1.locked && !(m1.watchOnly || !info.hasEnc)) (nextOf info int) n).1
          have hm := douExt_mkAddrs m1 a (brOf int) (!m1.locked && !(m1.watchOnly || !info.hasEnc)) (nextOf info int) n
          split
          · rename_i hp; rw [hp] at key; simp only at key
            exact ⟨h1.1.trans (hm.trans key), fun p hp => by cases hp⟩
          · rename_i hp; rw [hp] at key; simp only at key
            refine ⟨h1.1.trans (hm.trans key), fun p hp => ?_⟩
            simp only [Option.some.injEq] at hp
            subst hp
            exact ⟨key.keys _ _ (hm.keys _ _ h1.2), fun e he => mkAddrs_acct _ _ _ _ _ _ e he⟩

theorem douExt_cacheNew (sc : Nat) (w : Bool) (m : Mem) (e : Dou) (hc : cachedA m sc e.acct = true) :
    DouExt m (cacheNew sc w m e) := by
  unfold cacheNew
  constructor
  · intro sc' x hx
    simp only [cachedA, Mem.updScope] at hx ⊢
    by_cases hs : sc' = sc
    · subst hs; simpa using hx
    · simpa [hs] using hx
  · intro sc' e' he
    simp only [Mem.updScope] at he
    by_cases hs : sc' = sc
    · subst hs
      simp only [if_true] at he
      split at he
      · simp only [List.mem_append, List.mem_singleton] at he
        rcases he with he | he
        · exact Or.inl he
        · right; rw [he]; simpa [cachedA, Mem.updScope] using hc
      · exact Or.inl he
    · simp only [hs, if_false] at he; exact Or.inl he

theorem douExt_foldl_cacheNew (sc : Nat) (w : Bool) (a : Nat) (es : List Dou) (m : Mem)
    (hes : ∀ e ∈ es, e.acct = a) (hc : cachedA m sc a = true) : DouExt m (es.foldl (cacheNew sc w) m) := by
  induction es generalizing m with
  | nil => exact DouExt.refl _
  | cons e es ih =>
    simp only [List.foldl]
    have h1 := douExt_cacheNew sc w m e (by rw [hes e List.mem_cons_self]; exact hc)
    exact h1.trans (ih _ (fun e' he' => hes e' (List.mem_cons_of_mem _ he')) (h1.keys _ _ hc))

theorem douExt_setInfo (m : Mem) (sc a : Nat) (ai : AcctInfo) :
    DouExt m (m.updScope sc fun s => { s with acctInfo := aset s.acctInfo a ai }) := by
  constructor
  · intro sc' x hx
    simp only [cachedA, Mem.updScope] at hx ⊢
    by_cases hs : sc' = sc
    · subst hs; simp only [if_true]; exact aget_aset_isSome _ _ _ _ hx
    · simpa [hs] using hx
  · intro sc' e he
    simp only [Mem.updScope] at he
    by_cases hs : sc' = sc
    · subst hs; simp only [if_true] at he; exact Or.inl he
    · simp only [hs, if_false] at he; exact Or.inl he

theorem douExt_runPend (cfg : Cfg) (m : Mem) (p : Pend) (hp : PendOK m p) : DouExt m (runPend cfg m p) := by
  unfold runPend
  dsimp only
  have h0 : ∀ m0 : Mem, m0.scopes = m.scopes →
      DouExt m (p.infos.foldl (cacheNew p.scope p.watchOnly) m0) := by
    intro m0 hm0
    have hx := douExt_scopes hm0
    exact hx.trans (douExt_foldl_cacheNew _ _ p.acct _ _ hp.2 (hx.keys _ _ hp.1))
  have hm0 : (if (cfg.f13 && m.locked) = true then
      { m with heap := fun id =>
          if (p.infos.any (fun e => e.obj == id) && (m.heap id).kind == .managed) = true then { m.heap id with ct := false }
          else m.heap id }
      else m).scopes = m.scopes := by split <;> rfl
  split
  · exact (h0 _ hm0).trans (douExt_setInfo ..)
  · exact h0 _ hm0

theorem douExt_foldl_runPend (cfg : Cfg) (ps : List Pend) (m : Mem) (h : ∀ p ∈ ps, PendOK m p) :
    DouExt m (ps.foldl (runPend cfg) m) := by
  induction ps generalizing m with
  | nil => exact DouExt.refl _
  | cons p ps ih =>
    simp only [List.foldl]
    have h1 := douExt_runPend cfg m p (h p List.mem_cons_self)
    exact h1.trans (ih _ (fun q hq => (h q (List.mem_cons_of_mem _ hq)).ext h1))

theorem douExt_extend (cfg : Cfg) (d : Disk) (m : Mem) (sc a li : Nat) (int : Bool) :
    DouExt m (extendAddresses cfg d m sc a li int).2.1 := by
  unfold extendAddresses
  split
  · exact DouExt.refl _
  · rename_i m1 hl
    have h1 := douExt_loadAcct hl
    split
    · exact h1.1
    · rename_i info _
      dsimp only
      split
      · exact h1.1
      · split
        · exact h1.1
        · split
          · exact h1.1
          · have hm := douExt_mkAddrs m1 a (brOf int) (!m1.locked && !extWatch cfg m1 info) (nextOf info int)
              (li + 1 - nextOf info int)
            have hf := douExt_foldl_cacheNew sc (extWatch cfg m1 info) a _ _
              (mkAddrs_acct m1 a (brOf int) (!m1.locked && !extWatch cfg m1 info) (nextOf info int)
                (li + 1 - nextOf info int)) (hm.keys _ _ h1.2)
            split
            · exact h1.1.trans hm
            · split
              · exact h1.1.trans (hm.trans hf)
              · exact h1.1.trans (hm.trans (hf.trans (douExt_setInfo ..)))

/-! ### the remaining operations -/

theorem douExt_query (d : Disk) (m : Mem) (q : Query) : DouExt m (query d m q).1 := by
  cases q <;> simp only [query]
  · split
    · exact DouExt.refl _
    · rename_i r hr; exact douExt_addressOf hr
  · split
    · exact DouExt.refl _
    · split
      · exact DouExt.refl _
      · rename_i m1 hl; split <;> exact (douExt_loadAcct hl).1
  · split
    · exact DouExt.refl _
    · rename_i m1 hl; split
      · exact (douExt_loadAcct hl).1
      · split <;> exact (douExt_loadAcct hl).1
  · split <;> exact DouExt.refl _
  · split <;> exact DouExt.refl _
  · split
    · exact DouExt.refl _
    · rename_i r hr; exact douExt_addressOf hr
  · exact DouExt.refl _
  · split <;> exact DouExt.refl _

theorem douExt_privKeyObj (m : Mem) (id : Nat) : DouExt m (privKeyObj m id).1 := by
  unfold privKeyObj; dsimp only; repeat' split
  all_goals first | exact DouExt.refl _ | exact douExt_scopes rfl

theorem douExt_scriptObj (m : Mem) (id : Nat) : DouExt m (scriptObj m id).1 := by
  unfold scriptObj; dsimp only; repeat' split
  all_goals first | exact DouExt.refl _ | exact douExt_scopes rfl

theorem douExt_pkc (m : Mem) (sc : Nat) (g : List Path → List Path) :
    DouExt m (m.updScope sc fun s => { s with pkc := g s.pkc }) :=
  douExt_updScope m sc _ (fun _ => rfl) (fun _ h => h)

theorem douExt_deriveCache (cfg : Cfg) (m : Mem) (sc : Nat) (p : Path) : DouExt m (deriveCache cfg m sc p).1 := by
  unfold deriveCache; dsimp only; repeat' split
  all_goals first | exact DouExt.refl _ | (dsimp only; apply douExt_updScope <;> intros <;> first | rfl | assumption)

theorem douExt_derivePath (d : Disk) (m : Mem) (sc a b i : Nat) : DouExt m (derivePath d m sc a b i).1 := by
  unfold derivePath; split
  · exact DouExt.refl _
  · rename_i r hr; exact (douExt_chainRow hr).trans (douExt_privKeyObj ..)

theorem douExt_importKey (d : Disk) (m : Mem) (sc k : Nat) (p : Bool) : DouExt m (importKey d m sc k p).2.1 := by
  unfold importKey; dsimp only; repeat' split
  all_goals first | exact DouExt.refl _ | exact (douExt_alloc _ _).trans (douExt_addAddr _ _ (fun l => aset l _ _))

theorem douExt_importScript (d : Disk) (m : Mem) (sc kind sid : Nat) (p : Bool) :
    DouExt m (importScript d m sc kind sid p).2.1 := by
  unfold importScript; dsimp only; repeat' split
  all_goals first | exact DouExt.refl _ | exact (douExt_alloc _ _).trans (douExt_addAddr _ _ (fun l => aset l _ _))

theorem douExt_rename (d : Disk) (m : Mem) (sc a : Nat) (n : String) : DouExt m (renameAccount d m sc a n).2.1 := by
  unfold renameAccount; dsimp only; repeat' split
  all_goals first | exact DouExt.refl _ | exact douExt_setInfo ..

theorem douExt_markUsed (d : Disk) (m : Mem) (sc : Nat) (k : AKey) : DouExt m (markUsed d m sc k).2 :=
  douExt_addAddr m sc (fun l => adel l k)

theorem douExt_setSynced (d : Disk) (m : Mem) (h x : Nat) : DouExt m (setSyncedTo d m h x).2.1 := by
  unfold setSyncedTo; split
  · exact DouExt.refl _
  · exact douExt_scopes rfl

/-! ### lock / unlock / passphrase change / conversion -/

theorem douExt_lockMem (cfg : Cfg) (m : Mem) : DouExt m (lockMem cfg m) := by
  constructor
  · intro sc a h
    simp only [cachedA, lockMem, lockScope] at h ⊢
    rw [aget_map_isSome (m.scopes sc).acctInfo (fun p => { p.2 with keyPriv := false })]; exact h
  · intro sc e he; exact Or.inl he

theorem unlockAccts_keys (cfg : Cfg) (l l' : List (Nat × AcctInfo)) (h : unlockAccts cfg l = some l') :
    l'.map (·.1) = l.map (·.1) := by
  induction l generalizing l' with
  | nil => simp [unlockAccts] at h; subst h; rfl
  | cons p t ih =>
    obtain ⟨a, i⟩ := p
    simp only [unlockAccts] at h
    split at h
    · split at h
      · cases ht : unlockAccts cfg t with
        | none => simp [ht] at h
        | some t' => simp [ht] at h; subst h; simp [ih t' ht]
      · cases h
    · cases ht : unlockAccts cfg t with
      | none => simp [ht] at h
      | some t' => simp [ht] at h; subst h; simp [ih t' ht]

theorem aget_isSome_of_keys {β} (l l' : List (Nat × β)) (h : l'.map (·.1) = l.map (·.1)) (k : Nat) :
    (aget l' k).isSome = (aget l k).isSome := by
  induction l generalizing l' with
  | nil => cases l' with | nil => rfl | cons _ _ => simp at h
  | cons p t ih =>
    cases l' with
    | nil => simp at h
    | cons p' t' =>
      obtain ⟨k1, v1⟩ := p; obtain ⟨k2, v2⟩ := p'
      simp only [List.map_cons, List.cons.injEq] at h
      obtain ⟨hk, ht⟩ := h
      have hk : k2 = k1 := hk
      subst hk
      by_cases hkk : k2 = k
      · simp [aget, hkk]
      · simp [aget, hkk, ih t' ht]

theorem douExt_dropDou (m : Mem) (sc : Nat) : DouExt m (m.updScope sc fun s => { s with dou := s.dou.tail }) :=
  douExt_updScope m sc _ (fun _ => rfl) (fun _ h => List.mem_of_mem_tail h)

theorem douExt_unlockDou (cfg : Cfg) (d : Disk) (sc : Nat) (es : List Dou) (m : Mem) :
    DouExt m (unlockDou cfg d sc es m).1 := by
  induction es generalizing m with
  | nil => exact DouExt.refl _
  | cons e es ih =>
    simp only [unlockDou]
    split
    · exact DouExt.refl _
    · rename_i m1 hl
      have h1 := (douExt_loadAcct hl).1
      split
      · split
        · exact h1.trans ((douExt_dropDou _ _).trans (ih _))
        · exact h1
      · exact h1.trans ((douExt_setObj _ _ _).trans ((douExt_dropDou _ _).trans (ih _)))

theorem douExt_setAccts (m : Mem) (sc : Nat) (ai : List (Nat × AcctInfo))
    (h : ai.map (·.1) = (m.scopes sc).acctInfo.map (·.1)) :
    DouExt m (m.updScope sc fun s => { s with acctInfo := ai }) :=
  douExt_updScope m sc _ (fun a => aget_isSome_of_keys _ _ h a) (fun _ h => h)

theorem douExt_unlockScopes (cfg : Cfg) (d : Disk) (scs : List Nat) (m : Mem) :
    DouExt m (unlockScopes cfg d scs m).1 := by
  induction scs generalizing m with
  | nil => exact DouExt.refl _
  | cons sc rest ih =>
    simp only [unlockScopes]
    split
    · exact DouExt.refl _
    · rename_i ai hai
      have h0 := douExt_setAccts m sc ai (unlockAccts_keys _ _ _ hai)
      have h1 := douExt_unlockDou cfg d sc ((m.updScope sc fun s => { s with acctInfo := ai }).scopes sc).dou
        (m.updScope sc fun s => { s with acctInfo := ai })
      split
      · rename_i m2 e heq; rw [heq] at h1; exact h0.trans h1
      · rename_i m2 heq; rw [heq] at h1; exact h0.trans (h1.trans (ih _))

theorem douExt_unlock (cfg : Cfg) (d : Disk) (m : Mem) (p : Nat) : DouExt m (unlock cfg d m p).1 := by
  unfold unlock
  split
  · exact DouExt.refl _
  · split
    · dsimp only
      split
      · exact douExt_scopes rfl
      · exact DouExt.trans (b := { m with saltZero := saltAfter cfg m p }) (douExt_scopes rfl) (douExt_lockMem cfg _)
    · split
      · exact douExt_lockMem _ _
      · dsimp only
        have h0 : DouExt m (unlockStart cfg m) := douExt_scopes rfl
        have h1 := douExt_unlockScopes cfg d (List.range nScopes) (unlockStart cfg m)
        split
        · rename_i m2 heq; rw [heq] at h1; exact h0.trans h1
        · rename_i m2 e _ heq; rw [heq] at h1; exact h0.trans (h1.trans (douExt_lockMem _ _))
        · rename_i m2 heq; rw [heq] at h1; exact h0.trans (h1.trans (douExt_scopes rfl))

theorem douExt_lockOp (cfg : Cfg) (m : Mem) : DouExt m (lockOp cfg m).1 := by
  unfold lockOp
  split
  · exact DouExt.refl _
  · split
    · exact DouExt.refl _
    · exact douExt_lockMem _ _

theorem douExt_changePass (cfg : Cfg) (d : Disk) (m : Mem) (o n : Nat) (pr : Bool) :
    DouExt m (changePass cfg d m o n pr).2.1 := by
  unfold changePass
  repeat' split
  all_goals first | exact DouExt.refl _ | exact douExt_scopes rfl

theorem douExt_convertWO (cfg : Cfg) (d : Disk) (m : Mem) : DouExt m (convertWO cfg d m).2 := by
  unfold convertWO
  split
  · exact DouExt.refl _
  · dsimp only
    have h1 : DouExt m (if m.locked = true then m else lockMem cfg m) := by
      split
      · exact DouExt.refl _
      · exact douExt_lockMem _ _
    refine h1.trans ⟨?_, fun sc e he => Or.inl he⟩
    intro sc a h
    simp only [cachedA] at h ⊢
    rw [aget_map_isSome ((if m.locked = true then m else lockMem cfg m).scopes sc).acctInfo
      (fun p => { p.2 with hasEnc := false })]; exact h

/-! ### every operation -/

theorem exec_snap_same (s : State) (m : Mem) (op : Op) : (exec s m op).1.snap = s.snap := by
  cases op <;> simp only [exec] <;> (repeat' split) <;> rfl

/-- only `nextAddresses` registers an OnCommit closure -/
theorem exec_pend (s : State) (m : Mem) (op : Op) (h : ∀ sc a n i, op ≠ .next sc a n i) :
    (exec s m op).1.pend = s.pend := by
  cases op <;> simp only [exec] <;> (repeat' split) <;> first | rfl | exact absurd rfl (h _ _ _ _)

theorem exec_mem_dou (s : State) (m : Mem) (hs : s.mem = some m) (op : Op) (m' : Mem)
    (h : (exec s m op).1.mem = some m') : DouExt m m' := by
  cases op <;> simp only [exec] at h
  case create => rw [hs] at h; cases h; exact DouExt.refl _
  case reopen => rw [hs] at h; cases h; exact DouExt.refl _
  case begin => rw [hs] at h; cases h; exact DouExt.refl _
  case commit => rw [hs] at h; cases h; exact DouExt.refl _
  case rollback => rw [hs] at h; cases h; exact DouExt.refl _
  case unlock => cases h; exact douExt_unlock ..
  case lock => cases h; exact douExt_lockOp ..
  case changePass => cases h; exact douExt_changePass ..
  case convertWO => cases h; exact douExt_convertWO ..
  case newAccount => split at h <;> (simp only [hs] at h; cases h; exact DouExt.refl _)
  case rename => cases h; exact douExt_rename ..
  case next =>
    split at h <;> (simp only [] at h; cases h; exact (douExt_nextAddresses ..).1)
  case extend => cases h; exact douExt_extend ..
  case importKey => cases h; exact douExt_importKey ..
  case importScript => cases h; exact douExt_importScript ..
  case markUsed => cases h; exact douExt_markUsed ..
  case setSynced => cases h; exact douExt_setSynced ..
  case setBirthday => simp only [hs] at h; cases h; exact DouExt.refl _
  case privKey =>
    split at h
    · simp only [hs] at h; cases h; exact DouExt.refl _
    · rename_i r hr; simp only [] at h; cases h; exact (douExt_addressOf hr).trans (douExt_privKeyObj ..)
  case lastPrivKey sc acct int =>
    have hq := douExt_query s.disk m (.lastAddr sc acct int)
    split at h
    · rename_i m1 k a hm
      rw [hm] at hq
      split at h <;> (simp only [] at h; cases h)
      · exact hq.trans (douExt_privKeyObj ..)
      · exact hq
    · rename_i m1 e hm; rw [hm] at hq; simp only [] at h; cases h; exact hq
    · rename_i m1 _ _ hm; rw [hm] at hq; simp only [] at h; cases h; exact hq
  case script =>
    split at h
    · simp only [hs] at h; cases h; exact DouExt.refl _
    · rename_i r hr; simp only [] at h; cases h; exact (douExt_addressOf hr).trans (douExt_scriptObj ..)
  case crypt => simp only [hs] at h; cases h; exact DouExt.refl _
  case derive => cases h; exact douExt_derivePath ..
  case deriveCache => cases h; exact douExt_deriveCache ..
  case q => cases h; exact douExt_query ..

/-- the closure registered by `.next` satisfies `PendOK` in the memory the op leaves -/
theorem exec_next_pend (s : State) (m : Mem) (sc a n : Nat) (int : Bool) (m' : Mem)
    (h : (exec s m (.next sc a n int)).1.mem = some m') :
    ∀ p ∈ (exec s m (.next sc a n int)).1.pend, p ∈ s.pend ∨ PendOK m' p := by
  have key := (douExt_nextAddresses s.disk m sc a n int).2
  simp only [exec] at h ⊢
  have hm : m' = (nextAddresses s.disk m sc a n int).mem := by
    split at h <;> (simp only [] at h; cases h; rfl)
  have hp : ∀ p ∈ (match (nextAddresses s.disk m sc a n int).pend with
      | some p => s.pend ++ [p] | none => s.pend), p ∈ s.pend ∨ PendOK m' p := by
    intro p hp
    cases hq : (nextAddresses s.disk m sc a n int).pend with
    | none => rw [hq] at hp; exact Or.inl hp
    | some q =>
      rw [hq] at hp
      simp only [List.mem_append, List.mem_singleton] at hp
      rcases hp with hp | hp
      · exact Or.inl hp
      · right; rw [hp, hm]; exact key q hq
  split <;> exact hp

/-- the state-level invariant: `DouOK`, every pending OnCommit closure is `PendOK`, and closures are pending only
inside a bracket -/
structure StDou (s : State) : Prop where
  mem  : ∀ m, s.mem = some m → DouOK m ∧ ∀ p ∈ s.pend, PendOK m p
  pend : s.snap = none → s.pend = []

theorem stDou_exec (s : State) (m : Mem) (hs : s.mem = some m) (op : Op) (hd : DouOK m) (hp : ∀ p ∈ s.pend, PendOK m p)
    (m' : Mem) (h : (exec s m op).1.mem = some m') : DouOK m' ∧ ∀ p ∈ (exec s m op).1.pend, PendOK m' p := by
  have he := exec_mem_dou s m hs op m' h
  refine ⟨he.ok hd, ?_⟩
  by_cases hn : ∃ sc a n i, op = .next sc a n i
  · obtain ⟨sc, a, n, i, rfl⟩ := hn
    intro p hpp
    rcases exec_next_pend s m sc a n i m' h p hpp with h1 | h1
    · exact (hp p h1).ext he
    · exact h1
  · rw [exec_pend s m op (fun sc a n i hop => hn ⟨sc, a, n, i, hop⟩)]
    intro p hpp; exact (hp p hpp).ext he

theorem douOK_openMem (d : Disk) : DouOK (openMem d) := by
  intro sc e he; simp [openMem] at he

theorem stDou_commitTx (s : State) (h : StDou s) : StDou (commitTx s) := by
  refine ⟨?_, fun _ => rfl⟩
  intro m hm
  simp only [commitTx] at hm
  cases hs : s.mem with
  | none => rw [hs] at hm; cases hm
  | some m0 =>
    rw [hs] at hm; simp only [Option.map] at hm; cases hm
    obtain ⟨h1, h2⟩ := h.mem m0 hs
    exact ⟨(douExt_foldl_runPend _ _ _ h2).ok h1, fun p hp => by simp [commitTx] at hp⟩

theorem stDou_rollbackTx (s : State) (h : StDou s) : StDou (rollbackTx s) := by
  refine ⟨?_, fun _ => rfl⟩
  intro m hm
  exact ⟨(h.mem m hm).1, fun p hp => by simp [rollbackTx] at hp⟩

theorem not_writes_not_next {op : Op} (h : op.writes = false) : ∀ sc a n i, op ≠ .next sc a n i := by
  intro sc a n i hop; subst hop; simp [Op.writes] at h

theorem stDou_step (s : State) (op : Op) (h : StDou s) : StDou (step s op).1 := by
  have generic : ∀ m, s.mem = some m →
      StDou (if s.snap.isSome || !op.writes then exec s m op
        else
          let r := exec { s with snap := some s.disk, pend := [] } m op
          if isErr r.2 then (rollbackTx r.1, r.2) else (commitTx r.1, r.2)).1 := by
    intro m hs
    obtain ⟨hd, hp⟩ := h.mem m hs
    split
    · rename_i hc
      refine ⟨fun m' hm' => stDou_exec s m hs op hd hp m' hm', ?_⟩
      intro hsn
      rw [exec_snap_same] at hsn
      have hw : op.writes = false := by simpa [hsn] using hc
      rw [exec_pend s m op (not_writes_not_next hw)]; exact h.pend hsn
    · dsimp only
      have hex : StDou (exec { s with snap := some s.disk, pend := [] } m op).1 := by
        refine ⟨fun m' hm' => ?_, ?_⟩
        · exact stDou_exec { s with snap := some s.disk, pend := [] } m hs op hd (fun p hp => by simp at hp) m' hm'
        · intro hsn; rw [exec_snap_same] at hsn; cases hsn
      split
      · exact stDou_rollbackTx _ hex
      · exact stDou_commitTx _ hex
  unfold step
  cases op
  case create =>
    simp only []; split
    · exact h
    · split
      · exact h
      · rename_i hsn _
        have hsn' : s.snap = none := by cases hx : s.snap <;> simp_all
        refine ⟨?_, fun _ => h.pend hsn'⟩
        intro m hm; simp only at hm; cases hm
        exact ⟨douOK_openMem _, fun p hp => by rw [h.pend hsn'] at hp; simp at hp⟩
  case reopen =>
    simp only []; split
    · exact h
    · split
      · exact h
      · rename_i hsn _
        have hsn' : s.snap = none := by cases hx : s.snap <;> simp_all
        split
        · exact ⟨fun m hm => (by cases hm), fun _ => h.pend hsn'⟩
        · refine ⟨?_, fun _ => h.pend hsn'⟩
          intro m hm; simp only at hm; cases hm
          exact ⟨douOK_openMem _, fun p hp => by rw [h.pend hsn'] at hp; simp at hp⟩
  case begin =>
    simp only []; split
    · exact h
    · exact ⟨fun m hm => ⟨(h.mem m hm).1, fun p hp => by simp at hp⟩, fun _ => rfl⟩
  case commit => simp only []; split; exact h; exact stDou_commitTx _ h
  case rollback => simp only []; split; exact h; exact stDou_rollbackTx _ h
  all_goals
    simp only []
    split
    · exact h
    · rename_i m hs; exact generic m hs

theorem stDou_run (s : State) (ops : List Op) (h : StDou s) : StDou (run s ops) := by
  induction ops generalizing s with
  | nil => exact h
  | cons op ops ih => simp only [run]; exact ih _ (stDou_step s op h)

theorem stDou_init (cfg : Cfg) : StDou { cfg := cfg } := ⟨fun m hm => (by cases hm), fun _ => rfl⟩

/-! ### the configuration never changes -/

theorem exec_cfg (s : State) (m : Mem) (op : Op) : (exec s m op).1.cfg = s.cfg := by
  cases op <;> simp only [exec] <;> (repeat' split) <;> rfl

theorem step_cfg (s : State) (op : Op) : (step s op).1.cfg = s.cfg := by
  unfold step
  cases op <;> simp only [] <;> (repeat' split) <;> first | rfl | (simp only [rollbackTx, commitTx, exec_cfg])

theorem run_cfg (s : State) (ops : List Op) : (run s ops).cfg = s.cfg := by
  induction ops generalizing s with
  | nil => rfl
  | cons op ops ih => simp only [run]; rw [ih, step_cfg]

end AddrLock
