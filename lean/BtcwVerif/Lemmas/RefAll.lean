import BtcwVerif.Lemmas.RefRollback6
/-!
# The refinement theorem: along EVERY chain-consistent history of events (block disconnections included) the store
calls succeed and the store refines the ledger
-/
namespace TxStore
open KMap Ledger

/-- **one event**: on a good pair, for a chain-consistent event, the store calls succeed and the new pair is good -/
theorem good_step {s : Store} {L : Ledger} (hg : Good s L) (e : Event) (hc : Consistent L e) :
    ∃ s', stepEvent s L.now e = .ok s' ∧ Good s' (Ledger.apply L e) ∧ (NoConflict L → NoConflict (Ledger.apply L e)) := by
  cases e with
  | disconnected h => exact good_disconnected hg L.now h
  | seen t cr => exact good_step_noReorg hg _ hc trivial
  | confirmed bm t cr => exact good_step_noReorg hg _ hc trivial
  | abandoned t => exact good_step_noReorg hg _ hc trivial
  | lease id op d => exact good_step_noReorg hg _ hc trivial
  | release id op => exact good_step_noReorg hg _ hc trivial
  | sweep => exact good_step_noReorg hg _ hc trivial
  | clock t => exact good_step_noReorg hg _ hc trivial

/-- **every chain-consistent history** -/
theorem good_history : ∀ (es : List Event) (s : Store) (L : Ledger), Good s L → NoConflict L →
    ConsistentHistory L es →
    ∃ s', storeAfter s L es = .ok s' ∧ Good s' (ledgerAfter L es) ∧ NoConflict (ledgerAfter L es) := by
  intro es
  induction es with
  | nil => intro s L hg hn _; exact ⟨s, rfl, hg, hn⟩
  | cons e es ih =>
    intro s L hg hn hc
    obtain ⟨s1, h1, hg1, hn1⟩ := good_step hg e hc.1
    obtain ⟨s', h2, hg2, hn2⟩ := ih s1 (Ledger.apply L e) hg1 (hn1 hn) hc.2
    refine ⟨s', ?_, hg2, hn2⟩
    show (stepEvent s L.now e >>= fun s' => storeAfter s' (Ledger.apply L e) es) = _
    rw [h1, bind_ok, h2]

/-- from the empty store -/
theorem good_reachable (es : List Event) (hc : ConsistentHistory {} es) :
    ∃ s, storeAfter Store.empty {} es = .ok s ∧ Good s (ledgerAfter {} es) ∧ NoConflict (ledgerAfter {} es) :=
  good_history es Store.empty {} good_empty noConflict_empty hc

end TxStore
