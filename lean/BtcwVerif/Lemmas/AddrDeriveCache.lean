import BtcwVerif.Lemmas.AddrRename
/-!
`DeriveFromKeyPathCache` (model `opDeriveCache`) in a state that satisfies the consistency invariant: the key it
returns is child `branch/index` of the private key stored in the row of the account named by `InternalAccount`, and it
is the key `DeriveFromKeyPath` + `PrivKey()` return for the same path.  `RenameAccount` + reopen: the account loads
with the same keys, counters and overriding address schema.
-/
set_option linter.unusedSectionVars false
set_option linter.unusedVariables false
set_option linter.unusedSimpArgs false
namespace AddrDerive
open AddrSym

variable {K P : Type} [DecidableEq K] [DecidableEq P]

/-- what a successful `DeriveFromKeyPathCache` looked at -/
theorem opDeriveCache_ok {hd : HD K P} {s : State K P} {sc : Scope} {a b i : Nat} {k : Priv K}
    (hk : (opDeriveCache hd s sc a b i).2.1 = .key k) :
    s.mem.watchOnly = false ∧ s.mem.locked = false ∧
    ∃ ai ak k', cacheAt s sc a = some ai ∧ ai.keyPriv = some ak ∧ derive2 hd ak b i = some k' ∧ k = .hd k' := by
  unfold opDeriveCache at hk
  split at hk
  · cases hk
  · rename_i hw
    split at hk
    · cases hk
    · rename_i hl
      split at hk
      · cases hk
      · rename_i sm hsm
        split at hk
        · cases hk
        · rename_i ai hai
          split at hk
          · cases hk
          · rename_i ak hak
            split at hk
            · cases hk
            · rename_i k' hk'
              simp only [Res.key.injEq] at hk
              refine ⟨by simpa using hw, by simpa using hl, ai, ak, k', ?_, hak, hk', hk.symm⟩
              rw [cacheAt_of_getSM hsm]; exact hai

/-- **The key is the child of the account's own private key.**  The account is the one named by `InternalAccount`
    (the `Account` field of the path is not even an argument of `opDeriveCache`): its row holds the private key `ak`
    — by `RowKeyOK` the seed's `m/purpose'/coin'/account'` — and the key returned is `ak/branch/index`. -/
theorem opDeriveCache_child {hd : HD K P} {s : State K P} (h : Inv hd s) {sc : Scope} {a b i : Nat} {k : Priv K}
    (hk : (opDeriveCache hd s sc a b i).2.1 = .key k) :
    ∃ row ak k', acctRow s sc a = some row ∧ rowPriv row = some ak ∧ RowKeyOK hd s sc a row ∧
      derive2 hd ak b i = some k' ∧ k = .hd k' := by
  obtain ⟨hw, hl, ai, ak, k', hc, hak, hk', rfl⟩ := opDeriveCache_ok hk
  obtain ⟨row, hr, hok⟩ := h.cache sc a ai hc
  refine ⟨row, ak, k', hr, ?_, h.disk.row sc a row hr, hk', rfl⟩
  rw [← hok.enc, ← hok.unlocked hl]; exact hak

/-- **The fast path agrees with the slow path.**  In the same state, `DeriveFromKeyPath` for the same
    `InternalAccount/branch/index` (any `Account` field, any handle) builds an address object for that path whose
    `PrivKey()` is exactly the key `DeriveFromKeyPathCache` returned — and (`KeyObjOK.priv`, via `opDerive_inv`) the key
    of that object's public key. -/
theorem opDeriveCache_agrees {hd : HD K P} {s : State K P} (h : Inv hd s) {sc : Scope} {a b i : Nat} {k : Priv K}
    (hk : (opDeriveCache hd s sc a b i).2.1 = .key k) (ac hh : Nat) :
    ∃ o, objOfHandle (opDerive hd s sc a ac b i hh).1 hh = some (.key o) ∧
      (opDerive hd s sc a ac b i hh).2.1 = .addr (infoOfKey o) ∧
      privKeyOf (opDerive hd s sc a ac b i hh).1 o = .ok k ∧
      o.scope = sc ∧ o.acct = a ∧ o.branch = b ∧ o.index = i ∧ o.imported = false := by
  obtain ⟨hw, hl, ai, ak, k', hc, hak, hk', rfl⟩ := opDeriveCache_ok hk
  obtain ⟨row, hr, _⟩ := h.cache sc a ai hc
  -- the scope exists on both sides
  cases hsm : getSM s sc with
  | none => simp [cacheAt, hsm] at hc
  | some sm =>
    cases hsd : getSD s sc with
    | none => simp [acctRow, hsd] at hr
    | some sd =>
      have hai : alookup sm.acctInfo a = some ai := by rw [← cacheAt_of_getSM hsm]; exact hc
      have hload : loadAcct hd s sc a = .ok (s, ai) := by
        unfold loadAcct; simp only [hsm, hsd, hai]
      have hm : mkChained hd sc a ai true b i (accountAddrType sm.schema ai (b == 1)) ac 0 =
          some { scope := sc, acct := a, acctChild := ac, branch := b, index := i, fp := 0, pub := .hd (hd.neuter k'),
                 privEnc := some (.hd k'), typ := accountAddrType sm.schema ai (b == 1), imported := false,
                 internal := b == 1, compressed := true, acctPub := some ai.keyPub, hasPrivAcct := ai.keyEnc.isSome } := by
        unfold mkChained; simp only [if_true, hak, hk', Option.map_some]
      refine ⟨{ scope := sc, acct := a, acctChild := ac, branch := b, index := i, fp := 0, pub := .hd (hd.neuter k'),
                 privEnc := some (.hd k'), typ := accountAddrType sm.schema ai (b == 1), imported := false,
                 internal := b == 1, compressed := true, acctPub := some ai.keyPub, hasPrivAcct := ai.keyEnc.isSome },
               ?_, ?_, ?_, rfl, rfl, rfl, rfl, rfl⟩
      all_goals
        unfold opDerive
        simp only [hload, hsm, hw, hl, hak, Bool.not_false, Bool.and_self, Option.isSome_some, hm, getSM_alloc, if_true]
      · simp [objOfHandle, bindH, alookup_aset, putSM, alloc]
      · simp [privKeyOf, bindH, putSM, alloc, hw, hl]

-- ---------------------------------------------------------------------------------------------------------
-- rename, reopen, load

theorem getSM_restart (s : State K P) (sc : Scope) :
    getSM (opRestart s).1 sc = (getSD s sc).map fun sd => { schema := sd.schema, acctInfo := [], addrs := [], dou := [] } := by
  simp only [opRestart, getSM, getSD, freshMem]
  exact alookup_map s.disk.scopes (fun _ sd => ({ schema := sd.schema, acctInfo := [], addrs := [], dou := [] } : ScopeMem K P)) sc

theorem getSD_restart (s : State K P) (sc : Scope) : getSD (opRestart s).1 sc = getSD s sc := rfl

theorem setName_rowName (r : AcctRow K P) : setName r (rowName r) = r := by
  cases r <;> rfl

/-- loading an account right after a reopen does not depend on the name in its row: same keys, same counters, same
    overriding address schema (hence the same address format for both branches) -/
theorem loadAcct_fresh_setName (hd : HD K P) (s s' : State K P) (sc : Scope) (a : Nat) (g : AcctRow K P → Nat)
    (hsch : (getSD s' sc).map (·.schema) = (getSD s sc).map (·.schema))
    (hrow : acctRow s' sc a = (acctRow s sc a).map fun r => setName r (g r))
    {st : State K P} {ai : AcctInfo K P} (hl : loadAcct hd (opRestart s').1 sc a = .ok (st, ai)) :
    ∃ st0 ai0, loadAcct hd (opRestart s).1 sc a = .ok (st0, ai0) ∧ ai.schema = ai0.schema ∧ ai.keyPub = ai0.keyPub ∧
      ai.keyEnc = ai0.keyEnc ∧ ai.keyPriv = ai0.keyPriv ∧ ai.nextExt = ai0.nextExt ∧ ai.nextInt = ai0.nextInt ∧
      ai.fp = ai0.fp ∧ ai.childIdx = ai0.childIdx := by
  unfold loadAcct at hl ⊢
  rw [getSM_restart, getSD_restart] at hl ⊢
  cases hsd' : getSD s' sc with
  | none => simp [hsd'] at hl
  | some sd' =>
    cases hsd : getSD s sc with
    | none => simp [hsd', hsd] at hsch
    | some sd =>
      simp only [hsd', hsd, Option.map_some, alookup] at hl ⊢
      have hr' : acctRow s' sc a = alookup sd'.accts a := by simp [acctRow, hsd']
      have hr : acctRow s sc a = alookup sd.accts a := by simp [acctRow, hsd]
      rw [hr', hr] at hrow
      split at hl
      · cases hl
      · rename_i hnimp
        rw [if_neg hnimp]
        cases hrow0 : alookup sd.accts a with
        | none => rw [hrow0] at hrow; simp [hrow] at hl
        | some row =>
          rw [hrow0] at hrow
          simp only [Option.map_some] at hrow
          simp only [hrow] at hl
          have hlk : (opRestart s').1.mem.locked = true := rfl
          have hlk0 : (opRestart s).1.mem.locked = true := rfl
          cases row with
          | dflt pub priv ne ni name =>
            simp only [setName, hlk, hlk0, Bool.not_true, Bool.false_and, Bool.false_eq_true, if_false] at hl ⊢
            split at hl
            · cases hl
            · rename_i hv
              rw [if_neg hv]
              simp only [Except.ok.injEq, Prod.mk.injEq] at hl
              obtain ⟨_, rfl⟩ := hl
              exact ⟨_, _, rfl, rfl, rfl, rfl, rfl, rfl, rfl, rfl, rfl⟩
          | wo pub fp ne ni name schema ci =>
            simp only [setName] at hl ⊢
            split at hl
            · cases hl
            · rename_i hv
              rw [if_neg hv]
              simp only [Except.ok.injEq, Prod.mk.injEq] at hl
              obtain ⟨_, rfl⟩ := hl
              exact ⟨_, _, rfl, rfl, rfl, rfl, rfl, rfl, rfl, rfl, rfl⟩

theorem opRename_state_of_err {s : State K P} {sc : Scope} {acct name : Nat} (h : (opRename s sc acct name).2.1 ≠ .ok) :
    (opRename s sc acct name).1 = s := by
  unfold opRename at h ⊢
  by_cases hacct : acct = importedAcct
  · rw [if_pos hacct]
  · rw [if_neg hacct] at h ⊢
    cases hsd : getSD s sc with
    | none => rfl
    | some sd =>
      simp only [hsd] at h ⊢
      by_cases hnt : nameTaken sd name = true
      · rw [if_pos hnt]
      · rw [if_neg hnt] at h ⊢
        by_cases hn0 : name = 0
        · rw [if_pos hn0]
        · rw [if_neg hn0] at h ⊢
          cases hrow : alookup sd.accts acct with
          | none => rfl
          | some row => simp only [hrow] at h; exact absurd rfl h

theorem opRename_schema (s : State K P) (sc : Scope) (acct name : Nat) (sc' : Scope) :
    (getSD (opRename s sc acct name).1 sc').map (·.schema) = (getSD s sc').map (·.schema) := by
  by_cases hres : (opRename s sc acct name).2.1 = .ok
  · unfold opRename at hres ⊢
    split at hres
    · cases hres
    · rename_i hacct
      rw [if_neg hacct]
      split at hres
      · cases hres
      · rename_i sd hsd
        simp only [hsd]
        split at hres
        · cases hres
        · rename_i hnt
          rw [if_neg hnt]
          split at hres
          · cases hres
          · rename_i hn0
            rw [if_neg hn0]
            split at hres
            · cases hres
            · rename_i row hrow
              simp only [hrow]
              show (getSD (renameCached _ sc acct name) sc').map (·.schema) = _
              rw [(renameCached_frame _ sc acct name).1 sc', getSD_putSD]
              by_cases hsc : sc = sc'
              · subst hsc; simp [hsd]
              · simp [hsc]
  · rw [opRename_state_of_err hres]

/-- every account row after a rename (successful or not) is the row before, up to its name -/
theorem opRename_rowSetName (s : State K P) (sc : Scope) (acct name : Nat) (sc' : Scope) (a : Nat) :
    ∃ g : AcctRow K P → Nat, acctRow (opRename s sc acct name).1 sc' a = (acctRow s sc' a).map fun r => setName r (g r) := by
  by_cases hres : (opRename s sc acct name).2.1 = .ok
  · obtain ⟨row, hr, hall⟩ := opRename_rows sc acct name hres
    refine ⟨fun r => if sc = sc' ∧ acct = a then name else rowName r, ?_⟩
    rw [hall]
    by_cases hc : sc = sc' ∧ acct = a
    · obtain ⟨e1, e2⟩ := hc; subst e1; subst e2
      simp [hr]
    · simp only [hc, if_false, setName_rowName]
      cases acctRow s sc' a <;> rfl
  · refine ⟨rowName, ?_⟩
    rw [opRename_state_of_err hres]
    simp only [setName_rowName]
    cases acctRow s sc' a <;> rfl

-- ---------------------------------------------------------------------------------------------------------
-- look-ups do not interact: a `DeriveFromKeyPathCache` request leaves the whole state alone

/-- a `DeriveFromKeyPathCache` request -/
def IsDeriveCache : Op K P → Prop
  | .deriveCache .. => True
  | _ => False

theorem step_deriveCache_state (cfg : Cfg) (hd : HD K P) (s : State K P) (sc : Scope) (a ac b i : Nat) :
    (step cfg hd s (.deriveCache sc a ac b i)).1 = s := by
  simp only [step]
  split
  · rfl
  · split
    · rfl
    · exact opDeriveCache_state hd s sc a b i

/-- any number of look-ups, of any paths, in any order: the state is the one before the first of them -/
theorem foldl_deriveCache_state (cfg : Cfg) (hd : HD K P) (qs : List (Op K P)) (hq : ∀ op ∈ qs, IsDeriveCache op)
    (s : State K P) : qs.foldl (fun st op => (step cfg hd st op).1) s = s := by
  induction qs generalizing s with
  | nil => rfl
  | cons op t ih =>
    have h1 : IsDeriveCache op := hq op (List.mem_cons_self ..)
    have ht : ∀ op ∈ t, IsDeriveCache op := fun o ho => hq o (List.mem_cons_of_mem _ ho)
    cases op <;> simp only [IsDeriveCache] at h1
    rw [List.foldl_cons, step_deriveCache_state]
    exact ih ht s

end AddrDerive
