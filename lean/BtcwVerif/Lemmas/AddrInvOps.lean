import BtcwVerif.Lemmas.AddrInv
/-! `Inv` is established by `Create` and preserved by every operation of the `AddrDerive` model (official tree). -/
set_option linter.unusedSectionVars false
set_option linter.unusedVariables false
set_option linter.unusedSimpArgs false
namespace AddrDerive

variable {K P : Type} [DecidableEq K] [DecidableEq P]

-- ---------------------------------------------------------------------------------------------------------
-- views of the basic state transformers

section views
variable (s : State K P) (sc sc' : Scope) (a : Nat)

@[simp] theorem acctRow_putSM (sm : ScopeMem K P) : acctRow (putSM s sc sm) sc' a = acctRow s sc' a := rfl
@[simp] theorem addrRowAt_putSM (sm : ScopeMem K P) (id : AddrId P) : addrRowAt (putSM s sc sm) sc' id = addrRowAt s sc' id := rfl
@[simp] theorem coinAt_putSM (sm : ScopeMem K P) : coinAt (putSM s sc sm) sc' = coinAt s sc' := rfl
@[simp] theorem lastAt_putSM (sm : ScopeMem K P) : lastAt (putSM s sc sm) sc' = lastAt s sc' := rfl
@[simp] theorem cacheAt_putSM (sm : ScopeMem K P) :
    cacheAt (putSM s sc sm) sc' a = if sc = sc' then alookup sm.acctInfo a else cacheAt s sc' a := by
  unfold cacheAt; rw [getSM_putSM]; by_cases h : sc = sc' <;> simp [h]
@[simp] theorem douAt_putSM (sm : ScopeMem K P) :
    douAt (putSM s sc sm) sc' = if sc = sc' then sm.dou else douAt s sc' := by
  unfold douAt; rw [getSM_putSM]; by_cases h : sc = sc' <;> simp [h]

@[simp] theorem cacheAt_putSD (sd : ScopeDisk K P) : cacheAt (putSD s sc sd) sc' a = cacheAt s sc' a := rfl
@[simp] theorem douAt_putSD (sd : ScopeDisk K P) : douAt (putSD s sc sd) sc' = douAt s sc' := rfl
@[simp] theorem acctRow_putSD (sd : ScopeDisk K P) :
    acctRow (putSD s sc sd) sc' a = if sc = sc' then alookup sd.accts a else acctRow s sc' a := by
  unfold acctRow; rw [getSD_putSD]; by_cases h : sc = sc' <;> simp [h]
@[simp] theorem addrRowAt_putSD (sd : ScopeDisk K P) (id : AddrId P) :
    addrRowAt (putSD s sc sd) sc' id = if sc = sc' then alookup sd.addrs id else addrRowAt s sc' id := by
  unfold addrRowAt; rw [getSD_putSD]; by_cases h : sc = sc' <;> simp [h]
@[simp] theorem coinAt_putSD (sd : ScopeDisk K P) :
    coinAt (putSD s sc sd) sc' = if sc = sc' then sd.coinPriv else coinAt s sc' := by
  unfold coinAt; rw [getSD_putSD]; by_cases h : sc = sc' <;> simp [h]
@[simp] theorem lastAt_putSD (sd : ScopeDisk K P) :
    lastAt (putSD s sc sd) sc' = if sc = sc' then some sd.lastAcct else lastAt s sc' := by
  unfold lastAt; rw [getSD_putSD]; by_cases h : sc = sc' <;> simp [h]

@[simp] theorem acctRow_alloc (o : Obj K P) : acctRow (alloc s o).1 sc a = acctRow s sc a := rfl
@[simp] theorem addrRowAt_alloc (o : Obj K P) (id : AddrId P) : addrRowAt (alloc s o).1 sc id = addrRowAt s sc id := rfl
@[simp] theorem coinAt_alloc (o : Obj K P) : coinAt (alloc s o).1 sc = coinAt s sc := rfl
@[simp] theorem lastAt_alloc (o : Obj K P) : lastAt (alloc s o).1 sc = lastAt s sc := rfl
@[simp] theorem cacheAt_alloc (o : Obj K P) : cacheAt (alloc s o).1 sc a = cacheAt s sc a := rfl
@[simp] theorem douAt_alloc (o : Obj K P) : douAt (alloc s o).1 sc = douAt s sc := rfl

@[simp] theorem acctRow_bindH (h i : Nat) : acctRow (bindH s h i) sc a = acctRow s sc a := rfl
@[simp] theorem addrRowAt_bindH (h i : Nat) (id : AddrId P) : addrRowAt (bindH s h i) sc id = addrRowAt s sc id := rfl
@[simp] theorem coinAt_bindH (h i : Nat) : coinAt (bindH s h i) sc = coinAt s sc := rfl
@[simp] theorem lastAt_bindH (h i : Nat) : lastAt (bindH s h i) sc = lastAt s sc := rfl
@[simp] theorem cacheAt_bindH (h i : Nat) : cacheAt (bindH s h i) sc a = cacheAt s sc a := rfl
@[simp] theorem douAt_bindH (h i : Nat) : douAt (bindH s h i) sc = douAt s sc := rfl

theorem acctRow_of_getSD {s : State K P} {sc : Scope} {sd : ScopeDisk K P} (h : getSD s sc = some sd) (a : Nat) :
    acctRow s sc a = alookup sd.accts a := by simp [acctRow, h]
theorem addrRowAt_of_getSD {s : State K P} {sc : Scope} {sd : ScopeDisk K P} (h : getSD s sc = some sd) (id : AddrId P) :
    addrRowAt s sc id = alookup sd.addrs id := by simp [addrRowAt, h]
theorem coinAt_of_getSD {s : State K P} {sc : Scope} {sd : ScopeDisk K P} (h : getSD s sc = some sd) :
    coinAt s sc = sd.coinPriv := by simp [coinAt, h]
theorem lastAt_of_getSD {s : State K P} {sc : Scope} {sd : ScopeDisk K P} (h : getSD s sc = some sd) :
    lastAt s sc = some sd.lastAcct := by simp [lastAt, h]
theorem cacheAt_of_getSM {s : State K P} {sc : Scope} {sm : ScopeMem K P} (h : getSM s sc = some sm) (a : Nat) :
    cacheAt s sc a = alookup sm.acctInfo a := by simp [cacheAt, h]
theorem douAt_of_getSM {s : State K P} {sc : Scope} {sm : ScopeMem K P} (h : getSM s sc = some sm) :
    douAt s sc = sm.dou := by simp [douAt, h]

end views

-- ---------------------------------------------------------------------------------------------------------
-- trivial moves

/-- nothing the invariant looks at changed -/
theorem Inv.same {hd : HD K P} {s s' : State K P} (h : Inv hd s)
    (hsd : ∀ sc, getSD s' sc = getSD s sc) (hsm : ∀ sc, getSM s' sc = getSM s sc) (hheap : s'.mem.heap = s.mem.heap)
    (hl : s'.mem.locked = s.mem.locked) (hmw : s'.mem.watchOnly = s.mem.watchOnly) (hdw : s'.disk.watchOnly = s.disk.watchOnly)
    (hrp : s'.disk.rootPriv = s.disk.rootPriv) (hroot : s'.root = s.root) (himp : s'.imports = s.imports) : Inv hd s' := by
  have e1 : ∀ sc a, acctRow s' sc a = acctRow s sc a := by intro sc a; simp [acctRow, hsd]
  have e2 : ∀ sc a, cacheAt s' sc a = cacheAt s sc a := by intro sc a; simp [cacheAt, hsm]
  have e3 : ∀ sc, douAt s' sc = douAt s sc := by intro sc; simp [douAt, hsm]
  have e4 : ∀ sc id, addrRowAt s' sc id = addrRowAt s sc id := by intro sc id; simp [addrRowAt, hsd]
  refine h.extend hl hmw hdw hrp hroot himp (by intro sc; simp [coinAt, hsd]) (by intro sc; simp [lastAt, hsd])
    (by intro sc a; rw [e1]) (by intro sc id a b i hr; rw [e4] at hr; exact Or.inl hr)
    (by intro sc a ai hc; rw [e2] at hc; exact Or.inl ⟨ai, hc, rfl, rfl, rfl⟩)
    (by intro sc a hc; rw [e2]; exact hc) [] (by simp [hheap]) (by intro o ho; cases ho)
    (by intro sc e he; rw [e3] at he; exact Or.inl he) (by intro sc e he; rw [e3]; exact he) ?_
  intro idx o hge ho
  rw [hheap, List.getElem?_eq_none hge] at ho
  cases ho

theorem Inv_empty (hd : HD K P) : Inv hd (emptyState : State K P) := by
  refine ⟨rfl, by simp [emptyState], ⟨?_, ?_, ?_, ?_, ?_⟩, ?_, ?_, ?_, ?_⟩ <;>
    simp [emptyState, coinAt, lastAt, acctRow, addrRowAt, cacheAt, douAt, getSD, getSM, alookup]

-- ---------------------------------------------------------------------------------------------------------
-- loadAccountInfo

/-- what `loadAcct` leaves untouched -/
structure LoadFrame (s s1 : State K P) : Prop where
  disk : s1.disk = s.disk
  root : s1.root = s.root
  imports : s1.imports = s.imports
  heap : s1.mem.heap = s.mem.heap
  locked : s1.mem.locked = s.mem.locked
  mwo : s1.mem.watchOnly = s.mem.watchOnly
  dou : ∀ sc, douAt s1 sc = douAt s sc
  created : s1.created = s.created
  poisoned : s1.poisoned = s.poisoned
  cmono : ∀ sc a, (cacheAt s sc a).isSome → (cacheAt s1 sc a).isSome

theorem LoadFrame.getSD {s s1 : State K P} (f : LoadFrame s s1) (sc : Scope) : getSD s1 sc = getSD s sc := by
  simp [AddrDerive.getSD, f.disk]
theorem LoadFrame.acctRow {s s1 : State K P} (f : LoadFrame s s1) (sc : Scope) (a : Nat) : acctRow s1 sc a = acctRow s sc a := by
  simp [AddrDerive.acctRow, f.getSD]
theorem LoadFrame.addrRowAt {s s1 : State K P} (f : LoadFrame s s1) (sc : Scope) (id : AddrId P) :
    addrRowAt s1 sc id = addrRowAt s sc id := by
  simp [AddrDerive.addrRowAt, f.getSD]

theorem loadAcct_spec {hd : HD K P} {s s1 : State K P} {sc : Scope} {acct : Nat} {ai : AcctInfo K P} (h : Inv hd s)
    (hl : loadAcct hd s sc acct = .ok (s1, ai)) :
    Inv hd s1 ∧ cacheAt s1 sc acct = some ai ∧ LoadFrame s s1 ∧ (∃ sm sd, getSM s1 sc = some sm ∧ getSD s1 sc = some sd) := by
  unfold loadAcct at hl
  split at hl
  · rename_i sm sd hsm hsd
    split at hl
    · rename_i ai0 hai
      cases hl
      exact ⟨h, by simp [cacheAt, hsm, hai], ⟨rfl, rfl, rfl, rfl, rfl, rfl, fun _ => rfl, rfl, rfl, fun _ _ x => x⟩, sm, sd, hsm, hsd⟩
    · rename_i hnone
      split at hl
      · cases hl
      · split at hl
        · cases hl
        · rename_i row hrow
          dsimp only at hl
          split at hl
          · cases hl
          · rename_i ai1 hmk
            split at hl
            · cases hl
            · cases hl
              have hrow' : acctRow s sc acct = some row := by simp [acctRow, hsd, hrow]
              have hok : CacheOK s ai row := by
                cases row with
                | dflt pub priv ne ni name =>
                  simp only at hmk
                  split at hmk
                  · cases hmk
                  · cases hmk
                    refine ⟨rfl, rfl, ?_, ?_⟩
                    · intro hlk; simp [hlk]
                    · intro hlk
                      have hw : s.mem.watchOnly = false := by
                        cases hw : s.mem.watchOnly with
                        | false => rfl
                        | true => rw [h.woLocked hw] at hlk; cases hlk
                      simp [hlk, hw]
                | wo pub fp ne ni name schema ci =>
                  simp only at hmk
                  cases hmk
                  exact ⟨rfl, rfl, fun _ => rfl, fun _ => rfl⟩
              refine ⟨?_, by simp [cacheAt, alookup], ⟨rfl, rfl, rfl, rfl, rfl, rfl, ?_, rfl, rfl, ?_⟩, _, sd, by rw [getSM_putSM, if_pos rfl], by simpa using hsd⟩
              · refine h.extend rfl rfl rfl rfl rfl rfl (fun _ => rfl) (fun _ => rfl) (fun _ _ => rfl)
                  (fun sc' id a b i hr => Or.inl hr) ?_ ?_ [] (by simp) (by intro o ho; cases ho) ?_ ?_ ?_
                · intro sc' a' ai' hc
                  rw [cacheAt_putSM] at hc
                  by_cases hsc : sc = sc'
                  · subst hsc
                    simp only [if_true, alookup_cons] at hc
                    by_cases ha : acct = a'
                    · subst ha
                      simp at hc
                      subst hc
                      exact Or.inr ⟨row, hrow', hok.pub, hok.enc, hok.locked, hok.unlocked⟩
                    · simp [ha] at hc
                      exact Or.inl ⟨ai', by simp [cacheAt, hsm, hc], rfl, rfl, rfl⟩
                  · simp [hsc] at hc
                    exact Or.inl ⟨ai', hc, rfl, rfl, rfl⟩
                · intro sc' a' hc
                  rw [cacheAt_putSM]
                  by_cases hsc : sc = sc'
                  · subst hsc
                    simp only [if_true, alookup_cons]
                    by_cases ha : acct = a'
                    · simp [ha]
                    · simp [ha]; simpa [cacheAt, hsm] using hc
                  · simp [hsc]; exact hc
                · intro sc' e he
                  rw [douAt_putSM] at he
                  by_cases hsc : sc = sc'
                  · subst hsc; simp at he; exact Or.inl (by simpa [douAt, hsm] using he)
                  · simp [hsc] at he; exact Or.inl he
                · intro sc' e he
                  rw [douAt_putSM]
                  by_cases hsc : sc = sc'
                  · subst hsc; simpa [douAt, hsm] using he
                  · simp [hsc]; exact he
                · intro idx o hge ho
                  simp at ho
                  rw [List.getElem?_eq_none hge] at ho
                  cases ho
              · intro sc'
                rw [douAt_putSM]
                by_cases hsc : sc = sc'
                · subst hsc; simp [douAt, hsm]
                · simp [hsc]
              · intro sc' a' hc
                rw [cacheAt_putSM]
                by_cases hsc : sc = sc'
                · subst hsc
                  simp only [if_true, alookup_cons]
                  by_cases ha : acct = a'
                  · simp [ha]
                  · simp [ha]; simpa [cacheAt, hsm] using hc
                · simp [hsc]; exact hc
  · cases hl

-- ---------------------------------------------------------------------------------------------------------
-- building chained objects

theorem derive2_neuter (hd : HD K P) (hl : hd.Lawful) (k : K) (b i : Nat) (hb : b < H) (hi : i < H) :
    (derive2 hd k b i).map hd.neuter = derive2pub hd (hd.neuter k) b i := by
  unfold derive2 derive2pub
  have h1 := hl k b hb
  cases hc : hd.child k b with
  | none => simp [hc] at h1; simp [← h1]
  | some bk =>
    simp [hc] at h1
    simp [← h1]
    exact hl bk i hi

theorem derive2pub_nonhard (hd : HD K P) (hn : hd.NoHardPub) (p q : P) (b i : Nat) (h : derive2pub hd p b i = some q) :
    b < H ∧ i < H := by
  unfold derive2pub at h
  cases hb : hd.pubChild p b with
  | none => simp [hb] at h
  | some bp =>
    simp [hb] at h
    constructor
    · rcases Nat.lt_or_ge b H with h1 | h1
      · exact h1
      · rw [hn p b h1] at hb; cases hb
    · rcases Nat.lt_or_ge i H with h1 | h1
      · exact h1
      · rw [hn bp i h1] at h; cases h

/-- the cached private account key is the key of the cached public account key -/
theorem cache_priv_pub {hd : HD K P} {s : State K P} (h : Inv hd s) {sc : Scope} {acct : Nat} {ai : AcctInfo K P}
    (hc : cacheAt s sc acct = some ai) {ak : K} (hk : ai.keyPriv = some ak) : hd.neuter ak = ai.keyPub ∧ ai.keyEnc = some ak := by
  obtain ⟨row, hr, hok⟩ := h.cache sc acct ai hc
  have hlk : s.mem.locked = false := by
    cases hlk : s.mem.locked with
    | false => rfl
    | true => rw [hok.locked hlk] at hk; cases hk
  have henc : ai.keyEnc = some ak := by rw [← hok.unlocked hlk]; exact hk
  refine ⟨?_, henc⟩
  have hrk := h.disk.row sc acct row hr
  rw [hok.enc] at henc
  rw [hok.pub]
  cases row with
  | dflt pub priv ne ni name =>
    obtain ⟨root, ak', _, _, hn, hp⟩ := hrk
    simp [rowPriv] at henc
    rw [hp ak henc]; exact hn
  | wo pub fp ne ni name schema ci => simp [rowPriv] at henc

theorem mkChained_ok {hd : HD K P} (hlaw : hd.Lawful) {s : State K P} (h : Inv hd s) {sc : Scope} {acct : Nat}
    {ai : AcctInfo K P} (hc : cacheAt s sc acct = some ai) {usePriv : Bool} {b i : Nat} {typ : AddrType} {ac fp : Nat}
    {o : KeyObj K P} (hm : mkChained hd sc acct ai usePriv b i typ ac fp = some o) :
    KeyObjOK hd s o ∧ o.scope = sc ∧ o.acct = acct ∧ o.branch = b ∧ o.index = i ∧ o.imported = false ∧
    o.hasPrivAcct = ai.keyEnc.isSome ∧ o.acctPub = some ai.keyPub ∧ (usePriv = true → o.privEnc.isSome) ∧
    (usePriv = false → ∃ p, derive2pub hd ai.keyPub b i = some p ∧ o.pub = .hd p) := by
  obtain ⟨row, hr, hok⟩ := h.cache sc acct ai hc
  unfold mkChained at hm
  cases usePriv with
  | true =>
    simp only [if_true] at hm
    cases hk : ai.keyPriv with
    | none => simp [hk] at hm
    | some ak =>
      simp only [hk] at hm
      cases hd2 : derive2 hd ak b i with
      | none => simp [hd2] at hm
      | some k =>
        simp [hd2] at hm
        subst hm
        have hn := (cache_priv_pub h hc hk).1
        refine ⟨⟨?_, ?_, by simp⟩, rfl, rfl, rfl, rfl, rfl, rfl, rfl, by simp, by simp⟩
        · intro k' hk'; simp at hk'; subst hk'; rfl
        · intro _
          refine ⟨row, hr, by simp [hok.pub], rfl, ?_, ?_⟩
          · intro hb hi
            have := derive2_neuter hd hlaw ak b i hb hi
            rw [hd2, hn, hok.pub] at this
            exact ⟨hd.neuter k, this.symm, rfl⟩
          · intro _; simp [hok.enc]
  | false =>
    simp at hm
    obtain ⟨p, hp, rfl⟩ := hm
    refine ⟨⟨by simp, ?_, by simp⟩, rfl, rfl, rfl, rfl, rfl, rfl, rfl, by simp, fun _ => ⟨p, hp, rfl⟩⟩
    intro _
    refine ⟨row, hr, by simp [hok.pub], rfl, fun _ _ => ⟨p, by rw [← hok.pub]; exact hp, rfl⟩, ?_⟩
    intro _; simp [hok.enc]

-- ---------------------------------------------------------------------------------------------------------
-- two generic moves: rewrite one scope's disk part keeping the key material; allocate an address object

theorem Inv.diskUpd {hd : HD K P} {s : State K P} (h : Inv hd s) {sc : Scope} {sd : ScopeDisk K P}
    (hsd : getSD s sc = some sd) (sd' : ScopeDisk K P)
    (hcoin : sd'.coinPriv = sd.coinPriv) (hlast : sd'.lastAcct = sd.lastAcct)
    (hkey : ∀ a, (alookup sd'.accts a).map rowKey = (alookup sd.accts a).map rowKey)
    (haddr : ∀ id a b i, alookup sd'.addrs id = some (.chain a b i) → alookup sd.addrs id = some (.chain a b i) ∨
      ∃ row p cls, alookup sd'.accts a = some row ∧ derive2pub hd (rowPub row) b i = some p ∧ id = .key (.hd p) cls true) :
    Inv hd (putSD s sc sd') := by
  refine h.extend rfl rfl rfl rfl rfl rfl ?_ ?_ ?_ ?_ (fun sc' a ai hc => Or.inl ⟨ai, hc, rfl, rfl, rfl⟩)
    (fun _ _ x => x) [] (by simp) (by intro o ho; cases ho) (fun _ _ he => Or.inl he) (fun _ _ he => he) ?_
  · intro sc'
    rw [coinAt_putSD]
    by_cases hsc : sc = sc'
    · subst hsc; simp [coinAt_of_getSD hsd, hcoin]
    · simp [hsc]
  · intro sc'
    rw [lastAt_putSD]
    by_cases hsc : sc = sc'
    · subst hsc; simp [lastAt_of_getSD hsd, hlast]
    · simp [hsc]
  · intro sc' a
    rw [acctRow_putSD]
    by_cases hsc : sc = sc'
    · subst hsc; simp [acctRow_of_getSD hsd, hkey]
    · simp [hsc]
  · intro sc' id a b i hr
    rw [addrRowAt_putSD] at hr
    by_cases hsc : sc = sc'
    · subst hsc
      simp only [if_true] at hr
      rcases haddr id a b i hr with h0 | ⟨row, p, cls, h1, h2, h3⟩
      · exact Or.inl (by rw [addrRowAt_of_getSD hsd]; exact h0)
      · exact Or.inr ⟨row, p, cls, by simp [h1], h2, h3⟩
    · simp [hsc] at hr; exact Or.inl hr
  · intro idx o hge ho
    simp at ho
    rw [List.getElem?_eq_none hge] at ho
    cases ho

theorem putSM_putSD_comm (s : State K P) (sc sc' : Scope) (sd : ScopeDisk K P) (sm : ScopeMem K P) :
    putSM (putSD s sc sd) sc' sm = putSD (putSM s sc' sm) sc sd := rfl

/-- allocate a key object, optionally queue it for derive-on-unlock, and rewrite the address cache of its scope -/
theorem Inv.addObj {hd : HD K P} {s : State K P} (h : Inv hd s) {sc : Scope} {sm : ScopeMem K P}
    (hsm : getSM s sc = some sm) (o : KeyObj K P) (hok : KeyObjOK hd s o)
    (addrs' : List (AddrId P × Nat)) (dou' : List (Nat × Nat × Nat))
    (hdou : dou' = sm.dou ∨ (dou' = sm.dou ++ [(s.mem.heap.length, o.branch, o.index)] ∧ o.scope = sc ∧ o.imported = false ∧
      (cacheAt s sc o.acct).isSome ∧ ∃ ap p, o.acctPub = some ap ∧ derive2pub hd ap o.branch o.index = some p ∧ o.pub = .hd p))
    (hsign : o.imported = false → o.hasPrivAcct = true → s.mem.watchOnly = false →
      o.privEnc.isSome ∨ (s.mem.locked = true ∧ o.scope = sc ∧ dou' = sm.dou ++ [(s.mem.heap.length, o.branch, o.index)])) :
    Inv hd (putSM (alloc s (.key o)).1 sc { sm with addrs := addrs', dou := dou' }) := by
  have hc : ∀ sc' a, cacheAt (putSM (alloc s (.key o)).1 sc { sm with addrs := addrs', dou := dou' }) sc' a = cacheAt s sc' a := by
    intro sc' a
    rw [cacheAt_putSM]
    by_cases hsc : sc = sc'
    · subst hsc; simp [cacheAt_of_getSM hsm]
    · simp [hsc]
  have hd' : ∀ sc', douAt (putSM (alloc s (.key o)).1 sc { sm with addrs := addrs', dou := dou' }) sc' =
      if sc = sc' then dou' else douAt s sc' := by
    intro sc'; rw [douAt_putSM]; simp
  have hnewidx : (putSM (alloc s (.key o)).1 sc { sm with addrs := addrs', dou := dou' }).mem.heap[s.mem.heap.length]? = some (.key o) := by
    simp
  refine h.extend rfl rfl rfl rfl rfl rfl (fun _ => rfl) (fun _ => rfl) (fun _ _ => rfl) (fun _ _ _ _ _ hr => Or.inl hr)
    (fun sc' a ai hca => Or.inl ⟨ai, by rw [hc] at hca; exact hca, rfl, rfl, rfl⟩) (fun sc' a x => by rw [hc]; exact x)
    [.key o] (by simp) ?_ ?_ ?_ ?_
  · intro o' ho'
    simp at ho'
    subst ho'
    exact KeyObjOK.congr (s := s) (fun _ _ => rfl) rfl hok
  · intro sc' e he
    rw [hd'] at he
    by_cases hsc : sc = sc'
    · subst hsc
      simp only [if_true] at he
      rcases hdou with h0 | ⟨h0, h1, h2, h3, h4⟩
      · rw [h0] at he; exact Or.inl (by rw [douAt_of_getSM hsm]; exact he)
      · rw [h0] at he
        rcases List.mem_append.mp he with he | he
        · exact Or.inl (by rw [douAt_of_getSM hsm]; exact he)
        · simp at he
          subst he
          exact Or.inr ⟨o, hnewidx, h2, h1, rfl, rfl, by rw [hc]; exact h3, h4⟩
    · simp [hsc] at he; exact Or.inl he
  · intro sc' e he
    rw [hd']
    by_cases hsc : sc = sc'
    · subst hsc
      simp only [if_true]
      rw [douAt_of_getSM hsm] at he
      rcases hdou with h0 | ⟨h0, _⟩ <;> rw [h0]
      · exact he
      · exact List.mem_append_left _ he
    · simp [hsc]; exact he
  · intro idx o' hge ho' hni hpa hw
    have hidx : idx = s.mem.heap.length := by
      rcases Nat.lt_or_ge s.mem.heap.length idx with hlt | hle
      · have : (s.mem.heap ++ [Obj.key o]).length ≤ idx := by simp; omega
        simp at ho'
        rw [List.getElem?_eq_none (by simpa using this)] at ho'
        cases ho'
      · omega
    subst hidx
    rw [hnewidx] at ho'
    cases ho'
    rcases hsign hni hpa hw with h1 | ⟨h1, h2, h3⟩
    · exact Or.inl h1
    · refine Or.inr ⟨h1, (s.mem.heap.length, o.branch, o.index), ?_, rfl⟩
      rw [hd', h2]
      simp [h3]

/-- allocating a script object changes nothing the invariant looks at -/
theorem Inv.addScr {hd : HD K P} {s : State K P} (h : Inv hd s) {sc : Scope} {sm : ScopeMem K P}
    (hsm : getSM s sc = some sm) (o : ScrObj) (addrs' : List (AddrId P × Nat)) :
    Inv hd (putSM (alloc s (.scr o)).1 sc { sm with addrs := addrs' }) := by
  have hc : ∀ sc' a, cacheAt (putSM (alloc s (.scr o)).1 sc { sm with addrs := addrs' }) sc' a = cacheAt s sc' a := by
    intro sc' a
    rw [cacheAt_putSM]
    by_cases hsc : sc = sc'
    · subst hsc; simp [cacheAt_of_getSM hsm]
    · simp [hsc]
  have hd' : ∀ sc', douAt (putSM (alloc s (.scr o)).1 sc { sm with addrs := addrs' }) sc' = douAt s sc' := by
    intro sc'; rw [douAt_putSM]
    by_cases hsc : sc = sc'
    · subst hsc; simp [douAt_of_getSM hsm]
    · simp [hsc]
  refine h.extend rfl rfl rfl rfl rfl rfl (fun _ => rfl) (fun _ => rfl) (fun _ _ => rfl) (fun _ _ _ _ _ hr => Or.inl hr)
    (fun sc' a ai hca => Or.inl ⟨ai, by rw [hc] at hca; exact hca, rfl, rfl, rfl⟩) (fun sc' a x => by rw [hc]; exact x)
    [.scr o] (by simp) (by intro o' ho'; simp at ho') (fun sc' e he => Or.inl (by rw [hd'] at he; exact he))
    (fun sc' e he => by rw [hd']; exact he) ?_
  intro idx o' hge ho'
  simp at ho'
  rcases Nat.lt_or_ge s.mem.heap.length idx with hlt | hle
  · rw [List.getElem?_eq_none (by simp; omega)] at ho'; cases ho'
  · have : idx = s.mem.heap.length := by omega
    subst this
    simp at ho'

/-- rewriting only the address cache of a scope -/
theorem Inv.setAddrs {hd : HD K P} {s : State K P} (h : Inv hd s) {sc : Scope} {sm : ScopeMem K P}
    (hsm : getSM s sc = some sm) (addrs' : List (AddrId P × Nat)) :
    Inv hd (putSM s sc { sm with addrs := addrs' }) := by
  have hc : ∀ sc' a, cacheAt (putSM s sc { sm with addrs := addrs' }) sc' a = cacheAt s sc' a := by
    intro sc' a
    rw [cacheAt_putSM]
    by_cases hsc : sc = sc'
    · subst hsc; simp [cacheAt_of_getSM hsm]
    · simp [hsc]
  have hd' : ∀ sc', douAt (putSM s sc { sm with addrs := addrs' }) sc' = douAt s sc' := by
    intro sc'; rw [douAt_putSM]
    by_cases hsc : sc = sc'
    · subst hsc; simp [douAt_of_getSM hsm]
    · simp [hsc]
  refine h.extend rfl rfl rfl rfl rfl rfl (fun _ => rfl) (fun _ => rfl) (fun _ _ => rfl) (fun _ _ _ _ _ hr => Or.inl hr)
    (fun sc' a ai hca => Or.inl ⟨ai, by rw [hc] at hca; exact hca, rfl, rfl, rfl⟩) (fun sc' a x => by rw [hc]; exact x)
    [] (by simp) (by intro o' ho'; cases ho') (fun sc' e he => Or.inl (by rw [hd'] at he; exact he))
    (fun sc' e he => by rw [hd']; exact he) ?_
  intro idx o' hge ho'
  simp at ho'
  rw [List.getElem?_eq_none hge] at ho'
  cases ho'

theorem Inv.bindH {hd : HD K P} {s : State K P} (h : Inv hd s) (hh i : Nat) : Inv hd (bindH s hh i) :=
  h.same (fun _ => rfl) (fun _ => rfl) rfl rfl rfl rfl rfl rfl rfl

theorem Inv.poison {hd : HD K P} {s : State K P} (h : Inv hd s) : Inv hd { s with poisoned := true } :=
  h.same (fun _ => rfl) (fun _ => rfl) rfl rfl rfl rfl rfl rfl rfl

end AddrDerive
