/-
Lemmas about the recovery model (C16): the birthday-block binary search and the per-branch horizon expansion.
-/
import BtcwVerif.Model.Recovery

namespace Recovery

/-! ## PART 1 — `locateBirthdayBlock` -/

/-- Timestamps are non-decreasing up to the best height. -/
def Mono (ts : Nat → Int) (best : Nat) : Prop := ∀ i j, i ≤ j → j ≤ best → ts i ≤ ts j

/-- General loop lemma: with `right - left < fuel` the loop returns, and the result lies in `[left, right]`.
    No monotonicity is needed: every iteration either returns or strictly shrinks `right - left`. -/
theorem locateLoop_terminates (ts : Nat → Int) (b delta : Int) (best : Nat) :
    ∀ (fuel left right : Nat), left ≤ right → right - left < fuel →
      ∃ r, locateLoop ts b delta best fuel left right = some r ∧ left ≤ r ∧ r ≤ right := by
  intro fuel
  induction fuel with
  | zero => intro left right _ h; omega
  | succ fuel ih =>
    intro left right hlr hf
    simp only [locateLoop]
    split
    · exact ⟨_, rfl, by omega, by omega⟩
    · rename_i hne
      have hml : left + (right - left) / 2 ≠ left := fun h => hne (Or.inr (Or.inr h))
      split
      · obtain ⟨r, hr, h1, h2⟩ := ih left (left + (right - left) / 2) (by omega) (by omega)
        exact ⟨r, hr, h1, by omega⟩
      · split
        · obtain ⟨r, hr, h1, h2⟩ := ih (left + (right - left) / 2) right (by omega) (by omega)
          exact ⟨r, hr, by omega, h2⟩
        · exact ⟨_, rfl, by omega, by omega⟩

/-- (a) The search always terminates within its fuel `best + 2`, with a height `≤ best`. -/
theorem birthday_terminates (ts : Nat → Int) (b delta : Int) (best : Nat) :
    ∃ r, locateBirthdayBlock ts b delta best = some r ∧ r ≤ best := by
  obtain ⟨r, hr, _, h2⟩ := locateLoop_terminates ts b delta best (best + 2) 0 best (by omega) (by omega)
  exact ⟨r, hr, h2⟩

theorem birthday_le_best (ts : Nat → Int) (b delta : Int) (best r : Nat)
    (h : locateBirthdayBlock ts b delta best = some r) : r ≤ best := by
  obtain ⟨r', hr', hle⟩ := birthday_terminates ts b delta best
  rw [h] at hr'; cases hr'; exact hle

/-- Loop invariant for "not late": `left = 0 ∨ ts left - b < -delta`. -/
theorem locateLoop_not_late (ts : Nat → Int) (b delta : Int) (hd : 0 ≤ delta) (best : Nat) :
    ∀ (fuel left right r : Nat), left ≤ right → right ≤ best →
      (left = 0 ∨ ts left - b < -delta) →
      locateLoop ts b delta best fuel left right = some r → r = 0 ∨ ts r ≤ b + delta := by
  intro fuel
  induction fuel with
  | zero => intro left right r _ _ _ h; simp [locateLoop] at h
  | succ fuel ih =>
    intro left right r hlr hrb hinv h
    simp only [locateLoop] at h
    split at h
    · rename_i hex
      cases h
      rcases hex with h0 | hb | hl
      · exact Or.inl h0
      · -- mid = best forces left = right = best
        have : left + (right - left) / 2 = left := by omega
        rw [this]
        rcases hinv with h0 | hlt
        · exact Or.inl h0
        · right; omega
      · rw [hl]
        rcases hinv with h0 | hlt
        · exact Or.inl h0
        · right; omega
    · split at h
      · exact ih left _ r (by omega) (by omega) hinv h
      · split at h
        · rename_i hlt
          exact ih _ right r (by omega) hrb (Or.inr hlt) h
        · cases h; right; omega

/-- (b) The returned block is not later than the birthday (up to the tolerance `delta`): it is block 0 or its
    timestamp is `≤ birthday + delta`.  (Monotonicity of the timestamps is not needed for this fact.) -/
theorem birthday_not_late' (ts : Nat → Int) (b delta : Int) (hd : 0 ≤ delta) (best : Nat) (r : Nat)
    (h : locateBirthdayBlock ts b delta best = some r) : r = 0 ∨ ts r ≤ b + delta :=
  locateLoop_not_late ts b delta hd best (best + 2) 0 best r (by omega) (by omega) (Or.inl rfl) h

/-- (b) with the signature of the specification (the `Mono` hypothesis is not used). -/
theorem birthday_not_late (ts : Nat → Int) (b delta : Int) (hd : 0 ≤ delta) (best : Nat) (_hm : Mono ts best)
    (r : Nat) (h : locateBirthdayBlock ts b delta best = some r) : r = 0 ∨ ts r ≤ b + delta :=
  birthday_not_late' ts b delta hd best r h

/-- (c) Every block up to and including the returned one has a timestamp `≤ birthday + delta`: no block that
    is too late to be skipped (timestamp `> birthday + delta`) is at or below the block the rescan starts after. -/
theorem birthday_skips_nothing (ts : Nat → Int) (b delta : Int) (hd : 0 ≤ delta) (best : Nat) (hm : Mono ts best)
    (r : Nat) (h : locateBirthdayBlock ts b delta best = some r) :
    ∀ k, k ≤ r → r ≠ 0 → ts k ≤ b + delta := by
  intro k hk hr0
  have hrb := birthday_le_best ts b delta best r h
  rcases birthday_not_late' ts b delta hd best r h with h0 | hle
  · exact absurd h0 hr0
  · exact Int.le_trans (hm k r hk hrb) hle

/-- Loop invariant for "not early": `right = best ∨ ts right - b > delta`. -/
theorem locateLoop_not_early (ts : Nat → Int) (b delta : Int) (hd : 0 ≤ delta) (best : Nat) :
    ∀ (fuel left right r : Nat), left ≤ right → right ≤ best →
      (left = 0 ∨ ts left - b < -delta) →
      (right = best ∨ ts right - b > delta) →
      locateLoop ts b delta best fuel left right = some r →
        best ≤ r + 1 ∨ -delta ≤ ts r - b ∨ ts (r + 1) - b > delta := by
  intro fuel
  induction fuel with
  | zero => intro left right r _ _ _ _ h; simp [locateLoop] at h
  | succ fuel ih =>
    intro left right r hlr hrb hinvl hinvr h
    simp only [locateLoop] at h
    split at h
    · rename_i hex
      cases h
      have hcase : right = left ∨ right = left + 1 := by omega
      have hm : left + (right - left) / 2 = left := by omega
      rw [hm]
      rcases hcase with he | he
      · -- left = right
        rcases hinvr with hb | hgt
        · left; omega
        · right; left; rw [he] at hgt; omega
      · rcases hinvr with hb | hgt
        · left; omega
        · right; right; rw [he] at hgt; exact hgt
    · split at h
      · rename_i hgt
        exact ih left _ r (by omega) (by omega) hinvl (Or.inr hgt) h
      · split at h
        · rename_i hlt
          exact ih _ right r (by omega) hrb (Or.inr hlt) hinvr h
        · cases h; right; left; omega

/-- (d) The returned block is not needlessly early: it is one of the last two blocks, or its timestamp is
    `≥ birthday - delta` (within tolerance), or the very next block is already later than `birthday + delta`. -/
theorem birthday_not_early (ts : Nat → Int) (b delta : Int) (hd : 0 ≤ delta) (best : Nat) (r : Nat)
    (h : locateBirthdayBlock ts b delta best = some r) :
    best ≤ r + 1 ∨ -delta ≤ ts r - b ∨ ts (r + 1) - b > delta :=
  locateLoop_not_early ts b delta hd best (best + 2) 0 best r (by omega) (by omega) (Or.inl rfl) (Or.inl rfl) h

/-! Non-vacuity: a monotone chain of 6 blocks, timestamps 0,10,20,30,40,50. -/

/-- birthday 31, tolerance 2: the search returns block 3 (timestamp 30), a middle block. -/
example : locateBirthdayBlock (fun h => 10 * (h : Int)) 31 2 5 = some 3 := by decide
/-- birthday 25, tolerance 2: nothing in tolerance; the search returns block 2 (timestamp 20 ≤ 25 + 2, and block 3 is later). -/
example : locateBirthdayBlock (fun h => 10 * (h : Int)) 25 2 5 = some 2 := by decide
example : Mono (fun h => 10 * (h : Int)) 5 := by
  intro i j hij _; show 10 * (i : Int) ≤ 10 * (j : Int); omega

/-! ## PART 2 — branch horizon -/

/-- Child index `i` derives to a valid key. -/
def Valid (inv : List Nat) (i : Nat) : Prop := inv.contains i = false

/-- Number of invalid child indexes in `[nu, n)`. -/
def numInv (inv : List Nat) (nu n : Nat) : Nat :=
  ((List.range n).filter (fun i => decide (nu ≤ i) && inv.contains i)).length

/-- Number of valid child indexes in `[nu, n)`. -/
def numValid (inv : List Nat) (nu n : Nat) : Nat :=
  ((List.range n).filter (fun i => decide (nu ≤ i) && !inv.contains i)).length

theorem numInv_succ (inv : List Nat) (nu n : Nat) :
    numInv inv nu (n + 1) = numInv inv nu n + if nu ≤ n ∧ inv.contains n = true then 1 else 0 := by
  simp only [numInv, List.range_succ, List.filter_append, List.length_append]
  congr 1
  by_cases h1 : nu ≤ n <;> cases h2 : inv.contains n <;>
    simp only [List.filter, h1, h2, decide_true, decide_false, Bool.and_true, Bool.and_false] <;> simp

theorem numValid_succ (inv : List Nat) (nu n : Nat) :
    numValid inv nu (n + 1) = numValid inv nu n + if nu ≤ n ∧ inv.contains n = false then 1 else 0 := by
  simp only [numValid, List.range_succ, List.filter_append, List.length_append]
  congr 1
  by_cases h1 : nu ≤ n <;> cases h2 : inv.contains n <;>
    simp only [List.filter, h1, h2, decide_true, decide_false, Bool.and_true, Bool.and_false,
      Bool.not_false, Bool.not_true] <;> simp

/-- Valid and invalid indexes partition `[nu, n)`. -/
theorem numValid_add_numInv (inv : List Nat) (nu n : Nat) : numValid inv nu n + numInv inv nu n = n - nu := by
  induction n with
  | zero => simp [numValid, numInv]
  | succ n ih =>
    rw [numValid_succ, numInv_succ]
    by_cases h1 : nu ≤ n <;> cases h2 : inv.contains n <;> simp [h1] <;> omega

/-- Every invalid index is below `invBound`. -/
theorem invBound_aux (l : List Nat) : ∀ (m : Nat),
    m ≤ l.foldl (fun m i => max m (i + 1)) m ∧ ∀ i, i ∈ l → i < l.foldl (fun m i => max m (i + 1)) m := by
  induction l with
  | nil => intro m; simp
  | cons a l ih =>
    intro m
    simp only [List.foldl_cons, List.mem_cons]
    obtain ⟨h1, h2⟩ := ih (max m (a + 1))
    refine ⟨by omega, ?_⟩
    intro i hi
    rcases hi with rfl | hi
    · omega
    · exact h2 i hi

theorem lt_invBound (inv : List Nat) (i : Nat) (h : inv.contains i = true) : i < invBound inv := by
  have hm : i ∈ inv := by simpa using h
  exact (invBound_aux inv 0).2 i hm

/-- Well-formedness of a branch w.r.t. the true invalid set, "up to index `n`". -/
structure OKat (inv : List Nat) (b : Branch) (n : Nat) : Prop where
  /-- every valid index below `n` is watched -/
  watched : ∀ i, i < n → Valid inv i → i ∈ b.addrs
  /-- invalid indexes in `[nextUnfound, n)` are recorded -/
  marked  : ∀ i, b.nextUnfound ≤ i → i < n → inv.contains i = true → i ∈ b.invalid
  sound   : ∀ i, i ∈ b.invalid → inv.contains i = true
  nodup   : b.invalid.Nodup

/-- The branch invariant: `OKat` up to the horizon. -/
def BranchOK (inv : List Nat) (b : Branch) : Prop := OKat inv b b.horizon

theorem OKat.mono {inv : List Nat} {b : Branch} {n m : Nat} (h : OKat inv b n) (hm : m ≤ n) : OKat inv b m :=
  ⟨fun i hi => h.watched i (by omega), fun i h1 h2 => h.marked i h1 (by omega), h.sound, h.nodup⟩

theorem nodup_insert {l : List Nat} (a : Nat) (h : l.Nodup) : (l.insert a).Nodup := by
  by_cases ha : a ∈ l
  · rw [List.insert_of_mem ha]; exact h
  · rw [List.insert_of_not_mem ha]; exact List.nodup_cons.mpr ⟨ha, h⟩

theorem branchOK_new (inv : List Nat) (w : Nat) : BranchOK inv (Branch.new w) :=
  ⟨fun i hi => by simp [Branch.new] at hi, fun i _ hi => by simp [Branch.new] at hi,
   fun i hi => by simp [Branch.new] at hi, by simp [Branch.new]⟩

/-- `ReportFound` preserves the invariant (for any reported index). -/
theorem OKat.reportFound {inv : List Nat} {b : Branch} {n : Nat} (h : OKat inv b n) (i : Nat) :
    OKat inv (b.reportFound i) n := by
  unfold Branch.reportFound
  split
  · rename_i hi
    refine ⟨h.watched, ?_, ?_, ?_⟩
    · intro j hj hjn hinv
      simp only at hj
      simp only [List.mem_filter]
      exact ⟨h.marked j (by omega) hjn hinv, by simp; omega⟩
    · intro j hj
      simp only [List.mem_filter] at hj
      exact h.sound j hj.1
    · exact List.Nodup.sublist List.filter_sublist h.nodup
  · exact h

theorem branchOK_reportFound {inv : List Nat} {b : Branch} (h : BranchOK inv b) (i : Nat) :
    BranchOK inv (b.reportFound i) := by
  have := OKat.reportFound h i
  unfold BranchOK
  have hh : (b.reportFound i).horizon = b.horizon := by unfold Branch.reportFound; split <;> rfl
  rw [hh]; exact this

/-- `AddAddr` of the next (valid) child extends well-formedness by one index. -/
theorem OKat.addAddr {inv : List Nat} {b : Branch} {n : Nat} (hok : OKat inv b n) (hinv : inv.contains n = false) :
    OKat inv (b.addAddr n) (n + 1) := by
  refine ⟨?_, ?_, hok.sound, hok.nodup⟩
  · intro i hi hv
    simp only [Branch.addAddr, List.mem_insert_iff]
    by_cases hic : i = n
    · exact Or.inl hic
    · exact Or.inr (hok.watched i (by omega) hv)
  · intro i h1 h2 h3
    by_cases hic : i = n
    · rw [hic, hinv] at h3; cases h3
    · exact hok.marked i h1 (by omega) h3

/-- `MarkInvalidChild` of the next (invalid) child extends well-formedness by one index. -/
theorem OKat.markInvalid {inv : List Nat} {b : Branch} {n : Nat} (hok : OKat inv b n) (hinv : inv.contains n = true) :
    OKat inv (b.markInvalid n) (n + 1) := by
  refine ⟨?_, ?_, ?_, nodup_insert _ hok.nodup⟩
  · intro i hi hv
    have hic : i ≠ n := by
      intro hic; rw [hic] at hv; unfold Valid at hv; rw [hinv] at hv; cases hv
    exact hok.watched i (by omega) hv
  · intro i h1 h2 h3
    simp only [Branch.markInvalid, List.mem_insert_iff]
    by_cases hic : i = n
    · exact Or.inl hic
    · exact Or.inr (hok.marked i h1 (by omega) h3)
  · intro i hi
    simp only [Branch.markInvalid, List.mem_insert_iff] at hi
    rcases hi with rfl | hi
    · exact hinv
    · exact hok.sound i hi

/-! ### counting the recorded invalid children -/

theorem filter_length_le_of_imp {l : List Nat} {p q : Nat → Bool} (hpq : ∀ x, p x = true → q x = true) :
    (l.filter p).length ≤ (l.filter q).length := by
  induction l with
  | nil => simp
  | cons a l ih =>
    simp only [List.filter_cons]
    cases hp : p a
    · cases hq : q a <;> simp <;> omega
    · simp [hpq a hp]; omega

theorem filter_length_lt_of_imp {l : List Nat} {p q : Nat → Bool} (hpq : ∀ x, p x = true → q x = true)
    (x : Nat) (hx : x ∈ l) (hq : q x = true) (hp : p x = false) :
    (l.filter p).length < (l.filter q).length := by
  induction l with
  | nil => simp at hx
  | cons a l ih =>
    simp only [List.filter_cons]
    rcases List.mem_cons.mp hx with rfl | hx'
    · have := filter_length_le_of_imp (l := l) hpq
      simp [hq, hp]; omega
    · have := ih hx'
      cases hpa : p a
      · cases hqa : q a <;> simp <;> omega
      · simp [hpq a hpa]; omega

/-- The recorded invalid children in `[nextUnfound, n)` are at least the true ones. -/
theorem numInv_le_recorded (inv : List Nat) (b : Branch) :
    ∀ n, (∀ i, b.nextUnfound ≤ i → i < n → inv.contains i = true → i ∈ b.invalid) →
      numInv inv b.nextUnfound n ≤
        (b.invalid.filter (fun c => decide (b.nextUnfound ≤ c) && decide (c < n))).length := by
  intro n
  induction n with
  | zero => intro _; simp [numInv]
  | succ n ih =>
    intro hm
    have ih' := ih (fun i h1 h2 h3 => hm i h1 (by omega) h3)
    rw [numInv_succ]
    have himp : ∀ x, (decide (b.nextUnfound ≤ x) && decide (x < n)) = true →
        (decide (b.nextUnfound ≤ x) && decide (x < n + 1)) = true := by
      intro x hx; simp at hx ⊢; omega
    split
    · rename_i hc
      have hmem := hm n hc.1 (by omega) hc.2
      have := filter_length_lt_of_imp (l := b.invalid) himp n hmem (by simp; exact hc.1) (by simp)
      omega
    · have := filter_length_le_of_imp (l := b.invalid) himp
      omega

/-! ### the derive loop -/

/-- Loop lemma for `deriveLoop`: with enough fuel (`todo` valid children still to derive plus all invalid
    indexes `≥ child`), the invariant `horizon = child + todo`, the branch well-formed up to `child`, and
    `horizon ≥ nextUnfound + window + #invalid in [nextUnfound, child)`, the loop ends with a well-formed branch
    whose horizon is at least `nextUnfound + window + #invalid in [nextUnfound, horizon)`. -/
theorem deriveLoop_spec (inv : List Nat) : ∀ (fuel : Nat) (b : Branch) (todo child : Nat),
    todo + (invBound inv - child) + 1 ≤ fuel → b.horizon = child + todo → OKat inv b child →
    b.nextUnfound + b.window + numInv inv b.nextUnfound child ≤ b.horizon →
    BranchOK inv (deriveLoop (fun i => inv.contains i) fuel b todo child) ∧
    (deriveLoop (fun i => inv.contains i) fuel b todo child).nextUnfound = b.nextUnfound ∧
    (deriveLoop (fun i => inv.contains i) fuel b todo child).window = b.window ∧
    b.nextUnfound + b.window +
        numInv inv b.nextUnfound (deriveLoop (fun i => inv.contains i) fuel b todo child).horizon
      ≤ (deriveLoop (fun i => inv.contains i) fuel b todo child).horizon ∧
    b.horizon ≤ (deriveLoop (fun i => inv.contains i) fuel b todo child).horizon ∧
    (∀ i, i ∈ b.addrs → i ∈ (deriveLoop (fun i => inv.contains i) fuel b todo child).addrs) := by
  intro fuel
  induction fuel with
  | zero => intro b todo child hf; omega
  | succ fuel ih =>
    intro b todo child hf hh hok hn
    cases todo with
    | zero =>
      have e : deriveLoop (fun i => inv.contains i) (fuel + 1) b 0 child = b := rfl
      rw [e]
      have hc : b.horizon = child := by omega
      refine ⟨?_, rfl, rfl, ?_, Nat.le_refl _, fun i hi => hi⟩
      · unfold BranchOK; rw [hc]; exact hok
      · rw [hc]; omega
    | succ todo' =>
      simp only [deriveLoop]
      by_cases hinv' : inv.contains child = true
      case neg =>
        -- valid child: AddAddr
        have hinv : inv.contains child = false := eq_false_of_ne_true hinv'
        rw [if_neg hinv']
        have hok' : OKat inv (b.addAddr child) (child + 1) := hok.addAddr hinv
        have hn' : b.nextUnfound + b.window + numInv inv b.nextUnfound (child + 1) ≤ b.horizon := by
          rw [numInv_succ, if_neg (fun h => by rw [hinv] at h; cases h.2)]; exact hn
        obtain ⟨r1, r2, r3, r4, r5, r6⟩ := ih (b.addAddr child) todo' (child + 1) (by omega)
          (by simp [Branch.addAddr]; omega) hok' hn'
        refine ⟨r1, r2, r3, r4, r5, ?_⟩
        intro i hi
        exact r6 i (by simp only [Branch.addAddr, List.mem_insert_iff]; exact Or.inr hi)
      case pos =>
        -- invalid child: MarkInvalidChild
        have hinv := hinv'
        rw [if_pos hinv']
        have hlt := lt_invBound inv child hinv
        have hok' : OKat inv (b.markInvalid child) (child + 1) := hok.markInvalid hinv
        have hn' : b.nextUnfound + b.window + numInv inv b.nextUnfound (child + 1) ≤ b.horizon + 1 := by
          rw [numInv_succ]
          have : (if b.nextUnfound ≤ child ∧ inv.contains child = true then 1 else 0) ≤ 1 := by split <;> omega
          omega
        obtain ⟨r1, r2, r3, r4, r5, r6⟩ := ih (b.markInvalid child) (todo' + 1) (child + 1) (by omega)
          (by simp [Branch.markInvalid]; omega) hok' hn'
        refine ⟨r1, r2, r3, r4, ?_, r6⟩
        have r5' : b.horizon + 1 ≤ _ := r5
        omega

/-! ### `expand` (expandScopeHorizons for one branch) -/

/-- Everything we know about `expand`: the invariant is kept, `nextUnfound`/`window` are unchanged, the horizon
    only grows, nothing is un-watched, and the horizon ends at least at
    `nextUnfound + window + #invalid children in [nextUnfound, horizon)` — "invalid children extend the horizon".
    In particular the fuel given to `deriveLoop` in `expand` is never exhausted. -/
theorem expand_spec (inv : List Nat) (b : Branch) (h : BranchOK inv b) :
    BranchOK inv (expand inv b) ∧
    (expand inv b).nextUnfound = b.nextUnfound ∧
    (expand inv b).window = b.window ∧
    b.nextUnfound + b.window + numInv inv b.nextUnfound (expand inv b).horizon ≤ (expand inv b).horizon ∧
    b.horizon ≤ (expand inv b).horizon ∧
    (∀ i, i ∈ b.addrs → i ∈ (expand inv b).addrs) := by
  have hrec : numInv inv b.nextUnfound b.horizon ≤ b.numInvalidInHorizon :=
    numInv_le_recorded inv b b.horizon h.marked
  by_cases hc : b.horizon ≥ b.nextUnfound + b.window + b.numInvalidInHorizon
  · have e : expand inv b = deriveLoop (fun i => inv.contains i) (0 + (invBound inv - b.horizon) + 1) b 0 b.horizon := by
      simp only [expand, Branch.extendHorizon, if_pos hc]
    rw [e]
    exact deriveLoop_spec inv _ b 0 b.horizon (Nat.le_refl _) rfl h (by omega)
  · have e : expand inv b = deriveLoop (fun i => inv.contains i)
        ((b.nextUnfound + b.window + b.numInvalidInHorizon - b.horizon) + (invBound inv - b.horizon) + 1)
        { b with horizon := b.nextUnfound + b.window + b.numInvalidInHorizon }
        (b.nextUnfound + b.window + b.numInvalidInHorizon - b.horizon) b.horizon := by
      simp only [expand, Branch.extendHorizon, if_neg hc]
    rw [e]
    have hs := deriveLoop_spec inv _ { b with horizon := b.nextUnfound + b.window + b.numInvalidInHorizon }
      (b.nextUnfound + b.window + b.numInvalidInHorizon - b.horizon) b.horizon (Nat.le_refl _)
      (by show b.nextUnfound + b.window + b.numInvalidInHorizon = _; omega)
      ⟨h.watched, h.marked, h.sound, h.nodup⟩
      (by show b.nextUnfound + b.window + numInv inv b.nextUnfound b.horizon ≤
            b.nextUnfound + b.window + b.numInvalidInHorizon; omega)
    obtain ⟨r1, r2, r3, r4, r5, r6⟩ := hs
    refine ⟨r1, r2, r3, r4, ?_, r6⟩
    have r5' : b.nextUnfound + b.window + b.numInvalidInHorizon ≤ _ := r5
    omega

/-- MAIN (membership form): after `expandScopeHorizons`, the branch is well-formed, `nextUnfound` is unchanged,
    the horizon is at least `nextUnfound + window`, and every valid child below `nextUnfound + window` is watched. -/
theorem branch_horizon (inv : List Nat) (b : Branch) (h : BranchOK inv b) :
    let b' := expand inv b
    BranchOK inv b' ∧ b'.nextUnfound = b.nextUnfound ∧ b'.nextUnfound + b'.window ≤ b'.horizon ∧
      (∀ i, i < b'.nextUnfound + b'.window → Valid inv i → i ∈ b'.addrs) := by
  intro b'
  obtain ⟨r1, r2, r3, r4, _, _⟩ := expand_spec inv b h
  have hle : b'.nextUnfound + b'.window ≤ b'.horizon := by
    show (expand inv b).nextUnfound + (expand inv b).window ≤ (expand inv b).horizon
    rw [r2, r3]; omega
  exact ⟨r1, r2, hle, fun i hi hv => r1.watched i (Nat.lt_of_lt_of_le hi hle) hv⟩

/-- MAIN (counting form): after `expandScopeHorizons` at least `window` *valid* children in
    `[nextUnfound, horizon)` are watched — invalid children do not use up the look-ahead window. -/
theorem branch_horizon_count (inv : List Nat) (b : Branch) (h : BranchOK inv b) :
    let b' := expand inv b
    b'.window ≤ ((List.range b'.horizon).filter (fun i => decide (b'.nextUnfound ≤ i) && !inv.contains i)).length ∧
    (∀ i, i ∈ (List.range b'.horizon).filter (fun i => decide (b'.nextUnfound ≤ i) && !inv.contains i) →
        i ∈ b'.addrs) := by
  intro b'
  obtain ⟨r1, r2, r3, r4, _, _⟩ := expand_spec inv b h
  constructor
  · have hp := numValid_add_numInv inv b.nextUnfound (expand inv b).horizon
    show (expand inv b).window ≤ numValid inv (expand inv b).nextUnfound (expand inv b).horizon
    rw [r2, r3]; omega
  · intro i hi
    simp only [List.mem_filter, List.mem_range, Bool.and_eq_true, Bool.not_eq_true', decide_eq_true_eq] at hi
    exact r1.watched i hi.1 hi.2.2

/-! ### `Resurrect` followed by `expandScopeHorizons` -/

/-- The fold of `resurrectBranch` over the first `count` children. -/
theorem resurrect_fold (w : Nat) (inv : List Nat) : ∀ count,
    OKat inv ((List.range count).foldl
        (fun b i => if inv.contains i then b.markInvalid i else b.addAddr i) (Branch.new w)) count ∧
    ((List.range count).foldl
        (fun b i => if inv.contains i then b.markInvalid i else b.addAddr i) (Branch.new w)).nextUnfound = 0 ∧
    ((List.range count).foldl
        (fun b i => if inv.contains i then b.markInvalid i else b.addAddr i) (Branch.new w)).window = w ∧
    ((List.range count).foldl
        (fun b i => if inv.contains i then b.markInvalid i else b.addAddr i) (Branch.new w)).horizon ≤ count := by
  intro count
  induction count with
  | zero => exact ⟨branchOK_new inv w, rfl, rfl, Nat.le_refl _⟩
  | succ k ih =>
    rw [List.range_succ, List.foldl_append]
    simp only [List.foldl_cons, List.foldl_nil]
    obtain ⟨h1, h2, h3, h4⟩ := ih
    by_cases hinv : inv.contains k = true
    · rw [if_pos hinv]
      exact ⟨h1.markInvalid hinv, h2, h3, Nat.succ_le_succ h4⟩
    · rw [if_neg hinv]
      exact ⟨h1.addAddr (eq_false_of_ne_true hinv), h2, h3, Nat.le_trans h4 (Nat.le_succ k)⟩

/-- The resurrected branch is well-formed (its horizon is small: the number of invalid children below `count`),
    knows every valid child below `count`, and has `nextUnfound = count`. -/
theorem resurrect_ok (w : Nat) (inv : List Nat) (count : Nat) :
    BranchOK inv (resurrectBranch w inv count) ∧
    OKat inv (resurrectBranch w inv count) count ∧
    (resurrectBranch w inv count).nextUnfound = count ∧
    (resurrectBranch w inv count).window = w := by
  obtain ⟨h1, h2, h3, h4⟩ := resurrect_fold w inv count
  unfold resurrectBranch
  by_cases hc : count > 0
  · simp only [if_pos hc]
    generalize (List.range count).foldl
      (fun b i => if inv.contains i then b.markInvalid i else b.addAddr i) (Branch.new w) = b at h1 h2 h3 h4
    have hge : count - 1 ≥ b.nextUnfound := by omega
    have e : b.reportFound (count - 1) =
        { b with nextUnfound := count - 1 + 1, invalid := b.invalid.filter (fun c => !decide (c < count - 1)) } := by
      simp only [Branch.reportFound, if_pos hge]
    have hok := h1.reportFound (count - 1)
    refine ⟨?_, hok, ?_, ?_⟩
    · have hh : (b.reportFound (count - 1)).horizon = b.horizon := by rw [e]
      unfold BranchOK; rw [hh]; exact hok.mono h4
    · rw [e]; show count - 1 + 1 = count; omega
    · rw [e]; exact h3
  · simp only [if_neg hc]
    have h0 : count = 0 := by omega
    subst h0
    exact ⟨h1.mono h4, h1, h2, h3⟩

/-- After a restart (`Resurrect`, horizon not restored) the next `expandScopeHorizons` again watches every valid
    child below `count + window`, where `count` is the number of keys the address manager has for the branch. -/
theorem resurrect_expand_horizon (w : Nat) (inv : List Nat) (count : Nat) :
    let b' := expand inv (resurrectBranch w inv count)
    BranchOK inv b' ∧ b'.nextUnfound = count ∧ b'.window = w ∧ count + w ≤ b'.horizon ∧
      (∀ i, i < count + w → Valid inv i → i ∈ b'.addrs) ∧
      w ≤ ((List.range b'.horizon).filter (fun i => decide (count ≤ i) && !inv.contains i)).length := by
  intro b'
  obtain ⟨h1, _, h3, h4⟩ := resurrect_ok w inv count
  obtain ⟨r1, r2, r3, r4, _, _⟩ := expand_spec inv _ h1
  rw [h3] at r2
  rw [h4] at r3
  rw [h3, h4] at r4
  have hle : count + w ≤ b'.horizon := by
    show count + w ≤ (expand inv (resurrectBranch w inv count)).horizon; omega
  refine ⟨r1, r2, r3, hle, fun i hi hv => r1.watched i (Nat.lt_of_lt_of_le hi hle) hv, ?_⟩
  have hp := numValid_add_numInv inv count (expand inv (resurrectBranch w inv count)).horizon
  show w ≤ numValid inv count (expand inv (resurrectBranch w inv count)).horizon
  omega

/-! ### Non-vacuity: children 2 and 3 invalid, window 2 -/

/-- From a fresh branch: children 0,1 are watched, horizon 2 (no invalid child met yet). -/
example : expand [2, 3] (Branch.new 2) = ⟨2, 2, 0, [1, 0], []⟩ := by decide
/-- After child 1 was found (`nextUnfound = 2`): the loop meets the invalid children 2 and 3, records them, and
    still derives two valid children 4 and 5; horizon = 2 + 2 + 2 = 6. -/
example : expand [2, 3] ((expand [2, 3] (Branch.new 2)).reportFound 1) = ⟨2, 6, 2, [5, 4, 1, 0], [3, 2]⟩ := by decide
/-- A second expansion with nothing new found changes nothing (the two recorded invalid children are counted). -/
example : expand [2, 3] (expand [2, 3] ((expand [2, 3] (Branch.new 2)).reportFound 1)) =
    ⟨2, 6, 2, [5, 4, 1, 0], [3, 2]⟩ := by decide
/-- Resurrect with 3 keys known (children 0,1 valid, 2 invalid): horizon restarts at 1, `nextUnfound = 3`. -/
example : resurrectBranch 2 [2, 3] 3 = ⟨2, 1, 3, [1, 0], [2]⟩ := by decide
/-- …and the next expansion watches the valid children 4 and 5 (= the window above `count = 3`, skipping the
    invalid 3).  It even goes one further (6): the loop restarts at child 1 and counts the re-derived child 1 as one
    of the `delta` new ones while child 2 is marked a second time (horizon + 1 again) — harmless over-extension. -/
example : expand [2, 3] (resurrectBranch 2 [2, 3] 3) = ⟨2, 7, 3, [6, 5, 4, 1, 0], [3, 2]⟩ := by decide

end Recovery
