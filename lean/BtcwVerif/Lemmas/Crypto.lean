import BtcwVerif.Model.Crypto
/-!
Helper lemmas and the *assumption vocabulary* for C17:

* byte-level facts about `leBytes/leNat/toU64/ofU64` (little-endian uint64, Go int⇄uint64);
* the laws assumed of `secretbox` (`AEAD.Correct`, `AEAD.Binding`, `AEAD.Distance`) and of `sha256∘scrypt`
  (`KDF.Binding`) — plain `Prop`s used as hypotheses, never axioms;
* proofs that the toy instance of the driver satisfies `Correct`, `Binding` and `Distance` (non-vacuity).
Core Lean only.
-/
namespace Crypto

/-! ## Except simp lemmas are not needed: the model uses `match` only. -/

/-! ## little endian -/

theorem leBytes_length (n v : Nat) : (leBytes n v).length = n := by
  induction n generalizing v with
  | zero => rfl
  | succ n ih => simp [leBytes, ih]

theorem leNat_leBytes (n v : Nat) : leNat (leBytes n v) = v % 256 ^ n := by
  induction n generalizing v with
  | zero => simp [leBytes, leNat, Nat.mod_one]
  | succ n ih =>
    show (UInt8.ofNat v).toNat + 256 * leNat (leBytes n (v / 256)) = v % 256 ^ (n + 1)
    have e : 256 ^ (n + 1) = 256 * 256 ^ n := by rw [Nat.pow_succ, Nat.mul_comm]
    rw [ih, UInt8.toNat_ofNat', e, Nat.mod_mul]

theorem leNat_lt (b : Bytes) : leNat b < 256 ^ b.length := by
  induction b with
  | nil => simp [leNat]
  | cons x xs ih =>
    simp only [leNat, List.length_cons, Nat.pow_succ]
    have := UInt8.toNat_lt x
    omega

theorem leBytes_leNat (b : Bytes) : leBytes b.length (leNat b) = b := by
  induction b with
  | nil => rfl
  | cons x xs ih =>
    simp only [List.length_cons, leBytes, leNat]
    have hx := UInt8.toNat_lt x
    have h1 : (x.toNat + 256 * leNat xs) / 256 = leNat xs := by omega
    have h2 : UInt8.ofNat (x.toNat + 256 * leNat xs) = x := by
      apply UInt8.toNat_inj.mp
      rw [UInt8.toNat_ofNat']
      omega
    rw [h1, h2, ih]

theorem two64_eq : two64 = 256 ^ 8 := by decide
theorem toU64_lt (i : Int) : toU64 i < two64 := by
  unfold toU64 two64
  omega

theorem ofU64_toU64 (i : Int) (lo : -(two63 : Int) ≤ i) (hi : i < (two63 : Int)) : ofU64 (toU64 i) = i := by
  unfold ofU64 toU64 two63 two64 at *
  split <;> omega

theorem toU64_ofU64 (n : Nat) (h : n < two64) : toU64 (ofU64 n) = n := by
  unfold ofU64 toU64 two63 two64 at *
  split <;> omega

theorem ofU64_range (n : Nat) (h : n < two64) : -(two63 : Int) ≤ ofU64 n ∧ ofU64 n < (two63 : Int) := by
  unfold ofU64 two63 two64 at *
  split <;> omega

/-- decode∘encode of one stored integer field -/
theorem field_roundtrip (i : Int) (lo : -(two63 : Int) ≤ i) (hi : i < (two63 : Int)) :
    ofU64 (leNat (leBytes 8 (toU64 i))) = i := by
  rw [leNat_leBytes, ← two64_eq, Nat.mod_eq_of_lt (toU64_lt i), ofU64_toU64 i lo hi]

/-- encode∘decode of one stored integer field -/
theorem field_roundtrip' (b : Bytes) (h : b.length = 8) : leBytes 8 (toU64 (ofU64 (leNat b))) = b := by
  have hlt : leNat b < two64 := by have := leNat_lt b; rw [h] at this; rw [two64_eq]; exact this
  rw [toU64_ofU64 _ hlt, ← h, leBytes_leNat]

/-! ## Laws assumed of the AEAD (hypotheses of theorems) -/

/-- Functional laws. These hold of the real `secretbox` by construction (Open recomputes the Poly1305 tag of the
box body and compares it; the tag function is deterministic) — no cryptographic assumption is involved. -/
structure AEAD.Correct (A : AEAD) : Prop where
  /-- Open∘Seal = id -/
  open_seal : ∀ k n m, A.openF k n (A.sealF k n m) = some m
  /-- the only boxes that open under (k, n) are outputs of Seal under (k, n) -/
  open_sound : ∀ k n b m, A.openF k n b = some m → b = A.sealF k n m
  /-- `len(box) = len(msg) + Overhead` -/
  seal_length : ∀ k n m, (A.sealF k n m).length = m.length + overhead

/-- Key binding (idealised): under one nonce, boxes sealed under distinct keys of the class `K` never coincide.
Cannot hold for all 2^256 keys with a 16-byte tag (pigeonhole); it is the cryptographic assumption "infeasible
to find", stated for the keys in use. -/
def AEAD.Binding (A : AEAD) (K : Bytes → Prop) : Prop :=
  ∀ k k' n m m', K k → K k' → A.sealF k n m = A.sealF k' n m' → k = k'

/-- `c'` is `c` with exactly one bit flipped. -/
def isBitFlip (c c' : Bytes) : Prop := ∃ i, i < 8 * c.length ∧ c' = flipBit c i

/-- `c'` is a proper prefix (truncation) of `c`. -/
def isTruncation (c c' : Bytes) : Prop := ∃ j, j < c.length ∧ c' = c.take j

/-- Go slice lengths are below 2^63. -/
def maxLen : Nat := 9223372036854775808

/-- Unforgeability restricted to what C17 quantifies over (idealised): two *different* genuine ciphertexts under
the same key are never one bit flip apart and never a truncation of one another; i.e. flipping a bit of / truncating
a genuine ciphertext never yields another genuine ciphertext. -/
def AEAD.Distance (A : AEAD) (k : Bytes) : Prop :=
  ∀ n m n' m', n.length = nonceSize → n'.length = nonceSize → m.length < maxLen → m'.length < maxLen →
    encryptWith A n' k m' ≠ encryptWith A n k m →
      ¬ isBitFlip (encryptWith A n k m) (encryptWith A n' k m') ∧
      ¬ isTruncation (encryptWith A n k m) (encryptWith A n' k m')

/-- Collision resistance of `sha256 ∘ scrypt` on a class `B` of HMAC key blocks (idealised; cannot hold on all
byte strings). -/
def KDF.Binding (K : KDF) (salt : Bytes) (N R P : Int) (B : Bytes → Prop) : Prop :=
  ∀ b b', B b → B b' → K.hash (K.kdf b salt N R P) = K.hash (K.kdf b' salt N R P) → b = b'

/-! ## flipBit -/

theorem flipBit_length (c : Bytes) (i : Nat) : (flipBit c i).length = c.length := by
  simp [flipBit]

theorem one_shl_ne_zero (s : Nat) (h : s < 8) : ((1 : UInt8) <<< UInt8.ofNat s) ≠ 0 := by
  have : s = 0 ∨ s = 1 ∨ s = 2 ∨ s = 3 ∨ s = 4 ∨ s = 5 ∨ s = 6 ∨ s = 7 := by omega
  rcases this with h | h | h | h | h | h | h | h <;> subst h <;> decide

theorem xor_ne_self (b x : UInt8) (hx : x ≠ 0) : b ^^^ x ≠ b := by
  intro h
  apply hx
  have : x = b ^^^ (b ^^^ x) := by rw [← UInt8.xor_assoc, UInt8.xor_self, UInt8.zero_xor]
  rw [this, h, UInt8.xor_self]

theorem flipBit_ne (c : Bytes) (i : Nat) (h : i < 8 * c.length) : flipBit c i ≠ c := by
  intro heq
  have hi : i / 8 < c.length := by omega
  have h1 : (flipBit c i)[i / 8]? = c[i / 8]? := by rw [heq]
  unfold flipBit at h1
  rw [List.getElem?_modify_eq] at h1
  rw [List.getElem?_eq_getElem hi] at h1
  have h2 : c[i / 8] ^^^ ((1 : UInt8) <<< UInt8.ofNat (i % 8)) = c[i / 8] := by simpa using h1
  exact xor_ne_self _ _ (one_shl_ne_zero (i % 8) (Nat.mod_lt _ (by decide))) h2

/-! ## List.modify over append; zero padding -/

theorem modify_append_left {α} (f : α → α) (l₁ l₂ : List α) (i : Nat) (h : i < l₁.length) :
    (l₁ ++ l₂).modify i f = l₁.modify i f ++ l₂ := by
  induction l₁ generalizing i with
  | nil => simp at h
  | cons x xs ih =>
    cases i with
    | zero => simp
    | succ i => simp [ih i (by simpa using h)]

theorem modify_append_right {α} (f : α → α) (l₁ l₂ : List α) (i : Nat) (h : l₁.length ≤ i) :
    (l₁ ++ l₂).modify i f = l₁ ++ l₂.modify (i - l₁.length) f := by
  induction l₁ generalizing i with
  | nil => simp
  | cons x xs ih =>
    cases i with
    | zero => simp at h
    | succ i =>
      have e : i + 1 - (x :: xs).length = i - xs.length := by simp
      rw [e]
      simp [ih i (by simpa using h)]

theorem pad_inj_aux (a b a' : Bytes) (x y : Nat) (hb : b = a ++ a') (hr : List.replicate x (0:UInt8) = a' ++ List.replicate y 0)
    (hz : b.getLast? ≠ some 0) : a = b := by
  cases a' with
  | nil => simpa using hb.symm
  | cons e es =>
    exfalso
    apply hz
    have hne : (e :: es) ≠ [] := by simp
    rw [hb, List.getLast?_append, List.getLast?_eq_some_getLast hne, Option.some_or]
    have hmem : (e :: es).getLast hne ∈ List.replicate x (0:UInt8) := by
      rw [hr]; exact List.mem_append_left _ (List.getLast_mem hne)
    rw [(List.mem_replicate.mp hmem).2]

theorem pad_inj (a b : Bytes) (x y : Nat) (h : a ++ List.replicate x (0:UInt8) = b ++ List.replicate y 0)
    (hza : a.getLast? ≠ some 0) (hzb : b.getLast? ≠ some 0) : a = b := by
  rcases List.append_eq_append_iff.mp h with ⟨a', hb, hr⟩ | ⟨c', ha, hr⟩
  · exact pad_inj_aux a b a' x y hb hr hzb
  · exact (pad_inj_aux b a c' y x ha hr hza).symm

/-! ## the toy AEAD is lawful -/
namespace Toy

theorem xorBytes_length (a b : Bytes) : (xorBytes a b).length = min a.length b.length := by
  simp [xorBytes]

theorem xorBytes_invol (m s : Bytes) (h : m.length ≤ s.length) : xorBytes (xorBytes m s) s = m := by
  induction m generalizing s with
  | nil => simp [xorBytes]
  | cons x xs ih =>
    cases s with
    | nil => simp at h
    | cons y ys =>
      simp only [xorBytes, List.zipWith_cons_cons, List.cons.injEq]
      constructor
      · rw [UInt8.xor_assoc, UInt8.xor_self, UInt8.xor_zero]
      · exact ih ys (by simpa using h)

theorem xorBytes_cancel (a b c : Bytes) (ha : a.length ≤ c.length) (hb : b.length ≤ c.length)
    (h : xorBytes a c = xorBytes b c) : a = b := by
  rw [← xorBytes_invol a c ha, ← xorBytes_invol b c hb, h]

theorem stream_length (k n : Bytes) (len : Nat) : (stream k n len).length = len := by
  simp [stream]

theorem keyPart_length (k : Bytes) : (keyPart k).length = overhead := by
  simp [keyPart, overhead]

theorem check_length (n body : Bytes) : (check n body).length = overhead := by
  simp [check, leBytes_length, overhead]

theorem tag_length (k n body : Bytes) : (tag k n body).length = overhead := by
  simp [tag, xorBytes_length, keyPart_length, check_length]

theorem body_length (k n m : Bytes) : (xorBytes m (stream k n m.length)).length = m.length := by
  simp [xorBytes_length, stream_length]

theorem aead_correct : aead.Correct where
  open_seal := by
    intro k n m
    show openB k n (sealB k n m) = some m
    unfold openB sealB
    have hb := body_length k n m
    have ht := tag_length k n (xorBytes m (stream k n m.length))
    simp only [List.length_append, ht]
    rw [if_neg (by omega)]
    rw [List.drop_left' ht, List.take_left' ht]
    simp only [if_true, hb]
    rw [xorBytes_invol m _ (by simp [stream_length])]
  open_sound := by
    intro k n b m h
    show b = sealB k n m
    change openB k n b = some m at h
    unfold openB at h
    split at h
    · cases h
    · rename_i hlen
      dsimp only at h
      split at h
      · rename_i htag
        cases h
        unfold sealB
        have hbl : (xorBytes (List.drop overhead b) (stream k n (List.drop overhead b).length)).length
            = (List.drop overhead b).length := by simp [xorBytes_length, stream_length]
        simp only [hbl]
        rw [xorBytes_invol _ _ (by simp [stream_length])]
        rw [← htag, List.take_append_drop]
      · cases h
  seal_length := by
    intro k n m
    show (sealB k n m).length = m.length + overhead
    unfold sealB
    simp only [List.length_append, tag_length, body_length]
    omega

theorem keyPart_of_good (k : Bytes) (h : GoodKey k) : k = keyPart k ++ List.replicate overhead 0 := by
  obtain ⟨hl, hz⟩ := h
  have : keyPart k = k.take overhead := by
    unfold keyPart
    rw [List.take_append_of_le_length (by simp [hl, keySize, overhead])]
  rw [this, ← hz, List.take_append_drop]

theorem aead_binding : aead.Binding GoodKey := by
  intro k k' n m m' hk hk' h
  change sealB k n m = sealB k' n m' at h
  unfold sealB at h
  have hlen : (tag k n (xorBytes m (stream k n m.length))).length
      = (tag k' n (xorBytes m' (stream k' n m'.length))).length := by simp [tag_length]
  obtain ⟨ht, hb⟩ := List.append_inj h hlen
  rw [hb] at ht
  unfold tag at ht
  have := xorBytes_cancel _ _ _ (by simp [keyPart_length, check_length]) (by simp [keyPart_length, check_length]) ht
  rw [keyPart_of_good k hk, keyPart_of_good k' hk', this]

theorem keyOfId_good (i : Nat) : GoodKey (keyOfId i) := by
  constructor
  · simp [keyOfId, leBytes_length, keySize]
  · unfold keyOfId
    rw [List.drop_left' (by simp [leBytes_length, overhead])]
    rfl

theorem zeroKey_good : GoodKey zeroKey := by
  constructor <;> decide

theorem kdf_good (b s : Bytes) (N R P : Int) : GoodKey (kdf b s N R P) := by
  constructor
  · simp [kdf, leBytes_length, keySize]
  · unfold kdf
    rw [List.drop_left' (by simp [leBytes_length, overhead])]
    rfl

/-! ### the toy also has the idealised distance property (for every key) -/

theorem foldl_xor_acc (acc : UInt8) (l : Bytes) : l.foldl (· ^^^ ·) acc = acc ^^^ l.foldl (· ^^^ ·) 0 := by
  induction l generalizing acc with
  | nil => simp
  | cons x xs ih =>
    simp only [List.foldl_cons]
    rw [ih (acc ^^^ x), ih (0 ^^^ x), UInt8.zero_xor, UInt8.xor_assoc]

theorem parity_append (a b : Bytes) : parity (a ++ b) = parity a ^^^ parity b := by
  unfold parity
  rw [List.foldl_append, foldl_xor_acc]

theorem parity_cons (x : UInt8) (l : Bytes) : parity (x :: l) = x ^^^ parity l := by
  unfold parity
  rw [List.foldl_cons, foldl_xor_acc, UInt8.zero_xor]

theorem parity_modify (l : Bytes) (i : Nat) (x : UInt8) (h : i < l.length) :
    parity (l.modify i (· ^^^ x)) = parity l ^^^ x := by
  induction l generalizing i with
  | nil => simp at h
  | cons y ys ih =>
    cases i with
    | zero =>
      simp only [List.modify_zero_cons, parity_cons]
      rw [UInt8.xor_assoc, UInt8.xor_comm x, ← UInt8.xor_assoc]
    | succ i =>
      simp only [List.modify_succ_cons, parity_cons]
      rw [ih i (by simpa using h), UInt8.xor_assoc]

theorem xor_right_ne (a x : UInt8) (hx : x ≠ 0) : a ^^^ x ≠ a := xor_ne_self a x hx

/-- equal check values ⇒ equal length field and equal parity byte -/
theorem check_inj (n b n' b' : Bytes) (h : check n b = check n' b') :
    leBytes 8 b.length = leBytes 8 b'.length ∧ parity (n ++ b) = parity (n' ++ b') := by
  unfold check at h
  simp only [List.append_assoc] at h
  obtain ⟨h1, h2⟩ := List.append_inj h (by simp [leBytes_length])
  refine ⟨h1, ?_⟩
  simp only [List.cons_append, List.nil_append, List.cons.injEq] at h2
  exact h2.1

theorem tag_inj (k n b n' b' : Bytes) (h : tag k n b = tag k n' b') : check n b = check n' b' := by
  unfold tag at h
  have h' : xorBytes (check n b) (keyPart k) = xorBytes (check n' b') (keyPart k) := by
    unfold xorBytes at *
    rw [List.zipWith_comm_of_comm (f := fun (a b : UInt8) => a ^^^ b) (fun a b => UInt8.xor_comm a b)]
    rw [h]
    rw [List.zipWith_comm_of_comm (f := fun (a b : UInt8) => a ^^^ b) (fun a b => UInt8.xor_comm a b)]
  exact xorBytes_cancel _ _ _ (by simp [keyPart_length, check_length]) (by simp [keyPart_length, check_length]) h'

theorem enc_eq (k n m : Bytes) :
    encryptWith aead n k m = n ++ (tag k n (xorBytes m (stream k n m.length)) ++ xorBytes m (stream k n m.length)) := rfl

theorem aead_distance (k : Bytes) : aead.Distance k := by
  intro n m n' m' hn hn' hm hm' hne
  rw [enc_eq, enc_eq] at *
  generalize hb : xorBytes m (stream k n m.length) = b at *
  generalize hb' : xorBytes m' (stream k n' m'.length) = b' at *
  have hbl : b.length = m.length := by rw [← hb]; exact body_length k n m
  have hbl' : b'.length = m'.length := by rw [← hb']; exact body_length k n' m'
  have htl := tag_length k n b
  have htl' := tag_length k n' b'
  have hnn : n.length = 24 := hn
  have hnn' : n'.length = 24 := hn'
  have hov : overhead = 16 := rfl
  constructor
  · -- bit flips
    rintro ⟨i, hi, he⟩
    unfold flipBit at he
    have hidx : i / 8 < 24 + (16 + b.length) := by
      simp only [List.length_append, htl, hnn, hov] at hi; omega
    generalize hx : ((1 : UInt8) <<< UInt8.ofNat (i % 8)) = x at he
    have hx0 : x ≠ 0 := by rw [← hx]; exact one_shl_ne_zero _ (Nat.mod_lt _ (by decide))
    generalize i / 8 = idx at *
    by_cases h1 : idx < 24
    · -- in the nonce
      rw [modify_append_left _ _ _ _ (by omega)] at he
      obtain ⟨e1, e2⟩ := List.append_inj he (by simp [hnn, hnn'])
      obtain ⟨e3, e4⟩ := List.append_inj e2 (by rw [htl, htl'])
      subst e4
      have := (check_inj _ _ _ _ (tag_inj _ _ _ _ _ e3)).2
      rw [e1, parity_append, parity_append, parity_modify _ _ _ (by omega)] at this
      have h2 : parity n ^^^ x = parity n := by
        have := congrArg (· ^^^ parity b') this
        simpa [UInt8.xor_assoc] using this
      exact xor_ne_self _ _ hx0 h2
    · rw [modify_append_right _ _ _ _ (by omega)] at he
      obtain ⟨e1, e2⟩ := List.append_inj he (by simp [hnn, hnn'])
      subst e1
      by_cases h2 : idx - n'.length < 16
      · -- in the tag: nonce and body unchanged, so the ciphertexts coincide
        rw [modify_append_left _ _ _ _ (by omega)] at e2
        obtain ⟨e3, e4⟩ := List.append_inj e2 (by simp [htl, htl'])
        subst e4
        exact hne rfl
      · rw [modify_append_right _ _ _ _ (by omega)] at e2
        obtain ⟨e3, e4⟩ := List.append_inj e2 (by rw [htl, htl'])
        have := (check_inj _ _ _ _ (tag_inj _ _ _ _ _ e3)).2
        rw [e4, parity_append, parity_append, parity_modify _ _ _ (by omega)] at this
        have h3 : parity b ^^^ x = parity b := by
          have := congrArg (parity n' ^^^ ·) this
          simpa [← UInt8.xor_assoc] using this
        exact xor_ne_self _ _ hx0 h3
  · -- truncations
    rintro ⟨j, hj, he⟩
    have hpre : (n' ++ (tag k n' b' ++ b')) ++ (n ++ (tag k n b ++ b)).drop j = n ++ (tag k n b ++ b) := by
      rw [he, List.take_append_drop]
    have hl : (n' ++ (tag k n' b' ++ b')).length = j := by
      rw [he]; simp only [List.length_take]; omega
    simp only [List.append_assoc] at hpre
    obtain ⟨e1, e2⟩ := List.append_inj hpre (by simp [hnn, hnn'])
    subst e1
    obtain ⟨e3, e4⟩ := List.append_inj e2 (by rw [htl, htl'])
    have := (check_inj _ _ _ _ (tag_inj _ _ _ _ _ e3)).1
    have hh := congrArg leNat this
    rw [leNat_leBytes, leNat_leBytes] at hh
    simp only [List.length_append, htl, htl', hnn, hov] at hl hj
    unfold maxLen at hm hm'
    omega

end Toy
end Crypto
