import BtcwVerif.Lemmas.KSorted
import BtcwVerif.Lemmas.RefAll
/-!
# Every bucket of the store is in bbolt key order — along EVERY sequence of store operations

`SortedS s`: each of the nine buckets of `s` is strictly ascending in `KOrd.lt` (= the byte order of the serialized keys
of `wtxmgr/db.go`).  Every write of the model is a bbolt `Put` (`KMap.insert`) or `Delete` (`KMap.erase`), both keep a
bucket ascending, so `SortedS` is preserved by every store operation UNCONDITIONALLY (no consistency hypothesis on the
events): `sortedS_stepEvent`, `sortedS_storeAfter`.  This is what fixes the ORDER in which the queries list records
(cursor order): `Lemmas/RefExact.lean`.
-/
namespace TxStore
open KMap Ledger

structure SortedS (s : Store) : Prop where
  blocks : Sorted s.blocks
  txrecs : Sorted s.txrecs
  credits : Sorted s.credits
  unspent : Sorted s.unspent
  debits : Sorted s.debits
  unmined : Sorted s.unmined
  unminedCredits : Sorted s.unminedCredits
  unminedInputs : Sorted s.unminedInputs
  locked : Sorted s.locked

theorem sortedS_empty : SortedS Store.empty :=
  ⟨sorted_nil, sorted_nil, sorted_nil, sorted_nil, sorted_nil, sorted_nil, sorted_nil, sorted_nil, sorted_nil⟩

theorem foldl_inv {α β : Type} (P : β → Prop) (f : β → α → β) (hf : ∀ b a, P b → P (f b a)) :
    ∀ (l : List α) (b : β), P b → P (l.foldl f b) := by
  intro l
  induction l with
  | nil => intro b hp; exact hp
  | cons a t ih => intro b hp; exact ih _ (hf b a hp)

theorem foldlM_inv {α β : Type} (P : β → Prop) (f : β → α → M β) (hf : ∀ b a b', P b → f b a = .ok b' → P b') :
    ∀ (l : List α) (b b' : β), P b → l.foldlM f b = .ok b' → P b' := by
  intro l
  induction l with
  | nil => intro b b' hp h; simp at h; subst h; exact hp
  | cons a t ih =>
    intro b b' hp h
    rw [List.foldlM_cons] at h
    cases hfa : f b a with
    | error e => rw [hfa] at h; cases h
    | ok b1 => rw [hfa, bind_ok] at h; exact ih b1 b' (hf b a b1 hp hfa) h

/-! ### db.go primitives -/

theorem sortedS_putRawUnminedInput (s : Store) (k : OutPoint) (h : Nat) (hs : SortedS s) :
    SortedS (putRawUnminedInput s k h) :=
  { hs with unminedInputs := sorted_insert _ _ _ hs.unminedInputs }

theorem sortedS_deleteRawUnminedInput (s : Store) (k : OutPoint) (h : Nat) (hs : SortedS s) :
    SortedS (deleteRawUnminedInput s k h) := by
  unfold deleteRawUnminedInput
  split
  · exact hs
  · split
    · exact hs
    · dsimp only
      split
      · exact { hs with unminedInputs := sorted_erase _ _ hs.unminedInputs }
      · exact { hs with unminedInputs := sorted_insert _ _ _ hs.unminedInputs }

theorem sortedS_unlockOutputRaw (s : Store) (op : OutPoint) (hs : SortedS s) : SortedS (unlockOutputRaw s op) :=
  { hs with locked := sorted_erase _ _ hs.locked }

/-! ### unconfirmed.go -/

theorem sortedS_insertMemPoolTx {s s' : Store} {rec : Tx} (hs : SortedS s) (h : insertMemPoolTx s rec = .ok s') :
    SortedS s' := by
  unfold insertMemPoolTx at h
  split at h
  · cases h
  · split at h
    · cases h; exact hs
    · cases h
      exact foldl_inv SortedS _ (fun a p hp => sortedS_putRawUnminedInput a p rec.hash hp) _ _
        { hs with unmined := sorted_insert _ _ _ hs.unmined }

/-- sortedness is kept across an operation -/
def KeepsSorted (s s' : Store) : Prop := SortedS s → SortedS s'

theorem keepsSorted_removeConflict (n : Nat) (s : Store) (t : Tx) (s' : Store) (h : removeConflict n s t = .ok s') :
    KeepsSorted s s' :=
  removeConflict_rel KeepsSorted (fun _ => id) (fun _ _ _ h1 h2 hn => h2 (h1 hn))
    (fun s k hs => { hs with unminedCredits := sorted_erase _ _ hs.unminedCredits })
    (fun s k h hs => sortedS_deleteRawUnminedInput s k h hs)
    (fun s h hs => { hs with unmined := sorted_erase _ _ hs.unmined }) n s t s' h

theorem sortedS_removeUnminedTx {s s' : Store} {rec : Tx} (hs : SortedS s) (h : removeUnminedTx s rec = .ok s') :
    SortedS s' := keepsSorted_removeConflict _ _ _ _ h hs

theorem sortedS_removeDoubleSpends {s s' : Store} {rec : Tx} (hs : SortedS s) (h : removeDoubleSpends s rec = .ok s') :
    SortedS s' := by
  unfold removeDoubleSpends at h
  refine foldlM_inv SortedS _ ?_ _ s s' hs h
  intro a inp a' ha hstep
  refine foldlM_inv SortedS _ ?_ _ a a' ha hstep
  intro b hh b' hb hst
  split at hst
  · simp only [pure_eq, Except.ok.injEq] at hst; subst hst; exact hb
  · split at hst
    · simp only [pure_eq, Except.ok.injEq] at hst; subst hst; exact hb
    · exact keepsSorted_removeConflict _ _ _ _ hst hb

/-- the loop that removes the unconfirmed spenders of a list of outputs (`rollback`, last part) -/
theorem sortedS_removeSpenders {s s' : Store} (ops : List OutPoint) (hs : SortedS s)
    (h : ops.foldlM (fun s op =>
      (spendHashes s op).foldlM (fun s h =>
        match s.unmined.find? h with
        | none => pure s
        | some t => removeConflict (fuelOf s) s t) s) s = .ok s') : SortedS s' := by
  refine foldlM_inv SortedS _ ?_ _ s s' hs h
  intro a op a' ha hstep
  refine foldlM_inv SortedS _ ?_ _ a a' ha hstep
  intro b hh b' hb hst
  split at hst
  · simp only [pure_eq, Except.ok.injEq] at hst; subst hst; exact hb
  · exact keepsSorted_removeConflict _ _ _ _ hst hb

/-! ### tx.go: inserting -/

theorem sortedS_spendInput (rec : Tx) (block : Block) (acc : Store × Int) (ii : Nat × OutPoint)
    (hs : SortedS acc.1) : SortedS (spendInput rec block acc ii).1 := by
  obtain ⟨s, bal⟩ := acc
  obtain ⟨i, inp⟩ := ii
  unfold spendInput
  simp only
  split
  · exact hs
  · simp only [spendCredit]
    exact { hs with credits := sorted_insert _ _ _ hs.credits, debits := sorted_insert _ _ _ hs.debits,
                    unspent := sorted_erase _ _ hs.unspent }

theorem sortedS_moveCredit (rec : Tx) (block : Block) (acc : Store × Int) (kv : OutPoint × UCredit)
    (hs : SortedS acc.1) : SortedS (moveCredit rec block acc kv).1 := by
  obtain ⟨s, bal⟩ := acc
  obtain ⟨k, uc⟩ := kv
  unfold moveCredit
  exact { hs with credits := sorted_insert _ _ _ hs.credits, unspent := sorted_insert _ _ _ hs.unspent }

theorem sortedS_updateMinedBalance (s : Store) (rec : Tx) (block : Block) (hs : SortedS s) :
    SortedS (updateMinedBalance s rec block) := by
  unfold updateMinedBalance
  simp only
  have h1 := foldl_inv (fun acc : Store × Int => SortedS acc.1) (spendInput rec block)
    (fun b a hb => sortedS_spendInput rec block b a hb) (withIdx rec.ins) (s, s.minedBalance) hs
  generalize List.foldl (spendInput rec block) (s, s.minedBalance) (withIdx rec.ins) = acc1 at h1
  obtain ⟨s1, b1⟩ := acc1
  simp only at h1 ⊢
  have h2 := foldl_inv (fun acc : Store × Int => SortedS acc.1) (moveCredit rec block)
    (fun b a hb => sortedS_moveCredit rec block b a hb) (unminedCreditsOf s1 rec.hash) (s1, b1) h1
  generalize List.foldl (moveCredit rec block) (s1, b1) (unminedCreditsOf s1 rec.hash) = acc2 at h2
  obtain ⟨s2, b2⟩ := acc2
  simp only at h2 ⊢
  split
  · exact { h2 with }
  · exact h2

theorem sortedS_deleteUnminedTx (s : Store) (rec : Tx) (hs : SortedS s) : SortedS (deleteUnminedTx s rec) := by
  unfold deleteUnminedTx
  have h1 := foldl_inv SortedS (fun s inp => deleteRawUnminedInput s inp rec.hash)
    (fun a p hp => sortedS_deleteRawUnminedInput a p rec.hash hp) rec.ins s hs
  have h2 := foldl_inv SortedS
    (fun s (p : Nat × Int) => { s with unminedCredits := s.unminedCredits.erase ⟨rec.hash, p.1⟩ })
    (fun a p hp => { hp with unminedCredits := sorted_erase _ _ hp.unminedCredits }) (withIdx rec.outs) _ h1
  exact { h2 with unmined := sorted_erase _ _ h2.unmined }

theorem sortedS_recordTx (s : Store) (rec : Tx) (bm : BlockMeta) (hs : SortedS s) : SortedS (recordTx s rec bm) := by
  rw [recordTx_fields]
  exact { hs with blocks := sorted_insert _ _ _ hs.blocks, txrecs := sorted_insert _ _ _ hs.txrecs }

theorem sortedS_insertMinedTx {s s' : Store} {rec : Tx} {bm : BlockMeta} (hs : SortedS s)
    (h : insertMinedTx s rec bm = .ok s') : SortedS s' := by
  rw [insertMinedTx_eq] at h
  split at h
  · cases h
  · simp only at h
    have h1 := sortedS_updateMinedBalance _ rec bm.block (sortedS_recordTx s rec bm hs)
    generalize updateMinedBalance (recordTx s rec bm) rec bm.block = s1 at h h1
    have h2 : SortedS (if s1.unmined.contains rec.hash then deleteUnminedTx s1 rec else s1) := by
      split
      · exact sortedS_deleteUnminedTx s1 rec h1
      · exact h1
    generalize (if s1.unmined.contains rec.hash then deleteUnminedTx s1 rec else s1) = s2 at h h2
    cases hrd : removeDoubleSpends s2 rec with
    | error e => rw [hrd] at h; cases h
    | ok s3 =>
      rw [hrd, bind_ok] at h
      simp only [pure_eq, Except.ok.injEq] at h
      subst h
      exact foldl_inv SortedS unlockOutputRaw (fun a p hp => sortedS_unlockOutputRaw a p hp) _ _
        (sortedS_removeDoubleSpends h2 hrd)

theorem sortedS_insertTx {s s' : Store} {rec : Tx} {block : Option BlockMeta} {ex : Bool} (hs : SortedS s)
    (h : insertTx s rec block = .ok (ex, s')) : SortedS s' := by
  unfold insertTx at h
  cases block with
  | none =>
    simp only at h
    cases hr : insertMemPoolTx s rec with
    | error e =>
      rw [hr] at h
      cases e <;> simp only [pure_eq, throw_eq, Except.ok.injEq, Prod.mk.injEq, reduceCtorEq] at h
      obtain ⟨_, rfl⟩ := h; exact hs
    | ok s1 =>
      rw [hr] at h
      simp only [pure_eq, Except.ok.injEq, Prod.mk.injEq] at h
      obtain ⟨_, rfl⟩ := h
      exact sortedS_insertMemPoolTx hs hr
  | some bm =>
    simp only at h
    cases hr : insertMinedTx s rec bm with
    | error e =>
      rw [hr] at h
      cases e <;> simp only [pure_eq, throw_eq, Except.ok.injEq, Prod.mk.injEq, reduceCtorEq] at h
      obtain ⟨_, rfl⟩ := h; exact hs
    | ok s1 =>
      rw [hr] at h
      simp only [pure_eq, Except.ok.injEq, Prod.mk.injEq] at h
      obtain ⟨_, rfl⟩ := h
      exact sortedS_insertMinedTx hs hr

theorem sortedS_addCredit {s s' : Store} {rec : Tx} {block : Option BlockMeta} {i : Nat} {chg : Bool}
    (hs : SortedS s) (h : addCredit s rec block i chg = .ok s') : SortedS s' := by
  unfold addCredit at h
  split at h
  · cases h
  · cases block with
    | none =>
      simp only at h
      split at h
      · cases h; exact hs
      · split at h
        · cases h; exact hs
        · cases h; exact { hs with unminedCredits := sorted_insert _ _ _ hs.unminedCredits }
    | some bm =>
      simp only at h
      split at h
      · cases h; exact hs
      · cases h
        exact { hs with credits := sorted_insert _ _ _ hs.credits, unspent := sorted_insert _ _ _ hs.unspent }

theorem sortedS_addCredits {rec : Tx} {block : Option BlockMeta} : ∀ (cr : List (Nat × Bool)) {s s' : Store},
    SortedS s → cr.foldlM (fun s (p : Nat × Bool) => addCredit s rec block p.1 p.2) s = .ok s' → SortedS s' := by
  intro cr s s' hs h
  exact foldlM_inv SortedS _ (fun b a b' hb hst => sortedS_addCredit hb hst) cr s s' hs h

theorem sortedS_addRelevantTx {s s' : Store} {force ex : Bool} {t : Tx} {bm : Option BlockMeta}
    {cr : List (Nat × Bool)} (hs : SortedS s) (h : addRelevantTx force s t bm cr = .ok (ex, s')) : SortedS s' := by
  unfold addRelevantTx at h
  cases hi : insertTx s t bm with
  | error e => rw [hi] at h; cases h
  | ok r =>
    obtain ⟨ex1, s1⟩ := r
    have h1 := sortedS_insertTx hs hi
    rw [hi, bind_ok] at h
    simp only at h
    split at h
    · simp only [pure_eq, Except.ok.injEq, Prod.mk.injEq] at h
      obtain ⟨_, rfl⟩ := h; exact h1
    · split at h
      · cases hc : cr.foldlM (fun s (p : Nat × Bool) => addCredit s t bm p.1 p.2) s1 with
        | error e => rw [hc] at h; cases h
        | ok s2 =>
          rw [hc, bind_ok] at h
          simp only [pure_eq, Except.ok.injEq, Prod.mk.injEq] at h
          obtain ⟨_, rfl⟩ := h
          exact sortedS_addCredits cr h1 hc
      · cases hc : cr.foldlM (fun s (p : Nat × Bool) => addCredit s t bm p.1 p.2) s1 with
        | error e => rw [hc] at h; cases h
        | ok s2 =>
          rw [hc, bind_ok] at h
          simp only [pure_eq, Except.ok.injEq, Prod.mk.injEq] at h
          obtain ⟨_, rfl⟩ := h
          exact sortedS_addCredits cr h1 hc

/-! ### tx.go: rollback -/

theorem sortedS_rbEraseCore (rec : Tx) (blk : Block) (r : RB) (i : Nat) (value : Int) (b : Bool) (hs : SortedS r.s) :
    SortedS (rbEraseCore rec blk r i value b).s := by
  unfold rbEraseCore
  split
  · exact hs
  · rename_i v _
    have huc : Sorted (if b = true then r.s.unminedCredits.insert ⟨rec.hash, i⟩ ⟨v.amount, v.change⟩
        else r.s.unminedCredits) := by
      split
      · exact sorted_insert _ _ _ hs.unminedCredits
      · exact hs.unminedCredits
    simp only
    split
    · exact { hs with unminedCredits := huc, credits := sorted_erase _ _ hs.credits,
                      unspent := sorted_erase _ _ hs.unspent }
    · exact { hs with unminedCredits := huc, credits := sorted_erase _ _ hs.credits }

theorem sortedS_rbCoinbaseOut (rec : Tx) (blk : Block) (r : RB) (io : Nat × Int) (hs : SortedS r.s) :
    SortedS (rbCoinbaseOut rec blk r io).s := by
  obtain ⟨i, value⟩ := io
  rw [(rbCoinbaseOut_eq rec blk r i value).1]
  exact sortedS_rbEraseCore rec blk r i value false hs

theorem sortedS_rbOutput (rec : Tx) (blk : Block) (r : RB) (io : Nat × Int) (hs : SortedS r.s) :
    SortedS (rbOutput rec blk r io).s := by
  obtain ⟨i, value⟩ := io
  rw [rbOutput_eq]
  exact sortedS_rbEraseCore rec blk r i value true hs

theorem sortedS_rbInputCore (rec : Tx) (blk : Block) (r : RB) (i : Nat) (inp : OutPoint) (hs : SortedS r.s) :
    SortedS (rbInputCore rec blk r i inp).s := by
  unfold rbInputCore
  split
  · exact hs
  · split
    · exact { hs with debits := sorted_erase _ _ hs.debits }
    · exact { hs with credits := sorted_insert _ _ _ hs.credits, debits := sorted_erase _ _ hs.debits,
                      unspent := sorted_insert _ _ _ hs.unspent }

theorem sortedS_rbInput (rec : Tx) (blk : Block) (r : RB) (ii : Nat × OutPoint) (hs : SortedS r.s) :
    SortedS (rbInput rec blk r ii).s := by
  obtain ⟨i, inp⟩ := ii
  rw [rbInput_eq]
  exact sortedS_rbInputCore rec blk _ i inp (sortedS_putRawUnminedInput _ _ _ hs)

theorem sortedS_rbTx (blk : Block) (r r' : RB) (txHash : Nat) (hs : SortedS r.s) (h : rbTx blk r txHash = .ok r') :
    SortedS r'.s := by
  unfold rbTx at h
  split at h
  · cases h
  · rename_i rec _
    have h0 : SortedS ({ r with s := { r.s with txrecs := r.s.txrecs.erase ⟨txHash, blk⟩ } } : RB).s :=
      { hs with txrecs := sorted_erase _ _ hs.txrecs }
    simp only at h
    split at h
    · simp only [pure_eq, Except.ok.injEq] at h
      subst h
      exact foldl_inv (fun r : RB => SortedS r.s) _ (fun b a hb => sortedS_rbCoinbaseOut rec blk b a hb) _ _ h0
    · simp only [pure_eq, Except.ok.injEq] at h
      subst h
      refine foldl_inv (fun r : RB => SortedS r.s) _ (fun b a hb => sortedS_rbOutput rec blk b a hb) _ _ ?_
      refine foldl_inv (fun r : RB => SortedS r.s) _ (fun b a hb => sortedS_rbInput rec blk b a hb) _ _ ?_
      exact { h0 with unmined := sorted_insert _ _ _ h0.unmined }

theorem sortedS_eraseBlocks (l : List (Nat × BlockRec)) (s : Store) (hs : SortedS s) :
    SortedS (l.foldl (fun s p => { s with blocks := s.blocks.erase p.1 }) s) :=
  foldl_inv SortedS (fun (s : Store) (p : Nat × BlockRec) => { s with blocks := s.blocks.erase p.1 })
    (fun a p hp => { hp with blocks := sorted_erase _ _ hp.blocks }) l s hs

theorem sortedS_rollback {s s' : Store} {height : Int} (hs : SortedS s) (h : rollback s height = .ok s') :
    SortedS s' := by
  unfold rollback at h
  simp only [bind, Except.bind] at h
  split at h
  · cases h
  · rename_i r hr
    split at h
    · cases h
    · rename_i s2 hs2
      simp only [pure, Except.pure, Except.ok.injEq] at h
      subst h
      have hr' : SortedS r.s := by
        refine foldlM_inv (fun r : RB => SortedS r.s) _ ?_ _ _ r hs hr
        intro a p a' ha hstep
        exact foldlM_inv (fun r : RB => SortedS r.s) _ (fun b t b' hb hst => sortedS_rbTx _ b b' t hb hst) _ _ _ ha hstep
      have h2 := sortedS_removeSpenders r.cb (sortedS_eraseBlocks _ _ hr') hs2
      exact { h2 with }

/-! ### leases -/

theorem sortedS_lockOutput {s s' : Store} {now id : Nat} {op : OutPoint} {d e : Int} (hs : SortedS s)
    (h : lockOutput s now id op d = .ok (e, s')) : SortedS s' := by
  by_cases hk : isKnownOutput s op = true
  · cases hl : isLockedOutput s op now with
    | none =>
      simp [lockOutput, hk, hl] at h
      obtain ⟨_, rfl⟩ := h
      exact { hs with locked := sorted_insert _ _ _ hs.locked }
    | some l =>
      by_cases hid : l.id = id
      · simp [lockOutput, hk, hl, hid] at h
        obtain ⟨_, rfl⟩ := h
        exact { hs with locked := sorted_insert _ _ _ hs.locked }
      · simp [lockOutput, hk, hl, hid] at h
  · simp [lockOutput, hk] at h

theorem sortedS_unlockOutput {s s' : Store} {now id : Nat} {op : OutPoint} (hs : SortedS s)
    (h : unlockOutput s now id op = .ok s') : SortedS s' := by
  unfold unlockOutput at h
  split at h
  · cases h
  · split at h
    · cases h; exact hs
    · split at h
      · cases h
      · cases h; exact sortedS_unlockOutputRaw s op hs

theorem sortedS_sweep (s : Store) (now : Nat) (hs : SortedS s) : SortedS (deleteExpiredLockedOutputs s now) := by
  unfold deleteExpiredLockedOutputs
  exact foldl_inv SortedS (fun s (p : OutPoint × Lease) => unlockOutputRaw s p.1)
    (fun a p hp => sortedS_unlockOutputRaw a p.1 hp) _ s hs

/-! ### events and histories -/

/-- **one event keeps every bucket in key order** (any event, consistent or not) -/
theorem sortedS_stepEvent {s s' : Store} {now : Nat} {e : Event} (hs : SortedS s) (h : stepEvent s now e = .ok s') :
    SortedS s' := by
  cases e with
  | seen t cr =>
    simp only [stepEvent] at h
    cases hr : addRelevantTx false s t none cr with
    | error x => rw [hr] at h; cases h
    | ok r =>
      obtain ⟨ex, s1⟩ := r
      rw [hr, bind_ok] at h
      simp only [pure_eq, Except.ok.injEq] at h
      subst h
      exact sortedS_addRelevantTx hs hr
  | confirmed bm t cr =>
    simp only [stepEvent] at h
    cases hr : addRelevantTx false s t (some bm) cr with
    | error x => rw [hr] at h; cases h
    | ok r =>
      obtain ⟨ex, s1⟩ := r
      rw [hr, bind_ok] at h
      simp only [pure_eq, Except.ok.injEq] at h
      subst h
      exact sortedS_addRelevantTx hs hr
  | disconnected ht => exact sortedS_rollback hs h
  | abandoned t => exact sortedS_removeUnminedTx hs h
  | lease id op d =>
    simp only [stepEvent] at h
    cases hr : lockOutput s now id op d with
    | error x => rw [hr] at h; simp only [pure_eq, Except.ok.injEq] at h; subst h; exact hs
    | ok r =>
      obtain ⟨ex, s1⟩ := r
      rw [hr] at h
      simp only [pure_eq, Except.ok.injEq] at h
      subst h
      exact sortedS_lockOutput hs hr
  | release id op =>
    simp only [stepEvent] at h
    cases hr : unlockOutput s now id op with
    | error x => rw [hr] at h; simp only [pure_eq, Except.ok.injEq] at h; subst h; exact hs
    | ok s1 =>
      rw [hr] at h
      simp only [pure_eq, Except.ok.injEq] at h
      subst h
      exact sortedS_unlockOutput hs hr
  | sweep =>
    simp only [stepEvent, pure_eq, Except.ok.injEq] at h
    subst h
    exact sortedS_sweep s now hs
  | clock t =>
    simp only [stepEvent, pure_eq, Except.ok.injEq] at h
    subst h; exact hs

/-- **every history** -/
theorem sortedS_storeAfter : ∀ (es : List Event) (s : Store) (L : Ledger) (s' : Store), SortedS s →
    storeAfter s L es = .ok s' → SortedS s' := by
  intro es
  induction es with
  | nil => intro s L s' hs h; simp only [storeAfter, pure_eq, Except.ok.injEq] at h; subst h; exact hs
  | cons e es ih =>
    intro s L s' hs h
    simp only [storeAfter] at h
    cases h1 : stepEvent s L.now e with
    | error x => rw [h1] at h; cases h
    | ok s1 =>
      rw [h1, bind_ok] at h
      exact ih s1 _ s' (sortedS_stepEvent hs h1) h

/-- from the empty store: the refinement invariant plus key order of every bucket -/
theorem good_sorted_reachable (es : List Event) (hc : ConsistentHistory {} es) :
    ∃ s, storeAfter Store.empty {} es = .ok s ∧ Good s (ledgerAfter {} es) ∧ NoConflict (ledgerAfter {} es) ∧
      SortedS s := by
  obtain ⟨s, h1, hg, hn⟩ := good_reachable es hc
  exact ⟨s, h1, hg, hn, sortedS_storeAfter es _ _ s sortedS_empty h1⟩

end TxStore
