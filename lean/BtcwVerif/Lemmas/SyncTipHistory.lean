import BtcwVerif.Model.SyncTip
/-!
# `Wallet.GetTransactions` at the level of records (`SyncTip.getTransactions`): every mined record in the range is
reported exactly once, under its block; lemmas for Props/C13.lean (wallet level).  Core only.
-/
namespace SyncTip

theorem mem_insUniq (a x : Nat) (l : List Nat) : x ∈ insUniq a l ↔ x = a ∨ x ∈ l := by
  induction l with
  | nil => simp [insUniq]
  | cons b l ih =>
    unfold insUniq
    split
    · simp
    · split
      · subst_vars; simp
      · simp only [List.mem_cons, ih]
        constructor
        · rintro (h | h | h)
          · exact Or.inr (Or.inl h)
          · exact Or.inl h
          · exact Or.inr (Or.inr h)
        · rintro (h | h | h)
          · exact Or.inr (Or.inl h)
          · exact Or.inl h
          · exact Or.inr (Or.inr h)

theorem pairwise_insUniq (a : Nat) (l : List Nat) (h : l.Pairwise (· < ·)) : (insUniq a l).Pairwise (· < ·) := by
  induction l with
  | nil => simp [insUniq]
  | cons b l ih =>
    rw [List.pairwise_cons] at h
    unfold insUniq
    split
    · rename_i hab
      refine List.pairwise_cons.2 ⟨?_, List.pairwise_cons.2 h⟩
      intro x hx
      rcases List.mem_cons.1 hx with rfl | hx
      · exact hab
      · exact Nat.lt_trans hab (h.1 x hx)
    · split
      · exact List.pairwise_cons.2 h
      · refine List.pairwise_cons.2 ⟨?_, ih h.2⟩
        intro x hx
        rcases (mem_insUniq a x l).1 hx with rfl | hx
        · omega
        · exact h.1 x hx

theorem mem_heightsOf (x : Nat) (l : List Nat) : x ∈ heightsOf l ↔ x ∈ l := by
  induction l with
  | nil => simp [heightsOf]
  | cons b l ih =>
    show x ∈ insUniq b (heightsOf l) ↔ _
    rw [mem_insUniq, ih]; simp

theorem pairwise_heightsOf (l : List Nat) : (heightsOf l).Pairwise (· < ·) := by
  induction l with
  | nil => simp [heightsOf]
  | cons b l ih => exact pairwise_insUniq b _ ih

theorem perm_insSorted (a : Nat) (l : List Nat) : (insSorted a l).Perm (a :: l) := by
  induction l with
  | nil => simp [insSorted]
  | cons b l ih =>
    unfold insSorted
    split
    · exact List.Perm.refl _
    · exact ((List.Perm.cons b ih).trans (List.Perm.swap a b l))

theorem perm_sortNat (l : List Nat) : (sortNat l).Perm l := by
  induction l with
  | nil => simp [sortNat]
  | cons b l ih =>
    show (insSorted b (sortNat l)).Perm _
    exact (perm_insSorted b _).trans (List.Perm.cons b ih)

theorem eq_of_nodup_map {α β : Type} (f : α → β) : ∀ (l : List α), (l.map f).Nodup → ∀ a ∈ l, ∀ b ∈ l, f a = f b → a = b
  | [], _, a, ha, _, _, _ => by simp at ha
  | x :: l, h, a, ha, b, hb, hab => by
    rw [List.map_cons, List.nodup_cons] at h
    rcases List.mem_cons.1 ha with ha' | ha' <;> rcases List.mem_cons.1 hb with hb' | hb'
    · rw [ha', hb']
    · have hm : f a ∈ l.map f := List.mem_map.2 ⟨b, hb', hab.symm⟩
      rw [ha'] at hm; exact absurd hm h.1
    · have hm : f b ∈ l.map f := List.mem_map.2 ⟨a, ha', hab⟩
      rw [hb'] at hm; exact absurd hm h.1
    · exact eq_of_nodup_map f l h.2 a ha' b hb' hab


theorem mined_eq (w : Wallet) (f t : Int) :
    (getTransactions w f t).mined = (reportedHeights w f t).map fun h => (h, txsAt w h) := by
  simp [reportedHeights, getTransactions, List.map_map, Function.comp_def]

theorem mem_reportedHeights (w : Wallet) (f t : Int) (h : Nat) :
    h ∈ reportedHeights w f t ↔ (∃ r ∈ w.mined, r.height = h) ∧ InRange f t h := by
  have hm : h ∈ recordHeights w ↔ ∃ r ∈ w.mined, r.height = h := by
    simp [recordHeights, mem_heightsOf]
  unfold reportedHeights getTransactions InRange
  simp only [List.map_map]
  by_cases hbe : rangeBound f < rangeBound t
  · simp only [hbe, if_true, List.mem_map, Function.comp_def, List.mem_filter, Bool.and_eq_true, decide_eq_true_eq, exists_eq_right, hm]
    constructor
    · rintro ⟨h1, h2⟩; exact ⟨h1, Or.inl h2⟩
    · rintro ⟨h1, h2 | h2⟩
      · exact ⟨h1, h2⟩
      · omega
  · simp only [hbe, if_false, List.mem_map, Function.comp_def, List.mem_reverse, List.mem_filter, Bool.and_eq_true, decide_eq_true_eq, exists_eq_right, hm]
    constructor
    · rintro ⟨h1, h2⟩; exact ⟨h1, Or.inr h2⟩
    · rintro ⟨h1, h2 | h2⟩
      · exact ⟨h1, by omega⟩
      · exact ⟨h1, h2⟩

theorem nodup_reportedHeights (w : Wallet) (f t : Int) : (reportedHeights w f t).Nodup := by
  have hp : (recordHeights w).Pairwise (· < ·) := pairwise_heightsOf _
  have hn : ∀ (p : Nat → Bool), ((recordHeights w).filter p).Nodup := fun p =>
    (hp.filter p).imp (fun h => Nat.ne_of_lt h)
  unfold reportedHeights getTransactions
  simp only [List.map_map]
  by_cases hbe : rangeBound f < rangeBound t
  · simpa [hbe, Function.comp_def] using hn _
  · have hr : ((recordHeights w).filter (fun h => decide (rangeBound t ≤ h) && decide (h ≤ rangeBound f))).reverse.Nodup :=
      List.pairwise_reverse.2 ((hn _).imp Ne.symm)
    simp only [hbe, if_false, Function.comp_def, List.map_id']
    exact hr

theorem txsAt_perm (w : Wallet) (h : Nat) :
    (txsAt w h).Perm ((w.mined.filter (fun r => r.height == h)).map (·.tx.id)) := perm_sortNat _


theorem mem_mined_iff (w : Wallet) (f t : Int) (h : Nat) (ids : List Nat) :
    (h, ids) ∈ (getTransactions w f t).mined ↔ h ∈ reportedHeights w f t ∧ ids = txsAt w h := by
  rw [mined_eq, List.mem_map]
  constructor
  · rintro ⟨x, hx, he⟩
    cases he
    exact ⟨hx, rfl⟩
  · rintro ⟨hx, rfl⟩
    exact ⟨h, hx, rfl⟩

theorem mem_txsAt (w : Wallet) (h id : Nat) : id ∈ txsAt w h ↔ ∃ r ∈ w.mined, r.height = h ∧ r.tx.id = id := by
  rw [(txsAt_perm w h).mem_iff]
  simp [List.mem_map, List.mem_filter, and_assoc]

/-- Every entry of `MinedTransactions` is a block record in the range holding exactly the ids recorded at its height. -/
theorem history_sound (w : Wallet) (f t : Int) (h : Nat) (ids : List Nat)
    (hm : (h, ids) ∈ (getTransactions w f t).mined) (id : Nat) (hid : id ∈ ids) :
    InRange f t h ∧ ∃ r ∈ w.mined, r.height = h ∧ r.tx.id = id := by
  obtain ⟨hh, rfl⟩ := (mem_mined_iff w f t h ids).1 hm
  exact ⟨((mem_reportedHeights w f t h).1 hh).2, (mem_txsAt w h id).1 hid⟩

/-- A mined record in the range is reported exactly once: under its block (which occurs once), once in that block's
    list, and under no other block — provided no transaction has two mined records. -/
theorem history_once (w : Wallet) (f t : Int) (hnd : (w.mined.map (·.tx.id)).Nodup) (r : Mined) (hr : r ∈ w.mined)
    (hin : InRange f t r.height) :
    (r.height, txsAt w r.height) ∈ (getTransactions w f t).mined ∧
    (reportedHeights w f t).count r.height = 1 ∧
    (txsAt w r.height).count r.tx.id = 1 ∧
    ∀ h ids, (h, ids) ∈ (getTransactions w f t).mined → r.tx.id ∈ ids → h = r.height := by
  have hh : r.height ∈ reportedHeights w f t := (mem_reportedHeights w f t r.height).2 ⟨⟨r, hr, rfl⟩, hin⟩
  refine ⟨(mem_mined_iff w f t _ _).2 ⟨hh, rfl⟩, ?_, ?_, ?_⟩
  · rw [(nodup_reportedHeights w f t).count, if_pos hh]
  · rw [(txsAt_perm w r.height).count_eq]
    have hsub : ((w.mined.filter (fun q => q.height == r.height)).map (·.tx.id)).Nodup :=
      hnd.sublist (List.filter_sublist.map _)
    rw [hsub.count, if_pos]
    exact List.mem_map.2 ⟨r, List.mem_filter.2 ⟨hr, by simp⟩, rfl⟩
  · intro h ids hm hid
    obtain ⟨_, q, hq, hqh, hqi⟩ := history_sound w f t h ids hm _ hid
    have := eq_of_nodup_map (fun (m : Mined) => m.tx.id) w.mined hnd q hq r hr hqi
    rw [← hqh, this]

/-- A record outside the range is not reported. -/
theorem history_out_of_range (w : Wallet) (f t : Int) (h : Nat) (ids : List Nat)
    (hm : (h, ids) ∈ (getTransactions w f t).mined) : InRange f t h :=
  ((mem_reportedHeights w f t h).1 ((mem_mined_iff w f t h ids).1 hm).1).2

/-- The unmined batch: every unmined record exactly as often as it is stored iff one of the bounds is negative. -/
theorem history_unmined (w : Wallet) (f t : Int) :
    (f < 0 ∨ t < 0 → (getTransactions w f t).unmined.Perm (w.unmined.map (·.id))) ∧
    (¬ (f < 0 ∨ t < 0) → (getTransactions w f t).unmined = []) := by
  constructor
  · intro h; simp only [getTransactions, if_pos h]; exact perm_sortNat _
  · intro h; simp only [getTransactions, if_neg h]

/-- Block order: ascending iff `from' < to'`, otherwise descending. -/
theorem history_order (w : Wallet) (f t : Int) :
    (rangeBound f < rangeBound t → (reportedHeights w f t).Pairwise (· < ·)) ∧
    (¬ rangeBound f < rangeBound t → (reportedHeights w f t).Pairwise (· > ·)) := by
  have hp : (recordHeights w).Pairwise (· < ·) := pairwise_heightsOf _
  unfold reportedHeights getTransactions
  simp only [List.map_map]
  constructor
  · intro hbe
    simp only [hbe, if_true, Function.comp_def, List.map_id']
    exact hp.filter _
  · intro hbe
    simp only [hbe, if_false, Function.comp_def, List.map_id']
    exact List.pairwise_reverse.2 (hp.filter _)

end SyncTip
